(* Model of the ELECTRON-SHELL part of the Molpro system library (libmol) writer / reader pair:
     writers/libmol.py   write_libmol     (the first line `spherical` / `cartesian`, `basis={`, then for every shell a header
                                           `SYM am name : nprim ncontr first.last ...`, a comment line and the numbers, five
                                           per row: the exponents, then for every contraction the coefficients first..last)
     writers/common.py   find_range, reshape
     readers/libmol.py   read_libmol, _parse_lines, _read_shell (element_shell_re, entry_re; ecp_re only as a test)
     readers/helpers.py  prune_lines, parse_line_regex_dict (regex.capturesdict, _convert_str_int), basis_name_re_str,
                         floating_re_str, integer_re_str
     lut.py              element_sym_from_Z / element_name_from_Z (normalize=False), element_Z_from_sym,
                         amint_to_char / amchar_to_int (hij=False)
     misc.py             contraction_string
     manip.py            create_element_data
   The ECP part is NOT modelled here: the writer model gets no ECP data, the reader model answers ENotImpl where
   _parse_lines would enter _read_ecp (Model/LibmolEcp.v has both).
   Text is a string of bytes, letters / digits / `\w` are ASCII (as everywhere in Model/).  The reader uses the third-party
   `regex` module, whose `\s` is [\t\n\v\f\r ] on ASCII - it does NOT contain FS GS RS US (28..31), which str.strip() and
   Model.Val.is_space do contain.  The matchers below refuse a line (or the part of it where only `\s`, `\w`, letters and
   name characters can match) that contains one of these four bytes, and use is_space / tokens_acc on the rest, where the
   two notions agree.
   Definitions only; statements in Proofs/LibmolDefs.v, proofs in Proofs/LibmolSpec.v. *)
From BSE Require Import Model.Val Model.Text Model.Num Model.Basis Model.Manip Model.Matrix Model.Lut Model.Elements
                        Model.Nwchem Model.G94.

(* ------------------------------------------------------------------ *)
(* writer                                                              *)
(* ------------------------------------------------------------------ *)

(* float(x) != 0 on the exact decimal value (Model.Num).  float() raises ValueError on a string that is not a number -
   among the strings matching helpers.floating_re these are the ones with a d / D exponent marker and the ones without
   any digit (`.`, `+.`, `.E1`).  (float() also maps values below about 4.9E-324 to 0.0; the model does not.) *)
Definition lmol_nonzero (x : string) : res bool :=
  match parse_num x with Some (m, _) => ok (negb (Z.eqb m 0)) | None => fail EValue end.

(* list.index(True): None stands for the ValueError *)
Fixpoint index_true (l : list bool) : option nat :=
  match l with [] => None | b :: t => if b then Some O else option_map S (index_true t) end.

(* writers/common.py find_range: positions (from 0) of the first and of the last non-zero coefficient *)
Definition find_range (c : list string) : res (nat * nat) :=
  do fl <- mapM lmol_nonzero c;
  match index_true fl, index_true (rev fl) with
  | Some first, Some r => ok (first, (List.length fl - r - 1)%nat)
  | _, _ => fail EValue
  end.

(* writers/common.py reshape(data, block_size): ceil(len / block_size) rows *)
Fixpoint chunks_fuel {A : Type} (fuel n : nat) (l : list A) : list (list A) :=
  match fuel with
  | O => []
  | S f => match l with [] => [] | _ => firstn n l :: chunks_fuel f n (skipn n l) end
  end.
Definition reshape {A : Type} (data : list A) (block_size : nat) : list (list A) :=
  chunks_fuel (List.length data) block_size data.

(* ' {}.{}'.format(first + 1, last + 1) *)
Definition lmol_range_str (fl : nat * nat) : string := " " +++ nat_str (S (fst fl)) +++ "." +++ nat_str (S (snd fl)).
(* c[first:last + 1] *)
Definition lmol_slice (c : list string) (fl : nat * nat) : list string := firstn (S (snd fl) - fst fl) (skipn (fst fl) c).

(* one iteration of `for shell in data['electron_shells']`.  shs = all shells of the element (misc.contraction_string(data)
   is evaluated for every shell) *)
Definition lmol_write_shell (bsname sym elname : string) (shs : list sshell) (s : sshell) : res string :=
  do amchar <- amint_to_char (am s) false false;
  do rs <- mapM find_range (coefs s);
  do cs <- contraction_string (Some (map nw_cshell shs)) false;
  let print_data := exps s ++ concat (map (fun cr => lmol_slice (fst cr) (snd cr)) (combine (coefs s) rs)) in
  ok (sym +++ " " +++ lower amchar +++ " " +++ bsname +++ " : " +++ nat_str (List.length (exps s)) +++ " " +++
      nat_str (List.length (coefs s)) +++ String.concat "" (map lmol_range_str rs) +++ nl1 +++
      elname +++ " " +++ cs +++ " converted by Basis Set Exchange" +++ nl1 +++
      String.concat "" (map (fun d => sjoin " " d +++ nl1) (reshape print_data 5))).

(* one iteration of `for z in electron_elements`: sym = lut.element_sym_from_Z(z).upper(); lut.element_name_from_Z(z)
   (the same table lookup) is evaluated for every shell *)
Definition lmol_write_element (bsname : string) (zs : Z * list sshell) : res string :=
  let '(z, shs) := zs in
  do sym <- element_sym_from_Z z false;
  do elname <- element_name_from_Z z false;
  do parts <- mapM (lmol_write_shell bsname (upper sym) elname shs) shs;
  ok (String.concat "" parts).

(* write_libmol, everything up to the ECP part (= the whole text when no element has 'ecp_potentials').
   harm   = 'cartesian' if 'gto_cartesian' in basis['function_types'] else 'spherical'
   bsname = basis['name']  (printed in every shell header; nothing else of the dictionary is printed: no role, no
            description, no references)
   els    = [(z, data['electron_shells'])] for the elements that have the key 'electron_shells', in dictionary order,
            AFTER the two normalisation calls the writer makes first:
              basis = manip.make_general(basis, False, True)   (uncontract_spdf(basis, 0): fused sp / spd shells split;
                                                                then ONE shell per angular momentum with all primitives
                                                                and all contractions of that momentum, zero-filled with
                                                                '0.00000000'; region '', function type of the first shell)
              basis = sort.sort_basis(basis, True)             (shells by momentum, primitives by decreasing exponent,
                                                                contractions by their first non-zero position)
   `if electron_elements:` : without such an element only the first line is written. *)
Definition lmol_write_electron (harm bsname : string) (els : list (Z * list sshell)) : res string :=
  match els with
  | [] => ok (harm +++ nl1)
  | _ =>
    do parts <- mapM (lmol_write_element bsname) els;
    ok (harm +++ nl1 +++ "basis={" +++ nl1 +++ String.concat "" parts)
  end.

(* ------------------------------------------------------------------ *)
(* reader: the regular expressions                                     *)
(* ------------------------------------------------------------------ *)

(* `\s` of the regex module on ASCII *)
Definition is_rspace (c : ascii) : bool :=
  let n := nat_of_ascii c in orb (andb (Nat.leb 9 n) (Nat.leb n 13)) (Nat.eqb n 32).
(* FS GS RS US: white space for str.strip(), not for `\s` *)
Definition odd_space (c : ascii) : bool := let n := nat_of_ascii c in andb (Nat.leb 28 n) (Nat.leb n 31).
Fixpoint lstrip_rs (s : string) : string :=
  match s with String c t => if is_rspace c then lstrip_rs t else s | EmptyString => EmptyString end.

Fixpoint first_some {A B : Type} (f : A -> option B) (l : list A) : option B :=
  match l with
  | [] => None
  | x :: t => match f x with Some y => Some y | None => first_some f t end
  end.

(* the text before the first `:` and the text after it *)
Fixpoint split_colon (s : string) : option (string * string) :=
  match s with
  | EmptyString => None
  | String c t =>
    if Ascii.eqb c ":" then Some (EmptyString, t)
    else match split_colon t with Some (a, b) => Some (String c a, b) | None => None end
  end.

Fixpoint span_word (s : string) : string * string :=
  match s with
  | String c t => if is_word c then let '(a, r) := span_word t in (String c a, r) else (EmptyString, s)
  | EmptyString => (EmptyString, EmptyString)
  end.

(* [spdfghikSPDFGHIK] *)
Definition is_am_char (c : ascii) : bool := sany (Ascii.eqb c) "spdfghikSPDFGHIK".
(* helpers.basis_name_re_str = \d*[a-zA-Z][a-zA-Z0-9\-\+\*\(\)\[\]]*  matched against a whole word *)
Definition is_name_char (c : ascii) : bool := orb (is_alpha c) (orb (is_digit c) (sany (Ascii.eqb c) "-+*()[]")).
Definition is_basis_name (t : string) : bool :=
  match skip_digits t with
  | String c r => andb (is_alpha c) (sall is_name_char r)
  | EmptyString => false
  end.

(* the part of element_shell_re before the colon:   ^\s*(?P<sym>\w+)\s+(?P<am>[spdfghikSPDFGHIK])\s*(?:\s*(?P<alias>N)\s* )+\s*   [one or more]
   with N = basis_name_re_str.  No piece of it can match a colon, so it has to match the text before the FIRST colon.
   sym is the first word (it has to be followed by white space), am the next non-blank character; what follows has to
   consist of one or more names and white space.  A word is a concatenation of names iff it is a name (letters and digits
   are name characters), so the condition is: at least one white-space delimited word, every word a name.  Nothing before
   the am character is needed between it and the first name (`H sto-3g :` has am = s, alias = to-3g).
   Returns sym and am (the aliases are not used by the reader). *)
Definition match_shell_head (a : string) : option (string * ascii) :=
  if sany odd_space a then None else
  let '(sym, r) := span_word (lstrip_ws a) in
  match sym, r with
  | String _ _, String c _ =>
    if is_space c then
      match lstrip_ws r with
      | String amc r2 =>
        if is_am_char amc then
          match tokens_acc r2 "" with
          | [] => None
          | ts => if forallb is_basis_name ts then Some (sym, amc) else None
          end
        else None
      | EmptyString => None
      end
    else None
  | _, _ => None
  end.

(* all the ways `\d+` can match at the head of s, in the order a backtracking matcher tries them (longest first):
   (the digits, the rest) *)
Fixpoint digit_prefixes (s : string) : list (string * string) :=
  match s with
  | String c t =>
    if is_digit c then map (fun ar => (String c (fst ar), snd ar)) (digit_prefixes t) ++ [(String c EmptyString, t)] else []
  | EmptyString => []
  end.

(* (?:\s*(?P<range>\d+.\d+)\s* )+\s*$   [one or more]   after the `\s*` that precedes it: the first match in backtracking order.
   `.` is ANY character but a newline (the writer prints a point).  A range is returned as (digits, character, digits). *)
Fixpoint match_ranges (fuel : nat) (s : string) : option (list (string * ascii * string)) :=
  match fuel with
  | O => None
  | S f =>
    first_some (fun dr1 =>
      match snd dr1 with
      | String c r2 =>
        if beq c 10 then None else
        first_some (fun dr2 =>
          let tok := (fst dr1, c, fst dr2) in
          let r4 := lstrip_rs (snd dr2) in
          match match_ranges f r4 with
          | Some l => Some (tok :: l)
          | None => match r4 with EmptyString => Some [tok] | _ => None end
          end) (digit_prefixes r2)
      | EmptyString => None
      end) (digit_prefixes (lstrip_rs s))
  end.

(* the part of element_shell_re after the colon:  \s*(?P<nprim>\d+)\s*(?P<ncontr>\d+)\s*(?:\s*(?P<range>\d+.\d+)\s* )+\s*$
   - the first match in backtracking order (`42 1.4 4.4` is nprim = 4, ncontr = 2) *)
Definition match_shell_tail (t : string) : option (string * string * list (string * ascii * string)) :=
  first_some (fun np =>
    first_some (fun nc =>
      match match_ranges (S (String.length (snd nc))) (snd nc) with
      | Some rs => Some (fst np, fst nc, rs)
      | None => None
      end) (digit_prefixes (lstrip_rs (snd np))))
    (digit_prefixes (lstrip_rs t)).

(* element_shell_re.match(line): (sym, am, nprim, ncontr, ranges) *)
Definition match_shell_line (l : string) : option (string * ascii * string * string * list (string * ascii * string)) :=
  match split_colon l with
  | None => None
  | Some (a, t) =>
    match match_shell_head a with
    | None => None
    | Some (sym, amc) =>
      match match_shell_tail t with
      | Some (np, nc, rs) => Some (sym, amc, np, nc, rs)
      | None => None
      end
    end
  end.

(* ecp_re.match(line):
     \s*(?P<sym>\w+)\s+ECP\s+(?:\s*(?P<alias>N)\s* )\s*:\s*(?P<ncore>\d+)\s+(?P<lmax>\d+)\s+(?P<lmaxso>\d+)\s+(?P<ndata>\d+)\s*$
   Before the first colon exactly three words: the symbol, `ECP` and ONE basis set name (the group has no `+`; the name is
   NOT optional); after it exactly four words of digits.  Returns (sym, ncore, lmax, lmaxso, ndata). *)
Definition match_ecp_line (l : string) : option (string * string * string * string * string) :=
  match split_colon l with
  | None => None
  | Some (a, t) =>
    if orb (sany odd_space a) (sany odd_space t) then None else
    match tokens_acc a "", tokens_acc t "" with
    | [sym; e; name], [ncore; lmax; lmaxso; ndata] =>
      if andb (andb (sall is_word sym) (String.eqb e "ECP"))
              (andb (is_basis_name name) (forallb (sall is_digit) [ncore; lmax; lmaxso; ndata]))
      then Some (sym, ncore, lmax, lmaxso, ndata) else None
    | _, _ => None
    end
  end.

(* ---- entry_re = ^\s*(?:\s*(?P<val>(F|I))\s* )+\s*$  [one or more]  with F = floating_re_str, I = integer_re_str ---- *)
(* all the ways (F|I) can match at the head of t, in backtracking order: (the value, the rest).
   F = [-+]?\d*\.\d*(?:[dDeE][-+]?\d+)?  : sign, integer digits and the point are forced; then the fraction digits longest
   first, with all of them the exponent part (its digits longest first) before the variant without it.
   I = [-+]?\d+ : the digits longest first. *)
Definition is_sign (c : ascii) : bool := orb (Ascii.eqb c "-") (Ascii.eqb c "+").
Definition is_expmark (c : ascii) : bool :=
  orb (orb (Ascii.eqb c "d") (Ascii.eqb c "D")) (orb (Ascii.eqb c "e") (Ascii.eqb c "E")).
(* \d* : longest first, the empty match last *)
Definition digit_prefixes0 (s : string) : list (string * string) := digit_prefixes s ++ [(EmptyString, s)].
Definition val_prefixes (t : string) : list (string * string) :=
  let '(sg, t1) := match t with String c r => if is_sign c then (String c EmptyString, r) else (EmptyString, t) | _ => (EmptyString, t) end in
  let '(ip, t2) := span_digit t1 in
  let floats :=
    match t2 with
    | String "." t3 =>
      let mant := sg +++ ip +++ "." in
      flat_map (fun fr =>
        let m := mant +++ fst fr in
        let with_exp :=
          match snd fr with
          | String e t4 =>
            if is_expmark e then
              let '(esg, t5) := match t4 with String c r => if is_sign c then (String c EmptyString, r) else (EmptyString, t4)
                                            | _ => (EmptyString, t4) end in
              map (fun ed => (m +++ String e esg +++ fst ed, snd ed)) (digit_prefixes t5)
            else []
          | EmptyString => []
          end in
        with_exp ++ [(m, snd fr)]) (digit_prefixes0 t3)
    | _ => []
    end in
  let ints := map (fun d => (sg +++ fst d, snd d)) (digit_prefixes t1) in
  floats ++ ints.

(* a word without white space as a sequence of values: the first decomposition in backtracking order *)
Fixpoint val_decomp (fuel : nat) (t : string) : option (list string) :=
  match fuel with
  | O => None
  | S f =>
    match t with
    | EmptyString => Some []
    | _ => first_some (fun pr => match val_decomp f (snd pr) with Some l => Some (fst pr :: l) | None => None end)
                      (val_prefixes t)
    end
  end.

(* the captures of `val` for one white-space delimited word.  A word that matches F or I entirely is one value (the
   greedy first attempt takes all of it); the words of a line are independent of each other *)
Definition word_vals (t : string) : res (list string) :=
  if orb (is_floating t) (is_integer t) then ok [t] else
  match val_decomp (S (String.length t)) t with Some l => ok l | None => fail ERuntime end.

(* helpers.parse_line_regex_dict(entry_re, line, ..., convert_int=False)['val'] : RuntimeError when there is no match *)
Definition entry_vals (line : string) : res (list string) :=
  if sany odd_space line then fail ERuntime else
  match tokens_acc line "" with
  | [] => fail ERuntime
  | ts => do vs <- mapM word_vals ts; ok (concat vs)
  end.

(* ------------------------------------------------------------------ *)
(* reader: helpers                                                     *)
(* ------------------------------------------------------------------ *)

(* helpers._convert_str_int applied to a capture made of word characters or of digits and one more character:
   int(s) succeeds on ASCII digits with single underscores between them *)
Fixpoint py_int_lit (s : string) (prev_digit : bool) : bool :=
  match s with
  | EmptyString => prev_digit
  | String c t =>
    if is_digit c then py_int_lit t true
    else if andb (Ascii.eqb c "_") prev_digit then py_int_lit t false
    else false
  end.

(* k if k.find('.') != -1 else k + '.0' *)
Definition add_point (k : string) : string := if sany (Ascii.eqb ".") k then k else k +++ ".0".

(* Python's l[a:b] for integers a, b (negative = from the end) *)
Definition py_index (len i : Z) : Z := if (i <? 0)%Z then Z.max 0 (len + i) else Z.min i len.
Definition py_slice {A : Type} (l : list A) (a b : Z) : list A :=
  let len := Z.of_nat (List.length l) in
  let a' := py_index len a in
  let b' := py_index len b in
  firstn (Z.to_nat (b' - a')) (skipn (Z.to_nat a') l).

(* the loop `while nreadin < nread: iline += 1; ...`.  cur = basis_lines[iline:]; returns rawdata and basis_lines[iline:]
   after the loop (iline is then the index of the last line read, or still that of the comment line) *)
Fixpoint lmol_read_entries (cur : list string) (nread : Z) (rawdata : list string) : res (list string * list string) :=
  if (nread <=? Z.of_nat (List.length rawdata))%Z then ok (rawdata, cur) else
  match cur with
  | [] => fail EIndex
  | _ :: cur' =>
    match cur' with
    | [] => fail EIndex
    | l :: _ => do vs <- entry_vals l; lmol_read_entries cur' nread (rawdata ++ map add_point vs)
    end
  end.

(* the loop `for i in range(ncontr)` *)
Fixpoint lmol_coefficients (rawdata : list string) (nprim : Z) (cranges : list (Z * Z)) (offset : Z) : list (list string) :=
  match cranges with
  | [] => []
  | (start, end_) :: t =>
    let nentries := (end_ - start + 1)%Z in
    let cc := py_slice rawdata offset (offset + nentries) in
    let cc1 := if (1 <? start)%Z then repeat "0.0" (Z.to_nat (start - 1)) ++ cc else cc in
    let cc2 := if (end_ <? nprim)%Z then cc1 ++ repeat "0.0" (Z.to_nat (nprim - end_)) else cc1 in
    cc2 :: lmol_coefficients rawdata nprim t (offset + nentries)%Z
  end.

(* ------------------------------------------------------------------ *)
(* reader                                                              *)
(* ------------------------------------------------------------------ *)

(* _read_shell(basis_lines, bs_data, iline).  caps = the captures of the header line basis_lines[iline],
   rest = basis_lines[iline + 1:].  Returns basis_lines[iline':] for the returned iline' and the new bs_data.
   bs_data: element -> its 'electron_shells', in insertion order (the Python key is str(Z), the model keeps Z). *)
Definition lmol_read_shell (caps : string * ascii * string * string * list (string * ascii * string))
                           (rest : list string) (bs_data : list (Z * list sshell))
  : res (list string * list (Z * list sshell)) :=
  let '(sym, amc, np, nc, rs) := caps in
  do shell_am <- amchar_to_int (String amc EmptyString) false;
  let nprim := digits_val np 0 in
  if negb (0 <? nprim)%Z then fail EAssert else
  let ncontr := digits_val nc 0 in
  if negb (0 <? ncontr)%Z then fail EAssert else
  if negb (Z.eqb (Z.of_nat (List.length rs)) ncontr) then fail EAssert else
  (* a captured range that int() accepts (`123`, `1_3`) has become an int: r.split('.') is an AttributeError *)
  if existsb (fun r => orb (is_digit (snd (fst r))) (Ascii.eqb (snd (fst r)) "_")) rs then fail EOther else
  (* int('1x3') *)
  if existsb (fun r => negb (Ascii.eqb (snd (fst r)) ".")) rs then fail EValue else
  let cranges := map (fun r => (digits_val (fst (fst r)) 0, digits_val (snd r) 0)) rs in
  (* a symbol that int() accepts has become an int: sym.lower() is an AttributeError *)
  do element_Z <- (if py_int_lit sym false then fail EOther else element_Z_from_sym sym);
  let nread := fold_left (fun n r => (n + (snd r - fst r + 1))%Z) cranges nprim in
  do rc <- lmol_read_entries rest nread [];
  let '(rawdata, cur) := rc in
  let exponents := py_slice rawdata 0 nprim in
  let coefficients := lmol_coefficients rawdata nprim cranges nprim in
  let func_type := match shell_am with a :: _ => if (a <? 2)%Z then "gto" else "gto_spherical" | [] => "gto" end in
  ok (cur, append_shell element_Z (mkShell func_type "" shell_am exponents coefficients) bs_data).

(* _parse_lines: the loop `while iline < len(basis_lines)`.  After a shell the loop goes on AT the last line _read_shell
   has read (it is looked at once more as a possible header).  fuel: the list gets shorter in every round. *)
Fixpoint lmol_parse_lines (fuel : nat) (lines : list string) (bs_data : list (Z * list sshell))
  : res (list (Z * list sshell)) :=
  match fuel with
  | O => fail EOther
  | S f =>
    match lines with
    | [] => ok bs_data
    | l :: rest =>
      match match_shell_line l with
      | Some caps => do r <- lmol_read_shell caps rest bs_data; lmol_parse_lines f (fst r) (snd r)
      | None =>
        match match_ecp_line l with
        | Some _ => fail ENotImpl
        | None => lmol_parse_lines f rest bs_data
        end
      end
    end
  end.

(* readers/libmol.py read_libmol, electron part of bs_data.  (For an empty file Python returns bs_data alone, otherwise the
   pair (bs_data, other_data) with other_data = {}; the model gives bs_data in both cases.) *)
Definition lmol_read_electron (lines : list string) : res (list (Z * list sshell)) :=
  let basis_lines := prune_lines lines "!" true true in
  match basis_lines with
  | [] => ok []
  | _ => lmol_parse_lines (S (List.length basis_lines)) basis_lines []
  end.

Definition lmol_roundtrip (harm bsname : string) (els : list (Z * list sshell)) : res (list (Z * list sshell)) :=
  do t <- lmol_write_electron harm bsname els; lmol_read_electron (splitlines t).
