(* Model of the VeloxChem writer / reader pair (the format has electron shells only, no ECPs):
     writers/veloxchem.py  write_veloxchem   (`@BASIS_SET name`, per element a blank line, a `!` comment line with the
                                              element name and misc.contraction_string, `@ATOMBASIS SYM`, per shell the line
                                              `AM    nprim    ngen` and the matrix, `@END`; last line: the MD5 checksum of
                                              everything written before it)
     readers/veloxchem.py  read_veloxchem    (shell_begin_re)
     readers/read.py       read_formatted_basis_str, as far as it prepares the reader's input:
                                              basis_lines = [x.strip() for x in basis_str.splitlines()]
     readers/helpers.py    prune_lines, partition_lines, parse_line_regex (+ _convert_str_int), parse_primitive_matrix(lines,
                           nprim, ngen)
     printing.py           write_matrix (convert_exp=False) with point_places = [2 * i + 16 * (i - 1) ...]
     lut.py                element_sym_from_Z, element_name_from_Z, element_Z_from_sym, amint_to_char / amchar_to_int
                           (BOTH with hij=True), function_type_from_am
     misc.py               contraction_string (which uses amint_to_char with hij=False: 25 letters only)
     manip.py              create_element_data (key_exist_ok=False)
     hashlib.md5           md5_hex below (RFC 1321), executable; the writer and the reader are ALSO given with the hash
                           function as a parameter (vlx_write_electron_h / vlx_read_electron_h), so that theorems can be
                           stated for every hash function
   Text is a string of bytes (the UTF-8 encoding of the Python str), white space is ASCII white space, letters / digits
   are ASCII (as everywhere in Model/).
   Definitions only; statements in Proofs/VeloxchemDefs.v, proofs in Proofs/VeloxchemSpec.v. *)
From BSE Require Import Model.Val Model.Text Model.Basis Model.Manip Model.Matrix Model.Lut Model.Elements
                        Model.Nwchem Model.NwchemEcp Model.G94.
From Coq Require Import NArith.

(* ------------------------------------------------------------------ *)
(* hashlib.md5(s.encode('utf-8')).hexdigest()                          *)
(* ------------------------------------------------------------------ *)
Definition w32 (x : N) : N := N.modulo x 4294967296.
Definition not32 (x : N) : N := N.lxor x 4294967295.
Definition rotl32 (x s : N) : N := w32 (N.lor (N.shiftl x s) (N.shiftr x (32 - s))).

(* floor(2^32 * abs(sin(i + 1))) *)
Definition md5_K : list N :=
  [3614090360; 3905402710; 606105819; 3250441966; 4118548399; 1200080426; 2821735955; 4249261313;
   1770035416; 2336552879; 4294925233; 2304563134; 1804603682; 4254626195; 2792965006; 1236535329;
   4129170786; 3225465664; 643717713; 3921069994; 3593408605; 38016083; 3634488961; 3889429448;
   568446438; 3275163606; 4107603335; 1163531501; 2850285829; 4243563512; 1735328473; 2368359562;
   4294588738; 2272392833; 1839030562; 4259657740; 2763975236; 1272893353; 4139469664; 3200236656;
   681279174; 3936430074; 3572445317; 76029189; 3654602809; 3873151461; 530742520; 3299628645;
   4096336452; 1126891415; 2878612391; 4237533241; 1700485571; 2399980690; 4293915773; 2240044497;
   1873313359; 4264355552; 2734768916; 1309151649; 4149444226; 3174756917; 718787259; 3951481745]%N.
Definition md5_S : list N :=
  [7; 12; 17; 22; 7; 12; 17; 22; 7; 12; 17; 22; 7; 12; 17; 22;
   5; 9; 14; 20; 5; 9; 14; 20; 5; 9; 14; 20; 5; 9; 14; 20;
   4; 11; 16; 23; 4; 11; 16; 23; 4; 11; 16; 23; 4; 11; 16; 23;
   6; 10; 15; 21; 6; 10; 15; 21; 6; 10; 15; 21; 6; 10; 15; 21]%N.
Definition md5_rounds : list (nat * (N * N)) := combine (seq 0 64) (combine md5_K md5_S).

Definition md5_state := (N * N * N * N)%type.
Definition md5_step (M : list N) (st : md5_state) (iks : nat * (N * N)) : md5_state :=
  let '(a, b, c, d) := st in
  let '(i, (k, s)) := iks in
  let '(f, g) :=
    if Nat.ltb i 16 then (N.lor (N.land b c) (N.land (not32 b) d), i)
    else if Nat.ltb i 32 then (N.lor (N.land d b) (N.land (not32 d) c), Nat.modulo (5 * i + 1) 16)
    else if Nat.ltb i 48 then (N.lxor b (N.lxor c d), Nat.modulo (3 * i + 5) 16)
    else (N.lxor c (N.lor b (not32 d)), Nat.modulo (7 * i) 16) in
  let f' := w32 (f + a + k + nth g M 0)%N in
  (d, w32 (b + rotl32 f' s)%N, b, c).
Definition md5_block (st : md5_state) (M : list N) : md5_state :=
  let '(a0, b0, c0, d0) := st in
  let '(a, b, c, d) := fold_left (md5_step M) md5_rounds st in
  (w32 (a0 + a)%N, w32 (b0 + b)%N, w32 (c0 + c)%N, w32 (d0 + d)%N).

Fixpoint str_bytes (s : string) : list N :=
  match s with EmptyString => [] | String c t => N_of_ascii c :: str_bytes t end.
(* little-endian bytes of a number, n of them *)
Fixpoint le_bytes (n : nat) (x : N) : list N :=
  match n with O => [] | S k => N.modulo x 256 :: le_bytes k (N.div x 256) end.
(* the message, 0x80, zeros up to 56 modulo 64, the length in bits as 8 bytes *)
Definition md5_pad (bytes : list N) : list N :=
  let len := List.length bytes in
  bytes ++ [128%N] ++ repeat 0%N (Nat.modulo (119 - Nat.modulo len 64) 64) ++ le_bytes 8 (8 * N.of_nat len)%N.
Fixpoint le_words (l : list N) : list N :=
  match l with
  | a :: b :: c :: d :: t => (a + 256 * b + 65536 * c + 16777216 * d)%N :: le_words t
  | _ => []
  end.
Fixpoint md5_blocks (fuel : nat) (ws : list N) (st : md5_state) : md5_state :=
  match fuel with
  | O => st
  | S f => match ws with [] => st | _ => md5_blocks f (skipn 16 ws) (md5_block st (firstn 16 ws)) end
  end.

Definition hexdig (n : N) : ascii :=
  match snth (N.to_nat (N.modulo n 16)) "0123456789abcdef" with Some c => c | None => "0"%char end.
Definition byte_hex (b : N) : string := String (hexdig (N.div b 16)) (String (hexdig b) EmptyString).
Definition word_hex (w : N) : string := String.concat "" (map byte_hex (le_bytes 4 w)).

Definition md5_hex (s : string) : string :=
  let ws := le_words (md5_pad (str_bytes s)) in
  let '(a, b, c, d) := md5_blocks (List.length ws) ws (1732584193, 4023233417, 2562383102, 271733878)%N in
  word_hex a +++ word_hex b +++ word_hex c +++ word_hex d.

(* ------------------------------------------------------------------ *)
(* writer                                                              *)
(* ------------------------------------------------------------------ *)

(* point_places = [2 * i + 16 * (i - 1) for i in range(1, ncol + 1)] *)
Definition vlx_point_places (ncol : nat) : list Z := map (fun i => (2 * i + 16 * (i - 1))%Z) (zrange 1 ncol).

(* [exponents, *coefficients] *)
Definition vlx_cols (s : sshell) : list (list cell) := map CStr (exps s) :: map (map CStr) (coefs s).

(* one iteration of `for shell in data['electron_shells']`:
     amchar = lut.amint_to_char(am, hij=True);  s += f'{amchar.upper()}    {nprim:d}    {ngen:d}\n'
     s += printing.write_matrix([exponents, *coefficients], point_places, convert_exp=False)
   leftpad_check (Model/NwchemEcp.v) is the first statement of write_matrix: _find_point of EVERY cell of every column,
   before zip() cuts the columns to the shortest one *)
Definition vlx_write_shell (s : sshell) : res string :=
  let ncol := S (List.length (coefs s)) in
  do amchar <- amint_to_char (am s) true false;
  do _ <- leftpad_check (vlx_cols s) (vlx_point_places ncol);
  do m <- write_matrix (vlx_cols s) (vlx_point_places ncol) false;
  ok (upper amchar +++ "    " +++ nat_str (List.length (exps s)) +++ "    " +++ nat_str (List.length (coefs s)) +++ nl1 +++ m).

(* one iteration of `for z in electron_elements`:
     sym = lut.element_sym_from_Z(z, True).upper();  elname = lut.element_name_from_Z(z).upper()
     s += f'\n! {elname:s}       {cont_string:s}\n';  s += f'@ATOMBASIS {sym:s}\n';  the shells;  s += '@END\n' *)
Definition vlx_write_element (zs : Z * list sshell) : res string :=
  let '(z, shs) := zs in
  do sym <- element_sym_from_Z z true;
  do elname <- element_name_from_Z z false;
  do cs <- contraction_string (Some (map nw_cshell shs)) false;
  do body <- mapM vlx_write_shell shs;
  ok (nl1 +++ "! " +++ upper elname +++ "       " +++ cs +++ nl1 +++
      "@ATOMBASIS " +++ upper sym +++ nl1 +++
      String.concat "" body +++ "@END" +++ nl1).

(* write_veloxchem, everything but the checksum: the string `s` that is hashed.
   INPUT: name = basis['name'];  els = [(z, data['electron_shells']) for the elements that have the key
   'electron_shells'], in dictionary order, taken from the basis AFTER the four normalisation calls the writer makes
   first (there is NO sort call: shells and elements stay in the order these calls leave them in):
       basis = manip.optimize_general(basis, True)     (Model/Manip.v optimize_general: drops the primitives of a general
                                                        contraction that are also free primitives of the same shell)
       basis = manip.uncontract_general(basis, False)  (a shell with ONE angular momentum and n > 1 general contractions
                                                        becomes n shells with one contraction each; then prune_basis)
       basis = manip.uncontract_spdf(basis, 0, False)  (EVERY fused shell - sp, spd, ... - is split into one shell per
                                                        angular momentum)
       basis = manip.prune_basis(basis, False)         (zero-coefficient primitives and duplicate shells removed)
   so that in the writer's own input every shell has one angular momentum and one column of coefficients.
   (`s = f'@BASIS_SET {basis["name"]}\n'` comes before these calls: the name is that of the caller's dictionary.) *)
Definition vlx_write_body (name : string) (els : list (Z * list sshell)) : res string :=
  do parts <- mapM vlx_write_element els;
  ok ("@BASIS_SET " +++ name +++ nl1 +++ String.concat "" parts).

(* ------------------------------------------------------------------ *)
(* reader: helpers                                                     *)
(* ------------------------------------------------------------------ *)

(* shell_begin_re = ^([SPDFGHIJKLMNOQRTUVWXYZABCE])\s+(\d+)\s+(\d+)$ .match(line)
   One letter of the class; `\s+` is forced to be maximal (a digit must follow), `(\d+)` as well (white space, or `$`, must
   follow); `$` (no MULTILINE, Model.G94.dollar): the end of the string or a newline that ends it. *)
Definition vlx_am_letters : string := "SPDFGHIJKLMNOQRTUVWXYZABCE".
Definition is_shell_letter (c : ascii) : bool := sany (Ascii.eqb c) vlx_am_letters.
Definition match_shell_begin (l : string) : option (ascii * string * string) :=
  match l with
  | String c r =>
    if is_shell_letter c then
      match r with
      | String w _ =>
        if is_space w then
          let '(n1, r1) := span_digit (lstrip_ws r) in
          match n1, r1 with
          | String _ _, String w2 _ =>
            if is_space w2 then
              let '(n2, r2) := span_digit (lstrip_ws r1) in
              match n2 with
              | String _ _ => if dollar r2 then Some (c, n1, n2) else None
              | EmptyString => None
              end
            else None
          | _, _ => None
          end
        else None
      | EmptyString => None
      end
    else None
  | EmptyString => None
  end.
(* lambda x: shell_begin_re.match(x) *)
Definition is_shell_begin (x : string) : res bool :=
  ok (match match_shell_begin x with Some _ => true | None => false end).

(* [i for i, line in enumerate(lines) if line.startswith(p)] *)
Definition indexed (lines : list string) : list (nat * string) := combine (seq 0 (List.length lines)) lines.
Definition starts_idx (p : string) (lines : list string) : list (nat * string) :=
  filter (fun il => str_prefix p (snd il)) (indexed lines).

(* ------------------------------------------------------------------ *)
(* reader                                                              *)
(* ------------------------------------------------------------------ *)

(* the body of `for sh_lines in shells_lines`, giving the shell that is appended.
   parse_line_regex(shell_begin_re, sh_lines[0], ..., convert_int=True): RuntimeError when there is no match; int() of
   the two digit groups.  parse_primitive_matrix_n (Model/G94.v) is helpers.parse_primitive_matrix(lines, nprim, ngen). *)
Definition vlx_parse_shell_block (sh_lines : list string) : res sshell :=
  match sh_lines with
  | [] => fail EIndex
  | first :: rest =>
    match match_shell_begin first with
    | None => fail ERuntime
    | Some (c, n1, n2) =>
      let nprim := Z.to_nat (digits_val n1 0) in
      let ncont := digits_val n2 0 in
      (* "Invalid format: number of contracted functions must be 1 for all shells." *)
      if negb (Z.eqb ncont 1) then fail ERuntime else
      do ec <- parse_primitive_matrix_n rest nprim 1;
      let '(exponents, coefficients) := ec in
      do AM <- amchar_to_int (String c EmptyString) true;
      do func_type <- function_type_from_am AM "gto" "spherical";
      ok (mkShell func_type "" AM exponents coefficients)
    end
  end.

(* `for el, atombasis_lines in atombases_lines.items()`.  bs_data: element -> its 'electron_shells', in insertion order.
   create_element_data(bs_data, element_Z, 'electron_shells') with key_exist_ok=False: a second block for the same atomic
   number (under another spelling of the symbol) is a RuntimeError.  The shells are appended one by one in Python; an
   exception leaves no result, so collecting them first is the same. *)
Fixpoint vlx_elements (abs : list (string * list string)) (bs_data : list (Z * list sshell))
  : res (list (Z * list sshell)) :=
  match abs with
  | [] => ok bs_data
  | (el, atombasis_lines) :: t =>
    do element_Z <- element_Z_from_sym el;
    if existsb (Z.eqb element_Z) (map fst bs_data) then fail ERuntime else
    do shells_lines <- partition_lines atombasis_lines is_shell_begin true 1 0 0;
    do shells <- mapM vlx_parse_shell_block shells_lines;
    vlx_elements t (bs_data ++ [(element_Z, shells)])
  end.

(* read_veloxchem after the checksum has been validated:
     basis_lines = helpers.prune_lines(basis_lines, skipchars='!', prune_blank=True, strip_end_blanks=True)
     idxs_atombasis = [(i, line.split()[1]) for i, line in enumerate(basis_lines) if line.startswith('@ATOMBASIS')]
                      (IndexError for a line that has one word only)
     idxs_end = [i for i, line in enumerate(basis_lines) if line.startswith('@END')]
     atombases_lines = {el: basis_lines[i + 1:j] for (i, el), j in zip(idxs_atombasis, idxs_end)}
                      (zip stops at the shorter list; a dictionary: a symbol that comes again keeps its first position and
                       gets the new lines - Model.Val.assoc_set; the slice is empty when j <= i + 1) *)
Definition vlx_read_data (lines : list string) : res (list (Z * list sshell)) :=
  let basis_lines := prune_lines lines "!" true true in
  do idxs_atombasis <-
     mapM (fun il : nat * string => match tokens_acc (snd il) "" with
                                    | _ :: el :: _ => ok (fst il, el)
                                    | _ => fail EIndex
                                    end) (starts_idx "@ATOMBASIS" basis_lines);
  let idxs_end := map fst (starts_idx "@END" basis_lines) in
  let atombases_lines :=
    fold_left (fun d (p : nat * string * nat) =>
                 let '((i, el), j) := p in assoc_set el (firstn (j - S i) (skipn (S i) basis_lines)) d)
              (combine idxs_atombasis idxs_end) [] in
  vlx_elements atombases_lines [].

Section Hash.
(* h x stands for md5(x.encode('utf-8')).hexdigest() *)
Variable h : string -> string.

(* write_veloxchem:  md5sum = md5(s.encode('utf-8')).hexdigest();  return s + md5sum *)
Definition vlx_write_electron_h (name : string) (els : list (Z * list sshell)) : res string :=
  do s <- vlx_write_body name els; ok (s +++ h s).

(* read_veloxchem.  (For an empty list of lines Python returns {}.)
     expected_md5sum = basis_lines.pop().strip()
     idxs = [i for i, line in enumerate(basis_lines) if line.startswith('@BASIS_SET')];  more than one: RuntimeError;
     idx = idxs[0] (IndexError when there is none)
     computed_md5sum = md5(("".join(basis_lines[idx:])).encode('utf-8')).hexdigest() - the lines are joined WITHOUT the
     line ends that str.splitlines() has removed *)
Definition vlx_read_electron_h (lines : list string) : res (list (Z * list sshell)) :=
  match pop_last lines with
  | None => ok []
  | Some (basis_lines, last) =>
    let expected_md5sum := strip_ws last in
    match map fst (starts_idx "@BASIS_SET" basis_lines) with
    | [] => fail EIndex
    | [idx] =>
      let computed_md5sum := h (String.concat "" (skipn idx basis_lines)) in
      if negb (String.eqb computed_md5sum expected_md5sum) then fail ERuntime else vlx_read_data basis_lines
    | _ => fail ERuntime
    end
  end.

(* readers.read_formatted_basis_str(text, 'veloxchem') hands [x.strip() for x in text.splitlines()] to read_veloxchem *)
Definition vlx_roundtrip_h (name : string) (els : list (Z * list sshell)) : res (list (Z * list sshell)) :=
  do t <- vlx_write_electron_h name els; vlx_read_electron_h (map strip_ws (splitlines t)).
End Hash.

(* the real thing *)
Definition vlx_write_electron (name : string) (els : list (Z * list sshell)) : res string :=
  vlx_write_electron_h md5_hex name els.
Definition vlx_read_electron (lines : list string) : res (list (Z * list sshell)) := vlx_read_electron_h md5_hex lines.
Definition vlx_roundtrip (name : string) (els : list (Z * list sshell)) : res (list (Z * list sshell)) :=
  vlx_roundtrip_h md5_hex name els.

(* what the reader hashes: the stripped lines of the written body, joined without line ends *)
Definition vlx_unbroken (s : string) : string := String.concat "" (map strip_ws (splitlines s)).

(* the read-back with the checksum out of the way: the file whose last line is the checksum as the READER computes it
   (equivalently: what read_veloxchem does with the writer's lines once its checksum test has passed) *)
Definition vlx_reread (name : string) (els : list (Z * list sshell)) : res (list (Z * list sshell)) :=
  do s <- vlx_write_body name els; vlx_read_data (map strip_ws (splitlines s)).
