(* Model of the FHI-aims writer (there is no reader for this format):
     writers/fhiaims.py  write_fhiaims
     printing.py         write_matrix(..., convert_exp=False)   (Model/Matrix.v)
     lut.py              element_sym_from_Z(z, True)
   The model is the text write_fhiaims returns (without the header write_formatted_basis_str may prepend) for the
   dictionary AFTER the writer's own normalisation calls, which are, in this order (basis['function_types'] is read
   BEFORE them; they do not change it),
       basis = manip.uncontract_general(basis, True)     (one contraction per shell; then prune_basis)
       basis = manip.uncontract_spdf(basis, 0, False)    (every fused shell is split: one angular momentum per shell)
       basis = sort.sort_basis(basis, False)
   INPUT: name = basis['name'], types = basis['function_types'],
     els  = [(z, data['electron_shells'])] for the elements that have the key 'electron_shells', in dictionary order,
     ecps = [(z, (data['ecp_electrons'], data['ecp_potentials']))]: NOT LOOKED AT by write_fhiaims.
   WHAT THE WRITER LEAVES OUT: (1) every ECP (write_formatted_basis_str refuses a basis whose function_types contain
   'scalar_ecp' before the writer is called - fhi_guard below; write_fhiaims itself, called directly, drops the ECP
   silently); (2) the coefficient of a shell with exactly ONE primitive: such a shell is written as the single line
   `gaussian l 1 exponent`.
   Text is a string of bytes.  Definitions only; statements in Proofs/FhiaimsDefs.v, proofs in Proofs/FhiaimsSpec.v. *)
From BSE Require Import Model.Val Model.Text Model.Basis Model.Manip Model.Matrix Model.Lut Model.Elements Model.Nwchem
                        Model.NwchemEcp.

(* the triple-quoted string of the source, with its indentation: it begins with a newline and ends with the twelve blanks
   in front of the closing quotes, to which '# {} {}\n'.format(sym, basis['name']) is appended *)
Definition fhi_preamble (pure : bool) : string :=
  nl1 +++ sp 12 +++ "# The default minimal basis should not be included" +++ nl1 +++
  sp 12 +++ "include_min_basis .false." +++ nl1 +++
  sp 12 +++ "# Use spherical functions?" +++ nl1 +++
  sp 12 +++ "pure_gauss " +++ (if pure then ".true." else ".false.") +++ nl1 +++
  sp 12.

(* [exponents, *coefficients] *)
Definition fhi_shell_cols (s : sshell) : list (list cell) := map CStr (exps s) :: map (map CStr) (coefs s).

(* one iteration of `for shell in data['electron_shells']`.  `assert len(am) == 1`; am[0] is an int, printed with str();
   exponents[0] is a string, printed as it is.  For nprim != 1: the count line and the matrix (point places as in
   Model.Nwchem.nw_point_places) *)
Definition fhi_write_shell (s : sshell) : res string :=
  let ncol := S (List.length (coefs s)) in
  let nprim := List.length (exps s) in
  match am s with
  | [l] =>
    match exps s with
    | [e] => ok ("gaussian " +++ Z_to_string l +++ " " +++ nat_str nprim +++ " " +++ e +++ nl1)
    | _ =>
      do _ <- leftpad_check (fhi_shell_cols s) (nw_point_places ncol);
      do m <- write_matrix (fhi_shell_cols s) (nw_point_places ncol) false;
      ok ("gaussian " +++ Z_to_string l +++ " " +++ nat_str nprim +++ nl1 +++ m)
    end
  | _ => fail EAssert
  end.

(* one iteration of `for z in electron_elements` *)
Definition fhi_write_element (pure : bool) (name : string) (zs : Z * list sshell) : res string :=
  let '(z, shs) := zs in
  do sym <- element_sym_from_Z z true;
  do body <- mapM fhi_write_shell shs;
  ok (fhi_preamble pure +++ "# " +++ sym +++ " " +++ name +++ nl1 +++ String.concat "" body).

(* pure = False if 'gto_cartesian' in types else True *)
Definition fhi_pure (types : list string) : bool := negb (existsb (String.eqb "gto_cartesian") types).

(* write_fhiaims after its three normalisation calls; ecps is there to say that it is not used *)
Definition fhi_write_all (name : string) (types : list string)
                         (els : list (Z * list sshell)) (ecps : list (Z * (Z * list epot))) : res string :=
  do parts <- mapM (fhi_write_element (fhi_pure types) name) els;
  ok (String.concat "" parts).

(* writers/write.py write_formatted_basis_str, the test in front of the call of the writer:
   'valid': {'gto', 'gto_cartesian', 'gto_spherical'};  `if not ftypes <= writer['valid']: raise RuntimeError` *)
Definition fhi_valid_types : list string := ["gto"; "gto_cartesian"; "gto_spherical"].
Definition fhi_guard (types : list string) : res unit :=
  if forallb (fun t => existsb (String.eqb t) fhi_valid_types) types then ok tt else fail ERuntime.
Definition fhi_write_formatted (name : string) (types : list string)
                               (els : list (Z * list sshell)) (ecps : list (Z * (Z * list epot))) : res string :=
  do _ <- fhi_guard types; fhi_write_all name types els ecps.
