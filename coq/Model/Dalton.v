(* Model of the ELECTRON-SHELL part of the Dalton writer / reader pair:
     writers/dalton.py   write_dalton             (the `! Basis = name` line and the `a Z` element blocks; the `ECP` section
                                                   is modelled in Model/DaltonEcp.v)
     readers/dalton.py   read_dalton, _parse_electron_lines, _line_begins_element
                         (shell_begin_re, element_begin_re, the regex 'a +(\d+) *$')
     readers/read.py     read_formatted_basis_str  (only `element_data, other_data = return_values`, see dal_read_electron)
     readers/helpers.py  prune_lines, partition_lines, parse_line_regex, parse_primitive_matrix (with nprim and ngen)
     lut.py              element_name_from_Z, all_element_names, element_Z_from_name, amint_to_char(am, hij=True),
                         function_type_from_am
     misc.py             contraction_string
     printing.py         write_matrix(..., convert_exp=False)
     manip.py            create_element_data (key_exist_ok=False)
   As in the other format models text is a string of bytes and the character classes (\s, \d, [a-z], str.lower, strip) are
   the ASCII ones; lines contain no '\n' (they come from str.splitlines).
   Definitions only; statements in Proofs/DaltonDefs.v, proofs in Proofs/DaltonSpec.v.
   Pieces shared with the other models: nw_point_places, nw_cshell, part_go / partition_lines, function_type_from_am
   (Model/Nwchem.v); span_digits, lstrip_blanks, parse_primitive_matrix_np (Model/Turbomole.v). *)
From BSE Require Import Model.Val Model.Text Model.Basis Model.Manip Model.Matrix Gen.GenLut Model.Lut Model.Elements
                        Model.Nwchem Model.Turbomole.

(* ------------------------------------------------------------------ *)
(* writer                                                              *)
(* ------------------------------------------------------------------ *)

(* the body of `for shell in data['electron_shells']`:
     amchar = lut.amint_to_char(am, hij=True)
     s += '! {} functions\n'.format(amchar)
     s += '{}    {}    {}\n'.format('H', nprim, ngen)
     s += printing.write_matrix([exponents, *coefficients], point_places, convert_exp=False)
   The letter only appears in the comment line: the format itself does not say which momentum a block has. *)
Definition dal_write_shell (s : sshell) : res string :=
  let ncol := S (List.length (coefs s)) in
  let nprim := List.length (exps s) in
  let ngen := List.length (coefs s) in
  do amchar <- amint_to_char (am s) true false;
  do m <- write_matrix (map CStr (exps s) :: map (map CStr) (coefs s)) (nw_point_places ncol) false;
  ok ("! " +++ amchar +++ " functions" +++ nl1 +++
      "H    " +++ nat_str nprim +++ "    " +++ nat_str ngen +++ nl1 +++ m).

(* one iteration of `for z in electron_elements`:
     elname = lut.element_name_from_Z(z).upper(); cont_string = misc.contraction_string(data)
     s += 'a {}\n'.format(z); s += '! {}       {}\n'.format(elname, cont_string)
   (z is the dictionary key, str(Z)) *)
Definition dal_write_element (zs : Z * list sshell) : res string :=
  let '(z, shs) := zs in
  do elname <- element_name_from_Z z false;
  do cs <- contraction_string (Some (map nw_cshell shs)) false;
  do body <- mapM dal_write_shell shs;
  ok ("a " +++ Z_to_string z +++ nl1 +++
      "! " +++ upper elname +++ "       " +++ cs +++ nl1 +++ String.concat "" body).

(* bsname = basis['name']   (the only other entry of the dictionary that is printed)
   els    = [(z, data['electron_shells'])] for the elements that have electron shells, in dictionary order, AFTER
              basis = manip.make_general(basis, False, True)  (first uncontract_spdf(basis, 0): fused sp/spd shells split;
                                                               then ONE shell per element and angular momentum holding all
                                                               primitives and all contractions of that momentum, zero
                                                               coefficients '0.00000000' filled in, region '', momenta in
                                                               increasing order)
              basis = sort.sort_basis(basis, False)           (primitives by decreasing exponent, contractions, shells by
                                                               momentum; the elements by atomic number)
   so every element comes with at most one shell per momentum, by increasing momentum.
   The text of a basis set none of whose elements has an ECP.  `if electron_elements:` makes no difference: without such
   elements only the first line (and the empty line) is written. *)
Definition dal_write_electron (bsname : string) (els : list (Z * list sshell)) : res string :=
  do parts <- mapM dal_write_element els;
  ok ("! Basis = " +++ bsname +++ nl1 +++ nl1 +++ String.concat "" parts).

(* ------------------------------------------------------------------ *)
(* reader: regular expressions                                         *)
(* ------------------------------------------------------------------ *)

(* [a-z]+ : the longest run of lower-case letters *)
Fixpoint span_lower (s : string) : string * string :=
  match s with
  | String c t => if is_lower c then let '(a, r) := span_lower t in (String c a, r) else (EmptyString, s)
  | EmptyString => (EmptyString, EmptyString)
  end.

(* \)\s*->\s*\[.*\]$ matched at the head of s.  The white-space runs are forced to be maximal (the next character is not
   white space); `.*\]$` : what follows the bracket ends with `]` *)
Definition arrow_tail (s : string) : bool :=
  match s with
  | String ")" r =>
    match lstrip_ws r with
    | String "-" (String ">" r2) =>
      match lstrip_ws r2 with
      | String "[" r3 => str_suffix "]" r3
      | _ => false
      end
    | _ => false
    end
  | _ => false
  end.
(* .*\)\s*->\s*\[.*\]$ : some suffix of s is an arrow_tail *)
Fixpoint some_arrow_tail (s : string) : bool :=
  orb (arrow_tail s) (match s with String _ t => some_arrow_tail t | EmptyString => false end).

(* element_begin_re = ^!\s+([a-z]+)\s+\(.*\)\s*->\s*\[.*\]$  against a (lower-cased) line; returns group 1.  The first three
   groups are deterministic: the letters are followed by white space, the white space by `(` *)
Definition match_element_begin (l : string) : option string :=
  match l with
  | String "!" (String c0 r0) =>
    if is_space c0 then
      let '(a, r) := span_lower (lstrip_ws r0) in
      match a, r with
      | String _ _, String c _ =>
        if is_space c then
          match lstrip_ws r with
          | String "(" r2 => if some_arrow_tail r2 then Some a else None
          | _ => None
          end
        else None
      | _, _ => None
      end
    else None
  | _ => None
  end.

(* all_element_names = [x.lower() for x in lut.all_element_names()] + ['wolffram'] *)
Definition dal_element_names : list string := map (fun e => lower (e_name e)) data_table ++ ["wolffram"].

(* _line_begins_element: `a ` starts an element, and so does a comment of the form `! name (...) -> [...]`; such a comment
   with an unknown name is a RuntimeError *)
Definition line_begins_element (line : string) : res bool :=
  match line with
  | EmptyString => ok false
  | _ =>
    let line := lower line in
    if str_prefix "a " line then ok true else
    match match_element_begin line with
    | Some name => if existsb (String.eqb name) dal_element_names then ok true else fail ERuntime
    | None => ok false
    end
  end.

(* shell_begin_re = ^(?:[hH]\s+)?(\d+)\s+(\d+)(?: +0)?$ : `H nprim ngen` or `nprim ngen 0`.  A line that begins with h/H
   can only match through the optional group; every run is forced to be maximal. *)
Definition match_shell_begin (l : string) : option (string * string) :=
  let rest :=
    match l with
    | String c r =>
      if orb (Ascii.eqb c "h") (Ascii.eqb c "H") then
        match r with
        | String c2 _ => if is_space c2 then Some (lstrip_ws r) else None
        | EmptyString => None
        end
      else Some l
    | EmptyString => Some l
    end in
  match rest with
  | None => None
  | Some x =>
    let '(d1, r1) := span_digits x in
    match d1, r1 with
    | String _ _, String c _ =>
      if is_space c then
        let '(d2, r3) := span_digits (lstrip_ws r1) in
        match d2 with
        | EmptyString => None
        | _ =>
          match r3 with
          | EmptyString => Some (d1, d2)
          | String " " r4 => if String.eqb (lstrip_blanks r4) "0" then Some (d1, d2) else None
          | _ => None
          end
        end
      else None
    | _, _ => None
    end
  end.
Definition is_shell_begin (l : string) : bool := match match_shell_begin l with Some _ => true | None => false end.
(* helpers.parse_line_regex(shell_begin_re, line, 'nprim, ngen'): both groups are turned into integers *)
Definition parse_shell_begin (l : string) : res (Z * Z) :=
  match match_shell_begin l with
  | Some (d1, d2) => ok (digits_val d1 0, digits_val d2 0)
  | None => fail ERuntime
  end.

(* helpers.parse_line_regex(r'a +(\d+) *$', header, "a {element_z}", convert_int=False): rex.match anchors at the start;
   the group is returned as a string *)
Definition match_a_line (h : string) : option string :=
  match h with
  | String "a" (String " " r) =>
    let '(d, r') := span_digits (lstrip_blanks r) in
    match d with
    | EmptyString => None
    | _ => if is_empty (lstrip_blanks r') then Some d else None
    end
  | _ => None
  end.

(* ------------------------------------------------------------------ *)
(* reader: _parse_electron_lines                                       *)
(* ------------------------------------------------------------------ *)

(* re.sub('PHOSPHOROUS', 'PHOSPHORUS', line) *)
Definition fix_spelling (line : string) : string := replace "PHOSPHOROUS" "PHOSPHORUS" line.

(* "If we find the start of an element, remove all the following comment lines":
       if _line_begins_element(basis_lines[i]): new.append(basis_lines[i]); i += 1
                                                while basis_lines[i].startswith('!'): i += 1
       else:                                    new.append(basis_lines[i]); i += 1
   skipping = we are inside the inner while.  The inner while does not test the length: IndexError when the element line,
   or the comments that follow it, are the last lines. *)
Fixpoint drop_element_comments (skipping : bool) (l : list string) : res (list string) :=
  match l with
  | [] => if skipping then fail EIndex else ok []
  | x :: t =>
    if andb skipping (str_prefix "!" x) then drop_element_comments true t
    else do b <- line_begins_element x; do r <- drop_element_comments b t; ok (x :: r)
  end.

(* "fix for split over newline": when the number of lines is a multiple k of nprim, every k consecutive lines are joined *)
Fixpoint chunks (k : nat) (l : list string) (n : nat) : list (list string) :=
  match n with
  | O => []
  | S n' => firstn k l :: chunks k (skipn k l) n'
  end.
Definition join_split_lines (nprim : Z) (bas_lines : list string) : list string :=
  match bas_lines with
  | [] => bas_lines
  | _ =>
    if (0 <? nprim)%Z then
      let n := Z.to_nat nprim in
      let k := (List.length bas_lines / n)%nat in
      if Nat.eqb (k * n) (List.length bas_lines) then map (sjoin " ") (chunks k bas_lines n) else bas_lines
    else bas_lines
  end.

(* the body of `for sh_lines in shell_blocks`: the block at position shell_am gets the momentum shell_am *)
Definition dal_parse_shell_block (shell_am : Z) (sh_lines : list string) : res sshell :=
  match sh_lines with
  | [] => fail EIndex
  | first :: rest =>
    do ng <- parse_shell_begin first;
    let '(nprim, ngen) := ng in
    let bas_lines := join_split_lines nprim rest in
    do ec <- parse_primitive_matrix_np bas_lines nprim (Z.to_nat ngen);
    let '(exponents, coefficients) := ec in
    do func_type <- function_type_from_am [shell_am] "gto" "spherical";
    ok (mkShell func_type "" [shell_am] exponents coefficients)
  end.

(* shell_am = 0; for sh_lines in shell_blocks: ...; shell_am += 1 *)
Fixpoint dal_parse_shell_blocks (shell_am : Z) (blocks : list (list string)) : res (list sshell) :=
  match blocks with
  | [] => ok []
  | b :: t => do sh <- dal_parse_shell_block shell_am b; do r <- dal_parse_shell_blocks (shell_am + 1)%Z t; ok (sh :: r)
  end.

(* bs_data: element key -> its 'electron_shells', in insertion order.  The key is the STRING the reader finds (`a 01` gives
   the key '01'); dal_read_electron turns it into a number at the very end.
   manip.create_element_data(bs_data, element_Z, 'electron_shells') (key_exist_ok=False): only electron sections are
   modelled here, so an element that exists in bs_data has the key 'electron_shells' *)
Definition dal_state := list (string * list sshell).

(* the element's header line: `a Z`, or `! name (...) -> [...]` *)
Definition dal_element_key (header : string) : res string :=
  if str_prefix "a " header then
    match match_a_line header with Some d => ok d | None => fail ERuntime end
  else if str_prefix "!" header then
    match match_element_begin header with
    | None => fail ERuntime
    | Some name => do z <- element_Z_from_name name; ok (Z_to_string z)
    end
  else fail ERuntime.

(* the body of `for el_lines in element_blocks` *)
Definition dal_parse_element_block (el_lines : list string) (bs_data : dal_state) : res dal_state :=
  match el_lines with
  | [] => fail EIndex
  | first :: rest =>
    do element_Z <- dal_element_key (lower first);
    if existsb (String.eqb element_Z) (map fst bs_data) then fail ERuntime else
    let el_lines := prune_lines rest "!" true true in
    do shell_blocks <- partition_lines el_lines (fun x => ok (is_shell_begin x)) true 1 0 0;
    do shells <- dal_parse_shell_blocks 0 shell_blocks;
    ok (bs_data ++ [(element_Z, shells)])
  end.

Fixpoint dal_parse_element_blocks (blocks : list (list string)) (bs_data : dal_state) : res dal_state :=
  match blocks with
  | [] => ok bs_data
  | b :: t => do d <- dal_parse_element_block b bs_data; dal_parse_element_blocks t d
  end.

(* readers/dalton.py _parse_electron_lines *)
Definition dal_parse_electron_lines (basis_lines : list string) (bs_data : dal_state) : res dal_state :=
  let basis_lines := map fix_spelling basis_lines in
  do new_basis_lines <- drop_element_comments false basis_lines;
  let basis_lines := prune_lines new_basis_lines "$" true true in
  do element_blocks <- partition_lines basis_lines line_begins_element true 3 0 0;
  dal_parse_element_blocks element_blocks bs_data.

(* ------------------------------------------------------------------ *)
(* reader: read_dalton                                                 *)
(* ------------------------------------------------------------------ *)

Definition is_ecp_line (x : string) : bool := String.eqb (lower x) "ecp".

(* while basis_lines and not _line_begins_element(basis_lines[0]) and basis_lines[0].lower() != 'ecp': basis_lines.pop(0) *)
Fixpoint dal_skip_to_start (l : list string) : res (list string) :=
  match l with
  | [] => ok []
  | x :: t => do b <- line_begins_element x; if orb b (is_ecp_line x) then ok l else dal_skip_to_start t
  end.

(* `for s in basis_sections`.  An 'ecp' section is outside the fragment modelled in this file: ENotImpl *)
Fixpoint dal_sections (sections : list (list string)) (bs_data : dal_state) : res dal_state :=
  match sections with
  | [] => ok bs_data
  | s :: t =>
    match s with
    | [] => fail EIndex
    | first :: _ =>
      if is_ecp_line first then fail ENotImpl
      else do d <- dal_parse_electron_lines s bs_data; dal_sections t d
    end
  end.

(* read_dalton as readers.read_formatted_basis_str uses it; the result is bs_data with the key str(Z) turned into Z.
   "Empty file?": read_dalton returns bs_data ALONE there, every other path returns the pair (bs_data, other_data), and
   read_formatted_basis_str unpacks `element_data, other_data = return_values`: for a file without any element this is a
   ValueError (unpacking an empty dict). *)
Definition dal_read_keys (lines : list string) : res dal_state :=
  let basis_lines := prune_lines lines "" true true in
  do basis_lines <- dal_skip_to_start basis_lines;
  match basis_lines with
  | [] => fail EValue
  | _ =>
    do sections <- partition_lines basis_lines (fun x => ok (is_ecp_line x)) true 1 1 2;
    dal_sections sections []
  end.

Definition dal_read_electron (lines : list string) : res (list (Z * list sshell)) :=
  do d <- dal_read_keys lines; ok (map (fun kv => (digits_val (fst kv) 0, snd kv)) d).

Definition dal_roundtrip (bsname : string) (els : list (Z * list sshell)) : res (list (Z * list sshell)) :=
  do t <- dal_write_electron bsname els; dal_read_electron (splitlines t).
