(* Model of the ELECTRON-SHELL part of the GAMESS-US writer / reader pair:
     writers/gamess_us.py  write_gamess_us_common (the `if electron_elements:` part), write_gamess_us_electron_basis
     readers/gamess_us.py  read_gamess_us, _parse_electron_lines (element_block_re, shell_block_re, contraction_re;
                           ecp_block_re only to recognise where the ECP part begins)
     readers/helpers.py    prune_lines(lines, '!#$'), partition_lines, parse_line_regex (with _convert_str_int)
     printing.py           write_matrix([idx_column, exponents, *coefficients], point_places)   (no convert_exp)
     lut.py                element_name_from_Z, element_Z_from_name, amint_to_char(am, hij=True, use_L=True) in the writer,
                           amchar_to_int(letter) (hij=False !) and function_type_from_am in the reader
     manip.py              create_element_data (key_exist_ok=False)
   The ECP part ($ECP ... $END) is modelled in Model/GamessUsEcp.v; the reader of this file answers ENotImpl where
   read_gamess_us would enter an ECP block.
   Text is a string of bytes, white space is ASCII white space (\s, str.strip), letters / digits are ASCII ([a-zA-Z], \d), as
   everywhere in Model/.  int() of a run of digits is its value (Python's limit of 4300 digits is not modelled), float() of a
   string that matches helpers.floating_re_str is modelled by Model.Num.parse_num (exact decimal value; ValueError where
   float() raises: no digit in the mantissa, or a Fortran marker d / D - this reader does NOT call replace_d).
   Definitions only; statements in Proofs/GamessUsDefs.v, proofs in Proofs/GamessUsSpec.v. *)
From BSE Require Import Model.Val Model.Text Model.Num Model.Basis Model.Manip Model.Matrix Model.Lut Model.Elements
                        Model.Nwchem Model.NwchemEcp Model.G94.

(* ------------------------------------------------------------------ *)
(* writer                                                              *)
(* ------------------------------------------------------------------ *)

(* point_places = [0] + [4 + 8 * i + 15 * (i - 1) for i in range(1, ncol)]   with ncol = len(coefficients) + 2 *)
Definition gus_point_places (ncol : nat) : list Z :=
  0%Z :: map (fun i => (4 + 8 * i + 15 * (i - 1))%Z) (zrange 1 (ncol - 1)).

(* one iteration of `for shell in data['electron_shells']`:
     amchar = lut.amint_to_char(am, hij=True, use_L=True).upper();  s += '{}   {}\n'.format(amchar, nprim)
     idx_column = list(range(1, nprim + 1));  s += printing.write_matrix([idx_column, exponents, *coefficients], point_places)
   leftpad_check (Model/NwchemEcp.v) is the first statement of write_matrix: point_place[i] and _find_point of EVERY cell of
   every column, before zip() cuts the columns to the shortest one *)
Definition gus_cols (s : sshell) : list (list cell) :=
  map CInt (zrange 1 (List.length (exps s))) :: map CStr (exps s) :: map (map CStr) (coefs s).
Definition gus_write_shell (s : sshell) : res string :=
  let ncol := (List.length (coefs s) + 2)%nat in
  let nprim := List.length (exps s) in
  do amchar <- amint_to_char (am s) true true;
  do _ <- leftpad_check (gus_cols s) (gus_point_places ncol);
  do m <- write_matrix (gus_cols s) (gus_point_places ncol) false;
  ok (upper amchar +++ "   " +++ nat_str nprim +++ nl1 +++ m).

(* one iteration of `for z in electron_elements`: el_name = lut.element_name_from_Z(z).upper(); s += '\n' + el_name + "\n" *)
Definition gus_write_element (zs : Z * list sshell) : res string :=
  let '(z, shs) := zs in
  do name <- element_name_from_Z z false;
  do body <- mapM gus_write_shell shs;
  ok (nl1 +++ upper name +++ nl1 +++ String.concat "" body).

(* write_gamess_us_common, the `if electron_elements: s += write_gamess_us_electron_basis(basis, electron_elements)` part.
   INPUT: els = [(z, data['electron_shells']) for the elements that have the key 'electron_shells'], in dictionary order,
   taken from the basis AFTER the three normalisation calls the writer makes first:
       basis = manip.uncontract_general(basis, True)     (a shell with ONE angular momentum and n > 1 general contractions
                                                          becomes n shells with one contraction each; then prune_basis,
                                                          which also removes the primitives whose coefficient is zero)
       basis = manip.uncontract_spdf(basis, 1, False)    (sp shells stay fused, every momentum > 1 is split off)
       basis = sort.sort_basis(basis, False)
   Nothing else of the dictionary is printed (no name, role, description, function types, region ...): `$DATA`, per element
   an empty line and the upper-case English NAME, per shell `LETTER   nprim` and the numbered primitives, an empty line,
   `$END` (no newline after it).  Nothing at all is written when no element has electron shells. *)
Definition gus_write_electron (els : list (Z * list sshell)) : res string :=
  match els with
  | [] => ok ""
  | _ =>
    do parts <- mapM gus_write_element els;
    ok ("$DATA" +++ nl1 +++ String.concat "" parts +++ nl1 +++ "$END")
  end.

(* ------------------------------------------------------------------ *)
(* reader: the regular expressions (all used with .match on a line that prune_lines has stripped)                          *)
(* ------------------------------------------------------------------ *)

(* `\s*$` : the rest is white space (a final newline is white space too) *)
Definition ws_only (r : string) : bool := is_empty (lstrip_ws r).

(* element_block_re = ^\s*([a-zA-Z]+)\s*$ ; the run of letters is forced to be maximal.  Gives the group. *)
Definition match_element_block (l : string) : option string :=
  let '(a, r) := span_alpha (lstrip_ws l) in
  match a with
  | String _ _ => if ws_only r then Some a else None
  | EmptyString => None
  end.

(* shell_block_re = ^\s*([SPDFGHIKLMN])\s+(\d+)\s*$ ; gives the letter and the digits *)
Definition gus_shell_letters : string := "SPDFGHIKLMN".
Definition match_shell_block (l : string) : option (ascii * string) :=
  match lstrip_ws l with
  | String c r =>
    if sany (Ascii.eqb c) gus_shell_letters then
      match r with
      | String b _ =>
        if is_space b then
          let '(n, r') := span_digit (lstrip_ws r) in
          match n with
          | String _ _ => if ws_only r' then Some (c, n) else None
          | EmptyString => None
          end
        else None
      | EmptyString => None
      end
    else None
  | EmptyString => None
  end.

(* contraction_re = ^\s*(\d+)\s+(F)\s+(F)\s*$ with F = helpers.floating_re_str.  \d+ and F contain no white space and each
   must be followed by white space or the end, so the three groups are exactly the three white-space delimited words of
   the line: a run of digits and two words that match F entirely *)
Definition match_contraction (l : string) : option (string * string * string) :=
  match tokens_acc l "" with
  | [i; e; c] => if andb (isdecimal i) (andb (is_floating e) (is_floating c)) then Some (i, e, c) else None
  | _ => None
  end.

(* ecp_block_re = ^\s*([a-zA-Z]+)-ECP GEN\s+(\d+)\s+(\d+)\s*$ ; gives the three groups *)
Definition match_ecp_block (l : string) : option (string * string * string) :=
  let '(a, r) := span_alpha (lstrip_ws l) in
  match a with
  | String _ _ =>
    if str_prefix "-ECP GEN" r then
      match drop_chars 8 r with
      | String b _ as r1 =>
        if is_space b then
          let '(n1, r2) := span_digit (lstrip_ws r1) in
          match n1, r2 with
          | String _ _, String b2 _ =>
            if is_space b2 then
              let '(n2, r3) := span_digit (lstrip_ws r2) in
              match n2 with
              | String _ _ => if ws_only r3 then Some (a, n1, n2) else None
              | EmptyString => None
              end
            else None
          | _, _ => None
          end
        else None
      | EmptyString => None
      end
    else None
  | EmptyString => None
  end.

(* ------------------------------------------------------------------ *)
(* reader                                                              *)
(* ------------------------------------------------------------------ *)

(* `for iprim in range(nprim)`: basis_lines[iline] (IndexError), parse_line_regex(contraction_re, ...) (RuntimeError),
   assert primidx == iprim + 1, `if float(coeff) != 0.0` (ValueError; a primitive whose coefficient is zero is NOT kept).
   Gives the kept (exponent, coefficient) pairs and the lines that are left *)
Fixpoint gus_read_prims (n : nat) (iprim : Z) (lines : list string) : res (list (string * string) * list string) :=
  match n with
  | O => ok ([], lines)
  | S k =>
    match lines with
    | [] => fail EIndex
    | l :: t =>
      match match_contraction l with
      | None => fail ERuntime
      | Some (i, e, c) =>
        if negb (Z.eqb (digits_val i 0) (iprim + 1)) then fail EAssert else
        match parse_num c with
        | None => fail EValue
        | Some v =>
          do r <- gus_read_prims k (iprim + 1)%Z t;
          ok ((if dec_nonzero v then [(e, c)] else []) ++ fst r, snd r)
        end
      end
    end
  end.

(* `while iline < len(basis_lines) and shell_block_re.match(basis_lines[iline])`: the loop ENDS, without any error, at the
   first line that is not a shell header - whatever is left of the block is never looked at.
   fuel: every iteration consumes at least the header line, so List.length lines is enough *)
Fixpoint gus_parse_shells (fuel : nat) (lines : list string) : res (list sshell) :=
  match fuel with
  | O => ok []
  | S f =>
    match lines with
    | [] => ok []
    | l :: rest =>
      match match_shell_block l with
      | None => ok []
      | Some (c, n) =>
        do shell_am <- amchar_to_int (String c "") false;
        do func_type <- function_type_from_am shell_am "gto" "spherical";
        do pr <- gus_read_prims (Z.to_nat (digits_val n 0)) 0 rest;
        do shs <- gus_parse_shells f (snd pr);
        ok (mkShell func_type "" shell_am (map fst (fst pr)) [map snd (fst pr)] :: shs)
      end
    end
  end.

(* readers/gamess_us.py _parse_electron_lines.  bs_data: element -> its 'electron_shells', in insertion order (the Python
   key is str(Z), the model keeps Z).  create_element_data(bs_data, element_Z, 'electron_shells') with key_exist_ok=False: a
   second block for the same element is a RuntimeError. *)
Definition gus_parse_electron_lines (block : list string) (bs_data : list (Z * list sshell)) : res (list (Z * list sshell)) :=
  match block with
  | [] => fail EIndex
  | first :: rest =>
    match match_element_block first with
    | None => fail ERuntime
    | Some element_name =>
      do element_Z <- element_Z_from_name element_name;
      if existsb (Z.eqb element_Z) (map fst bs_data) then fail ERuntime else
      do shells <- gus_parse_shells (List.length rest) rest;
      ok (bs_data ++ [(element_Z, shells)])
    end
  end.

(* `for element_lines in element_blocks: _parse_electron_lines(element_lines, bs_data)` *)
Fixpoint gus_element_blocks (blocks : list (list string)) (bs_data : list (Z * list sshell)) : res (list (Z * list sshell)) :=
  match blocks with
  | [] => ok bs_data
  | b :: t => do d <- gus_parse_electron_lines b bs_data; gus_element_blocks t d
  end.

(* basis_lines = helpers.prune_lines(basis_lines, '!#$', prune_blank=True) *)
Definition gus_prune (lines : list string) : list string := prune_lines lines "!#$" true true.

(* element_blocks = helpers.partition_lines(basis_lines, element_block_re.match) and the loop over them.  Lines in front of
   the first element name form a block of their own, which _parse_electron_lines refuses (RuntimeError). *)
Definition gus_read_electron_blocks (basis_lines : list string) : res (list (Z * list sshell)) :=
  do element_blocks <- partition_lines basis_lines (fun x => ok (match match_element_block x with Some _ => true | None => false end))
                                       true 1 0 0;
  gus_element_blocks element_blocks [].

Definition is_ecp_block_line (l : string) : bool := match match_ecp_block l with Some _ => true | None => false end.

(* readers/gamess_us.py read_gamess_us, electron part of bs_data.  The second partition (at the lines that match
   ecp_block_re) and _parse_ecp_lines do nothing when no line matches ecp_block_re (the single block does not begin with
   an ECP header, the `while` is not entered); otherwise the ECP part begins: ENotImpl here, Model/GamessUsEcp.v *)
Definition gus_read_electron (lines : list string) : res (list (Z * list sshell)) :=
  let basis_lines := gus_prune lines in
  do d <- gus_read_electron_blocks basis_lines;
  if existsb is_ecp_block_line basis_lines then fail ENotImpl else ok d.

Definition gus_roundtrip (els : list (Z * list sshell)) : res (list (Z * list sshell)) :=
  do t <- gus_write_electron els; gus_read_electron (splitlines t).
