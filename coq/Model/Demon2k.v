(* Model of the ELECTRON-SHELL part of the deMon2k writer / reader pair:
     writers/demon2k.py  write_demon2k           (the comment line, then per element `O-NAME SYM (basis name)`, the
                                                  contraction comment, the shell count, per shell `pqn am nprim` and the
                                                  number rows; the `ECP ... END` part is Model/Demon2kEcp.v)
     readers/demon2k.py  read_demon2k, _parse_electron_lines   (orbital_re, shell_re, ecp_start_re, ecp_entry_re, the END test)
     readers/helpers.py  prune_lines, partition_lines, parse_line_regex, parse_primitive_matrix (with nprim and ngen)
     lut.py              element_sym_from_Z(z, True), element_name_from_Z(z), element_Z_from_name, electron_shells_start,
                         function_type_from_am
     misc.py             contraction_string
     manip.py            create_element_data (key_exist_ok=False)
   Text is a string of bytes; the character classes ([A-Za-z], \d, \s, str.split) are the ASCII ones, as everywhere in Model/
   (Python's \d also accepts the other Unicode decimal digits: a shell line `1 0 <ARABIC-INDIC DIGIT THREE>` is a shell line for
   the library and not for the model - the only difference found).
   Validated against the code: the written text byte for byte for 6-31G, cc-pVDZ, cc-pV5Z, aug-cc-pV5Z, LANL2DZ, def2-SVP (Rb),
   STO-3G, CRENBL and 15 generated dictionaries; read_demon2k on these texts and on 70 damaged texts: same result or the same
   exception class.
   Definitions only; statements in Proofs/Demon2kDefs.v, proofs in Proofs/Demon2kSpec.v.
   Pieces shared with the other format models: nw_point_places, nw_cshell, part_go / partition_lines, span_alpha,
   function_type_from_am (Model/Nwchem.v), parse_primitive_matrix_np, tm_create_electron_shells (Model/Turbomole.v). *)
From BSE Require Import Model.Val Model.Text Model.Basis Model.Manip Model.Matrix Model.Lut Model.Elements Model.Nwchem
                        Model.Turbomole.

(* ------------------------------------------------------------------ *)
(* writer                                                              *)
(* ------------------------------------------------------------------ *)

(* if 'gto_spherical' in basis['function_types']: '# This basis set uses spherical components\n\n' else '... cartesian ...' *)
Definition d2k_header (spherical : bool) : string :=
  "# This basis set uses " +++ (if spherical then "spherical" else "cartesian") +++ " components" +++ nl1 +++ nl1.

(* shells_start[am] of a Python list (a negative index counts from the end) *)
Definition py_index (l : list Z) (i : Z) : res nat :=
  let n := Z.of_nat (List.length l) in
  if andb (0 <=? i)%Z (i <? n)%Z then ok (Z.to_nat i)
  else if andb (i <? 0)%Z (- n <=? i)%Z then ok (Z.to_nat (n + i))
  else fail EIndex.

Fixpoint list_incr (l : list Z) (k : nat) : list Z :=
  match l, k with
  | [], _ => []
  | x :: t, O => (x + 1)%Z :: t
  | x :: t, S k' => x :: list_incr t k'
  end.

(* the body of `for shell in data['electron_shells']`; shells_start is threaded through the loop *)
Definition d2k_write_shell (shells_start : list Z) (s : sshell) : res (string * list Z) :=
  let ncol := S (List.length (coefs s)) in
  let nprim := List.length (exps s) in
  match am s with
  | [a] =>                                                  (* assert len(shell['angular_momentum']) == 1 *)
    do k <- py_index shells_start a;
    let pqn := nth k shells_start 0%Z in
    do m <- write_matrix (map CStr (exps s) :: map (map CStr) (coefs s)) (nw_point_places ncol) false;
    ok ("    " +++ Z_to_string pqn +++ "    " +++ Z_to_string a +++ "    " +++ nat_str nprim +++ nl1 +++ m,
        list_incr shells_start k)
  | _ => fail EAssert
  end.

Fixpoint d2k_write_shells (shells_start : list Z) (shs : list sshell) : res string :=
  match shs with
  | [] => ok ""
  | s :: t => do r <- d2k_write_shell shells_start s;
              do rest <- d2k_write_shells (snd r) t;
              ok (fst r +++ rest)
  end.

(* one iteration of `for z in electron_elements`: (z, (data.get('ecp_electrons', 0), data['electron_shells'])).
   lut.electron_shells_start(ecp_electrons) has max_am = 20: the list has 21 entries *)
Definition d2k_write_element (bsname : string) (e : Z * (Z * list sshell)) : res string :=
  let '(z, (ecp_electrons, shs)) := e in
  do sym <- element_sym_from_Z z true;
  do elname <- element_name_from_Z z false;
  do cs <- contraction_string (Some (map nw_cshell shs)) false;
  do shells_start <- electron_shells_start ecp_electrons 20;
  do body <- d2k_write_shells shells_start shs;
  ok ("O-" +++ upper elname +++ " " +++ upper sym +++ " (" +++ bsname +++ ")" +++ nl1 +++
      "# " +++ cs +++ nl1 +++
      "    " +++ nat_str (List.length shs) +++ nl1 +++ body).

(* spherical = 'gto_spherical' in basis['function_types']
   bsname    = basis['name']
   els       = [(z, (data.get('ecp_electrons', 0), data['electron_shells']))] for the elements that have electron shells, in
               dictionary order, AFTER
                 basis = manip.uncontract_spdf(basis, 0, True)     (fused sp/spd/... shells split into one shell per momentum)
                 basis = manip.uncontract_general(basis, False)    (one shell per general contraction; ends with prune_basis)
                 basis = sort.sort_basis(basis, False)             (primitives and shells sorted)
   The text up to (not including) the '\n\nECP\n' part.  Nothing ends this part: no END line is written unless some element
   has an ECP. *)
Definition d2k_write_electron (spherical : bool) (bsname : string) (els : list (Z * (Z * list sshell))) : res string :=
  do parts <- mapM (d2k_write_element bsname) els;
  ok (d2k_header spherical +++ String.concat "" parts).

(* ------------------------------------------------------------------ *)
(* reader: the regular expressions                                     *)
(* ------------------------------------------------------------------ *)

(* helpers.basis_name_re_str = \d*[a-zA-Z][a-zA-Z0-9\-\+\*\(\)\[\]]*  against a whole string.  \d* must take every leading
   digit (the next character has to be a letter), so the match is deterministic. *)
Definition is_name_char (c : ascii) : bool :=
  orb (is_alpha c) (orb (is_digit c) (sany (Ascii.eqb c) "-+*()[]")).
Definition basis_name_ok (s : string) : bool :=
  match skip_digits s with
  | String c t => andb (is_alpha c) (sall is_name_char t)
  | EmptyString => false
  end.

(* the end of orbital_re after ` \(` :  (NAME)\)\s*$ .  The white space at the end is not part of NAME (no such character in
   its class), the character before it must be the closing parenthesis, everything before that is NAME. *)
Definition name_close (t : string) : bool :=
  match lstrip_ws (srev t) with
  | String ")" n => basis_name_ok (srev n)
  | _ => false
  end.

(* orbital_re = ^O-([A-Za-z]+)(?: ([A-Za-z]+))* \((NAME)\)\s*$ : after the first word, as an automaton.  A word is followed by
   one blank; after the blank a letter starts the next word and `(` starts the name - no choice anywhere. *)
Inductive orb_state := OBlank | OAfterBlank | OWord.
Fixpoint orb_tail (st : orb_state) (s : string) : bool :=
  match s with
  | EmptyString => false
  | String c t =>
    match st with
    | OBlank => if Ascii.eqb c " " then orb_tail OAfterBlank t else false
    | OAfterBlank => if is_alpha c then orb_tail OWord t else if Ascii.eqb c "(" then name_close t else false
    | OWord => if is_alpha c then orb_tail OWord t else if Ascii.eqb c " " then orb_tail OAfterBlank t else false
    end
  end.
(* the first group (the element name) of a matching line *)
Definition match_orbital (l : string) : option string :=
  match l with
  | String "O" (String "-" r) =>
    let '(a, r') := span_alpha r in
    match a with
    | EmptyString => None
    | _ => if orb_tail OBlank r' then Some a else None
    end
  | _ => None
  end.
Definition is_orbital (l : string) : bool := match match_orbital l with Some _ => true | None => false end.

(* shell_re = ^\s*(\d+)\s+(\d+)\s+(\d+)\s*$ : exactly three white-space separated tokens, all of them digits;
   parse_line_regex converts the groups with int() *)
Definition match_shell (l : string) : option (Z * Z * Z) :=
  match tokens_acc l "" with
  | [a; b; c] => if andb (isdecimal a) (andb (isdecimal b) (isdecimal c))
                 then Some (digits_val a 0, digits_val b 0, digits_val c 0) else None
  | _ => None
  end.
Definition is_shell (l : string) : bool := match match_shell l with Some _ => true | None => false end.

(* ecp_start_re = ^\s*ECP\s*$ ,  basis_end_re = ^\s*END\s*$ *)
Definition is_ecp_start (l : string) : bool := String.eqb (strip_ws l) "ECP".
Definition is_basis_end (l : string) : bool := String.eqb (strip_ws l) "END".

(* no white space before the first group: ^([A-Za-z]+)... *)
Definition starts_nonspace (l : string) : bool :=
  match l with String c _ => negb (is_space c) | EmptyString => false end.
(* ecp_entry_re = ^([A-Za-z]+)\s+nelec\s+(\d+)\s*$ : three tokens - a word at the very beginning, `nelec`, digits *)
Definition match_ecp_entry (l : string) : option (string * Z) :=
  if negb (starts_nonspace l) then None else
  match tokens_acc l "" with
  | [a; b; c] => if andb (sall is_alpha a) (andb (String.eqb b "nelec") (isdecimal c)) then Some (a, digits_val c 0) else None
  | _ => None
  end.
Definition is_ecp_entry (l : string) : bool := match match_ecp_entry l with Some _ => true | None => false end.

(* int(s) of a token (no white space inside): optional sign, digits, single underscores between digits *)
Fixpoint int_body_ok (s : string) (prev_digit : bool) : bool :=
  match s with
  | EmptyString => prev_digit
  | String c t => if is_digit c then int_body_ok t true
                  else if Ascii.eqb c "_" then andb prev_digit (int_body_ok t false)
                  else false
  end.
Fixpoint drop_underscores (s : string) : string :=
  match s with
  | EmptyString => EmptyString
  | String c t => if Ascii.eqb c "_" then drop_underscores t else String c (drop_underscores t)
  end.
Definition py_int (s : string) : res Z :=
  let '(neg, body) := match s with
                      | String "-" t => (true, t)
                      | String "+" t => (false, t)
                      | _ => (false, s)
                      end in
  if int_body_ok body false then
    let v := digits_val (drop_underscores body) 0 in ok (if neg then (- v)%Z else v)
  else fail EValue.

(* ------------------------------------------------------------------ *)
(* reader                                                              *)
(* ------------------------------------------------------------------ *)

(* the body of `for sh_lines in shell_blocks`: None = `continue` (the lines before the first shell line) *)
Definition d2k_parse_shell_block (sh_lines : list string) : res (option sshell) :=
  match sh_lines with
  | [] => fail EIndex
  | first :: rest =>
    match match_shell first with
    | None => ok None
    | Some (formal_n, shell_am, nprim) =>
      (* helpers.parse_primitive_matrix(sh_lines[1:1 + nprim], nprim, ngen=1): lines after the first nprim are not looked at *)
      do ec <- parse_primitive_matrix_np (firstn (Z.to_nat nprim) rest) nprim 1;
      let '(exponents, coefficients) := ec in
      (* "Function type (assuming always spherical)" *)
      do func_type <- function_type_from_am [shell_am] "gto" "spherical";
      ok (Some (mkShell func_type "" [shell_am] exponents coefficients))
    end
  end.

Fixpoint d2k_parse_shell_blocks (blocks : list (list string)) : res (list sshell) :=
  match blocks with
  | [] => ok []
  | b :: t => do r <- d2k_parse_shell_block b;
              do rest <- d2k_parse_shell_blocks t;
              ok (match r with Some s => s :: rest | None => rest end)
  end.

(* readers/demon2k.py _parse_electron_lines(basis_lines, bs_data); the sections have at least three lines (min_size=3).
   bs_data: element -> its 'electron_shells', in insertion order (the orbital sections are read before any ECP, so an
   element that exists has the key: create_element_data raises RuntimeError) *)
Definition d2k_parse_electron_lines (basis_lines : list string) (bs_data : list (Z * list sshell))
  : res (list (Z * list sshell)) :=
  match basis_lines with
  | l0 :: l1 :: rest =>
    match match_orbital l0 with
    | None => fail EAssert                                    (* assert orbital_re.match(basis_lines[0]) *)
    | Some element_name =>
      do element_Z <- element_Z_from_name element_name;
      do d <- tm_create_electron_shells element_Z bs_data;
      (* n_shells = int(basis_lines[1].split()[0]) *)
      do n_shells <- match tokens_acc l1 "" with t :: _ => py_int t | [] => fail EIndex end;
      do shell_blocks <- partition_lines rest (fun l => ok (is_shell l)) true 1 0 0;
      if negb (Z.eqb (Z.of_nat (List.length shell_blocks)) n_shells) then fail ERuntime else
      do shs <- d2k_parse_shell_blocks shell_blocks;
      ok (bs_data ++ [(element_Z, shs)])
    end
  | _ => fail EIndex
  end.

(* `for es in orbital_sections: _parse_electron_lines(es, bs_data)` *)
Fixpoint d2k_sections (sections : list (list string)) (bs_data : list (Z * list sshell)) : res (list (Z * list sshell)) :=
  match sections with
  | [] => ok bs_data
  | s :: t => do d <- d2k_parse_electron_lines s bs_data; d2k_sections t d
  end.

(* the first half of read_demon2k, on the pruned lines: partition at the orbital lines (a file that does not begin with one
   has a first section that fails the assert), every section at least three lines long *)
Definition d2k_read_orbitals (basis_lines : list string) : res (list (Z * list sshell)) :=
  do orbital_sections <- partition_lines basis_lines (fun l => ok (is_orbital l)) true 3 0 0;
  d2k_sections orbital_sections [].

(* "Last line should be END": last = basis_lines.pop(); if last != 'END': raise RuntimeError *)
Definition d2k_end_check (basis_lines : list string) : res unit :=
  if String.eqb (last basis_lines "") "END" then ok tt else fail ERuntime.

(* readers/demon2k.py read_demon2k, the 'electron_shells' of the result.  An empty file gives the empty dictionary (the bare
   dictionary, not the pair the other return statement gives: read_formatted_basis_str then fails to unpack it).
   The ECP half: the file is partitioned at the `ECP` lines (min_size=3 again) and every part goes to _parse_ecp_lines, which
   looks for `sym nelec n` lines whether or not there is an `ECP` line; without such a line it does nothing.  With one the
   text is outside the modelled fragment here (ENotImpl); Model/Demon2kEcp.v has the whole reader. *)
Definition d2k_read_electron (lines : list string) : res (list (Z * list sshell)) :=
  let basis_lines := prune_lines lines "#" true true in
  match basis_lines with
  | [] => ok []
  | _ =>
    do d <- d2k_read_orbitals basis_lines;
    do _ <- partition_lines basis_lines (fun l => ok (is_ecp_start l)) true 3 0 0;
    if existsb is_ecp_entry basis_lines then fail ENotImpl else
    do _ <- d2k_end_check basis_lines;
    ok d
  end.

(* what the library does with its own output: always an error, see d2k_roundtrip_noend_stmt *)
Definition d2k_roundtrip (spherical : bool) (bsname : string) (els : list (Z * (Z * list sshell)))
  : res (list (Z * list sshell)) :=
  do t <- d2k_write_electron spherical bsname els; d2k_read_electron (splitlines t).

(* the same with the line the reader insists on (and the writer prints only after an ECP part) added by hand *)
Definition d2k_roundtrip_end (spherical : bool) (bsname : string) (els : list (Z * (Z * list sshell)))
  : res (list (Z * list sshell)) :=
  do t <- d2k_write_electron spherical bsname els; d2k_read_electron (splitlines (t +++ "END" +++ nl1)).
