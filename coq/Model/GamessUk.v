(* Model of the GAMESS-UK writer (there is NO reader for this format):
     writers/gamess_uk.py  write_gamess_uk
     printing.py           write_matrix([coefficients[0], exponents, *coefficients[1:]], point_places)      (shells)
                           write_matrix([rexponents, *coefficients, gexponents], [1, 9, 32])                (potentials)
     lut.py                element_name_from_Z, element_sym_from_Z, amint_to_char(am, hij=True, use_L=True)
   `epot`, ecp_order (sorted by angular momentum, the highest moved to the front), ecp_max_am, leftpad_check:
   Model/NwchemEcp.v.  Text is a string of bytes, as everywhere in Model/.
   Definitions only; statements in Proofs/GamessUkDefs.v, proofs in Proofs/GamessUkSpec.v. *)
From BSE Require Import Model.Val Model.Text Model.Num Model.Basis Model.Manip Model.Matrix Model.Lut Model.Elements
                        Model.Nwchem Model.NwchemEcp Model.G94.

(* ------------------------------------------------------------------ *)
(* the electron part                                                   *)
(* ------------------------------------------------------------------ *)
(* ncol = len(coefficients) + 2   ("include index column" - there is none in this format);
   point_places = [8 * i + 15 * (i - 1) for i in range(1, ncol)] : len(coefficients) + 1 places, 8, 31, 54, ... *)
Definition guk_point_places (ncol : nat) : list Z :=
  map (fun i => (8 * i + 15 * (i - 1))%Z) (zrange 1 (ncol - 1)).

(* one iteration of `for shell in data['electron_shells']`:
     amchar = lut.amint_to_char(am, hij=True, use_L=True).upper();  s += '{}   {}\n'.format(amchar, el_sym)
     s += printing.write_matrix([coefficients[0], exponents, *coefficients[1:]], point_places)
   "order for sp shells is (coeff of s) (exponents) (coeff of p)" - and for EVERY shell the first coefficient column comes
   before the exponents.  coefficients[0] of an empty list is an IndexError *)
Definition guk_write_shell (sym : string) (s : sshell) : res string :=
  let ncol := (List.length (coefs s) + 2)%nat in
  do amchar <- amint_to_char (am s) true true;
  match coefs s with
  | [] => fail EIndex
  | c0 :: ct =>
    let cols := map CStr c0 :: map CStr (exps s) :: map (map CStr) ct in
    do _ <- leftpad_check cols (guk_point_places ncol);
    do m <- write_matrix cols (guk_point_places ncol) false;
    ok (upper amchar +++ "   " +++ sym +++ nl1 +++ m)
  end.

(* one iteration of `for z in electron_elements`:
     el_name = lut.element_name_from_Z(z).upper();  el_sym = lut.element_sym_from_Z(z, normalize=True)
     s += '\n';  s += '# ' + el_name + "\n" *)
Definition guk_write_element (zs : Z * list sshell) : res string :=
  let '(z, shs) := zs in
  do name <- element_name_from_Z z false;
  do sym <- element_sym_from_Z z true;
  do body <- mapM (guk_write_shell sym) shs;
  ok (nl1 +++ "# " +++ upper name +++ nl1 +++ String.concat "" body).

(* `if electron_elements:` ... - nothing is written for no element either way *)
Definition guk_write_electron (els : list (Z * list sshell)) : res string :=
  do parts <- mapM guk_write_element els;
  ok (String.concat "" parts).

(* ------------------------------------------------------------------ *)
(* the ECP part                                                        *)
(* ------------------------------------------------------------------ *)
Definition guk_ecp_point_places : list Z := [1; 9; 32]%Z.
(* [rexponents, *coefficients, gexponents] *)
Definition guk_ecp_cols (p : epot) : list (list cell) :=
  map CInt (p_rexp p) :: (map (map CStr) (p_coef p) ++ [map CStr (p_gexp p)]).

(* the body of `for pot in ecp_list`: the matrix only - NO title line, neither the momentum of the potential nor the
   number of its terms is written *)
Definition guk_write_pot (p : epot) : res string :=
  do _ <- leftpad_check (guk_ecp_cols p) guk_ecp_point_places;
  write_matrix (guk_ecp_cols p) guk_ecp_point_places false.

(* one iteration of `for z in ecp_elements`: (Z, (data['ecp_electrons'], data['ecp_potentials'])).
     sym = lut.element_sym_from_Z(z).upper()
     max_ecp_am = max([x['angular_momentum'][0] for x in data['ecp_potentials']])
     ecp_list = sorted(...); ecp_list.insert(0, ecp_list.pop())
     s += 'CARDS {}\n'.format(sym);  s += '    {}     {}\n'.format(max_ecp_am, data['ecp_electrons'])
     ... potentials ...
     s += '\n' *)
Definition guk_write_ecp_element (e : Z * (Z * list epot)) : res string :=
  let '(z, (nelec, pots)) := e in
  do sym <- element_sym_from_Z z false;
  do mx <- ecp_max_am pots;
  do ecp_list <- ecp_order pots;
  do body <- mapM guk_write_pot ecp_list;
  ok ("CARDS " +++ upper sym +++ nl1 +++
      "    " +++ Z_to_string mx +++ "     " +++ Z_to_string nelec +++ nl1 +++
      String.concat "" body +++ nl1).

(* if ecp_elements:  s += "\n\nEffective Core Potentials\n";  s += "---------------------------\n";  the elements *)
Definition guk_write_ecp (ecps : list (Z * (Z * list epot))) : res string :=
  match ecps with
  | [] => ok ""
  | _ =>
    do parts <- mapM guk_write_ecp_element ecps;
    ok (nl1 +++ nl1 +++ "Effective Core Potentials" +++ nl1 +++ "---------------------------" +++ nl1 +++
        String.concat "" parts)
  end.

(* ------------------------------------------------------------------ *)
(* write_gamess_uk                                                     *)
(* ------------------------------------------------------------------ *)
(* INPUT: the two views of basis['elements'] AFTER the three normalisation calls of write_gamess_uk, in this order:
       basis = manip.uncontract_general(basis, True)
       basis = manip.uncontract_spdf(basis, 1, False)
       basis = sort.sort_basis(basis, False)
     els  = [(z, data['electron_shells'])                       for the elements that have the key 'electron_shells']
     ecps = [(z, (data['ecp_electrons'], data['ecp_potentials'])) for the elements that have the key 'ecp_potentials']
   both in dictionary order.  Nothing else of the dictionary is printed.
   The text: per element an empty line and `# NAME`, per shell `LETTER   Sym` and the matrix coefficient | exponent
   (| second coefficient for an sp shell); then, if there is an ECP, two newlines, two title lines, per element `CARDS SYM`,
   `    lmax     nelec`, the terms r exponent | coefficient | gaussian exponent of all potentials (highest momentum first)
   one after the other, and an empty line.  Every line ends with a newline. *)
Definition guk_write_all (els : list (Z * list sshell)) (ecps : list (Z * (Z * list epot))) : res string :=
  do a <- guk_write_electron els;
  do b <- guk_write_ecp ecps;
  ok (a +++ b).
