(* Statements about the VeloxChem writer / reader pair: what write_veloxchem prints, what read_veloxchem does with it.
   Definitions only; the proofs are in Proofs/VeloxchemSpec.v.

   SUMMARY.  The full-strength round trip is FALSE, for every input: the writer hashes the text it has written (with its
   line ends), the reader hashes "".join() of the lines it is given (str.splitlines() + strip(): no line ends), so that
   the checksum test of read_veloxchem refuses every file write_veloxchem has written (vlx_roundtrip_partial_stmt,
   vlx_checksum_mismatch_stmt, vlx_roundtrip_collision_free_stmt, vlx_roundtrip_refuted_stmt).  With the checksum out of
   the way (the last line computed the reader's way) the data come back exactly (vlx_reread_stmt, vlx_read_fixed_stmt). *)
From BSE Require Import Model.Val Model.Text Model.Basis Model.Manip Model.Matrix Model.Lut Model.Elements Model.Nwchem
                        Model.G94 Model.Veloxchem Proofs.MatrixDefs Proofs.NwchemDefs.

(* ---------- well-formed input of the writer (what is left after optimize_general / uncontract_general /
   uncontract_spdf(0) / prune_basis) ---------- *)
(* `floating s` (Proofs/NwchemDefs.v) : is_floating s = true, the string matches helpers.floating_re entirely *)
Definition vlx_shell_ok (s : sshell) : Prop :=
  (* at least one primitive *)
  exps s <> [] /\
  (* exactly ONE angular momentum (no fused shells: the writer has called uncontract_spdf(basis, 0)), and one that has
     a letter in lut._amchar_map_hik (25 letters) - the shell line and the reader use the 26 letters of the hij table, but
     the comment line is made by misc.contraction_string, which uses the other table *)
  (exists l, am s = [l] /\ (0 <= l < 25)%Z) /\
  (* exactly ONE column of coefficients (the writer has called uncontract_general), one coefficient per primitive *)
  (exists c, coefs s = [c] /\ List.length c = List.length (exps s)) /\
  (* every number is a string matching helpers.floating_re (this implies: non-empty, no white space, a decimal point,
     bytes < 128 only - lemmas floating_is_cell, floating_ascii of Proofs/MatrixSpec.v) *)
  Forall floating (exps s) /\ Forall (Forall floating) (coefs s).

(* a byte that cannot begin one of the line boundaries of str.splitlines: not \n \r \v \f \x1c \x1d \x1e, and not 0xC2 /
   0xE2, the first bytes of U+0085, U+2028 and U+2029 (the same predicate as Proofs/MatrixSpec.v nobd) *)
Definition vlx_line_byte (c : ascii) : bool :=
  negb (orb (beq c 13) (orb (beq c 10) (orb (beq c 11) (orb (beq c 12) (orb (beq c 28) (orb (beq c 29) (orb (beq c 30)
       (orb (beq c 194) (beq c 226))))))))).

Definition vlx_ok (name : string) (els : list (Z * list sshell)) : Prop :=
  (* basis['name'] stays on the `@BASIS_SET` line (any other character, blanks included, is fine; so is the empty name) *)
  sall vlx_line_byte name = true /\
  (* dictionary keys: pairwise distinct atomic numbers, all of them in lut's element table (1..120) *)
  NoDup (map fst els) /\
  Forall (fun zs => (1 <= fst zs <= 120)%Z /\ Forall vlx_shell_ok (snd zs)) els.
(* NOT needed: els <> [] (the file is `@BASIS_SET name` and the checksum; {} comes back); snd zs <> [] (an element without
   shells is written as `@ATOMBASIS SYM` / `@END` and comes back without shells). *)

(* the checksum: what is needed of the hash function is that its value is one non-empty word of hexadecimal digits
   (hexdigest()); md5_hex is such a function (vlx_md5_digest_stmt) *)
Definition vlx_hex_char (c : ascii) : bool := sany (Ascii.eqb c) "0123456789abcdef".
Definition vlx_digest_ok (h : string -> string) : Prop := forall x, h x <> "" /\ sall vlx_hex_char (h x) = true.
Definition vlx_md5_digest_stmt : Prop := vlx_digest_ok md5_hex.

(* ---------- what comes back ---------- *)
(* the function type the reader assigns: lut.function_type_from_am(AM, 'gto', 'spherical') (nw_ftype of
   Proofs/NwchemDefs.v) - always spherical; the region is ''.  Numbers: same normalisation as in matrix_roundtrip_stmt
   with conv = false: every digit, sign and point kept, d/D -> e/E *)
Definition vlx_expected_shell (s : sshell) : sshell :=
  mkShell (nw_ftype "spherical" (am s)) "" (am s) (map (norm false) (exps s)) (map (map (norm false)) (coefs s)).
Definition vlx_expected (els : list (Z * list sshell)) : list (Z * list sshell) :=
  map (fun zs => (fst zs, map vlx_expected_shell (snd zs))) els.

(* ---------- statements ---------- *)
(* the writer does not fail on well-formed input (whatever the hash function; vlx_write_electron is the instance
   h = md5_hex) *)
Definition vlx_write_total_stmt : Prop :=
  forall h name els, vlx_ok name els -> exists t, vlx_write_electron_h h name els = inr t.

(* FULL STRENGTH - FALSE (vlx_roundtrip_refuted_stmt): reading back what was written gives the same elements, in order,
   with the same shells, in order *)
Definition vlx_roundtrip_stmt : Prop :=
  forall name els, vlx_ok name els -> vlx_roundtrip name els = inr (vlx_expected els).

(* what is true instead, for every hash function: the written text is the body s followed by h s; the reader compares
   h s with h (vlx_unbroken s) - the stripped lines of s joined WITHOUT line ends - and returns exactly the expected data
   when the two digests agree, RuntimeError ("Computed and expected MD5 checksums for basis set differ.") otherwise *)
Definition vlx_roundtrip_partial_stmt : Prop :=
  forall h, vlx_digest_ok h -> forall name els, vlx_ok name els ->
    exists s, vlx_write_body name els = inr s /\
              vlx_write_electron_h h name els = inr (s +++ h s) /\
              vlx_roundtrip_h h name els =
                if String.eqb (h (vlx_unbroken s)) (h s) then inr (vlx_expected els) else inl ERuntime.

(* the two hashed strings are never the same ... *)
Definition vlx_checksum_mismatch_stmt : Prop :=
  forall name els s, vlx_ok name els -> vlx_write_body name els = inr s -> vlx_unbroken s <> s.
(* ... so that with a collision-free hash function NO written file can be read back *)
Definition vlx_roundtrip_collision_free_stmt : Prop :=
  forall h, vlx_digest_ok h -> (forall a b, h a = h b -> a = b) ->
    forall name els, vlx_ok name els -> vlx_roundtrip_h h name els = inl ERuntime.

(* the read-back with the checksum out of the way is exact: the same elements, in order, with the same shells, in
   order *)
Definition vlx_reread_stmt : Prop :=
  forall name els, vlx_ok name els -> vlx_reread name els = inr (vlx_expected els).
(* the same as a statement about read_veloxchem itself: the writer's lines (as read_formatted_basis_str prepares them)
   followed by the checksum computed the READER's way are read exactly *)
Definition vlx_read_fixed_stmt : Prop :=
  forall h, vlx_digest_ok h -> forall name els s, vlx_ok name els -> vlx_write_body name els = inr s ->
    vlx_read_electron_h h (map strip_ws (splitlines s) ++ [h (vlx_unbroken s)]) = inr (vlx_expected els).

(* C04 direction: every exponent and every coefficient of the (normalised) input - zeros included: nothing is left out by
   the modelled part, and convert_exp=False: the exponent marker is printed as it is - is a white-space delimited token of
   some line of the written text.  nw_number_of (Proofs/NwchemDefs.v): x is an exponent or a coefficient of some shell of
   some element of els.  (What the normalisation calls remove BEFORE - zero-coefficient primitives, duplicate shells - is
   the business of Model/Manip.v.) *)
Definition vlx_no_number_lost_stmt : Prop :=
  forall h, vlx_digest_ok h -> forall name els t, vlx_ok name els -> vlx_write_electron_h h name els = inr t ->
    forall x, nw_number_of els x -> exists line, In line (splitlines t) /\ In x (tokens_acc line "").

(* ---------- the full-strength statement is false: 6-31G for H and C, from the store, as write_veloxchem sees it after
   its normalisation calls (the sp shells of carbon split, in the order uncontract_spdf leaves them in) ---------- *)
Definition vx_H1 : sshell :=
  mkShell "gto" "valence" [0%Z] ["0.1873113696E+02"; "0.2825394365E+01"; "0.6401216923E+00"]
          [["0.3349460434E-01"; "0.2347269535E+00"; "0.8137573261E+00"]].
Definition vx_H2 : sshell := mkShell "gto" "valence" [0%Z] ["0.1612777588E+00"] [["1.0000000"]].
Definition vx_C1 : sshell := mkShell "gto" "valence" [0%Z] ["0.1687144782E+00"] [["0.1000000000E+01"]].
Definition vx_C2 : sshell :=
  mkShell "gto" "valence" [0%Z] ["0.7868272350E+01"; "0.1881288540E+01"; "0.5442492580E+00"]
          [["-0.1193324198E+00"; "-0.1608541517E+00"; "0.1143456438E+01"]].
Definition vx_C3 : sshell :=
  mkShell "gto" "valence" [1%Z] ["0.7868272350E+01"; "0.1881288540E+01"; "0.5442492580E+00"]
          [["0.6899906659E-01"; "0.3164239610E+00"; "0.7443082909E+00"]].
Definition vx_C4 : sshell := mkShell "gto" "valence" [1%Z] ["0.1687144782E+00"] [["0.1000000000E+01"]].
Definition vx_C5 : sshell :=
  mkShell "gto" "valence" [0%Z]
          ["0.3047524880E+04"; "0.4573695180E+03"; "0.1039486850E+03"; "0.2921015530E+02"; "0.9286662960E+01"; "0.3163926960E+01"]
          [["0.1834737132E-02"; "0.1403732281E-01"; "0.6884262226E-01"; "0.2321844432E+00"; "0.4679413484E+00"; "0.3623119853E+00"]].
Definition vx_els : list (Z * list sshell) := [(1%Z, [vx_H1; vx_H2]); (6%Z, [vx_C1; vx_C2; vx_C3; vx_C4; vx_C5])].

(* the text get_basis('6-31g', elements=[1,6], fmt='veloxchem', header=False) returns, byte for byte *)
Definition vx_body_lines : list string :=
   ["@BASIS_SET 6-31G";
    "";
    "! HYDROGEN       (4s) -> [2s]";
    "@ATOMBASIS H";
    "S    3    1";
    "0.1873113696E+02  0.3349460434E-01";
    "0.2825394365E+01  0.2347269535E+00";
    "0.6401216923E+00  0.8137573261E+00";
    "S    1    1";
    "0.1612777588E+00  1.0000000";
    "@END";
    "";
    "! CARBON       (10s,4p) -> [3s,2p]";
    "@ATOMBASIS C";
    "S    1    1";
    "0.1687144782E+00  0.1000000000E+01";
    "S    3    1";
    "0.7868272350E+01 -0.1193324198E+00";
    "0.1881288540E+01 -0.1608541517E+00";
    "0.5442492580E+00  0.1143456438E+01";
    "P    3    1";
    "0.7868272350E+01  0.6899906659E-01";
    "0.1881288540E+01  0.3164239610E+00";
    "0.5442492580E+00  0.7443082909E+00";
    "P    1    1";
    "0.1687144782E+00  0.1000000000E+01";
    "S    6    1";
    "0.3047524880E+04  0.1834737132E-02";
    "0.4573695180E+03  0.1403732281E-01";
    "0.1039486850E+03  0.6884262226E-01";
    "0.2921015530E+02  0.2321844432E+00";
    "0.9286662960E+01  0.4679413484E+00";
    "0.3163926960E+01  0.3623119853E+00";
    "@END"].
Definition vx_body : string := String.concat "" (map (fun l => l +++ nl1) vx_body_lines).
Definition vx_text : string := vx_body +++ "8a632b967c7f1f397a4a8e7a98a793e9".

Definition vlx_example_stmt : Prop :=
  vlx_ok "6-31G" vx_els /\
  vlx_write_body "6-31G" vx_els = inr vx_body /\
  vlx_write_electron "6-31G" vx_els = inr vx_text /\
  (* the digest the writer appends, and the digest the reader computes from the lines of the same text *)
  md5_hex vx_body = "8a632b967c7f1f397a4a8e7a98a793e9" /\
  md5_hex (vlx_unbroken vx_body) = "0a160e40a9dfc7bc1001c90e6f6235a9" /\
  (* FINDING: the library cannot read what it has written *)
  vlx_roundtrip "6-31G" vx_els = inl ERuntime /\
  (* with the last line replaced by the reader's digest the data come back, all of them *)
  vlx_read_electron (map strip_ws (splitlines vx_body) ++ ["0a160e40a9dfc7bc1001c90e6f6235a9"]) = inr (vlx_expected vx_els) /\
  vlx_reread "6-31G" vx_els = inr (vlx_expected vx_els) /\
  (* the only visible change: the region *)
  vlx_expected vx_els =
    map (fun zs => (fst zs, map (fun s => mkShell (ftype s) "" (am s) (exps s) (coefs s)) (snd zs))) vx_els.

Definition vlx_roundtrip_refuted_stmt : Prop := ~ vlx_roundtrip_stmt.

(* ---------- which conditions of vlx_ok cannot be dropped (shown on vlx_reread, i.e. with the checksum out of the way, and
   on the writer) ---------- *)
Definition vlx_h : sshell := mkShell "gto" "" [0%Z] ["1.0"] [["1.0"]].

(* one angular momentum: a fused shell (valid basis data, but never the writer's own input: uncontract_spdf(basis, 0)
   has split it) is printed with the letters `SP`, which shell_begin_re does not accept *)
Definition vlx_reread_fused_stmt : Prop :=
  let sp1 := mkShell "gto" "" [0%Z; 1%Z] ["1.0"] [["1.0"]; ["1.0"]] in
  vlx_write_body "x" [(1%Z, [sp1])] =
    inr (String.concat nl1 ["@BASIS_SET x"; ""; "! HYDROGEN       (1s,1p) -> [1s,1p]"; "@ATOMBASIS H"; "SP    1    2";
                            "1.0               1.0               1.0"; "@END"; ""]) /\
  vlx_reread "x" [(1%Z, [sp1])] = inl ERuntime.

(* one column: a shell with two general contractions (valid basis data, but never the writer's own input:
   uncontract_general) is printed as `D    2    2`; "number of contracted functions must be 1 for all shells" *)
Definition vlx_reread_general_stmt : Prop :=
  let d := mkShell "gto_spherical" "" [2%Z] ["1.0"; "2.0"] [["1.0"; "0.0"]; ["0.0"; "1.0"]] in
  vlx_write_body "x" [(1%Z, [d])] =
    inr (String.concat nl1 ["@BASIS_SET x"; ""; "! HYDROGEN       (,2d) -> [,2d]"; "@ATOMBASIS H"; "D    2    2";
                            "1.0               1.0               0.0"; "2.0               0.0               1.0"; "@END"; ""]) /\
  vlx_reread "x" [(1%Z, [d])] = inl ERuntime.
(* no column at all *)
Definition vlx_reread_nocoef_stmt : Prop :=
  vlx_reread "x" [(1%Z, [mkShell "gto" "" [0%Z] ["1.0"] []])] = inl ERuntime.

(* `0 <= l < 25`: l = 24 is fine; l = 25 has the letter E in the hij table and in shell_begin_re, but the comment line
   (misc.contraction_string -> amint_to_char([25]) with the 25 letters of the hik table) is an IndexError: the writer
   cannot print what the reader could read *)
Definition vlx_am_bound_stmt : Prop :=
  vlx_reread "x" [(1%Z, [mkShell "gto_spherical" "" [24%Z] ["1.0"] [["1.0"]]])] =
    inr [(1%Z, [mkShell "gto_spherical" "" [24%Z] ["1.0"] [["1.0"]]])] /\
  vlx_write_body "x" [(1%Z, [mkShell "gto_spherical" "" [25%Z] ["1.0"] [["1.0"]]])] = inl EIndex /\
  vlx_write_body "x" [(1%Z, [mkShell "gto" "" [(-1)%Z] ["1.0"] [["1.0"]]])] = inl EIndex /\
  vlx_read_electron_h (fun _ => "0") ["@BASIS_SET x"; "@ATOMBASIS H"; "E 1 1"; "1.0 1.0"; "@END"; "0"] =
    inr [(1%Z, [mkShell "gto_spherical" "" [25%Z] ["1.0"] [["1.0"]]])].
(* no angular momentum at all: the shell line begins with blanks *)
Definition vlx_reread_noam_stmt : Prop :=
  vlx_reread "x" [(1%Z, [mkShell "gto" "" [] ["1.0"] [["1.0"]]])] = inl ERuntime.

(* `exps s <> []`: `S    0    1` and no number line: 'No exponents found' *)
Definition vlx_reread_noprim_stmt : Prop :=
  vlx_reread "x" [(1%Z, [mkShell "gto" "" [0%Z] [] [[]]])] = inl ERuntime.
(* `length c = length (exps s)`: a short column is silently cut by zip( *mat ) in write_matrix, the nprim check refuses *)
Definition vlx_reread_ragged_stmt : Prop :=
  vlx_reread "x" [(1%Z, [mkShell "gto" "" [0%Z] ["1.0"; "2.0"] [["1.0"]]])] = inl ERuntime.
(* `Forall floating`: a number without a decimal point stops the writer (ValueError in _find_point); a number with a
   point that is not a floating point literal is printed and refused by the reader *)
Definition vlx_floating_stmt : Prop :=
  vlx_write_body "x" [(1%Z, [mkShell "gto" "" [0%Z] ["1"] [["1.0"]]])] = inl EValue /\
  vlx_reread "x" [(1%Z, [mkShell "gto" "" [0%Z] ["1.0x"] [["1.0"]]])] = inl ERuntime.
(* `NoDup (map fst els)` (cannot happen for a Python dictionary): atombases_lines is a dictionary keyed by the symbol, the
   second block replaces the first.  `1 <= z <= 120`: no symbol - KeyError in the writer *)
Definition vlx_elements_stmt : Prop :=
  vlx_reread "x" [(1%Z, [vlx_h]); (1%Z, [vlx_h; vlx_h])] = inr [(1%Z, [vlx_h; vlx_h])] /\
  vlx_write_body "x" [(0%Z, [vlx_h])] = inl EKey /\
  vlx_write_body "x" [(121%Z, [vlx_h])] = inl EKey /\
  vlx_reread "x" [(120%Z, [vlx_h])] = inr [(120%Z, [vlx_h])].
(* the name: a line boundary in basis['name'] (any string is a valid name) puts text of the name on lines of its own.
   `@END` there shifts the pairing of @ATOMBASIS and @END lines - hydrogen comes back WITHOUT its shell, silently; a second
   `@BASIS_SET` line is refused *)
Definition vlx_name_stmt : Prop :=
  vlx_reread ("x" +++ nl1 +++ "@END") [(1%Z, [vlx_h])] = inr [(1%Z, [])] /\
  vlx_roundtrip_h (fun _ => "0") ("x" +++ nl1 +++ "@BASIS_SET y") [(1%Z, [vlx_h])] = inl ERuntime /\
  (* names that are fine: blanks, punctuation, the empty name *)
  Forall (fun n => vlx_reread n [(1%Z, [vlx_h])] = inr [(1%Z, [vlx_h])]) [""; "  "; "6-31G**"; " a  b! @END "; "def2-SV(P)/C"].

(* --- conditions that other formats need and this one does not *)
Definition vlx_reread_empty_stmt : Prop :=
  vlx_write_body "x" [] = inr ("@BASIS_SET x" +++ nl1) /\ vlx_reread "x" [] = inr [].
Definition vlx_reread_noshell_stmt : Prop :=
  vlx_reread "x" [(1%Z, [vlx_h]); (2%Z, [])] = inr [(1%Z, [vlx_h]); (2%Z, [])].

(* --- what is lost (vlx_expected says so): a Cartesian d shell comes back as gto_spherical (write_formatted_basis_str
   refuses Cartesian basis sets for this format, write_veloxchem itself does not look), the region is dropped, D becomes E *)
Definition vlx_reread_cartesian_stmt : Prop :=
  vlx_reread "x" [(1%Z, [mkShell "gto_cartesian" "valence" [2%Z] ["1.0D+00"] [["1.0e0"]]])] =
    inr [(1%Z, [mkShell "gto_spherical" "" [2%Z] ["1.0E+00"] [["1.0e0"]]])].

(* --- the checksum test of the reader on hand-made input (constant hash functions stand for a checksum that agrees /
   does not agree): the last line is stripped, lines before `@BASIS_SET` are not hashed but ARE parsed, an empty list of
   lines is {}, no `@BASIS_SET` line is an IndexError, two are a RuntimeError, a lower-case shell letter is refused,
   leading zeros and tabs are accepted *)
Definition vlx_read_hand_stmt : Prop :=
  let good := ["@BASIS_SET x"; "@ATOMBASIS h"; "S  01" +++ String (byte 9) "1"; " 1.0 1.0D0 "; "@END"] in
  vlx_read_electron_h (fun _ => "0") (good ++ ["  0 "]) = inr [(1%Z, [mkShell "gto" "" [0%Z] ["1.0"] [["1.0E0"]]])] /\
  vlx_read_electron_h (fun _ => "0") (good ++ ["1"]) = inl ERuntime /\
  vlx_read_electron_h (fun x => x) (["@ATOMBASIS He"; "@END"] ++ good ++ ["@BASIS_SET x@ATOMBASIS hS  01" +++ String (byte 9) "1 1.0 1.0D0 @END"]) =
    inr [(2%Z, []); (1%Z, [mkShell "gto" "" [0%Z] ["1.0"] [["1.0E0"]]])] /\
  vlx_read_electron [] = inr [] /\
  vlx_read_electron ["x"; "y"] = inl EIndex /\
  vlx_read_electron ["@BASIS_SET x"; "@BASIS_SET y"; "z"] = inl ERuntime /\
  vlx_read_electron_h (fun _ => "0") ["@BASIS_SET x"; "@ATOMBASIS H"; "s 1 1"; "1.0 1.0"; "@END"; "0"] = inl ERuntime /\
  vlx_read_electron_h (fun _ => "0") ["@BASIS_SET x"; "@ATOMBASIS"; "@END"; "0"] = inl EIndex /\
  vlx_read_electron_h (fun _ => "0") ["@BASIS_SET x"; "@ATOMBASIS Xx"; "@END"; "0"] = inl EKey /\
  vlx_read_electron_h (fun _ => "0") ["@BASIS_SET x"; "@ATOMBASIS H"; "@END"; "@ATOMBASIS h"; "@END"; "0"] = inl ERuntime.
