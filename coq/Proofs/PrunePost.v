(* C08: what prune_shells / prune_basis establish (statements in Proofs/C08Defs.v):
   every shell well-formed, exponents pairwise different by value, every primitive used, no two equal shells. *)
From BSE Require Import Model.Val Model.Basis Model.Manip Proofs.FSDefs Proofs.PruneFS Proofs.GeneralFS Proofs.C08Defs.

Section PrunePost.
  Variable N : Type.
  Variable is0 : N -> bool.
  Variable same : N -> N -> bool.
  Variable eqN : N -> N -> bool.
  Variables zero_lit one_lit ozero_lit : N.
  Hypothesis Hc : carrier_ok is0 same eqN zero_lit one_lit ozero_lit.

  Notation d := zero_lit.

  (* ---------------- pairwise different representatives ---------------- *)
  Fixpoint pwd (xs : list N) : Prop :=
    match xs with
    | [] => True
    | x :: t => (forall y, In y t -> same x y = false) /\ pwd t
    end.

  Lemma same_false_sym : forall a b, same a b = false -> same b a = false.
  Proof.
    intros a b H. destruct (same b a) eqn:E; [|reflexivity].
    apply (same_sym Hc) in E. congruence.
  Qed.

  Lemma add_group_reps : forall x row (gs : list (group N)) y,
      In y (map fst (add_group same x row gs)) -> In y (map fst gs) \/ y = x.
  Proof.
    intros x row gs; induction gs as [|[e rows] gs IH]; intros y Hy; cbn in Hy.
    - destruct Hy as [Hy|[]]. right; symmetry; exact Hy.
    - destruct (same x e) eqn:Es; cbn in Hy.
      + left. exact Hy.
      + destruct Hy as [Hy|Hy]; [left; left; exact Hy|].
        destruct (IH y Hy) as [H|H]; [left; right; exact H | right; exact H].
  Qed.

  Lemma add_group_pwd : forall x row (gs : list (group N)),
      pwd (map fst gs) -> pwd (map fst (add_group same x row gs)).
  Proof.
    intros x row gs; induction gs as [|[e rows] gs IH]; intros Hp; cbn.
    - split; [intros y []|exact I].
    - cbn in Hp. destruct Hp as [Hp1 Hp2].
      destruct (same x e) eqn:Es; cbn.
      + split; assumption.
      + split; [|apply IH; exact Hp2].
        intros y Hy. apply add_group_reps in Hy. destruct Hy as [Hy|Hy].
        * apply Hp1; exact Hy.
        * subst y. apply same_false_sym; exact Es.
  Qed.

  Lemma fold_groups_pwd : forall (P : list (N * list N)) (acc : list (group N)),
      pwd (map fst acc) ->
      pwd (map fst (fold_left (fun gs p => add_group same (fst p) (snd p) gs) P acc)).
  Proof.
    induction P as [|p P IH]; intros acc Hp; cbn [fold_left]; [exact Hp|].
    apply IH. apply add_group_pwd. exact Hp.
  Qed.

  Lemma build_groups_pwd : forall P : list (N * list N), pwd (map fst (build_groups same P)).
  Proof. intros P. unfold build_groups. apply fold_groups_pwd. exact I. Qed.

  Lemma merge_group_fst : forall (g : group N) p, merge_group is0 g = inr (Some p) -> fst p = fst g.
  Proof.
    intros [e rows] p H. cbn [fst].
    destruct rows as [|r1 [|r2 rows]].
    - cbn in H. unfold bind in H. cbn in H. destruct (all0 is0 []); inversion H; reflexivity.
    - cbn in H. destruct (all0 is0 r1); inversion H; reflexivity.
    - assert (Hr : merge_group is0 (e, r1 :: r2 :: rows) =
                   (do newrow <- mapM (merge_col is0) (transpose (r1 :: r2 :: rows));
                    if all0 is0 newrow then ok None else ok (Some (e, newrow)))) by reflexivity.
      rewrite Hr in H. clear Hr. unfold bind in H.
      destruct (mapM (merge_col is0) (transpose (r1 :: r2 :: rows))) as [er|newrow]; [discriminate|].
      destruct (all0 is0 newrow); inversion H; reflexivity.
  Qed.

  Lemma merge_groups_reps : forall (gs : list (group N)) K,
      merge_groups is0 gs = inr K -> pwd (map fst gs) ->
      pwd (map fst K) /\ forall y, In y (map fst K) -> In y (map fst gs).
  Proof.
    induction gs as [|g gs IH]; intros K H Hp; cbn in H.
    - inversion H; subst. split; [exact I | intros y []].
    - unfold bind in H. destruct (merge_group is0 g) as [e|r] eqn:Eg; [discriminate|].
      destruct (merge_groups is0 gs) as [e|rest] eqn:Er; [discriminate|].
      inversion H; subst K; clear H. cbn in Hp. destruct Hp as [Hp1 Hp2].
      destruct (IH rest eq_refl Hp2) as [IH1 IH2].
      destruct r as [p|].
      + pose proof (merge_group_fst g p Eg) as Hf. cbn. rewrite Hf. split.
        * split; [|exact IH1]. intros y Hy. apply Hp1. apply IH2. exact Hy.
        * intros y [Hy|Hy]; [left; exact Hy | right; apply IH2; exact Hy].
      + split; [exact IH1|]. intros y Hy. cbn. right. apply IH2. exact Hy.
  Qed.

  Lemma pwd_distinct : forall xs, pwd xs ->
      forall i j x y, nth_error xs i = Some x -> nth_error xs j = Some y -> i <> j -> same x y = false.
  Proof.
    induction xs as [|a xs IH]; intros Hp i j x y Hi Hj Hij.
    - destruct i; discriminate.
    - cbn in Hp. destruct Hp as [Hp1 Hp2].
      destruct i as [|i], j as [|j]; cbn in Hi, Hj.
      + congruence.
      + inversion Hi; subst a. apply Hp1. apply nth_error_In in Hj. exact Hj.
      + inversion Hj; subst a. apply same_false_sym. apply Hp1. apply nth_error_In in Hi. exact Hi.
      + apply (IH Hp2 i j x y Hi Hj). congruence.
  Qed.

  Lemma prune_shell_distinct : forall s s' : shell N,
      prune_shell is0 same s = inr s' -> distinct_exps same s'.
  Proof.
    intros s s' H. unfold prune_shell, bind in H.
    destruct (pair_rows (exps s) (transpose (coefs s))) as [e|P]; [discriminate|].
    destruct (merge_groups is0 (build_groups same P)) as [e|K] eqn:Em; [discriminate|].
    inversion H; subst s'; clear H. unfold distinct_exps. cbn [exps].
    apply pwd_distinct.
    apply (merge_groups_reps _ _ Em). apply build_groups_pwd.
  Qed.

  (* ---------------- every kept primitive is used ---------------- *)
  Lemma all0_false_ex : forall row : list N, all0 is0 row = false ->
      exists j, j < length row /\ is0 (nth j row d) = false.
  Proof.
    induction row as [|x row IH]; intros H; cbn in H; [discriminate|].
    destruct (is0 x) eqn:Ex.
    - cbn in H. destruct (IH H) as [j [Hj1 Hj2]]. exists (S j). split; [cbn; lia | exact Hj2].
    - exists 0. split; [cbn; lia | exact Ex].
  Qed.

  Lemma prune_shell_used : forall s s' : shell N,
      rect s -> coefs s <> [] -> prune_shell is0 same s = inr s' -> rows_used is0 s'.
  Proof.
    intros s s' Hrect Hne H. unfold prune_shell, bind in H.
    destruct (pair_rows (exps s) (transpose (coefs s))) as [e|P] eqn:Ep; [discriminate|].
    destruct (merge_groups is0 (build_groups same P)) as [e|K] eqn:Em; [discriminate|].
    inversion H; subst s'; clear H. unfold rows_used. cbn [exps coefs].
    apply pair_rows_spec in Ep. unfold rect in Hrect.
    set (n := length (exps s)) in *. set (k := length (coefs s)) in *.
    destruct (transpose_spec N d n (coefs s) Hne Hrect) as [Tl Tn].
    assert (HPlen : forall p, In p P -> length (snd p) = k).
    { intros [e r] Hp. subst P. apply in_combine_r in Hp. cbn [snd].
      destruct (In_nth _ r [] Hp) as [i [Hi Hnth]]. rewrite <- Hnth.
      rewrite Tn by lia. apply map_length. }
    destruct (kept_char N is0 same eqN zero_lit one_lit ozero_lit Hc k P K HPlen Em) as [_ C2].
    intros i Hi. rewrite map_length in Hi.
    assert (HKne : K <> []) by (intro E; rewrite E in Hi; cbn in Hi; lia).
    set (rows' := map snd K).
    assert (Hr'ne : rows' <> []).
    { unfold rows'. destruct K; [congruence | discriminate]. }
    assert (Hr'F : Forall (fun r => length r = k) rows').
    { apply Forall_forall. intros r Hr. unfold rows' in Hr. apply in_map_iff in Hr.
      destruct Hr as [pr [Hpr1 Hpr2]]. subst r.
      destruct (C2 pr Hpr2) as [tg [_ [_ [Hl _]]]]. exact Hl. }
    destruct (transpose_spec N d k rows' Hr'ne Hr'F) as [T'l T'n].
    destruct (nth_error K i) as [pr|] eqn:Epr; [|apply nth_error_None in Epr; lia].
    pose proof (nth_error_In _ _ Epr) as Hpr.
    destruct (C2 pr Hpr) as [tg [_ [_ [Hl [Ha _]]]]].
    destruct (all0_false_ex (snd pr) Ha) as [j [Hj Hjnz]]. rewrite Hl in Hj.
    exists (nth j (transpose rows') []), (nth j (snd pr) d).
    split; [apply nth_In; rewrite T'l; exact Hj|]. split; [|exact Hjnz].
    rewrite T'n by exact Hj. unfold rows'. rewrite map_map.
    rewrite nth_error_map, Epr. reflexivity.
  Qed.

  Lemma prune_shell_pruned : forall s s' : shell N,
      wf_shell is0 s -> prune_shell is0 same s = inr s' -> pruned_shell is0 same s'.
  Proof.
    intros s s' Hwf H. split; [|split].
    - apply (prune_shell_wf N is0 same eqN zero_lit one_lit ozero_lit Hc s s' Hwf H).
    - apply (prune_shell_distinct s s' H).
    - destruct Hwf as [Hr [[Hne _] _]]. apply (prune_shell_used s s' Hr Hne H).
  Qed.

  (* ---------------- no two equal shells after dedupe_shells ---------------- *)
  Lemma existsb_eqb_false_in : forall (s t : shell N) acc,
      existsb (shell_eqb eqN s) acc = false -> In t acc -> shell_eqb eqN s t = false.
  Proof.
    intros s t acc H Hin. destruct (shell_eqb eqN s t) eqn:E; [|reflexivity].
    assert (Hex : existsb (shell_eqb eqN s) acc = true).
    { apply existsb_exists. exists t. split; assumption. }
    congruence.
  Qed.

  Lemma no_equal_snoc : forall (acc : list (shell N)) s,
      no_equal_shells eqN acc -> existsb (shell_eqb eqN s) acc = false ->
      no_equal_shells eqN (acc ++ [s]).
  Proof.
    intros acc s Hne Hex i j a b Hi Hj Hab.
    destruct (Nat.lt_ge_cases i (length acc)) as [Hil|Hil];
      destruct (Nat.lt_ge_cases j (length acc)) as [Hjl|Hjl].
    - rewrite nth_error_app1 in Hi, Hj by assumption. apply (Hne i j a b Hi Hj Hab).
    - exfalso. rewrite nth_error_app1 in Hi by assumption. rewrite nth_error_app2 in Hj by assumption.
      destruct (j - length acc) as [|m]; cbn in Hj; [|destruct m; discriminate].
      inversion Hj; subst b.
      pose proof (shell_eqb_sound N is0 same eqN zero_lit one_lit ozero_lit Hc a s Hab) as Heq. subst a.
      apply nth_error_In in Hi.
      pose proof (existsb_eqb_false_in s s acc Hex Hi). congruence.
    - exfalso. rewrite nth_error_app1 in Hj by assumption. rewrite nth_error_app2 in Hi by assumption.
      destruct (i - length acc) as [|m]; cbn in Hi; [|destruct m; discriminate].
      inversion Hi; subst a.
      apply nth_error_In in Hj.
      pose proof (existsb_eqb_false_in s b acc Hex Hj). congruence.
    - rewrite nth_error_app2 in Hi, Hj by assumption.
      destruct (i - length acc) as [|m] eqn:Ei; cbn in Hi; [|destruct m; discriminate].
      destruct (j - length acc) as [|m] eqn:Ej; cbn in Hj; [|destruct m; discriminate].
      lia.
  Qed.

  Lemma dedupe_no_equal : forall (shs acc : list (shell N)),
      no_equal_shells eqN acc -> no_equal_shells eqN (dedupe_shells eqN shs acc).
  Proof.
    induction shs as [|s shs IH]; intros acc Hne; cbn [dedupe_shells]; [exact Hne|].
    destruct (existsb (shell_eqb eqN s) acc) eqn:Ex.
    - apply IH; exact Hne.
    - apply IH. apply no_equal_snoc; assumption.
  Qed.

  (* ---------------- prune_shells, prune_basis ---------------- *)
  Lemma prune_post : prune_post_stmt is0 same eqN.
  Proof.
    intros shs out Hwf H. unfold prune_shells, bind in H.
    destruct (mapM (prune_shell is0 same) shs) as [e|ps] eqn:Em; [discriminate|].
    inversion H; subst out; clear H.
    apply PruneFS.mapM_Forall2 in Em. split.
    - apply Forall_forall. intros s' Hs'.
      apply (PruneFS.dedupe_in N is0 same eqN zero_lit one_lit ozero_lit Hc) in Hs'.
      destruct Hs' as [[]|Hs'].
      destruct (PruneFS.Forall2_in_r _ _ _ _ _ s' Em Hs') as [s [Hs Hss]].
      rewrite Forall_forall in Hwf.
      apply (prune_shell_pruned s s'); [|exact Hss].
      apply (Hwf s Hs).
    - apply dedupe_no_equal. intros i j a b Hi. destruct i; discriminate.
  Qed.

  Lemma prune_basis_post : prune_basis_post_stmt is0 same eqN.
  Proof.
    intros b b' Hwf H. unfold prune_basis in H.
    destruct (@lift_M N (wf_shells is0)
                (fun shs => Forall (pruned_shell is0 same) shs /\ no_equal_shells eqN shs)
                (fun _ _ => True) (prune_shells is0 same eqN)) with (b := b) (b' := b') as [_ HP].
    - intros shs out Hs Ho. split; [exact I|].
      apply (prune_post shs out); [|exact Ho]. exact Hs.
    - exact Hwf.
    - exact H.
    - exact HP.
  Qed.
End PrunePost.

Print Assumptions prune_post.
Print Assumptions prune_basis_post.
