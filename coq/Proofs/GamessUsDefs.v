(* Statements about the GAMESS-US writer / reader pair (electron shells): what write_gamess_us prints, read_gamess_us reads
   back.  Definitions only; the proofs are in Proofs/GamessUsSpec.v. *)
From BSE Require Import Model.Val Model.Text Model.Num Model.Basis Model.Manip Model.Matrix Model.Lut Model.Elements
                        Model.Nwchem Model.G94 Model.GamessUs Proofs.MatrixDefs Proofs.NwchemDefs.

(* ---------- well-formed input of the writer (what is left after uncontract_general / uncontract_spdf(1) / sort_basis) ---------- *)
(* `floating s` (Proofs/NwchemDefs.v) : is_floating s = true, the string matches helpers.floating_re entirely.
   lmax is the highest angular momentum allowed: 6 for the round trip (gus_ok), 25 for the writer alone (gus_wf) *)
Definition gus_shell_wf (lmax : Z) (s : sshell) : Prop :=
  (* exactly ONE angular momentum: the format has a letter for the fused sp shell (L), but the reader cannot read such a
     shell back (gus_roundtrip_sp_stmt); and it is at most lmax *)
  (exists l, am s = [l] /\ (0 <= l <= lmax)%Z) /\
  (* exactly one column of coefficients (no general contractions: the writer has called uncontract_general before), with
     one coefficient per primitive; every coefficient matches helpers.floating_re AND is accepted by float() (at least one
     digit in the mantissa, exponent marker e / E: the reader evaluates float(coeff) without replace_d) *)
  (exists c, coefs s = [c] /\ List.length c = List.length (exps s) /\ Forall floating c /\
             Forall (fun x => parse_num x <> None) c) /\
  (* every exponent matches helpers.floating_re (any marker, e E d D: the reader never evaluates an exponent) *)
  Forall floating (exps s).
(* no condition `exps s <> []` (a shell without primitives is written as `S   0` and read back), no condition on the
   function type or the region (gus_expected says what becomes of them) *)

Definition gus_okb (lmax : Z) (els : list (Z * list sshell)) : Prop :=
  (* dictionary keys: pairwise distinct atomic numbers, all of them in the table of lut.py (1 .. 120: Uue and Ubn included) *)
  NoDup (map fst els) /\
  Forall (fun zs => (1 <= fst zs <= 120)%Z /\ Forall (gus_shell_wf lmax) (snd zs)) els.
(* no condition `els <> []` (nothing is written for no element, and the reader accepts an empty file), no condition
   `snd zs <> []` (an element without shells is written as its name alone and comes back without shells) *)

(* THE condition of the round trip: s p d f g h i only.  From l = 7 on the letters of the writer (lut.amint_to_char with
   hij=True: j k l m n o ...) and of the reader (the class [SPDFGHIKLMN] of shell_block_re, then lut.amchar_to_int with
   hij=False: k l m n ...) diverge; gus_letter_table_stmt, gus_roundtrip_letters_stmt, gus_roundtrip_high_stmt *)
Definition gus_ok (els : list (Z * list sshell)) : Prop := gus_okb 6 els.
(* what the writer accepts: every momentum that has a letter in lut._amchar_map_hij (26 letters) *)
Definition gus_wf (els : list (Z * list sshell)) : Prop := gus_okb 25 els.

(* ---------- what comes back ---------- *)
(* the function type the reader assigns: lut.function_type_from_am(am, 'gto', 'spherical') - the format does not say
   whether a shell is spherical or cartesian, the reader always answers spherical *)
Definition gus_ftype (a : list Z) : string :=
  match function_type_from_am a "gto" "spherical" with inr f => f | inl _ => "" end.

(* `if float(coeff) != 0.0:` - the reader keeps a primitive only when its coefficient is not zero (Model.Num.is0_s:
   float(x) == 0.0 on the exact decimal value).  The numbers that are kept come back as the very same strings: the writer
   does not convert the exponent marker, the reader does not call replace_d (no normalisation at all, MatrixDefs.norm is
   not involved) *)
Definition gus_kept (s : sshell) : list (string * string) :=
  filter (fun ec => negb (is0_s (snd ec))) (combine (exps s) (hd [] (coefs s))).

(* a shell as it comes back when the reader takes its momentum to be a *)
Definition gus_back_shell (a : Z) (s : sshell) : sshell :=
  mkShell (gus_ftype [a]) "" [a] (map fst (gus_kept s)) [map snd (gus_kept s)].
Definition gus_expected_shell (s : sshell) : sshell := gus_back_shell (hd 0%Z (am s)) s.

Definition gus_expected (els : list (Z * list sshell)) : list (Z * list sshell) :=
  map (fun zs => (fst zs, map gus_expected_shell (snd zs))) els.

(* ---------- the letters ---------- *)
(* what the reader makes of the letter the writer prints for the momentum l: None when shell_block_re does not match the
   header line, which ENDS the reading of the element without any error *)
Definition gus_letter_back (l : Z) : option Z :=
  match amint_to_char [l] true true with
  | inr ch =>
    match upper ch with
    | String c EmptyString =>
      if sany (Ascii.eqb c) gus_shell_letters then
        match amchar_to_int (String c "") false with inr [a] => Some a | _ => None end
      else None
    | _ => None
    end
  | inl _ => None
  end.

(* l = 0 .. 6 come back, 7 (J) ends the element, 8 .. 11 (K L M N) come back as 7 .. 10, 12 .. 25 end the element *)
Definition gus_letter_table_stmt : Prop :=
  map gus_letter_back (zrange 0 26) =
    [Some 0; Some 1; Some 2; Some 3; Some 4; Some 5; Some 6; None; Some 7; Some 8; Some 9; Some 10; None;
     None; None; None; None; None; None; None; None; None; None; None; None; None]%Z.

(* the exact range: among the momenta the writer can print, the letter comes back as the same momentum exactly for l <= 6 *)
Definition gus_letter_exact_stmt : Prop :=
  forall l, (0 <= l <= 25)%Z -> (gus_letter_back l = Some l <-> (l <= 6)%Z).

(* the shells of one element as they come back for ANY momenta 0 .. 25: up to the first shell whose letter the reader does
   not know, each with the momentum the reader takes the letter for *)
Fixpoint gus_back_shells (shs : list sshell) : list sshell :=
  match shs with
  | [] => []
  | s :: t =>
    match gus_letter_back (hd 0%Z (am s)) with
    | Some a => gus_back_shell a s :: gus_back_shells t
    | None => []
    end
  end.
Definition gus_back (els : list (Z * list sshell)) : list (Z * list sshell) :=
  map (fun zs => (fst zs, gus_back_shells (snd zs))) els.

(* ---------- statements ---------- *)
(* the writer does not fail on well-formed input (all 26 momenta that have a letter) *)
Definition gus_write_total_stmt : Prop :=
  forall els, gus_wf els -> exists t, gus_write_electron els = inr t.
Definition gus_ok_wf_stmt : Prop := forall els, gus_ok els -> gus_wf els.

(* reading back what was written gives exactly the same elements, in order, with the same shells, in order, with the same
   momenta and - string for string - the same numbers, except that primitives with a zero coefficient are gone, the
   region is empty and the function type is the reader's *)
Definition gus_roundtrip_stmt : Prop :=
  forall els, gus_ok els -> gus_roundtrip els = inr (gus_expected els).
(* in particular on the writer's real input, where uncontract_general has removed the zero coefficients: nothing but the
   region and the function type changes *)
Definition gus_expected_nonzero_stmt : Prop :=
  forall s c, coefs s = [c] -> List.length c = List.length (exps s) -> Forall (fun x => is0_s x = false) c ->
    gus_expected_shell s = mkShell (gus_ftype [hd 0%Z (am s)]) "" [hd 0%Z (am s)] (exps s) [c].

(* the general form, which explains what is known from testing: for momenta up to 25 the round trip never fails, it
   returns gus_back - shells dropped from the first j (or o, q, ...) shell of an element on, k l m n shells relabelled *)
Definition gus_roundtrip_letters_stmt : Prop :=
  forall els, gus_wf els -> gus_roundtrip els = inr (gus_back els).
(* and gus_back is gus_expected exactly when ... (one direction; the other one is gus_roundtrip_high_stmt) *)
Definition gus_back_expected_stmt : Prop := forall els, gus_ok els -> gus_back els = gus_expected els.

(* C04 direction: every exponent and every coefficient of the input - unchanged, the writer converts no exponent marker
   and leaves out nothing, zero coefficients are written too - is a white-space delimited token of some line of the written
   text.  nw_number_of (Proofs/NwchemDefs.v): x is an exponent or a coefficient of some shell of some element of els *)
Definition gus_no_number_lost_stmt : Prop :=
  forall els t, gus_wf els -> gus_write_electron els = inr t ->
    forall x, nw_number_of els x -> exists line, In line (splitlines t) /\ In x (tokens_acc line "").

(* ---------- which conditions of gus_ok cannot be dropped ---------- *)
Definition gus_sh (l : Z) : sshell := mkShell "gto_spherical" "" [l] ["1.5"; "0.25"] [["0.5"; "1.0E+00"]].
Definition gus_s : sshell := mkShell "gto" "" [0%Z] ["1.5"; "0.25"] [["0.5"; "1.0E+00"]].

(* FINDING (valid data: cc-pV9Z has l = 7 .. 9 in the store, generated basis sets go further).  `l <= 6`:
   - an element with s, i, j, k shells comes back with its s and i shells only: the j header ends the reading, silently;
   - a k shell alone (l = 8) comes back as l = 7, l (9) as 8, m (10) as 9, n (11) as 10;
   - an o shell (l = 12) is dropped.  In no case is there an error. *)
Definition gus_roundtrip_high_stmt : Prop :=
  gus_write_electron [(1%Z, [gus_s; gus_sh 6; gus_sh 7; gus_sh 8])] =
    inr (String.concat nl1 ["$DATA"; ""; "HYDROGEN";
                            "S   2"; "1         1.5                    0.5"; "2         0.25                   1.0E+00";
                            "I   2"; "1         1.5                    0.5"; "2         0.25                   1.0E+00";
                            "J   2"; "1         1.5                    0.5"; "2         0.25                   1.0E+00";
                            "K   2"; "1         1.5                    0.5"; "2         0.25                   1.0E+00";
                            ""; "$END"]) /\
  gus_wf [(1%Z, [gus_s; gus_sh 6; gus_sh 7; gus_sh 8])] /\
  gus_roundtrip [(1%Z, [gus_s; gus_sh 6; gus_sh 7; gus_sh 8])] = inr [(1%Z, [gus_s; gus_sh 6])] /\
  gus_roundtrip [(1%Z, [gus_sh 7])] = inr [(1%Z, [])] /\
  gus_roundtrip [(1%Z, [gus_sh 8])] = inr [(1%Z, [gus_sh 7])] /\
  gus_roundtrip [(1%Z, [gus_sh 9])] = inr [(1%Z, [gus_sh 8])] /\
  gus_roundtrip [(1%Z, [gus_sh 10])] = inr [(1%Z, [gus_sh 9])] /\
  gus_roundtrip [(1%Z, [gus_sh 11])] = inr [(1%Z, [gus_sh 10])] /\
  gus_roundtrip [(1%Z, [gus_sh 12])] = inr [(1%Z, [])] /\
  (* the bound of the writer: l = 25 is the last momentum with a letter *)
  gus_roundtrip [(1%Z, [gus_sh 25])] = inr [(1%Z, [])] /\
  gus_write_electron [(1%Z, [gus_sh 26])] = inl EIndex /\
  gus_write_electron [(1%Z, [gus_sh (-1)])] = inl EIndex.

(* FINDING (valid data: 6-31G, every Pople basis).  `am s = [l]`: the fused sp shell, which the writer keeps fused and
   labels L (use_L=True), is printed with two coefficient columns; the reader's contraction_re knows one column only and
   refuses the file.  (With one column the letter L would be read as l = 8.) *)
Definition gus_sp : sshell :=
  mkShell "gto" "valence" [0%Z; 1%Z] ["0.7868272350E+01"; "0.1881288540E+01"; "0.5442492580E+00"]
          [["-0.1193324198E+00"; "-0.1608541517E+00"; "0.1143456438E+01"];
           ["0.6899906659E-01"; "0.3164239610E+00"; "0.7443082909E+00"]].
Definition gus_roundtrip_sp_stmt : Prop :=
  gus_write_electron [(6%Z, [gus_sp])] =
    inr (String.concat nl1 ["$DATA"; ""; "CARBON"; "L   3";
                            "1         0.7868272350E+01      -0.1193324198E+00       0.6899906659E-01";
                            "2         0.1881288540E+01      -0.1608541517E+00       0.3164239610E+00";
                            "3         0.5442492580E+00       0.1143456438E+01       0.7443082909E+00";
                            ""; "$END"]) /\
  gus_roundtrip [(6%Z, [gus_sp])] = inl ERuntime /\
  (* a fused spd shell (not produced by uncontract_spdf(1)): header `SPD   n`, which is no shell header for the reader -
     the element comes back without shells, no error *)
  gus_roundtrip [(1%Z, [mkShell "gto" "" [0; 1; 2]%Z ["1.0"] [["1.0"]; ["1.0"]; ["1.0"]]])] = inr [(1%Z, [])] /\
  gus_write_electron [(1%Z, [mkShell "gto" "" [] ["1.0"] [["1.0"]]])] =
    inr (String.concat nl1 ["$DATA"; ""; "HYDROGEN"; "   1"; "1         1.0                    1.0"; ""; "$END"]) /\
  gus_roundtrip [(1%Z, [mkShell "gto" "" [] ["1.0"] [["1.0"]]])] = inr [(1%Z, [])].

(* `coefs s = [c]`: a d shell with two general contractions is printed by the modelled part of the writer (this is why
   write_gamess_us calls uncontract_general first), the reader refuses the three-number lines; no column: refused as well *)
Definition gus_roundtrip_general_stmt : Prop :=
  gus_roundtrip [(1%Z, [mkShell "gto_spherical" "" [2%Z] ["1.0"; "2.0"] [["1.0"; "0.0"]; ["0.0"; "1.0"]]])] = inl ERuntime /\
  gus_roundtrip [(1%Z, [mkShell "gto" "" [0%Z] ["1.0"] []])] = inl ERuntime.

(* `length c = length (exps s)`: zip() in write_matrix cuts to the shorter column, nprim is len(exponents) *)
Definition gus_roundtrip_ragged_stmt : Prop :=
  gus_roundtrip [(1%Z, [mkShell "gto" "" [0%Z] ["1.0"; "2.0"] [["1.0"]]])] = inl EIndex /\
  gus_roundtrip [(1%Z, [mkShell "gto" "" [0%Z] ["1.0"; "2.0"] [["1.0"]]; gus_s])] = inl ERuntime /\
  gus_roundtrip [(1%Z, [mkShell "gto" "" [0%Z] ["1.0"] [["1.0"; "2.0"]]])] = inr [(1%Z, [mkShell "gto" "" [0%Z] ["1.0"] [["1.0"]]])].

(* `Forall floating`: a number without a decimal point stops the writer (ValueError in _find_point); a number with a
   point that is not a floating point literal is printed and refused by the reader *)
Definition gus_floating_stmt : Prop :=
  gus_write_electron [(1%Z, [mkShell "gto" "" [0%Z] ["10"] [["1.0"]]])] = inl EValue /\
  gus_roundtrip [(1%Z, [mkShell "gto" "" [0%Z] ["1.0x"] [["1.0"]]])] = inl ERuntime /\
  gus_roundtrip [(1%Z, [mkShell "gto" "" [0%Z] ["1.0"] [["1.0x"]]])] = inl ERuntime.

(* `parse_num x <> None` for the coefficients: a coefficient with the Fortran marker, or `.`, matches floating_re, is
   written, matches contraction_re - and float() raises ValueError (the other readers call replace_d first).  The same
   marker in an EXPONENT is harmless and comes back as it is (no normalisation to E) *)
Definition gus_float_stmt : Prop :=
  gus_roundtrip [(1%Z, [mkShell "gto" "" [0%Z] ["1.0"] [["1.0D+00"]]])] = inl EValue /\
  gus_roundtrip [(1%Z, [mkShell "gto" "" [0%Z] ["1.0"] [["1.0d0"]]])] = inl EValue /\
  gus_roundtrip [(1%Z, [mkShell "gto" "" [0%Z] ["1.0"] [["."]]])] = inl EValue /\
  gus_roundtrip [(1%Z, [mkShell "gto" "" [0%Z] ["1.0D+00"; ".5d0"] [["1."; "-.5e-1"]]])] =
    inr [(1%Z, [mkShell "gto" "" [0%Z] ["1.0D+00"; ".5d0"] [["1."; "-.5e-1"]]])].

(* not a condition of gus_ok, gus_expected says so: a primitive with a zero coefficient is written and not read back (all
   of them: the shell comes back without primitives) *)
Definition gus_zero_coefficient_stmt : Prop :=
  gus_ok [(1%Z, [mkShell "gto" "" [0%Z] ["1.0"; "2.0"; "3.0"] [["0.5"; "0.0"; "-0.000E+03"]]])] /\
  gus_roundtrip [(1%Z, [mkShell "gto" "" [0%Z] ["1.0"; "2.0"; "3.0"] [["0.5"; "0.0"; "-0.000E+03"]]])] =
    inr [(1%Z, [mkShell "gto" "" [0%Z] ["1.0"] [["0.5"]]])] /\
  gus_roundtrip [(1%Z, [mkShell "gto" "" [0%Z] ["1.0"] [["0.0"]]])] = inr [(1%Z, [mkShell "gto" "" [0%Z] [] [[]]])].

(* `NoDup (map fst els)` (cannot happen for a Python dictionary): the second block of an element is refused by
   create_element_data.  `1 <= z <= 120`: no name - KeyError in the writer *)
Definition gus_elements_stmt : Prop :=
  gus_roundtrip [(1%Z, [gus_s]); (1%Z, [gus_s])] = inl ERuntime /\
  gus_write_electron [(0%Z, [gus_s])] = inl EKey /\
  gus_write_electron [(121%Z, [gus_s])] = inl EKey /\
  gus_roundtrip [(120%Z, [gus_s])] = inr [(120%Z, [gus_s])].

(* conditions that are NOT needed: no element at all, an element without shells, a shell without primitives *)
Definition gus_roundtrip_empty_stmt : Prop :=
  gus_write_electron [] = inr "" /\ gus_roundtrip [] = inr [] /\
  gus_roundtrip [(1%Z, [gus_s]); (2%Z, [])] = inr [(1%Z, [gus_s]); (2%Z, [])] /\
  gus_roundtrip [(1%Z, [mkShell "gto" "" [0%Z] [] [[]]])] = inr [(1%Z, [mkShell "gto" "" [0%Z] [] [[]]])].

(* the function type and the region do NOT survive: a cartesian d shell comes back as spherical *)
Definition gus_cartesian_stmt : Prop :=
  gus_roundtrip [(1%Z, [mkShell "gto_cartesian" "valence" [2%Z] ["1.0"] [["1.0"]]])] =
    inr [(1%Z, [mkShell "gto_spherical" "" [2%Z] ["1.0"] [["1.0"]]])].

(* the reader on hand-written files: what follows the first line of an element block that is not a shell header (here a
   lower-case letter, then a misspelt one) is ignored without any error; comment lines, blank lines and $ lines are
   skipped; lines in front of the first element name, a bad primitive index, a missing line are errors *)
Definition gus_reader_stmt : Prop :=
  gus_read_electron ["HYDROGEN"; "s   1"; "1   1.0   1.0"] = inr [(1%Z, [])] /\
  gus_read_electron ["HYDROGEN"; "S   1"; "1   1.0   1.0"; "garbage 12"; "P 1"; "1 1.0 1.0"] =
    inr [(1%Z, [mkShell "gto" "" [0%Z] ["1.0"] [["1.0"]]])] /\
  gus_read_electron ["  hydrogen  "; "! c"; "# c"; "S   1  "; "  1   1.0   1.0"; "Helium"; "L 1"; "1 .5e1 -1."] =
    inr [(1%Z, [mkShell "gto" "" [0%Z] ["1.0"] [["1.0"]]]); (2%Z, [mkShell "gto_spherical" "" [8%Z] [".5e1"] [["-1."]]])] /\
  gus_read_electron ["S   1"; "1   1.0   1.0"; "HYDROGEN"] = inl ERuntime /\
  gus_read_electron ["HYDROGEN"; "S   2"; "1   1.0   1.0"; "3  2.0  1.0"] = inl EAssert /\
  gus_read_electron ["HYDROGEN"; "S   2"; "1   1.0   1.0"] = inl EIndex /\
  gus_read_electron ["HYDROGENIUM"; "S 1"; "1 1.0 1.0"] = inl EKey /\
  gus_read_electron ["HYDROGEN"; "S 1"; "1 1.0 1.0"; "NA-ECP GEN    10    2"] = inl ENotImpl.

(* ---------- a concrete instance from the store: cc-pVDZ for H and C as write_gamess_us sees it (after
   uncontract_general the two s contractions of carbon are two shells); gus_ex_text is, byte for byte,
   basis_set_exchange.get_basis('cc-pvdz', elements=[1, 6], fmt='gamess_us', header=False) ---------- *)
Definition gus_ex_els : list (Z * list sshell) :=
  [(1%Z, [mkShell "gto" "valence" [0%Z] ["1.301000E+01"; "1.962000E+00"; "4.446000E-01"; "1.220000E-01"]
                  [["1.968500E-02"; "1.379770E-01"; "4.781480E-01"; "5.012400E-01"]];
          mkShell "gto" "valence" [0%Z] ["1.220000E-01"] [["1.000000E+00"]];
          mkShell "gto" "polarization" [1%Z] ["7.270000E-01"] [["1.0000000"]]]);
   (6%Z, [mkShell "gto" "valence" [0%Z]
                  ["6.665000E+03"; "1.000000E+03"; "2.280000E+02"; "6.471000E+01"; "2.106000E+01"; "7.495000E+00"; "2.797000E+00";
                   "5.215000E-01"; "1.596000E-01"]
                  [["6.920000E-04"; "5.329000E-03"; "2.707700E-02"; "1.017180E-01"; "2.747400E-01"; "4.485640E-01"; "2.850740E-01";
                    "1.520400E-02"; "-3.191000E-03"]];
          mkShell "gto" "valence" [0%Z]
                  ["6.665000E+03"; "1.000000E+03"; "2.280000E+02"; "6.471000E+01"; "2.106000E+01"; "7.495000E+00"; "2.797000E+00";
                   "5.215000E-01"; "1.596000E-01"]
                  [["-1.460000E-04"; "-1.154000E-03"; "-5.725000E-03"; "-2.331200E-02"; "-6.395500E-02"; "-1.499810E-01";
                    "-1.272620E-01"; "5.445290E-01"; "5.804960E-01"]];
          mkShell "gto" "valence" [0%Z] ["1.596000E-01"] [["1.000000E+00"]];
          mkShell "gto" "valence" [1%Z] ["9.439000E+00"; "2.002000E+00"; "5.456000E-01"; "1.517000E-01"]
                  [["3.810900E-02"; "2.094800E-01"; "5.085570E-01"; "4.688420E-01"]];
          mkShell "gto" "valence" [1%Z] ["1.517000E-01"] [["1.000000E+00"]];
          mkShell "gto_spherical" "polarization" [2%Z] ["5.500000E-01"] [["1.0000000"]]])].

Definition gus_ex_text : string :=
  String.concat nl1
   ["$DATA"; "";
    "HYDROGEN";
    "S   4";
    "1         1.301000E+01           1.968500E-02";
    "2         1.962000E+00           1.379770E-01";
    "3         4.446000E-01           4.781480E-01";
    "4         1.220000E-01           5.012400E-01";
    "S   1";
    "1         1.220000E-01           1.000000E+00";
    "P   1";
    "1         7.270000E-01           1.0000000";
    "";
    "CARBON";
    "S   9";
    "1         6.665000E+03           6.920000E-04";
    "2         1.000000E+03           5.329000E-03";
    "3         2.280000E+02           2.707700E-02";
    "4         6.471000E+01           1.017180E-01";
    "5         2.106000E+01           2.747400E-01";
    "6         7.495000E+00           4.485640E-01";
    "7         2.797000E+00           2.850740E-01";
    "8         5.215000E-01           1.520400E-02";
    "9         1.596000E-01          -3.191000E-03";
    "S   9";
    "1         6.665000E+03          -1.460000E-04";
    "2         1.000000E+03          -1.154000E-03";
    "3         2.280000E+02          -5.725000E-03";
    "4         6.471000E+01          -2.331200E-02";
    "5         2.106000E+01          -6.395500E-02";
    "6         7.495000E+00          -1.499810E-01";
    "7         2.797000E+00          -1.272620E-01";
    "8         5.215000E-01           5.445290E-01";
    "9         1.596000E-01           5.804960E-01";
    "S   1";
    "1         1.596000E-01           1.000000E+00";
    "P   4";
    "1         9.439000E+00           3.810900E-02";
    "2         2.002000E+00           2.094800E-01";
    "3         5.456000E-01           5.085570E-01";
    "4         1.517000E-01           4.688420E-01";
    "P   1";
    "1         1.517000E-01           1.000000E+00";
    "D   1";
    "1         5.500000E-01           1.0000000";
    "";
    "$END"].

Definition gus_example_stmt : Prop :=
  gus_ok gus_ex_els /\
  gus_write_electron gus_ex_els = inr gus_ex_text /\
  gus_roundtrip gus_ex_els = inr (gus_expected gus_ex_els) /\
  (* the only changes: the region, and the function type were it cartesian *)
  gus_expected gus_ex_els =
    map (fun zs => (fst zs, map (fun s => mkShell (ftype s) "" (am s) (exps s) (coefs s)) (snd zs))) gus_ex_els.
