(* Proofs of the statements of Proofs/NwchemEcpDefs.v: the ECP section written by write_nwchem is read back by read_nwchem
   exactly (up to the exponent marker and the ecp_type), alone and after an electron section. *)
From BSE Require Import Model.Val Model.Text Model.Basis Model.Manip Model.Matrix Gen.GenLut Model.Lut Model.Elements
                        Model.Nwchem Model.NwchemEcp Proofs.MatrixDefs Proofs.NwchemDefs Proofs.NwchemEcpDefs Proofs.C20Finite.
From BSE Require Proofs.ElementsSpec.
From BSE Require Import Proofs.HeaderSpec Proofs.PruneFS Proofs.MatrixSpec Proofs.NwchemSpec.
Require Import Coq.Sorting.Permutation Coq.Sorting.Sorted Coq.NArith.NArith Coq.NArith.Nnat Coq.ZArith.ZArith Coq.micromega.Lia.

(* ================================================================== *)
(* 1. str(int) and int(str)                                            *)
(* ================================================================== *)
Definition dval (c : ascii) : Z := Z.of_nat (nat_of_ascii c - 48).

Lemma dval_digit : forall k, k < 10 -> dval (digit_char k) = Z.of_nat k.
Proof. intros k H. do 10 (destruct k as [|k]; [reflexivity|]). lia. Qed.

Lemma digits_val_app : forall s t a, digits_val (s +++ t) a = digits_val t (digits_val s a).
Proof. induction s as [|c s IH]; intros t a; [reflexivity|]. cbn [String.append digits_val]. apply IH. Qed.

(* enough fuel: the digits of n, most significant first, are put in front of acc *)
Lemma pdf_val : forall f n acc, (n < 10 ^ N.of_nat f)%N ->
  exists k, forall a, digits_val (pos_digits_fuel f n acc) a = digits_val acc (a * 10 ^ Z.of_nat k + Z.of_N n)%Z.
Proof.
  induction f as [|f IH]; intros n acc Hn.
  - exists 0. intros a. cbn [pos_digits_fuel]. change (10 ^ N.of_nat 0)%N with 1%N in Hn.
    assert (n = 0%N) by lia. subst n. f_equal. cbn. lia.
  - cbn [pos_digits_fuel].
    assert (Hr : (n mod 10 < 10)%N) by (apply N.mod_lt; discriminate).
    assert (Hd : dval (digit_char (N.to_nat (n mod 10))) = Z.of_N (n mod 10)).
    { rewrite dval_digit by lia. lia. }
    pose proof (N.div_mod n 10 ltac:(discriminate)) as Hdm.
    destruct (N.eqb_spec (n / 10) 0) as [Hq|Hq].
    + exists 1. intros a. cbn [digits_val]. fold (dval (digit_char (N.to_nat (n mod 10)))). rewrite Hd. f_equal.
      rewrite Hq in Hdm. change (Z.of_nat 1) with 1%Z. lia.
    + assert (Hlt : (n / 10 < 10 ^ N.of_nat f)%N).
      { apply N.div_lt_upper_bound; [discriminate|]. rewrite Nat2N.inj_succ, N.pow_succ_r' in Hn. exact Hn. }
      destruct (IH (n / 10)%N (String (digit_char (N.to_nat (n mod 10))) acc) Hlt) as [k Hk].
      exists (S k). intros a. rewrite Hk. cbn [digits_val]. fold (dval (digit_char (N.to_nat (n mod 10)))). rewrite Hd.
      f_equal. rewrite Nat2Z.inj_succ, Z.pow_succ_r by lia.
      assert (E : Z.of_N n = (10 * Z.of_N (n / 10) + Z.of_N (n mod 10))%Z) by lia. rewrite E. ring.
Qed.

Lemma fuel_enough : forall n, (n < 10 ^ N.of_nat (S (N.to_nat (N.log2 n))))%N.
Proof.
  intros n. rewrite Nat2N.inj_succ, N2Nat.id.
  destruct n as [|p]; [reflexivity|].
  destruct (N.log2_spec (Npos p) ltac:(reflexivity)) as [_ H].
  eapply N.lt_le_trans; [exact H|]. apply N.pow_le_mono_l. lia.
Qed.

Lemma N_to_string_val : forall n, digits_val (N_to_string n) 0 = Z.of_N n.
Proof.
  intros n. unfold N_to_string. destruct (pdf_val _ n "" (fuel_enough n)) as [k Hk]. rewrite Hk. cbn [digits_val]. lia.
Qed.

Lemma N_to_string_digits : forall n, sall is_digit (N_to_string n) = true.
Proof. intros n. unfold N_to_string. apply pdf_chars; [exact digit_char_fchar | reflexivity]. Qed.

(* a non-empty string of digits *)
Definition decimal (s : string) : Prop := s <> "" /\ sall is_digit s = true.
Lemma N_to_string_decimal : forall n, decimal (N_to_string n).
Proof. intros n. split; [apply N_to_string_ne | apply N_to_string_digits]. Qed.

Lemma skip_digits_all : forall s, sall is_digit s = true -> skip_digits s = "".
Proof.
  induction s as [|c s IH]; intros H; [reflexivity|]. cbn [sall] in H. apply andb_true_iff in H. destruct H as [Hc Hs].
  cbn [skip_digits]. rewrite Hc. apply IH, Hs.
Qed.

Lemma digit_not_sign : forall c, is_digit c = true -> orb (Ascii.eqb c "-") (Ascii.eqb c "+") = false.
Proof. intros c H. all_chars c; try reflexivity; discriminate H. Qed.

Lemma decimal_is_integer : forall s, decimal s -> is_integer s = true /\ skip_sign s = s /\ isdecimal s = true.
Proof.
  intros [|c s] [Hne Hd]; [congruence|]. pose proof Hd as Hd0. cbn [sall] in Hd. apply andb_true_iff in Hd. destruct Hd as [Hc Hs].
  assert (E : skip_sign (String c s) = String c s) by (cbn [skip_sign]; now rewrite (digit_not_sign c Hc)).
  split; [|split; [exact E | exact Hd0]].
  unfold is_integer. rewrite E, Hc, (skip_digits_all s Hs). reflexivity.
Qed.

(* the int() of parse_ecp_table *)
Definition to_int (s : string) : Z :=
  match skip_sign s, s with
  | d, String "-" _ => (- digits_val d 0)%Z
  | d, _ => digits_val d 0
  end.

Lemma digit_not_minus : forall c, is_digit c = true -> Ascii.eqb c "-" = false.
Proof. intros c H. all_chars c; try reflexivity; discriminate H. Qed.

Lemma Z_to_string_int : forall z, is_integer (Z_to_string z) = true /\ to_int (Z_to_string z) = z.
Proof.
  intros [|p|p].
  - split; reflexivity.
  - cbn [Z_to_string]. pose proof (N_to_string_decimal (Npos p)) as Hd. destruct (decimal_is_integer _ Hd) as [H1 [H2 _]].
    split; [exact H1|]. unfold to_int. rewrite H2.
    destruct (N_to_string (N.pos p)) as [|c s] eqn:E; [destruct Hd; congruence|].
    destruct Hd as [_ Hd]. cbn [sall] in Hd. apply andb_true_iff in Hd. destruct Hd as [Hc _].
    assert (Hm : c <> "-"%char) by (intros ->; discriminate Hc).
    rewrite <- E, N_to_string_val.
    destruct c as [[] [] [] [] [] [] [] []]; try reflexivity; exfalso; apply Hm; reflexivity.
  - cbn [Z_to_string]. pose proof (N_to_string_decimal (Npos p)) as Hd. destruct (decimal_is_integer _ Hd) as [H1 _].
    split.
    + unfold is_integer in *. cbn [skip_sign]. change (Ascii.eqb "-" "-") with true. cbn [orb].
      destruct Hd as [Hne Hd]. destruct (N_to_string (N.pos p)) as [|c s]; [congruence|].
      cbn [sall] in Hd. apply andb_true_iff in Hd. destruct Hd as [Hc Hs]. now rewrite Hc, (skip_digits_all s Hs).
    + unfold to_int. cbn [skip_sign]. change (Ascii.eqb "-" "-") with true. cbn [orb]. rewrite N_to_string_val. reflexivity.
Qed.

(* the characters of str(int): digits and the minus sign; no white space, no exponent letter *)
Definition intc (c : ascii) : bool := orb (is_digit c) (Ascii.eqb c "-").
Lemma Z_to_string_intc : forall z, sall intc (Z_to_string z) = true.
Proof.
  assert (H : forall n, sall intc (N_to_string n) = true).
  { intros n. apply (sall_impl is_digit); [|apply N_to_string_digits]. intros c Hc. unfold intc. now rewrite Hc. }
  intros [|p|p]; [reflexivity | apply H | cbn [Z_to_string sall]; now rewrite H].
Qed.
Lemma intc_repl : forall c, intc c = true -> repl_c c = c.
Proof. intros c H. all_chars c; try reflexivity; discriminate H. Qed.
Lemma intc_nobd : forall c, intc c = true -> nobd c = true.
Proof. intros c H. all_chars c; try reflexivity; discriminate H. Qed.
Lemma intc_lower : forall c, intc c = true -> lower_char c = c.
Proof. intros c H. all_chars c; try reflexivity; discriminate H. Qed.
Lemma intc_not_space : forall c, intc c = true -> is_space c = false.
Proof. intros c H. all_chars c; try reflexivity; discriminate H. Qed.

Lemma smap_id_on : forall (p : ascii -> bool) f s, (forall c, p c = true -> f c = c) -> sall p s = true -> smap f s = s.
Proof.
  intros p f; induction s as [|c s IH]; intros Hf H; [reflexivity|]. cbn [sall] in H. apply andb_true_iff in H.
  destruct H as [Hc Hs]. cbn [smap]. now rewrite (Hf c Hc), (IH Hf Hs).
Qed.

Lemma norm_int : forall z, norm false (Z_to_string z) = Z_to_string z.
Proof. intros z. rewrite norm_smap. apply (smap_id_on intc); [exact intc_repl | apply Z_to_string_intc]. Qed.

(* ================================================================== *)
(* 2. the table of one potential                                       *)
(* ================================================================== *)
Fixpoint trip (r : list Z) (g c : list string) : list (Z * string * string) :=
  match r, g, c with
  | x :: r', y :: g', z :: c' => (x, y, z) :: trip r' g' c'
  | _, _, _ => []
  end.
Definition cellrow (t : Z * string * string) : list cell := let '(x, y, z) := t in [CInt x; CStr y; CStr z].
Definition tokrow (t : Z * string * string) : list string := let '(x, y, z) := t in [Z_to_string x; y; z].
Definition readrow (t : Z * string * string) : string * string * string :=
  let '(x, y, z) := t in (Z_to_string x, norm false y, norm false z).

Lemma transpose_trip : forall r g c,
  transpose [map CInt r; map CStr g; map CStr c] = map cellrow (trip r g c).
Proof.
  induction r as [|x r IH]; intros g c; [reflexivity|].
  destruct g as [|y g]; [destruct c; reflexivity|]. destruct c as [|z c]; [reflexivity|].
  specialize (IH g c). cbn [transpose map zipcons trip cellrow] in *. rewrite IH. reflexivity.
Qed.

Lemma trip_in : forall r g c x y z, In (x, y, z) (trip r g c) -> In x r /\ In y g /\ In z c.
Proof.
  induction r as [|x0 r IH]; intros g c x y z H; [destruct H|].
  destruct g as [|y0 g]; [destruct H|]. destruct c as [|z0 c]; [destruct H|].
  cbn [trip In] in H. destruct H as [H|H].
  - inversion H; subst. repeat split; now left.
  - destruct (IH _ _ _ _ _ H) as [A [B C]]. repeat split; now right.
Qed.

Lemma trip_proj : forall r g c, List.length g = List.length r -> List.length c = List.length r ->
  map (fun t => fst (fst t)) (trip r g c) = r /\ map (fun t => snd (fst t)) (trip r g c) = g /\ map snd (trip r g c) = c.
Proof.
  induction r as [|x r IH]; intros g c Hg Hc.
  - destruct g; [|discriminate]. destruct c; [|discriminate]. repeat split; reflexivity.
  - destruct g as [|y g]; [discriminate|]. destruct c as [|z c]; [discriminate|].
    cbn [List.length] in *. destruct (IH g c ltac:(lia) ltac:(lia)) as [A [B C]].
    cbn [trip map fst snd]. rewrite A, B, C. repeat split; reflexivity.
Qed.

Lemma trip_length : forall r g c, List.length g = List.length r -> List.length c = List.length r ->
  List.length (trip r g c) = List.length r.
Proof. intros r g c Hg Hc. destruct (trip_proj r g c Hg Hc) as [A _]. rewrite <- A at 2. now rewrite map_length. Qed.

Definition erow (row : list cell) : string :=
  match write_row row ecp_point_places true "" with inr l => l | inl _ => "" end.
Definition trip_ok (t : Z * string * string) : Prop := is_floating (snd (fst t)) = true /\ is_floating (snd t) = true.

Lemma intc_ascii : forall c, intc c = true -> Nat.ltb (nat_of_ascii c) 128 = true.
Proof. intros c H. all_chars c; try reflexivity; discriminate H. Qed.

Lemma cellrow_ok : forall t, trip_ok t -> Forall cell_ok (cellrow t) /\ Forall cell_ascii (cellrow t).
Proof.
  intros [[x y] z] [Hy Hz]. cbn [fst snd] in *. unfold cellrow. split.
  - constructor; [exact I|]. constructor; [apply floating_is_cell, Hy|]. constructor; [apply floating_is_cell, Hz | constructor].
  - constructor; [|constructor; [apply floating_ascii, Hy | constructor; [apply floating_ascii, Hz | constructor]]].
    unfold cell_ascii. cbn [cell_str]. apply (sall_impl intc); [exact intc_ascii | apply Z_to_string_intc].
Qed.

Lemma erow_facts : forall t, trip_ok t ->
  write_row (cellrow t) ecp_point_places true "" = inr (erow (cellrow t)) /\
  good_line (erow (cellrow t)) /\ tokens_acc (erow (cellrow t)) "" = tokrow t.
Proof.
  intros t Ht. destruct (cellrow_ok t Ht) as [Hok Hasc].
  destruct (write_row_total (cellrow t) ecp_point_places true "" Hok) as [line Hl].
  { destruct t as [[x y] z]. cbn. lia. }
  unfold erow. rewrite Hl. split; [reflexivity|]. split.
  - apply (write_row_chars nobd eq_refl (cellrow t) ecp_point_places true "" line); [|reflexivity|exact Hl].
    rewrite Forall_forall in *. intros c Hc. apply cell_nobd; [apply Hok | apply Hasc]; exact Hc.
  - rewrite (write_row_tokens_gen _ _ _ _ _ Hok (fun _ => eq_refl) Hl). destruct t as [[x y] z]. reflexivity.
Qed.

(* the first character of a printed integer *)
Lemma int_first : forall x, exists c t, Z_to_string x = String c t /\ intc c = true.
Proof.
  intros x. pose proof (Z_to_string_intc x) as H. pose proof (Z_to_string_ne x) as Hne.
  destruct (Z_to_string x) as [|c t]; [congruence|]. cbn [sall] in H. apply andb_true_iff in H. destruct H as [Hc _].
  exists c, t. split; [reflexivity | exact Hc].
Qed.
Lemma intc_data : forall c, intc c = true -> is_alpha c = false /\ Ascii.eqb c "#" = false.
Proof. intros c H. all_chars c; try (split; reflexivity); discriminate H. Qed.

Lemma erow_data : forall t, trip_ok t -> data_line (strip_ws (erow (cellrow t))).
Proof.
  intros t Ht. destruct (erow_facts t Ht) as [_ [_ Htok]]. destruct t as [[x y] z]. cbn [tokrow] in Htok.
  destruct (tokens_first _ _ _ Htok) as [c [t' [y' [E [El Hc]]]]].
  destruct (strip_first _ c y' El Hc) as [r Er]. destruct (int_first x) as [c0 [t0 [E0 Hc0]]].
  rewrite E0 in E. inversion E; subst c0 t0. destruct (intc_data c Hc0) as [H1 H2].
  exists c, r. repeat split; assumption.
Qed.

(* the per-line function of parse_ecp_table *)
Definition eline (l : string) : res (string * string * string) :=
  match split_ws (replace_d (strip_ws l)) with
  | [a; b; c] => ok (a, b, c)
  | _ => fail ERuntime
  end.

Lemma parse_ecp_table_unfold : forall lines,
  parse_ecp_table lines =
  (do rows <- mapM eline lines;
   let r := map (fun x => fst (fst x)) rows in
   let g := map (fun x => snd (fst x)) rows in
   let c := map snd rows in
   if negb (forallb is_integer r) then fail ERuntime else
   if negb (forallb is_floating g) then fail ERuntime else
   if negb (forallb is_floating c) then fail ERuntime else
   ok (map to_int r, g, [c])).
Proof. reflexivity. Qed.

Lemma eline_row : forall t, trip_ok t -> eline (strip_ws (erow (cellrow t))) = inr (readrow t).
Proof.
  intros t Ht. destruct (erow_facts t Ht) as [_ [_ Htok]].
  unfold eline, split_ws. pose proof (tokens_read false (strip_ws (erow (cellrow t)))) as H. cbn [conv_text] in H.
  rewrite H, tokens_strip, Htok. destruct t as [[x y] z]. cbn [tokrow map readrow]. rewrite norm_int. reflexivity.
Qed.

Lemma forallb_true : forall (A : Type) (p : A -> bool) l, (forall x, In x l -> p x = true) -> forallb p l = true.
Proof. intros A p l H. apply forallb_forall. exact H. Qed.

(* what the reader makes of the printed table *)
Lemma table_read : forall r g c, List.length g = List.length r -> List.length c = List.length r ->
  Forall floating g -> Forall floating c ->
  parse_ecp_table (map strip_ws (map erow (map cellrow (trip r g c)))) =
    inr (r, map (norm false) g, [map (norm false) c]).
Proof.
  intros r g c Hg Hc Fg Fc. unfold floating in *.
  assert (Hts : forall t, In t (trip r g c) -> trip_ok t).
  { intros [[x y] z] Hin. destruct (trip_in _ _ _ _ _ _ Hin) as [_ [Hy Hz]]. rewrite Forall_forall in Fg, Fc.
    split; cbn [fst snd]; [apply Fg, Hy | apply Fc, Hz]. }
  rewrite parse_ecp_table_unfold. rewrite (map_map cellrow erow), (map_map _ strip_ws).
  rewrite (mapM_map_ext _ _ _ eline (fun t => strip_ws (erow (cellrow t))) (fun t => eline (strip_ws (erow (cellrow t)))))
    by reflexivity.
  rewrite (mapM_map_ok _ _ _ readrow (trip r g c)) by (intros t Hin; apply eline_row, Hts, Hin).
  unfold bind. cbv zeta. destruct (trip_proj r g c Hg Hc) as [P1 [P2 P3]].
  assert (E1 : map (fun x => fst (fst x)) (map readrow (trip r g c)) = map Z_to_string r).
  { transitivity (map Z_to_string (map (fun t => fst (fst t)) (trip r g c))); [|now rewrite P1].
    rewrite !map_map. apply map_ext. intros [[x y] z]. reflexivity. }
  assert (E2 : map (fun x => snd (fst x)) (map readrow (trip r g c)) = map (norm false) g).
  { transitivity (map (norm false) (map (fun t => snd (fst t)) (trip r g c))); [|now rewrite P2].
    rewrite !map_map. apply map_ext. intros [[x y] z]. reflexivity. }
  assert (E3 : map snd (map readrow (trip r g c)) = map (norm false) c).
  { transitivity (map (norm false) (map snd (trip r g c))); [|now rewrite P3].
    rewrite !map_map. apply map_ext. intros [[x y] z]. reflexivity. }
  rewrite E1, E2, E3.
  rewrite (forallb_true _ is_integer (map Z_to_string r)).
  2:{ intros s Hs. apply in_map_iff in Hs. destruct Hs as [z [<- _]]. apply Z_to_string_int. }
  rewrite (forallb_true _ is_floating (map (norm false) g)).
  2:{ intros s Hs. apply in_map_iff in Hs. destruct Hs as [y [<- Hy]]. rewrite is_floating_norm.
      rewrite Forall_forall in Fg. apply Fg, Hy. }
  rewrite (forallb_true _ is_floating (map (norm false) c)).
  2:{ intros s Hs. apply in_map_iff in Hs. destruct Hs as [y [<- Hy]]. rewrite is_floating_norm.
      rewrite Forall_forall in Fc. apply Fc, Hy. }
  cbn [negb]. rewrite map_map. rewrite (map_ext _ (fun z => z) (fun z => proj2 (Z_to_string_int z))), map_id. reflexivity.
Qed.

(* ================================================================== *)
(* 3. the order of the potentials                                      *)
(* ================================================================== *)
Definition single_am (p : epot) : Prop := p_am p = [pot_l p].
Definition le_l (a b : epot) : Prop := (pot_l a <= pot_l b)%Z.
Definition lt_l (a b : epot) : Prop := (pot_l a < pot_l b)%Z.

Lemma pot_ok_single : forall p, ecp_pot_ok p -> single_am p /\ (0 <= pot_l p < 25)%Z.
Proof. intros p [[l [E Hl]] _]. unfold single_am, pot_l. rewrite E. split; [reflexivity | exact Hl]. Qed.

Lemma am_ltb_single : forall a b, am_ltb [a] [b] = (a <? b)%Z.
Proof. intros a b. cbn [am_ltb]. destruct (Z.ltb_spec a b); [reflexivity|]. destruct (Z.ltb_spec b a); reflexivity. Qed.

Lemma insert_perm : forall p l, Permutation (p :: l) (ecp_insert p l).
Proof.
  intros p; induction l as [|q t IH]; [apply Permutation_refl|]. cbn [ecp_insert].
  destruct (am_ltb (p_am q) (p_am p)); [|apply Permutation_refl].
  eapply Permutation_trans; [apply perm_swap|]. apply perm_skip, IH.
Qed.

Lemma sorted_perm : forall pots, Permutation pots (ecp_sorted pots).
Proof.
  induction pots as [|p pots IH]; [apply Permutation_refl|]. unfold ecp_sorted in *. cbn [fold_right].
  eapply Permutation_trans; [apply perm_skip, IH | apply insert_perm].
Qed.

Lemma insert_sorted : forall p l, single_am p -> Forall single_am l -> StronglySorted le_l l -> StronglySorted le_l (ecp_insert p l).
Proof.
  intros p; induction l as [|q t IH]; intros Hp Hl Hs.
  - cbn [ecp_insert]. constructor; constructor.
  - inversion Hl as [|? ? Hq Ht]; subst. inversion Hs as [|? ? Hs' Hqt]; subst. cbn [ecp_insert].
    rewrite Hq, Hp, am_ltb_single. destruct (Z.ltb_spec (pot_l q) (pot_l p)) as [Hlt|Hge].
    + constructor; [apply IH; assumption|].
      apply (Permutation_Forall (insert_perm p t)). constructor; [unfold le_l; lia | exact Hqt].
    + constructor; [exact Hs|]. constructor; [exact Hge|].
      rewrite Forall_forall in *. intros x Hx. specialize (Hqt x Hx). unfold le_l in *. lia.
Qed.

Lemma sorted_sorted : forall pots, Forall single_am pots -> StronglySorted le_l (ecp_sorted pots).
Proof.
  induction pots as [|p pots IH]; intros H; [constructor|]. inversion H as [|? ? Hp Hr]; subst.
  unfold ecp_sorted in *. cbn [fold_right]. apply insert_sorted; [exact Hp | | apply IH, Hr].
  apply (Permutation_Forall (sorted_perm pots)). exact Hr.
Qed.

Lemma sorted_snoc : forall init x, StronglySorted le_l (init ++ [x]) ->
  StronglySorted le_l init /\ Forall (fun p => le_l p x) init.
Proof.
  induction init as [|a init IH]; intros x H; [split; constructor|].
  cbn [app] in H. inversion H as [|? ? Hs Ha]; subst. destruct (IH x Hs) as [I1 I2]. split.
  - constructor; [exact I1|]. apply Forall_app in Ha. apply Ha.
  - constructor; [|exact I2]. apply Forall_app in Ha. destruct Ha as [_ Ha]. inversion Ha; assumption.
Qed.

Lemma sorted_strict : forall l, StronglySorted le_l l -> NoDup (map pot_l l) -> StronglySorted lt_l l.
Proof.
  induction l as [|a l IH]; intros Hs Hn; [constructor|]. inversion Hs as [|? ? Hs' Ha]; subst.
  cbn [map] in Hn. inversion Hn as [|? ? Hnotin Hn']; subst. constructor; [apply IH; assumption|].
  rewrite Forall_forall in *. intros x Hx. specialize (Ha x Hx). unfold le_l, lt_l in *.
  assert (pot_l a <> pot_l x). { intros E. apply Hnotin. rewrite E. apply in_map, Hx. } lia.
Qed.

(* max *)
Lemma fold_max_facts : forall l m,
  (m <= fold_left Z.max l m)%Z /\ (forall x, In x l -> (x <= fold_left Z.max l m)%Z) /\
  (fold_left Z.max l m = m \/ In (fold_left Z.max l m) l).
Proof.
  induction l as [|a l IH]; intros m; cbn [fold_left].
  - split; [lia|]. split; [intros x []|]. now left.
  - destruct (IH (Z.max m a)) as [I1 [I2 I3]]. split; [lia|]. split.
    + intros x [<-|Hx]; [lia | apply I2, Hx].
    + destruct I3 as [E|Hin]; [|right; right; exact Hin]. rewrite E.
      destruct (Z.max_spec m a) as [[_ ->]|[_ ->]]; [right; now left | now left].
Qed.

Lemma zmax_facts : forall l, l <> [] -> In (zmax l) l /\ forall x, In x l -> (x <= zmax l)%Z.
Proof.
  intros [|a l] H; [congruence|]. unfold zmax. cbn [hd fold_left]. rewrite Z.max_id.
  destruct (fold_max_facts l a) as [I1 [I2 I3]]. split.
  - destruct I3 as [->|Hin]; [now left | now right].
  - intros x [<-|Hx]; [exact I1 | apply I2, Hx].
Qed.

Lemma order_facts : forall pots, pots <> [] -> Forall ecp_pot_ok pots -> NoDup (map pot_l pots) ->
  exists top rest, ecp_order pots = inr (top :: rest) /\ Permutation pots (top :: rest) /\
                   pot_l top = zmax (map pot_l pots) /\ StronglySorted lt_l rest /\ Forall (fun p => lt_l p top) rest.
Proof.
  intros pots Hne Hok Hnd.
  assert (Hsing : Forall single_am pots).
  { rewrite Forall_forall in *. intros p Hp. apply pot_ok_single, Hok, Hp. }
  pose proof (sorted_perm pots) as Hperm. pose proof (sorted_sorted pots Hsing) as Hsort.
  unfold ecp_order, ecp_rotate. destruct (rev (ecp_sorted pots)) as [|x r] eqn:Er.
  { exfalso. apply Hne. apply Permutation_sym in Hperm. apply Permutation_nil.
    assert (E : ecp_sorted pots = []) by (rewrite <- (rev_involutive (ecp_sorted pots)), Er; reflexivity).
    rewrite E in Hperm. exact Hperm. }
  assert (Es : ecp_sorted pots = rev r ++ [x]) by (rewrite <- (rev_involutive (ecp_sorted pots)), Er; reflexivity).
  rewrite Es in Hperm, Hsort. destruct (sorted_snoc _ _ Hsort) as [Hinit Hle].
  assert (Hperm' : Permutation pots (x :: rev r)).
  { eapply Permutation_trans; [exact Hperm|]. apply Permutation_sym, Permutation_cons_append. }
  assert (Hnd' : NoDup (map pot_l (x :: rev r))).
  { apply (Permutation_NoDup (Permutation_map pot_l Hperm')). exact Hnd. }
  cbn [map] in Hnd'. inversion Hnd' as [|? ? Hnotin Hnd'']; subst.
  assert (Hlt : Forall (fun p => lt_l p x) (rev r)).
  { rewrite Forall_forall in *. intros p Hp. specialize (Hle p Hp). unfold le_l, lt_l in *.
    assert (pot_l p <> pot_l x). { intros E. apply Hnotin. rewrite <- E. apply in_map, Hp. } lia. }
  exists x, (rev r). split; [reflexivity|]. split; [exact Hperm'|]. split; [|split; [apply sorted_strict; assumption | exact Hlt]].
  assert (Hls : map pot_l pots <> []) by (destruct pots; [congruence | discriminate]).
  destruct (zmax_facts (map pot_l pots) Hls) as [Zin Zge].
  assert (H1 : (pot_l x <= zmax (map pot_l pots))%Z).
  { apply Zge. apply (Permutation_in _ (Permutation_sym (Permutation_map pot_l Hperm'))). now left. }
  assert (H2 : (zmax (map pot_l pots) <= pot_l x)%Z).
  { apply (Permutation_in _ (Permutation_map pot_l Hperm')) in Zin. cbn [map In] in Zin. destruct Zin as [<-|Zin]; [lia|].
    apply in_map_iff in Zin. destruct Zin as [p [<- Hp]]. rewrite Forall_forall in Hlt. specialize (Hlt p Hp). unfold lt_l in Hlt. lia. }
  lia.
Qed.

Lemma nw_ecp_order : nw_ecp_order_stmt.
Proof.
  intros pots Hne Hok Hnd. destruct (order_facts pots Hne Hok Hnd) as [top [rest [E [P [M [S _]]]]]].
  exists top, rest. unfold ecp_written_order. rewrite E. repeat split; assumption.
Qed.

Lemma zrange_In_inv : forall n lo z, In z (zrange lo n) -> (lo <= z < lo + Z.of_nat n)%Z.
Proof.
  induction n as [|n IH]; intros lo z H; [destruct H|]. cbn [zrange In] in H.
  destruct H as [<-|H]; [lia|]. specialize (IH _ _ H). lia.
Qed.

Lemma nw_ecp_contiguous : nw_ecp_contiguous_stmt.
Proof.
  intros ls lmax P.
  assert (Hne : ls <> []).
  { intros ->. apply Permutation_nil in P. discriminate P. }
  destruct (zmax_facts ls Hne) as [Zin Zge].
  assert (Hn : In (Z.of_nat lmax) ls) by (apply (Permutation_in _ (Permutation_sym P)), zrange_In; lia).
  pose proof (zrange_In_inv _ _ _ (Permutation_in _ P Zin)) as Hr. pose proof (Zge _ Hn) as Hge.
  assert (Emax : zmax ls = Z.of_nat lmax) by lia.
  destruct lmax as [|k].
  - left. apply Permutation_sym, Permutation_length_1_inv in P. exact P.
  - right. rewrite Emax. apply (Permutation_in _ (Permutation_sym P)), zrange_In. lia.
Qed.

(* ================================================================== *)
(* 4. the lines the writer prints                                      *)
(* ================================================================== *)
Definition pcoef (p : epot) : list string := hd [] (p_coef p).
Definition ptrip (p : epot) : list (Z * string * string) := trip (p_rexp p) (p_gexp p) (pcoef p).
Definition prows (p : epot) : list string := map erow (map cellrow (ptrip p)).
Definition ul_line (sym : string) : string := sym +++ " ul".
Definition am_line1 (sym : string) (p : epot) : string := sym +++ " " +++ upper (amch_of (p_am p)).
Definition pot_head (sym : string) (mx : Z) (p : epot) : string :=
  if Z.eqb (pot_l p) mx then ul_line sym else am_line1 sym p.
Definition pot_lines (sym : string) (mx : Z) (p : epot) : list string := pot_head sym mx p :: prows p.
Definition nelec_line (sym : string) (n : Z) : string := sym +++ " nelec " +++ Z_to_string n.
Definition el_mx (e : Z * (Z * list epot)) : Z := zmax (map pot_l (snd (snd e))).
Definition ecp_el_lines (e : Z * (Z * list epot)) : list string :=
  nelec_line (symz (fst e)) (fst (snd e)) ::
  flat_map (pot_lines (symz (fst e)) (el_mx e)) (ecp_written_order (snd (snd e))).
Definition ecp_all_lines (ecps : list (Z * (Z * list epot))) : list string :=
  "" :: "" :: "ECP" :: flat_map ecp_el_lines ecps ++ ["END"].

Lemma pot_facts : forall p, ecp_pot_ok p ->
  ecp_cols p = [map CInt (p_rexp p); map CStr (p_gexp p); map CStr (pcoef p)] /\
  p_coef p = [pcoef p] /\
  List.length (p_gexp p) = List.length (p_rexp p) /\ List.length (pcoef p) = List.length (p_rexp p) /\
  Forall floating (p_gexp p) /\ Forall floating (pcoef p) /\
  (forall t, In t (ptrip p) -> trip_ok t) /\ ptrip p <> [].
Proof.
  intros p [_ [Hne [Hg [[c [Ec Hc]] [Fg Fc]]]]]. unfold ecp_cols, ptrip, pcoef. rewrite Ec in *. cbn [hd map].
  inversion Fc as [|? ? Fc0 _]; subst.
  split; [reflexivity|]. split; [reflexivity|]. split; [exact Hg|]. split; [exact Hc|]. split; [exact Fg|]. split; [exact Fc0|].
  split.
  - intros [[x y] z] Hin. destruct (trip_in _ _ _ _ _ _ Hin) as [_ [Hy Hz]]. unfold floating in *. rewrite Forall_forall in Fg, Fc0.
    split; cbn [fst snd]; [apply Fg, Hy | apply Fc0, Hz].
  - intros E. pose proof (trip_length _ _ _ Hg Hc) as L. rewrite E in L. destruct (p_rexp p); [congruence | discriminate].
Qed.

Lemma mapM_find_point : forall col, Forall cell_ok col -> exists l, mapM find_point col = inr l.
Proof.
  intros col H. apply mapM_total. rewrite Forall_forall in *. intros c Hc. apply find_point_ok, H, Hc.
Qed.

Lemma pot_am_facts : forall p, ecp_pot_ok p ->
  amint_to_char (p_am p) false false = inr (amch_of (p_am p)) /\ am_first p = inr (pot_l p) /\
  sall is_alpha (upper (amch_of (p_am p))) = true /\ upper (amch_of (p_am p)) <> "" /\
  amchar_to_int (upper (amch_of (p_am p))) false = inr (p_am p) /\
  String.length (upper (amch_of (p_am p))) = 1.
Proof.
  intros p [[l [E Hl]] _]. assert (Ha : am_ok (p_am p)) by (rewrite E; constructor; [exact Hl | constructor]).
  assert (Hne : p_am p <> []) by (rewrite E; discriminate).
  destruct (amch_facts (p_am p) Ha Hne) as [A1 [A2 [A3 A4]]].
  split; [exact A1|]. split; [unfold am_first, pot_l; rewrite E; reflexivity|]. split; [exact A2|]. split; [exact A3|].
  split; [exact A4|].
  unfold upper. rewrite smap_length. unfold amint_to_char in A1. cbn [andb amchar_map] in A1. rewrite E in A1 |- *.
  cbn [amint_chars] in A1. destruct (l <? 0)%Z; [discriminate|].
  destruct (snth (Z.to_nat l) amchar_map_hik) as [c|]; [|discriminate]. unfold bind, ok in A1.
  injection A1 as A1'. rewrite <- A1'. reflexivity.
Qed.

Lemma write_pot_lines : forall sym mx p, ecp_pot_ok p -> nw_write_pot sym mx p = inr (unlines (pot_lines sym mx p)).
Proof.
  intros sym mx p Hp. destruct (pot_facts p Hp) as [Ecols [_ [Hg [Hc [Fg [Fc [Hts _]]]]]]].
  destruct (pot_am_facts p Hp) as [A1 [A2 _]].
  unfold nw_write_pot. rewrite A1, A2. unfold bind. rewrite Ecols.
  assert (Hleft : leftpad_check [map CInt (p_rexp p); map CStr (p_gexp p); map CStr (pcoef p)] ecp_point_places = inr tt).
  { unfold ecp_point_places. cbn [leftpad_check].
    destruct (mapM_find_point (map CInt (p_rexp p))) as [l1 ->].
    { rewrite Forall_forall. intros c Hc'. apply in_map_iff in Hc'. destruct Hc' as [x [<- _]]. exact I. }
    destruct (mapM_find_point (map CStr (p_gexp p))) as [l2 ->]; [apply floats_cells, Fg|].
    destruct (mapM_find_point (map CStr (pcoef p))) as [l3 ->]; [apply floats_cells, Fc|]. reflexivity. }
  rewrite Hleft.
  assert (Hw : write_matrix [map CInt (p_rexp p); map CStr (p_gexp p); map CStr (pcoef p)] ecp_point_places false
               = inr (unlines (prows p))).
  { unfold write_matrix, transpose_cells. rewrite transpose_trip. fold (ptrip p).
    rewrite (mapM_map_ok _ _ _ erow (map cellrow (ptrip p))); [reflexivity|].
    intros row Hrow. apply in_map_iff in Hrow. destruct Hrow as [t [<- Ht]]. apply erow_facts, Hts, Ht. }
  rewrite Hw. unfold ok, pot_lines, pot_head, ul_line, am_line1. rewrite unlines_cons.
  destruct (Z.eqb (pot_l p) mx); rewrite !sapp_assoc; reflexivity.
Qed.

Lemma max_am_ok : forall pots, pots <> [] -> Forall ecp_pot_ok pots -> ecp_max_am pots = inr (zmax (map pot_l pots)).
Proof.
  intros pots Hne Hok. unfold ecp_max_am. rewrite (mapM_map_ok _ _ am_first pot_l pots).
  - unfold bind. destruct pots; [congruence | reflexivity].
  - intros p Hp. rewrite Forall_forall in Hok. apply pot_am_facts, Hok, Hp.
Qed.

Lemma written_order_ok : forall pots, pots <> [] -> Forall ecp_pot_ok pots -> NoDup (map pot_l pots) ->
  ecp_order pots = inr (ecp_written_order pots) /\ Forall ecp_pot_ok (ecp_written_order pots) /\
  Permutation pots (ecp_written_order pots).
Proof.
  intros pots Hne Hok Hnd. destruct (order_facts pots Hne Hok Hnd) as [top [rest [E [P _]]]].
  unfold ecp_written_order. rewrite E. split; [reflexivity|]. split; [apply (Permutation_Forall P), Hok | exact P].
Qed.

Lemma write_ecp_element_lines : forall e, ecp_el_ok e -> nw_write_ecp_element e = inr (unlines (ecp_el_lines e)).
Proof.
  intros [z [n pots]] [Hz [Hn [Hne [Hok [Hnd _]]]]]. destruct (sym_facts z Hz) as [Es _].
  destruct (written_order_ok pots Hne Hok Hnd) as [Eo [Hoo _]].
  unfold nw_write_ecp_element. rewrite Es. unfold bind. rewrite (max_am_ok pots Hne Hok), Eo.
  rewrite (mapM_map_ok _ _ _ (fun p => unlines (pot_lines (symz z) (zmax (map pot_l pots)) p))).
  - unfold ok, ecp_el_lines, el_mx, nelec_line. cbn [fst snd]. rewrite unlines_cons, unlines_flat_map, !sapp_assoc. reflexivity.
  - intros p Hp. apply write_pot_lines. rewrite Forall_forall in Hoo. apply Hoo, Hp.
Qed.

Lemma write_ecp_lines : forall ecps, nw_ecp_ok ecps -> nw_write_ecp ecps = inr (unlines (ecp_all_lines ecps)).
Proof.
  intros ecps [Hne [_ Hel]]. unfold nw_write_ecp. destruct ecps as [|e0 ecps0]; [congruence|].
  rewrite (mapM_map_ok _ _ nw_write_ecp_element (fun e => unlines (ecp_el_lines e))).
  - unfold bind, ok, ecp_all_lines. rewrite !unlines_cons, unlines_app, unlines_flat_map. reflexivity.
  - intros e Hin. apply write_ecp_element_lines. rewrite Forall_forall in Hel. apply Hel, Hin.
Qed.

Lemma nw_ecp_write_total : nw_ecp_write_total_stmt.
Proof. intros ecps H. eexists. apply write_ecp_lines, H. Qed.

(* ---- every line is a complete line for splitlines ---- *)
Lemma sym_nobd : forall z, (1 <= z <= 118)%Z -> sall nobd (symz z) = true.
Proof. intros z Hz. destruct (sym_facts z Hz) as [_ [_ [Hs _]]]. exact (sall_impl is_alpha nobd _ alpha_nobd Hs). Qed.

Lemma pot_lines_good : forall z mx p, (1 <= z <= 118)%Z -> ecp_pot_ok p -> Forall good_line (pot_lines (symz z) mx p).
Proof.
  intros z mx p Hz Hp. destruct (pot_facts p Hp) as [_ [_ [_ [_ [_ [_ [Hts _]]]]]]]. destruct (pot_am_facts p Hp) as [_ [_ [A2 _]]].
  unfold pot_lines. constructor.
  - unfold pot_head, ul_line, am_line1, good_line. destruct (Z.eqb (pot_l p) mx); rewrite !sall_app, (sym_nobd z Hz).
    + reflexivity.
    + rewrite (sall_impl is_alpha nobd _ alpha_nobd A2). reflexivity.
  - unfold prows. rewrite Forall_forall. intros l Hl. apply in_map_iff in Hl. destruct Hl as [row [<- Hrow]].
    apply in_map_iff in Hrow. destruct Hrow as [t [<- Ht]]. apply erow_facts, Hts, Ht.
Qed.

Lemma nelec_line_good : forall z n, (1 <= z <= 118)%Z -> good_line (nelec_line (symz z) n).
Proof.
  intros z n Hz. unfold good_line, nelec_line. rewrite !sall_app, (sym_nobd z Hz).
  rewrite (sall_impl intc nobd _ intc_nobd (Z_to_string_intc n)). reflexivity.
Qed.

Lemma ecp_el_lines_good : forall e, ecp_el_ok e -> Forall good_line (ecp_el_lines e).
Proof.
  intros [z [n pots]] [Hz [Hn [Hne [Hok [Hnd _]]]]]. destruct (written_order_ok pots Hne Hok Hnd) as [_ [Hoo _]].
  unfold ecp_el_lines. cbn [fst snd]. constructor; [apply nelec_line_good, Hz|].
  rewrite Forall_forall in *. intros l Hl. apply in_flat_map in Hl. destruct Hl as [p [Hp Hl]].
  pose proof (pot_lines_good z (el_mx (z, (n, pots))) p Hz (Hoo p Hp)) as G. rewrite Forall_forall in G. apply G, Hl.
Qed.

Lemma ecp_all_lines_good : forall ecps, nw_ecp_ok ecps -> Forall good_line (ecp_all_lines ecps).
Proof.
  intros ecps [_ [_ Hel]]. unfold ecp_all_lines. repeat (constructor; [reflexivity|]).
  apply Forall_app. split; [|repeat constructor].
  rewrite Forall_forall in *. intros l Hl. apply in_flat_map in Hl. destruct Hl as [e [He Hl]].
  pose proof (ecp_el_lines_good e (Hel e He)) as G. rewrite Forall_forall in G. apply G, Hl.
Qed.

Lemma ecp_written_lines : forall ecps t, nw_ecp_ok ecps -> nw_write_ecp ecps = inr t -> splitlines t = ecp_all_lines ecps.
Proof.
  intros ecps t H E. rewrite (write_ecp_lines ecps H) in E. inversion E; subst.
  apply splitlines_unlines, ecp_all_lines_good, H.
Qed.

(* ---------- nw_ecp_no_number_lost ---------- *)
Lemma int_tok : forall z, tok_ok (Z_to_string z).
Proof.
  intros z. split; [apply Z_to_string_ne|]. apply (sall_sany_false intc); [exact intc_not_space | apply Z_to_string_intc].
Qed.

Lemma nelec_tokens : forall sym n, In (Z_to_string n) (tokens_acc (nelec_line sym n) "").
Proof.
  intros sym n. unfold nelec_line.
  change (sym +++ " nelec " +++ Z_to_string n) with (sym +++ " nelec" +++ sp 1 +++ Z_to_string n).
  rewrite <- sapp_assoc, (tokens_snoc 0 _ (int_tok n)). apply in_or_app. right. now left.
Qed.

Lemma nw_ecp_no_number_lost : nw_ecp_no_number_lost_stmt.
Proof.
  intros ecps t H E x [e [He Hx]]. rewrite (ecp_written_lines ecps t H E).
  destruct H as [_ [_ Hel]]. rewrite Forall_forall in Hel. pose proof (Hel e He) as Hok.
  destruct e as [z [n pots]]. cbn [fst snd] in Hx.
  assert (Hsub : forall line, In line (ecp_el_lines (z, (n, pots))) -> In line (ecp_all_lines ecps)).
  { intros line Hl. unfold ecp_all_lines. do 3 right. apply in_or_app. left. apply in_flat_map. eexists. split; [exact He | exact Hl]. }
  destruct Hx as [->|[p [Hp Hx]]].
  - exists (nelec_line (symz z) n). split; [apply Hsub; now left | apply nelec_tokens].
  - destruct Hok as [Hz [Hn [Hne [Hpok [Hnd _]]]]]. destruct (written_order_ok pots Hne Hpok Hnd) as [_ [_ Hperm]].
    rewrite Forall_forall in Hpok. pose proof (Hpok p Hp) as Hpp.
    destruct (pot_facts p Hpp) as [_ [Ec [Hg [Hc [_ [_ [Hts _]]]]]]].
    destruct (trip_proj _ _ _ Hg Hc) as [P1 [P2 P3]]. fold (ptrip p) in P1, P2, P3.
    assert (Ht : exists tr, In tr (ptrip p) /\ In x (tokrow tr)).
    { destruct Hx as [Hx|[[c [Hcin Hx]]|[r [Hr ->]]]].
      - rewrite <- P2 in Hx. apply in_map_iff in Hx. destruct Hx as [[[a b] c] [<- Hin]]. eexists. split; [exact Hin|]. right. now left.
      - rewrite Ec in Hcin. destruct Hcin as [<-|[]]. rewrite <- P3 in Hx. apply in_map_iff in Hx.
        destruct Hx as [[[a b] c] [<- Hin]]. eexists. split; [exact Hin|]. right. right. now left.
      - rewrite <- P1 in Hr. apply in_map_iff in Hr. destruct Hr as [[[a b] c] [<- Hin]]. eexists. split; [exact Hin|]. now left. }
    destruct Ht as [tr [Htr Hxt]]. exists (erow (cellrow tr)). destruct (erow_facts tr (Hts tr Htr)) as [_ [_ Htok]].
    split; [|rewrite Htok; exact Hxt].
    apply Hsub. unfold ecp_el_lines. cbn [fst snd]. right. apply in_flat_map. exists p.
    split; [apply (Permutation_in _ Hperm), Hp|]. unfold pot_lines, prows. right. apply in_map, in_map, Htr.
Qed.

(* ================================================================== *)
(* 5. prune_lines and partition_lines on the written ECP lines          *)
(* ================================================================== *)
Definition pot_blk (sym : string) (mx : Z) (p : epot) : list string := pot_head sym mx p :: map strip_ws (prows p).
Definition ecp_el_blocks (e : Z * (Z * list epot)) : list (list string) :=
  [nelec_line (symz (fst e)) (fst (snd e))] :: map (pot_blk (symz (fst e)) (el_mx e)) (ecp_written_order (snd (snd e))).
Definition ecp_blocks (ecps : list (Z * (Z * list epot))) : list (list string) := flat_map ecp_el_blocks ecps.

(* a line `sym<blank>...<word>`: strip() leaves it alone, it begins with a letter, and it is not `end` *)
Lemma head_line_facts : forall z m b, (1 <= z <= 118)%Z -> tok_ok b ->
  let l := symz z +++ String " " (m +++ b) in
  strip_ws l = l /\ (exists c r, l = String c r /\ is_alpha c = true) /\ is_end_line l = false /\ prune1 [l] = [l].
Proof.
  intros z m b Hz Hb l. destruct (sym_facts z Hz) as [_ [Hsne [Hs _]]].
  assert (E : strip_ws l = l).
  { unfold l. change (String " " (m +++ b)) with ((String " " m) +++ b). apply strip_words; [apply alpha_word_tok; assumption | exact Hb]. }
  assert (Hc : exists c r, l = String c r /\ is_alpha c = true).
  { unfold l. destruct (symz z) as [|c r] eqn:Ez; [congruence|]. cbn [sall] in Hs. apply andb_true_iff in Hs. destruct Hs as [Hc _].
    exists c. eexists. split; [reflexivity | exact Hc]. }
  split; [exact E|]. split; [exact Hc|]. split.
  - apply not_end. unfold l. rewrite sall_app. cbn [sall]. change (is_alpha " ") with false. cbn [andb]. apply andb_false_r.
  - destruct Hc as [c [r [El Hc]]]. rewrite El in *. apply prune1_keep; [exact E | apply alpha_not_hash, Hc].
Qed.

Lemma pot_head_facts : forall z mx p, (1 <= z <= 118)%Z -> ecp_pot_ok p ->
  let l := pot_head (symz z) mx p in
  (exists c r, l = String c r /\ is_alpha c = true) /\ is_end_line l = false /\ prune1 [l] = [l].
Proof.
  intros z mx p Hz Hp. destruct (pot_am_facts p Hp) as [_ [_ [A2 [A3 _]]]].
  unfold pot_head, ul_line, am_line1. destruct (Z.eqb (pot_l p) mx).
  - apply (head_line_facts z "" "ul" Hz). split; [discriminate | reflexivity].
  - apply (head_line_facts z "" _ Hz). apply alpha_word_tok; assumption.
Qed.

Lemma nelec_line_facts : forall z n, (1 <= z <= 118)%Z ->
  let l := nelec_line (symz z) n in
  (exists c r, l = String c r /\ is_alpha c = true) /\ is_end_line l = false /\ prune1 [l] = [l].
Proof. intros z n Hz. apply (head_line_facts z "nelec " (Z_to_string n) Hz), int_tok. Qed.

Lemma prows_data : forall p, ecp_pot_ok p -> Forall (fun r => data_line (strip_ws r)) (prows p).
Proof.
  intros p Hp. destruct (pot_facts p Hp) as [_ [_ [_ [_ [_ [_ [Hts _]]]]]]].
  unfold prows. rewrite Forall_forall. intros l Hl. apply in_map_iff in Hl. destruct Hl as [row [<- Hrow]].
  apply in_map_iff in Hrow. destruct Hrow as [t [<- Ht]]. apply erow_data, Hts, Ht.
Qed.

Lemma prune1_pot : forall z mx p, (1 <= z <= 118)%Z -> ecp_pot_ok p ->
  prune1 (pot_lines (symz z) mx p) = pot_blk (symz z) mx p.
Proof.
  intros z mx p Hz Hp. unfold pot_lines, pot_blk. rewrite prune1_cons, (prune1_data _ (prows_data p Hp)).
  destruct (pot_head_facts z mx p Hz Hp) as [_ [_ E]]. rewrite E. reflexivity.
Qed.

Lemma prune1_ecp_element : forall e, ecp_el_ok e -> prune1 (ecp_el_lines e) = concat (ecp_el_blocks e).
Proof.
  intros [z [n pots]] [Hz [Hn [Hne [Hok [Hnd _]]]]]. destruct (written_order_ok pots Hne Hok Hnd) as [_ [Hoo _]].
  unfold ecp_el_lines, ecp_el_blocks. cbn [fst snd concat]. rewrite prune1_cons.
  destruct (nelec_line_facts z n Hz) as [_ [_ E]]. rewrite E, prune1_flat_map. cbn [app]. f_equal.
  rewrite <- flat_map_concat_map. apply flat_map_ext_in. intros p Hp. apply prune1_pot; [exact Hz|].
  rewrite Forall_forall in Hoo. apply Hoo, Hp.
Qed.

Lemma pruned_ecp_lines : forall ecps, nw_ecp_ok ecps ->
  prune1 (ecp_all_lines ecps) = "ECP" :: concat (ecp_blocks ecps) ++ ["END"].
Proof.
  intros ecps [_ [_ Hel]]. unfold ecp_all_lines.
  rewrite (prune1_cons ""), (prune1_cons "" ("ECP" :: _)), (prune1_cons "ECP"), prune1_app, prune1_flat_map.
  change (prune1 [""]) with (@nil string). change (prune1 ["ECP"]) with ["ECP"]. change (prune1 ["END"]) with ["END"].
  cbn [app]. unfold ecp_blocks. rewrite concat_flat_map.
  rewrite (flat_map_ext_in _ _ (fun x => prune1 (ecp_el_lines x)) (fun x => concat (ecp_el_blocks x)) ecps); [reflexivity|].
  intros e Hin. apply prune1_ecp_element. rewrite Forall_forall in Hel. apply Hel, Hin.
Qed.

(* ---- the blocks ---- *)
Definition ecp_block (b : list string) : Prop :=
  block_shape starts_alpha b /\ Forall (fun l => is_end_line l = false) b.

Lemma pot_blk_shape : forall z mx p, (1 <= z <= 118)%Z -> ecp_pot_ok p -> ecp_block (pot_blk (symz z) mx p).
Proof.
  intros z mx p Hz Hp. pose proof (prows_data p Hp) as Hd. destruct (pot_head_facts z mx p Hz Hp) as [[c [r [El Hc]]] [Hend _]].
  unfold ecp_block, pot_blk. split.
  - exists (pot_head (symz z) mx p), (map strip_ws (prows p)). split; [reflexivity|]. split.
    + rewrite El. cbn [starts_alpha]. now rewrite Hc.
    + rewrite Forall_forall in *. intros l Hin. apply in_map_iff in Hin. destruct Hin as [row [<- Hrow]].
      apply data_not_alpha, Hd, Hrow.
  - constructor; [exact Hend|]. rewrite Forall_forall in *. intros l Hin. apply in_map_iff in Hin. destruct Hin as [row [<- Hrow]].
    apply data_not_end, Hd, Hrow.
Qed.

Lemma nelec_blk_shape : forall z n, (1 <= z <= 118)%Z -> ecp_block [nelec_line (symz z) n].
Proof.
  intros z n Hz. destruct (nelec_line_facts z n Hz) as [[c [r [El Hc]]] [Hend _]]. split.
  - exists (nelec_line (symz z) n), []. split; [reflexivity|]. split; [|constructor]. rewrite El. cbn [starts_alpha]. now rewrite Hc.
  - constructor; [exact Hend | constructor].
Qed.

Lemma ecp_blocks_shape : forall ecps, Forall ecp_el_ok ecps -> Forall ecp_block (ecp_blocks ecps).
Proof.
  intros ecps Hel. rewrite Forall_forall in *. intros b Hb. unfold ecp_blocks in Hb.
  apply in_flat_map in Hb. destruct Hb as [[z [n pots]] [He Hb]]. destruct (Hel _ He) as [Hz [Hn [Hne [Hok [Hnd _]]]]].
  destruct (written_order_ok pots Hne Hok Hnd) as [_ [Hoo _]].
  unfold ecp_el_blocks in Hb. cbn [fst snd] in Hb. destruct Hb as [<-|Hb]; [apply nelec_blk_shape, Hz|].
  apply in_map_iff in Hb. destruct Hb as [p [<- Hp]]. rewrite Forall_forall in Hoo. apply pot_blk_shape; [exact Hz | apply Hoo, Hp].
Qed.

Lemma partition_ecp_blocks : forall bs, Forall ecp_block bs -> partition_lines (concat bs) starts_alpha true 1 0 0 = inr bs.
Proof.
  intros bs H. unfold partition_lines. rewrite (part_blocks starts_alpha bs [] []).
  - cbn [flush app]. unfold bind. rewrite existsb_false; [reflexivity|].
    intros b Hb. rewrite Forall_forall in H. destruct (H b Hb) as [[h [r [-> _]]] _]. reflexivity.
  - rewrite Forall_forall in *. intros b Hb. apply H, Hb.
Qed.

Lemma ecp_body_not_end : forall ecps, Forall ecp_el_ok ecps -> Forall (fun l => is_end_line l = false) (concat (ecp_blocks ecps)).
Proof.
  intros ecps Hel. apply concat_Forall. pose proof (ecp_blocks_shape ecps Hel) as H. rewrite Forall_forall in *.
  intros b Hb. apply H, Hb.
Qed.

(* ================================================================== *)
(* 6. one block                                                        *)
(* ================================================================== *)
(* symbols in lower case (the nelec line is lowered before it is taken apart) *)
Definition sym_lower_good (z : Z) : bool :=
  match element_sym_from_Z z true with
  | inr s => sall is_alpha (lower s) && res_eqb Z.eqb (element_Z_from_sym (lower s)) z
  | inl _ => false
  end.
Lemma sym_lower_sweep : forallb sym_lower_good Zs = true.
Proof. vm_compute. reflexivity. Qed.
Lemma sym_lower_facts : forall z, (1 <= z <= 118)%Z ->
  sall is_alpha (lower (symz z)) = true /\ lower (symz z) <> "" /\ element_Z_from_sym (lower (symz z)) = inr z.
Proof.
  intros z Hz. pose proof (proj1 (forallb_forall _ _) sym_lower_sweep z (Zs_spec z Hz)) as H.
  destruct (sym_facts z Hz) as [Es [Hne _]]. unfold sym_lower_good in H. rewrite Es in H.
  apply andb_true_iff in H. destruct H as [H1 H2]. split; [exact H1|]. split.
  - destruct (symz z); [congruence | discriminate].
  - destruct (element_Z_from_sym (lower (symz z))) as [e|z']; [discriminate H2|]. cbn [res_eqb] in H2.
    apply Z.eqb_eq in H2. now subst.
Qed.

Lemma decimal_lstrip : forall ds, decimal ds -> lstrip_ws ds = ds.
Proof.
  intros [|c s] [Hne Hd]; [congruence|]. cbn [sall] in Hd. apply andb_true_iff in Hd. destruct Hd as [Hc _].
  cbn [lstrip_ws]. assert (E : is_space c = false) by (all_chars c; try reflexivity; discriminate Hc). now rewrite E.
Qed.

Lemma match_nelec_ok : forall a ds, a <> "" -> sall is_alpha a = true -> decimal ds ->
  match_nelec_line (a +++ " nelec " +++ ds) = Some (a, ds).
Proof.
  intros a ds Ha Sa Hd. unfold match_nelec_line.
  change (a +++ " nelec " +++ ds) with (a +++ String " " ("nelec " +++ ds)).
  rewrite (span_alpha_word_sp a _ Sa). destruct a as [|ca a']; [congruence|].
  change (is_space " ") with true. cbv iota.
  change (lstrip_ws (String " " ("nelec " +++ ds))) with ("nelec " +++ ds).
  change (strip_prefix_ci "nelec" ("nelec " +++ ds)) with (Some (String " " ds)). cbv iota.
  change (is_space " ") with true. cbv iota. rewrite (decimal_lstrip ds Hd).
  destruct (decimal_is_integer ds Hd) as [_ [_ ->]]. reflexivity.
Qed.

Lemma nonneg_string : forall n, (0 <= n)%Z -> decimal (Z_to_string n) /\ digits_val (Z_to_string n) 0 = n.
Proof.
  intros [|p|p] H; [split; [split; [discriminate | reflexivity] | reflexivity] | | lia].
  cbn [Z_to_string]. split; [apply N_to_string_decimal | apply N_to_string_val].
Qed.

Lemma lower_nelec_line : forall sym n, lower (nelec_line sym n) = nelec_line (lower sym) n.
Proof.
  intros sym n. unfold nelec_line, lower. rewrite !smap_app.
  rewrite (smap_id_on intc lower_char (Z_to_string n) intc_lower (Z_to_string_intc n)). reflexivity.
Qed.

Lemma set_nelec_new : forall z n d, ~ In z (map fst d) -> set_nelec z n d = inr (d ++ [(z, (Some n, []))]).
Proof.
  intros z n; induction d as [|[z' [ne ps]] d IH]; intros H; [reflexivity|].
  cbn [set_nelec map fst In] in *. destruct (Z.eqb_spec z z') as [->|Hne]; [exfalso; apply H; now left|].
  rewrite IH; [reflexivity|]. intros Hin. apply H. now right.
Qed.

Lemma append_pot_last : forall z p ne ps d, ~ In z (map fst d) ->
  append_pot z p (d ++ [(z, (ne, ps))]) = d ++ [(z, (ne, ps ++ [p]))].
Proof.
  intros z p ne ps; induction d as [|[z' [ne' ps']] d IH]; intros H.
  - cbn [app append_pot]. now rewrite Z.eqb_refl.
  - cbn [append_pot map fst In app] in *. destruct (Z.eqb_spec z z') as [->|Hne]; [exfalso; apply H; now left|].
    rewrite IH; [reflexivity|]. intros Hin. apply H. now right.
Qed.

Lemma parse_nelec_block : forall z n d, (1 <= z <= 118)%Z -> (0 <= n)%Z -> ~ In z (map fst d) ->
  nw_parse_ecp_block [nelec_line (symz z) n] d = inr (d ++ [(z, (Some n, []))]).
Proof.
  intros z n d Hz Hn Hd. destruct (sym_facts z Hz) as [_ [Hsne [Hsa _]]]. destruct (sym_lower_facts z Hz) as [La [Lne Lz]].
  destruct (nonneg_string n Hn) as [Hdec Hval].
  unfold nw_parse_ecp_block. rewrite lower_nelec_line. unfold nelec_line.
  rewrite (match_nelec_ok _ _ Hsne Hsa Hdec), (match_nelec_ok _ _ Lne La Hdec), Lz. unfold bind. rewrite Hval.
  apply set_nelec_new, Hd.
Qed.

(* am_line_re on `sym<one blank>word` *)
Lemma parse_am_line1_ok : forall a b, a <> "" -> b <> "" -> sall is_alpha a = true -> sall is_alpha b = true ->
  parse_am_line (a +++ " " +++ b) = inr (a, b).
Proof.
  intros a b Ha Hb Sa Sb. unfold parse_am_line, match_am_line.
  change (a +++ " " +++ b) with (a +++ String " " b).
  rewrite (span_alpha_word_sp a _ Sa). destruct a as [|ca a']; [congruence|].
  change (is_space " ") with true. cbv iota.
  assert (El : lstrip_ws (String " " b) = b).
  { cbn [lstrip_ws]. change (is_space " ") with true. cbv iota.
    destruct b as [|cb b']; [congruence|]. cbn [sall] in Sb. apply andb_true_iff in Sb. destruct Sb as [Hc _].
    cbn [lstrip_ws]. now rewrite (alpha_not_space cb Hc). }
  rewrite El, (span_alpha_word b Sb). destruct b as [|cb b']; [congruence|]. reflexivity.
Qed.

(* what the reader makes of one potential before the fix-up: the `ul` one has the placeholder [] *)
Definition read_pot (mx : Z) (p : epot) : epot :=
  mkEpot "scalar_ecp" (if Z.eqb (pot_l p) mx then [] else p_am p) (p_rexp p) (map (norm false) (p_gexp p))
         [map (norm false) (pcoef p)].

Lemma letter_not_ul : forall b, String.length b = 1 -> String.eqb (lower b) "ul" = false.
Proof.
  intros b Hb. destruct (String.eqb (lower b) "ul") eqn:E; [|reflexivity]. apply String.eqb_eq in E.
  assert (L : String.length (lower b) = 2) by (rewrite E; reflexivity). unfold lower in L. rewrite smap_length in L. lia.
Qed.

Lemma parse_pot_block : forall z mx p ne ps d, (1 <= z <= 118)%Z -> ecp_pot_ok p -> ~ In z (map fst d) ->
  nw_parse_ecp_block (pot_blk (symz z) mx p) (d ++ [(z, (ne, ps))]) = inr (d ++ [(z, (ne, ps ++ [read_pot mx p]))]).
Proof.
  intros z mx p ne ps d Hz Hp Hd. destruct (sym_facts z Hz) as [_ [Hsne [Hsa Hsz]]].
  destruct (pot_facts p Hp) as [_ [_ [Hg [Hc [Fg [Fc [_ Hne]]]]]]].
  destruct (pot_am_facts p Hp) as [_ [_ [A2 [A3 [A4 A5]]]]].
  pose proof (table_read (p_rexp p) (p_gexp p) (pcoef p) Hg Hc Fg Fc) as Htab. fold (ptrip p) in Htab. fold (prows p) in Htab.
  unfold pot_blk, nw_parse_ecp_block.
  destruct (map strip_ws (prows p)) as [|row1 rows] eqn:Erows.
  { exfalso. unfold prows in Erows. apply map_eq_nil, map_eq_nil, map_eq_nil in Erows. exact (Hne Erows). }
  unfold pot_head, read_pot. destruct (Z.eqb (pot_l p) mx).
  - unfold ul_line. change (symz z +++ " ul") with (symz z +++ " " +++ "ul").
    rewrite (parse_am_line1_ok (symz z) "ul" Hsne ltac:(discriminate) Hsa eq_refl). unfold bind.
    rewrite Hsz. change (String.eqb (lower "ul") "ul") with true. cbv iota. rewrite Htab.
    unfold ok. f_equal. apply append_pot_last, Hd.
  - unfold am_line1. rewrite (parse_am_line1_ok _ _ Hsne A3 Hsa A2). unfold bind.
    rewrite Hsz, (letter_not_ul _ A5), A4, Htab. unfold ok. f_equal. apply append_pot_last, Hd.
Qed.

(* ================================================================== *)
(* 7. the loop over the blocks, the fix-up, the section                 *)
(* ================================================================== *)
Lemma ecp_blocks_app : forall b1 b2 d,
  nw_parse_ecp_blocks (b1 ++ b2) d = (do d' <- nw_parse_ecp_blocks b1 d; nw_parse_ecp_blocks b2 d').
Proof.
  induction b1 as [|b b1 IH]; intros b2 d; [reflexivity|].
  cbn [app nw_parse_ecp_blocks]. destruct (nw_parse_ecp_block b d) as [e|d1]; [reflexivity|]. unfold bind at 1 3. apply IH.
Qed.

Lemma pots_blocks : forall z mx ps0 ne d pots, (1 <= z <= 118)%Z -> Forall ecp_pot_ok pots -> ~ In z (map fst d) ->
  nw_parse_ecp_blocks (map (pot_blk (symz z) mx) pots) (d ++ [(z, (ne, ps0))]) =
  inr (d ++ [(z, (ne, ps0 ++ map (read_pot mx) pots))]).
Proof.
  intros z mx ps0 ne d pots Hz. revert ps0. induction pots as [|p pots IH]; intros ps0 Hok Hd.
  - cbn [map nw_parse_ecp_blocks]. now rewrite app_nil_r.
  - inversion Hok as [|? ? H1 H2]; subst. cbn [map nw_parse_ecp_blocks].
    rewrite (parse_pot_block z mx p ne ps0 d Hz H1 Hd). unfold bind. rewrite (IH _ H2 Hd), <- app_assoc. reflexivity.
Qed.

Definition read_el (e : Z * (Z * list epot)) : Z * (option Z * list epot) :=
  (fst e, (Some (fst (snd e)), map (read_pot (el_mx e)) (ecp_written_order (snd (snd e))))).

Lemma ecp_element_blocks : forall e d, ecp_el_ok e -> ~ In (fst e) (map fst d) ->
  nw_parse_ecp_blocks (ecp_el_blocks e) d = inr (d ++ [read_el e]).
Proof.
  intros [z [n pots]] d [Hz [Hn [Hne [Hok [Hnd _]]]]] Hd. cbn [fst] in Hd.
  destruct (written_order_ok pots Hne Hok Hnd) as [_ [Hoo _]].
  unfold ecp_el_blocks, read_el. cbn [fst snd nw_parse_ecp_blocks].
  rewrite (parse_nelec_block z n d Hz Hn Hd). unfold bind.
  exact (pots_blocks z _ [] (Some n) d _ Hz Hoo Hd).
Qed.

Lemma ecp_all_blocks_parse : forall ecps d, Forall ecp_el_ok ecps -> NoDup (map fst ecps) ->
  (forall z, In z (map fst ecps) -> ~ In z (map fst d)) ->
  nw_parse_ecp_blocks (ecp_blocks ecps) d = inr (d ++ map read_el ecps).
Proof.
  induction ecps as [|e ecps IH]; intros d Hel Hnd Hdis.
  - cbn. now rewrite app_nil_r.
  - inversion Hel as [|? ? H1 H2]; subst. cbn [map] in Hnd. inversion Hnd as [|? ? Hnotin Hnd']; subst.
    unfold ecp_blocks. cbn [flat_map]. fold (ecp_blocks ecps). rewrite ecp_blocks_app.
    rewrite (ecp_element_blocks e d H1); [|apply Hdis; now left]. unfold bind.
    rewrite IH; [| exact H2 | exact Hnd' |].
    + cbn [map]. rewrite <- app_assoc. reflexivity.
    + intros z Hz. rewrite map_app, in_app_iff. unfold read_el at 1. cbn [map fst In]. intros [Hin|[Heq|[]]].
      * apply (Hdis z); [now right | exact Hin].
      * subst z. apply Hnotin, Hz.
Qed.

(* ---- the fix-up ---- *)
Lemma rest_ams : forall mx rest, Forall single_am rest -> Forall (fun p => (pot_l p < mx)%Z) rest ->
  flat_map p_am (map (read_pot mx) rest) = map pot_l rest /\
  forall m, map (fun p => match p_am p with [] => set_am p m | _ => p end) (map (read_pot mx) rest) = map (read_pot mx) rest.
Proof.
  intros mx; induction rest as [|p rest IH]; intros Hs Hlt; [split; reflexivity|].
  inversion Hs as [|? ? Hp Hs']; subst. inversion Hlt as [|? ? Hl Hlt']; subst. destruct (IH Hs' Hlt') as [I1 I2].
  assert (E : Z.eqb (pot_l p) mx = false) by (apply Z.eqb_neq; lia).
  split.
  - cbn [map flat_map]. rewrite I1. unfold read_pot at 1. cbn [p_am]. rewrite E, Hp. reflexivity.
  - intros m. cbn [map]. rewrite I2. unfold read_pot at 1 2. cbn [p_am]. rewrite E, Hp. reflexivity.
Qed.

Lemma read_pot_expected : forall mx p, ecp_pot_ok p -> Z.eqb (pot_l p) mx = false -> read_pot mx p = ecp_expected_pot p.
Proof.
  intros mx p Hp E. destruct (pot_facts p Hp) as [_ [Ec _]]. unfold read_pot, ecp_expected_pot. rewrite E, Ec. reflexivity.
Qed.

Lemma fix_element : forall e, ecp_el_ok e -> ecp_fix_element (read_el e) =
  (fst e, (Some (fst (snd e)), map ecp_expected_pot (ecp_written_order (snd (snd e))))).
Proof.
  intros [z [n pots]] [Hz [Hn [Hne [Hok [Hnd Htop]]]]].
  destruct (order_facts pots Hne Hok Hnd) as [top [rest [Eo [Perm [Emx [_ Hlt]]]]]].
  unfold read_el, el_mx, ecp_written_order. cbn [fst snd]. rewrite Eo. remember (zmax (map pot_l pots)) as mx eqn:Hmx.
  pose proof (Permutation_Forall Perm Hok) as Hok'. destruct (proj1 (Forall_cons_iff _ _ _) Hok') as [Htopok Hrestok].
  assert (Hsr : Forall single_am rest).
  { rewrite Forall_forall in *. intros p Hp. apply pot_ok_single, Hrestok, Hp. }
  assert (Hlt' : Forall (fun p => (pot_l p < mx)%Z) rest).
  { rewrite Forall_forall in *. intros p Hp. specialize (Hlt p Hp). unfold lt_l in Hlt. lia. }
  destruct (rest_ams mx rest Hsr Hlt') as [R1 R2].
  destruct (pot_ok_single top Htopok) as [Stop _]. destruct (pot_facts top Htopok) as [_ [Ectop _]].
  assert (Etop : read_pot mx top = mkEpot "scalar_ecp" [] (p_rexp top) (map (norm false) (p_gexp top)) [map (norm false) (pcoef top)]).
  { unfold read_pot. rewrite Emx, Z.eqb_refl. reflexivity. }
  (* the momenta: mx first, then those of rest *)
  assert (Pl : Permutation (map pot_l pots) (mx :: map pot_l rest)).
  { rewrite <- Emx. exact (Permutation_map pot_l Perm). }
  assert (Hval : (match flat_map p_am (map (read_pot mx) (top :: rest)) with [] => (-1)%Z | _ => zmax (flat_map p_am (map (read_pot mx) (top :: rest))) end + 1)%Z = mx).
  { cbn [map flat_map]. rewrite Etop. cbn [p_am app]. rewrite R1.
    destruct rest as [|q rest'].
    - cbn [map]. destruct Htop as [E0|Hin].
      + rewrite E0 in Pl. apply Permutation_length_1_inv in Pl. cbn [map] in Pl. injection Pl as Pl. lia.
      + rewrite <- Hmx in Hin. apply (Permutation_in _ Pl) in Hin. cbn [map In] in Hin. destruct Hin as [Hin|[]]. lia.
    - assert (Hne' : map pot_l (q :: rest') <> []) by discriminate.
      destruct (zmax_facts _ Hne') as [Zin Zge].
      assert (Hin : In (mx - 1)%Z (map pot_l (q :: rest'))).
      { destruct Htop as [E0|Hin].
        - apply Permutation_length in Pl. rewrite E0 in Pl. cbn [List.length map] in Pl. lia.
        - rewrite <- Hmx in Hin. apply (Permutation_in _ Pl) in Hin. destruct Hin as [Hin|Hin]; [lia | exact Hin]. }
      assert (Hup : (zmax (map pot_l (q :: rest')) < mx)%Z).
      { apply in_map_iff in Zin. destruct Zin as [p [<- Hp]]. rewrite Forall_forall in Hlt'. apply Hlt', Hp. }
      specialize (Zge _ Hin). cbn [map] in *. lia. }
  unfold ecp_fix_element. cbv zeta. rewrite Hval. cbn [map]. rewrite (R2 [mx]).
  f_equal. f_equal. f_equal.
  - rewrite Etop. cbn [p_am]. unfold set_am, ecp_expected_pot. cbn [p_type p_rexp p_gexp p_coef]. rewrite Stop, Emx, Ectop. reflexivity.
  - apply map_ext_in. intros p Hp. apply read_pot_expected; [rewrite Forall_forall in Hrestok; apply Hrestok, Hp|].
    apply Z.eqb_neq. rewrite Forall_forall in Hlt'. specialize (Hlt' p Hp). lia.
Qed.

Lemma fix_all : forall ecps, Forall ecp_el_ok ecps -> map ecp_fix_element (map read_el ecps) = nw_ecp_expected ecps.
Proof.
  intros ecps Hel. rewrite map_map. unfold nw_ecp_expected. apply map_ext_in. intros e He.
  rewrite Forall_forall in Hel. apply fix_element, Hel, He.
Qed.

Lemma expected_no_missing : forall ecps, existsb ecp_missing_nelec (nw_ecp_expected ecps) = false.
Proof.
  intros ecps. apply existsb_false. intros e He. unfold nw_ecp_expected in He. apply in_map_iff in He.
  destruct He as [x [<- _]]. reflexivity.
Qed.

(* _parse_ecp_lines on the pruned section *)
Lemma read_ecp_section : forall ecps, nw_ecp_ok ecps ->
  nw_read_ecp_section ("ECP" :: concat (ecp_blocks ecps)) [] = inr (nw_ecp_expected ecps).
Proof.
  intros ecps [_ [Hnd Hel]]. pose proof (ecp_body_not_end ecps Hel) as Hbody.
  unfold nw_read_ecp_section. rewrite filter_id.
  2:{ constructor; [reflexivity|]. rewrite Forall_forall in *. intros l Hl. now rewrite (Hbody l Hl). }
  cbn [tl]. rewrite (partition_ecp_blocks _ (ecp_blocks_shape ecps Hel)). unfold bind.
  rewrite (ecp_all_blocks_parse ecps [] Hel Hnd) by (intros z _ []). cbn [app].
  rewrite (fix_all ecps Hel), expected_no_missing. reflexivity.
Qed.

(* ================================================================== *)
(* 8. the round trips                                                  *)
(* ================================================================== *)
Lemma add_keys_nil : forall ks, add_keys [] ks = ks.
Proof. intros ks. unfold add_keys. cbn [app existsb negb]. apply filter_id. rewrite Forall_forall. reflexivity. Qed.

Lemma expected_keys : forall ecps, map fst (nw_ecp_expected ecps) = map fst ecps.
Proof. intros ecps. unfold nw_ecp_expected. rewrite map_map. reflexivity. Qed.
Lemma nw_expected_keys : forall els harm, map fst (nw_expected els harm) = map fst els.
Proof. intros els harm. unfold nw_expected. rewrite map_map. reflexivity. Qed.

(* ---- the ECP section alone ---- *)
Lemma read_ecp_parts : forall ecps, nw_ecp_ok ecps ->
  nw_read_all_parts (ecp_all_lines ecps) = inr (map fst ecps, [], nw_ecp_expected ecps).
Proof.
  intros ecps H. pose proof H as [_ [_ Hel]].
  unfold nw_read_all_parts. fold (prune1 (ecp_all_lines ecps)). rewrite (pruned_ecp_lines ecps H).
  change ("ECP" :: concat (ecp_blocks ecps) ++ ["END"]) with (("ECP" :: concat (ecp_blocks ecps)) ++ ["END"]).
  rewrite partition_end; [|discriminate | constructor; [reflexivity | apply ecp_body_not_end, Hel]]. unfold bind.
  cbn [nw_sections_all]. change (str_prefix "basis" (lower "ECP")) with false. change (str_prefix "ecp" (lower "ECP")) with true.
  cbv iota. rewrite (read_ecp_section ecps H). unfold bind, ok. rewrite add_keys_nil, expected_keys. reflexivity.
Qed.

Lemma nw_ecp_roundtrip_exact : nw_ecp_roundtrip_stmt.
Proof.
  intros ecps H. unfold nw_roundtrip_ecp. rewrite (write_ecp_lines ecps H). unfold bind.
  rewrite (splitlines_unlines _ (ecp_all_lines_good ecps H)). unfold nw_read_ecp. rewrite (read_ecp_parts ecps H). reflexivity.
Qed.

(* ---- the electron section, as a section ---- *)
Lemma parse_electron_section : forall harm els, nw_ok harm els ->
  nw_parse_electron_lines (header harm :: concat (all_blocks els)) [] = inr (nw_expected els harm).
Proof.
  intros harm els H. pose proof (nw_ok_els harm els H) as Hel. pose proof (all_blocks_shape els Hel) as Hsh.
  destruct H as [Hh [_ [Hnd _]]]. destruct (header_facts harm Hh) as [Hend [Hbasis Htype]].
  assert (Hbody : Forall (fun l => is_end_line l = false) (concat (all_blocks els))).
  { apply concat_Forall. rewrite Forall_forall in *. intros b Hb. destruct (Hsh b Hb) as [_ [_ Hb3]]. exact Hb3. }
  unfold nw_parse_electron_lines. rewrite filter_id.
  2:{ constructor; [now rewrite Hend|]. rewrite Forall_forall in *. intros l Hl. now rewrite (Hbody l Hl). }
  rewrite Hbasis. cbn [negb]. rewrite Htype, (partition_shells _ Hsh). unfold bind.
  rewrite (all_blocks_parse harm els [] Hel Hnd); [reflexivity|]. intros z _ [].
Qed.

Lemma electron_body_not_end : forall harm els, nw_ok harm els ->
  Forall (fun l => is_end_line l = false) (header harm :: concat (all_blocks els)).
Proof.
  intros harm els H. pose proof (nw_ok_els harm els H) as Hel. pose proof (all_blocks_shape els Hel) as Hsh.
  destruct H as [Hh _]. destruct (header_facts harm Hh) as [Hend _]. constructor; [exact Hend|].
  apply concat_Forall. rewrite Forall_forall in *. intros b Hb. destruct (Hsh b Hb) as [_ [_ Hb3]]. exact Hb3.
Qed.

(* the partition at the two 'end' lines *)
Lemma partition_end2 : forall X Y, X <> [] -> Y <> [] ->
  Forall (fun l => is_end_line l = false) X -> Forall (fun l => is_end_line l = false) Y ->
  partition_lines ((X ++ ["END"]) ++ (Y ++ ["END"])) (fun x => ok (is_end_line x)) false 1 1 2 = inr [X; Y].
Proof.
  intros X Y HX HY FX FY. unfold partition_lines.
  assert (SX : Forall (fun l => (fun x => ok (is_end_line x)) l = inr false) X).
  { rewrite Forall_forall in *. intros l Hl. unfold ok. now rewrite (FX l Hl). }
  assert (SY : Forall (fun l => (fun x => ok (is_end_line x)) l = inr false) Y).
  { rewrite Forall_forall in *. intros l Hl. unfold ok. now rewrite (FY l Hl). }
  rewrite <- app_assoc. rewrite (part_skip _ false X _ [] [] SX). cbn [app].
  rewrite part_go_match by reflexivity.
  rewrite (part_skip _ false Y ["END"] [] _ SY). cbn [app].
  rewrite part_go_match by reflexivity. rewrite part_go_nil.
  destruct X as [|x X']; [congruence|]. destruct Y as [|y Y']; [congruence|]. reflexivity.
Qed.

(* ---- the whole file ---- *)
Definition el_part (harm : string) (els : list (Z * list sshell)) : list string :=
  match els with [] => [] | _ => all_lines harm els end.
Definition ecp_part (ecps : list (Z * (Z * list epot))) : list string :=
  match ecps with [] => [] | _ => ecp_all_lines ecps end.

Lemma write_all_lines : forall harm els ecps, nw_all_ok harm els ecps ->
  nw_write_all harm els ecps = inr (unlines (el_part harm els ++ ecp_part ecps)).
Proof.
  intros harm els ecps [He [Hp _]]. unfold nw_write_all.
  assert (E1 : nw_write_electron harm els = inr (unlines (el_part harm els))).
  { destruct He as [->|He]; [reflexivity|]. rewrite (write_electron_lines harm els He).
    destruct He as [_ [Hne _]]. destruct els; [congruence | reflexivity]. }
  assert (E2 : nw_write_ecp ecps = inr (unlines (ecp_part ecps))).
  { destruct Hp as [->|Hp]; [reflexivity|]. rewrite (write_ecp_lines ecps Hp).
    destruct Hp as [Hne _]. destruct ecps; [congruence | reflexivity]. }
  rewrite E1, E2. unfold bind, ok. rewrite unlines_app. reflexivity.
Qed.

Lemma all_parts_good : forall harm els ecps, nw_all_ok harm els ecps -> Forall good_line (el_part harm els ++ ecp_part ecps).
Proof.
  intros harm els ecps [He [Hp _]]. apply Forall_app. split.
  - destruct He as [->|He]; [constructor|]. pose proof (all_lines_good harm els He) as G. destruct els; [constructor | exact G].
  - destruct Hp as [->|Hp]; [constructor|]. pose proof (ecp_all_lines_good ecps Hp) as G. destruct ecps; [constructor | exact G].
Qed.

Lemma nw_all_write_total : nw_all_write_total_stmt.
Proof. intros harm els ecps H. eexists. apply write_all_lines, H. Qed.

Definition all_order (els : list (Z * list sshell)) (ecps : list (Z * (Z * list epot))) : list Z :=
  map fst els ++ filter (fun z => negb (existsb (Z.eqb z) (map fst els))) (map fst ecps).

Lemma read_all_parts_lines : forall harm els ecps, nw_all_ok harm els ecps ->
  nw_read_all_parts (el_part harm els ++ ecp_part ecps) = inr (all_order els ecps, nw_expected els harm, nw_ecp_expected ecps).
Proof.
  intros harm els ecps [He [Hp Hsome]].
  destruct els as [|e0 els0].
  - (* no electron section *)
    destruct Hp as [->|Hp]; [destruct Hsome; congruence|]. cbn [el_part app].
    assert (E : ecp_part ecps = ecp_all_lines ecps) by (destruct Hp as [Hne _]; destruct ecps; [congruence | reflexivity]).
    rewrite E, (read_ecp_parts ecps Hp). unfold all_order. cbn [map app existsb negb].
    rewrite (filter_id _ (fun _ => true)) by (rewrite Forall_forall; reflexivity). reflexivity.
  - destruct He as [He|He]; [discriminate|]. remember (e0 :: els0) as els eqn:Eels.
    assert (E1 : el_part harm els = all_lines harm els) by (rewrite Eels; reflexivity). rewrite E1.
    pose proof (pruned_lines harm els He) as Hpe. pose proof (electron_body_not_end harm els He) as Hbe.
    destruct He as [Hh Hrest]. pose proof (conj Hh Hrest) as He. destruct (header_facts harm Hh) as [_ [Hbasis _]].
    destruct ecps as [|p0 ecps0].
    + (* no ECP section *)
      cbn [ecp_part]. rewrite app_nil_r. unfold nw_read_all_parts. fold (prune1 (all_lines harm els)). rewrite Hpe.
      change (header harm :: concat (all_blocks els) ++ ["END"]) with ((header harm :: concat (all_blocks els)) ++ ["END"]).
      rewrite partition_end; [|discriminate | exact Hbe]. unfold bind. cbn [nw_sections_all]. rewrite Hbasis.
      rewrite (parse_electron_section harm els He). unfold bind, ok. rewrite add_keys_nil, nw_expected_keys.
      unfold all_order. cbn [map filter]. rewrite app_nil_r. reflexivity.
    + destruct Hp as [Hp|Hp]; [discriminate|]. remember (p0 :: ecps0) as ecps eqn:Eecps.
      assert (E2 : ecp_part ecps = ecp_all_lines ecps) by (rewrite Eecps; reflexivity). rewrite E2.
      pose proof Hp as [_ [_ Hpel]].
      unfold nw_read_all_parts. fold (prune1 (all_lines harm els ++ ecp_all_lines ecps)).
      rewrite prune1_app, Hpe, (pruned_ecp_lines ecps Hp).
      change (header harm :: concat (all_blocks els) ++ ["END"]) with ((header harm :: concat (all_blocks els)) ++ ["END"]).
      change ("ECP" :: concat (ecp_blocks ecps) ++ ["END"]) with (("ECP" :: concat (ecp_blocks ecps)) ++ ["END"]).
      rewrite partition_end2; [|discriminate | discriminate | exact Hbe | constructor; [reflexivity | apply ecp_body_not_end, Hpel]].
      unfold bind. cbn [nw_sections_all]. rewrite Hbasis. rewrite (parse_electron_section harm els He). unfold bind.
      change (str_prefix "basis" (lower "ECP")) with false. change (str_prefix "ecp" (lower "ECP")) with true. cbv iota.
      rewrite (read_ecp_section ecps Hp). unfold bind, ok. rewrite add_keys_nil, nw_expected_keys, expected_keys. reflexivity.
Qed.

Lemma nw_all_roundtrip_parts : nw_all_roundtrip_parts_stmt.
Proof.
  intros harm els ecps t H E. rewrite (write_all_lines harm els ecps H) in E. inversion E; subst.
  rewrite (splitlines_unlines _ (all_parts_good harm els ecps H)). apply read_all_parts_lines, H.
Qed.

Lemma nw_all_roundtrip_exact : nw_all_roundtrip_stmt.
Proof.
  intros harm els ecps H. unfold nw_roundtrip_all. rewrite (write_all_lines harm els ecps H). unfold bind.
  rewrite (splitlines_unlines _ (all_parts_good harm els ecps H)). unfold nw_read_all.
  rewrite (read_all_parts_lines harm els ecps H). reflexivity.
Qed.

(* ================================================================== *)
(* 9. the hypotheses that cannot be dropped, and a concrete instance    *)
(* ================================================================== *)
Lemma gap_pots_l : forall ls, map pot_l (map gap_pot ls) = ls.
Proof. intros ls. rewrite map_map. rewrite (map_ext _ (fun l => l)) by reflexivity. apply map_id. Qed.

Lemma gap_pot_ok : forall l, ecp_pot_ok (gap_pot l) <-> (0 <= l < 25)%Z.
Proof.
  intros l. split.
  - intros [[l' [E R]] _]. cbn in E. injection E as ->. exact R.
  - intros R. split; [exists l; split; [reflexivity | exact R]|]. split; [discriminate|]. split; [reflexivity|].
    split; [exists ["1.0"]; split; reflexivity|]. split; repeat constructor.
Qed.

Lemma gap_ok_iff : forall ls,
  nw_ecp_ok (gap_ecp ls) <-> (ls <> [] /\ Forall (fun l => 0 <= l < 25)%Z ls /\ NoDup ls /\ ecp_top_ok ls).
Proof.
  intros ls. unfold gap_ecp. split.
  - intros [_ [_ Hel]]. inversion Hel as [|? ? H1 _]; subst. destruct H1 as [_ [_ [Hne [Hok [Hnd Htop]]]]].
    rewrite gap_pots_l in Hnd, Htop. split; [intros ->; apply Hne; reflexivity|]. split; [|split; assumption].
    rewrite Forall_forall in *. intros l Hl. apply gap_pot_ok, Hok, in_map, Hl.
  - intros [Hne [Hr [Hnd Htop]]]. split; [discriminate|]. split; [repeat constructor; intros []|].
    constructor; [|constructor]. unfold ecp_el_ok. rewrite gap_pots_l. split; [lia|]. split; [lia|].
    split; [destruct ls; [congruence | discriminate]|]. split; [|split; assumption].
    rewrite Forall_forall in *. intros p Hp. apply in_map_iff in Hp. destruct Hp as [l [<- Hl]]. apply gap_pot_ok, Hr, Hl.
Qed.

Lemma nw_ecp_gap_counterexample : nw_ecp_gap_counterexample_stmt.
Proof.
  split; [vm_compute; reflexivity|]. split; [vm_compute; reflexivity|]. split; [|exact gap_ok_iff].
  intros [E|H]; [discriminate E|]. vm_compute in H. destruct H as [H|[H|[H|[]]]]; discriminate H.
Qed.

Lemma nw_ecp_gap_below : nw_ecp_gap_below_stmt.
Proof.
  split; [|vm_compute; reflexivity]. apply gap_ok_iff. split; [discriminate|]. split; [repeat constructor; lia|]. split.
  - repeat constructor; cbn [In]; intros H; repeat (destruct H as [H|H]; [discriminate H|]); exact H.
  - right. vm_compute. right. left. reflexivity.
Qed.

Lemma nw_ecp_single : nw_ecp_single_stmt.
Proof.
  split; [|split; [vm_compute; reflexivity | split; [vm_compute; reflexivity|]]].
  - apply gap_ok_iff. split; [discriminate|]. split; [repeat constructor; lia|]. split; [repeat constructor; intros []|]. now left.
  - intros [E|H]; [discriminate E|]. vm_compute in H. destruct H as [H|[]]. discriminate H.
Qed.

Lemma nw_ecp_dup : nw_ecp_dup_stmt.
Proof. vm_compute. reflexivity. Qed.
Lemma nw_ecp_nopot : nw_ecp_nopot_stmt.
Proof. vm_compute. reflexivity. Qed.
Lemma nw_ecp_noterm : nw_ecp_noterm_stmt.
Proof. vm_compute. reflexivity. Qed.
Lemma nw_ecp_negelec : nw_ecp_negelec_stmt.
Proof. vm_compute. reflexivity. Qed.
Lemma nw_ecp_twocols : nw_ecp_twocols_stmt.
Proof. vm_compute. reflexivity. Qed.

Ltac pot_ok_tac :=
  split; [eexists; split; [reflexivity | lia]|]; split; [discriminate|]; split; [reflexivity|];
  split; [eexists; split; reflexivity|]; split; repeat constructor.

Example nw_ecp_example : nw_ecp_example_stmt.
Proof.
  split; [|split; [|split]]; try (vm_compute; reflexivity).
  split; [|split; [|left; discriminate]].
  - right. unfold nw_ok, exe_els. split; [now left|]. split; [discriminate|]. split.
    + cbn [map fst]. repeat constructor; cbn [In]; intros H; repeat (destruct H as [H|H]; [discriminate H|]); exact H.
    + repeat constructor; cbn; try lia; try discriminate; try reflexivity.
  - right. unfold nw_ecp_ok, exe_ecps. split; [discriminate|]. split; [repeat constructor; intros []|].
    constructor; [|constructor]. unfold ecp_el_ok. split; [lia|]. split; [lia|]. split; [discriminate|]. split; [|split].
    + constructor; [pot_ok_tac|]. constructor; [pot_ok_tac|]. constructor; [pot_ok_tac|]. constructor.
    + cbn. repeat constructor; cbn [In]; intros H; repeat (destruct H as [H|H]; [discriminate H|]); exact H.
    + right. vm_compute. right. right. left. reflexivity.
Qed.

Print Assumptions nw_ecp_order.
Print Assumptions nw_ecp_contiguous.
Print Assumptions nw_ecp_write_total.
Print Assumptions nw_ecp_roundtrip_exact.
Print Assumptions nw_all_write_total.
Print Assumptions nw_all_roundtrip_parts.
Print Assumptions nw_all_roundtrip_exact.
Print Assumptions nw_ecp_no_number_lost.
Print Assumptions nw_ecp_gap_counterexample.
Print Assumptions nw_ecp_gap_below.
Print Assumptions nw_ecp_single.
Print Assumptions nw_ecp_dup.
Print Assumptions nw_ecp_nopot.
Print Assumptions nw_ecp_noterm.
Print Assumptions nw_ecp_negelec.
Print Assumptions nw_ecp_twocols.
Print Assumptions nw_ecp_example.
