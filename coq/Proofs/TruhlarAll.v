(* "for H and He [the most diffuse primitive] of every momentum": with nremove = 'all' every shell of non-negative
   angular momentum loses exactly its most diffuse primitive (the first entry of the sorted exponent list). *)
From Coq Require Import Lia ZArith.
From BSE Require Import Model.Val Model.Num Model.Basis Model.Manip Model.Augment Proofs.AugmentDefs.
From BSE Require Proofs.AugmentSpec.

Lemma fold_max_ge (f : sshell -> Z) : forall shs m0,
  (m0 <= fold_left (fun m s => Z.max m (f s)) shs m0)%Z /\
  forall s, In s shs -> (f s <= fold_left (fun m s => Z.max m (f s)) shs m0)%Z.
Proof.
  induction shs as [|x t IH]; intros m0; cbn [fold_left].
  - split; [lia | intros s []].
  - destruct (IH (Z.max m0 (f x))) as [H1 H2]. split; [lia|].
    intros s [<-|Hs]; [lia | apply H2; exact Hs].
Qed.

Lemma max_am_upper shs mx : max_am_shells shs = inr mx -> forall s, In s shs -> (zmax (am s) <= mx)%Z.
Proof.
  unfold max_am_shells. destruct shs as [|s0 t]; [discriminate|]. destruct (am s0) eqn:E0; [discriminate|].
  intros H. injection H as <-. intros s Hs. rewrite <- E0.
  exact (proj2 (fold_max_ge (fun s => zmax (am s)) (s0 :: t) (zmax (am s0))) s Hs).
Qed.

Definition remove_all_stmt : Prop :=
  forall shs out, element_remove_diffuse shs None = inr out ->
    Forall2 (fun s o => exists l, am s = [l] /\
               ((0 <= l)%Z -> exists se v i rest, sorted_exponents (exps s) = inr se /\ se = (v, i) :: rest /\
                                                  o = remove_primitive s i) /\
               ((l < 0)%Z -> o = s)) shs out.

Lemma Forall2_In_l {A B} (P : A -> Prop) (R Q : A -> B -> Prop) l l' :
  (forall a, In a l -> P a) -> (forall a b, P a -> R a b -> Q a b) -> Forall2 R l l' -> Forall2 Q l l'.
Proof.
  intros HP HQ H. induction H as [|a b l l' Hab _ IH]; constructor.
  - apply HQ; [apply HP; left; reflexivity | exact Hab].
  - apply IH. intros x Hx. apply HP. right. exact Hx.
Qed.

Lemma remove_all : remove_all_stmt.
Proof.
  intros shs out H.
  destruct (max_am_shells shs) as [e|mx] eqn:Emx.
  { unfold element_remove_diffuse in H. rewrite Emx in H. discriminate H. }
  pose proof (AugmentSpec.element_remove_diffuse_spec shs None out mx H Emx) as F. cbv zeta in F.
  refine (Forall2_In_l (fun s => (zmax (am s) <= mx)%Z) _ _ shs out (max_am_upper shs mx Emx) _ F).
  intros s o Hmax [l [Hl R]]. exists l. split; [exact Hl|].
  rewrite Hl in Hmax. unfold zmax in Hmax. cbn [hd fold_left] in Hmax.
  assert (Hle : (l <= mx)%Z) by lia.
  split; intros Hl0.
  - assert (C : ((l <=? mx)%Z && ((mx - (mx + 1) <? l)%Z && (0 <=? l)%Z)) = true).
    { apply Bool.andb_true_iff. split; [apply Z.leb_le; exact Hle|]. apply Bool.andb_true_iff.
      split; [apply Z.ltb_lt; lia | apply Z.leb_le; exact Hl0]. }
    rewrite C in R. exact R.
  - assert (C : ((l <=? mx)%Z && ((mx - (mx + 1) <? l)%Z && (0 <=? l)%Z)) = false).
    { apply Bool.andb_false_iff. right. apply Bool.andb_false_iff. right. apply Z.leb_gt. exact Hl0. }
    rewrite C in R. exact R.
Qed.
