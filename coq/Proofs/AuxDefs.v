(* Statements for C13 (the logic of AutoAux / AutoABS over exact fractions). Definitions only. *)
From Coq Require Import Sorting.Permutation.
From BSE Require Import Model.Val Gen.GenConsts Model.Aux.

Definition fpos (a : frac) : Prop := (0 < fst a)%Z /\ (0 < snd a)%Z.
Definition fle (a b : frac) : Prop := (fst a * snd b <= fst b * snd a)%Z.
Definition flt_ (a b : frac) : Prop := (fst a * snd b < fst b * snd a)%Z.
Definition feq_ (a b : frac) : Prop := (fst a * snd b = fst b * snd a)%Z.
Fixpoint fpow (r : frac) (n : nat) : frac := match n with O => (1, 1)%Z | S k => fmul r (fpow r k) end.

(* a ladder is the geometric progression start * ratio^i, stops at the first term that reaches the bound, and every earlier
   term is below the bound *)
Definition ladder_spec_stmt : Prop :=
  forall fuel start bound ratio l, fpos start -> fpos bound -> fpos ratio -> ladder fuel start bound ratio = Some l ->
    l <> [] /\
    (forall i x, nth_error l i = Some x -> feq_ x (fmul start (fpow ratio i))) /\
    (forall x, last l start = x -> fle bound x) /\
    (forall i x, nth_error l i = Some x -> S i < List.length l -> flt_ x bound).
(* with a ratio above one the ladder terminates: some amount of fuel suffices (so the fuel-exhausted branch of
   autoaux_element is unreachable for positive inputs) *)
Definition ladder_terminates_stmt : Prop :=
  forall start bound ratio, fpos start -> fpos bound -> fpos ratio -> flt_ (1, 1)%Z ratio ->
    exists fuel l, ladder fuel start bound ratio = Some l.
Definition ladder_fuel_monotone_stmt : Prop :=
  forall fuel start bound ratio l, ladder fuel start bound ratio = Some l -> ladder (S fuel) start bound ratio = Some l.

(* the published thresholds, for every element 1..118 (finite) *)
Definition autoaux_lval_spec (z : Z) : Z := if (z <=? 2)%Z then 0 else if (z <=? 20)%Z then 1 else if (z <=? 56)%Z then 2 else 3.
Definition autoaux_linc_spec (z : Z) : Z := if (z <=? 18)%Z then 1 else 2.
Definition autoabs_lval_spec (z : Z) : Z := if (z <=? 2)%Z then 0 else if (z <=? 18)%Z then 1 else if (z <=? 54)%Z then 2 else 3.
Definition thresholds_stmt : Prop :=
  forall z, (1 <= z <= 118)%Z ->
    by_thresholds autoaux_lval_init autoaux_lval_steps z = autoaux_lval_spec z /\
    by_thresholds autoaux_linc_init autoaux_linc_steps z = autoaux_linc_spec z /\
    by_thresholds autoabs_lval_init autoabs_lval_steps z = autoabs_lval_spec z.
(* the published ratios and prefactors *)
Definition tables_stmt : Prop :=
  autoaux_b_small = (9, 5)%Z /\
  autoaux_blaux_big = [(9, 5); (2, 1); (11, 5); (11, 5); (11, 5); (23, 10); (3, 1); (3, 1)]%Z /\
  autoaux_flaux = [(20, 1); (7, 1); (4, 1); (4, 1); (7, 2); (5, 2); (2, 1); (2, 1)]%Z /\
  autoabs_fsam_default = (3, 2)%Z /\ autoabs_lmaxinc_default = 1%Z.

(* AutoAux per element: one ladder per auxiliary momentum 0..lmax_aux with lmax_aux = min(max(2 lval, lmax + linc), 2 lmax) *)
Definition autoaux_caps_stmt : Prop :=
  forall fuel z lmax amin aprim aeff out, autoaux_element fuel z lmax amin aprim aeff = inr out ->
    let lval := Z.to_nat (by_thresholds autoaux_lval_init autoaux_lval_steps z) in
    let linc := Z.to_nat (by_thresholds autoaux_linc_init autoaux_linc_steps z) in
    map fst out = seq 0 (S (Nat.min (Nat.max (2 * lval) (lmax + linc)) (2 * lmax))).

(* AutoABS grouping: every candidate ends up in exactly one group, nothing is invented *)
Definition abs_groups_partition_stmt : Prop :=
  forall fsam lmax_aux cands m, Permutation (concat (map fst (abs_groups (S (List.length cands)) fsam lmax_aux cands m))) cands.
Definition abs_groups_cap_stmt : Prop :=
  forall fuel fsam lmax_aux cands m g, In g (abs_groups fuel fsam lmax_aux cands m) -> snd g <= lmax_aux.
