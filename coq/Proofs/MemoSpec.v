(* C06: _make_key agrees with Python's own argument binding; the memoisation cache is invisible, sequentially and
   under every interleaving of the atomic steps of any number of threads. *)
From BSE Require Import Model.Val Gen.GenMemo Model.Memo Proofs.MemoDefs.

(* ---------- list helpers ---------- *)
Lemma drop_skipn : forall A (n : nat) (l : list A), drop n l = skipn n l.
Proof.
  intros A n. induction n as [| n IH]; intros [| x l]; cbn [drop skipn]; auto.
Qed.

Lemma take_firstn : forall A (n : nat) (l : list A), take n l = firstn n l.
Proof.
  intros A n. induction n as [| n IH]; intros [| x l]; cbn [take firstn]; auto.
  rewrite IH. reflexivity.
Qed.

Lemma mem_str_In : forall x l, mem_str x l = true <-> In x l.
Proof.
  intros x l. unfold mem_str. rewrite existsb_exists. split.
  - intros [y [Hy He]]. apply String.eqb_eq in He. subst y. exact Hy.
  - intros H. exists x. split; [exact H | apply String.eqb_refl].
Qed.

Lemma mem_str_false : forall x l, mem_str x l = false <-> ~ In x l.
Proof.
  intros x l. rewrite <- mem_str_In. destruct (mem_str x l); split; intros H; try discriminate; auto.
  exfalso. apply H. reflexivity.
Qed.

Lemma nodup_strs_NoDup : forall l, nodup_strs l = true <-> NoDup l.
Proof.
  induction l as [| x t IH]; cbn [nodup_strs].
  - split; [constructor | reflexivity].
  - rewrite andb_true_iff, negb_true_iff, mem_str_false, IH. split.
    + intros [H1 H2]. constructor; assumption.
    + intros H. inversion H; subst. split; assumption.
Qed.

Lemma assoc_In_fst : forall (V : Type) x (kw : list (string * V)), assoc x kw <> None <-> In x (map fst kw).
Proof.
  intros V x kw. induction kw as [| [k v] t IH]; cbn [assoc map fst In].
  - split; [intros H; apply H; reflexivity | intros []].
  - destruct (String.eqb x k) eqn:E.
    + apply String.eqb_eq in E. subst k. split; [intros _; left; reflexivity | intros _; discriminate].
    + apply String.eqb_neq in E. rewrite IH. split.
      * intros H. right. exact H.
      * intros [H | H]; [congruence | exact H].
Qed.

Lemma skipn_repeat : forall A (x : A) n k, skipn n (repeat x k) = repeat x (k - n).
Proof.
  intros A x n. induction n as [| n IH]; intros k.
  - rewrite Nat.sub_0_r. reflexivity.
  - destruct k as [| k]; cbn [repeat skipn Nat.sub]; [reflexivity | apply IH].
Qed.

Lemma skipn_nth_cons : forall A (l : list A) n d, nth_error l n = Some d -> skipn n l = d :: skipn (S n) l.
Proof.
  intros A l. induction l as [| x l IH]; intros [| n] d H; cbn [nth_error] in H; try discriminate.
  - injection H as ->. reflexivity.
  - cbn [skipn]. rewrite (IH n d H). reflexivity.
Qed.

(* ---------- the two loops of _make_key ---------- *)
Definition cnt (dn l : list string) : nat := List.length (filter (fun x => mem_str x dn) l).

Lemma positional_spec : forall dn args names st, List.length args <= List.length names ->
  positional args names dn st = (args, st + cnt dn (firstn (List.length args) names)).
Proof.
  intros dn args. induction args as [| a args IH]; intros names st Hl.
  - cbn. rewrite Nat.add_0_r. destruct names; reflexivity.
  - destruct names as [| n names]; cbn [List.length] in Hl; [lia |].
    cbn [positional List.length firstn]. rewrite IH by lia. unfold cnt. cbn [filter].
    destruct (mem_str n dn); cbn [List.length]; f_equal; lia.
Qed.

Lemma cnt_none : forall dn l, (forall x, In x l -> ~ In x dn) -> cnt dn l = 0.
Proof.
  intros dn l. unfold cnt. induction l as [| x l IH]; intros H; cbn [filter]; [reflexivity |].
  destruct (mem_str x dn) eqn:E.
  - apply mem_str_In in E. exfalso. apply (H x); [left; reflexivity | exact E].
  - apply IH. intros y Hy. apply H. right. exact Hy.
Qed.

Lemma cnt_all : forall dn l, (forall x, In x l -> In x dn) -> cnt dn l = List.length l.
Proof.
  intros dn l. unfold cnt. induction l as [| x l IH]; intros H; cbn [filter]; [reflexivity |].
  destruct (mem_str x dn) eqn:E.
  - cbn [List.length]. f_equal. apply IH. intros y Hy. apply H. right. exact Hy.
  - apply mem_str_false in E. exfalso. apply E. apply H. left. reflexivity.
Qed.

Lemma cnt_app : forall dn l1 l2, cnt dn (l1 ++ l2) = cnt dn l1 + cnt dn l2.
Proof.
  intros dn l1 l2. unfold cnt. rewrite filter_app, app_length. reflexivity.
Qed.

(* no defaults: a missing keyword is a TypeError, exactly when the binding fails *)
Lemma leftovers_nodefaults : forall s kw dn left start, s_defaults s = [] ->
  leftovers s left kw dn start
  = match fill left kw (repeat None (List.length left)) with Some r => ok r | None => fail EType end.
Proof.
  intros s kw dn left. induction left as [| x t IH]; intros start Hd; cbn [leftovers fill repeat List.length].
  - reflexivity.
  - destruct (assoc x kw) as [v |] eqn:Ea.
    + cbn [bind ok]. rewrite IH by exact Hd. destruct (fill t kw (repeat None (List.length t))); reflexivity.
    + rewrite Hd. reflexivity.
Qed.

(* with defaults: required parameters (L1) are all named by keyword, the rest (L2) index the defaults from start *)
Lemma leftovers_defaults_tail : forall s kw dn L2 start,
  start + List.length L2 = List.length (s_defaults s) ->
  (forall x, In x L2 -> mem_str x dn = true) ->
  exists r, leftovers s L2 kw dn start = ok r /\ fill L2 kw (map Some (skipn start (s_defaults s))) = Some r.
Proof.
  intros s kw dn L2. induction L2 as [| x t IH]; intros start Hl Hin.
  - cbn [List.length] in Hl. exists []. split; [reflexivity |].
    rewrite skipn_all2 by lia. reflexivity.
  - cbn [List.length] in Hl.
    destruct (nth_error (s_defaults s) start) as [d |] eqn:En.
    2:{ apply nth_error_None in En. lia. }
    rewrite (@skipn_nth_cons _ _ _ _ En). cbn [map leftovers fill].
    rewrite (Hin x) by (left; reflexivity).
    destruct (IH (S start)) as [r [Hr1 Hr2]]; [lia | intros y Hy; apply Hin; right; exact Hy |].
    rewrite Hr1, Hr2.
    destruct (assoc x kw) as [v |].
    + exists (v :: r). split; reflexivity.
    + destruct (s_defaults s) as [| d0 ds0] eqn:Ed.
      * destruct start; discriminate.
      * rewrite En. exists (d :: r). split; reflexivity.
Qed.

Lemma leftovers_defaults : forall s kw dn L1 L2 start,
  (L1 <> [] -> start = 0) ->
  start + List.length L2 = List.length (s_defaults s) ->
  (forall x, In x L1 -> mem_str x dn = false /\ assoc x kw <> None) ->
  (forall x, In x L2 -> mem_str x dn = true) ->
  exists r, leftovers s (L1 ++ L2) kw dn start = ok r /\
            fill (L1 ++ L2) kw (repeat None (List.length L1) ++ map Some (skipn start (s_defaults s))) = Some r.
Proof.
  intros s kw dn L1. induction L1 as [| x t IH]; intros L2 start Hs Hl H1 H2.
  - cbn [app List.length repeat]. apply leftovers_defaults_tail; assumption.
  - assert (Hst : start = 0) by (apply Hs; discriminate).
    destruct (H1 x) as [Hx1 Hx2]; [left; reflexivity |].
    cbn [app List.length repeat leftovers fill]. rewrite Hx1.
    destruct (assoc x kw) as [v |]; [| congruence].
    destruct (IH L2 start) as [r [Hr1 Hr2]]; try assumption.
    + intros _. exact Hst.
    + intros y Hy. apply H1. right. exact Hy.
    + rewrite Hr1, Hr2. exists (v :: r). split; reflexivity.
Qed.

(* a successful binding names every required parameter *)
Lemma fill_required : forall kw L1 L2 ds r,
  fill (L1 ++ L2) kw (repeat None (List.length L1) ++ ds) = Some r -> forall x, In x L1 -> assoc x kw <> None.
Proof.
  intros kw L1. induction L1 as [| y t IH]; intros L2 ds r H x Hx; [destruct Hx |].
  cbn [app List.length repeat fill] in H.
  destruct (assoc y kw) as [v |] eqn:Ea; [| discriminate].
  destruct (fill (t ++ L2) kw (repeat None (List.length t) ++ ds)) as [r' |] eqn:Ef; [| discriminate].
  destruct Hx as [-> | Hx]; [congruence | exact (IH _ _ _ Ef x Hx)].
Qed.

(* ---------- splitting the parameter list at the first default-bearing parameter ---------- *)
Lemma NoDup_app_disj : forall (A : Type) (l1 l2 : list A) x, NoDup (l1 ++ l2) -> In x l1 -> In x l2 -> False.
Proof.
  intros A l1. induction l1 as [| y t IH]; intros l2 x H H1 H2; [destruct H1 |].
  cbn [app] in H. inversion H as [| ? ? Hn Hd]; subst.
  destruct H1 as [-> | H1].
  - apply Hn. apply in_or_app. right. exact H2.
  - exact (IH l2 x Hd H1 H2).
Qed.

Lemma skipn_In : forall A n (l : list A) x, In x (skipn n l) -> In x l.
Proof. intros A n l x H. rewrite <- (firstn_skipn n l). apply in_or_app. right. exact H. Qed.

Lemma firstn_In : forall A n (l : list A) x, In x (firstn n l) -> In x l.
Proof. intros A n l x H. rewrite <- (firstn_skipn n l). apply in_or_app. left. exact H. Qed.

Lemma core_split : forall (A B : list string) (ds : list val) n,
  NoDup (A ++ B) -> List.length B = List.length ds -> n <= List.length A + List.length B ->
  exists L1 L2,
    skipn n (A ++ B) = L1 ++ L2 /\
    skipn n (repeat (@None val) (List.length A) ++ map Some ds)
      = repeat None (List.length L1) ++ map Some (skipn (n - List.length A) ds) /\
    (L1 <> [] -> n - List.length A = 0) /\
    (n - List.length A) + List.length L2 = List.length ds /\
    (forall x, In x L1 -> ~ In x B) /\
    (forall x, In x L2 -> In x B) /\
    cnt B (firstn n (A ++ B)) = n - List.length A.
Proof.
  intros A B ds n Hnd HB Hn.
  exists (skipn n A), (skipn (n - List.length A) B).
  split; [apply skipn_app |].
  split. { rewrite skipn_app, skipn_repeat, repeat_length, skipn_map, skipn_length. reflexivity. }
  split. { intros H. destruct (Nat.le_gt_cases (List.length A) n) as [Hle | Hgt]; [| lia].
           exfalso. apply H. apply skipn_all2. exact Hle. }
  split. { rewrite skipn_length. lia. }
  split. { intros x Hx HxB. apply skipn_In in Hx. exact (@NoDup_app_disj _ _ _ _ Hnd Hx HxB). }
  split. { intros x Hx. exact (@skipn_In _ _ _ _ Hx). }
  rewrite firstn_app, cnt_app, cnt_none, cnt_all, firstn_length.
  - lia.
  - intros x Hx. exact (@firstn_In _ _ _ _ Hx).
  - intros x Hx HxB. apply firstn_In in Hx. exact (@NoDup_app_disj _ _ _ _ Hnd Hx HxB).
Qed.

Lemma symdiff_ok_iff : forall lft kwn dn, symdiff_ok lft kwn dn = true <->
  (forall x, In x lft -> In x kwn \/ In x dn) /\ (forall x, In x kwn -> In x lft \/ In x dn).
Proof.
  intros lft kwn dn. unfold symdiff_ok. rewrite andb_true_iff, !forallb_forall.
  split; intros [H1 H2]; split; intros x Hx.
  - specialize (H1 x Hx). apply orb_true_iff in H1. rewrite !mem_str_In in H1. exact H1.
  - specialize (H2 x Hx). apply orb_true_iff in H2. rewrite !mem_str_In in H2. exact H2.
  - apply orb_true_iff. rewrite !mem_str_In. exact (H1 x Hx).
  - apply orb_true_iff. rewrite !mem_str_In. exact (H2 x Hx).
Qed.

Lemma overbound_false_iff : forall s n kwn, overbound s n kwn = false <->
  n <= List.length (s_args s) /\ (forall x, In x (firstn n (s_args s)) -> ~ In x kwn).
Proof.
  intros s n kwn. unfold overbound. rewrite orb_false_iff, Nat.ltb_ge, take_firstn.
  split; intros [H1 H2]; split; try exact H1.
  - intros x Hx Hk.
    assert (E : existsb (fun y => mem_str y kwn) (firstn n (s_args s)) = true).
    { apply existsb_exists. exists x. split; [exact Hx | apply mem_str_In; exact Hk]. }
    congruence.
  - destruct (existsb (fun y => mem_str y kwn) (firstn n (s_args s))) eqn:E; [| reflexivity].
    apply existsb_exists in E. destruct E as [x [Hx Hk]]. apply mem_str_In in Hk.
    exfalso. exact (H2 x Hx Hk).
Qed.

Lemma defaults_names_nil : forall s, s_defaults s = [] -> defaults_names s = s_args s.
Proof. intros s H. unfold defaults_names. rewrite H. reflexivity. Qed.

Lemma defaults_names_cons : forall s, s_defaults s <> [] ->
  defaults_names s = skipn (List.length (s_args s) - List.length (s_defaults s)) (s_args s).
Proof.
  intros s H. unfold defaults_names. rewrite drop_skipn.
  destruct (s_defaults s) as [| d ds]; [congruence | reflexivity].
Qed.

(* the split instantiated at a signature with defaults *)
Lemma sig_split : forall s n, sig_ok s -> s_defaults s <> [] -> n <= List.length (s_args s) ->
  exists L1 L2,
    skipn n (s_args s) = L1 ++ L2 /\
    skipn n (param_defaults s)
      = repeat None (List.length L1)
        ++ map Some (skipn (n - (List.length (s_args s) - List.length (s_defaults s))) (s_defaults s)) /\
    (L1 <> [] -> n - (List.length (s_args s) - List.length (s_defaults s)) = 0) /\
    (n - (List.length (s_args s) - List.length (s_defaults s))) + List.length L2 = List.length (s_defaults s) /\
    (forall x, In x L1 -> ~ In x (defaults_names s)) /\
    (forall x, In x L2 -> In x (defaults_names s)) /\
    cnt (defaults_names s) (firstn n (s_args s)) = n - (List.length (s_args s) - List.length (s_defaults s)).
Proof.
  intros s n [Hnd Hlen] Hd Hn.
  rewrite (defaults_names_cons s Hd). unfold param_defaults.
  set (m := List.length (s_args s) - List.length (s_defaults s)).
  assert (HA : List.length (firstn m (s_args s)) = m) by (rewrite firstn_length; lia).
  assert (HB : List.length (skipn m (s_args s)) = List.length (s_defaults s)) by (rewrite skipn_length; lia).
  pose proof (core_split (firstn m (s_args s)) (skipn m (s_args s)) (s_defaults s) n) as H.
  rewrite HA in H. rewrite (firstn_skipn m (s_args s)) in H.
  apply H; [exact Hnd | exact HB | lia].
Qed.

Lemma skipn_param_defaults_nil : forall s n, s_defaults s = [] ->
  skipn n (param_defaults s) = repeat None (List.length (skipn n (s_args s))).
Proof.
  intros s n H. unfold param_defaults. rewrite H. cbn [map List.length]. rewrite app_nil_r, Nat.sub_0_r.
  rewrite skipn_repeat, skipn_length. reflexivity.
Qed.

(* ---------- _make_key against bind_call ---------- *)
Lemma bind_call_pre : forall s a kw vs, sig_ok s -> bind_call s a kw = Some vs ->
  symdiff_ok (drop (List.length a) (s_args s)) (map fst kw) (defaults_names s) = true /\
  overbound s (List.length a) (map fst kw) = false.
Proof.
  intros s a kw vs Hs Hb. pose proof Hs as [Hnd Hlen]. unfold bind_call in Hb. rewrite !drop_skipn in *.
  destruct (Nat.ltb (List.length (s_args s)) (List.length a)) eqn:Elt; [discriminate |].
  apply Nat.ltb_ge in Elt.
  destruct (forallb (fun k => mem_str k (skipn (List.length a) (s_args s))) (map fst kw)) eqn:Efa;
    [| discriminate].
  cbn [negb] in Hb.
  destruct (nodup_strs (map fst kw)); [| discriminate]. cbn [negb] in Hb.
  destruct (fill (skipn (List.length a) (s_args s)) kw (skipn (List.length a) (param_defaults s)))
    as [r |] eqn:Ef; [| discriminate].
  assert (P2 : forall x, In x (map fst kw) -> In x (skipn (List.length a) (s_args s))).
  { intros x Hx. rewrite forallb_forall in Efa. apply mem_str_In. exact (Efa x Hx). }
  split.
  - apply symdiff_ok_iff. split; [| intros x Hx; left; exact (P2 x Hx)].
    intros x Hx. destruct (s_defaults s) as [| d0 ds0] eqn:Ed.
    + right. rewrite (defaults_names_nil s Ed). exact (@skipn_In _ _ _ _ Hx).
    + assert (Hd : s_defaults s <> []) by (rewrite Ed; discriminate).
      destruct (@sig_split s (List.length a) Hs Hd Elt) as [L1 [L2 [E1 [E2 [_ [_ [_ [H2 _]]]]]]]].
      rewrite E1, E2 in Ef. rewrite E1 in Hx.
      apply in_app_or in Hx. destruct Hx as [Hx | Hx].
      * left. apply assoc_In_fst. exact (@fill_required _ _ _ _ _ Ef x Hx).
      * right. exact (H2 x Hx).
  - apply overbound_false_iff. split; [exact Elt |].
    intros x Hx Hk. apply P2 in Hk. rewrite <- (firstn_skipn (List.length a) (s_args s)) in Hnd.
    exact (@NoDup_app_disj _ _ _ _ Hnd Hx Hk).
Qed.

Lemma make_key_post : forall s a kw, sig_ok s -> kw_ok kw ->
  symdiff_ok (drop (List.length a) (s_args s)) (map fst kw) (defaults_names s) = true ->
  overbound s (List.length a) (map fst kw) = false ->
  match bind_call s a kw with
  | Some vs => make_key s a kw = inr (Some vs)
  | None => make_key s a kw = inl EType
  end.
Proof.
  intros s a kw Hs Hkw Esd Eob. pose proof Hs as [Hnd Hlen].
  unfold make_key, bind_call. rewrite Esd, Eob. cbn [negb].
  rewrite !drop_skipn in *.
  apply symdiff_ok_iff in Esd. destruct Esd as [S1 S2].
  apply overbound_false_iff in Eob. destruct Eob as [O1 O2].
  assert (Hdn : forall x, In x (defaults_names s) -> In x (s_args s)).
  { intros x Hx. unfold defaults_names in Hx. destruct (List.length (s_defaults s)); [exact Hx |].
    rewrite drop_skipn in Hx. exact (@skipn_In _ _ _ _ Hx). }
  assert (P2 : forall x, In x (map fst kw) -> In x (skipn (List.length a) (s_args s))).
  { intros x Hx. destruct (S2 x Hx) as [H | H]; [exact H |].
    apply Hdn in H. rewrite <- (firstn_skipn (List.length a) (s_args s)) in H.
    apply in_app_or in H. destruct H as [H | H]; [| exact H]. exfalso. exact (O2 x H Hx). }
  apply Nat.ltb_ge in O1. rewrite O1. apply Nat.ltb_ge in O1.
  assert (Efa : forallb (fun k => mem_str k (skipn (List.length a) (s_args s))) (map fst kw) = true).
  { apply forallb_forall. intros x Hx. apply mem_str_In. exact (P2 x Hx). }
  rewrite Efa. cbn [negb].
  assert (End : nodup_strs (map fst kw) = true) by (apply nodup_strs_NoDup; exact Hkw).
  rewrite End. cbn [negb].
  rewrite positional_spec by exact O1. cbn [Nat.add].
  destruct (s_defaults s) as [| d0 ds0] eqn:Ed.
  - rewrite (leftovers_nodefaults s kw _ _ _ Ed), (skipn_param_defaults_nil s _ Ed).
    destruct (fill (skipn (List.length a) (s_args s)) kw
                (repeat None (List.length (skipn (List.length a) (s_args s))))); reflexivity.
  - assert (Hd : s_defaults s <> []) by (rewrite Ed; discriminate).
    destruct (@sig_split s (List.length a) Hs Hd O1) as [L1 [L2 [E1 [E2 [H0 [Hl [H1 [H2 Hc]]]]]]]].
    rewrite Hc, E1, E2.
    destruct (@leftovers_defaults s kw (defaults_names s) L1 L2 _ H0 Hl) as [r [Hr1 Hr2]].
    + intros x Hx. split; [apply mem_str_false; exact (H1 x Hx) |].
      apply assoc_In_fst. destruct (S1 x) as [H | H].
      * rewrite E1. apply in_or_app. left. exact Hx.
      * exact H.
      * exfalso. exact (H1 x Hx H).
    + intros x Hx. apply mem_str_In. exact (H2 x Hx).
    + rewrite Hr1, Hr2. reflexivity.
Qed.

Lemma make_key_master : forall s a kw, sig_ok s -> kw_ok kw ->
  match bind_call s a kw with
  | Some vs => make_key s a kw = inr (Some vs)
  | None => make_key s a kw = inr None \/ make_key s a kw = inl EType
  end.
Proof.
  intros s a kw Hs Hkw.
  destruct (bind_call s a kw) as [vs |] eqn:Eb.
  - destruct (@bind_call_pre s a kw vs Hs Eb) as [Esd Eob].
    pose proof (@make_key_post s a kw Hs Hkw Esd Eob) as H. rewrite Eb in H. exact H.
  - destruct (symdiff_ok (drop (List.length a) (s_args s)) (map fst kw) (defaults_names s)) eqn:Esd.
    + destruct (overbound s (List.length a) (map fst kw)) eqn:Eob.
      * left. unfold make_key. rewrite Esd, Eob. reflexivity.
      * right. pose proof (@make_key_post s a kw Hs Hkw Esd Eob) as H. rewrite Eb in H. exact H.
    + left. unfold make_key. rewrite Esd. reflexivity.
Qed.

Lemma make_key_sound : make_key_sound_stmt.
Proof.
  intros s a kw k Hs Hkw H. pose proof (@make_key_master s a kw Hs Hkw) as M.
  destruct (bind_call s a kw) as [vs |].
  - rewrite M in H. congruence.
  - destruct M as [M | M]; rewrite M in H; discriminate.
Qed.

Lemma make_key_complete : make_key_complete_stmt.
Proof.
  intros s a kw vs Hs Hkw H. pose proof (@make_key_master s a kw Hs Hkw) as M. rewrite H in M. exact M.
Qed.

Lemma make_key_error : make_key_error_stmt.
Proof.
  intros s a kw e Hs Hkw H. pose proof (@make_key_master s a kw Hs Hkw) as M.
  destruct (bind_call s a kw) as [vs |].
  - rewrite M in H. discriminate.
  - destruct M as [M | M]; rewrite M in H; [discriminate |]. split; [reflexivity | congruence].
Qed.

Lemma make_key_share : make_key_share_stmt.
Proof.
  intros s a1 kw1 a2 kw2 vs Hs Hk1 Hk2 H1 H2.
  rewrite (@make_key_complete _ _ _ _ Hs Hk1 H1), (@make_key_complete _ _ _ _ Hs Hk2 H2). reflexivity.
Qed.

Lemma make_key_separate : make_key_separate_stmt.
Proof.
  intros s a1 kw1 a2 kw2 v1 v2 Hs Hk1 Hk2 H1 H2 Hne.
  rewrite (@make_key_complete _ _ _ _ Hs Hk1 H1), (@make_key_complete _ _ _ _ Hs Hk2 H2). congruence.
Qed.

(* ---------- structural equality of keys ---------- *)
Fixpoint val_eqb_eq (a : val) : forall b, val_eqb a b = true -> a = b.
Proof.
  destruct a as [| x | x | x | x | x]; intros [| y | y | y | y | y] H; cbn [val_eqb] in H; try discriminate.
  - reflexivity.
  - apply Bool.eqb_prop in H. subst y. reflexivity.
  - apply Z.eqb_eq in H. subst y. reflexivity.
  - apply String.eqb_eq in H. subst y. reflexivity.
  - f_equal. revert y H.
    induction x as [| p x IH]; intros [| q y] H; try discriminate; [reflexivity |].
    apply andb_prop in H. destruct H as [H1 H2].
    rewrite (val_eqb_eq p q H1), (IH y H2). reflexivity.
  - f_equal. revert y H.
    induction x as [| [k p] x IH]; intros [| [k' q] y] H; try discriminate; [reflexivity |].
    apply andb_prop in H. destruct H as [H0 H]. apply andb_prop in H. destruct H as [H1 H2].
    apply String.eqb_eq in H0. subst k'.
    rewrite (val_eqb_eq p q H1), (IH y H2). reflexivity.
Qed.

Lemma key_eqb_eq : forall a b, key_eqb a b = true -> a = b.
Proof.
  unfold key_eqb. induction a as [| p x IH]; intros [| q y] H; try discriminate; [reflexivity |].
  apply andb_prop in H. destruct H as [H1 H2].
  rewrite (val_eqb_eq p q H1), (IH y H2). reflexivity.
Qed.

(* ---------- the cache ---------- *)
Section CacheProofs.
  Variable F : string -> list val -> res val.
  Variable sig_of : string -> sig.
  Hypothesis Hsig : forall f, sig_ok (sig_of f).

  Lemma lookup_sound : forall s f k v, Inv F s -> lookup (cache s) f k = Some v -> F f k = inr v.
  Proof.
    intros s f k v HI H. unfold lookup in H.
    destruct (find (fun e => andb (String.eqb (fst (fst e)) f) (key_eqb (snd (fst e)) k)) (cache s))
      as [[[f' k'] v'] |] eqn:Ef; [| discriminate].
    cbn [snd] in H. injection H as ->.
    apply find_some in Ef. destruct Ef as [Hin Hb]. cbn [fst snd] in Hb.
    apply andb_prop in Hb. destruct Hb as [Hf Hk].
    apply String.eqb_eq in Hf. apply key_eqb_eq in Hk. subst f' k'.
    exact (HI f k v Hin).
  Qed.

  Lemma Inv_add : forall s f k v, Inv F s -> F f k = inr v ->
    Inv F {| enabled := enabled s; cache := (f, k, v) :: cache s |}.
  Proof.
    intros s f k v HI HF f' k' v' Hin. cbn [cache In] in Hin. destruct Hin as [E | Hin].
    - injection E as <- <- <-. exact HF.
    - exact (HI f' k' v' Hin).
  Qed.

  Lemma uncached_bound : forall c k, bind_call (sig_of (c_fn c)) (c_args c) (c_kw c) = Some k ->
    uncached F sig_of c = F (c_fn c) k.
  Proof. intros c k H. unfold uncached. rewrite H. reflexivity. Qed.

  Lemma uncached_unbound : forall c, bind_call (sig_of (c_fn c)) (c_args c) (c_kw c) = None ->
    uncached F sig_of c = inl EType.
  Proof. intros c H. unfold uncached. rewrite H. reflexivity. Qed.

  (* ----- sequential ----- *)
  Lemma step_ok : forall s o, Inv F s -> match o with Call c => kw_ok (c_kw c) | _ => True end ->
    Inv F (fst (step F sig_of s o)) /\
    match o with
    | Call c => snd (step F sig_of s o) = Some (uncached F sig_of c)
    | _ => snd (step F sig_of s o) = None
    end.
  Proof.
    intros s o HI Hk. destruct o as [c | b | i]; cbn [step].
    2:{ split; [exact HI | reflexivity]. }
    2:{ split; [exact HI | reflexivity]. }
    destruct (enabled s); cbn [negb]; [| split; [exact HI | reflexivity]].
    destruct (make_key (sig_of (c_fn c)) (c_args c) (c_kw c)) as [e | [k |]] eqn:Emk.
    - destruct (@make_key_error _ _ _ _ (Hsig (c_fn c)) Hk Emk) as [Hb ->].
      rewrite (uncached_unbound c Hb). split; [exact HI | reflexivity].
    - pose proof (@make_key_sound _ _ _ _ (Hsig (c_fn c)) Hk Emk) as Hb.
      destruct (lookup (cache s) (c_fn c) k) as [v |] eqn:El.
      + cbn [fst snd]. split; [exact HI |].
        rewrite (@uncached_bound c _ Hb), (@lookup_sound _ _ _ _ HI El). reflexivity.
      + destruct (uncached F sig_of c) as [e | v] eqn:Eu; cbn [fst snd].
        * split; [exact HI | reflexivity].
        * split; [| reflexivity]. apply Inv_add; [exact HI |].
          rewrite <- (@uncached_bound c _ Hb). exact Eu.
    - split; [exact HI | reflexivity].
  Qed.

  Lemma memo_transparent_aux : memo_transparent_stmt F sig_of.
  Proof.
    intros _ ops. induction ops as [| o t IH]; intros s0 HI Hc; cbn [run]; [constructor |].
    inversion Hc as [| ? ? Ho Ht]; subst.
    destruct (@step_ok s0 o HI Ho) as [HI' Hout].
    destruct (step F sig_of s0 o) as [s' out] eqn:Es. cbn [fst snd] in HI', Hout.
    constructor.
    - cbn [fst snd]. exact Hout.
    - exact (IH s' HI' Ht).
  Qed.

  (* ----- threads ----- *)
  Definition TI (c : call) (t : tstate) : Prop :=
    kw_ok (c_kw c) /\
    match t with
    | TStart c' => c' = c
    | TEnabled c' => c' = c
    | TMiss c' k => c' = c /\ bind_call (sig_of (c_fn c)) (c_args c) (c_kw c) = Some k
    | TComputed c' k v => c' = c /\ bind_call (sig_of (c_fn c)) (c_args c) (c_kw c) = Some k /\ F (c_fn c) k = inr v
    | TDone c' r => c' = c /\ r = uncached F sig_of c
    end.

  Lemma tstep_ok : forall s c t, Inv F s -> TI c t ->
    Inv F (fst (tstep F sig_of s t)) /\ TI c (snd (tstep F sig_of s t)) /\
    enabled (fst (tstep F sig_of s t)) = enabled s.
  Proof.
    intros s c t HI [Hk Ht]. destruct t as [c' | c' | c' k | c' k v | c' r]; cbn [tstep].
    - subst c'. destruct (enabled s) eqn:Ee; cbn [fst snd]; repeat split; auto.
    - subst c'. destruct (make_key (sig_of (c_fn c)) (c_args c) (c_kw c)) as [e | [k |]] eqn:Emk.
      + destruct (@make_key_error _ _ _ _ (Hsig (c_fn c)) Hk Emk) as [Hb ->]. cbn [fst snd].
        repeat split; auto. rewrite (uncached_unbound c Hb). reflexivity.
      + pose proof (@make_key_sound _ _ _ _ (Hsig (c_fn c)) Hk Emk) as Hb.
        destruct (lookup (cache s) (c_fn c) k) as [v |] eqn:El; cbn [fst snd]; repeat split; auto.
        rewrite (@uncached_bound c _ Hb), (@lookup_sound _ _ _ _ HI El). reflexivity.
      + cbn [fst snd]. repeat split; auto.
    - destruct Ht as [-> Hb].
      destruct (uncached F sig_of c) as [e | v] eqn:Eu; cbn [fst snd]; repeat split; auto.
      rewrite <- (@uncached_bound c _ Hb). exact Eu.
    - destruct Ht as [-> [Hb HF]]. cbn [fst snd]. split; [apply Inv_add; assumption |].
      repeat split; auto. rewrite (@uncached_bound c _ Hb). symmetry. exact HF.
    - cbn [fst snd]. repeat split; auto; apply Ht.
  Qed.

  Lemma set_thread_F2 : forall cs ts i c t, Forall2 TI cs ts -> nth_error cs i = Some c -> TI c t ->
    Forall2 TI cs (set_thread ts i t).
  Proof.
    intros cs ts i c t H. revert i. induction H as [| c0 t0 cs ts H0 H IH]; intros i Hn Ht.
    - destruct i; discriminate.
    - destruct i as [| i]; cbn [nth_error set_thread] in *.
      + injection Hn as ->. constructor; assumption.
      + constructor; [exact H0 | exact (IH i Hn Ht)].
  Qed.

  Lemma F2_nth : forall cs ts i t, Forall2 TI cs ts -> nth_error ts i = Some t ->
    exists c, nth_error cs i = Some c /\ TI c t.
  Proof.
    intros cs ts i t H. revert i. induction H as [| c0 t0 cs ts H0 H IH]; intros i Hn.
    - destruct i; discriminate.
    - destruct i as [| i]; cbn [nth_error] in *.
      + injection Hn as ->. exists c0. split; [reflexivity | exact H0].
      + exact (IH i Hn).
  Qed.

  Lemma sstep_ok : forall cs p a, Inv F (fst p) -> Forall2 TI cs (snd p) ->
    Inv F (fst (sstep F sig_of p a)) /\ Forall2 TI cs (snd (sstep F sig_of p a)).
  Proof.
    intros cs [s ts] a HI HT. cbn [fst snd] in HI, HT. destruct a as [i | b]; cbn [sstep fst snd].
    - destruct (nth_error ts i) as [t |] eqn:En; [| split; assumption].
      destruct (@F2_nth _ _ i _ HT En) as [c [Hc Ht]].
      destruct (@tstep_ok s c t HI Ht) as [HI' [Ht' _]].
      destruct (tstep F sig_of s t) as [s' t'] eqn:Es. cbn [fst snd] in *.
      split; [exact HI' | exact (@set_thread_F2 _ _ i _ _ HT Hc Ht')].
    - split; [| exact HT]. intros f k v Hin. exact (HI f k v Hin).
  Qed.

  Lemma srun_ok : forall cs sch p, Inv F (fst p) -> Forall2 TI cs (snd p) ->
    Inv F (fst (srun F sig_of p sch)) /\ Forall2 TI cs (snd (srun F sig_of p sch)).
  Proof.
    intros cs sch. unfold srun. induction sch as [| a sch IH]; intros p HI HT; cbn [fold_left].
    - split; assumption.
    - destruct (@sstep_ok cs p a HI HT) as [HI' HT']. exact (IH _ HI' HT').
  Qed.

  Lemma memo_transparent_concurrent_aux : memo_transparent_concurrent_stmt F sig_of.
  Proof.
    intros _ calls sch s0 HI Hk r.
    assert (H0 : Forall2 TI calls (map TStart calls)).
    { clear r. induction Hk as [| c cs Hc Hk IH]; cbn [map]; constructor; [| exact IH].
      split; [exact Hc | reflexivity]. }
    destruct (@srun_ok calls sch (s0, map TStart calls) HI H0) as [HI' HT']. fold r in HI', HT'.
    split; [exact HI' |].
    intros i c x Hn. destruct (@F2_nth _ _ i _ HT' Hn) as [c0 [Hc0 [_ [-> ->]]]].
    split; [exact Hc0 | reflexivity].
  Qed.
End CacheProofs.

Lemma memo_transparent : forall F sig_of, memo_transparent_stmt F sig_of.
Proof. intros F sig_of Hsig. exact (@memo_transparent_aux F sig_of Hsig Hsig). Qed.

Lemma memo_transparent_concurrent : forall F sig_of, memo_transparent_concurrent_stmt F sig_of.
Proof. intros F sig_of Hsig. exact (@memo_transparent_concurrent_aux F sig_of Hsig Hsig). Qed.

(* ---------- the translated signatures ---------- *)
Lemma sig_okb_ok : forall s, sig_okb s = true -> sig_ok s.
Proof.
  intros s H. unfold sig_okb in H. apply andb_prop in H. destruct H as [H1 H2].
  split; [apply nodup_strs_NoDup; exact H1 | apply Nat.leb_le; exact H2].
Qed.

Lemma memoised_sigs_ok : memoised_sigs_ok_stmt.
Proof. vm_compute. reflexivity. Qed.

Lemma memoised_sig_ok : forall f s, assoc f memoised = Some s -> sig_ok s.
Proof.
  intros f s H. apply sig_okb_ok.
  pose proof memoised_sigs_ok as M. unfold memoised_sigs_ok_stmt in M. rewrite forallb_forall in M.
  assert (Hin : exists g, In (g, s) memoised).
  { revert H. generalize memoised. intros l. induction l as [| [g s'] l IH]; cbn [assoc]; [discriminate |].
    destruct (String.eqb f g).
    - intros E. injection E as ->. exists g. left. reflexivity.
    - intros E. destruct (IH E) as [g' Hg]. exists g'. right. exact Hg. }
  destruct Hin as [g Hg]. exact (M (g, s) Hg).
Qed.

Lemma sig_table_ok : forall f, sig_ok (sig_table f).
Proof.
  intros f. unfold sig_table. destruct (assoc f memoised) as [s |] eqn:E.
  - exact (@memoised_sig_ok f s E).
  - split; [constructor | cbn; lia].
Qed.

Print Assumptions make_key_sound.
Print Assumptions make_key_complete.
Print Assumptions make_key_error.
Print Assumptions make_key_share.
Print Assumptions make_key_separate.
Print Assumptions memo_transparent.
Print Assumptions memo_transparent_concurrent.
Print Assumptions memoised_sigs_ok.
Print Assumptions memoised_sig_ok.
Print Assumptions sig_table_ok.
