(* C07: uncontract_segmented / remove_free_primitives specifications, naturality of opt_shell and
   the span theorem of optimize_general over the rationals. *)
From Coq Require Import Sorting.Permutation QArith Qfield.
Close Scope Q_scope.
From BSE Require Import Model.Val Model.Basis Model.Manip Model.Sort Proofs.FSDefs Proofs.SortDefs.

Section C07.
  Variable N : Type.
  Variable is0 : N -> bool.
  Variable same : N -> N -> bool.
  Variable eqN : N -> N -> bool.
  Variables zero_lit one_lit ozero_lit : N.
  Hypothesis Hc : carrier_ok is0 same eqN zero_lit one_lit ozero_lit.

  (* ---------- uncontract_segmented ---------- *)
  Lemma zip_am_units : forall (ams : list Z) (x : N),
    zip_am ams (map (fun y => [y]) (repeat one_lit (List.length ams))) [x]
    = map (fun l => (l, [(x, one_lit)])) ams.
  Proof.
    induction ams as [| l t IH]; intros x; cbn [List.length repeat map zip_am combine].
    - reflexivity.
    - rewrite IH. reflexivity.
  Qed.

  Lemma unc_seg_cfuns : forall (s : shell N) (x : N),
    shell_cfuns (unit_shell one_lit s x) = map (fun l => (l, [(x, one_lit)])) (am s).
  Proof.
    intros s x. unfold unit_shell, shell_cfuns. cbn [am coefs exps transpose].
    destruct (am s) as [| l [| l2 t]] eqn:E.
    - reflexivity.
    - reflexivity.
    - rewrite <- E. apply zip_am_units.
  Qed.

  Lemma unc_seg_spec : unc_seg_spec_stmt is0 same one_lit.
  Proof.
    unfold unc_seg_spec_stmt. intros shs f _. unfold FSin, shells_cfuns. split.
    - intros [g [Hg Hf]].
      apply in_flat_map in Hg. destruct Hg as [s1 [Hs1 Hg]].
      apply in_flat_map in Hs1. destruct Hs1 as [s [Hs Hs1]].
      unfold unc_seg_shell in Hs1. apply in_map_iff in Hs1. destruct Hs1 as [x [Hx1 Hx]].
      subst s1. rewrite unc_seg_cfuns in Hg. apply in_map_iff in Hg. destruct Hg as [l [Hl1 Hl]].
      subst g. exists s, l, x. auto.
    - intros [s [l [x [Hs [Hl [Hx Hf]]]]]].
      exists (l, [(x, one_lit)]). split; [| exact Hf].
      apply in_flat_map.
      exists (unit_shell one_lit s x).
      split.
      + apply in_flat_map. exists s. split; [exact Hs |].
        unfold unc_seg_shell. apply in_map_iff. exists x. auto.
      + rewrite unc_seg_cfuns. apply in_map_iff. exists l. auto.
  Qed.

  (* ----- the seen-set version: every (shell, exponent) item is emitted for the momenta not yet seen ----- *)
  Definition item := (shell N * N)%type.
  Definition trip := (shell N * list Z * N)%type.
  Definition tkeys (t : trip) : list (prim N) := map (fun l => (l, snd t)) (snd (fst t)).
  Definition tunit (t : trip) : shell N := unit_shell_am one_lit (fst (fst t)) (snd (fst t)) (snd t).
  Definition items (shs : list (shell N)) : list item :=
    flat_map (fun s => map (pair s) (exps s)) shs.
  Definition fresh_am (s : shell N) (x : N) (seen : list (prim N)) : list Z :=
    filter (fun l => negb (prim_seen same l x seen)) (am s).

  Fixpoint dd (l : list item) (seen : list (prim N)) : list trip :=
    match l with
    | [] => []
    | it :: t =>
      match fresh_am (fst it) (snd it) seen with
      | [] => dd t seen
      | a :: r => (fst it, a :: r, snd it) :: dd t (seen ++ map (fun l => (l, snd it)) (a :: r))
      end
    end.

  Lemma dd_app : forall a b seen,
    dd (a ++ b) seen = dd a seen ++ dd b (seen ++ flat_map tkeys (dd a seen)).
  Proof.
    induction a as [| it t IH]; intros b seen; cbn [app dd flat_map].
    - rewrite app_nil_r. reflexivity.
    - destruct (fresh_am (fst it) (snd it) seen) as [| l r].
      + apply IH.
      + cbn [app flat_map]. rewrite IH, <- app_assoc. reflexivity.
  Qed.

  Lemma unc_seg_prims_dd : forall (s : shell N) xs seen,
    unc_seg_prims same one_lit s xs seen
    = (map tunit (dd (map (pair s) xs) seen), seen ++ flat_map tkeys (dd (map (pair s) xs) seen)).
  Proof.
    intros s. induction xs as [| x t IH]; intros seen; cbn [unc_seg_prims map dd fst snd flat_map].
    - rewrite app_nil_r. reflexivity.
    - unfold fresh_am.
      destruct (filter (fun l => negb (prim_seen same l x seen)) (am s)) as [| l r].
      + apply IH.
      + rewrite IH. cbn [map flat_map]. rewrite <- app_assoc. reflexivity.
  Qed.

  Lemma unc_seg_shells_dd : forall shs seen,
    unc_seg_shells same one_lit shs seen = map tunit (dd (items shs) seen).
  Proof.
    induction shs as [| s t IH]; intros seen; cbn [unc_seg_shells items flat_map dd map].
    - reflexivity.
    - rewrite unc_seg_prims_dd. fold (items t). rewrite dd_app, map_app, IH. reflexivity.
  Qed.

  Definition seenP (a : Z) (x : N) (seen : list (prim N)) : Prop :=
    exists p, In p seen /\ fst p = a /\ same (snd p) x = true.

  Lemma prim_seen_iff : forall a x seen, prim_seen same a x seen = true <-> seenP a x seen.
  Proof.
    intros a x seen. unfold prim_seen, seenP. rewrite existsb_exists. split.
    - intros [p [Hin Hp]]. apply andb_true_iff in Hp. destruct Hp as [H1 H2].
      apply Z.eqb_eq in H1. exists p. auto.
    - intros [p [Hin [H1 H2]]]. exists p. split; [exact Hin |].
      apply andb_true_iff. split; [apply Z.eqb_eq; exact H1 | exact H2].
  Qed.

  Lemma fresh_am_in : forall s x seen l,
    In l (fresh_am s x seen) <-> In l (am s) /\ ~ seenP l x seen.
  Proof.
    intros s x seen l. unfold fresh_am. rewrite filter_In, negb_true_iff, <- prim_seen_iff.
    destruct (prim_seen same l x seen); split; intros [H1 H2]; split; auto; congruence.
  Qed.

  Lemma seenP_app : forall a x s1 s2, seenP a x (s1 ++ s2) <-> seenP a x s1 \/ seenP a x s2.
  Proof.
    intros a x s1 s2. unfold seenP. split.
    - intros [p [Hin Hp]]. apply in_app_or in Hin. destruct Hin as [Hin | Hin]; [left | right]; exists p; auto.
    - intros [[p [Hin Hp]] | [p [Hin Hp]]]; exists p; (split; [apply in_or_app | exact Hp]); auto.
  Qed.

  Lemma seenP_keys : forall a x (na : list Z) y,
    seenP a x (map (fun l => (l, y)) na) <-> In a na /\ same y x = true.
  Proof.
    intros a x na y. unfold seenP. split.
    - intros [p [Hin [H1 H2]]]. apply in_map_iff in Hin. destruct Hin as [l [E Hl]]. subst p.
      cbn [fst snd] in H1, H2. subst l. auto.
    - intros [H1 H2]. exists (a, y). split; [apply in_map_iff; exists a; auto | auto].
  Qed.

  Lemma dd_in : forall l seen s na x, In (s, na, x) (dd l seen) ->
    In (s, x) l /\ na <> [] /\ (forall a, In a na -> In a (am s)).
  Proof.
    induction l as [| it0 t IH]; intros seen s na x H; cbn [dd] in H; [destruct H |].
    destruct (fresh_am (fst it0) (snd it0) seen) as [| a r] eqn:E.
    - destruct (IH _ _ _ _ H) as [H1 H2]. split; [right; exact H1 | exact H2].
    - destruct H as [H | H].
      + injection H as H1 H2 H3. subst s na x. split; [left; destruct it0; reflexivity |].
        split; [discriminate |]. intros b Hb. rewrite <- E in Hb. apply fresh_am_in in Hb. tauto.
      + destruct (IH _ _ _ _ H) as [H1 H2]. split; [right; exact H1 | exact H2].
  Qed.

  Lemma dd_fresh : forall l seen s na x a, In (s, na, x) (dd l seen) -> In a na -> ~ seenP a x seen.
  Proof.
    induction l as [| it0 t IH]; intros seen s na x a H Ha; cbn [dd] in H; [destruct H |].
    destruct (fresh_am (fst it0) (snd it0) seen) as [| b r] eqn:E.
    - eapply IH; eauto.
    - destruct H as [H | H].
      + injection H as H1 H2 H3. subst s na x. rewrite <- E in Ha. apply fresh_am_in in Ha. tauto.
      + intros Hs. apply (IH _ _ _ _ _ H Ha). apply seenP_app. left. exact Hs.
  Qed.

  Lemma dd_cover : forall l seen s x a, In (s, x) l -> In a (am s) ->
    seenP a x seen \/
    exists s' na' x', In (s', na', x') (dd l seen) /\ In a na' /\ same x' x = true.
  Proof.
    induction l as [| it0 t IH]; intros seen s x a Hin Ha; [destruct Hin |].
    cbn [dd]. destruct Hin as [Hin | Hin].
    - subst it0. cbn [fst snd].
      destruct (prim_seen same a x seen) eqn:Ep; [left; apply prim_seen_iff; exact Ep |].
      assert (Hf : In a (fresh_am s x seen)).
      { apply fresh_am_in. split; [exact Ha |]. rewrite <- prim_seen_iff. congruence. }
      destruct (fresh_am s x seen) as [| b r]; [destruct Hf |].
      right. exists s, (b :: r), x. split; [left; reflexivity |]. split; [exact Hf | apply (same_refl Hc)].
    - destruct (fresh_am (fst it0) (snd it0) seen) as [| b r] eqn:E.
      + apply (IH seen s x a Hin Ha).
      + destruct (IH (seen ++ map (fun l => (l, snd it0)) (b :: r)) s x a Hin Ha)
          as [Hs | [s' [na' [x' [H1 H2]]]]].
        * apply seenP_app in Hs. destruct Hs as [Hs | Hs]; [left; exact Hs |].
          apply seenP_keys in Hs. right. exists (fst it0), (b :: r), (snd it0).
          split; [left; reflexivity | exact Hs].
        * right. exists s', na', x'. split; [right; exact H1 | exact H2].
  Qed.

  Lemma dd_nodup : forall l seen i j s na x t nb y a, (i < j)%nat ->
    nth_error (dd l seen) i = Some (s, na, x) -> nth_error (dd l seen) j = Some (t, nb, y) ->
    In a na -> In a nb -> same x y = true -> False.
  Proof.
    induction l as [| it0 r IH]; intros seen i j s na x t nb y a Hij Hi Hj Ha Hb Hs; cbn [dd] in Hi, Hj.
    - destruct i; discriminate.
    - destruct (fresh_am (fst it0) (snd it0) seen) as [| b r0] eqn:E.
      + eapply IH; eauto.
      + destruct j as [| j]; [lia |]. cbn [nth_error] in Hj.
        destruct i as [| i]; cbn [nth_error] in Hi.
        * injection Hi as H1 H2 H3. apply nth_error_In in Hj.
          apply (dd_fresh _ _ _ _ _ _ Hj Hb). apply seenP_app. right.
          rewrite H2, H3. apply seenP_keys. auto.
        * eapply (IH _ i j); eauto. lia.
  Qed.

  Lemma feq_unit : forall l x x', same x' x = true ->
    feq is0 same (l, [(x, one_lit)]) (l, [(x', one_lit)]).
  Proof.
    intros l x x' Hs. split; [reflexivity |]. intros p _. cbn [snd]. unfold InS. split.
    - intros [q [[Hq | []] [H1 H2]]]. subst q. cbn [fst snd] in *.
      exists (x', one_lit). split; [left; reflexivity |]. cbn [fst snd].
      split; [| exact H2]. eapply (same_trans Hc); [exact H1 |]. apply (same_sym Hc). exact Hs.
    - intros [q [[Hq | []] [H1 H2]]]. subst q. cbn [fst snd] in *.
      exists (x, one_lit). split; [left; reflexivity |]. cbn [fst snd].
      split; [| exact H2]. eapply (same_trans Hc); [exact H1 | exact Hs].
  Qed.

  Lemma feq_trans' : forall f g h, feq is0 same f g -> feq is0 same g h -> feq is0 same f h.
  Proof.
    intros f g h [H1 H2] [H3 H4]. split; [congruence |].
    intros p Hp. rewrite (H2 p Hp). auto.
  Qed.

  Lemma items_in : forall shs s x, In (s, x) (items shs) <-> In s shs /\ In x (exps s).
  Proof.
    intros shs s x. unfold items. rewrite in_flat_map. split.
    - intros [s0 [Hs0 Hin]]. apply in_map_iff in Hin. destruct Hin as [x0 [E Hx0]].
      injection E as E1 E2. subst. auto.
    - intros [Hs Hx]. exists s. split; [exact Hs |]. apply in_map. exact Hx.
  Qed.

  (* the contracted functions of a unit shell restricted to the momenta ams (any list, duplicates included) *)
  Lemma unit_am_cfuns : forall (s : shell N) (ams : list Z) (x : N),
    shell_cfuns (unit_shell_am one_lit s ams x) = map (fun l => (l, [(x, one_lit)])) ams.
  Proof.
    intros s ams x. unfold unit_shell_am, shell_cfuns. cbn [am coefs exps].
    assert (Hz : forall a : list Z,
              zip_am a (map (fun _ : Z => [one_lit]) a) [x] = map (fun l => (l, [(x, one_lit)])) a).
    { induction a as [| l t IH]; cbn [map zip_am combine]; [reflexivity | rewrite IH; reflexivity]. }
    destruct ams as [| l [| l2 t]].
    - reflexivity.
    - reflexivity.
    - apply Hz.
  Qed.

  Lemma unc_seg_shells_spec : unc_seg_shells_spec_stmt is0 same one_lit.
  Proof.
    unfold unc_seg_shells_spec_stmt. intros shs f. rewrite unc_seg_shells_dd.
    unfold FSin, shells_cfuns. split.
    - intros [g [Hg Hf]].
      apply in_flat_map in Hg. destruct Hg as [u [Hu Hg]].
      apply in_map_iff in Hu. destruct Hu as [[[s na] x] [Eu Hit]]. subst u.
      apply dd_in in Hit. destruct Hit as [Hit [_ Hsub]].
      apply items_in in Hit. destruct Hit as [Hs Hx].
      unfold tunit in Hg. cbn [fst snd] in Hg. rewrite unit_am_cfuns in Hg.
      apply in_map_iff in Hg. destruct Hg as [l [El Hl]]. subst g.
      exists s, l, x. auto.
    - intros [s [l [x [Hs [Hl [Hx Hf]]]]]].
      assert (Hit : In (s, x) (items shs)) by (apply items_in; auto).
      destruct (dd_cover _ [] _ _ _ Hit Hl) as [[p [[] _]] | [s' [na' [x' [Hin [Ham Hsame]]]]]].
      exists (l, [(x', one_lit)]). split.
      + apply in_flat_map. exists (tunit (s', na', x')). split; [apply in_map; exact Hin |].
        unfold tunit. cbn [fst snd]. rewrite unit_am_cfuns. apply in_map_iff. exists l. auto.
      + eapply feq_trans'; [exact Hf |]. apply feq_unit. exact Hsame.
  Qed.

  Lemma unc_seg_shells_nodup : unc_seg_shells_nodup_stmt same one_lit.
  Proof.
    unfold unc_seg_shells_nodup_stmt. intros shs i j s t l x y. rewrite unc_seg_shells_dd.
    intros Hi Hj Hls Hlt Hx Hy Hs.
    rewrite nth_error_map in Hi, Hj.
    destruct (nth_error (dd (items shs) []) i) as [[[s1 na] x1] |] eqn:Eu; [| discriminate].
    destruct (nth_error (dd (items shs) []) j) as [[[s2 nb] x2] |] eqn:Ev; [| discriminate].
    cbn [option_map] in Hi, Hj. injection Hi as Hi. injection Hj as Hj. subst s t.
    unfold tunit, unit_shell_am in Hls, Hlt, Hx, Hy. cbn [am exps fst snd] in Hls, Hlt, Hx, Hy.
    injection Hx as Hx. injection Hy as Hy. subst x1 x2.
    destruct (Nat.lt_trichotomy i j) as [Hlt' | [Heq | Hgt]]; [exfalso | exact Heq | exfalso].
    - eapply dd_nodup; [exact Hlt' | exact Eu | exact Ev | exact Hls | exact Hlt | exact Hs].
    - eapply dd_nodup; [exact Hgt | exact Ev | exact Eu | exact Hlt | exact Hls |].
      apply (same_sym Hc). exact Hs.
  Qed.

  Lemma unc_seg_shells_shape : unc_seg_shells_shape_stmt same one_lit.
  Proof.
    unfold unc_seg_shells_shape_stmt. intros shs u. rewrite unc_seg_shells_dd. intros Hu.
    apply in_map_iff in Hu. destruct Hu as [[[s na] x] [Eu Hit]]. subst u.
    apply dd_in in Hit. destruct Hit as [Hit [Hne Hsub]].
    apply items_in in Hit. destruct Hit as [Hs Hx].
    exists s, x, na. unfold tunit. cbn [fst snd]. auto.
  Qed.

  (* ---------- remove_free_primitives ---------- *)
  Definition keepc (c : list N) : bool := negb (is_single_column is0 c).
  (* the momenta of the shell that remove_free_primitives keeps *)
  Definition rm_am (s : shell N) : list Z :=
    if Nat.ltb 1 (List.length (am s)) then kept_am is0 (am s) (coefs s) else am s.
  Definition rm_shell (s : shell N) : shell N :=
    mkShell (rm_ftype is0 s) (region s) (rm_am s) (exps s) (filter keepc (coefs s)).

  Lemma rm_free_in : forall (s s' : shell N), In s' (rm_free_shell is0 s) ->
    s' = rm_shell s /\ filter keepc (coefs s) <> [].
  Proof.
    intros s s' H. unfold rm_free_shell in H. fold keepc in H. fold (rm_am s) in H.
    unfold rm_shell.
    destruct (filter keepc (coefs s)) as [| c t] eqn:E.
    - destruct H.
    - destruct H as [H | []]. split; [symmetry; exact H | discriminate].
  Qed.

  Lemma rm_free_mk : forall (s : shell N), filter keepc (coefs s) <> [] ->
    rm_free_shell is0 s = [rm_shell s].
  Proof.
    intros s H. unfold rm_free_shell, rm_shell. fold keepc. fold (rm_am s).
    destruct (filter keepc (coefs s)) as [| c t] eqn:E; [congruence | reflexivity].
  Qed.

  Lemma rm_am_single : forall s : shell N, List.length (am s) = 1 -> rm_am s = am s.
  Proof. intros s H. unfold rm_am. rewrite H. reflexivity. Qed.

  Lemma nz_col_len : forall c : list N, (exists x, In x c /\ is0 x = false) ->
    1 <= List.length (nonzeros is0 c).
  Proof.
    intros c [x [Hx H0]].
    assert (Hin : In x (nonzeros is0 c)).
    { unfold nonzeros. apply filter_In. split; [exact Hx | rewrite H0; reflexivity]. }
    destruct (nonzeros is0 c); [destruct Hin | cbn [List.length]; lia].
  Qed.

  Lemma keepc_iff : forall c : list N, (exists x, In x c /\ is0 x = false) ->
    (keepc c = true <-> 2 <= List.length (nonzeros is0 c)).
  Proof.
    intros c Hnz. apply nz_col_len in Hnz. unfold keepc, is_single_column.
    rewrite negb_true_iff, Nat.eqb_neq. lia.
  Qed.

  Lemma rm_free_spec : rm_free_spec_stmt is0 same.
  Proof.
    unfold rm_free_spec_stmt. intros shs f Ham Hwf. unfold FSin, shells_cfuns. split.
    - intros [g [Hg Hf]].
      apply in_flat_map in Hg. destruct Hg as [s1 [Hs1 Hg]].
      apply in_flat_map in Hs1. destruct Hs1 as [s [Hs Hs1]].
      apply rm_free_in in Hs1. destruct Hs1 as [Hs1 _]. subst s1.
      rewrite Forall_forall in Ham. specialize (Ham s Hs).
      unfold wf_shells in Hwf. rewrite Forall_forall in Hwf. specialize (Hwf s Hs).
      destruct Hwf as [_ [[_ Hnz] _]]. rewrite Forall_forall in Hnz.
      unfold shell_cfuns, rm_shell in Hg. cbn [am coefs exps] in Hg. rewrite (rm_am_single s Ham) in Hg.
      destruct (am s) as [| l [| l2 t]] eqn:E; cbn [List.length] in Ham; try lia.
      apply in_map_iff in Hg. destruct Hg as [c [Hc1 Hc2]]. subst g.
      apply filter_In in Hc2. destruct Hc2 as [Hc2 Hk].
      exists s, l, c. split; [exact Hs |]. split; [exact E |]. split; [exact Hc2 |].
      split; [| exact Hf]. apply keepc_iff; auto.
    - intros [s [l [c [Hs [Hl [Hcin [Hlen Hf]]]]]]].
      exists (l, combine (exps s) c). split; [| exact Hf].
      unfold wf_shells in Hwf. rewrite Forall_forall in Hwf. specialize (Hwf s Hs).
      destruct Hwf as [_ [[_ Hnz] _]]. rewrite Forall_forall in Hnz.
      assert (Hk : In c (filter keepc (coefs s))).
      { apply filter_In. split; [exact Hcin |]. apply keepc_iff; auto. }
      apply in_flat_map.
      exists (rm_shell s). split.
      + apply in_flat_map. exists s. split; [exact Hs |].
        rewrite rm_free_mk; [left; reflexivity |].
        intros E. rewrite E in Hk. destruct Hk.
      + unfold shell_cfuns, rm_shell. cbn [am coefs exps].
        rewrite rm_am_single by (rewrite Hl; reflexivity). rewrite Hl.
        apply in_map_iff. exists c. auto.
  Qed.

  Lemma rm_free_wf : rm_free_wf_stmt is0.
  Proof.
    unfold rm_free_wf_stmt, wf_shells. intros shs Ham Hwf.
    rewrite Forall_forall in *. intros s' Hs'.
    apply in_flat_map in Hs'. destruct Hs' as [s [Hs Hs']].
    apply rm_free_in in Hs'. destruct Hs' as [Hs' Hne]. subst s'.
    specialize (Ham s Hs). specialize (Hwf s Hs).
    destruct Hwf as [Hrect [[_ Hnz] _]].
    unfold wf_shell, rect, nz_cols, am_ok, rm_shell in *. cbn [am coefs exps].
    rewrite Forall_forall in *.
    split; [| split].
    - intros c Hcin. apply filter_In in Hcin. apply Hrect. tauto.
    - split; [exact Hne |]. apply Forall_forall. intros c Hcin. apply filter_In in Hcin. apply Hnz. tauto.
    - left. rewrite rm_am_single; exact Ham.
  Qed.

  (* ----- fused shells included ----- *)
  Lemma shell_cfuns_zip : forall ft rg ka xs (kc : list (list N)), List.length ka = List.length kc ->
    shell_cfuns (mkShell ft rg ka xs kc) = zip_am ka kc xs.
  Proof.
    intros ft rg ka xs kc Hl. unfold shell_cfuns. cbn [am coefs exps].
    destruct ka as [| l [| l' r]]; try reflexivity.
    destruct kc as [| c [| c' r]]; cbn [List.length] in Hl; try discriminate. reflexivity.
  Qed.

  Lemma shell_cfuns_fused : forall s : shell N, 1 < List.length (am s) ->
    shell_cfuns s = zip_am (am s) (coefs s) (exps s).
  Proof.
    intros s Hl. unfold shell_cfuns. destruct (am s) as [| l [| l' r]]; cbn [List.length] in Hl; try lia; reflexivity.
  Qed.

  Lemma kept_am_len : forall ams (cs : list (list N)), List.length ams = List.length cs ->
    List.length (kept_am is0 ams cs) = List.length (filter keepc cs).
  Proof.
    induction ams as [| l ams IH]; intros cs Hl; destruct cs as [| c cs]; cbn [List.length] in Hl;
      try discriminate; [reflexivity |].
    cbn [kept_am filter]. unfold keepc at 1. destruct (is_single_column is0 c); cbn [negb List.length].
    - apply IH. lia.
    - f_equal. apply IH. lia.
  Qed.

  Lemma zip_am_in : forall ams (cs : list (list N)) xs g,
    In g (zip_am ams cs xs) <-> exists l c, In (l, c) (combine ams cs) /\ g = (l, combine xs c).
  Proof.
    induction ams as [| l ams IH]; intros cs xs g; destruct cs as [| c cs]; cbn [zip_am combine In].
    - split; [intros [] | intros [l [c [[] _]]]].
    - split; [intros [] | intros [l [c0 [[] _]]]].
    - split; [intros [] | intros [l0 [c [[] _]]]].
    - rewrite IH. split.
      + intros [H | [l0 [c0 [H1 H2]]]].
        * exists l, c. split; [left; reflexivity | symmetry; exact H].
        * exists l0, c0. split; [right; exact H1 | exact H2].
      + intros [l0 [c0 [[H1 | H1] H2]]].
        * injection H1 as H1 H3. subst. left. reflexivity.
        * right. exists l0, c0. auto.
  Qed.

  Lemma zip_am_kept_in : forall ams (cs : list (list N)) xs g,
    In g (zip_am (kept_am is0 ams cs) (filter keepc cs) xs) <->
    exists l c, In (l, c) (combine ams cs) /\ keepc c = true /\ g = (l, combine xs c).
  Proof.
    induction ams as [| l ams IH]; intros cs xs g; destruct cs as [| c cs]; cbn [kept_am filter combine In zip_am].
    - split; [intros [] | intros [l [c [[] _]]]].
    - split; [intros [] | intros [l [c0 [[] _]]]].
    - split; [intros [] | intros [l0 [c [[] _]]]].
    - unfold keepc at 1. destruct (is_single_column is0 c) eqn:E; cbn [negb].
      + rewrite IH. split.
        * intros [l0 [c0 [H1 H2]]]. exists l0, c0. split; [right; exact H1 | exact H2].
        * intros [l0 [c0 [[H1 | H1] [H2 H3]]]].
          -- injection H1 as H1 H4. subst. unfold keepc in H2. rewrite E in H2. discriminate.
          -- exists l0, c0. auto.
      + cbn [zip_am In]. rewrite IH. split.
        * intros [H | [l0 [c0 [H1 H2]]]].
          -- exists l, c. split; [left; reflexivity |]. split; [unfold keepc; rewrite E; reflexivity | symmetry; exact H].
          -- exists l0, c0. split; [right; exact H1 | exact H2].
        * intros [l0 [c0 [[H1 | H1] [H2 H3]]]].
          -- injection H1 as H1 H4. subst. left. reflexivity.
          -- right. exists l0, c0. auto.
  Qed.

  Lemma map_snd_combine : forall (xs c : list N), List.length c = List.length xs ->
    map snd (combine xs c) = c.
  Proof.
    induction xs as [| x xs IH]; intros c Hl; destruct c as [| y c]; cbn [List.length] in Hl;
      try discriminate; [reflexivity |].
    cbn [combine map snd]. f_equal. apply IH. lia.
  Qed.

  (* the contracted functions of the output of rm_free_shell on one well-formed shell *)
  Lemma rm_free_shell_cfuns : forall (s : shell N) g, wf_shell is0 s ->
    (In g (shells_cfuns (rm_free_shell is0 s)) <->
     In g (shell_cfuns s) /\ 2 <= List.length (nonzeros is0 (map snd (snd g)))).
  Proof.
    intros s g [Hrect [[Hne Hnz] Ham]]. unfold rect in Hrect. rewrite Forall_forall in Hrect, Hnz.
    assert (Hstep : In g (shells_cfuns (rm_free_shell is0 s)) <-> In g (shell_cfuns (rm_shell s))).
    { destruct (filter keepc (coefs s)) as [| c0 t0] eqn:E.
      - unfold rm_free_shell. fold keepc. rewrite E. unfold rm_shell, shell_cfuns. rewrite E.
        cbn [am coefs exps shells_cfuns flat_map].
        destruct (rm_am s) as [| l [| l' r]]; cbn [map zip_am]; tauto.
      - rewrite rm_free_mk by (rewrite E; discriminate).
        unfold shells_cfuns. cbn [flat_map]. rewrite app_nil_r. tauto. }
    rewrite Hstep. clear Hstep.
    assert (Hkeep : forall c, In c (coefs s) ->
              (keepc c = true <-> 2 <= List.length (nonzeros is0 (map snd (combine (exps s) c))))).
    { intros c Hin. rewrite map_snd_combine by (apply Hrect; exact Hin). apply keepc_iff. apply Hnz. exact Hin. }
    destruct Ham as [Ham | [Ham Hlen]].
    - unfold rm_shell, shell_cfuns. cbn [am coefs exps]. rewrite (rm_am_single s Ham).
      destruct (am s) as [| l [| l2 t]] eqn:E; cbn [List.length] in Ham; try lia.
      rewrite !in_map_iff. split.
      + intros [c [Hg Hin]]. apply filter_In in Hin. destruct Hin as [Hin Hk]. subst g. split.
        * exists c. auto.
        * cbn [snd]. apply Hkeep; assumption.
      + intros [[c [Hg Hin]] H2]. subst g. cbn [snd] in H2. exists c. split; [reflexivity |].
        apply filter_In. split; [exact Hin |]. apply Hkeep; assumption.
    - unfold rm_shell. rewrite shell_cfuns_zip.
      2:{ unfold rm_am. apply Nat.ltb_lt in Ham. rewrite Ham. apply kept_am_len. symmetry. exact Hlen. }
      rewrite (shell_cfuns_fused s Ham). unfold rm_am. pose proof Ham as Hlt. apply Nat.ltb_lt in Hlt. rewrite Hlt.
      rewrite zip_am_kept_in, zip_am_in. split.
      + intros [l [c [Hin [Hk Hg]]]]. subst g. split; [exists l, c; auto |].
        cbn [snd]. apply Hkeep; [| exact Hk]. apply in_combine_r in Hin. exact Hin.
      + intros [[l [c [Hin Hg]]] H2]. subst g. cbn [snd] in H2. exists l, c.
        split; [exact Hin |]. split; [| reflexivity]. apply Hkeep; [| exact H2].
        apply in_combine_r in Hin. exact Hin.
  Qed.

  Lemma shells_cfuns_flat_in : forall (F : shell N -> list (shell N)) shs g,
    In g (shells_cfuns (flat_map F shs)) <-> exists s, In s shs /\ In g (shells_cfuns (F s)).
  Proof.
    intros F shs g. unfold shells_cfuns. rewrite in_flat_map. split.
    - intros [u [Hu Hg]]. apply in_flat_map in Hu. destruct Hu as [s [Hs Hu]].
      exists s. split; [exact Hs |]. apply in_flat_map. exists u. auto.
    - intros [s [Hs Hg]]. apply in_flat_map in Hg. destruct Hg as [u [Hu Hg]].
      exists u. split; [| exact Hg]. apply in_flat_map. exists s. auto.
  Qed.

  Lemma rm_free_spec_all : rm_free_spec_all_stmt is0 same.
  Proof.
    unfold rm_free_spec_all_stmt. intros shs f Hwf. unfold wf_shells in Hwf. rewrite Forall_forall in Hwf.
    unfold FSin. split.
    - intros [g [Hg Hf]]. apply shells_cfuns_flat_in in Hg. destruct Hg as [s [Hs Hg]].
      apply (rm_free_shell_cfuns s g (Hwf s Hs)) in Hg. destruct Hg as [Hg H2].
      exists g. split; [| split; [exact H2 | exact Hf]].
      unfold shells_cfuns. apply in_flat_map. exists s. auto.
    - intros [g [Hg [H2 Hf]]]. unfold shells_cfuns in Hg. apply in_flat_map in Hg.
      destruct Hg as [s [Hs Hg]]. exists g. split; [| exact Hf].
      apply shells_cfuns_flat_in. exists s. split; [exact Hs |].
      apply (rm_free_shell_cfuns s g (Hwf s Hs)). auto.
  Qed.

  Lemma rm_free_wf_all : rm_free_wf_all_stmt is0.
  Proof.
    unfold rm_free_wf_all_stmt, wf_shells. intros shs Hwf.
    rewrite Forall_forall in *. intros s' Hs'.
    apply in_flat_map in Hs'. destruct Hs' as [s [Hs Hs']].
    apply rm_free_in in Hs'. destruct Hs' as [Hs' Hne]. subst s'.
    specialize (Hwf s Hs).
    destruct Hwf as [Hrect [[_ Hnz] Ham]].
    unfold wf_shell, rect, nz_cols, am_ok, rm_shell in *. cbn [am coefs exps].
    rewrite Forall_forall in *.
    split; [| split].
    - intros c Hcin. apply filter_In in Hcin. apply Hrect. tauto.
    - split; [exact Hne |]. apply Forall_forall. intros c Hcin. apply filter_In in Hcin. apply Hnz. tauto.
    - destruct Ham as [Ham | [Ham Hlen]].
      + left. rewrite rm_am_single; exact Ham.
      + assert (Hk : List.length (rm_am s) = List.length (filter keepc (coefs s))).
        { unfold rm_am. apply Nat.ltb_lt in Ham. rewrite Ham. apply kept_am_len. symmetry. exact Hlen. }
        destruct (filter keepc (coefs s)) as [| c0 [| c1 t]] eqn:E; [congruence | left | right];
          cbn [List.length] in *; lia.
  Qed.
End C07.


(* ---------- naturality of opt_shell ---------- *)
Section Nat.
  Variables A B : Type.
  Variable is0A : A -> bool.
  Variable is0B : B -> bool.
  Variable h : A -> B.
  Variables (zA : A) (zB : B).
  Hypothesis Hz : forall a, is0B (h a) = is0A a.
  Hypothesis Hzero : h zA = zB.

  Lemma nonzeros_map : forall c, nonzeros is0B (map h c) = map h (nonzeros is0A c).
  Proof.
    induction c as [| x t IH]; [reflexivity |].
    unfold nonzeros in *. cbn [map filter]. rewrite Hz.
    destruct (negb (is0A x)); cbn [map]; rewrite IH; reflexivity.
  Qed.

  Lemma single_map : forall c, is_single_column is0B (map h c) = is_single_column is0A c.
  Proof.
    intros c. unfold is_single_column. rewrite nonzeros_map, map_length. reflexivity.
  Qed.

  Lemma nz_rows_map : forall n c i, nz_rows is0B (map h c) i n = nz_rows is0A c i n.
  Proof.
    induction n as [| n IH]; intros c i; [destruct c; reflexivity |].
    destruct c as [| x t]; [reflexivity |].
    cbn [map nz_rows]. rewrite Hz, IH. reflexivity.
  Qed.

  Lemma pairs_of_map : forall cols idx n seen acc,
    pairs_of is0B (map (map h) cols) idx n seen acc = pairs_of is0A cols idx n seen acc.
  Proof.
    induction cols as [| c t IH]; intros idx n seen acc; [reflexivity |].
    cbn [map pairs_of]. rewrite single_map, nz_rows_map.
    destruct (is_single_column is0A c); [| apply IH].
    generalize (nz_rows is0A c 0 n) as rs. intros rs. revert seen acc.
    induction rs as [| r rs IHr]; intros seen acc.
    - apply IH.
    - destruct (existsb (Nat.eqb r) seen); [reflexivity | apply IHr].
  Qed.

  Lemma set_nth_map : forall c n v, set_nth (map h c) n (h v) = map h (set_nth c n v).
  Proof.
    induction c as [| x t IH]; intros n v; [reflexivity |].
    destruct n as [| n]; cbn [map set_nth]; [reflexivity |]. rewrite IH. reflexivity.
  Qed.

  Lemma zero_row_map : forall cols idx row cj,
    zero_row is0B zB (map (map h) cols) idx row cj = map (map h) (zero_row is0A zA cols idx row cj).
  Proof.
    induction cols as [| c t IH]; intros idx row cj; [reflexivity |].
    cbn [map zero_row]. rewrite IH. f_equal.
    rewrite nth_error_map. destruct (nth_error c row) as [x |]; cbn [option_map]; [| reflexivity].
    rewrite Hz. destruct (negb (is0A x) && negb (Nat.eqb cj idx)); [| reflexivity].
    rewrite <- Hzero. apply set_nth_map.
  Qed.

  Lemma fold_zero_row_map : forall prs cols,
    fold_left (fun cs rc => zero_row is0B zB cs 0 (fst rc) (snd rc)) prs (map (map h) cols)
    = map (map h) (fold_left (fun cs rc => zero_row is0A zA cs 0 (fst rc) (snd rc)) prs cols).
  Proof.
    induction prs as [| p t IH]; intros cols; [reflexivity |].
    cbn [fold_left]. rewrite zero_row_map. apply IH.
  Qed.

  Lemma opt_shell_natural_aux : forall s,
    match opt_shell is0A zA s, opt_shell is0B zB (map_shell h s) with
    | inr s1, inr s2 => s2 = map_shell h s1
    | inl e1, inl e2 => e1 = e2
    | _, _ => False
    end.
  Proof.
    intros s. unfold opt_shell, map_shell. cbn [am coefs exps ftype region].
    rewrite !map_length.
    destruct (Nat.ltb 1 (List.length (am s)) || Nat.ltb (List.length (coefs s)) 2).
    - cbn [ok]. reflexivity.
    - rewrite pairs_of_map.
      destruct (pairs_of is0A (coefs s) 0 (List.length (exps s)) [] []) as [e | prs]; cbn [bind ok].
      + reflexivity.
      + cbn [am coefs exps ftype region]. rewrite fold_zero_row_map. reflexivity.
  Qed.
End Nat.

Lemma opt_shell_natural : forall (A B : Type) (is0A : A -> bool) (is0B : B -> bool) (h : A -> B) (zA : A) (zB : B),
  opt_shell_natural_stmt is0A is0B h zA zB.
Proof.
  intros A B is0A is0B h zA zB. unfold opt_shell_natural_stmt. intros Hz Hzero s.
  apply opt_shell_natural_aux; assumption.
Qed.


(* ---------- optimize_general over the rationals: vectors ---------- *)
Set Implicit Arguments.
Section Vec.
  Variable n : nat.
  Definition vlen (v : list Q) : Prop := List.length v = n.

  Lemma veq_len : forall a b, veq a b -> List.length a = List.length b.
  Proof. unfold veq. induction 1; cbn [List.length]; congruence. Qed.

  Lemma veq_nth_inv : forall a b, veq a b -> forall t, (nth t a 0 == nth t b 0)%Q.
  Proof.
    unfold veq. induction 1 as [| x y a b Hxy Hab IH]; intros t; destruct t; cbn [nth];
      try reflexivity; auto.
  Qed.

  Lemma veq_nth : forall a b, List.length a = List.length b ->
    (forall t, (nth t a 0 == nth t b 0)%Q) -> veq a b.
  Proof.
    unfold veq. induction a as [| x a IH]; intros b Hl Hn; destruct b as [| y b];
      cbn [List.length] in Hl; try discriminate.
    - constructor.
    - constructor.
      + apply (Hn 0%nat).
      + apply IH; [lia |]. intros t. apply (Hn (S t)).
  Qed.

  Lemma veq_refl : forall a, veq a a.
  Proof. intros a. apply veq_nth; [reflexivity | intros; reflexivity]. Qed.

  Lemma veq_sym : forall a b, veq a b -> veq b a.
  Proof.
    intros a b H. apply veq_nth; [symmetry; apply veq_len; exact H |].
    intros t. symmetry. apply veq_nth_inv. exact H.
  Qed.

  Lemma veq_trans : forall a b c, veq a b -> veq b c -> veq a c.
  Proof.
    intros a b c H1 H2. apply veq_nth.
    - rewrite (veq_len H1). apply veq_len. exact H2.
    - intros t. rewrite (veq_nth_inv H1 t). apply veq_nth_inv. exact H2.
  Qed.

  Lemma vadd_len : forall a b, List.length (vadd a b) = Nat.min (List.length a) (List.length b).
  Proof.
    induction a as [| x a IH]; intros b; destruct b as [| y b]; cbn [vadd List.length]; try reflexivity.
    rewrite IH. reflexivity.
  Qed.

  Lemma vadd_vlen : forall a b, vlen a -> vlen b -> vlen (vadd a b).
  Proof. unfold vlen. intros a b Ha Hb. rewrite vadd_len. lia. Qed.

  Lemma vadd_nth : forall a b t, List.length a = List.length b ->
    (nth t (vadd a b) 0 == nth t a 0 + nth t b 0)%Q.
  Proof.
    induction a as [| x a IH]; intros b t Hl; destruct b as [| y b]; cbn [List.length] in Hl;
      try discriminate.
    - destruct t; cbn [vadd nth]; ring.
    - destruct t; cbn [vadd nth]; [reflexivity |]. apply IH. lia.
  Qed.

  Lemma vscale_len : forall k a, List.length (vscale k a) = List.length a.
  Proof. intros. unfold vscale. apply map_length. Qed.

  Lemma vscale_vlen : forall k a, vlen a -> vlen (vscale k a).
  Proof. unfold vlen. intros. rewrite vscale_len. assumption. Qed.

  Lemma vscale_nth : forall k a t, (nth t (vscale k a) 0 == k * nth t a 0)%Q.
  Proof.
    unfold vscale. induction a as [| x a IH]; intros t; destruct t; cbn [map nth];
      try ring; try reflexivity. apply IH.
  Qed.

  Lemma zeros_vlen : vlen (repeat 0%Q n).
  Proof. unfold vlen. apply repeat_length. Qed.

  Lemma vadd_veq : forall a a' b b', veq a a' -> veq b b' -> veq (vadd a b) (vadd a' b').
  Proof.
    unfold veq. intros a a' b b' Ha. revert b b'.
    induction Ha as [| x x' a a' Hx Ha IH]; intros b b' Hb.
    - cbn [vadd]. constructor.
    - destruct Hb as [| y y' b b' Hy Hb]; cbn [vadd]; constructor.
      + rewrite Hx, Hy. reflexivity.
      + apply IH. exact Hb.
  Qed.

  Lemma vscale_veq : forall k a a', veq a a' -> veq (vscale k a) (vscale k a').
  Proof.
    unfold veq, vscale. intros k a a' Ha.
    induction Ha as [| x x' a a' Hx Ha IH]; cbn [map]; constructor; [rewrite Hx; reflexivity | exact IH].
  Qed.

  (* ----- algebraic identities used below ----- *)
  Lemma nth_zeros : forall t, nth t (repeat 0%Q n) 0%Q = 0%Q.
  Proof. intros t. apply nth_repeat. Qed.

  Lemma lincomb_vlen : forall cols, Forall vlen cols -> forall ks, vlen (lincomb_val ks cols n).
  Proof.
    induction cols as [| c cols IH]; intros Hc ks.
    - destruct ks; apply zeros_vlen.
    - destruct ks as [| k ks]; [apply zeros_vlen |]. cbn [lincomb_val].
      inversion Hc as [| ? ? Hc1 Hc2]; subst.
      apply vadd_vlen; [apply vscale_vlen; exact Hc1 | apply IH; exact Hc2].
  Qed.

  Lemma lincomb_zero : forall cols, Forall vlen cols -> forall m,
    veq (lincomb_val (repeat 0%Q m) cols n) (repeat 0%Q n).
  Proof.
    induction cols as [| c cols IH]; intros Hc m.
    - destruct m; apply veq_refl.
    - destruct m as [| m]; [apply veq_refl |]. cbn [repeat lincomb_val].
      inversion Hc as [| ? ? Hc1 Hc2]; subst.
      pose proof (lincomb_vlen Hc2 (repeat 0%Q m)) as Hl. unfold vlen in *.
      apply veq_nth.
      + rewrite vadd_len, vscale_len, repeat_length. lia.
      + intros t. rewrite vadd_nth by (rewrite vscale_len; congruence).
        rewrite vscale_nth, (veq_nth_inv (IH Hc2 m) t), nth_zeros. ring.
  Qed.

  Lemma lincomb_add : forall cols, Forall vlen cols -> forall k1 k2,
    List.length k1 = List.length cols -> List.length k2 = List.length cols ->
    veq (lincomb_val (vadd k1 k2) cols n) (vadd (lincomb_val k1 cols n) (lincomb_val k2 cols n)).
  Proof.
    induction cols as [| c cols IH]; intros Hc k1 k2 H1 H2;
      destruct k1 as [| a k1]; destruct k2 as [| b k2]; cbn [List.length] in H1, H2; try discriminate.
    - cbn [vadd lincomb_val]. apply veq_nth.
      + rewrite vadd_len, repeat_length. lia.
      + intros t. rewrite vadd_nth by reflexivity. rewrite nth_zeros. ring.
    - cbn [vadd lincomb_val].
      inversion Hc as [| ? ? Hc1 Hc2]; subst.
      assert (IH' := IH Hc2 k1 k2 ltac:(lia) ltac:(lia)).
      pose proof (lincomb_vlen Hc2 k1) as L1. pose proof (lincomb_vlen Hc2 k2) as L2.
      pose proof (lincomb_vlen Hc2 (vadd k1 k2)) as L12. unfold vlen in *.
      apply veq_nth.
      + rewrite !vadd_len, !vscale_len. lia.
      + intros t.
        rewrite !vadd_nth by (rewrite ?vadd_len, ?vscale_len; lia).
        rewrite !vscale_nth, (veq_nth_inv IH' t).
        rewrite vadd_nth by lia. ring.
  Qed.

  Lemma vscale_nil : forall k, vscale k [] = [].
  Proof. reflexivity. Qed.
  Lemma vscale_cons : forall k a ks, vscale k (a :: ks) = (k * a)%Q :: vscale k ks.
  Proof. reflexivity. Qed.

  Lemma vscale_zeros : forall k, veq (repeat 0%Q n) (vscale k (repeat 0%Q n)).
  Proof.
    intros k. apply veq_nth; [rewrite vscale_len; reflexivity |].
    intros t. rewrite vscale_nth, nth_zeros. ring.
  Qed.

  Lemma lincomb_scale : forall cols, Forall vlen cols -> forall k ks,
    veq (lincomb_val (vscale k ks) cols n) (vscale k (lincomb_val ks cols n)).
  Proof.
    induction cols as [| c cols IH]; intros Hc k ks.
    - destruct ks; rewrite ?vscale_nil, ?vscale_cons; cbn [lincomb_val]; apply vscale_zeros.
    - destruct ks as [| a ks]; rewrite ?vscale_nil, ?vscale_cons; cbn [lincomb_val].
      + apply vscale_zeros.
      + inversion Hc as [| ? ? Hc1 Hc2]; subst.
        assert (IH' := IH Hc2 k ks).
        pose proof (lincomb_vlen Hc2 ks) as L1.
        pose proof (lincomb_vlen Hc2 (vscale k ks)) as L2. unfold vlen in *.
        apply veq_nth.
        * rewrite vscale_len, !vadd_len, !vscale_len. lia.
        * intros t.
          rewrite vadd_nth by (rewrite ?vscale_len; lia).
          rewrite !vscale_nth, (veq_nth_inv IH' t), vscale_nth.
          rewrite vadd_nth by (rewrite ?vscale_len; lia).
          rewrite vscale_nth. ring.
  Qed.

  (* ----- closure of the span ----- *)
  Section Closure.
    Variable cols : list (list Q).
    Hypothesis Hcols : Forall vlen cols.

    Lemma in_span_veq : forall u v, in_span cols n u -> veq v u -> in_span cols n v.
    Proof.
      intros u v [ks [Hl Hu]] Hv. exists ks. split; [exact Hl |].
      eapply veq_trans; eassumption.
    Qed.

    Lemma in_span_zero : in_span cols n (repeat 0%Q n).
    Proof.
      exists (repeat 0%Q (List.length cols)). split; [apply repeat_length |].
      apply veq_sym. apply lincomb_zero. exact Hcols.
    Qed.

    Lemma in_span_add : forall u v, in_span cols n u -> in_span cols n v -> in_span cols n (vadd u v).
    Proof.
      intros u v [k1 [Hl1 Hu]] [k2 [Hl2 Hv]]. exists (vadd k1 k2). split.
      - rewrite vadd_len. lia.
      - eapply veq_trans; [apply vadd_veq; eassumption |].
        apply veq_sym. apply lincomb_add; assumption.
    Qed.

    Lemma in_span_scale : forall k u, in_span cols n u -> in_span cols n (vscale k u).
    Proof.
      intros k u [ks [Hl Hu]]. exists (vscale k ks). split.
      - rewrite vscale_len. exact Hl.
      - eapply veq_trans; [apply vscale_veq; eassumption |].
        apply veq_sym. apply lincomb_scale. exact Hcols.
    Qed.
  End Closure.

  Lemma in_span_In : forall cols, Forall vlen cols -> forall c, In c cols -> in_span cols n c.
  Proof.
    induction cols as [| a cols IH]; intros Hc c Hin; [destruct Hin |].
    inversion Hc as [| ? ? Hc1 Hc2]; subst. destruct Hin as [E | Hin].
    - subst a. exists (1%Q :: repeat 0%Q (List.length cols)). split.
      + cbn [List.length]. rewrite repeat_length. reflexivity.
      + cbn [lincomb_val].
        pose proof (lincomb_vlen Hc2 (repeat 0%Q (List.length cols))) as L. unfold vlen in *.
        apply veq_nth.
        * rewrite vadd_len, vscale_len. lia.
        * intros t. rewrite vadd_nth by (rewrite vscale_len; lia).
          rewrite vscale_nth, (veq_nth_inv (lincomb_zero Hc2 (List.length cols)) t), nth_zeros. ring.
    - destruct (IH Hc2 c Hin) as [ks [Hl Hv]]. exists (0%Q :: ks). split.
      + cbn [List.length]. lia.
      + cbn [lincomb_val].
        pose proof (lincomb_vlen Hc2 ks) as L. pose proof (veq_len Hv) as Lc. unfold vlen in *.
        apply veq_nth.
        * rewrite vadd_len, vscale_len. lia.
        * intros t. rewrite vadd_nth by (rewrite vscale_len; lia).
          rewrite vscale_nth, <- (veq_nth_inv Hv t). ring.
  Qed.

  Lemma in_span_lincomb : forall a b, Forall vlen a -> Forall (in_span a n) b ->
    forall ks, in_span a n (lincomb_val ks b n).
  Proof.
    intros a b Ha. induction b as [| c b IH]; intros Hb ks.
    - destruct ks; apply in_span_zero; exact Ha.
    - destruct ks as [| k ks]; [apply in_span_zero; exact Ha |]. cbn [lincomb_val].
      inversion Hb as [| ? ? Hb1 Hb2]; subst.
      apply in_span_add; [exact Ha | apply in_span_scale; assumption | apply IH; exact Hb2].
  Qed.

  Lemma in_span_trans : forall a b v, Forall vlen a -> Forall (in_span a n) b ->
    in_span b n v -> in_span a n v.
  Proof.
    intros a b v Ha Hb [ks [_ Hv]].
    eapply in_span_veq; [apply in_span_lincomb; eassumption | exact Hv].
  Qed.

  Lemma span_eq_refl : forall a, Forall vlen a -> span_eq n a a.
  Proof.
    intros a Ha. split; apply Forall_forall; intros c Hc; apply in_span_In; assumption.
  Qed.

  Lemma span_eq_trans : forall a b c, Forall vlen a -> Forall vlen c ->
    span_eq n a b -> span_eq n b c -> span_eq n a c.
  Proof.
    intros a b c Ha Hc [Hab Hba] [Hbc Hcb]. split; apply Forall_forall; intros v Hv.
    - rewrite Forall_forall in Hbc. eapply in_span_trans; [exact Ha | exact Hab | apply Hbc; exact Hv].
    - rewrite Forall_forall in Hba. eapply in_span_trans; [exact Hc | exact Hcb | apply Hba; exact Hv].
  Qed.
End Vec.

(* ---------- optimize_general over the rationals: the algorithm ---------- *)
Section Opt.
  Variable n : nat.
  Notation zrow := (zero_row q0 0%Q).

  Lemma q0_zero : q0 0%Q = true.
  Proof. reflexivity. Qed.

  Lemma q0_true : forall x, q0 x = true -> (x == 0)%Q.
  Proof. intros x H. apply Qeq_bool_iff. exact H. Qed.

  Lemma q0_false : forall x, q0 x = false -> ~ (x == 0)%Q.
  Proof. intros x H. apply Qeq_bool_neq. exact H. Qed.

  (* ----- set_nth ----- *)
  Lemma set_nth_len : forall (c : list Q) r v, List.length (set_nth c r v) = List.length c.
  Proof.
    induction c as [| x c IH]; intros r v; [reflexivity |].
    destruct r; cbn [set_nth List.length]; [reflexivity | rewrite IH; reflexivity].
  Qed.

  Lemma set_nth_same : forall (c : list Q) r v d, r < List.length c -> nth r (set_nth c r v) d = v.
  Proof.
    induction c as [| x c IH]; intros r v d Hr; cbn [List.length] in Hr; [lia |].
    destruct r; cbn [set_nth nth]; [reflexivity | apply IH; lia].
  Qed.

  Lemma set_nth_other : forall (c : list Q) r v d t, t <> r -> nth t (set_nth c r v) d = nth t c d.
  Proof.
    induction c as [| x c IH]; intros r v d t Ht; [reflexivity |].
    destruct r; destruct t; cbn [set_nth nth]; try reflexivity; try lia.
    apply IH. lia.
  Qed.

  (* ----- one update ----- *)
  Definition upd (row cj : nat) (c : list Q) (i : nat) : list Q :=
    match nth_error c row with
    | Some x => if andb (negb (q0 x)) (negb (Nat.eqb cj i)) then set_nth c row 0%Q else c
    | None => c
    end.

  Lemma zrow_nth : forall cols idx row cj k,
    nth_error (zrow cols idx row cj) k = option_map (fun c => upd row cj c (idx + k)) (nth_error cols k).
  Proof.
    induction cols as [| c cols IH]; intros idx row cj k.
    - destruct k; reflexivity.
    - destruct k; cbn [zero_row nth_error option_map].
      + rewrite Nat.add_0_r. reflexivity.
      + rewrite IH. replace (S idx + k) with (idx + S k) by lia. reflexivity.
  Qed.

  Lemma zrow_len : forall cols idx row cj, List.length (zrow cols idx row cj) = List.length cols.
  Proof.
    induction cols as [| c cols IH]; intros; cbn [zero_row List.length]; [reflexivity |].
    rewrite IH. reflexivity.
  Qed.

  Lemma upd_cases : forall row cj c i,
    upd row cj c i = c \/
    (i <> cj /\ row < List.length c /\ q0 (nth row c 0%Q) = false /\ upd row cj c i = set_nth c row 0%Q).
  Proof.
    intros row cj c i. unfold upd.
    destruct (nth_error c row) as [x |] eqn:E; [| left; reflexivity].
    destruct (q0 x) eqn:Ex; cbn [negb andb]; [left; reflexivity |].
    destruct (Nat.eqb cj i) eqn:Ei; cbn [negb]; [left; reflexivity |].
    right. apply Nat.eqb_neq in Ei.
    assert (Hlt : row < List.length c) by (apply nth_error_Some; congruence).
    rewrite (nth_error_nth c row 0%Q E). auto.
  Qed.

  Lemma upd_self : forall row cj c, upd row cj c cj = c.
  Proof.
    intros. unfold upd. destruct (nth_error c row); [| reflexivity].
    rewrite Nat.eqb_refl. cbn [negb]. rewrite andb_false_r. reflexivity.
  Qed.

  Lemma upd_len : forall row cj c i, List.length (upd row cj c i) = List.length c.
  Proof.
    intros. destruct (upd_cases row cj c i) as [E | [_ [_ [_ E]]]]; rewrite E;
      [reflexivity | apply set_nth_len].
  Qed.

  Lemma zrow_vlen : forall cols idx row cj, Forall (vlen n) cols -> Forall (vlen n) (zrow cols idx row cj).
  Proof.
    induction cols as [| c cols IH]; intros idx row cj H; cbn [zero_row]; [constructor |].
    inversion H as [| ? ? H1 H2]; subst. constructor; [| apply IH; exact H2].
    change (vlen n (upd row cj c idx)). unfold vlen. rewrite upd_len. exact H1.
  Qed.

  (* ----- non-zero count ----- *)
  Lemma nz_set_nth : forall (c : list Q) r,
    List.length (nonzeros q0 (set_nth c r 0%Q)) <= List.length (nonzeros q0 c).
  Proof.
    unfold nonzeros. induction c as [| x c IH]; intros r; [cbn; lia |].
    destruct r; cbn [set_nth filter].
    - rewrite q0_zero. cbn [negb]. destruct (negb (q0 x)); cbn [List.length]; lia.
    - specialize (IH r). destruct (negb (q0 x)); cbn [List.length]; lia.
  Qed.

  Lemma nz_zrow : forall cols idx row cj,
    List.length (flat_map (nonzeros q0) (zrow cols idx row cj)) <= List.length (flat_map (nonzeros q0) cols).
  Proof.
    induction cols as [| c cols IH]; intros idx row cj; cbn [zero_row flat_map]; [lia |].
    rewrite !app_length. specialize (IH (S idx) row cj).
    change (List.length (nonzeros q0 (upd row cj c idx)) + List.length (flat_map (nonzeros q0) (zrow cols (S idx) row cj))
            <= List.length (nonzeros q0 c) + List.length (flat_map (nonzeros q0) cols)).
    assert (List.length (nonzeros q0 (upd row cj c idx)) <= List.length (nonzeros q0 c)).
    { destruct (upd_cases row cj c idx) as [E | [_ [_ [_ E]]]]; rewrite E; [lia | apply nz_set_nth]. }
    lia.
  Qed.

  Definition step (cols : list (list Q)) (rc : nat * nat) := zrow cols 0 (fst rc) (snd rc).

  Lemma nz_fold : forall prs cols,
    List.length (flat_map (nonzeros q0) (fold_left step prs cols)) <= List.length (flat_map (nonzeros q0) cols).
  Proof.
    induction prs as [| p prs IH]; intros cols; cbn [fold_left]; [lia |].
    specialize (IH (step cols p)). pose proof (nz_zrow cols 0 (fst p) (snd p)). unfold step in *. lia.
  Qed.

  Lemma vlen_fold : forall prs cols, Forall (vlen n) cols -> Forall (vlen n) (fold_left step prs cols).
  Proof.
    induction prs as [| p prs IH]; intros cols H; cbn [fold_left]; [exact H |].
    apply IH. apply zrow_vlen. exact H.
  Qed.

  (* ----- single columns ----- *)
  Definition single_at (r : nat) (c : list Q) : Prop :=
    q0 (nth r c 0%Q) = false /\ forall t, t <> r -> q0 (nth t c 0%Q) = true.

  Lemma single_at_lt : forall r c, single_at r c -> r < List.length c.
  Proof.
    intros r c [H _]. destruct (Nat.lt_ge_cases r (List.length c)) as [L | L]; [exact L |].
    rewrite nth_overflow in H by exact L. discriminate.
  Qed.

  (* set_nth c r 0 = c - (c_r / s_r) s *)
  Lemma elim_veq1 : forall r s c, vlen n s -> vlen n c -> single_at r s ->
    veq (set_nth c r 0%Q) (vadd c (vscale (- (nth r c 0 / nth r s 0))%Q s)).
  Proof.
    intros r s c Hs Hc Hsingle. pose proof (single_at_lt Hsingle) as Hr.
    destruct Hsingle as [Hnz Hz]. unfold vlen in *.
    apply veq_nth.
    - rewrite set_nth_len, vadd_len, vscale_len. lia.
    - intros t. rewrite vadd_nth by (rewrite vscale_len; lia). rewrite vscale_nth.
      destruct (Nat.eq_dec t r) as [E | E].
      + subst t. rewrite set_nth_same by lia. apply q0_false in Hnz. field. exact Hnz.
      + rewrite set_nth_other by exact E. rewrite (q0_true _ (Hz t E)). ring.
  Qed.

  (* c = set_nth c r 0 + (c_r / s_r) s *)
  Lemma elim_veq2 : forall r s c, vlen n s -> vlen n c -> single_at r s ->
    veq c (vadd (set_nth c r 0%Q) (vscale (nth r c 0 / nth r s 0)%Q s)).
  Proof.
    intros r s c Hs Hc Hsingle. pose proof (single_at_lt Hsingle) as Hr.
    destruct Hsingle as [Hnz Hz]. unfold vlen in *.
    apply veq_nth.
    - rewrite vadd_len, set_nth_len, vscale_len. lia.
    - intros t. rewrite vadd_nth by (rewrite set_nth_len, vscale_len; lia). rewrite vscale_nth.
      destruct (Nat.eq_dec t r) as [E | E].
      + subst t. rewrite set_nth_same by lia. apply q0_false in Hnz. field. exact Hnz.
      + rewrite set_nth_other by exact E. rewrite (q0_true _ (Hz t E)). ring.
  Qed.

  Lemma step_span : forall cols r j s, Forall (vlen n) cols ->
    nth_error cols j = Some s -> single_at r s -> span_eq n cols (zrow cols 0 r j).
  Proof.
    intros cols r j s Hcols Hj Hs.
    pose proof (zrow_vlen 0 r j Hcols) as Hcols'.
    assert (Hsin : In s cols) by (eapply nth_error_In; exact Hj).
    assert (Hsn : vlen n s) by (rewrite Forall_forall in Hcols; apply Hcols; exact Hsin).
    assert (Hj' : nth_error (zrow cols 0 r j) j = Some s).
    { rewrite zrow_nth, Hj. cbn [option_map Nat.add]. rewrite upd_self. reflexivity. }
    assert (Hsin' : In s (zrow cols 0 r j)) by (eapply nth_error_In; exact Hj').
    split; apply Forall_forall; intros c Hin.
    - apply In_nth_error in Hin. destruct Hin as [k Hk].
      rewrite zrow_nth in Hk. destruct (nth_error cols k) as [c0 |] eqn:Ek; [| discriminate].
      cbn [option_map Nat.add] in Hk. injection Hk as Hk. subst c.
      assert (Hc0in : In c0 cols) by (eapply nth_error_In; exact Ek).
      assert (Hc0n : vlen n c0) by (rewrite Forall_forall in Hcols; apply Hcols; exact Hc0in).
      destruct (upd_cases r j c0 k) as [E | [_ [_ [_ E]]]]; rewrite E.
      + apply in_span_In; assumption.
      + eapply in_span_veq; [| apply (elim_veq1 Hsn Hc0n Hs)].
        apply in_span_add; [exact Hcols | apply in_span_In; assumption |].
        apply in_span_scale; [exact Hcols | apply in_span_In; assumption].
    - apply In_nth_error in Hin. destruct Hin as [k Ek].
      assert (Hcn : vlen n c).
      { rewrite Forall_forall in Hcols; apply Hcols. eapply nth_error_In; exact Ek. }
      assert (Hk' : nth_error (zrow cols 0 r j) k = Some (upd r j c k)).
      { rewrite zrow_nth, Ek. reflexivity. }
      assert (Hin' : In (upd r j c k) (zrow cols 0 r j)) by (eapply nth_error_In; exact Hk').
      destruct (upd_cases r j c k) as [E | [_ [_ [_ E]]]]; rewrite E in Hin'.
      + apply in_span_In; assumption.
      + eapply in_span_veq; [| apply (elim_veq2 Hsn Hcn Hs)].
        apply in_span_add; [exact Hcols' | apply in_span_In; assumption |].
        apply in_span_scale; [exact Hcols' | apply in_span_In; assumption].
  Qed.

  (* ----- the invariant of the fold ----- *)
  Definition inv (cols : list (list Q)) (prs : list (nat * nat)) : Prop :=
    Forall (vlen n) cols /\ NoDup (map fst prs) /\
    forall r j, In (r, j) prs -> exists c, nth_error cols j = Some c /\ single_at r c.

  Lemma upd_single : forall r j c i r', r' <> r -> single_at r' c -> single_at r' (upd r j c i).
  Proof.
    intros r j c i r' Hne [Hnz Hz].
    destruct (upd_cases r j c i) as [E | [_ [Hr [_ E]]]]; rewrite E; [split; assumption |].
    split.
    - rewrite set_nth_other by exact Hne. exact Hnz.
    - intros t Ht. destruct (Nat.eq_dec t r) as [Etr | Etr].
      + subst t. rewrite set_nth_same by exact Hr. apply q0_zero.
      + rewrite set_nth_other by exact Etr. apply Hz. exact Ht.
  Qed.

  Lemma inv_step : forall cols r j prs, inv cols ((r, j) :: prs) -> inv (zrow cols 0 r j) prs.
  Proof.
    intros cols r j prs [Hl [Hnd Hp]]. cbn [map fst] in Hnd. inversion Hnd as [| ? ? Hnin Hnd']; subst.
    split; [apply zrow_vlen; exact Hl |]. split; [exact Hnd' |].
    intros r' j' Hin. destruct (Hp r' j' (or_intror Hin)) as [c [Hc Hs]].
    exists (upd r j c j'). split.
    - rewrite zrow_nth, Hc. reflexivity.
    - apply upd_single; [| exact Hs]. intros E. subst r'. apply Hnin.
      apply in_map_iff. exists (r, j'). split; [reflexivity | exact Hin].
  Qed.

  Lemma fold_span : forall prs cols, inv cols prs -> span_eq n cols (fold_left step prs cols).
  Proof.
    induction prs as [| [r j] prs IH]; intros cols Hinv; cbn [fold_left].
    - apply span_eq_refl. apply Hinv.
    - pose proof (inv_step Hinv) as Hinv'. specialize (IH _ Hinv').
      destruct Hinv as [Hl [_ Hp]]. destruct (Hp r j (or_introl eq_refl)) as [s [Hs1 Hs2]].
      unfold step at 2. cbn [fst snd].
      eapply span_eq_trans; [exact Hl | | eapply step_span; eassumption | exact IH].
      apply vlen_fold. apply zrow_vlen. exact Hl.
  Qed.
End Opt.

(* ---------- what pairs_of returns ---------- *)
Section Pairs.
  Variable n : nat.
  Variable all : list (list Q).

  Definition good (p : nat * nat) : Prop :=
    exists c, nth_error all (snd p) = Some c /\ is_single_column q0 c = true /\ In (fst p) (nz_rows q0 c 0 n).

  Lemma existsb_eqb_false : forall r seen, existsb (Nat.eqb r) seen = false -> ~ In r seen.
  Proof.
    intros r seen H Hin.
    assert (existsb (Nat.eqb r) seen = true).
    { apply existsb_exists. exists r. split; [exact Hin | apply Nat.eqb_refl]. }
    congruence.
  Qed.

  Lemma NoDup_snoc : forall (l : list nat) r, NoDup l -> ~ In r l -> NoDup (l ++ [r]).
  Proof.
    intros l r Hl Hr. apply (Permutation_NoDup (l := r :: l)).
    - apply Permutation_cons_append.
    - constructor; assumption.
  Qed.

  Lemma pairs_of_inv : forall cols idx seen acc prs,
    (forall k c, nth_error cols k = Some c -> nth_error all (idx + k) = Some c) ->
    seen = map fst acc -> NoDup seen -> Forall good acc ->
    pairs_of q0 cols idx n seen acc = inr prs ->
    NoDup (map fst prs) /\ Forall good prs.
  Proof.
    induction cols as [| c cols IH]; intros idx seen acc prs Hall Hseen Hnd Hgood Hrun.
    - cbn [pairs_of] in Hrun. injection Hrun as Hrun. subst prs seen. split; assumption.
    - assert (Hall' : forall k c0, nth_error cols k = Some c0 -> nth_error all (S idx + k) = Some c0).
      { intros k c0 Hk. replace (S idx + k) with (idx + S k) by lia. apply Hall. exact Hk. }
      cbn [pairs_of] in Hrun.
      destruct (is_single_column q0 c) eqn:Esc; [| eapply IH; eassumption].
      remember (nz_rows q0 c 0 n) as rs eqn:Ers.
      assert (Hsub : forall r, In r rs -> In r (nz_rows q0 c 0 n)) by (subst rs; auto).
      clear Ers. revert seen acc Hseen Hnd Hgood Hrun.
      induction rs as [| r rs IHr]; intros seen acc Hseen Hnd Hgood Hrun.
      + eapply IH; eassumption.
      + destruct (existsb (Nat.eqb r) seen) eqn:Eex; [discriminate |].
        apply existsb_eqb_false in Eex.
        apply (IHr (fun r0 H0 => Hsub r0 (or_intror H0)) (seen ++ [r]) (acc ++ [(r, idx)])).
        * rewrite map_app, Hseen. reflexivity.
        * apply NoDup_snoc; assumption.
        * apply Forall_app. split; [exact Hgood |]. constructor; [| constructor].
          exists c. cbn [fst snd]. split; [| split].
          -- specialize (Hall 0 c eq_refl). rewrite Nat.add_0_r in Hall. exact Hall.
          -- exact Esc.
          -- apply Hsub. left. reflexivity.
        * exact Hrun.
  Qed.

  Lemma nz_rows_spec : forall m (c : list Q) i r, In r (nz_rows q0 c i m) ->
    i <= r /\ exists x, nth_error c (r - i) = Some x /\ q0 x = false.
  Proof.
    induction m as [| m IH]; intros c i r H.
    - destruct c; destruct H.
    - destruct c as [| x c]; [destruct H |]. cbn [nz_rows] in H.
      assert (Hrec : In r (nz_rows q0 c (S i) m) ->
                     i <= r /\ exists y, nth_error (x :: c) (r - i) = Some y /\ q0 y = false).
      { intros H'. destruct (IH _ _ _ H') as [Hle [y [Hy1 Hy2]]]. split; [lia |].
        exists y. replace (r - i) with (S (r - S i)) by lia. cbn [nth_error]. auto. }
      destruct (q0 x) eqn:Ex; [apply Hrec; exact H |].
      destruct H as [H | H]; [| apply Hrec; exact H].
      subst r. split; [lia |]. exists x. rewrite Nat.sub_diag. auto.
  Qed.

  Lemma filter_one_unique : forall (p : Q -> bool) (c : list Q) a b x y,
    List.length (filter p c) = 1 ->
    nth_error c a = Some x -> p x = true -> nth_error c b = Some y -> p y = true -> a = b.
  Proof.
    induction c as [| z c IH]; intros a b x y Hlen Ha Hx Hb Hy.
    - destruct a; discriminate.
    - cbn [filter] in Hlen. destruct (p z) eqn:Ez.
      + cbn [List.length] in Hlen.
        assert (Hnil : filter p c = []) by (destruct (filter p c); [reflexivity | cbn in Hlen; lia]).
        assert (Hno : forall k w, nth_error c k = Some w -> p w = true -> False).
        { intros k w Hk Hw. assert (Hin : In w (filter p c)).
          { apply filter_In. split; [eapply nth_error_In; exact Hk | exact Hw]. }
          rewrite Hnil in Hin. destruct Hin. }
        destruct a as [| a]; destruct b as [| b]; cbn [nth_error] in Ha, Hb; try reflexivity; exfalso; eauto.
      + destruct a as [| a]; cbn [nth_error] in Ha; [congruence |].
        destruct b as [| b]; cbn [nth_error] in Hb; [congruence |].
        f_equal. eapply IH; eassumption.
  Qed.

  Lemma good_single : forall c r, vlen n c -> is_single_column q0 c = true ->
    In r (nz_rows q0 c 0 n) -> single_at r c.
  Proof.
    intros c r Hlen Hsc Hin. apply nz_rows_spec in Hin. destruct Hin as [_ [x [Hx Hq]]].
    rewrite Nat.sub_0_r in Hx. unfold is_single_column in Hsc. apply Nat.eqb_eq in Hsc.
    unfold nonzeros in Hsc. split.
    - rewrite (nth_error_nth c r 0%Q Hx). exact Hq.
    - intros t Ht. destruct (nth_error c t) as [y |] eqn:Et.
      + rewrite (nth_error_nth c t 0%Q Et). destruct (q0 y) eqn:Ey; [reflexivity |]. exfalso. apply Ht.
        apply (@filter_one_unique (fun x => negb (q0 x)) c t r y x Hsc Et);
          [cbv beta; rewrite Ey; reflexivity | exact Hx | cbv beta; rewrite Hq; reflexivity].
      + apply nth_error_None in Et. rewrite nth_overflow by exact Et. reflexivity.
  Qed.
End Pairs.

Lemma opt_shell_span : opt_shell_span_stmt.
Proof.
  unfold opt_shell_span_stmt. intros s s' Hrect Hrun.
  assert (Hl : Forall (vlen (List.length (exps s))) (coefs s)) by exact Hrect.
  unfold opt_shell in Hrun.
  destruct (Nat.ltb 1 (List.length (am s)) || Nat.ltb (List.length (coefs s)) 2).
  - injection Hrun as Hrun. subst s'.
    split; [reflexivity |]. split; [reflexivity |]. split; [exact Hrect |].
    split; [apply span_eq_refl; exact Hl | lia].
  - destruct (pairs_of q0 (coefs s) 0 (List.length (exps s)) [] []) as [e | prs] eqn:Ep;
      cbn [bind ok] in Hrun; [discriminate |].
    injection Hrun as Hrun. subst s'. cbn [exps am coefs]. unfold rect. cbn [exps coefs].
    split; [reflexivity |]. split; [reflexivity |].
    change (fun (cols : list (list Q)) (rc : nat * nat) => zero_row q0 0%Q cols 0 (fst rc) (snd rc)) with step.
    split; [apply vlen_fold; exact Hl |]. split; [| apply nz_fold].
    apply fold_span.
    destruct (@pairs_of_inv (List.length (exps s)) (coefs s) (coefs s) 0 [] [] prs
                (fun k c H => H) eq_refl (NoDup_nil _) (Forall_nil _) Ep) as [Hnd Hgood].
    split; [exact Hl |]. split; [exact Hnd |].
    intros r j Hin. rewrite Forall_forall in Hgood. destruct (Hgood _ Hin) as [c [Hc1 [Hc2 Hc3]]].
    cbn [fst snd] in *. exists c. split; [exact Hc1 |].
    apply (good_single (n := List.length (exps s))); [| exact Hc2 | exact Hc3].
    rewrite Forall_forall in Hl. apply Hl. eapply nth_error_In. exact Hc1.
Qed.

Print Assumptions unc_seg_spec.
Print Assumptions rm_free_spec.
Print Assumptions rm_free_wf.
Print Assumptions rm_free_spec_all.
Print Assumptions rm_free_wf_all.
Print Assumptions unc_seg_shells_spec.
Print Assumptions unc_seg_shells_nodup.
Print Assumptions unc_seg_shells_shape.
Print Assumptions opt_shell_natural.
Print Assumptions opt_shell_span.
