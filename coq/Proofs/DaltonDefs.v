(* Statements about the Dalton writer / reader pair (electron shells): what write_dalton prints, read_dalton reads back.
   Definitions only; the proofs are in Proofs/DaltonSpec.v. *)
From BSE Require Import Model.Val Model.Text Model.Basis Model.Manip Model.Matrix Model.Lut Model.Elements Model.Nwchem
                        Model.Turbomole Model.Dalton Proofs.MatrixDefs Proofs.NwchemDefs Proofs.TurbomoleDefs.
Require Import Coq.Sorting.Sorted.

(* ---------- well-formed input of the writer (what is left after make_general / sort_basis) ---------- *)
Definition dal_shell_ok (s : sshell) : Prop :=
  (* at least one primitive *)
  exps s <> [] /\
  (* exactly one angular momentum (make_general starts with uncontract_spdf(basis, 0): no fused shell is left), and one for
     which the writer can print its two comments: misc.contraction_string uses lut._amchar_map_hik (25 letters),
     amint_to_char(am, hij=True) lut._amchar_map_hij (26 letters) *)
  (exists l, am s = [l] /\ (0 <= l < 25)%Z) /\
  (* at least one contraction, every one with one coefficient per primitive *)
  coefs s <> [] /\ Forall (fun c => List.length c = List.length (exps s)) (coefs s) /\
  (* every number is a string matching helpers.floating_re (this implies: non-empty, no white space, a decimal point,
     bytes < 128 only - lemmas floating_is_cell, floating_ascii of Proofs/MatrixSpec.v) *)
  Forall floating (exps s) /\ Forall (Forall floating) (coefs s).

(* basis['name'] is printed in the first line, `! Basis = name`, which the reader skips.  It has to stay on that line:
   ASCII bytes only (the model works on bytes), none of them one of the line boundaries of str.splitlines
   (\n \v \f \r \x1c \x1d \x1e).  The empty and the blank name are fine. *)
Definition dal_name_ok (bsname : string) : Prop := sall tm_name_char bsname = true.

(* everything but the condition on the momenta *)
Definition dal_pre (bsname : string) (els : list (Z * list sshell)) : Prop :=
  dal_name_ok bsname /\
  (* at least one element (a file without elements makes read_formatted_basis_str fail, see dal_roundtrip_empty_stmt) *)
  els <> [] /\
  (* dictionary keys: pairwise distinct atomic numbers, all of them in lut's element table (1..120) *)
  NoDup (map fst els) /\
  Forall (fun zs => (1 <= fst zs <= 120)%Z /\
                    (* at least one shell (the reader refuses an element block of fewer than three lines) *)
                    snd zs <> [] /\
                    Forall dal_shell_ok (snd zs)) els.

(* The format does not name the momentum of a block (the letter is in a comment only): the reader numbers the blocks of an
   element 0, 1, 2, ...  So the shells of an element must have the momenta 0, 1, ..., n-1 in this order.  After make_general
   and sort_basis there is one shell per momentum in increasing order, and the condition says: no momentum below the highest
   one is missing (dal_contiguous_sorted_stmt). *)
Definition dal_contiguous (shs : list sshell) : Prop :=
  map (@am string) shs = map (fun i => [i]) (zrange 0 (List.length shs)).

Definition dal_ok (bsname : string) (els : list (Z * list sshell)) : Prop :=
  dal_pre bsname els /\ Forall (fun zs => dal_contiguous (snd zs)) els.

(* ---------- what comes back ---------- *)
(* the function type the reader assigns: lut.function_type_from_am([l], 'gto', 'spherical'), whatever the function type
   of the written shell was (tm_ftype of Proofs/TurbomoleDefs.v); the region is dropped; the numbers come back with the
   normalisation of matrix_roundtrip_stmt, conv = false (every digit, sign and point kept, d/D -> e/E) *)
Definition dal_shell_at (l : Z) (s : sshell) : sshell :=
  mkShell (tm_ftype [l]) "" [l] (map (norm false) (exps s)) (map (map (norm false)) (coefs s)).

(* what the reader makes of the shells of one element: the block at position i gets the momentum i *)
Fixpoint dal_renumber (i : Z) (shs : list sshell) : list sshell :=
  match shs with
  | [] => []
  | s :: t => dal_shell_at i s :: dal_renumber (i + 1)%Z t
  end.
Definition dal_read_back (els : list (Z * list sshell)) : list (Z * list sshell) :=
  map (fun zs => (fst zs, dal_renumber 0 (snd zs))) els.

(* the same data as was written: momenta kept *)
Definition dal_expected_shell (s : sshell) : sshell :=
  mkShell (tm_ftype (am s)) "" (am s) (map (norm false) (exps s)) (map (map (norm false)) (coefs s)).
Definition dal_expected (els : list (Z * list sshell)) : list (Z * list sshell) :=
  map (fun zs => (fst zs, map dal_expected_shell (snd zs))) els.

(* ---------- statements ---------- *)
(* the writer does not fail on well-formed input (no condition on the order of the momenta is needed for that) *)
Definition dal_write_total_stmt : Prop :=
  forall bsname els, dal_pre bsname els -> exists t, dal_write_electron bsname els = inr t.

(* what the reader returns for ANY input the writer accepts: the same elements in order, the same shells in order with the
   same numbers, and the momenta 0, 1, 2, ... by position *)
Definition dal_roundtrip_positional_stmt : Prop :=
  forall bsname els, dal_pre bsname els -> dal_roundtrip bsname els = inr (dal_read_back els).

(* reading back what was written gives exactly the same elements, in order, with the same shells, in order *)
Definition dal_roundtrip_stmt : Prop :=
  forall bsname els, dal_ok bsname els -> dal_roundtrip bsname els = inr (dal_expected els).

(* and the condition on the momenta is exactly what is needed *)
Definition dal_roundtrip_iff_stmt : Prop :=
  forall bsname els, dal_pre bsname els ->
    (dal_roundtrip bsname els = inr (dal_expected els) <-> Forall (fun zs => dal_contiguous (snd zs)) els).

(* for shells sorted by strictly increasing momentum (the writer's own normalisation): contiguous = every momentum below a
   momentum that is there is there as well, i.e. nothing is missing between 0 and the highest momentum *)
Definition shell_l (s : sshell) : Z := hd 0%Z (am s).
Definition dal_contiguous_sorted_stmt : Prop :=
  forall shs, Forall (fun s => exists l, am s = [l] /\ (0 <= l)%Z) shs ->
    StronglySorted Z.lt (map shell_l shs) ->
    (dal_contiguous shs <->
     forall l m, In m (map shell_l shs) -> (0 <= l <= m)%Z -> In l (map shell_l shs)).

(* C04 direction: every exponent and every coefficient of the input is, literally, a white-space delimited token of some
   line of the written text (convert_exp=False: no marker conversion; the writer leaves out nothing, the zero coefficients
   that make_general fills in are printed like all others) *)
Definition dal_number_of (els : list (Z * list sshell)) (x : string) : Prop :=
  exists zs s, In zs els /\ In s (snd zs) /\ (In x (exps s) \/ exists c, In c (coefs s) /\ In x c).
Definition dal_no_number_lost_stmt : Prop :=
  forall bsname els t, dal_pre bsname els -> dal_write_electron bsname els = inr t ->
    forall x, dal_number_of els x -> exists line, In line (splitlines t) /\ In x (tokens_acc line "").

(* ---------- the condition on the momenta cannot be dropped: VALID basis data that does not come back ---------- *)
Definition dal_sh (ft : string) (l : Z) : sshell := mkShell ft "" [l] ["1.0"] [["1.0"]].
(* an element with s, d and f shells but no p shell (a valid element; such data is what is left of e.g. cc-pVTZ carbon
   without its p shells): the d shell comes back as a p shell, the f shell as a d shell - no error anywhere *)
Definition dal_gap_els : list (Z * list sshell) :=
  [(6%Z, [dal_sh "gto" 0; dal_sh "gto_spherical" 2; dal_sh "gto_spherical" 3])].
Definition dal_gap_counterexample_stmt : Prop :=
  dal_pre "n" dal_gap_els /\ ~ dal_contiguous (snd (hd (0%Z, []) dal_gap_els)) /\
  dal_roundtrip "n" dal_gap_els = inr [(6%Z, [dal_sh "gto" 0; dal_sh "gto" 1; dal_sh "gto_spherical" 2])] /\
  dal_roundtrip "n" dal_gap_els <> inr (dal_expected dal_gap_els).
(* an element without s shell (the store has such elements: crenbl for Z >= 95): everything moves down by one *)
Definition dal_nos_counterexample_stmt : Prop :=
  dal_pre "n" [(95%Z, [dal_sh "gto" 1; dal_sh "gto_spherical" 2])] /\
  dal_roundtrip "n" [(95%Z, [dal_sh "gto" 1; dal_sh "gto_spherical" 2])] = inr [(95%Z, [dal_sh "gto" 0; dal_sh "gto" 1])].
(* high momenta.  The reader never looks at a letter, so there is no limit of its own: the momenta 0..24 in a row come back
   exactly (24 is the highest momentum misc.contraction_string can print); a single shell of momentum 11 comes back as an
   s shell - because the ten momenta below are missing, not because of the letter *)
Definition dal_high_els : list (Z * list sshell) :=
  [(1%Z, map (fun l => dal_sh (if (l <=? 1)%Z then "gto" else "gto_spherical") l) (zrange 0 25))].
Definition dal_high_momenta_stmt : Prop :=
  dal_ok "n" dal_high_els /\ dal_roundtrip "n" dal_high_els = inr dal_high_els /\
  dal_roundtrip "n" [(1%Z, [dal_sh "gto_spherical" 11])] = inr [(1%Z, [dal_sh "gto" 0])] /\
  (* momentum 25 has the letter `e` in the writer's own table but none in contraction_string's *)
  dal_write_electron "n" [(1%Z, [dal_sh "gto_spherical" 25])] = inl EIndex.
(* the shells in another order (not possible after sort_basis): numbered by position again *)
Definition dal_order_counterexample_stmt : Prop :=
  dal_roundtrip "n" [(1%Z, [dal_sh "gto" 1; dal_sh "gto" 0])] = inr [(1%Z, [dal_sh "gto" 0; dal_sh "gto" 1])].

(* ---------- the other conditions of dal_pre cannot be dropped ---------- *)
Definition dal_h : sshell := dal_sh "gto" 0.
(* els <> [] : only `! Basis = n` is written; read_dalton returns a bare dict instead of a pair and
   read_formatted_basis_str fails to unpack it (ValueError) *)
Definition dal_roundtrip_empty_stmt : Prop := dal_roundtrip "n" [] = inl EValue.
(* snd zs <> [] : an element without shells.  As the last element: IndexError (the loop that skips the comments after `a Z`
   runs off the end of the list); elsewhere: RuntimeError (block of fewer than three lines) *)
Definition dal_roundtrip_noshell_stmt : Prop :=
  dal_roundtrip "n" [(1%Z, [dal_h]); (2%Z, [])] = inl EIndex /\
  dal_roundtrip "n" [(1%Z, []); (2%Z, [dal_h])] = inl ERuntime.
(* a name with a line boundary: the rest of the name is a line of its own, here one that starts an element *)
Definition dal_roundtrip_nlname_stmt : Prop :=
  dal_roundtrip ("x" +++ nl1 +++ "a 9") [(1%Z, [dal_h])] = inl ERuntime.
(* the empty name, a blank name and a name that looks like an element comment are fine *)
Definition dal_roundtrip_names_stmt : Prop :=
  dal_roundtrip "" [(1%Z, [dal_h])] = inr [(1%Z, [dal_h])] /\
  dal_roundtrip "   " [(1%Z, [dal_h])] = inr [(1%Z, [dal_h])] /\
  dal_roundtrip "helium (1s) -> [1s]" [(1%Z, [dal_h])] = inr [(1%Z, [dal_h])].
(* the same atomic number twice (not possible in a Python dict): create_element_data refuses the second block *)
Definition dal_roundtrip_dup_stmt : Prop := dal_roundtrip "n" [(1%Z, [dal_h]); (1%Z, [dal_h])] = inl ERuntime.
(* a fused shell (not possible after make_general) is printed as one block `! sp functions` with two columns and comes
   back as ONE s shell with two contractions *)
Definition dal_roundtrip_fused_stmt : Prop :=
  dal_roundtrip "n" [(1%Z, [mkShell "gto" "" [0%Z; 1%Z] ["1.0"] [["1.0"]; ["2.0"]]])] =
    inr [(1%Z, [mkShell "gto" "" [0%Z] ["1.0"] [["1.0"]; ["2.0"]]])].
(* no primitive, no contraction (make_general / sort_basis do not let such shells through): the reader refuses the block *)
Definition dal_roundtrip_noprim_stmt : Prop :=
  dal_roundtrip "n" [(1%Z, [mkShell "gto" "" [0%Z] [] [[]]])] = inl ERuntime /\
  dal_roundtrip "n" [(1%Z, [mkShell "gto" "" [0%Z] ["1.0"] []])] = inl ERuntime.
(* atomic number 121 has no name, a number without a decimal point cannot be printed: the writer fails *)
Definition dal_write_z121_stmt : Prop := dal_write_electron "n" [(121%Z, [dal_h])] = inl EKey.
Definition dal_write_nopoint_stmt : Prop :=
  dal_write_electron "n" [(1%Z, [mkShell "gto" "" [0%Z] ["1"] [["1.0"]]])] = inl EValue.
(* what is lost even when dal_ok holds: a Cartesian d shell comes back as gto_spherical, a Fortran marker D comes back as E
   (sort_basis calls float() on the exponents, so a D does not get as far as the modelled part of the writer; the regions
   are emptied by make_general already) *)
Definition dal_roundtrip_cartesian_stmt : Prop :=
  dal_roundtrip "n" [(1%Z, [mkShell "gto" "valence" [0%Z] ["1.0D+00"] [["1.0"]]; dal_sh "gto" 1;
                            mkShell "gto_cartesian" "polarization" [2%Z] ["1.0"] [["1.0"]]])] =
    inr [(1%Z, [mkShell "gto" "" [0%Z] ["1.0E+00"] [["1.0"]]; dal_sh "gto" 1; dal_sh "gto_spherical" 2])].

(* ---------- a concrete instance from the store: cc-pVDZ for H and O as write_dalton sees it after make_general and
   sort_basis; dx_text is, byte for byte, basis_set_exchange.get_basis('cc-pvdz', elements=[1, 8], fmt='dalton',
   header=False) ---------- *)
Definition dx_1_0 : sshell := mkShell "gto" "" [(0)%Z] ["1.301000E+01"; "1.962000E+00"; "4.446000E-01"; "1.220000E-01"] [["1.968500E-02"; "1.379770E-01"; "4.781480E-01"; "5.012400E-01"]; ["0.000000E+00"; "0.000000E+00"; "0.000000E+00"; "1.000000E+00"]].
Definition dx_1_1 : sshell := mkShell "gto" "" [(1)%Z] ["7.270000E-01"] [["1.0000000"]].
Definition dx_8_0 : sshell := mkShell "gto" "" [(0)%Z] ["1.172000E+04"; "1.759000E+03"; "4.008000E+02"; "1.137000E+02"; "3.703000E+01"; "1.327000E+01"; "5.025000E+00"; "1.013000E+00"; "3.023000E-01"] [["7.100000E-04"; "5.470000E-03"; "2.783700E-02"; "1.048000E-01"; "2.830620E-01"; "4.487190E-01"; "2.709520E-01"; "1.545800E-02"; "-2.585000E-03"]; ["-1.600000E-04"; "-1.263000E-03"; "-6.267000E-03"; "-2.571600E-02"; "-7.092400E-02"; "-1.654110E-01"; "-1.169550E-01"; "5.573680E-01"; "5.727590E-01"]; ["0.000000E+00"; "0.000000E+00"; "0.000000E+00"; "0.000000E+00"; "0.000000E+00"; "0.000000E+00"; "0.000000E+00"; "0.000000E+00"; "1.000000E+00"]].
Definition dx_8_1 : sshell := mkShell "gto" "" [(1)%Z] ["1.770000E+01"; "3.854000E+00"; "1.046000E+00"; "2.753000E-01"] [["4.301800E-02"; "2.289130E-01"; "5.087280E-01"; "4.605310E-01"]; ["0.000000E+00"; "0.000000E+00"; "0.000000E+00"; "1.000000E+00"]].
Definition dx_8_2 : sshell := mkShell "gto_spherical" "" [(2)%Z] ["1.185000E+00"] [["1.0000000"]].
Definition dx_els : list (Z * list sshell) := [(1%Z, [dx_1_0; dx_1_1]); (8%Z, [dx_8_0; dx_8_1; dx_8_2])].
Definition dx_name : string := "cc-pVDZ".
Definition dx_text : string :=
  String.concat nl1
   ["! Basis = cc-pVDZ";
    "";
    "a 1";
    "! HYDROGEN       (4s,1p) -> [2s,1p]";
    "! s functions";
    "H    4    2";
    "      1.301000E+01           1.968500E-02           0.000000E+00";
    "      1.962000E+00           1.379770E-01           0.000000E+00";
    "      4.446000E-01           4.781480E-01           0.000000E+00";
    "      1.220000E-01           5.012400E-01           1.000000E+00";
    "! p functions";
    "H    1    1";
    "      7.270000E-01           1.0000000";
    "a 8";
    "! OXYGEN       (9s,4p,1d) -> [3s,2p,1d]";
    "! s functions";
    "H    9    3";
    "      1.172000E+04           7.100000E-04          -1.600000E-04           0.000000E+00";
    "      1.759000E+03           5.470000E-03          -1.263000E-03           0.000000E+00";
    "      4.008000E+02           2.783700E-02          -6.267000E-03           0.000000E+00";
    "      1.137000E+02           1.048000E-01          -2.571600E-02           0.000000E+00";
    "      3.703000E+01           2.830620E-01          -7.092400E-02           0.000000E+00";
    "      1.327000E+01           4.487190E-01          -1.654110E-01           0.000000E+00";
    "      5.025000E+00           2.709520E-01          -1.169550E-01           0.000000E+00";
    "      1.013000E+00           1.545800E-02           5.573680E-01           0.000000E+00";
    "      3.023000E-01          -2.585000E-03           5.727590E-01           1.000000E+00";
    "! p functions";
    "H    4    2";
    "      1.770000E+01           4.301800E-02           0.000000E+00";
    "      3.854000E+00           2.289130E-01           0.000000E+00";
    "      1.046000E+00           5.087280E-01           0.000000E+00";
    "      2.753000E-01           4.605310E-01           1.000000E+00";
    "! d functions";
    "H    1    1";
    "      1.185000E+00           1.0000000";
    ""].

(* after the writer's normalisation the input has no region and the function types of the reader, and the store writes its
   numbers with E: what comes back is the input itself *)
Definition dal_example_stmt : Prop :=
  dal_ok dx_name dx_els /\
  dal_write_electron dx_name dx_els = inr dx_text /\
  dal_expected dx_els = dx_els /\
  dal_roundtrip dx_name dx_els = inr dx_els.
