(* Statements about the two Molcas writers and the Molcas reader (electron shells): what write_molcas_library prints,
   read_molcas reads back exactly; what write_molcas (the inline form) prints, read_molcas never accepts.
   Definitions only; the proofs are in Proofs/MolcasSpec.v. *)
From BSE Require Import Model.Val Model.Text Model.Basis Model.Manip Model.Matrix Model.Lut Model.Elements Model.Nwchem
                        Model.Molcas Proofs.MatrixDefs Proofs.NwchemDefs.

(* ---------- well-formed input of the writers (what is left after make_general / sort_basis) ---------- *)
(* `floating s` (Proofs/NwchemDefs.v): s matches helpers.floating_re entirely; this implies: non-empty, no white space, a
   decimal point, bytes < 128 only *)
Definition mc_shell_wf (s : sshell) : Prop :=
  (* a non-empty list of angular momenta that have a letter in lut._amchar_map_hik (25 letters) *)
  am s <> [] /\ Forall (fun l => (0 <= l < 25)%Z) (am s) /\
  (* at least one primitive, at least one general contraction, every one with one coefficient per primitive *)
  exps s <> [] /\ coefs s <> [] /\ Forall (fun c => List.length c = List.length (exps s)) (coefs s) /\
  (* every number is a string matching helpers.floating_re *)
  Forall floating (exps s) /\ Forall (Forall floating) (coefs s).

(* mcas_ok: what BOTH writers need in order to print an element (and to print every number on a line of its own shell) *)
Definition mcas_ok (els : list (Z * list sshell)) : Prop :=
  Forall (fun zs => (* an element of the periodic table *)
                    (1 <= fst zs <= 118)%Z /\
                    (* at least one shell: misc.max_am raises ValueError (max of an empty list) otherwise *)
                    snd zs <> [] /\
                    Forall mc_shell_wf (snd zs)) els.

(* the iteration order of the Python set of cartesian letters: whatever it is, it yields elements of the set *)
Definition sord_ok (sord : list string -> list string) : Prop := forall l, incl (sord l) l.

(* bytes that do not begin a line boundary of str.splitlines: not \n \r \v \f \x1c \x1d \x1e, not 0xC2 (U+0085 = C2 85),
   not 0xE2 (U+2028 / U+2029 = E2 80 A8 / A9) *)
Definition line_char (c : ascii) : bool :=
  negb (existsb (Nat.eqb (nat_of_ascii c)) [10; 11; 12; 13; 28; 29; 30; 194; 226]).
Definition one_line (s : string) : Prop := sall line_char s = true.

(* the basis set name, as the library writer prints it (spaces already replaced by '_') *)
Definition mc_name_ok (bs_name : string) : Prop :=
  one_line bs_name /\
  (* `[^.]+` : not empty, and no point, so that the second group of element_head_re is the whole name *)
  bs_name <> "" /\ sany (Ascii.eqb ".") bs_name = false /\
  (* `(?:ECP\.)?` would swallow it and the AUTHOR would be taken for the name *)
  bs_name <> "ECP" /\
  (* _convert_str_int would turn it into an int, and int has no .lower() *)
  py_int_like bs_name = false.

(* first author and formatted reference of an element, as first_author / format_reference return them *)
Definition mc_meta_ok (ar : string * string) : Prop :=
  one_line (fst ar) /\ one_line (snd ar) /\
  (* the reference line must survive prune_lines(lines, '*#$') and must not look like an element head: the reader drops
     THREE lines (head, reference, name line) without looking at them *)
  strip_ws (snd ar) <> "" /\ first_in "*#$/" (strip_ws (snd ar)) = false.

(* mcasl_ok: the input on which write_molcas_library / read_molcas is a round trip *)
Definition mcasl_ok (sord : list string -> list string) (bs_name : string) (meta : Z -> string * string)
                    (els : list (Z * list sshell)) : Prop :=
  sord_ok sord /\ mc_name_ok bs_name /\
  (* at least one element (basis_names_found is empty otherwise: StopIteration) *)
  els <> [] /\
  (* dictionary keys: pairwise distinct *)
  NoDup (map fst els) /\
  mcas_ok els /\
  Forall (fun zs => mc_meta_ok (meta (fst zs)) /\
                    (* the shells of an element are s, p, d, ... WITHOUT A GAP, one shell each: the file does not say which
                       momentum a block has, the reader counts 0, 1, 2, ... *)
                    map (@am string) (snd zs) = map (fun k => [Z.of_nat k]) (seq 0 (List.length (snd zs)))) els.

(* ---------- what comes back ---------- *)
(* function type lut.function_type_from_am([l], 'gto', 'spherical') - 'gto' for s and p, 'gto_spherical' above, whatever the
   input said ('gto_cartesian' is printed as an Options block which the reader skips) -, region '', the momentum, the
   numbers with the normalisation of matrix_roundtrip_stmt (conv = false: every digit, sign and point kept, d/D -> e/E) *)
Definition mc_expected_shell (s : sshell) : sshell :=
  mkShell (nw_ftype "spherical" (am s)) "" (am s) (map (norm false) (exps s)) (map (map (norm false)) (coefs s)).
Definition mcasl_expected (els : list (Z * list sshell)) : list (Z * list sshell) :=
  map (fun zs => (fst zs, map mc_expected_shell (snd zs))) els.

(* ---------- statements: the writers ---------- *)
Definition mcas_write_total_stmt : Prop :=
  forall sord els, mcas_ok els -> exists t, mcas_write_electron sord els = inr t.
Definition mcasl_write_total_stmt : Prop :=
  forall sord bs_name meta els, mcas_ok els -> exists t, mcasl_write_electron sord bs_name meta els = inr t.

(* C04 direction: every exponent and every coefficient of the input is a white-space delimited token of some line of the
   written text - unchanged (no exponent-marker conversion, no coefficient is left out, zeros included) *)
Definition mcas_no_number_lost_stmt : Prop :=
  forall sord els t, sord_ok sord -> mcas_ok els -> mcas_write_electron sord els = inr t ->
    forall x, nw_number_of els x -> exists line, In line (splitlines t) /\ In x (tokens_acc line "").
Definition mcasl_no_number_lost_stmt : Prop :=
  forall sord bs_name meta els t, sord_ok sord -> one_line bs_name -> Forall (fun zs => mc_meta_ok (meta (fst zs))) els ->
    mcas_ok els -> mcasl_write_electron sord bs_name meta els = inr t ->
    forall x, nw_number_of els x -> exists line, In line (splitlines t) /\ In x (tokens_acc line "").

(* ---------- statements: format 'molcas' (inline) ---------- *)
(* FINDING.  readers/read.py registers read_molcas for the format 'molcas', but read_molcas only understands the
   basis_library form: whatever write_molcas prints (first line `Basis set`) is refused with a RuntimeError (element_head_re,
   or the min_size test of partition_lines).  No hypothesis on the input at all. *)
Definition mcas_roundtrip_never_stmt : Prop :=
  forall sord els t, els <> [] -> mcas_write_electron sord els = inr t ->
    mcas_read_electron (splitlines t) = inl ERuntime.
(* the empty basis: the empty text, StopIteration in `next(iter(basis_names_found))` *)
Definition mcas_roundtrip_empty_stmt : Prop := forall sord, mcas_roundtrip sord [] = inl EOther.
(* so the full-strength round trip statement has no instance *)
Definition mcas_roundtrip_refuted_stmt : Prop := forall sord els r, mcas_roundtrip sord els <> inr r.

(* ---------- statements: format 'molcas_library' ---------- *)
(* reading back what was written gives exactly the same elements, in order, with the same shells, in order; the name that
   comes back is the lower-cased name *)
Definition mcasl_read_back_stmt : Prop :=
  forall sord bs_name meta els t, mcasl_ok sord bs_name meta els -> mcasl_write_electron sord bs_name meta els = inr t ->
    mcas_read (splitlines t) = inr (mcasl_expected els, lower bs_name).
Definition mcasl_roundtrip_stmt : Prop :=
  forall sord bs_name meta els, mcasl_ok sord bs_name meta els ->
    mcasl_roundtrip sord bs_name meta els = inr (mcasl_expected els).

(* ---------- the hypotheses of mcasl_ok that cannot be dropped ---------- *)
Definition mc_meta0 (z : Z) : string * string := ("Author", "A. Author. J. Chem. Phys. 1 (2000) 1.").
Definition mc_s : sshell := mkShell "gto" "" [0%Z] ["1.0"] [["1.0"]].
Definition mc_p : sshell := mkShell "gto" "" [1%Z] ["0.5"; "0.25"] [["1.0"; "0.0"]; ["0.0"; "1.0"]].
Definition mc_d : sshell := mkShell "gto_spherical" "" [2%Z] ["0.8000000E+00"] [["1.0000000"]].
Definition mc_dc : sshell := mkShell "gto_cartesian" "" [2%Z] ["0.8000000E+00"] [["1.0000000"]].
Definition mc_fc : sshell := mkShell "gto_cartesian" "" [3%Z] ["0.8000000D+00"] [["1.0000000"]].

(* FINDING (valid basis data).  A GAP in the momenta: an element that has p functions only (a polarization set), or s and d
   but no p.  The writer prints it (max_am = 1, one block), the reader wants max_am + 1 blocks: RuntimeError *)
Definition mcasl_roundtrip_gap_stmt : Prop :=
  mcasl_roundtrip id "X" mc_meta0 [(1%Z, [mc_p])] = inl ERuntime /\
  mcasl_roundtrip id "X" mc_meta0 [(6%Z, [mc_s; mc_d])] = inl ERuntime.
(* FINDING (valid basis data, silent change).  Cartesian d and f shells: the writer prints `Options / Cartesian d f /
   EndOptions`, the reader skips the block and answers 'gto_spherical'.  (mcasl_ok holds: this IS an instance of
   mcasl_roundtrip_stmt, the change is in mcasl_expected.) *)
Definition mcasl_cartesian_stmt : Prop :=
  let els := [(6%Z, [mc_s; mc_p; mc_dc; mc_fc])] in
  mcasl_ok id "X" mc_meta0 els /\
  mcasl_write_electron id "X" mc_meta0 els =
    inr (String.concat nl1
          ["/C.X.Author.1s2p1d1f.1s2p1d1f.";
           "A. Author. J. Chem. Phys. 1 (2000) 1.";
           "CARBON (1s,2p,1d,1f) -> [1s,2p,1d,1f]";
           "Options";
           "Cartesian d f";
           "EndOptions";
           "      6.0   3";
           "* s-type functions";
           "     1    1";
           "               1.0";
           "      1.0";
           "* p-type functions";
           "     2    2";
           "               0.5";
           "               0.25";
           "      1.0                    0.0";
           "      0.0                    1.0";
           "* d-type functions";
           "     1    1";
           "               0.8000000E+00";
           "      1.0000000";
           "* f-type functions";
           "     1    1";
           "               0.8000000D+00";
           "      1.0000000";
           "";
           ""]) /\
  mcasl_roundtrip id "X" mc_meta0 els =
    inr [(6%Z, [mc_s; mc_p; mc_d; mkShell "gto_spherical" "" [3%Z] ["0.8000000E+00"] [["1.0000000"]]])] /\
  (* the other iteration order of the set {'d', 'f'} gives another text and the same result *)
  mcasl_write_electron (@rev string) "X" mc_meta0 els <> mcasl_write_electron id "X" mc_meta0 els /\
  mcasl_roundtrip (@rev string) "X" mc_meta0 els = mcasl_roundtrip id "X" mc_meta0 els.
(* the name: empty (no match), `ECP` with two authors (the authors are taken for two basis set names), a number
   (AttributeError: 'int' object has no attribute 'lower'); a name with a point is cut at the point, the data comes back *)
Definition mc_meta2 (z : Z) : string * string :=
  if Z.eqb z 1 then ("Smith", "J. Smith. 2000.") else ("Jones", "K. Jones. 2001.").
Definition mcasl_roundtrip_name_stmt : Prop :=
  mcasl_roundtrip id "" mc_meta0 [(1%Z, [mc_s])] = inl ERuntime /\
  mcasl_roundtrip id "ECP" mc_meta2 [(1%Z, [mc_s]); (2%Z, [mc_s])] = inl ERuntime /\
  mcasl_roundtrip id "ECP" mc_meta0 [(1%Z, [mc_s]); (2%Z, [mc_s])] = inr [(1%Z, [mc_s]); (2%Z, [mc_s])] /\
  mcasl_roundtrip id "2023" mc_meta0 [(1%Z, [mc_s])] = inl EOther /\
  (exists t, mcasl_write_electron id "v1.5" mc_meta0 [(1%Z, [mc_s])] = inr t /\
             mcas_read (splitlines t) = inr ([(1%Z, [mc_s])], "v1")).
(* the reference line: a line that prune_lines removes shifts the three dropped lines by one, the charge line is lost *)
Definition mcasl_roundtrip_reference_stmt : Prop :=
  mcasl_roundtrip id "X" (fun _ => ("A", "* see the manual")) [(1%Z, [mc_s])] = inl ERuntime /\
  mcasl_roundtrip id "X" (fun _ => ("A", "")) [(1%Z, [mc_s])] = inl ERuntime /\
  mcasl_roundtrip id "X" (fun _ => ("A", "/see the manual")) [(1%Z, [mc_s])] = inl ERuntime.
(* no element; an element without shells (the WRITER raises: ValueError in misc.max_am); the same key twice (impossible for
   a Python dictionary) *)
Definition mcasl_roundtrip_empty_stmt : Prop :=
  mcasl_roundtrip id "X" mc_meta0 [] = inl EOther /\
  mcasl_write_electron id "X" mc_meta0 [(1%Z, [])] = inl EValue /\
  mcas_write_electron id [(1%Z, [])] = inl EValue /\
  mcasl_roundtrip id "X" mc_meta0 [(1%Z, [mc_s]); (1%Z, [mc_s])] = inl ERuntime.

(* ---------- the reader alone ---------- *)
(* a non-integer nuclear charge: the reader means to raise RuntimeError("Non-integer specified for nuclear charge: " +
   nuc_charge) but nuc_charge is a float by then: TypeError.  A block without coefficients is read as uncontracted (unit
   matrix); ngen and max_am are optional *)
Definition mcas_reader_stmt : Prop :=
  mcas_read_electron ["/H.X.a.b."; "ref"; "name"; "1.5  0"; "1 1"; "1.0"; "1.0"] = inl EType /\
  mcas_read_electron ["/H.X.a.b."; "ref"; "name"; "1."; "2"; "1.0 0.5"] =
    inr [(1%Z, [mkShell "gto" "" [0%Z] ["1.0"; "0.5"] [["1.0"; "0.0"]; ["0.0"; "1.0"]]])].


(* ---------- a concrete instance: 6-31G for H and C as both writers see it (after make_general / sort_basis) ---------- *)
Definition mx_H0 : sshell :=
  mkShell "gto" "" [0%Z]
          ["0.1873113696E+02"; "0.2825394365E+01"; "0.6401216923E+00"; "0.1612777588E+00"]
          [["0.3349460434E-01"; "0.2347269535E+00"; "0.8137573261E+00"; "0.00000000"];
           ["0.00000000"; "0.00000000"; "0.00000000"; "1.0000000"]].
Definition mx_C0 : sshell :=
  mkShell "gto" "" [0%Z]
          ["0.3047524880E+04"; "0.4573695180E+03"; "0.1039486850E+03"; "0.2921015530E+02"; "0.9286662960E+01"; "0.7868272350E+01"; "0.3163926960E+01"; "0.1881288540E+01"; "0.5442492580E+00"; "0.1687144782E+00"]
          [["0.1834737132E-02"; "0.1403732281E-01"; "0.6884262226E-01"; "0.2321844432E+00"; "0.4679413484E+00"; "0.00000000"; "0.3623119853E+00"; "0.00000000"; "0.00000000"; "0.00000000"];
           ["0.00000000"; "0.00000000"; "0.00000000"; "0.00000000"; "0.00000000"; "-0.1193324198E+00"; "0.00000000"; "-0.1608541517E+00"; "0.1143456438E+01"; "0.00000000"];
           ["0.00000000"; "0.00000000"; "0.00000000"; "0.00000000"; "0.00000000"; "0.00000000"; "0.00000000"; "0.00000000"; "0.00000000"; "0.1000000000E+01"]].
Definition mx_C1 : sshell :=
  mkShell "gto" "" [1%Z]
          ["0.7868272350E+01"; "0.1881288540E+01"; "0.5442492580E+00"; "0.1687144782E+00"]
          [["0.6899906659E-01"; "0.3164239610E+00"; "0.7443082909E+00"; "0.00000000"];
           ["0.00000000"; "0.00000000"; "0.00000000"; "0.1000000000E+01"]].
Definition mx_text_inline : string :=
  String.concat nl1
   ["Basis set";
    "* HYDROGEN  (4s) -> [2s]";
    " H    / inline";
    "      1.00   0";
    "* S-type functions";
    "     4    2";
    "               0.1873113696E+02";
    "               0.2825394365E+01";
    "               0.6401216923E+00";
    "               0.1612777588E+00";
    "      0.3349460434E-01       0.00000000";
    "      0.2347269535E+00       0.00000000";
    "      0.8137573261E+00       0.00000000";
    "      0.00000000             1.0000000";
    "End of basis set";
    "";
    "Basis set";
    "* CARBON  (10s,4p) -> [3s,2p]";
    " C    / inline";
    "      6.00   1";
    "* S-type functions";
    "    10    3";
    "               0.3047524880E+04";
    "               0.4573695180E+03";
    "               0.1039486850E+03";
    "               0.2921015530E+02";
    "               0.9286662960E+01";
    "               0.7868272350E+01";
    "               0.3163926960E+01";
    "               0.1881288540E+01";
    "               0.5442492580E+00";
    "               0.1687144782E+00";
    "      0.1834737132E-02       0.00000000             0.00000000";
    "      0.1403732281E-01       0.00000000             0.00000000";
    "      0.6884262226E-01       0.00000000             0.00000000";
    "      0.2321844432E+00       0.00000000             0.00000000";
    "      0.4679413484E+00       0.00000000             0.00000000";
    "      0.00000000            -0.1193324198E+00       0.00000000";
    "      0.3623119853E+00       0.00000000             0.00000000";
    "      0.00000000            -0.1608541517E+00       0.00000000";
    "      0.00000000             0.1143456438E+01       0.00000000";
    "      0.00000000             0.00000000             0.1000000000E+01";
    "* P-type functions";
    "     4    2";
    "               0.7868272350E+01";
    "               0.1881288540E+01";
    "               0.5442492580E+00";
    "               0.1687144782E+00";
    "      0.6899906659E-01       0.00000000";
    "      0.3164239610E+00       0.00000000";
    "      0.7443082909E+00       0.00000000";
    "      0.00000000             0.1000000000E+01";
    "End of basis set";
    "";
    ""].
Definition mx_text_library : string :=
  String.concat nl1
   ["/H.6-31G.Ditchfield.4s.2s.";
    "R. Ditchfield, W.J. Hehre, J.A. Pople. J. Chem. Phys. 54 (1971) 724-728. doi:10.1063/1.1674902";
    "HYDROGEN (4s) -> [2s]";
    "      1.0   0";
    "* s-type functions";
    "     4    2";
    "               0.1873113696E+02";
    "               0.2825394365E+01";
    "               0.6401216923E+00";
    "               0.1612777588E+00";
    "      0.3349460434E-01       0.00000000";
    "      0.2347269535E+00       0.00000000";
    "      0.8137573261E+00       0.00000000";
    "      0.00000000             1.0000000";
    "";
    "/C.6-31G.Hehre.10s4p.3s2p.";
    "W.J. Hehre, R. Ditchfield, J.A. Pople. J. Chem. Phys. 56 (1972) 2257-2261. doi:10.1063/1.1677527";
    "CARBON (10s,4p) -> [3s,2p]";
    "      6.0   1";
    "* s-type functions";
    "    10    3";
    "               0.3047524880E+04";
    "               0.4573695180E+03";
    "               0.1039486850E+03";
    "               0.2921015530E+02";
    "               0.9286662960E+01";
    "               0.7868272350E+01";
    "               0.3163926960E+01";
    "               0.1881288540E+01";
    "               0.5442492580E+00";
    "               0.1687144782E+00";
    "      0.1834737132E-02       0.00000000             0.00000000";
    "      0.1403732281E-01       0.00000000             0.00000000";
    "      0.6884262226E-01       0.00000000             0.00000000";
    "      0.2321844432E+00       0.00000000             0.00000000";
    "      0.4679413484E+00       0.00000000             0.00000000";
    "      0.00000000            -0.1193324198E+00       0.00000000";
    "      0.3623119853E+00       0.00000000             0.00000000";
    "      0.00000000            -0.1608541517E+00       0.00000000";
    "      0.00000000             0.1143456438E+01       0.00000000";
    "      0.00000000             0.00000000             0.1000000000E+01";
    "* p-type functions";
    "     4    2";
    "               0.7868272350E+01";
    "               0.1881288540E+01";
    "               0.5442492580E+00";
    "               0.1687144782E+00";
    "      0.6899906659E-01       0.00000000";
    "      0.3164239610E+00       0.00000000";
    "      0.7443082909E+00       0.00000000";
    "      0.00000000             0.1000000000E+01";
    "";
    ""].

Definition mx_els : list (Z * list sshell) := [(1%Z, [mx_H0]); (6%Z, [mx_C0; mx_C1])].
Definition mx_meta (z : Z) : string * string :=
  if Z.eqb z 1 then ("Ditchfield", "R. Ditchfield, W.J. Hehre, J.A. Pople. J. Chem. Phys. 54 (1971) 724-728. doi:10.1063/1.1674902")
  else ("Hehre", "W.J. Hehre, R. Ditchfield, J.A. Pople. J. Chem. Phys. 56 (1972) 2257-2261. doi:10.1063/1.1677527").

Definition mcas_example_stmt : Prop :=
  mcasl_ok id "6-31G" mx_meta mx_els /\
  mcas_write_electron id mx_els = inr mx_text_inline /\
  mcasl_write_electron id "6-31G" mx_meta mx_els = inr mx_text_library /\
  mcas_roundtrip id mx_els = inl ERuntime /\
  mcas_read (splitlines mx_text_library) = inr (mcasl_expected mx_els, "6-31g") /\
  (* nothing changes in this instance: no Fortran marker, region '' and function type 'gto' already *)
  mcasl_expected mx_els = mx_els.
