(* Proofs of the statements of Proofs/MolcasDefs.v: the text written by write_molcas_library is read back by read_molcas
   exactly (up to the exponent marker, the region and the function type, see mcasl_expected); the text written by
   write_molcas (inline form) is never accepted by read_molcas. *)
From BSE Require Import Model.Val Model.Text Model.Num Model.Basis Model.Manip Model.Matrix Gen.GenLut Model.Lut
                        Model.Elements Model.Nwchem Model.NwchemEcp Model.G94 Model.Molcas
                        Proofs.MatrixDefs Proofs.NwchemDefs Proofs.MolcasDefs Proofs.C20Finite.
From Coq Require Import NArith Nnat Znat.
From BSE Require Import Proofs.HeaderSpec Proofs.PruneFS Proofs.MatrixSpec Proofs.NwchemSpec Proofs.NwchemEcpSpec
                        Proofs.TurbomoleSpec Proofs.G94Spec Proofs.GamessUsSpec.

(* ================================================================== *)
(* 1. characters and small helpers                                     *)
(* ================================================================== *)
Lemma line_char_nobd : forall c, line_char c = nobd c.
Proof. intros c. all_chars c; reflexivity. Qed.

Lemma one_line_good : forall s, one_line s -> good_line s.
Proof.
  intros s H. unfold one_line, good_line in *. apply (sall_impl line_char nobd); [|exact H].
  intros c Hc. now rewrite <- line_char_nobd.
Qed.

(* the first character of a number: digit, sign or point *)
Definition numc (c : ascii) : bool :=
  orb (is_digit c) (orb (Ascii.eqb c "-") (orb (Ascii.eqb c "+") (Ascii.eqb c "."))).
Definition num_head (l : string) : Prop := exists c r, l = String c r /\ numc c = true.

Lemma numc_facts : forall c, numc c = true ->
  is_space c = false /\ sany (Ascii.eqb c) "*#$" = false /\ Ascii.eqb "/" c = false /\
  Ascii.eqb "p" (lower_char c) = false /\ Ascii.eqb "m" (lower_char c) = false /\
  Ascii.eqb "o" (lower_char c) = false /\ Ascii.eqb "e" (lower_char c) = false.
Proof. intros c H. all_chars c; try (repeat split; reflexivity); discriminate H. Qed.

Lemma floating_numc : forall c t, is_floating (String c t) = true -> numc c = true.
Proof. intros c t H. all_chars c; try reflexivity; exfalso; cbn in H; discriminate H. Qed.

Lemma digit_numc : forall c, is_digit c = true -> numc c = true.
Proof. intros c H. unfold numc. now rewrite H. Qed.

Lemma sp_app : forall a b, sp (a + b) = sp a +++ sp b.
Proof. induction a as [|a IH]; intros b; [reflexivity|]. change (sp (S a + b)) with (String " " (sp (a + b))). now rewrite IH. Qed.

Lemma lstrip_sp : forall n r, lstrip_ws (sp n +++ r) = lstrip_ws r.
Proof. induction n as [|n IH]; intros r; [reflexivity|]. change (sp (S n)) with (String " " (sp n)). cbn [String.append lstrip_ws]. change (is_space " ") with true. cbv iota. apply IH. Qed.

(* strip() of `blanks word middle word` *)
Lemma strip_sp_words : forall n a m b, tok_ok a -> tok_ok b -> strip_ws (sp n +++ a +++ m +++ b) = a +++ m +++ b.
Proof.
  intros n a m b Ha Hb. unfold strip_ws. rewrite lstrip_sp. fold (strip_ws (a +++ m +++ b)). apply strip_words; assumption.
Qed.

Lemma strip_sp_word : forall n a, tok_ok a -> strip_ws (sp n +++ a) = a.
Proof. intros n a Ha. unfold strip_ws. rewrite lstrip_sp. fold (strip_ws a). now apply strip_tok. Qed.

Lemma rjust_sp : forall w s, exists n, rjust w s = sp n +++ s.
Proof. intros w s. eexists. reflexivity. Qed.

Lemma good_app : forall a b, good_line a -> good_line b -> good_line (a +++ b).
Proof. intros a b Ha Hb. unfold good_line in *. now rewrite sall_app, Ha, Hb. Qed.

Lemma good_sp : forall n, good_line (sp n).
Proof. intros n. apply sall_sp. reflexivity. Qed.

Lemma digits_good : forall s, sall is_digit s = true -> good_line s.
Proof. intros s H. apply (sall_impl is_digit nobd); [|exact H]. intros c Hc. all_chars c; try reflexivity; discriminate Hc. Qed.

Lemma digits_tok : forall s, s <> "" -> sall is_digit s = true -> tok_ok s.
Proof.
  intros s Hne H. split; [exact Hne|]. apply (sall_sany_false is_digit); [|exact H].
  intros c Hc. all_chars c; try reflexivity; discriminate Hc.
Qed.

Lemma alpha_tok_good : forall w, sall is_alpha w = true -> good_line w.
Proof. intros w H. exact (sall_impl is_alpha nobd _ alpha_nobd H). Qed.

(* ================================================================== *)
(* 2. finite facts about the tables of lut.py                          *)
(* ================================================================== *)
Definition sym_len_check (z : Z) : bool := Nat.leb (String.length (symz z)) 3.
Lemma sym_len_sweep : forallb sym_len_check (zrange 1 118) = true.
Proof. vm_compute. reflexivity. Qed.
Lemma sym_len : forall z, (1 <= z <= 118)%Z -> String.length (symz z) <= 3.
Proof.
  intros z Hz. assert (Hin : In z (zrange 1 118)) by (apply zrange_In; lia).
  pose proof (proj1 (forallb_forall _ _) sym_len_sweep z Hin) as H. now apply Nat.leb_le.
Qed.

(* one angular momentum: its letter, lower / upper case *)
Lemma am1_facts : forall l, (0 <= l < 25)%Z ->
  exists c, amint_to_char [l] false false = inr (String c "") /\ is_alpha c = true.
Proof.
  intros l Hl. destruct (am_letter l Hl) as [c [Ec [Hc _]]]. exists c.
  unfold amint_to_char. cbn [andb amchar_map amint_chars].
  assert (En : (l <? 0)%Z = false) by lia. rewrite En, Ec. split; [reflexivity | exact Hc].
Qed.

Lemma alpha_lower : forall c, is_alpha c = true -> is_alpha (lower_char c) = true.
Proof. intros c H. all_chars c; try reflexivity; discriminate H. Qed.

Lemma amch_case_good : forall a (up : bool), am_ok a ->
  good_line (if up then upper (amch_of a) else lower (amch_of a)).
Proof.
  intros a up Ha. destruct (amint_chars_ok a Ha) as [ch [E1 [E2 _]]].
  assert (E : amint_to_char a false false = inr ch) by exact E1.
  unfold amch_of. rewrite E.
  assert (Hal : sall is_alpha ch = true).
  { unfold upper in E2. rewrite sall_smap in E2. clear -E2. induction ch as [|c ch IH]; [reflexivity|].
    cbn [sall] in *. apply andb_true_iff in E2. destruct E2 as [H1 H2]. rewrite (IH H2), andb_true_r.
    all_chars c; try reflexivity; discriminate H1. }
  destruct up; apply alpha_tok_good; unfold upper, lower; rewrite sall_smap;
    apply (sall_impl is_alpha); try exact Hal; intros c Hc; [now apply alpha_upper | now apply alpha_lower].
Qed.

(* ================================================================== *)
(* 3. a matrix of numbers as write_matrix prints it                    *)
(* ================================================================== *)
Definition rows_of_mat (M : list (list string)) (pps : list Z) : list string :=
  match mapM (fun row => write_row row pps true "") (transpose (map (map CStr) M)) with inr r => r | inl _ => [] end.

Lemma leftpad_ok : forall cols pps, Forall (Forall cell_ok) cols -> List.length cols <= List.length pps ->
  leftpad_check cols pps = inr tt.
Proof.
  induction cols as [|c cols IH]; intros pps H Hl; [reflexivity|].
  inversion H as [|? ? Hc Hcs]; subst. destruct pps as [|p pps]; [cbn in Hl; lia|].
  cbn [leftpad_check]. destruct (mapM_find_point c Hc) as [l ->]. unfold bind. apply IH; [exact Hcs | cbn in Hl; lia].
Qed.

Lemma mat_cells : forall M, Forall (Forall floating) M ->
  Forall (Forall cell_ok) (map (map CStr) M) /\ Forall (Forall cell_ascii) (map (map CStr) M).
Proof.
  intros M H. split; rewrite Forall_forall in *; intros col Hcol; apply in_map_iff in Hcol; destruct Hcol as [c [<- Hin]];
    apply floats_cells, H, Hin.
Qed.

Lemma mat_facts : forall M pps, Forall (Forall floating) M -> List.length M <= List.length pps ->
  leftpad_check (map (map CStr) M) pps = inr tt /\
  write_matrix (map (map CStr) M) pps false = inr (unlines (rows_of_mat M pps)) /\
  Forall good_line (rows_of_mat M pps) /\
  Forall2 (fun srow line => tokens_acc line "" = srow) (transpose M) (rows_of_mat M pps).
Proof.
  intros M pps HM Hlen. destruct (mat_cells M HM) as [Hok Hasc]. set (C := map (map CStr) M) in *.
  assert (HlenC : List.length C <= List.length pps) by (unfold C; now rewrite map_length).
  destruct (mapM_total _ _ (fun row => write_row row pps true "") (transpose C)) as [rows Hrows].
  { pose proof (transpose_Forall _ _ C Hok) as H1. pose proof (transpose_rowlen _ C) as H2.
    rewrite Forall_forall in *. intros row Hin. apply write_row_total; [apply H1, Hin|]. rewrite (H2 _ Hin). exact HlenC. }
  assert (Er : rows_of_mat M pps = rows) by (unfold rows_of_mat; fold C; rewrite Hrows; reflexivity).
  rewrite Er. pose proof (mapM_Forall2 _ _ _ _ _ Hrows) as F2.
  split; [apply leftpad_ok; assumption|]. split; [|split].
  - unfold write_matrix, transpose_cells. rewrite Hrows. reflexivity.
  - pose proof (Forall_and _ _ _ _ (transpose_Forall _ _ C Hok) (transpose_Forall _ _ C Hasc)) as HT.
    refine (Forall2_Forall_r _ _ _ _ _ _ _ _ HT F2). intros row line [H1 H2] Hwr. cbv beta in Hwr.
    apply (write_row_chars nobd eq_refl row pps true "" line); [|reflexivity|exact Hwr].
    rewrite Forall_forall in *. intros c Hcin. apply cell_nobd; [apply H1 | apply H2]; exact Hcin.
  - unfold C in F2. rewrite transpose_map in F2. apply Forall2_map_l in F2.
    assert (HTf : Forall (Forall (fun x => is_floating x = true)) (transpose M)) by (apply transpose_Forall; exact HM).
    refine (Forall2_impl_l _ _ _ _ _ _ _ _ HTf F2). intros srow line Hsrow Hwr. cbv beta in Hwr.
    destruct (floats_cells srow Hsrow) as [Hrow _].
    apply (write_row_tokens_gen _ pps true "" line Hrow (fun _ => eq_refl)) in Hwr.
    rewrite Hwr. cbn [tokens_acc app]. rewrite map_map. cbn [cell_str]. apply map_id.
Qed.

(* the two matrices of a shell *)
Definition erows (s : sshell) : list string := rows_of_mat [exps s] [17%Z].
Definition crows (s : sshell) : list string := rows_of_mat (coefs s) (nw_point_places (List.length (coefs s))).

Lemma Forall2_map_single : forall (l : list string) rows,
  Forall2 (fun srow line => tokens_acc line "" = srow) (map (fun x => [x]) l) rows ->
  Forall2 (fun e line => tokens_acc line "" = [e]) l rows.
Proof. intros l rows H. apply Forall2_map_l in H. exact H. Qed.

Lemma shell_mats : forall s, mc_shell_wf s ->
  leftpad_check [map CStr (exps s)] [17%Z] = inr tt /\
  write_matrix [map CStr (exps s)] [17%Z] false = inr (unlines (erows s)) /\
  leftpad_check (map (map CStr) (coefs s)) (nw_point_places (List.length (coefs s))) = inr tt /\
  write_matrix (map (map CStr) (coefs s)) (nw_point_places (List.length (coefs s))) false = inr (unlines (crows s)) /\
  Forall good_line (erows s) /\ Forall good_line (crows s) /\
  Forall2 (fun e line => tokens_acc line "" = [e]) (exps s) (erows s) /\
  Forall2 (fun srow line => tokens_acc line "" = srow) (transpose (coefs s)) (crows s).
Proof.
  intros s [_ [_ [_ [_ [_ [He Hc]]]]]].
  destruct (mat_facts [exps s] [17%Z]) as [A1 [A2 [A3 A4]]]; [constructor; [exact He | constructor] | cbn; lia |].
  destruct (mat_facts (coefs s) (nw_point_places (List.length (coefs s))) Hc) as [B1 [B2 [B3 B4]]];
    [rewrite pps_length; lia|].
  repeat split; try assumption. apply Forall2_map_single. exact A4.
Qed.

Lemma crows_length : forall s, mc_shell_wf s ->
  List.length (transpose (coefs s)) = List.length (exps s) /\
  Forall (fun r => List.length r = List.length (coefs s)) (transpose (coefs s)).
Proof.
  intros s [_ [_ [_ [Hcne [HcF _]]]]]. split; [|apply transpose_rowlen].
  destruct (transpose_spec string "" (List.length (exps s)) (coefs s) Hcne HcF) as [Tl _]. exact Tl.
Qed.

(* ================================================================== *)
(* 4. the lines of a shell                                             *)
(* ================================================================== *)
Definition type_line (up : bool) (s : sshell) : string :=
  "* " +++ (if up then upper (amch_of (am s)) else lower (amch_of (am s))) +++ "-type functions".
Definition dim_line (s : sshell) : string :=
  rjust 6 (nat_str (List.length (exps s))) +++ "    " +++ nat_str (List.length (coefs s)).
Definition shl (up : bool) (s : sshell) : list string := type_line up s :: dim_line s :: erows s ++ crows s.

Lemma wf_am : forall s, mc_shell_wf s -> am_ok (am s) /\ am s <> [].
Proof. intros s [H1 [H2 _]]. split; assumption. Qed.

Lemma write_shell_lines_mc : forall up s, mc_shell_wf s -> mc_write_shell up s = inr (unlines (shl up s)).
Proof.
  intros up s Hs. destruct (shell_mats s Hs) as [A1 [A2 [B1 [B2 _]]]]. destruct (wf_am s Hs) as [Ha Hne].
  destruct (amch_facts (am s) Ha Hne) as [E _].
  unfold mc_write_shell. rewrite E. unfold bind. rewrite A1, A2, B1, B2.
  unfold ok, shl, type_line, dim_line. rewrite !unlines_cons, unlines_app, !sapp_assoc. reflexivity.
Qed.

Lemma shl_good : forall up s, mc_shell_wf s -> Forall good_line (shl up s).
Proof.
  intros up s Hs. destruct (shell_mats s Hs) as [_ [_ [_ [_ [G1 [G2 _]]]]]]. destruct (wf_am s Hs) as [Ha _].
  unfold shl. constructor; [|constructor; [|apply Forall_app; split; assumption]].
  - unfold type_line. apply good_app; [reflexivity|]. apply good_app; [apply amch_case_good, Ha | reflexivity].
  - unfold dim_line, rjust. repeat apply good_app; try apply good_sp; try apply nat_str_nobd; reflexivity.
Qed.

(* ================================================================== *)
(* 5. contraction string, maximal momentum, cartesian letters          *)
(* ================================================================== *)
Lemma cstr_parts_ok_gen : forall compact m prim cont, cm_ok m -> sall nobd prim = true -> sall nobd cont = true ->
  exists p c, cstr_parts compact m prim cont = inr (p, c) /\ sall nobd p = true /\ sall nobd c = true.
Proof.
  intros compact; induction m as [|[a [np nc]] m IH]; intros prim cont Hm Hp Hc.
  - exists prim, cont. repeat split; assumption.
  - inversion Hm as [|? ? Ha Hm']; subst. cbn [fst] in Ha.
    destruct (am_single_char a Ha) as [ch [Ech Hch]].
    cbn [cstr_parts]. rewrite Ech. unfold bind.
    apply IH; [exact Hm' | |]; rewrite !sall_app, ?Hp, ?Hc, Hch, nat_str_nobd;
      destruct (negb (a =? 0)%Z && negb compact); reflexivity.
Qed.

Definition cs_gen (compact : bool) (shs : list sshell) : string :=
  match contraction_string (Some (map nw_cshell shs)) compact with inr c => c | inl _ => "" end.

Lemma cs_gen_facts : forall compact shs, Forall mc_shell_wf shs ->
  contraction_string (Some (map nw_cshell shs)) compact = inr (cs_gen compact shs) /\ good_line (cs_gen compact shs).
Proof.
  intros compact shs H.
  assert (Hm : cm_ok (sort_cmap (cmap (map nw_cshell shs)))).
  { apply sort_cmap_ok. unfold cmap. apply cmap_ok; [|constructor].
    rewrite Forall_forall in *. intros sh Hin. apply in_map_iff in Hin. destruct Hin as [s [<- Hs]].
    unfold nw_cshell. cbn [fst]. apply (wf_am s (H s Hs)). }
  destruct (cstr_parts_ok_gen compact _ "" "" Hm eq_refl eq_refl) as [p [c [E [Hp Hc]]]].
  unfold cs_gen, contraction_string. rewrite E. unfold bind, ok. destruct compact; cbv iota beta.
  - split; [reflexivity|]. unfold good_line. rewrite !sall_app, Hp, Hc. reflexivity.
  - split; [reflexivity|]. unfold good_line. rewrite !sall_app, Hp, Hc. reflexivity.
Qed.

Definition mx_of (shs : list sshell) : Z := zmax (map (fun s => zmax (am s)) shs).

Lemma max_am_ok_mc : forall shs, shs <> [] -> Forall mc_shell_wf shs -> mc_max_am shs = inr (mx_of shs).
Proof.
  intros shs Hne H. unfold mc_max_am.
  rewrite (mapM_map_ok _ _ _ (fun s => zmax (am s)) shs).
  - unfold bind, mx_of. destruct shs; [congruence | reflexivity].
  - intros s Hs. rewrite Forall_forall in H. destruct (wf_am s (H s Hs)) as [_ Hn]. destruct (am s); [congruence | reflexivity].
Qed.

(* the letters of the cartesian shells, before the set is iterated *)
Definition letter_str (x : string) : Prop := exists c, x = String c "" /\ is_alpha c = true.

Definition cart_f (s : sshell) : res (list string) :=
  if String.eqb (ftype s) "gto_cartesian" then mapM (fun a => amint_to_char [a] false false) (am s) else ok [].
Lemma mc_cartesian_unfold : forall sord shs,
  mc_cartesian sord shs = (do chars <- mapM cart_f shs; ok (sord (dedup_str (concat chars) []))).
Proof. reflexivity. Qed.
Definition cart_letters (shs : list sshell) : list string :=
  match mapM cart_f shs with
  | inr chars => dedup_str (concat chars) []
  | inl _ => []
  end.
Definition cart_of (sord : list string -> list string) (shs : list sshell) : list string := sord (cart_letters shs).

Lemma dedup_incl : forall l seen x, In x (dedup_str l seen) -> In x l.
Proof.
  induction l as [|y l IH]; intros seen x H; [destruct H|]. cbn [dedup_str] in H.
  destruct (existsb (String.eqb y) seen); [right; eapply IH; exact H|].
  destruct H as [->|H]; [now left | right; eapply IH; exact H].
Qed.

Lemma am_chars_letters : forall a, am_ok a ->
  exists l, mapM (fun x => amint_to_char [x] false false) a = inr l /\ Forall letter_str l.
Proof.
  induction a as [|x a IH]; intros H; [exists []; split; [reflexivity | constructor]|].
  inversion H as [|? ? Hx Ha]; subst. destruct (IH Ha) as [l [E Hl]]. destruct (am1_facts x Hx) as [c [Ec Hc]].
  exists (String c "" :: l). cbn [mapM]. rewrite Ec. unfold bind. rewrite E. split; [reflexivity|].
  constructor; [exists c; split; [reflexivity | exact Hc] | exact Hl].
Qed.

Lemma cartesian_ok : forall sord shs, Forall mc_shell_wf shs ->
  mc_cartesian sord shs = inr (cart_of sord shs) /\ Forall letter_str (cart_letters shs).
Proof.
  intros sord shs H.
  assert (Hm : exists chars, mapM cart_f shs = inr chars /\ Forall (Forall letter_str) chars).
  { induction shs as [|s shs IH]; [exists []; split; [reflexivity | constructor]|].
    inversion H as [|? ? Hs Hshs]; subst. destruct (IH Hshs) as [chars [E Hc]].
    destruct (am_chars_letters (am s) (proj1 (wf_am s Hs))) as [l [El Hl]].
    cbn [mapM]. unfold cart_f at 1. destruct (String.eqb (ftype s) "gto_cartesian").
    - rewrite El. unfold bind. rewrite E. exists (l :: chars). split; [reflexivity | constructor; assumption].
    - unfold ok, bind. rewrite E. exists ([] :: chars). split; [reflexivity | constructor; [constructor | assumption]]. }
  destruct Hm as [chars [E Hc]]. rewrite mc_cartesian_unfold. unfold cart_of, cart_letters. rewrite E. unfold bind. split; [reflexivity|].
  rewrite Forall_forall. intros x Hx. apply dedup_incl in Hx.
  pose proof (concat_Forall _ _ chars Hc) as Hall. rewrite Forall_forall in Hall. apply Hall, Hx.
Qed.

Lemma letter_good : forall x, letter_str x -> good_line x.
Proof. intros x [c [-> Hc]]. unfold good_line. cbn [sall]. now rewrite (alpha_nobd c Hc). Qed.

Lemma sjoin_good : forall l, Forall good_line l -> good_line (sjoin " " l).
Proof.
  induction l as [|x l IH]; intros H; [reflexivity|]. inversion H as [|? ? Hx Hl]; subst.
  destruct l as [|y l]; [exact Hx|]. change (sjoin " " (x :: y :: l)) with (x +++ " " +++ sjoin " " (y :: l)).
  apply good_app; [exact Hx|]. apply good_app; [reflexivity | apply IH, Hl].
Qed.

Lemma cart_good : forall sord shs, sord_ok sord -> Forall mc_shell_wf shs -> good_line (sjoin " " (cart_of sord shs)).
Proof.
  intros sord shs Hsord H. destruct (cartesian_ok sord shs H) as [_ Hl]. apply sjoin_good.
  rewrite Forall_forall in *. intros x Hx. apply letter_good, Hl, (Hsord _ _ Hx).
Qed.

(* ================================================================== *)
(* 6. the lines of an element, both writers                            *)
(* ================================================================== *)
Definition opt_lines (cart : list string) : list string :=
  match cart with [] => [] | _ => ["Options"; "Cartesian " +++ sjoin " " cart; "EndOptions"] end.
Definition cart_line (cart : list string) : list string :=
  match cart with [] => [] | _ => ["cartesian " +++ sjoin " " cart] end.
Definition charge_line (frac : string) (z : Z) (shs : list sshell) : string :=
  rjust 7 (Z_to_string z) +++ frac +++ Z_to_string (mx_of shs).
Definition head_line (bs : string) (meta : Z -> string * string) (z : Z) (shs : list sshell) : string :=
  "/" +++ symz z +++ "." +++ bs +++ "." +++ fst (meta z) +++ "." +++ cs_gen true shs +++ ".".
Definition name_line_l (z : Z) (shs : list sshell) : string := gname z +++ " " +++ cs_gen false shs.
Definition ell (sord : list string -> list string) (bs : string) (meta : Z -> string * string) (zs : Z * list sshell)
  : list string :=
  head_line bs meta (fst zs) (snd zs) :: snd (meta (fst zs)) :: name_line_l (fst zs) (snd zs) ::
  opt_lines (cart_of sord (snd zs)) ++ charge_line ".0   " (fst zs) (snd zs) :: flat_map (shl false) (snd zs) ++ [""].
Definition iel (sord : list string -> list string) (zs : Z * list sshell) : list string :=
  "Basis set" :: ("* " +++ gname (fst zs) +++ "  " +++ cs_gen false (snd zs)) :: (" " +++ symz (fst zs) +++ "    / inline") ::
  charge_line ".00   " (fst zs) (snd zs) :: flat_map (shl true) (snd zs) ++ cart_line (cart_of sord (snd zs)) ++
  ["End of basis set"; ""].

Definition el_wf_mc (zs : Z * list sshell) : Prop :=
  (1 <= fst zs <= 118)%Z /\ snd zs <> [] /\ Forall mc_shell_wf (snd zs).

Lemma body_lines : forall up shs, Forall mc_shell_wf shs ->
  mapM (mc_write_shell up) shs = inr (map (fun s => unlines (shl up s)) shs).
Proof.
  intros up shs H. apply mapM_map_ok. intros s Hs. apply write_shell_lines_mc. rewrite Forall_forall in H. apply H, Hs.
Qed.

Lemma write_element_lines_l : forall sord bs meta zs, el_wf_mc zs ->
  mcasl_write_element sord bs meta zs = inr (unlines (ell sord bs meta zs)).
Proof.
  intros sord bs meta [z shs] [Hz [Hne Hshs]]. cbn [fst snd] in *.
  destruct (name_facts z) as [En _]; [lia|]. destruct (sym_facts z Hz) as [Es _].
  destruct (cs_gen_facts true shs Hshs) as [Ec1 _]. destruct (cs_gen_facts false shs Hshs) as [Ec2 _].
  destruct (cartesian_ok sord shs Hshs) as [Ecart _].
  unfold mcasl_write_element. rewrite En. unfold bind. rewrite Es, Ec1, Ec2, Ecart, (max_am_ok_mc shs Hne Hshs), (body_lines false shs Hshs).
  unfold ok, ell, head_line, name_line_l, charge_line, gname. cbn [fst snd]. f_equal.
  rewrite !unlines_cons, unlines_app, unlines_cons, unlines_app, unlines_flat_map.
  destruct (cart_of sord shs) as [|c0 cs]; cbn [opt_lines]; rewrite ?unlines_cons; cbn [unlines map String.concat];
    rewrite ?sapp_assoc; reflexivity.
Qed.

Lemma write_element_lines_i : forall sord zs, el_wf_mc zs ->
  mcas_write_element sord zs = inr (unlines (iel sord zs)).
Proof.
  intros sord [z shs] [Hz [Hne Hshs]]. cbn [fst snd] in *.
  destruct (name_facts z) as [En _]; [lia|]. destruct (sym_facts z Hz) as [Es _].
  destruct (cs_gen_facts false shs Hshs) as [Ec2 _].
  destruct (cartesian_ok sord shs Hshs) as [Ecart _].
  unfold mcas_write_element. rewrite En. unfold bind. rewrite Es, Ec2, (max_am_ok_mc shs Hne Hshs), (body_lines true shs Hshs), Ecart.
  unfold ok, iel, charge_line, gname. cbn [fst snd]. f_equal.
  rewrite !unlines_cons, unlines_app, unlines_app, unlines_flat_map.
  destruct (cart_of sord shs) as [|c0 cs]; cbn [cart_line]; rewrite ?unlines_cons; cbn [unlines map String.concat];
    rewrite ?sapp_assoc; reflexivity.
Qed.

Lemma mcas_ok_els : forall els, mcas_ok els -> Forall el_wf_mc els.
Proof. intros els H. exact H. Qed.

Definition all_lines_l sord bs meta (els : list (Z * list sshell)) : list string := flat_map (ell sord bs meta) els.
Definition all_lines_i sord (els : list (Z * list sshell)) : list string := flat_map (iel sord) els.

Lemma write_lines_l : forall sord bs meta els, mcas_ok els ->
  mcasl_write_electron sord bs meta els = inr (unlines (all_lines_l sord bs meta els)).
Proof.
  intros sord bs meta els H. unfold mcasl_write_electron.
  rewrite (mapM_map_ok _ _ _ (fun zs => unlines (ell sord bs meta zs)) els).
  - unfold bind, ok, all_lines_l. now rewrite unlines_flat_map.
  - intros zs Hin. apply write_element_lines_l. apply mcas_ok_els in H. rewrite Forall_forall in H. apply H, Hin.
Qed.

Lemma write_lines_i : forall sord els, mcas_ok els ->
  mcas_write_electron sord els = inr (unlines (all_lines_i sord els)).
Proof.
  intros sord els H. unfold mcas_write_electron.
  rewrite (mapM_map_ok _ _ _ (fun zs => unlines (iel sord zs)) els).
  - unfold bind, ok, all_lines_i. now rewrite unlines_flat_map.
  - intros zs Hin. apply write_element_lines_i. apply mcas_ok_els in H. rewrite Forall_forall in H. apply H, Hin.
Qed.

Lemma mcas_write_total : mcas_write_total_stmt.
Proof. intros sord els H. eexists. apply write_lines_i, H. Qed.
Lemma mcasl_write_total : mcasl_write_total_stmt.
Proof. intros sord bs meta els H. eexists. apply write_lines_l, H. Qed.

(* ---- all lines are free of line boundaries ---- *)
Lemma Z_to_string_good : forall z, good_line (Z_to_string z).
Proof.
  intros [|p|p]; [reflexivity | |]; cbn [Z_to_string].
  - apply digits_good, N_to_string_digits.
  - apply (good_app "-"); [reflexivity | apply digits_good, N_to_string_digits].
Qed.

Lemma charge_line_good : forall frac z shs, good_line frac -> good_line (charge_line frac z shs).
Proof.
  intros frac z shs Hf. unfold charge_line, rjust. repeat apply good_app; try apply good_sp; try apply Z_to_string_good. exact Hf.
Qed.

Lemma gname_good : forall z, (1 <= z <= 118)%Z -> good_line (gname z).
Proof. intros z Hz. destruct (name_facts z) as [_ [_ [H _]]]; [lia|]. now apply alpha_tok_good. Qed.
Lemma symz_good : forall z, (1 <= z <= 118)%Z -> good_line (symz z).
Proof. intros z Hz. destruct (sym_facts z Hz) as [_ [_ [H _]]]. now apply alpha_tok_good. Qed.

Lemma flat_shl_good : forall up shs, Forall mc_shell_wf shs -> Forall good_line (flat_map (shl up) shs).
Proof.
  intros up shs H. rewrite Forall_forall in *. intros l Hl. apply in_flat_map in Hl. destruct Hl as [s [Hs Hl]].
  pose proof (shl_good up s (H s Hs)) as G. rewrite Forall_forall in G. apply G, Hl.
Qed.

Lemma ell_good : forall sord bs meta zs, sord_ok sord -> one_line bs -> mc_meta_ok (meta (fst zs)) -> el_wf_mc zs ->
  Forall good_line (ell sord bs meta zs).
Proof.
  intros sord bs meta [z shs] Hsord Hbs [Ha [Hr _]] [Hz [Hne Hshs]]. cbn [fst snd] in *.
  destruct (cs_gen_facts true shs Hshs) as [_ G1]. destruct (cs_gen_facts false shs Hshs) as [_ G2].
  unfold ell. cbn [fst snd]. constructor; [|constructor; [|constructor]].
  - unfold head_line. repeat apply good_app; try reflexivity; try assumption; try (apply one_line_good; assumption).
    apply symz_good, Hz.
  - apply one_line_good, Hr.
  - unfold name_line_l. apply good_app; [apply gname_good, Hz | apply good_app; [reflexivity | exact G2]].
  - apply Forall_app. split.
    + pose proof (cart_good sord shs Hsord Hshs) as Gc. unfold opt_lines. destruct (cart_of sord shs); [constructor|].
      repeat constructor. apply (good_app "Cartesian "); [reflexivity | exact Gc].
    + constructor; [apply charge_line_good; reflexivity|]. apply Forall_app. split; [apply flat_shl_good, Hshs | repeat constructor].
Qed.

Lemma iel_good : forall sord zs, sord_ok sord -> el_wf_mc zs -> Forall good_line (iel sord zs).
Proof.
  intros sord [z shs] Hsord [Hz [Hne Hshs]]. cbn [fst snd] in *.
  destruct (cs_gen_facts false shs Hshs) as [_ G2].
  unfold iel. cbn [fst snd]. constructor; [reflexivity|]. constructor; [|constructor; [|constructor]].
  - apply (good_app "* "); [reflexivity|]. apply good_app; [apply gname_good, Hz | apply good_app; [reflexivity | exact G2]].
  - apply (good_app " "); [reflexivity|]. apply good_app; [apply symz_good, Hz | reflexivity].
  - apply charge_line_good; reflexivity.
  - apply Forall_app. split; [apply flat_shl_good, Hshs|]. apply Forall_app. split; [|repeat constructor].
    pose proof (cart_good sord shs Hsord Hshs) as Gc. unfold cart_line. destruct (cart_of sord shs); [constructor|].
    repeat constructor. apply (good_app "cartesian "); [reflexivity | exact Gc].
Qed.

Lemma flat_map_Forall : forall (A B : Type) (P : B -> Prop) (f : A -> list B) l,
  (forall x, In x l -> Forall P (f x)) -> Forall P (flat_map f l).
Proof.
  intros A B P f l H. rewrite Forall_forall. intros y Hy. apply in_flat_map in Hy. destruct Hy as [x [Hx Hy]].
  specialize (H x Hx). rewrite Forall_forall in H. apply H, Hy.
Qed.

Lemma all_lines_l_good : forall sord bs meta els, sord_ok sord -> one_line bs ->
  Forall (fun zs => mc_meta_ok (meta (fst zs))) els -> mcas_ok els -> Forall good_line (all_lines_l sord bs meta els).
Proof.
  intros sord bs meta els Hs Hb Hm H. apply mcas_ok_els in H. apply flat_map_Forall. intros zs Hin. rewrite Forall_forall in Hm, H.
  apply ell_good; [exact Hs | exact Hb | apply Hm, Hin | apply H, Hin].
Qed.

Lemma all_lines_i_good : forall sord els, sord_ok sord -> mcas_ok els -> Forall good_line (all_lines_i sord els).
Proof.
  intros sord els Hs H. apply mcas_ok_els in H. apply flat_map_Forall. intros zs Hin. rewrite Forall_forall in H. apply iel_good; [exact Hs | apply H, Hin].
Qed.

(* ---------- no number lost ---------- *)
Lemma number_in_shl : forall up s x, mc_shell_wf s -> (In x (exps s) \/ exists c, In c (coefs s) /\ In x c) ->
  exists line, In line (shl up s) /\ In x (tokens_acc line "").
Proof.
  intros up s x Hs Hx. destruct (shell_mats s Hs) as [_ [_ [_ [_ [_ [_ [F1 F2]]]]]]].
  destruct Hx as [Hx|[c [Hc Hx]]].
  - destruct (Forall2_In_l _ _ _ _ _ x F1 Hx) as [line [Hl Ht]]. exists line. split.
    + unfold shl. right. right. apply in_or_app. now left.
    + rewrite Ht. now left.
  - destruct Hs as [_ [_ [_ [_ [HcF _]]]]].
    destruct (transpose_has _ _ c x HcF Hc Hx) as [row [Hrow Hxr]].
    destruct (Forall2_In_l _ _ _ _ _ row F2 Hrow) as [line [Hl Ht]]. exists line. split.
    + unfold shl. right. right. apply in_or_app. now right.
    + rewrite Ht. exact Hxr.
Qed.

Lemma mcas_no_number_lost : mcas_no_number_lost_stmt.
Proof.
  intros sord els t Hsord H E x [zs [s [Hzs [Hs Hx]]]].
  rewrite (write_lines_i sord els H) in E. inversion E; subst; clear E.
  rewrite (splitlines_unlines _ (all_lines_i_good sord els Hsord H)).
  pose proof (mcas_ok_els els H) as Hel. rewrite Forall_forall in Hel. destruct (Hel zs Hzs) as [_ [_ Hshs]]. rewrite Forall_forall in Hshs.
  destruct (number_in_shl true s x (Hshs s Hs) Hx) as [line [Hl Ht]]. exists line. split; [|exact Ht].
  unfold all_lines_i. apply in_flat_map. exists zs. split; [exact Hzs|]. unfold iel. do 4 right.
  apply in_or_app. left. apply in_flat_map. exists s. split; [exact Hs | exact Hl].
Qed.

Lemma mcasl_no_number_lost : mcasl_no_number_lost_stmt.
Proof.
  intros sord bs meta els t Hsord Hbs Hm H E x [zs [s [Hzs [Hs Hx]]]].
  rewrite (write_lines_l sord bs meta els H) in E. inversion E; subst; clear E.
  rewrite (splitlines_unlines _ (all_lines_l_good sord bs meta els Hsord Hbs Hm H)).
  pose proof (mcas_ok_els els H) as Hel. rewrite Forall_forall in Hel. destruct (Hel zs Hzs) as [_ [_ Hshs]]. rewrite Forall_forall in Hshs.
  destruct (number_in_shl false s x (Hshs s Hs) Hx) as [line [Hl Ht]]. exists line. split; [|exact Ht].
  unfold all_lines_l. apply in_flat_map. exists zs. split; [exact Hzs|]. unfold ell. do 3 right.
  apply in_or_app. right. right. apply in_or_app. left. apply in_flat_map. exists s. split; [exact Hs | exact Hl].
Qed.

(* ================================================================== *)
(* 7. format 'molcas' (inline): the reader refuses whatever was written *)
(* ================================================================== *)
Lemma part_go_head : forall cond lines c cur all, (forall x, exists b, cond x = inr b) ->
  exists b rest, part_go cond true lines (c :: cur) all = inr (all ++ (c :: b) :: rest).
Proof.
  intros cond; induction lines as [|l t IH]; intros c cur all H.
  - exists cur, []. reflexivity.
  - destruct (H l) as [b Hb]. cbn [part_go]. rewrite Hb. unfold bind. destruct b.
    + destruct (IH l [] (all ++ [c :: cur]) H) as [b [rest E]]. rewrite E. exists cur, ((l :: b) :: rest).
      rewrite <- app_assoc. reflexivity.
    + change ((c :: cur) ++ [l]) with (c :: (cur ++ [l])). apply IH, H.
Qed.

Lemma inline_element_prefix : forall sord zs t0, mcas_write_element sord zs = inr t0 ->
  exists X, t0 = "Basis set" +++ String (byte 10) X.
Proof.
  intros sord [z shs] t0 H. unfold mcas_write_element, bind in H.
  destruct (element_name_from_Z z false); [discriminate|].
  destruct (element_sym_from_Z z true); [discriminate|].
  destruct (contraction_string (Some (map nw_cshell shs)) false); [discriminate|].
  destruct (mc_max_am shs); [discriminate|].
  destruct (mapM (mc_write_shell true) shs); [discriminate|].
  destruct (mc_cartesian sord shs); [discriminate|].
  unfold ok in H. inversion H. eexists. reflexivity.
Qed.

Lemma splitlines_first : forall l X, sall nobd l = true -> splitlines (l +++ String (byte 10) X) = l :: splitlines X.
Proof.
  intros l X H. unfold splitlines. rewrite (spl_line l X "" "" H), sapp_nil_r, srev_involutive. reflexivity.
Qed.

Definition sk3 : string := "*#$".
Lemma sk3_ne : is_empty sk3 = false.
Proof. reflexivity. Qed.
Definition pr3 (L : list string) : list string := prune_lines L sk3 true true.
Lemma pr3_cons : forall x L, pr3 (x :: L) = pr3 [x] ++ pr3 L.
Proof. intros x L. change (x :: L) with ([x] ++ L). apply (pr_app sk3 _ _ sk3_ne). Qed.

Lemma read_basis_set_line : forall L, mcas_read_electron ("Basis set" :: L) = inl ERuntime.
Proof.
  intros L. unfold mcas_read_electron, mcas_read. fold sk3. fold (pr3 ("Basis set" :: L)). rewrite pr3_cons.
  change (pr3 ["Basis set"]) with ["Basis set"]. cbn [app].
  unfold partition_lines. cbn [part_go]. change (str_prefix "/" "Basis set") with false. unfold ok at 1. unfold bind at 3. cbv iota.
  change ([] ++ ["Basis set"]) with ["Basis set"].
  destruct (part_go_head (fun x => ok (str_prefix "/" x)) (pr3 L) "Basis set" [] []) as [b [rest E]].
  { intros x. eexists. reflexivity. }
  rewrite E. cbn [app]. unfold bind at 3.
  destruct (existsb (fun b0 : list string => Nat.ltb (List.length b0) 4) (("Basis set" :: b) :: rest)); [reflexivity|].
  cbn [Nat.eqb negb andb]. unfold ok at 1. unfold bind at 2. cbn [mc_elements mc_parse_element].
  change (match_element_head "Basis set") with (@None (string * string)). reflexivity.
Qed.

Lemma mcas_roundtrip_never : mcas_roundtrip_never_stmt.
Proof.
  intros sord els t Hne E. unfold mcas_write_electron in E. destruct els as [|zs els]; [congruence|].
  cbn [mapM] in E. destruct (mcas_write_element sord zs) as [e|t0] eqn:E0; [discriminate|]. unfold bind at 1 in E.
  destruct (mapM (mcas_write_element sord) els) as [e|ts]; [discriminate|].
  assert (Et : t = String.concat "" (t0 :: ts)) by (unfold bind, ok in E; congruence). subst t. clear E.
  destruct (inline_element_prefix sord zs t0 E0) as [X ->]. rewrite concat_cons, sapp_assoc.
  change (String (byte 10) X +++ String.concat "" ts) with (String (byte 10) (X +++ String.concat "" ts)).
  rewrite splitlines_first by reflexivity. apply read_basis_set_line.
Qed.

Lemma mcas_roundtrip_empty : mcas_roundtrip_empty_stmt.
Proof. intros sord. reflexivity. Qed.

Lemma mcas_roundtrip_refuted : mcas_roundtrip_refuted_stmt.
Proof.
  intros sord els r. unfold mcas_roundtrip. destruct (mcas_write_electron sord els) as [e|t] eqn:E; [discriminate|].
  unfold bind. destruct els as [|zs els].
  - unfold mcas_write_electron in E. cbn in E. inversion E; subst. discriminate.
  - rewrite (mcas_roundtrip_never sord (zs :: els) t); [discriminate | discriminate | exact E].
Qed.

(* ================================================================== *)
(* 8. format 'molcas_library': prune_lines(lines, '*#$') on the written lines *)
(* ================================================================== *)
Definition keepable (l : string) : Prop := head_not_in sk3 (strip_ws l).

Lemma pr3_app : forall a b, pr3 (a ++ b) = pr3 a ++ pr3 b.
Proof. intros a b. apply (pr_app sk3 _ _ sk3_ne). Qed.

Lemma pr3_keepable : forall L, Forall keepable L -> pr3 L = map strip_ws L.
Proof.
  intros L H. apply (pr_keep sk3 L sk3_ne). rewrite Forall_forall in *. intros l Hl. apply in_map_iff in Hl.
  destruct Hl as [x [<- Hx]]. apply H, Hx.
Qed.

Lemma pr3_flat_map : forall (A : Type) (f : A -> list string) l, pr3 (flat_map f l) = flat_map (fun x => pr3 (f x)) l.
Proof. intros A f; induction l as [|a l IH]; [reflexivity|]. cbn [flat_map]. now rewrite pr3_app, IH. Qed.

Lemma pr3_star : forall X, pr3 [String "*" X] = [].
Proof.
  intros X. unfold pr3. rewrite (pr_unfold sk3 _ sk3_ne). cbn [map]. destruct (strip_ws_head "*" X eq_refl) as [Z ->]. reflexivity.
Qed.

Lemma num_head_keep : forall l, num_head l -> head_not_in sk3 l.
Proof. intros l [c [r [-> Hc]]]. exists c, r. split; [reflexivity | apply (numc_facts c Hc)]. Qed.

(* a printed row after strip(): begins with the first character of its first number *)
Lemma row_num_head : forall row e cs, tokens_acc row "" = e :: cs -> is_floating e = true -> num_head (strip_ws row).
Proof.
  intros row e cs Ht He. destruct (tokens_first row e cs Ht) as [c [t' [y [-> [El Hc]]]]].
  destruct (strip_first row c y El Hc) as [r Er]. exists c, r. split; [exact Er | apply (floating_numc c t' He)].
Qed.

Lemma erows_num : forall s, mc_shell_wf s -> Forall (fun r => num_head (strip_ws r)) (erows s).
Proof.
  intros s Hs. destruct (shell_mats s Hs) as [_ [_ [_ [_ [_ [_ [F1 _]]]]]]]. destruct Hs as [_ [_ [_ [_ [_ [He _]]]]]].
  refine (Forall2_Forall_r _ _ _ _ _ _ _ _ He F1). intros e line Hf Ht. cbv beta in Ht. apply (row_num_head line e [] Ht Hf).
Qed.

Lemma transpose_rows_ne : forall s, mc_shell_wf s ->
  Forall (fun r : list string => Forall floating r /\ r <> []) (transpose (coefs s)).
Proof.
  intros s Hs. destruct (crows_length s Hs) as [_ Hl]. destruct Hs as [_ [_ [_ [Hcne [_ [_ Hc]]]]]].
  pose proof (transpose_Forall _ _ (coefs s) Hc) as HT. rewrite Forall_forall in *. intros r Hr. split; [apply HT, Hr|].
  intros E. specialize (Hl r Hr). rewrite E in Hl. cbn in Hl. destruct (coefs s); [congruence | discriminate].
Qed.

Lemma crows_num : forall s, mc_shell_wf s -> Forall (fun r => num_head (strip_ws r)) (crows s).
Proof.
  intros s Hs. destruct (shell_mats s Hs) as [_ [_ [_ [_ [_ [_ [_ F2]]]]]]].
  refine (Forall2_Forall_r _ _ _ _ _ _ _ _ (transpose_rows_ne s Hs) F2). intros srow line [Hf Hne] Ht. cbv beta in Ht.
  destruct srow as [|e cs]; [congruence|]. inversion Hf; subst. apply (row_num_head line e cs); assumption.
Qed.

(* the stripped dimension line and the stripped charge line *)
Definition sdim (s : sshell) : string := nat_str (List.length (exps s)) +++ sp 4 +++ nat_str (List.length (coefs s)).
Definition scharge (z : Z) (shs : list sshell) : string := (Z_to_string z +++ ".0") +++ sp 3 +++ Z_to_string (mx_of shs).

Lemma nat_str_tok : forall n, tok_ok (nat_str n).
Proof. intros n. apply digits_tok; [apply nat_str_ne | apply nat_str_digits]. Qed.

Lemma dim_line_strip : forall s, strip_ws (dim_line s) = sdim s.
Proof.
  intros s. unfold dim_line, sdim, rjust. rewrite sapp_assoc. apply (strip_sp_words _ _ "    "); apply nat_str_tok.
Qed.

Lemma decimal_head : forall d, decimal d -> exists c r, d = String c r /\ is_digit c = true.
Proof. intros [|c r] [Hne H]; [congruence|]. cbn [sall] in H. apply andb_true_iff in H. exists c, r. split; [reflexivity | apply H]. Qed.

Lemma sdim_num : forall s, num_head (sdim s).
Proof.
  intros s. unfold sdim. destruct (decimal_head (nat_str (List.length (exps s)))) as [c [r [E Hc]]];
    [split; [apply nat_str_ne | apply nat_str_digits]|].
  rewrite E. exists c. eexists. split; [reflexivity | apply digit_numc, Hc].
Qed.

Lemma Zstr_tok : forall n, (0 <= n)%Z -> tok_ok (Z_to_string n).
Proof. intros n Hn. destruct (nonneg_string n Hn) as [[H1 H2] _]. now apply digits_tok. Qed.

Lemma dot0_tok : forall w, tok_ok w -> tok_ok (w +++ ".0").
Proof.
  intros w [Hne Hs]. split; [destruct w; [congruence | discriminate]|]. rewrite sany_app, Hs. reflexivity.
Qed.

Lemma charge_line_strip : forall z shs, (0 <= z)%Z -> (0 <= mx_of shs)%Z ->
  strip_ws (charge_line ".0   " z shs) = scharge z shs.
Proof.
  intros z shs Hz Hm. unfold charge_line, scharge, rjust.
  assert (E : Z_to_string z +++ ".0   " +++ Z_to_string (mx_of shs) = (Z_to_string z +++ ".0") +++ "   " +++ Z_to_string (mx_of shs)).
  { rewrite sapp_assoc. reflexivity. }
  rewrite sapp_assoc, E. apply (strip_sp_words _ _ "   "); [apply dot0_tok|]; apply Zstr_tok; assumption.
Qed.

Lemma scharge_num : forall z shs, (0 <= z)%Z -> num_head (scharge z shs).
Proof.
  intros z shs Hz. destruct (nonneg_string z Hz) as [Hd _]. destruct (decimal_head _ Hd) as [c [r [E Hc]]].
  unfold scharge. rewrite E. exists c. eexists. split; [reflexivity | apply digit_numc, Hc].
Qed.

(* ---- the lines of a shell that survive, stripped ---- *)
Definition pshl (s : sshell) : list string := sdim s :: map strip_ws (erows s) ++ map strip_ws (crows s).

Lemma pshl_num : forall s, mc_shell_wf s -> Forall num_head (pshl s).
Proof.
  intros s Hs. unfold pshl. constructor; [apply sdim_num|]. apply Forall_app. split.
  - pose proof (erows_num s Hs) as H. rewrite Forall_forall in *. intros l Hl. apply in_map_iff in Hl. destruct Hl as [r [<- Hr]]. apply H, Hr.
  - pose proof (crows_num s Hs) as H. rewrite Forall_forall in *. intros l Hl. apply in_map_iff in Hl. destruct Hl as [r [<- Hr]]. apply H, Hr.
Qed.

Lemma pr3_shl : forall s, mc_shell_wf s -> pr3 (shl false s) = pshl s.
Proof.
  intros s Hs. unfold shl. rewrite pr3_cons. change (type_line false s) with (String "*" (" " +++ lower (amch_of (am s)) +++ "-type functions")).
  rewrite pr3_star. cbn [app]. rewrite pr3_keepable.
  - cbn [map]. rewrite dim_line_strip, map_app. reflexivity.
  - constructor; [unfold keepable; rewrite dim_line_strip; apply num_head_keep, sdim_num|]. apply Forall_app. split.
    + pose proof (erows_num s Hs) as H. rewrite Forall_forall in *. intros l Hl. apply num_head_keep, H, Hl.
    + pose proof (crows_num s Hs) as H. rewrite Forall_forall in *. intros l Hl. apply num_head_keep, H, Hl.
Qed.

(* ---- the lines of an element that survive, stripped ---- *)
Definition sopt (cart : list string) : list string := map strip_ws (opt_lines cart).
Definition inner (sord : list string -> list string) (zs : Z * list sshell) : list string :=
  sopt (cart_of sord (snd zs)) ++ scharge (fst zs) (snd zs) :: flat_map pshl (snd zs).
Definition pel (sord : list string -> list string) (bs : string) (meta : Z -> string * string) (zs : Z * list sshell)
  : list string :=
  head_line bs meta (fst zs) (snd zs) :: strip_ws (snd (meta (fst zs))) :: strip_ws (name_line_l (fst zs) (snd zs)) :: inner sord zs.

Lemma strip_ends : forall c m d, is_space c = false -> is_space d = false ->
  strip_ws (String c (m +++ String d "")) = String c (m +++ String d "").
Proof.
  intros c m d Hc Hd. change (String c (m +++ String d "")) with (String c "" +++ m +++ String d "").
  apply strip_words; (split; [discriminate | cbn [sany]; rewrite ?Hc, ?Hd; reflexivity]).
Qed.

Lemma head_line_strip : forall bs meta z shs, strip_ws (head_line bs meta z shs) = head_line bs meta z shs.
Proof.
  intros bs meta z shs. unfold head_line.
  assert (E : "/" +++ symz z +++ "." +++ bs +++ "." +++ fst (meta z) +++ "." +++ cs_gen true shs +++ "." =
              String "/" ((symz z +++ "." +++ bs +++ "." +++ fst (meta z) +++ "." +++ cs_gen true shs) +++ String "." "")).
  { rewrite !sapp_assoc. reflexivity. }
  rewrite E. apply strip_ends; reflexivity.
Qed.

Lemma opt_keepable : forall cart, Forall keepable (opt_lines cart).
Proof.
  intros cart. unfold opt_lines. destruct cart as [|c cs]; [constructor|].
  constructor; [exists "O"%char; eexists; split; reflexivity|]. constructor; [|constructor; [exists "E"%char; eexists; split; reflexivity | constructor]].
  unfold keepable. change ("Cartesian " +++ sjoin " " (c :: cs)) with (String "C" ("artesian " +++ sjoin " " (c :: cs))).
  destruct (strip_ws_head "C" ("artesian " +++ sjoin " " (c :: cs)) eq_refl) as [Z ->]. exists "C"%char, Z. split; reflexivity.
Qed.

Lemma name_line_strip : forall z shs, (1 <= z <= 118)%Z ->
  exists c Z, strip_ws (name_line_l z shs) = String c Z /\ is_alpha c = true.
Proof.
  intros z shs Hz. destruct (name_facts z) as [_ [Hne [Ha _]]]; [lia|]. destruct (alpha_head _ Hne Ha) as [c [r [E Hc]]].
  unfold name_line_l. rewrite E. cbn [String.append].
  destruct (strip_ws_head c (r +++ " " +++ cs_gen false shs) (alpha_not_space c Hc)) as [Z EZ]. exists c, Z. split; assumption.
Qed.

Lemma alpha_not_sk3 : forall c, is_alpha c = true -> sany (Ascii.eqb c) sk3 = false.
Proof. intros c H. all_chars c; try reflexivity; discriminate H. Qed.

Lemma mx_of_nonneg : forall shs, Forall mc_shell_wf shs -> (0 <= mx_of shs)%Z.
Proof.
  intros shs H. unfold mx_of, zmax.
  assert (G : forall l acc, (0 <= acc)%Z -> (0 <= fold_left Z.max l acc)%Z).
  { induction l as [|x l IH]; intros acc Ha; [exact Ha|]. cbn [fold_left]. apply IH. lia. }
  apply G. destruct shs as [|s shs]; [cbn; lia|]. cbn [map hd]. inversion H as [|? ? Hs _]; subst.
  destruct Hs as [Hne [Ha _]]. destruct (am s) as [|a l]; [congruence|]. inversion Ha; subst. cbn [hd]. apply G. lia.
Qed.

Lemma first_in_facts : forall l, l <> "" -> first_in "*#$/" l = false -> head_not_in sk3 l /\ str_prefix "/" l = false.
Proof.
  intros [|c r] Hne H; [congruence|]. cbn [first_in sany] in H.
  apply orb_false_iff in H. destruct H as [H1 H]. apply orb_false_iff in H. destruct H as [H2 H].
  apply orb_false_iff in H. destruct H as [H3 H]. apply orb_false_iff in H. destruct H as [H4 _].
  split.
  - exists c, r. split; [reflexivity|]. cbn [sk3 sany]. now rewrite H1, H2, H3.
  - cbn [str_prefix]. rewrite Ascii.eqb_sym, H4. reflexivity.
Qed.

Lemma pr3_ell : forall sord bs meta zs, el_wf_mc zs -> mc_meta_ok (meta (fst zs)) ->
  pr3 (ell sord bs meta zs) = pel sord bs meta zs.
Proof.
  intros sord bs meta [z shs] [Hz [Hne Hshs]] [_ [_ [Hr1 Hr2]]]. cbn [fst snd] in *.
  unfold ell, pel, inner. cbn [fst snd].
  change (head_line bs meta z shs :: snd (meta z) :: name_line_l z shs ::
          opt_lines (cart_of sord shs) ++ charge_line ".0   " z shs :: flat_map (shl false) shs ++ [""])
    with ([head_line bs meta z shs; snd (meta z); name_line_l z shs] ++
          opt_lines (cart_of sord shs) ++ [charge_line ".0   " z shs] ++ flat_map (shl false) shs ++ [""]).
  rewrite !pr3_app. change (pr3 [""]) with (@nil string). rewrite app_nil_r.
  rewrite (pr3_keepable [head_line bs meta z shs; snd (meta z); name_line_l z shs]).
  - rewrite (pr3_keepable (opt_lines (cart_of sord shs)) (opt_keepable _)).
    rewrite (pr3_keepable [charge_line ".0   " z shs]).
    + rewrite pr3_flat_map. cbn [map app]. rewrite head_line_strip, charge_line_strip by (lia || apply mx_of_nonneg, Hshs).
      unfold sopt. do 5 f_equal. apply flat_map_ext_in. intros s Hs. apply pr3_shl. rewrite Forall_forall in Hshs. apply Hshs, Hs.
    + constructor; [|constructor]. unfold keepable. rewrite charge_line_strip by (lia || apply mx_of_nonneg, Hshs).
      apply num_head_keep, scharge_num. lia.
  - constructor; [|constructor; [|constructor; [|constructor]]].
    + unfold keepable. rewrite head_line_strip. exists "/"%char. eexists. split; reflexivity.
    + apply (first_in_facts _ Hr1 Hr2).
    + destruct (name_line_strip z shs Hz) as [c [Z [E Hc]]]. unfold keepable. rewrite E. exists c, Z. split; [reflexivity | apply alpha_not_sk3, Hc].
Qed.

Lemma pruned_lines_l : forall sord bs meta els, mcas_ok els -> Forall (fun zs => mc_meta_ok (meta (fst zs))) els ->
  pr3 (all_lines_l sord bs meta els) = concat (map (pel sord bs meta) els).
Proof.
  intros sord bs meta els H Hm. apply mcas_ok_els in H. unfold all_lines_l. rewrite pr3_flat_map, <- flat_map_concat_map.
  apply flat_map_ext_in. intros zs Hin. rewrite Forall_forall in *. apply pr3_ell; [apply H, Hin | apply Hm, Hin].
Qed.

(* ================================================================== *)
(* 9. the partition into element blocks                                *)
(* ================================================================== *)
Definition slash_cond (x : string) : res bool := ok (str_prefix "/" x).

Lemma num_head_facts : forall l, num_head l ->
  str_prefix "/" l = false /\ is_pp_or_m1 l = false /\ is_options l = false /\ is_endoptions l = false /\
  str_prefix "pp" (lower l) = false /\ str_prefix "m1" (lower l) = false.
Proof.
  intros l [c [r [-> Hc]]]. destruct (numc_facts c Hc) as [_ [_ [H1 [H2 [H3 [H4 H5]]]]]].
  unfold is_pp_or_m1, is_options, is_endoptions, lower. cbn [smap str_prefix]. rewrite H1, H2, H3, H4, H5. repeat split; reflexivity.
Qed.

(* the lines between the three head lines and the end of an element *)
Definition inner_line (l : string) : Prop := num_head l \/ l = "Options" \/ l = "EndOptions" \/ exists Z, l = String "C" Z.

Lemma inner_line_facts : forall l, inner_line l -> str_prefix "/" l = false /\ is_pp_or_m1 l = false.
Proof.
  intros l [H|[->|[->|[Z ->]]]]; [|split; reflexivity..]. destruct (num_head_facts l H) as [A [B _]]. split; assumption.
Qed.

Lemma sopt_form : forall cart, sopt cart = [] \/ exists Z, sopt cart = ["Options"; String "C" Z; "EndOptions"].
Proof.
  intros [|c cs]; [now left|]. right. unfold sopt, opt_lines. cbn [map].
  change ("Cartesian " +++ sjoin " " (c :: cs)) with (String "C" ("artesian " +++ sjoin " " (c :: cs))).
  destruct (strip_ws_head "C" ("artesian " +++ sjoin " " (c :: cs)) eq_refl) as [Z ->]. exists Z. reflexivity.
Qed.

Lemma flat_pshl_num : forall shs, Forall mc_shell_wf shs -> Forall num_head (flat_map pshl shs).
Proof. intros shs H. apply flat_map_Forall. intros s Hs. rewrite Forall_forall in H. apply pshl_num, H, Hs. Qed.

Lemma inner_lines : forall sord zs, el_wf_mc zs -> Forall inner_line (inner sord zs).
Proof.
  intros sord [z shs] [Hz [_ Hshs]]. cbn [fst snd] in *. unfold inner. cbn [fst snd]. apply Forall_app. split.
  - destruct (sopt_form (cart_of sord shs)) as [->|[Z ->]]; [constructor|].
    constructor; [right; now left|]. constructor; [right; right; right; now exists Z|]. constructor; [right; right; now left | constructor].
  - constructor; [left; apply scharge_num; lia|].
    pose proof (flat_pshl_num shs Hshs) as H. rewrite Forall_forall in *. intros l Hl. left. apply H, Hl.
Qed.

Lemma pel_shape : forall sord bs meta zs, el_wf_mc zs -> mc_meta_ok (meta (fst zs)) ->
  block_shape slash_cond (pel sord bs meta zs) /\ 4 <= List.length (pel sord bs meta zs).
Proof.
  intros sord bs meta zs Hwf [_ [_ [Hr1 Hr2]]]. pose proof (inner_lines sord zs Hwf) as Hin.
  destruct zs as [z shs]. destruct Hwf as [Hz _]. unfold pel in *. cbn [fst snd] in *. split.
  - eexists. eexists. split; [reflexivity|]. split; [reflexivity|].
    constructor; [unfold slash_cond; now rewrite (proj2 (first_in_facts _ Hr1 Hr2))|].
    constructor.
    { destruct (name_line_strip z shs Hz) as [c [Z [E Hc]]]. rewrite E. unfold slash_cond. cbn [str_prefix].
      assert (Ec : Ascii.eqb "/" c = false) by (all_chars c; try reflexivity; discriminate Hc). now rewrite Ec. }
    rewrite Forall_forall in *. intros l Hl. unfold slash_cond. now rewrite (proj1 (inner_line_facts l (Hin l Hl))).
  - unfold inner. cbn [List.length fst snd]. rewrite app_length. cbn [List.length]. lia.
Qed.

Lemma partition_elements : forall sord bs meta els, mcas_ok els -> Forall (fun zs => mc_meta_ok (meta (fst zs))) els ->
  partition_lines (concat (map (pel sord bs meta) els)) slash_cond true 4 0 0 = inr (map (pel sord bs meta) els).
Proof.
  intros sord bs meta els H Hm. apply mcas_ok_els in H. unfold partition_lines.
  assert (Hsh : forall b, In b (map (pel sord bs meta) els) -> block_shape slash_cond b /\ 4 <= List.length b).
  { intros b Hb. apply in_map_iff in Hb. destruct Hb as [zs [<- Hzs]]. rewrite Forall_forall in *.
    apply pel_shape; [apply H, Hzs | apply Hm, Hzs]. }
  rewrite (part_blocks slash_cond (map (pel sord bs meta) els) [] []).
  - cbn [flush app]. unfold bind. rewrite existsb_false; [reflexivity|].
    intros b Hb. apply Nat.ltb_ge. apply (Hsh b Hb).
  - rewrite Forall_forall. intros b Hb. apply (Hsh b Hb).
Qed.

(* ================================================================== *)
(* 10. one shell block                                                 *)
(* ================================================================== *)
Lemma floating_not_decimal : forall e, is_floating e = true -> isdecimal e = false.
Proof.
  intros e H. destruct (floating_is_cell e H) as [_ [_ Hp]]. unfold isdecimal. destruct e as [|c r]; [reflexivity|].
  destruct (sall is_digit (String c r)) eqn:E; [|reflexivity].
  assert (F : sany (Ascii.eqb ".") (String c r) = false).
  { apply (sall_sany_false is_digit); [|exact E]. intros x Hx. all_chars x; try reflexivity; discriminate Hx. }
  congruence.
Qed.

Lemma nat_str_decimal : forall n, isdecimal (nat_str n) = true.
Proof.
  intros n. unfold isdecimal. pose proof (nat_str_ne n) as H. pose proof (nat_str_digits n) as D.
  destruct (nat_str n); [congruence | exact D].
Qed.

Lemma sdim_strip : forall s, strip_ws (sdim s) = sdim s.
Proof. intros s. unfold sdim. apply strip_words; apply nat_str_tok. Qed.

Lemma sdim_match : forall s,
  match_nprim_ngen (sdim s) = Some (nat_str (List.length (exps s)), Some (nat_str (List.length (coefs s)))).
Proof.
  intros s. unfold match_nprim_ngen, match_one_two. rewrite sdim_strip, String.eqb_refl. cbn [negb].
  unfold sdim. rewrite (tokens_two _ 3 _ (nat_str_tok _) (nat_str_tok _)), !nat_str_decimal. reflexivity.
Qed.

(* the words of a stripped printed row, as the reader sees them *)
Lemma row_words : forall line srow, tokens_acc line "" = srow -> srow <> [] ->
  split_ws (replace_d (strip_ws (strip_ws line))) = map (norm false) srow /\ strip_ws line <> "".
Proof.
  intros line srow Ht Hne. split.
  - unfold split_ws. pose proof (tokens_read false (strip_ws line)) as H. cbn [conv_text] in H. rewrite H, tokens_strip, Ht.
    destruct srow; [congruence | reflexivity].
  - intros E. pose proof (tokens_strip line) as H. rewrite E, Ht in H. cbn in H. congruence.
Qed.

Lemma rnf_done : forall n lines found, n <= List.length found -> read_n_floats_go n lines found = inr (found, lines).
Proof.
  intros n lines found H. apply Nat.leb_le in H. destruct lines; cbn [read_n_floats_go]; rewrite H; reflexivity.
Qed.

Lemma rnf_go : forall es E R found n, Forall2 (fun e line => tokens_acc line "" = [e]) es E ->
  List.length found + List.length es = n ->
  read_n_floats_go n (map strip_ws E ++ R) found = inr (found ++ map (norm false) es, R).
Proof.
  induction es as [|e es IH]; intros E R found n F Hn; inversion F as [|? line ? E' Hline F']; subst.
  - cbn [map app]. rewrite rnf_done by (cbn; lia). now rewrite app_nil_r.
  - cbn [map app read_n_floats_go].
    assert (Hlt : Nat.leb (List.length found + List.length (e :: es)) (List.length found) = false)
      by (apply Nat.leb_gt; cbn [List.length]; lia).
    rewrite Hlt. destruct (row_words line [e] Hline ltac:(discriminate)) as [Hw Hne].
    rewrite Hw. destruct (strip_ws line) as [|c0 r0] eqn:El; [congruence|].
    rewrite (IH E' R (found ++ map (norm false) [e]) (List.length found + List.length (e :: es)) F').
    + cbn [map]. rewrite <- app_assoc. reflexivity.
    + rewrite app_length. cbn [map List.length]. lia.
Qed.

Lemma raf_rows : forall T rows, Forall2 (fun srow line => tokens_acc line "" = srow) T rows ->
  Forall (fun r : list string => r <> []) T ->
  flat_map (fun l => split_ws (replace_d (strip_ws l))) (map strip_ws rows) = concat (map (map (norm false)) T).
Proof.
  intros T rows F; induction F as [|srow line T' rows' Hl F' IH]; intros Hne; [reflexivity|].
  pose proof (Forall_inv Hne) as H1. pose proof (Forall_inv_tail Hne) as H2. cbn [map flat_map concat].
  destruct (row_words line srow Hl H1) as [-> _]. now rewrite (IH H2).
Qed.

Lemma concat_length_const : forall (A : Type) k (L : list (list A)), Forall (fun r => List.length r = k) L ->
  List.length (concat L) = List.length L * k.
Proof.
  intros A k; induction L as [|r L IH]; intros H; [reflexivity|]. inversion H; subst.
  cbn [concat List.length]. rewrite app_length, IH by assumption. lia.
Qed.

Lemma chunk_concat : forall k (L : list (list string)), Forall (fun r => List.length r = k) L ->
  chunk (List.length L) k (concat L) = L.
Proof.
  intros k; induction L as [|r L IH]; intros H; [reflexivity|]. inversion H as [|? ? Hr HL]; subst.
  cbn [List.length chunk concat]. rewrite firstn_app, Nat.sub_diag, firstn_all. cbn [firstn]. rewrite app_nil_r.
  rewrite skipn_app, Nat.sub_diag, skipn_all. cbn [skipn app]. now rewrite (IH HL).
Qed.

Lemma forallb_floating_norm : forall l, Forall floating l -> forallb is_floating (map (norm false) l) = true.
Proof.
  intros l H. apply forallb_forall. intros x Hx. apply in_map_iff in Hx. destruct Hx as [y [<- Hy]].
  rewrite is_floating_norm. rewrite Forall_forall in H. apply H, Hy.
Qed.

Lemma parse_shell_mc : forall k s, mc_shell_wf s -> am s = [k] ->
  mc_parse_shell k (pshl s) = inr (mc_expected_shell s).
Proof.
  intros k s Hs Hk. destruct (shell_mats s Hs) as [_ [_ [_ [_ [_ [_ [F1 F2]]]]]]].
  destruct (crows_length s Hs) as [Tl TF]. pose proof (transpose_rows_ne s Hs) as Tne.
  pose proof Hs as [_ [_ [Hex [Hcne [HcF [He Hc]]]]]].
  set (np := List.length (exps s)) in *. set (ng := List.length (coefs s)) in *.
  assert (Hnp : np <> 0) by (unfold np; destruct (exps s); [congruence | discriminate]).
  assert (Hng : ng <> 0) by (unfold ng; destruct (coefs s); [congruence | discriminate]).
  unfold mc_parse_shell, pshl. rewrite sdim_match. fold np ng. cbn [option_map]. rewrite !nat_str_val, !Nat2Z.id.
  destruct (Nat.eqb_spec np 0) as [E0|_]; [congruence|].
  assert (Hg : match ng with O => true | S _ => false end = false) by (destruct ng; congruence). rewrite Hg.
  (* exponents *)
  unfold read_n_floats. rewrite (rnf_go (exps s) (erows s) _ [] np F1) by reflexivity. unfold bind. cbn [app fst snd].
  rewrite map_length. fold np. rewrite Nat.eqb_refl. cbn [negb]. rewrite (forallb_floating_norm _ He). cbn [negb].
  unfold ok. cbv beta iota.
  (* coefficients *)
  unfold read_all_floats. rewrite (raf_rows (transpose (coefs s)) (crows s) F2).
  2:{ rewrite Forall_forall in *. intros r Hr. apply Tne, Hr. }
  set (T := map (map (norm false)) (transpose (coefs s))).
  assert (HTl : List.length T = np) by (unfold T; rewrite map_length; exact Tl).
  assert (HTF : Forall (fun r => List.length r = ng) T).
  { unfold T. rewrite Forall_forall in *. intros r Hr. apply in_map_iff in Hr. destruct Hr as [r0 [<- Hr0]].
    rewrite map_length. apply TF, Hr0. }
  assert (Hfl : forallb is_floating (concat T) = true).
  { apply forallb_forall. intros x Hx. apply in_concat in Hx. destruct Hx as [r [Hr Hx]]. unfold T in Hr.
    apply in_map_iff in Hr. destruct Hr as [r0 [<- Hr0]]. apply in_map_iff in Hx. destruct Hx as [y [<- Hy]].
    rewrite is_floating_norm. rewrite Forall_forall in Tne. destruct (Tne r0 Hr0) as [Hf _]. rewrite Forall_forall in Hf. apply Hf, Hy. }
  rewrite Hfl. cbn [negb]. unfold ok. cbv beta iota.
  assert (Hlen : List.length (concat T) = ng * np) by (rewrite (concat_length_const _ ng T HTF), HTl; apply Nat.mul_comm).
  assert (Hcf : match concat T with [] => unit_matrix np | _ :: _ => concat T end = concat T).
  { destruct (concat T) eqn:Ecf; [|reflexivity]. exfalso. cbn in Hlen. destruct ng; [congruence|]. destruct np; [congruence|]. cbn in Hlen. lia. }
  rewrite Hcf, Hlen, Nat.mod_mul by exact Hnp. cbn [Nat.eqb negb].
  rewrite Nat.div_mul by exact Hnp. rewrite Nat.eqb_refl. cbn [negb].
  assert (Hch : chunk np ng (concat T) = T) by (rewrite <- HTl; apply chunk_concat, HTF). rewrite Hch.
  unfold function_type_from_am. unfold bind, ok. unfold T. rewrite transpose_map.
  rewrite (transpose_involutive string "" np (coefs s) Hnp Hcne HcF).
  unfold mc_expected_shell, nw_ftype, function_type_from_am. rewrite Hk. reflexivity.
Qed.

Lemma parse_shells_mc : forall shs k0, Forall mc_shell_wf shs ->
  map (@am string) shs = map (fun k => [Z.of_nat k]) (seq k0 (List.length shs)) ->
  mc_parse_shells (Z.of_nat k0) (map pshl shs) = inr (map mc_expected_shell shs).
Proof.
  induction shs as [|s shs IH]; intros k0 H Ham; [reflexivity|].
  inversion H as [|? ? Hs Hshs]; subst. cbn [List.length seq map] in Ham. injection Ham as Ha Ht.
  cbn [map mc_parse_shells]. rewrite (parse_shell_mc (Z.of_nat k0) s Hs Ha). unfold bind.
  replace (Z.of_nat k0 + 1)%Z with (Z.of_nat (S k0)) by lia. rewrite (IH (S k0) Hshs Ht). reflexivity.
Qed.

(* ================================================================== *)
(* 11. the charge line                                                 *)
(* ================================================================== *)
Lemma take_ds_digits : forall d r acc n, sall is_digit d = true ->
  match r with String c _ => is_digit c = false | EmptyString => True end ->
  take_ds (d +++ r) acc n = (digits_val d acc, n + String.length d, r).
Proof.
  induction d as [|c d IH]; intros r acc n Hd Hr.
  - cbn [String.append digits_val String.length]. rewrite Nat.add_0_r. destruct r as [|c r]; [reflexivity|].
    cbn [take_ds]. now rewrite Hr.
  - cbn [sall] in Hd. apply andb_true_iff in Hd. destruct Hd as [Hc Hd].
    cbn [String.append take_ds digits_val String.length]. rewrite Hc, (IH r _ (S n) Hd Hr). f_equal. f_equal. lia.
Qed.

Lemma take_sign_digit : forall c t, is_digit c = true -> take_sign (String c t) = (false, String c t).
Proof. intros c t H. all_chars c; try reflexivity; discriminate H. Qed.

Lemma digit_not_space : forall c, is_digit c = true -> is_space c = false.
Proof. intros c H. all_chars c; try reflexivity; discriminate H. Qed.

Lemma parse_num_dot0 : forall d, decimal d -> parse_num (d +++ ".0") = Some ((digits_val d 0 * 10 + 0)%Z, (-1)%Z).
Proof.
  intros d Hd. destruct (decimal_head d Hd) as [c [r [E Hc]]]. destruct Hd as [_ Hd].
  unfold parse_num. rewrite E at 1. cbn [String.append skip_ws]. rewrite (digit_not_space c Hc), (take_sign_digit c _ Hc).
  change (String c (r +++ ".0")) with (String c r +++ ".0"). rewrite <- E.
  rewrite (take_ds_digits d ".0" 0 0 Hd eq_refl).
  change (take_ds "0" (digits_val d 0) 0) with ((digits_val d 0 * 10 + 0)%Z, 1, "").
  cbv beta iota zeta. rewrite E. cbn [String.length Nat.add]. reflexivity.
Qed.

Lemma nuc_charge_ok : forall z, (0 <= z)%Z -> nuc_charge_value (Z_to_string z +++ ".0") = inr z.
Proof.
  intros z Hz. destruct (nonneg_string z Hz) as [Hd Hv]. unfold nuc_charge_value.
  assert (Hnd : isdecimal (Z_to_string z +++ ".0") = false).
  { unfold isdecimal. destruct (Z_to_string z +++ ".0") eqn:E; [reflexivity|]. rewrite <- E, sall_app. cbn. apply andb_false_r. }
  rewrite Hnd, (parse_num_dot0 _ Hd), Hv. unfold dec_int_value. cbn [Z.leb Z.compare Z.opp]. unfold pow10.
  change (10 ^ 1)%Z with 10%Z. rewrite Z.add_0_r, Z_mod_mult, Z.eqb_refl, Z_div_mult by lia. reflexivity.
Qed.

Lemma scharge_match : forall z shs, (0 <= z)%Z -> (0 <= mx_of shs)%Z ->
  match_z_max_am (scharge z shs) = Some (Z_to_string z +++ ".0", Some (Z_to_string (mx_of shs))).
Proof.
  intros z shs Hz Hm. pose proof (dot0_tok _ (Zstr_tok z Hz)) as T1. pose proof (Zstr_tok _ Hm) as T2.
  destruct (nonneg_string _ Hm) as [[Hne Hd] _].
  unfold match_z_max_am, match_one_two, scharge. rewrite (strip_words _ _ _ T1 T2), String.eqb_refl. cbn [negb].
  rewrite (tokens_two _ 2 _ T1 T2).
  assert (Hf : is_floating (Z_to_string z +++ ".0") = true).
  { destruct (nonneg_string z Hz) as [[Hne' Hd'] _]. clear -Hne' Hd'. destruct (Z_to_string z) as [|c r]; [congruence|].
    unfold is_floating. assert (Es : skip_sign (String c r +++ ".0") = String c r +++ ".0").
    { cbn [sall] in Hd'. apply andb_true_iff in Hd'. destruct Hd' as [Hc _]. cbn [String.append skip_sign].
      all_chars c; try reflexivity; discriminate Hc. }
    rewrite Es. assert (Ek : forall d, sall is_digit d = true -> skip_digits (d +++ ".0") = ".0").
    { induction d as [|x d IH]; intros H; [reflexivity|]. cbn [sall] in H. apply andb_true_iff in H. destruct H as [Hx Hd].
      cbn [String.append skip_digits]. now rewrite Hx, (IH Hd). }
    rewrite (Ek _ Hd'). reflexivity. }
  rewrite Hf, orb_true_r. unfold isdecimal at 1. destruct (Z_to_string (mx_of shs)); [congruence|]. rewrite Hd. reflexivity.
Qed.

(* the maximal momentum of s, p, d, ... without a gap *)
Lemma fold_max_seq : forall m a acc, fold_left Z.max (map Z.of_nat (seq a (S m))) acc = Z.max acc (Z.of_nat (a + m)).
Proof.
  induction m as [|m IH]; intros a acc.
  - cbn [seq map fold_left]. now rewrite Nat.add_0_r.
  - change (seq a (S (S m))) with (a :: seq (S a) (S m)). cbn [map fold_left]. rewrite IH. lia.
Qed.

Lemma mx_of_seq : forall shs, shs <> [] ->
  map (@am string) shs = map (fun k => [Z.of_nat k]) (seq 0 (List.length shs)) ->
  mx_of shs = (Z.of_nat (List.length shs) - 1)%Z.
Proof.
  intros shs Hne H. unfold mx_of.
  match goal with |- zmax ?l = _ => assert (E : l = map Z.of_nat (seq 0 (List.length shs))) end.
  { rewrite <- (map_map (@am string) zmax), H, map_map. apply map_ext. intros k. unfold zmax. cbn. lia. }
  rewrite E. destruct (List.length shs) as [|m] eqn:El; [destruct shs; [congruence | discriminate]|].
  unfold zmax. rewrite fold_max_seq. cbn [seq map hd]. lia.
Qed.

(* ================================================================== *)
(* 12. _parse_electron_lines on the lines of one element               *)
(* ================================================================== *)
Lemma break_at_none : forall p L, Forall (fun l => p l = false) L -> break_at p L = (L, []).
Proof.
  intros p; induction L as [|x L IH]; intros H; [reflexivity|]. inversion H as [|? ? Hx HL]; subst.
  cbn [break_at]. now rewrite Hx, (IH HL).
Qed.

Lemma remove_opts : forall cart R, Forall num_head R ->
  exists ob, remove_block is_options is_endoptions (sopt cart ++ R) = inr (ob, R) /\ filter is_block_option ob = [].
Proof.
  intros cart R HR. destruct (sopt_form cart) as [->|[Z ->]].
  - exists []. split; [|reflexivity]. unfold remove_block. cbn [app]. rewrite break_at_none; [reflexivity|].
    rewrite Forall_forall in *. intros l Hl. apply (num_head_facts l (HR l Hl)).
  - exists [String "C" Z]. split; [|reflexivity]. reflexivity.
Qed.

Lemma pshl_shape : forall s, mc_shell_wf s -> block_shape starts_decimal (pshl s).
Proof.
  intros s Hs. destruct (shell_mats s Hs) as [_ [_ [_ [_ [_ [_ [F1 F2]]]]]]].
  pose proof Hs as [_ [_ [_ [_ [_ [He _]]]]]].
  exists (sdim s), (map strip_ws (erows s) ++ map strip_ws (crows s)). split; [reflexivity|]. split.
  - unfold starts_decimal, sdim. rewrite (tokens_two _ 3 _ (nat_str_tok _) (nat_str_tok _)), nat_str_decimal. reflexivity.
  - apply Forall_app. split.
    + assert (G : Forall (fun line => starts_decimal (strip_ws line) = inr false) (erows s)).
      { refine (Forall2_Forall_r _ _ _ _ _ _ _ _ He F1). intros e line Hf Ht. cbv beta in Ht.
        unfold starts_decimal. rewrite tokens_strip, Ht, (floating_not_decimal e Hf). reflexivity. }
      rewrite Forall_forall in *. intros l Hl. apply in_map_iff in Hl. destruct Hl as [r [<- Hr]]. apply G, Hr.
    + assert (G : Forall (fun line => starts_decimal (strip_ws line) = inr false) (crows s)).
      { refine (Forall2_Forall_r _ _ _ _ _ _ _ _ (transpose_rows_ne s Hs) F2). intros srow line [Hf Hne] Ht. cbv beta in Ht.
        unfold starts_decimal. rewrite tokens_strip, Ht. destruct srow as [|e cs]; [congruence|]. inversion Hf; subst.
        rewrite (floating_not_decimal e); [reflexivity | assumption]. }
      rewrite Forall_forall in *. intros l Hl. apply in_map_iff in Hl. destruct Hl as [r [<- Hr]]. apply G, Hr.
Qed.

Lemma partition_shells_mc : forall shs, Forall mc_shell_wf shs ->
  partition_lines (flat_map pshl shs) starts_decimal true 1 0 0 = inr (map pshl shs).
Proof.
  intros shs H. rewrite flat_map_concat_map. unfold partition_lines.
  rewrite (part_blocks starts_decimal (map pshl shs) [] []).
  - cbn [flush app]. unfold bind. rewrite existsb_false; [reflexivity|].
    intros b Hb. apply in_map_iff in Hb. destruct Hb as [s [<- _]]. reflexivity.
  - rewrite Forall_forall in *. intros b Hb. apply in_map_iff in Hb. destruct Hb as [s [<- Hs]]. apply pshl_shape, H, Hs.
Qed.

Definition gapless (shs : list sshell) : Prop :=
  map (@am string) shs = map (fun k => [Z.of_nat k]) (seq 0 (List.length shs)).

Lemma parse_electron_block_mc : forall sord zs, el_wf_mc zs -> gapless (snd zs) ->
  mc_parse_electron_block (fun _ => ok tt) (inner sord zs) = inr (fst zs, map mc_expected_shell (snd zs)).
Proof.
  intros sord [z shs] [Hz [Hne Hshs]] Hgap. cbn [fst snd] in *. unfold inner. cbn [fst snd].
  pose proof (mx_of_nonneg shs Hshs) as Hm.
  assert (HR : Forall num_head (scharge z shs :: flat_map pshl shs)).
  { constructor; [apply scharge_num; lia | apply flat_pshl_num, Hshs]. }
  destruct (remove_opts (cart_of sord shs) _ HR) as [ob [Er Eo]].
  unfold mc_parse_electron_block. rewrite Er. unfold bind. rewrite Eo.
  rewrite (scharge_match z shs) by lia. rewrite (nuc_charge_ok z) by lia. unfold ok at 1. cbv beta iota.
  rewrite (partition_shells_mc shs Hshs).
  destruct (nonneg_string _ Hm) as [_ Hv]. rewrite Hv, map_length, (mx_of_seq shs Hne Hgap).
  match goal with |- context [Z.eqb ?a ?b] => assert (Ec : Z.eqb a b = true) by (apply Z.eqb_eq; cbn [List.length]; change (Z.of_nat 0 + 1)%Z with 1%Z; rewrite Z.mul_1_r, Z.sub_add; reflexivity) end.
  rewrite Ec. cbn [negb List.length].
  pose proof (parse_shells_mc shs 0 Hshs Hgap) as Hp. change (Z.of_nat 0) with 0%Z in Hp. rewrite Hp. reflexivity.
Qed.

(* ================================================================== *)
(* 13. one element block                                               *)
(* ================================================================== *)
Lemma span_alpha_dot : forall a r, sall is_alpha a = true -> span_alpha (a +++ String "." r) = (a, String "." r).
Proof.
  induction a as [|c a IH]; intros r H; [reflexivity|].
  cbn [sall] in H. apply andb_true_iff in H. destruct H as [Hc Ha].
  cbn [String.append span_alpha]. rewrite Hc, (IH r Ha). reflexivity.
Qed.

Lemma span_nondot_word : forall w r, sany (Ascii.eqb ".") w = false -> span_nondot (w +++ String "." r) = (w, String "." r).
Proof.
  induction w as [|c w IH]; intros r H; [reflexivity|].
  cbn [sany] in H. apply orb_false_iff in H. destruct H as [Hc Hw].
  cbn [String.append span_nondot]. rewrite Ascii.eqb_sym, Hc, (IH r Hw). reflexivity.
Qed.

Lemma not_ecp_prefix : forall bs r, sany (Ascii.eqb ".") bs = false -> bs <> "ECP" ->
  str_prefix "ECP." (bs +++ String "." r) = false.
Proof.
  intros bs r Hd Hne.
  destruct bs as [|c1 bs]; [reflexivity|]. cbn [sany] in Hd. apply orb_false_iff in Hd. destruct Hd as [H1 Hd].
  cbn [String.append str_prefix]. destruct (Ascii.eqb_spec "E" c1) as [<-|]; [|reflexivity]. cbn [andb].
  destruct bs as [|c2 bs]; [reflexivity|]. cbn [sany] in Hd. apply orb_false_iff in Hd. destruct Hd as [H2 Hd].
  cbn [String.append str_prefix]. destruct (Ascii.eqb_spec "C" c2) as [<-|]; [|reflexivity]. cbn [andb].
  destruct bs as [|c3 bs]; [reflexivity|]. cbn [sany] in Hd. apply orb_false_iff in Hd. destruct Hd as [H3 Hd].
  cbn [String.append str_prefix]. destruct (Ascii.eqb_spec "P" c3) as [<-|]; [|reflexivity]. cbn [andb].
  destruct bs as [|c4 bs]; [congruence|]. cbn [sany] in Hd. apply orb_false_iff in Hd. destruct Hd as [H4 Hd].
  cbn [String.append str_prefix]. rewrite H4. reflexivity.
Qed.

Lemma head_line_match : forall bs meta z shs, (1 <= z <= 118)%Z -> mc_name_ok bs ->
  match_element_head (head_line bs meta z shs) = Some (symz z, bs).
Proof.
  intros bs meta z shs Hz [_ [Hne [Hd [Hecp _]]]]. destruct (sym_facts z Hz) as [_ [Hsne [Hsa _]]].
  pose proof (sym_len z Hz) as Hl.
  unfold head_line, match_element_head. change ("/" +++ symz z +++ "." +++ bs +++ "." +++ fst (meta z) +++ "." +++ cs_gen true shs +++ ".")
    with (String "/" (symz z +++ String "." (bs +++ String "." (fst (meta z) +++ "." +++ cs_gen true shs +++ ".")))).
  cbv beta iota. rewrite (span_alpha_dot _ _ Hsa).
  assert (E1 : Nat.leb 1 (String.length (symz z)) = true) by (apply Nat.leb_le; destruct (symz z); [congruence | cbn; lia]).
  assert (E2 : Nat.leb (String.length (symz z)) 3 = true) by (apply Nat.leb_le; exact Hl).
  rewrite E1, E2. cbn [andb]. rewrite (not_ecp_prefix bs _ Hd Hecp).
  unfold head_name. rewrite (span_nondot_word bs _ Hd). destruct bs; [congruence | reflexivity].
Qed.

Lemma inner_partition : forall sord zs, el_wf_mc zs ->
  partition_lines (inner sord zs) (fun x => ok (is_pp_or_m1 x)) true 1 1 2 = inr [inner sord zs].
Proof.
  intros sord zs Hwf. pose proof (inner_lines sord zs Hwf) as Hin. unfold partition_lines.
  rewrite <- (app_nil_r (inner sord zs)) at 1.
  rewrite (part_skip (fun x => ok (is_pp_or_m1 x)) true (inner sord zs) [] [] []).
  - rewrite part_go_nil. cbn [app flush].
    assert (Hne : inner sord zs <> []) by (unfold inner; destruct (sopt (cart_of sord (snd zs))); discriminate).
    destruct (inner sord zs) as [|x X] eqn:E; [congruence|]. reflexivity.
  - rewrite Forall_forall in *. intros l Hl. unfold ok. now rewrite (proj2 (inner_line_facts l (Hin l Hl))).
Qed.

Lemma inner_first : forall sord zs, el_wf_mc zs ->
  exists first rest, inner sord zs = first :: rest /\ str_prefix "pp" (lower first) = false /\ str_prefix "m1" (lower first) = false.
Proof.
  intros sord [z shs] [Hz _]. cbn [fst snd] in Hz. assert (Hz0 : (0 <= z)%Z) by lia.
  unfold inner. cbn [fst snd]. destruct (sopt_form (cart_of sord shs)) as [->|[Z ->]].
  - cbn [app]. eexists. eexists. split; [reflexivity|]. apply (num_head_facts _ (scharge_num z shs Hz0)).
  - cbn [app]. eexists. eexists. split; [reflexivity|]. split; reflexivity.
Qed.

Lemma parse_element_mc : forall sord bs meta zs d names, el_wf_mc zs -> gapless (snd zs) -> mc_name_ok bs ->
  ~ In (fst zs) (map fst d) ->
  mc_parse_element (pel sord bs meta zs) (d, names) =
  inr (d ++ [(fst zs, map mc_expected_shell (snd zs))], add_name (lower bs) names).
Proof.
  intros sord bs meta zs d names Hwf Hgap Hbs Hd. pose proof Hwf as [Hz _].
  destruct (sym_facts (fst zs) Hz) as [_ [_ [_ Hback]]]. pose proof Hbs as [_ [_ [_ [_ Hint]]]].
  unfold mc_parse_element, pel. rewrite (head_line_match bs meta (fst zs) (snd zs) Hz Hbs), Hback. unfold bind. rewrite Hint.
  cbn [skipn]. rewrite (inner_partition sord zs Hwf).
  destruct (inner_first sord zs Hwf) as [first [rest [E [P1 P2]]]].
  cbn [mc_element_split]. rewrite E, P1, P2. rewrite <- E.
  assert (Hex : existsb (Z.eqb (fst zs)) (map fst d) = false).
  { apply existsb_false. intros x Hx. apply Z.eqb_neq. intros Heq. apply Hd. rewrite Heq. exact Hx. }
  rewrite Hex, (parse_electron_block_mc sord zs Hwf Hgap). cbn [snd]. reflexivity.
Qed.

(* ================================================================== *)
(* 14. all elements, the round trip                                    *)
(* ================================================================== *)
Lemma elements_mc : forall sord bs meta els d names, mc_name_ok bs ->
  Forall el_wf_mc els -> Forall (fun zs => gapless (snd zs)) els -> NoDup (map fst els) ->
  (forall z, In z (map fst els) -> ~ In z (map fst d)) ->
  (names = [] \/ names = [lower bs]) ->
  mc_elements (map (pel sord bs meta) els) (d, names) =
  inr (d ++ mcasl_expected els, match els with [] => names | _ => [lower bs] end).
Proof.
  intros sord bs meta; induction els as [|zs els IH]; intros d names Hbs Hwf Hgap Hnd Hdis Hn.
  - cbn [map mc_elements mcasl_expected]. now rewrite app_nil_r.
  - inversion Hwf as [|? ? W1 W2]; subst. inversion Hgap as [|? ? G1 G2]; subst.
    cbn [map] in Hnd. inversion Hnd as [|? ? Hnotin Hnd']; subst.
    cbn [map mc_elements]. rewrite (parse_element_mc sord bs meta zs d names W1 G1 Hbs); [|apply Hdis; now left]. unfold bind.
    assert (En : add_name (lower bs) names = [lower bs]).
    { destruct Hn as [->| ->]; unfold add_name; cbn [existsb app]; [reflexivity|]. now rewrite String.eqb_refl. }
    rewrite En, (IH _ [lower bs] Hbs W2 G2 Hnd').
    + unfold mcasl_expected. cbn [map]. rewrite <- app_assoc. cbn [app]. destruct els; reflexivity.
    + intros z Hz. rewrite map_app, in_app_iff. cbn [map In fst]. intros [Hin|[Heq|[]]].
      * apply (Hdis z); [now right | exact Hin].
      * subst z. apply Hnotin, Hz.
    + now right.
Qed.

Lemma mcasl_ok_parts : forall sord bs meta els, mcasl_ok sord bs meta els ->
  sord_ok sord /\ mc_name_ok bs /\ els <> [] /\ NoDup (map fst els) /\ mcas_ok els /\
  Forall (fun zs => mc_meta_ok (meta (fst zs))) els /\ Forall (fun zs => gapless (snd zs)) els.
Proof.
  intros sord bs meta els [H1 [H2 [H3 [H4 [H5 H6]]]]].
  split; [exact H1|]. split; [exact H2|]. split; [exact H3|]. split; [exact H4|]. split; [exact H5|]. split.
  - apply Forall_forall. intros zs Hzs. rewrite Forall_forall in H6. apply (H6 zs Hzs).
  - apply Forall_forall. intros zs Hzs. rewrite Forall_forall in H6. apply (H6 zs Hzs).
Qed.

Lemma read_lines_l : forall sord bs meta els, mcasl_ok sord bs meta els ->
  mcas_read (all_lines_l sord bs meta els) = inr (mcasl_expected els, lower bs).
Proof.
  intros sord bs meta els H. destruct (mcasl_ok_parts _ _ _ _ H) as [Hs [Hbs [Hne [Hnd [Hok [Hm Hg]]]]]].
  unfold mcas_read. fold sk3. fold (pr3 (all_lines_l sord bs meta els)).
  rewrite (pruned_lines_l sord bs meta els Hok Hm). fold slash_cond. rewrite (partition_elements sord bs meta els Hok Hm).
  unfold bind. rewrite (elements_mc sord bs meta els [] [] Hbs (mcas_ok_els els Hok) Hg Hnd); [| intros z _ [] | now left].
  cbn [app]. destruct els; [congruence | reflexivity].
Qed.

Lemma mcasl_read_back : mcasl_read_back_stmt.
Proof.
  intros sord bs meta els t H E. destruct (mcasl_ok_parts _ _ _ _ H) as [Hs [[Hb1 _] [_ [_ [Hok [Hm _]]]]]].
  rewrite (write_lines_l sord bs meta els Hok) in E. inversion E; subst; clear E.
  rewrite (splitlines_unlines _ (all_lines_l_good sord bs meta els Hs Hb1 Hm Hok)). apply read_lines_l, H.
Qed.

Lemma mcasl_roundtrip_exact : mcasl_roundtrip_stmt.
Proof.
  intros sord bs meta els H. destruct (mcasl_ok_parts _ _ _ _ H) as [_ [_ [_ [_ [Hok _]]]]].
  unfold mcasl_roundtrip. rewrite (write_lines_l sord bs meta els Hok). unfold bind at 1.
  unfold mcas_read_electron. rewrite (mcasl_read_back sord bs meta els _ H (write_lines_l sord bs meta els Hok)). reflexivity.
Qed.

(* ================================================================== *)
(* 15. the hypotheses that cannot be dropped, the reader alone, a concrete instance *)
(* ================================================================== *)
Lemma mcasl_roundtrip_gap : mcasl_roundtrip_gap_stmt.
Proof. split; vm_compute; reflexivity. Qed.

Ltac wf_shell_mc := repeat split; try discriminate; repeat constructor; try reflexivity; try lia.

Lemma mcasl_cartesian : mcasl_cartesian_stmt.
Proof.
  cbv zeta. split; [|split; [|split; [|split]]]; try (vm_compute; reflexivity).
  - unfold mcasl_ok. split; [intros l x Hx; exact Hx|]. split; [repeat split; try reflexivity; discriminate|].
    split; [discriminate|]. split; [repeat constructor; intros []|]. split.
    + repeat constructor; cbn; try lia; try discriminate; try reflexivity.
    + repeat constructor; cbn; try reflexivity; discriminate.
  - vm_compute. discriminate.
Qed.

Lemma mcasl_roundtrip_name : mcasl_roundtrip_name_stmt.
Proof.
  split; [|split; [|split; [|split]]]; try (vm_compute; reflexivity).
  eexists. split; vm_compute; reflexivity.
Qed.

Lemma mcasl_roundtrip_reference : mcasl_roundtrip_reference_stmt.
Proof. split; [|split]; vm_compute; reflexivity. Qed.

Lemma mcasl_roundtrip_empty : mcasl_roundtrip_empty_stmt.
Proof. split; [|split; [|split]]; vm_compute; reflexivity. Qed.

Lemma mcas_reader : mcas_reader_stmt.
Proof. split; vm_compute; reflexivity. Qed.

Example mcas_example : mcas_example_stmt.
Proof.
  split; [|split; [|split; [|split; [|split]]]]; try (vm_compute; reflexivity).
  unfold mcasl_ok. split; [intros l x Hx; exact Hx|]. split; [repeat split; try reflexivity; discriminate|].
  split; [discriminate|]. split.
  - cbn [map fst mx_els]. repeat constructor; cbn [In]; intros H; repeat (destruct H as [H|H]; [discriminate H|]); exact H.
  - split.
    + repeat constructor; cbn; try lia; try discriminate; try reflexivity.
    + repeat constructor; cbn; try reflexivity; discriminate.
Qed.

Print Assumptions mcas_write_total.
Print Assumptions mcasl_write_total.
Print Assumptions mcas_no_number_lost.
Print Assumptions mcasl_no_number_lost.
Print Assumptions mcas_roundtrip_never.
Print Assumptions mcas_roundtrip_empty.
Print Assumptions mcas_roundtrip_refuted.
Print Assumptions mcasl_read_back.
Print Assumptions mcasl_roundtrip_exact.
Print Assumptions mcasl_roundtrip_gap.
Print Assumptions mcasl_cartesian.
Print Assumptions mcasl_roundtrip_name.
Print Assumptions mcasl_roundtrip_reference.
Print Assumptions mcasl_roundtrip_empty.
Print Assumptions mcas_reader.
Print Assumptions mcas_example.
