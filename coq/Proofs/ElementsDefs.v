(* Statements for C20: compact_elements / expand_elements round trip at the level of the strings. Definitions only. *)
From Coq Require Import Sorting.Sorted.
From BSE Require Import Model.Val Gen.GenLut Model.Lut Model.Elements.

(* sorted(set(S)): strictly increasing, same members *)
Definition sort_dedupe_spec_stmt : Prop :=
  forall S, StronglySorted Z.lt (sort_dedupe S) /\ forall z, In z (sort_dedupe S) <-> In z S.

(* the run grouping loses nothing: expanding the runs gives the list back (for any list) *)
Definition runs_spec_stmt : Prop :=
  forall l, flat_map (fun r => zrange_incl (fst r) (snd r)) (runs l) = l.

(* the round trip, on the strings the two functions really exchange: for every non-empty list of atomic numbers in 1..118
   (duplicates and any order allowed) compact_elements produces a string that expand_elements maps back to the sorted set *)
Definition expand_compact_stmt : Prop :=
  forall S, S <> [] -> Forall (fun z => (1 <= z <= 118)%Z) S ->
    exists s, compact_elements S = inr (Some s) /\ expand_elements (SelStr s) = inr (sort_dedupe S).
(* and for the empty set: compact_elements gives None (Python's bare return), which expand_elements maps to [] *)
Definition expand_compact_empty_stmt : Prop :=
  compact_elements [] = inr None /\ expand_elements SelNone = inr [].

(* the documented malformed patterns are rejected *)
Definition expand_rejects_stmt : Prop :=
  forall a b : string,
    expand_elements (SelStr (a +++ "-," +++ b)) = inl ERuntime /\
    expand_elements (SelStr (a +++ ",-" +++ b)) = inl ERuntime.
Definition expand_rejects_dangling_stmt : Prop :=
  forall z, (1 <= z <= 118)%Z ->
    expand_elements (SelStr (Z_to_string z +++ "-")) = inl ERuntime /\
    expand_elements (SelStr ("-" +++ Z_to_string z)) = inl ERuntime /\
    expand_elements (SelStr (Z_to_string z +++ "-" +++ Z_to_string z +++ "-" +++ Z_to_string z)) = inl ERuntime.
