(* C19: proofs of the statements of Proofs/CompareDefs.v about Model/Compare.v. *)
From Coq Require Import Sorting.Permutation Lia ZArith List Bool.
From BSE Require Import Model.Val Model.Num Model.Basis Model.Manip Model.Sort Model.Memo Model.Compose
  Model.Validator Model.Compare Proofs.NumInstance Proofs.CompareDefs.

(* ------------------------------------------------------------------ *)
(* close                                                              *)
(* ------------------------------------------------------------------ *)

Lemma dec_compare_common : forall a b,
  dec_compare a b = Z.compare (fst (common a b)) (snd (common a b)).
Proof. intros [m1 e1] [m2 e2]. reflexivity. Qed.

(* the bridge: for parsable strings same_s is equality of the common-scaled integers *)
Lemma same_s_common : forall x y a b, parse_num x = Some a -> parse_num y = Some b ->
  (same_s x y = true <-> fst (common a b) = snd (common a b)).
Proof.
  intros x y a b Ha Hb. unfold same_s. rewrite Ha, Hb, dec_compare_common.
  destruct (Z.compare_spec (fst (common a b)) (snd (common a b))) as [E | E | E]; split; intros H;
    try reflexivity; try discriminate; try assumption; lia.
Qed.

Lemma fl_some : forall x a, parse_num x = Some a -> fl x = inr a.
Proof. intros x a H. unfold fl. rewrite H. reflexivity. Qed.

(* the result of close on parsed inputs, as a boolean function of the scaled integers *)
Definition closeb (tn td A B : Z) : bool :=
  if Z.eqb A B then true else
  if orb (Z.eqb A 0) (Z.eqb B 0) then false else
  negb (Z.abs (A - B) * td >? tn * Z.min (Z.abs A) (Z.abs B))%Z.

Lemma close_parsed : forall tn td x y a b, parse_num x = Some a -> parse_num y = Some b ->
  close tn td x y = inr (closeb tn td (fst (common a b)) (snd (common a b))).
Proof.
  intros tn td x y a b Ha Hb. unfold close. rewrite (fl_some _ _ Ha), (fl_some _ _ Hb).
  cbn [bind]. destruct (common a b) as [A B]. cbn [fst snd]. unfold closeb.
  destruct (Z.eqb A B); [reflexivity|]. destruct (orb (Z.eqb A 0) (Z.eqb B 0)); reflexivity.
Qed.

Lemma close_total : forall tn td x y, parses x -> parses y -> exists r, close tn td x y = inr r.
Proof.
  intros tn td x y [a Ha] [b Hb]. eexists. apply (close_parsed tn td _ _ _ _ Ha Hb).
Qed.

Lemma closeb_zero : forall A B, closeb 0 1 A B = Z.eqb A B.
Proof.
  intros A B. unfold closeb. destruct (Z.eqb_spec A B) as [E | E]; [reflexivity|].
  destruct (orb (Z.eqb A 0) (Z.eqb B 0)); [reflexivity|].
  destruct (Z.gtb_spec (Z.abs (A - B) * 1) (0 * Z.min (Z.abs A) (Z.abs B))) as [G | G]; [reflexivity|].
  exfalso. lia.
Qed.

Lemma closeb_within : forall tn td A B,
  closeb tn td A B = true <->
  (A = B \/ (A <> 0 /\ B <> 0 /\ Z.abs (A - B) * td <= tn * Z.min (Z.abs A) (Z.abs B)))%Z.
Proof.
  intros tn td A B. unfold closeb.
  destruct (Z.eqb_spec A B) as [E | E]; [split; auto|].
  destruct (Z.eqb_spec A 0) as [EA | EA]; cbn [orb].
  { split; [discriminate|]. intros [H | [H _]]; contradiction. }
  destruct (Z.eqb_spec B 0) as [EB | EB].
  { split; [discriminate|]. intros [H | [_ [H _]]]; contradiction. }
  destruct (Z.gtb_spec (Z.abs (A - B) * td) (tn * Z.min (Z.abs A) (Z.abs B))) as [G | G]; cbn [negb].
  - split; [discriminate|]. intros [H | [_ [_ H]]]; [contradiction | lia].
  - split; auto.
Qed.

Lemma close_zero_same : forall x y, parses x -> parses y ->
  (close 0 1 x y = inr true <-> same_s x y = true).
Proof.
  intros x y [a Ha] [b Hb]. rewrite (close_parsed 0 1 _ _ _ _ Ha Hb), closeb_zero, (same_s_common _ _ _ _ Ha Hb).
  split.
  - intros H. injection H as H. apply Z.eqb_eq. exact H.
  - intros H. apply Z.eqb_eq in H. rewrite H. reflexivity.
Qed.

Lemma close_within : forall tn td x y, parses x -> parses y ->
  (close tn td x y = inr true <-> within tn td x y).
Proof.
  intros tn td x y [a Ha] [b Hb]. rewrite (close_parsed tn td _ _ _ _ Ha Hb). unfold within.
  remember (common a b) as c eqn:Ec. split.
  - intros H. injection H as H. apply closeb_within in H. exists a, b. split; [exact Ha|]. split; [exact Hb|].
    rewrite <- Ec. destruct c as [A B]. exact H.
  - intros [a' [b' [Ha' [Hb' H]]]]. rewrite Ha in Ha'. rewrite Hb in Hb'.
    injection Ha' as <-. injection Hb' as <-. f_equal. apply closeb_within.
    rewrite <- Ec in H. destruct c as [A B]. exact H.
Qed.

(* ------------------------------------------------------------------ *)
(* compare_vector                                                     *)
(* ------------------------------------------------------------------ *)

Lemma compare_vector_total : compare_vector_total_stmt.
Proof.
  intros tn td a. induction a as [|x a IH]; intros b Ha Hb.
  - destruct b; eexists; reflexivity.
  - destruct b as [|y b]; [eexists; reflexivity|].
    inversion Ha as [|? ? Hx Ha']; subst. inversion Hb as [|? ? Hy Hb']; subst.
    cbn [compare_vector]. destruct (close_total tn td _ _ Hx Hy) as [r Hr]. rewrite Hr. cbn [bind].
    destruct r; [apply IH; assumption | eexists; reflexivity].
Qed.

(* generic: compare_vector is Forall2 of whatever characterises close on parsable entries *)
Lemma compare_vector_forall2 : forall tn td (R : string -> string -> Prop),
  (forall x y, parses x -> parses y -> (close tn td x y = inr true <-> R x y)) ->
  forall a b, Forall parses a -> Forall parses b ->
    (compare_vector tn td a b = inr true <-> Forall2 R a b).
Proof.
  intros tn td R HR a. induction a as [|x a IH]; intros b Ha Hb.
  - destruct b; cbn [compare_vector]; split; intros H; try constructor; try discriminate; try reflexivity.
    inversion H.
  - destruct b as [|y b]; cbn [compare_vector].
    { split; intros H; [discriminate | inversion H]. }
    inversion Ha as [|? ? Hx Ha']; subst. inversion Hb as [|? ? Hy Hb']; subst.
    specialize (HR x y Hx Hy). destruct (close_total tn td _ _ Hx Hy) as [r Hr]. rewrite Hr in *. cbn [bind].
    destruct r.
    + rewrite (IH b Ha' Hb'). split; intros H.
      * constructor; [apply HR; reflexivity | exact H].
      * inversion H; assumption.
    + split; intros H; [discriminate|]. inversion H; subst.
      match goal with H1 : R x y |- _ => apply HR in H1; discriminate end.
Qed.

Lemma compare_vector_zero_tol : compare_vector_zero_tol_stmt.
Proof. intros a b Ha Hb. apply compare_vector_forall2; [apply close_zero_same | exact Ha | exact Hb]. Qed.

Lemma compare_vector_tol : compare_vector_tol_stmt.
Proof.
  intros tn td a b _ _ Ha Hb. apply compare_vector_forall2; [apply close_within | exact Ha | exact Hb].
Qed.

(* ------------------------------------------------------------------ *)
(* sign flip: the parser on a '-' prefixed string                       *)
(* ------------------------------------------------------------------ *)

Definition parse_rest (neg : bool) (s : string) : option (Z * Z) :=
  let '(ip, ni, s) := take_ds s 0 0 in
  let '(m, nfrac, nd, s) :=
    match s with
    | String "." t => let '(m, nf, r) := take_ds t ip 0 in (m, nf, (ni + nf)%nat, r)
    | _ => (ip, O, ni, s)
    end in
  match nd with
  | O => None
  | _ =>
    let '(ex, s, okexp) :=
      match s with
      | String c t =>
        if orb (Ascii.eqb c "e") (Ascii.eqb c "E") then
          let '(eneg, t) := take_sign t in
          let '(ev, ne, r) := take_ds t 0 0 in
          match ne with O => (0%Z, s, false) | _ => ((if eneg then - ev else ev)%Z, r, true) end
        else (0%Z, s, true)
      | EmptyString => (0%Z, s, true)
      end in
    match skip_ws s with
    | EmptyString => if okexp then Some ((if neg then - m else m)%Z, (ex - Z.of_nat nfrac)%Z) else None
    | _ => None
    end
  end.

Lemma parse_num_rest : forall s,
  parse_num s = let '(neg, s') := take_sign (skip_ws s) in parse_rest neg s'.
Proof. intros s. reflexivity. Qed.

Definition negm (p : Z * Z) : Z * Z := (- fst p, snd p)%Z.

Lemma parse_rest_neg : forall s, parse_rest true s = option_map negm (parse_rest false s).
Proof.
  intros s. unfold parse_rest.
  repeat match goal with
         | |- context [match ?x with _ => _ end] => destruct x
         end; reflexivity.
Qed.

Definition first_ok (c : ascii) : bool := orb (is_digit c) (Ascii.eqb c ".").

Lemma first_bad : forall neg c t, first_ok c = false -> parse_rest neg (String c t) = None.
Proof.
  intros neg c t H. destruct c as [b0 b1 b2 b3 b4 b5 b6 b7].
  destruct b0, b1, b2, b3, b4, b5, b6, b7; first [discriminate H | reflexivity].
Qed.

Lemma first_good : forall c t, first_ok c = true ->
  take_sign (skip_ws (String c t)) = (false, String c t).
Proof.
  intros c t H. destruct c as [b0 b1 b2 b3 b4 b5 b6 b7].
  destruct b0, b1, b2, b3, b4, b5, b6, b7; first [discriminate H | reflexivity].
Qed.

Lemma parse_neg : forall x a b, parse_num x = Some a -> parse_num (String "-" x) = Some b -> b = negm a.
Proof.
  intros x a b Ha Hb. destruct x as [|c t].
  { discriminate Ha. }
  assert (Hb' : parse_rest true (String c t) = Some b) by exact Hb.
  destruct (first_ok c) eqn:Hc.
  - rewrite parse_num_rest, (first_good c t Hc) in Ha. rewrite parse_rest_neg, Ha in Hb'.
    cbn [option_map] in Hb'. injection Hb' as <-. reflexivity.
  - rewrite (first_bad true c t Hc) in Hb'. discriminate Hb'.
Qed.

Lemma close_neg_false : forall x, parses x -> is0_s x = false -> parses (String "-" x) ->
  close 0 1 x (String "-" x) = inr false.
Proof.
  intros x [a Ha] H0 [b Hb]. rewrite (close_parsed 0 1 _ _ _ _ Ha Hb), closeb_zero.
  rewrite (parse_neg _ _ _ Ha Hb). f_equal. unfold is0_s in H0. rewrite Ha in H0.
  destruct a as [m e]. unfold common, negm. cbn [fst snd]. rewrite Z.min_id, Z.sub_diag.
  change (pow10 0) with 1%Z. apply Z.eqb_neq in H0. apply Z.eqb_neq. lia.
Qed.

Lemma compare_vector_prefix_false : forall pre x y post post',
  Forall parses pre -> close 0 1 x y = inr false ->
  compare_vector 0 1 (pre ++ x :: post) (pre ++ y :: post') = inr false.
Proof.
  intros pre x y post post' Hpre Hxy. induction Hpre as [|p pre Hp Hpre IH]; cbn [app compare_vector].
  - rewrite Hxy. reflexivity.
  - assert (Hpp : close 0 1 p p = inr true) by (apply close_zero_same; [exact Hp | exact Hp | apply same_s_refl]).
    rewrite Hpp. cbn [bind]. exact IH.
Qed.

Lemma sign_flip_differs : sign_flip_differs_stmt.
Proof.
  intros pre post x Hx H0 Hpre Hpost.
  destruct (parse_num (String "-" x)) as [b|] eqn:Hb.
  - left. apply compare_vector_prefix_false; [exact Hpre|].
    apply close_neg_false; [exact Hx | exact H0 | exists b; exact Hb].
  - right. intros [b' Hb']. rewrite Hb in Hb'. discriminate Hb'.
Qed.

(* ------------------------------------------------------------------ *)
(* compare_matrix and compare_electron_shells                         *)
(* ------------------------------------------------------------------ *)

Lemma compare_matrix_total : forall tn td a b, Forall (Forall parses) a -> Forall (Forall parses) b ->
  exists r, compare_matrix tn td a b = inr r.
Proof.
  intros tn td a. induction a as [|x a IH]; intros b Ha Hb.
  - destruct b; eexists; reflexivity.
  - destruct b as [|y b]; [eexists; reflexivity|].
    inversion Ha as [|? ? Hx Ha']; subst. inversion Hb as [|? ? Hy Hb']; subst.
    cbn [compare_matrix]. destruct (compare_vector_total tn td x y Hx Hy) as [r Hr]. rewrite Hr. cbn [bind].
    destruct r; [apply IH; assumption | eexists; reflexivity].
Qed.

Lemma compare_matrix_zero_tol : forall a b, Forall (Forall parses) a -> Forall (Forall parses) b ->
  (compare_matrix 0 1 a b = inr true <-> rows_equal a b).
Proof.
  unfold rows_equal. intros a. induction a as [|x a IH]; intros b Ha Hb.
  - destruct b; cbn [compare_matrix]; split; intros H; try constructor; try discriminate; try reflexivity.
    inversion H.
  - destruct b as [|y b]; cbn [compare_matrix].
    { split; intros H; [discriminate | inversion H]. }
    inversion Ha as [|? ? Hx Ha']; subst. inversion Hb as [|? ? Hy Hb']; subst.
    pose proof (compare_vector_zero_tol x y Hx Hy) as HR.
    destruct (compare_vector_total 0%Z 1%Z x y Hx Hy) as [r Hr]. rewrite Hr in *. cbn [bind].
    destruct r.
    + rewrite (IH b Ha' Hb'). split; intros H.
      * constructor; [apply HR; reflexivity | exact H].
      * inversion H; assumption.
    + split; intros H; [discriminate|]. inversion H; subst.
      match goal with H1 : Forall2 _ x y |- _ => apply HR in H1; discriminate end.
Qed.

Lemma list_eqb_Z : forall a b : list Z, list_eqb Z.eqb a b = true <-> a = b.
Proof.
  intros a. induction a as [|x a IH]; intros b; destruct b as [|y b]; cbn [list_eqb];
    try (split; [reflexivity | reflexivity]); try (split; discriminate).
  rewrite andb_true_iff, Z.eqb_eq, IH. split.
  - intros [-> ->]. reflexivity.
  - intros H. injection H as -> ->. split; reflexivity.
Qed.

(* ---- the sorted shell only contains entries of the original shell ---- *)

Lemma insert_desc_in : forall (leb : string -> string -> bool) p q l,
  In q (insert_desc leb p l) -> q = p \/ In q l.
Proof.
  intros leb p q l. induction l as [|r t IH]; cbn [insert_desc]; intros H.
  - destruct H as [H | []]. left. symmetry. exact H.
  - destruct (leb (snd p) (snd r)).
    + destruct H as [H | H]; [right; left; exact H|]. destruct (IH H) as [E | E]; [left; exact E | right; right; exact E].
    + destruct H as [H | H]; [left; symmetry; exact H | right; exact H].
Qed.

Lemma fold_insert_desc_in : forall (leb : string -> string -> bool) q l acc,
  In q (fold_left (fun acc p => insert_desc leb p acc) l acc) -> In q l \/ In q acc.
Proof.
  intros leb q l. induction l as [|p l IH]; intros acc H; cbn [fold_left] in H.
  - right. exact H.
  - destruct (IH _ H) as [E | E]; [left; right; exact E|].
    destruct (insert_desc_in _ _ _ _ E) as [-> | E']; [left; left; reflexivity | right; exact E'].
Qed.

Lemma enumerate_from_range : forall (A : Type) (l : list A) k i x,
  In (i, x) (enumerate_from k l) -> (k <= i < k + List.length l)%nat.
Proof.
  intros A l. induction l as [|y t IH]; intros k i x H; cbn [enumerate_from] in H.
  - destruct H.
  - cbn [List.length]. destruct H as [H | H].
    + injection H as <- _. lia.
    + apply IH in H. lia.
Qed.

Lemma zidx_range : forall (leb : string -> string -> bool) xs,
  Forall (fun i => (i < List.length xs)%nat) (zidx leb xs).
Proof.
  intros leb xs. unfold zidx. apply Forall_forall. intros i Hi.
  apply in_map_iff in Hi. destruct Hi as [[j x] [E Hin]]. cbn [fst] in E. subst j.
  apply fold_insert_desc_in in Hin. destruct Hin as [Hin | []].
  apply enumerate_from_range in Hin. lia.
Qed.

Lemma pick_forall : forall (P : string -> Prop) d l idx,
  Forall P l -> Forall (fun i => (i < List.length l)%nat) idx -> Forall P (pick d l idx).
Proof.
  intros P d l idx Hl Hidx. unfold pick. apply Forall_forall. intros x Hx.
  apply in_map_iff in Hx. destruct Hx as [j [<- Hj]].
  rewrite Forall_forall in Hl, Hidx. apply Hl. apply nth_In. apply Hidx. exact Hj.
Qed.

Lemma zipcons_forall : forall (P : string -> Prop) r t,
  Forall P r -> Forall (Forall P) t -> Forall (Forall P) (zipcons r t).
Proof.
  intros P r. induction r as [|x r IH]; intros t Hr Ht; cbn [zipcons]; [constructor|].
  destruct t as [|row t]; [constructor|].
  inversion Hr; subst. inversion Ht; subst. constructor; [constructor; assumption | apply IH; assumption].
Qed.

Lemma transpose_forall : forall (P : string -> Prop) m,
  Forall (Forall P) m -> Forall (Forall P) (transpose m).
Proof.
  intros P m. induction m as [|r m IH]; intros H; [constructor|].
  inversion H as [|? ? Hr Hm]; subst. specialize (IH Hm).
  destruct m as [|r' m'].
  - cbn [transpose]. apply Forall_forall. intros row Hrow. apply in_map_iff in Hrow.
    destruct Hrow as [x [<- Hx]]. constructor; [|constructor]. rewrite Forall_forall in Hr. apply Hr. exact Hx.
  - change (transpose (r :: r' :: m')) with (zipcons r (transpose (r' :: m'))).
    apply zipcons_forall; assumption.
Qed.

(* extra well-formedness needed by compare_shells_zero_tol: the contraction order supplied for a shell with a
   single angular momentum only names existing contractions *)
Definition cidx_ok (s : cshellT) : Prop :=
  List.length (am (fst s)) = 1%nat -> Forall (fun i => (i < List.length (coefs (fst s)))%nat) (snd s).

Lemma shell_rows_parse : forall s, shell_ok s -> cidx_ok s -> Forall (Forall parses) (shell_rows (sorted_of s)).
Proof.
  intros [s cidx] [He [Hc Hlen]] Hci. unfold cidx_ok in Hci. cbn [fst snd] in *.
  unfold shell_rows, sorted_of, sort_shell. cbn [fst snd exps coefs]. apply transpose_forall.
  constructor.
  - apply pick_forall; [exact He | apply zidx_range].
  - set (ci := if Nat.eqb (List.length (am s)) 1 then cidx else seq 0 (List.length (coefs s))).
    assert (Hrange : Forall (fun i => (i < List.length (coefs s))%nat) ci).
    { unfold ci. destruct (Nat.eqb_spec (List.length (am s)) 1) as [E | E]; [apply Hci; exact E|].
      apply Forall_forall. intros i Hi. apply in_seq in Hi. lia. }
    apply Forall_forall. intros row Hrow. apply in_map_iff in Hrow. destruct Hrow as [i [<- Hi]].
    rewrite Forall_forall in Hrange. specialize (Hrange i Hi).
    assert (Hin : In (nth i (coefs s) []) (coefs s)) by (apply nth_In; exact Hrange).
    rewrite Forall_forall in Hc, Hlen.
    apply pick_forall; [apply Hc; exact Hin|]. rewrite (Hlen _ Hin). apply zidx_range.
Qed.

(* compare_shells_zero_tol_stmt is false as written: with an out-of-range contraction index the sorted shell holds
   the default "" which float() rejects, while rows_equal accepts "" = "" *)
Definition cex_shell : cshellT := (mkShell "gto" "" [0%Z] ["1"] [["1"]], [5%nat]).
Lemma compare_shells_zero_tol_cex :
  shell_ok cex_shell /\
  compare_electron_shells 0 1 false cex_shell cex_shell = inl EValue /\
  (am (fst cex_shell) = am (fst cex_shell) /\
   rows_equal (shell_rows (sorted_of cex_shell)) (shell_rows (sorted_of cex_shell))).
Proof.
  split; [|split; [reflexivity|split; [reflexivity|]]].
  - unfold shell_ok. cbn. repeat constructor; exists (1%Z, 0%Z); reflexivity.
  - cbv [rows_equal]. cbn. repeat constructor.
Qed.

Lemma compare_shells_zero_tol_false : ~ compare_shells_zero_tol_stmt.
Proof.
  intros H. destruct compare_shells_zero_tol_cex as [Hok [Hcmp Hrhs]].
  apply (H cex_shell cex_shell Hok Hok) in Hrhs. rewrite Hcmp in Hrhs. discriminate Hrhs.
Qed.

Lemma compare_shells_zero_tol_partial :
  forall s1 s2, shell_ok s1 -> shell_ok s2 -> cidx_ok s1 -> cidx_ok s2 ->
    (compare_electron_shells 0 1 false s1 s2 = inr true <->
     am (fst s1) = am (fst s2) /\ rows_equal (shell_rows (sorted_of s1)) (shell_rows (sorted_of s2))).
Proof.
  intros s1 s2 H1 H2 C1 C2. unfold compare_electron_shells.
  pose proof (shell_rows_parse s1 H1 C1) as P1. pose proof (shell_rows_parse s2 H2 C2) as P2.
  pose proof (compare_matrix_zero_tol _ _ P1 P2) as HM.
  destruct (compare_matrix_total 0%Z 1%Z _ _ P1 P2) as [r Hr]. rewrite Hr in *.
  pose proof (list_eqb_Z (am (fst s1)) (am (fst s2))) as HA.
  destruct (list_eqb Z.eqb (am (fst s1)) (am (fst s2))); cbn [negb bind].
  - destruct r; cbn [negb].
    + split; [intros _; split; [apply HA; reflexivity | apply HM; reflexivity] | reflexivity].
    + split; [discriminate|]. intros [_ H]. apply HM in H. discriminate H.
  - split; [discriminate|]. intros [H _]. apply HA in H. discriminate H.
Qed.

(* ------------------------------------------------------------------ *)
(* find_match / is_subset                                             *)
(* ------------------------------------------------------------------ *)

Lemma find_match_true : forall (A : Type) (cmp : A -> A -> res bool) x l,
  find_match cmp x l = inr true -> exists y, In y l /\ cmp x y = inr true.
Proof.
  intros A cmp x l. induction l as [|y t IH]; cbn [find_match]; intros H; [discriminate H|].
  destruct (cmp x y) as [e | c] eqn:E; cbn [bind] in H; [discriminate H|].
  destruct c.
  - exists y. split; [left; reflexivity | exact E].
  - destruct (IH H) as [z [Hz Hc]]. exists z. split; [right; exact Hz | exact Hc].
Qed.

Lemma find_match_false : forall (A : Type) (cmp : A -> A -> res bool) x l,
  find_match cmp x l = inr false <-> (forall y, In y l -> cmp x y = inr false).
Proof.
  intros A cmp x l. induction l as [|y t IH]; cbn [find_match].
  - split; [intros _ y [] | reflexivity].
  - destruct (cmp x y) as [e | c] eqn:E; cbn [bind].
    + split; [discriminate|]. intros H. specialize (H y (or_introl eq_refl)). rewrite E in H. discriminate H.
    + destruct c.
      * split; [discriminate|]. intros H. specialize (H y (or_introl eq_refl)). rewrite E in H. discriminate H.
      * rewrite IH. split.
        -- intros H z [<- | Hz]; [exact E | apply H; exact Hz].
        -- intros H z Hz. apply H. right. exact Hz.
Qed.

Lemma find_match_total : forall (A : Type) (cmp : A -> A -> res bool) x l,
  (forall x y, exists r, cmp x y = inr r) -> exists r, find_match cmp x l = inr r.
Proof.
  intros A cmp x l Htot. induction l as [|y t IH]; cbn [find_match]; [eexists; reflexivity|].
  destruct (Htot x y) as [c E]. rewrite E. cbn [bind]. destruct c; [eexists; reflexivity | exact IH].
Qed.

Lemma find_match_true_iff : forall (A : Type) (cmp : A -> A -> res bool) x l,
  (forall x y, exists r, cmp x y = inr r) ->
  (find_match cmp x l = inr true <-> exists y, In y l /\ cmp x y = inr true).
Proof.
  intros A cmp x l Htot. split; [apply find_match_true|].
  intros [y [Hy Hc]]. destruct (find_match_total A cmp x l Htot) as [r Hr]. destruct r; [exact Hr|].
  rewrite find_match_false in Hr. rewrite (Hr y Hy) in Hc. discriminate Hc.
Qed.

Lemma is_subset_spec : is_subset_spec_stmt.
Proof.
  intros A cmp sub sup Htot. induction sub as [|x t IH]; cbn [is_subset].
  - split; [intros _ x [] | reflexivity].
  - destruct (find_match_total A cmp x sup Htot) as [f Hf]. rewrite Hf. cbn [bind]. destruct f.
    + rewrite IH. split.
      * intros H z [<- | Hz]; [apply find_match_true; exact Hf | apply H; exact Hz].
      * intros H z Hz. apply H. right. exact Hz.
    + split; [discriminate|]. intros H. destruct (H x (or_introl eq_refl)) as [y [Hy Hc]].
      rewrite find_match_false in Hf. rewrite (Hf y Hy) in Hc. discriminate Hc.
Qed.

(* ------------------------------------------------------------------ *)
(* electron_shells_are_equal: mutual subset + equal length = bijection *)
(* ------------------------------------------------------------------ *)

(* no element of the tail is equivalent to the head, recursively *)
Inductive nodupc (A : Type) (cmp : A -> A -> res bool) : list A -> Prop :=
| nodupc_nil : nodupc A cmp []
| nodupc_cons : forall x l, (forall y, In y l -> cmp x y = inr false) -> nodupc A cmp l -> nodupc A cmp (x :: l).

Lemma nodupc_of_nth : forall (A : Type) (cmp : A -> A -> res bool) (a : list A),
  (forall i j x y, nth_error a i = Some x -> nth_error a j = Some y -> i <> j -> cmp x y = inr false) ->
  nodupc A cmp a.
Proof.
  intros A cmp a. induction a as [|x a IH]; intros H; constructor.
  - intros y Hy. apply In_nth_error in Hy. destruct Hy as [n Hn].
    apply (H 0%nat (S n) x y); [reflexivity | exact Hn | discriminate].
  - apply IH. intros i j u v Hu Hv Hij. apply (H (S i) (S j) u v); [exact Hu | exact Hv | lia].
Qed.

(* the pigeonhole step: an injective-up-to-cmp embedding of a into b with |a| = |b| is onto *)
Lemma embed_perm : forall (A : Type) (cmp : A -> A -> res bool),
  (forall x y, cmp x y = inr true -> cmp y x = inr true) ->
  (forall x y z, cmp x y = inr true -> cmp y z = inr true -> cmp x z = inr true) ->
  forall a b, nodupc A cmp a -> List.length a = List.length b ->
    (forall x, In x a -> exists y, In y b /\ cmp x y = inr true) ->
    exists b', Permutation b b' /\ Forall2 (fun x y => cmp x y = inr true) a b'.
Proof.
  intros A cmp Hsym Htrans a. induction a as [|x a IH]; intros b Hnd Hlen Hsub.
  - destruct b; [|discriminate Hlen]. exists []. split; constructor.
  - inversion Hnd as [|? ? Hx Hnd']; subst.
    destruct (Hsub x (or_introl eq_refl)) as [y [Hy Hxy]].
    apply in_split in Hy. destruct Hy as [b1 [b2 ->]].
    destruct (IH (b1 ++ b2) Hnd') as [b' [Hperm Hall]].
    + rewrite app_length in *. cbn [List.length] in Hlen. lia.
    + intros z Hz. destruct (Hsub z (or_intror Hz)) as [w [Hw Hzw]].
      exists w. split; [|exact Hzw]. apply in_app_or in Hw. apply in_or_app.
      destruct Hw as [Hw | [Hw | Hw]]; [left; exact Hw | | right; exact Hw].
      subst w. exfalso. assert (Hxz : cmp x z = inr true) by (apply (Htrans x y z); [exact Hxy | apply Hsym; exact Hzw]).
      rewrite (Hx z Hz) in Hxz. discriminate Hxz.
    + exists (y :: b'). split; [|constructor; assumption].
      apply Permutation_sym. apply Permutation_cons_app. apply Permutation_sym. exact Hperm.
Qed.

Lemma Forall2_len : forall (A B : Type) (R : A -> B -> Prop) a b,
  Forall2 R a b -> List.length a = List.length b.
Proof. intros A B R a b H. induction H; cbn [List.length]; [reflexivity | f_equal; assumption]. Qed.

Lemma Forall2_in_l : forall (A B : Type) (R : A -> B -> Prop) a b x,
  Forall2 R a b -> In x a -> exists y, In y b /\ R x y.
Proof.
  intros A B R a b x H. induction H as [|u v a b Huv H IH]; intros Hx; [destruct Hx|].
  destruct Hx as [<- | Hx]; [exists v; split; [left; reflexivity | exact Huv]|].
  destruct (IH Hx) as [y [Hy Hr]]. exists y. split; [right; exact Hy | exact Hr].
Qed.

Lemma Forall2_in_r : forall (A B : Type) (R : A -> B -> Prop) a b y,
  Forall2 R a b -> In y b -> exists x, In x a /\ R x y.
Proof.
  intros A B R a b y H. induction H as [|u v a b Huv H IH]; intros Hy; [destruct Hy|].
  destruct Hy as [<- | Hy]; [exists u; split; [left; reflexivity | exact Huv]|].
  destruct (IH Hy) as [x [Hx Hr]]. exists x. split; [right; exact Hx | exact Hr].
Qed.

Lemma shells_equal_perm : shells_equal_perm_stmt.
Proof.
  intros A cmp a b Htot Hrefl Hsym Htrans Hna Hnb.
  rewrite (is_subset_spec A cmp a b Htot), (is_subset_spec A cmp b a Htot). split.
  - intros [Hlen [Hab _]]. apply embed_perm; try assumption. apply nodupc_of_nth. exact Hna.
  - intros [b' [Hperm Hall]]. split; [|split].
    + rewrite (Permutation_length Hperm). apply (Forall2_len _ _ _ _ _ Hall).
    + intros x Hx. destruct (Forall2_in_l _ _ _ _ _ _ Hall Hx) as [y [Hy Hc]].
      exists y. split; [apply (Permutation_in y (Permutation_sym Hperm)); exact Hy | exact Hc].
    + intros y Hy. apply (Permutation_in y Hperm) in Hy.
      destruct (Forall2_in_r _ _ _ _ _ _ Hall Hy) as [x [Hx Hc]].
      exists x. split; [exact Hx | apply Hsym; exact Hc].
Qed.

(* ------------------------------------------------------------------ *)
(* subtract_electron_shells                                           *)
(* ------------------------------------------------------------------ *)

Lemma subtract_cons_inv : forall x t s2 out, subtract_electron_shells (x :: t) s2 = inr out ->
  exists f r, find_match (compare_electron_shells 0 1 false) x s2 = inr f /\
              subtract_electron_shells t s2 = inr r /\ out = if f then r else x :: r.
Proof.
  intros x t s2 out H. cbn [subtract_electron_shells] in H.
  destruct (find_match (compare_electron_shells 0 1 false) x s2) as [e | f]; cbn [bind] in H; [discriminate H|].
  destruct (subtract_electron_shells t s2) as [e | r]; cbn [bind] in H; [discriminate H|].
  exists f, r. injection H as <-. repeat split.
Qed.

Lemma subtract_spec : subtract_spec_stmt.
Proof.
  intros s1 s2. induction s1 as [|x t IH]; intros out H z.
  - cbn [subtract_electron_shells] in H. injection H as <-. split; [intros [] | intros [[] _]].
  - destruct (subtract_cons_inv _ _ _ _ H) as [f [r [Hf [Hr ->]]]]. specialize (IH r Hr z).
    destruct f.
    + rewrite IH. split.
      * intros [Hz Hall]. split; [right; exact Hz | exact Hall].
      * intros [[<- | Hz] Hall]; [|split; assumption].
        apply find_match_false in Hall. rewrite Hall in Hf. discriminate Hf.
    + rewrite find_match_false in Hf. split.
      * intros [<- | Hz]; [split; [left; reflexivity | exact Hf]|].
        apply IH in Hz. destruct Hz as [Hz Hall]. split; [right; exact Hz | exact Hall].
      * intros [[<- | Hz] Hall]; [left; reflexivity|]. right. apply IH. split; assumption.
Qed.

Lemma subtract_sublist : subtract_sublist_stmt.
Proof.
  intros s1 s2. induction s1 as [|x t IH]; intros out H.
  - cbn [subtract_electron_shells] in H. injection H as <-. exists []. split; reflexivity.
  - destruct (subtract_cons_inv _ _ _ _ H) as [f [r [Hf [Hr ->]]]].
    destruct (IH r Hr) as [keep [Hlen ->]]. exists (negb f :: keep). split.
    + cbn [List.length]. f_equal. exact Hlen.
    + cbn [combine filter snd]. destruct f; reflexivity.
Qed.

Print Assumptions compare_vector_zero_tol.
Print Assumptions compare_vector_total.
Print Assumptions sign_flip_differs.
Print Assumptions compare_vector_tol.
Print Assumptions compare_shells_zero_tol_false.
Print Assumptions compare_shells_zero_tol_partial.
Print Assumptions is_subset_spec.
Print Assumptions shells_equal_perm.
Print Assumptions subtract_spec.
Print Assumptions subtract_sublist.
