(* Statements about the PQS writer (write_pqs; there is no reader): the writer is total on well-formed input; every number
   of the ECP part is a white-space delimited token of some line of the written text; for the electron part this is FALSE
   as it stands (FINDING pqs_fused_stmt: the first exponent of a shell is glued to the shell letter when it has 10 or more
   digits in front of the decimal point - aug-cc-pVTZ-J, Sc .. Zn, in the store), true under pqs_fits, and in every case
   all digits are there (pqs_no_digit_lost_stmt).
   Definitions only; the proofs are in Proofs/PqsSpec.v. *)
From BSE Require Import Model.Val Model.Text Model.Num Model.Basis Model.Manip Model.Matrix Model.Lut Model.Elements
                        Model.Nwchem Model.NwchemEcp Model.G94 Model.GamessUs Model.GamessUsEcp Model.Pqs
                        Proofs.MatrixDefs Proofs.NwchemDefs Proofs.NwchemEcpDefs.

(* ---------- well-formed input of the writer (what is left after make_general(skip_spdf=True) / sort_basis) ---------- *)
(* `floating s` (Proofs/NwchemDefs.v) : is_floating s = true, the string matches helpers.floating_re entirely *)
Definition pqs_shell_ok (s : sshell) : Prop :=
  (* at least one primitive (mat[0] of the writer: IndexError for an empty matrix) *)
  exps s <> [] /\
  (* every angular momentum has a letter in lut._amchar_map_hij (26 letters); any number of momenta *)
  Forall (fun l => (0 <= l < 26)%Z) (am s) /\
  (* any number of general contractions, each with one coefficient per primitive *)
  Forall (fun c => List.length c = List.length (exps s)) (coefs s) /\
  Forall floating (exps s) /\ Forall (Forall floating) (coefs s).

Definition pqs_pot_ok (p : epot) : Prop :=
  (* at least one angular momentum (am[0]), each with a letter in lut._amchar_map_hik (25 letters) *)
  p_am p <> [] /\ Forall (fun l => (0 <= l < 25)%Z) (p_am p) /\
  (* one gaussian exponent per r exponent (ANY integer) *)
  List.length (p_gexp p) = List.length (p_rexp p) /\
  (* at most ONE coefficient column (three point places), as long as the others *)
  List.length (p_coef p) <= 1 /\ Forall (fun c => List.length c = List.length (p_rexp p)) (p_coef p) /\
  Forall floating (p_gexp p) /\ Forall (Forall floating) (p_coef p).

Definition pqs_ecp_el_ok (e : Z * (Z * list epot)) : Prop :=
  (1 <= fst e <= 120)%Z /\ snd (snd e) <> [] /\ Forall pqs_pot_ok (snd (snd e)).

Definition pqs_ok (els : list (Z * list sshell)) (ecps : list (Z * (Z * list epot))) : Prop :=
  Forall (fun zs => (1 <= fst zs <= 120)%Z /\ Forall pqs_shell_ok (snd zs)) els /\
  Forall pqs_ecp_el_ok ecps.
(* NOT needed: distinct keys, am s <> [], coefs s <> [], an element having shells, anything about 'ecp_electrons' *)

(* the number of characters in front of the decimal point (printing._find_point) *)
Definition point_index (s : string) : nat :=
  match index_char "." s 0 with Some i => i | None => String.length s end.
(* THE extra condition of the token property: the first exponent of every shell has at most 9 characters in front of its
   decimal point, so that at least two blanks are printed in front of it (the first exponent column has its decimal point
   in column 12), of which the shell letter takes one *)
Definition pqs_first_fits (s : sshell) : Prop := point_index (hd "" (exps s)) <= 9.
Definition pqs_fits (els : list (Z * list sshell)) : Prop := Forall (fun zs => Forall pqs_first_fits (snd zs)) els.

(* ---------- statements ---------- *)
(* the writer does not fail on well-formed input *)
Definition pqs_write_total_stmt : Prop :=
  forall els ecps, pqs_ok els ecps -> exists t, pqs_write_all els ecps = inr t.

(* C04, electron part, full strength: FALSE (pqs_no_number_lost_counterexample in Proofs/PqsSpec.v) *)
Definition pqs_no_number_lost_stmt : Prop :=
  forall els ecps t, pqs_ok els ecps -> pqs_write_all els ecps = inr t ->
    forall x, nw_number_of els x -> exists line, In line (splitlines t) /\ In x (tokens_acc line "").

(* ... true when the first exponent of every shell leaves room for the letter *)
Definition pqs_no_number_lost_partial_stmt : Prop :=
  forall els ecps t, pqs_ok els ecps -> pqs_fits els -> pqs_write_all els ecps = inr t ->
    forall x, nw_number_of els x -> exists line, In line (splitlines t) /\ In x (tokens_acc line "").

(* ... and without that condition: every exponent and every coefficient is a token, or the END of a token whose beginning
   consists of letters only (the shell letter glued to the first exponent) - no digit, sign, point or exponent marker of
   any number is missing from the text *)
Definition pqs_no_digit_lost_stmt : Prop :=
  forall els ecps t, pqs_ok els ecps -> pqs_write_all els ecps = inr t ->
    forall x, nw_number_of els x ->
      exists line tok, In line (splitlines t) /\ In tok (tokens_acc line "") /\
        (tok = x \/ exists pre, tok = pre +++ x /\ sall is_alpha pre = true).

(* C04, ECP part: every gaussian exponent and every coefficient, unchanged, and the decimal form of every r exponent and of
   every electron count is a white-space delimited token of some line (nw_ecp_number_of, Proofs/NwchemEcpDefs.v) *)
Definition pqs_ecp_no_number_lost_stmt : Prop :=
  forall els ecps t, pqs_ok els ecps -> pqs_write_all els ecps = inr t ->
    forall x, nw_ecp_number_of ecps x -> exists line, In line (splitlines t) /\ In x (tokens_acc line "").

(* ---------- FINDING: the first exponent glued to the shell letter ---------- *)
(* valid data FROM THE STORE: aug-cc-pVTZ-J has, for Sc .. Zn, s exponents with 10 and 11 digits in front of the decimal
   point (Sc: 5400187546.0000000, Cr: 12289145322.0000000).  The first exponent column has its point in column 12:
   - 10 digits: ONE blank is printed in front of the number, and the letter takes its place;
   - 11 digits: no blank is printed, the letter is put in front (`else` branch of the writer: nothing is cut off).
   Either way the line begins `S5400187546.0000000`: the exponent is not a token of any line of the text.  The shells below
   are the first two primitives and the first contraction of the s shells of Sc and Cr; the Python writer prints the same
   lines for get_basis('aug-cc-pVTZ-J', elements=[21, 24], fmt='pqs'). *)
Definition pqs_fused_els : list (Z * list sshell) :=
  [(21%Z, [mkShell "gto" "" [0%Z] ["5400187546.0000000"; "808649286.0000000"] [["0.00000000070900"; "0.00000000529998"]]]);
   (24%Z, [mkShell "gto" "" [0%Z] ["12289145322.0000000"; "1840090021.0000000"] [["-3.55986E-10"; "-2.65389E-09"]]])].
Definition pqs_fused_text : string :=
  String.concat nl1
   ["FOR        Sc";
    "S5400187546.0000000              0.00000000070900";
    "  808649286.0000000              0.00000000529998";
    "FOR        Cr";
    "S12289145322.0000000             -3.55986E-10";
    " 1840090021.0000000             -2.65389E-09";
    ""].
Definition is_token_of (t x : string) : Prop := exists line, In line (splitlines t) /\ In x (tokens_acc line "").
Definition pqs_fused_stmt : Prop :=
  pqs_ok pqs_fused_els [] /\
  pqs_write_all pqs_fused_els [] = inr pqs_fused_text /\
  ~ is_token_of pqs_fused_text "5400187546.0000000" /\
  ~ is_token_of pqs_fused_text "12289145322.0000000" /\
  (* the other numbers are tokens; 9 digits in front of the point are fine *)
  is_token_of pqs_fused_text "808649286.0000000" /\ is_token_of pqs_fused_text "1840090021.0000000" /\
  pqs_write_all [(1%Z, [mkShell "gto" "" [0%Z] ["123456789.5"] [["0.5"]]])] [] =
    inr (String.concat nl1 ["FOR        H"; "S 123456789.5                    0.5"; ""]).

(* ---------- which conditions of pqs_ok cannot be dropped ---------- *)
Definition pqs_h (ex : list string) (co : list (list string)) : list (Z * list sshell) := [(1%Z, [mkShell "gto" "" [0%Z] ex co])].
Definition pqs_p1 (l : Z) : epot := mkEpot "scalar_ecp" [l] [2%Z] ["1.0"] [["0.5"]].
Definition pqs_na (pots : list epot) : list (Z * (Z * list epot)) := [(11%Z, (10%Z, pots))].

(* `exps s <> []`: mat[0] of an empty string is an IndexError (also when a coefficient column is empty);
   `length c = length (exps s)`: zip() cuts to the shortest column, the exponent 2.0 is LOST without an error;
   `0 <= l < 26`, `1 <= z <= 120`, `Forall floating` *)
Definition pqs_conditions_stmt : Prop :=
  pqs_write_all (pqs_h [] [[]]) [] = inl EIndex /\
  pqs_write_all (pqs_h ["1.0"] [[]]) [] = inl EIndex /\
  pqs_write_all (pqs_h ["1.0"; "2.0"] [["0.5"]]) [] =
    inr (String.concat nl1 ["FOR        H"; "S         1.0                    0.5"; ""]) /\
  pqs_write_all [(1%Z, [mkShell "gto" "" [26%Z] ["1.0"] [["0.5"]]])] [] = inl EIndex /\
  pqs_write_all [(121%Z, [mkShell "gto" "" [0%Z] ["1.0"] [["0.5"]]])] [] = inl EKey /\
  pqs_write_all (pqs_h ["10"] [["0.5"]]) [] = inl EValue.

(* conditions that are NOT needed: no momentum (the first blank is simply removed), no coefficient column, a fused spd
   shell (three letters take the place of one blank), l = 25, an element without shells, nothing at all *)
Definition pqs_not_needed_stmt : Prop :=
  pqs_write_all [(1%Z, [mkShell "gto" "" [] ["1.0"] [];
                        mkShell "gto" "" [0; 1; 2]%Z ["1.0"] [["0.5"]; ["0.5"]; ["0.5"]];
                        mkShell "gto" "" [25%Z] ["1.0"] [["0.5"]]]); (2%Z, [])] [] =
    inr (String.concat nl1 ["FOR        H"; "         1.0";
                            "SPD         1.0                    0.5                    0.5                    0.5";
                            "E         1.0                    0.5"; "FOR        He"; ""]) /\
  pqs_write_all [] [] = inr "".

(* the ECP part.  FINDING (valid for the schema and the validator, not in the store): two coefficient columns stop the
   writer with an IndexError (three point places).  No potential: ValueError of max().  l = 24 is the last momentum of a
   potential with a letter.  A surplus gaussian exponent / coefficient is LOST without an error (not valid data) *)
Definition pqs_ecp_conditions_stmt : Prop :=
  pqs_write_all [] (pqs_na [mkEpot "scalar_ecp" [0%Z] [2%Z] ["1.0"] [["0.5"]; ["0.25"]]]) = inl EIndex /\
  pqs_write_all [] (pqs_na [mkEpot "scalar_ecp" [0%Z] [2%Z] ["1.0"] []]) =
    inr (String.concat nl1 [""; ""; "Effective core Potentials"; "-------------------------"; "NA-ECP GEN    10    0";
                            "1     ----- s-ul potential -----"; "       2             1.0"; ""]) /\
  pqs_write_all [] (pqs_na []) = inl EValue /\
  pqs_write_all [] (pqs_na [mkEpot "scalar_ecp" [] [2%Z] ["1.0"] [["0.5"]]]) = inl EIndex /\
  pqs_write_all [] (pqs_na [pqs_p1 25]) = inl EIndex /\
  pqs_write_all [] (pqs_na [pqs_p1 24]) =
    inr (String.concat nl1 [""; ""; "Effective core Potentials"; "-------------------------"; "NA-ECP GEN    10    24";
                            "1     ----- e-ul potential -----"; "      0.5             2       1.0"; ""]) /\
  pqs_write_all [] (pqs_na [mkEpot "scalar_ecp" [0%Z] [2%Z] ["1.0"; "3.0"] [["0.5"; "0.25"]]]) =
    inr (String.concat nl1 [""; ""; "Effective core Potentials"; "-------------------------"; "NA-ECP GEN    10    0";
                            "1     ----- s-ul potential -----"; "      0.5             2       1.0"; ""]).

(* OBSERVATION (as for write_gamess_us, whose code this is): the two letters of a title line come from different tables -
   the potential's own letter is made with hij=False, the letter of the highest momentum with hij=True: for lmax = 7 the
   highest potential is `k-ul`, the others are `s-j`, `p-j`.  Not conditions: a negative electron count, negative or
   many-digit r exponents, any exponent marker *)
Definition pqs_ecp_letters_stmt : Prop :=
  pqs_ok [] [(11%Z, ((-10)%Z, [pqs_p1 7; pqs_p1 0; mkEpot "scalar_ecp" [1%Z] [(-1)%Z; 12%Z] ["1.0e1"; ".5D-3"] [["-0.5E+00"; "0."]]]))] /\
  pqs_write_all [] [(11%Z, ((-10)%Z, [pqs_p1 7; pqs_p1 0; mkEpot "scalar_ecp" [1%Z] [(-1)%Z; 12%Z] ["1.0e1"; ".5D-3"] [["-0.5E+00"; "0."]]]))] =
    inr (String.concat nl1 [""; ""; "Effective core Potentials"; "-------------------------"; "NA-ECP GEN    -10    7";
                            "1     ----- k-ul potential -----"; "      0.5             2       1.0";
                            "1     ----- s-j potential -----"; "      0.5             2       1.0";
                            "2     ----- p-j potential -----"; "     -0.5E+00         -1      1.0e1";
                            "      0.              12       .5D-3"; ""]).

(* ---------- concrete instances from the store ---------- *)
(* LANL2DZ for H and Na as write_pqs sees it (after make_general the two s shells of an element are ONE shell with two
   general contractions, padded with zeros); pqs_ex_text is, byte for byte,
   basis_set_exchange.get_basis('lanl2dz', elements=[1, 11], fmt='pqs', header=False) *)
Definition pqs_ex_els : list (Z * list sshell) :=
  [((1)%Z, [(mkShell "gto" "" [(0)%Z] ["19.2384000"; "2.8987000"; "0.6535000"; "0.1776000"] [["0.0328280"; "0.2312040"; "0.8172260"; "0.0000000"]; ["0.0000000"; "0.0000000"; "0.0000000"; "1.0000000"]])]);
   ((11)%Z, [(mkShell "gto" "" [(0)%Z] ["0.4972000"; "0.0560000"; "0.0221000"] [["-0.2753574"; "1.0989969"; "0.0000000"]; ["0.0000000"; "0.0000000"; "1.0000000"]]);
     (mkShell "gto" "" [(1)%Z] ["0.6697000"; "0.0636000"; "0.0204000"] [["-0.0683845"; "1.0140550"; "0.0000000"]; ["0.0000000"; "0.0000000"; "1.0000000"]])])].
Definition pqs_ex_ecps : list (Z * (Z * list epot)) :=
  [((11)%Z, ((10)%Z, [(mkEpot "scalar_ecp" [(2)%Z] [(1)%Z; (2)%Z; (2)%Z; (2)%Z; (2)%Z] ["175.5502590"; "35.0516791"; "7.9060270"; "2.3365719"; "0.7799867"] [["-10.0000000"; "-47.4902024"; "-17.2283007"; "-6.0637782"; "-0.7299393"]]);
     (mkEpot "scalar_ecp" [(0)%Z] [(0)%Z; (1)%Z; (2)%Z; (2)%Z; (2)%Z] ["243.3605846"; "41.5764759"; "13.2649167"; "3.6797165"; "0.9764209"] [["3.0000000"; "36.2847626"; "72.9304880"; "23.8401151"; "6.0123861"]]);
     (mkEpot "scalar_ecp" [(1)%Z] [(0)%Z; (1)%Z; (2)%Z; (2)%Z; (2)%Z; (2)%Z] ["1257.2650682"; "189.6248810"; "54.5247759"; "13.7449955"; "3.6813579"; "0.9461106"] [["5.0000000"; "117.4495683"; "423.3986704"; "109.3247297"; "31.3701656"; "7.1241813"]])]))].
Definition pqs_ex_text : string :=
  String.concat nl1
   ["FOR        H";
    "S        19.2384000              0.0328280              0.0000000";
    "          2.8987000              0.2312040              0.0000000";
    "          0.6535000              0.8172260              0.0000000";
    "          0.1776000              0.0000000              1.0000000";
    "FOR        Na";
    "S         0.4972000             -0.2753574              0.0000000";
    "          0.0560000              1.0989969              0.0000000";
    "          0.0221000              0.0000000              1.0000000";
    "P         0.6697000             -0.0683845              0.0000000";
    "          0.0636000              1.0140550              0.0000000";
    "          0.0204000              0.0000000              1.0000000";
    "";
    "";
    "Effective core Potentials";
    "-------------------------";
    "NA-ECP GEN    10    2";
    "5     ----- d-ul potential -----";
    "    -10.0000000       1     175.5502590";
    "    -47.4902024       2      35.0516791";
    "    -17.2283007       2       7.9060270";
    "     -6.0637782       2       2.3365719";
    "     -0.7299393       2       0.7799867";
    "5     ----- s-d potential -----";
    "      3.0000000       0     243.3605846";
    "     36.2847626       1      41.5764759";
    "     72.9304880       2      13.2649167";
    "     23.8401151       2       3.6797165";
    "      6.0123861       2       0.9764209";
    "6     ----- p-d potential -----";
    "      5.0000000       0    1257.2650682";
    "    117.4495683       1     189.6248810";
    "    423.3986704       2      54.5247759";
    "    109.3247297       2      13.7449955";
    "     31.3701656       2       3.6813579";
    "      7.1241813       2       0.9461106";
    ""].

(* 6-31G for C as write_pqs sees it (make_general(skip_spdf=True) leaves the sp shells alone; they are labelled L);
   byte for byte basis_set_exchange.get_basis('6-31g', elements=[6], fmt='pqs', header=False) *)
Definition pqs_sp_els : list (Z * list sshell) :=
  [((6)%Z, [(mkShell "gto" "" [(0)%Z] ["0.3047524880E+04"; "0.4573695180E+03"; "0.1039486850E+03"; "0.2921015530E+02"; "0.9286662960E+01"; "0.3163926960E+01"] [["0.1834737132E-02"; "0.1403732281E-01"; "0.6884262226E-01"; "0.2321844432E+00"; "0.4679413484E+00"; "0.3623119853E+00"]]);
     (mkShell "gto" "valence" [(0)%Z; (1)%Z] ["0.7868272350E+01"; "0.1881288540E+01"; "0.5442492580E+00"] [["-0.1193324198E+00"; "-0.1608541517E+00"; "0.1143456438E+01"]; ["0.6899906659E-01"; "0.3164239610E+00"; "0.7443082909E+00"]]);
     (mkShell "gto" "valence" [(0)%Z; (1)%Z] ["0.1687144782E+00"] [["0.1000000000E+01"]; ["0.1000000000E+01"]])])].
Definition pqs_sp_ecps : list (Z * (Z * list epot)) :=
  [].
Definition pqs_sp_text : string :=
  String.concat nl1
   ["FOR        C";
    "S         0.3047524880E+04       0.1834737132E-02";
    "          0.4573695180E+03       0.1403732281E-01";
    "          0.1039486850E+03       0.6884262226E-01";
    "          0.2921015530E+02       0.2321844432E+00";
    "          0.9286662960E+01       0.4679413484E+00";
    "          0.3163926960E+01       0.3623119853E+00";
    "L         0.7868272350E+01      -0.1193324198E+00       0.6899906659E-01";
    "          0.1881288540E+01      -0.1608541517E+00       0.3164239610E+00";
    "          0.5442492580E+00       0.1143456438E+01       0.7443082909E+00";
    "L         0.1687144782E+00       0.1000000000E+01       0.1000000000E+01";
    ""].

Definition pqs_example_stmt : Prop :=
  pqs_ok pqs_ex_els pqs_ex_ecps /\ pqs_fits pqs_ex_els /\
  pqs_write_all pqs_ex_els pqs_ex_ecps = inr pqs_ex_text /\
  pqs_ok pqs_sp_els pqs_sp_ecps /\ pqs_fits pqs_sp_els /\
  pqs_write_all pqs_sp_els pqs_sp_ecps = inr pqs_sp_text.
