(* Statements about the ECP section of the Dalton writer / reader pair and about the whole file: what write_dalton prints,
   read_dalton cannot read.  Definitions only; the proofs are in Proofs/DaltonEcpSpec.v. *)
From BSE Require Import Model.Val Model.Text Model.Basis Model.Manip Model.Matrix Model.Lut Model.Elements Model.Nwchem
                        Model.Turbomole Model.NwchemEcp Model.Dalton Model.DaltonEcp
                        Proofs.MatrixDefs Proofs.NwchemDefs Proofs.NwchemEcpDefs Proofs.TurbomoleDefs Proofs.DaltonDefs.

(* ---------- well-formed input of the ECP part of the writer ---------- *)
(* one element: at least one potential, every potential well-formed (ecp_pot_ok of Proofs/NwchemEcpDefs.v: one angular
   momentum in 0..24, at least one term, one r exponent / gaussian exponent / coefficient per term, exactly one coefficient
   column, numbers matching helpers.floating_re), momenta pairwise distinct.  NO condition on the atomic number or on the
   number of electrons: the writer prints them with '{:3d}' and '{:4d}' and looks nothing up. *)
Definition dal_ecp_el_ok (e : Z * (Z * list epot)) : Prop :=
  let '(z, (nelec, pots)) := e in
  pots <> [] /\ Forall ecp_pot_ok pots /\ NoDup (map pot_l pots).

(* the whole file: an electron part as in Proofs/DaltonDefs.v (dal_pre: even without the condition on the shell momenta) or
   none at all (ECP-only basis sets such as def2-ecp), and at least one element with an ECP *)
Definition dal_all_ok (bsname : string) (els : list (Z * list sshell)) (ecps : list (Z * (Z * list epot))) : Prop :=
  dal_name_ok bsname /\ (els = [] \/ dal_pre bsname els) /\ ecps <> [] /\ Forall dal_ecp_el_ok ecps.

(* ---------- statements ---------- *)
(* the writer does not fail *)
Definition dal_all_write_total_stmt : Prop :=
  forall bsname els ecps, dal_all_ok bsname els ecps -> exists t, dal_write_all bsname els ecps = inr t.

(* FINDING: whatever the data, a basis set with an ECP that write_dalton has written cannot be read by read_dalton.  The
   writer prints the ECP section in the layout of Dalton's ECP library (`a  11`, `$`, `   2  10`, ...), the reader gives the
   section to the NWChem ECP parser, whose first block starts at the line `a  11`; am_line_re (`Sym AM`) does not match
   it: RuntimeError.  (The electron part in front of it is read without error before that.) *)
Definition dal_ecp_unreadable_stmt : Prop :=
  forall bsname els ecps, dal_all_ok bsname els ecps -> dal_roundtrip_all bsname els ecps = inl ERuntime.

(* C04 direction: every number of the ECP part - gaussian exponents, coefficients, r exponents and electron counts in
   decimal - is a white-space delimited token of some line of the written text.
   For the electron count this is NOT true as it stands: '{:4d}{:4d}' glues the highest momentum and the electron count
   together when the count has four digits or more (dal_ecp_glued_counterexample_stmt); so it is only claimed for counts
   below 1000 (every element has fewer electrons) *)
Definition dal_ecp_number_of (ecps : list (Z * (Z * list epot))) (x : string) : Prop :=
  exists e, In e ecps /\
    ((x = Z_to_string (fst (snd e)) /\ (0 <= fst (snd e) < 1000)%Z) \/
     exists p, In p (snd (snd e)) /\
       (In x (p_gexp p) \/ (exists c, In c (p_coef p) /\ In x c) \/ exists r, In r (p_rexp p) /\ x = Z_to_string r)).
Definition dal_ecp_no_number_lost_stmt : Prop :=
  forall bsname els ecps t, dal_all_ok bsname els ecps -> dal_write_all bsname els ecps = inr t ->
    forall x, dal_ecp_number_of ecps x -> exists line, In line (splitlines t) /\ In x (tokens_acc line "").
Definition dal_ecp_glued_counterexample_stmt : Prop :=
  exists t, dal_write_all "n" [] [(11%Z, (1000%Z, [mkEpot "scalar_ecp" [0%Z] [2%Z] ["1.0"] [["1.0"]]]))] = inr t /\
            In "   01000" (splitlines t) /\
            forallb (fun line => negb (existsb (String.eqb "1000") (tokens_acc line ""))) (splitlines t) = true.

(* ---------- a concrete instance from the store: LANL2DZ for H (electron shells only) and Na (electron shells and ECP) as
   write_dalton sees it after make_general and sort_basis; dxe_text is, byte for byte,
   basis_set_exchange.get_basis('lanl2dz', elements=[1, 11], fmt='dalton', header=False) ---------- *)
Definition dxe_1_0 : sshell := mkShell "gto" "" [(0)%Z] ["19.2384000"; "2.8987000"; "0.6535000"; "0.1776000"] [["0.0328280"; "0.2312040"; "0.8172260"; "0.0000000"]; ["0.0000000"; "0.0000000"; "0.0000000"; "1.0000000"]].
Definition dxe_11_0 : sshell := mkShell "gto" "" [(0)%Z] ["0.4972000"; "0.0560000"; "0.0221000"] [["-0.2753574"; "1.0989969"; "0.0000000"]; ["0.0000000"; "0.0000000"; "1.0000000"]].
Definition dxe_11_1 : sshell := mkShell "gto" "" [(1)%Z] ["0.6697000"; "0.0636000"; "0.0204000"] [["-0.0683845"; "1.0140550"; "0.0000000"]; ["0.0000000"; "0.0000000"; "1.0000000"]].
Definition dxe_pot_11_0 : epot := mkEpot "scalar_ecp" [(2)%Z] [(1)%Z; (2)%Z; (2)%Z; (2)%Z; (2)%Z] ["175.5502590"; "35.0516791"; "7.9060270"; "2.3365719"; "0.7799867"] [["-10.0000000"; "-47.4902024"; "-17.2283007"; "-6.0637782"; "-0.7299393"]].
Definition dxe_pot_11_1 : epot := mkEpot "scalar_ecp" [(0)%Z] [(0)%Z; (1)%Z; (2)%Z; (2)%Z; (2)%Z] ["243.3605846"; "41.5764759"; "13.2649167"; "3.6797165"; "0.9764209"] [["3.0000000"; "36.2847626"; "72.9304880"; "23.8401151"; "6.0123861"]].
Definition dxe_pot_11_2 : epot := mkEpot "scalar_ecp" [(1)%Z] [(0)%Z; (1)%Z; (2)%Z; (2)%Z; (2)%Z; (2)%Z] ["1257.2650682"; "189.6248810"; "54.5247759"; "13.7449955"; "3.6813579"; "0.9461106"] [["5.0000000"; "117.4495683"; "423.3986704"; "109.3247297"; "31.3701656"; "7.1241813"]].
Definition dxe_els : list (Z * list sshell) := [(1%Z, [dxe_1_0]); (11%Z, [dxe_11_0; dxe_11_1])].
Definition dxe_ecps : list (Z * (Z * list epot)) := [(11%Z, (10%Z, [dxe_pot_11_0; dxe_pot_11_1; dxe_pot_11_2]))].
Definition dxe_text : string :=
  String.concat nl1
   ["! Basis = LANL2DZ";
    "";
    "a 1";
    "! HYDROGEN       (4s) -> [2s]";
    "! s functions";
    "H    4    2";
    "     19.2384000              0.0328280              0.0000000";
    "      2.8987000              0.2312040              0.0000000";
    "      0.6535000              0.8172260              0.0000000";
    "      0.1776000              0.0000000              1.0000000";
    "a 11";
    "! SODIUM       (3s,3p) -> [2s,2p]";
    "! s functions";
    "H    3    2";
    "      0.4972000             -0.2753574              0.0000000";
    "      0.0560000              1.0989969              0.0000000";
    "      0.0221000              0.0000000              1.0000000";
    "! p functions";
    "H    3    2";
    "      0.6697000             -0.0683845              0.0000000";
    "      0.0636000              1.0140550              0.0000000";
    "      0.0204000              0.0000000              1.0000000";
    "";
    "";
    "ECP";
    "a  11";
    "$";
    "   2  10";
    "           5";
    "1    175.5502590            -10.0000000";
    "2     35.0516791            -47.4902024";
    "2      7.9060270            -17.2283007";
    "2      2.3365719             -6.0637782";
    "2      0.7799867             -0.7299393";
    "           5";
    "0    243.3605846              3.0000000";
    "1     41.5764759             36.2847626";
    "2     13.2649167             72.9304880";
    "2      3.6797165             23.8401151";
    "2      0.9764209              6.0123861";
    "           6";
    "0   1257.2650682              5.0000000";
    "1    189.6248810            117.4495683";
    "2     54.5247759            423.3986704";
    "2     13.7449955            109.3247297";
    "2      3.6813579             31.3701656";
    "2      0.9461106              7.1241813";
    "$";
    "$ END OF ECP";
    ""].

(* what read_dalton does read: the same electron part followed by the ECP section as write_nwchem prints it (the section
   of exe_text, Proofs/NwchemEcpDefs.v) *)
Definition dxe_text_nw : string :=
  String.concat nl1
   ["! Basis = LANL2DZ";
    "";
    "a 1";
    "! HYDROGEN       (4s) -> [2s]";
    "! s functions";
    "H    4    2";
    "     19.2384000              0.0328280              0.0000000";
    "      2.8987000              0.2312040              0.0000000";
    "      0.6535000              0.8172260              0.0000000";
    "      0.1776000              0.0000000              1.0000000";
    "a 11";
    "! SODIUM       (3s,3p) -> [2s,2p]";
    "! s functions";
    "H    3    2";
    "      0.4972000             -0.2753574              0.0000000";
    "      0.0560000              1.0989969              0.0000000";
    "      0.0221000              0.0000000              1.0000000";
    "! p functions";
    "H    3    2";
    "      0.6697000             -0.0683845              0.0000000";
    "      0.0636000              1.0140550              0.0000000";
    "      0.0204000              0.0000000              1.0000000";
    "";
    "";
    "ECP";
    "Na nelec 10";
    "Na ul";
    "1     175.5502590            -10.0000000";
    "2      35.0516791            -47.4902024";
    "2       7.9060270            -17.2283007";
    "2       2.3365719             -6.0637782";
    "2       0.7799867             -0.7299393";
    "Na S";
    "0     243.3605846              3.0000000";
    "1      41.5764759             36.2847626";
    "2      13.2649167             72.9304880";
    "2       3.6797165             23.8401151";
    "2       0.9764209              6.0123861";
    "Na P";
    "0    1257.2650682              5.0000000";
    "1     189.6248810            117.4495683";
    "2      54.5247759            423.3986704";
    "2      13.7449955            109.3247297";
    "2       3.6813579             31.3701656";
    "2       0.9461106              7.1241813";
    "END";
    ""].

Definition dxe_read : list (string * nw_el) :=
  [("1", mkNwEl [dxe_1_0] None []);
   ("11", mkNwEl [dxe_11_0; dxe_11_1] (Some 10%Z) [dxe_pot_11_0; dxe_pot_11_1; dxe_pot_11_2])].

Definition dal_ecp_example_stmt : Prop :=
  dal_all_ok "LANL2DZ" dxe_els dxe_ecps /\
  dal_write_all "LANL2DZ" dxe_els dxe_ecps = inr dxe_text /\
  dal_roundtrip_all "LANL2DZ" dxe_els dxe_ecps = inl ERuntime /\
  (* without the ECP section the electron part comes back exactly *)
  dal_roundtrip "LANL2DZ" dxe_els = inr dxe_els /\
  (* with the ECP section in NWChem's layout everything comes back exactly *)
  dal_read_all (splitlines dxe_text_nw) = inr dxe_read.
