(* Statements for C01 / C05 / C11: the loop-and-dictionary shaped composition model refines a per-element spec. Definitions only. *)
From BSE Require Import Model.Val Model.Elements Model.Compose Model.Index Gen.GenApi.

(* ---------- declarative per-element specification ---------- *)
(* the entries of element z in the components that the element file lists for z, references wrapped, in file order *)
Definition spec_sources (d : datadir) (efile z : string) : res (list val) :=
  do ef <- read_json_basis d efile;
  do e <- (do els <- vfield "elements" ef; vfield z els);
  do comps <- (do c <- vfield "components" e; do l <- vlist c; mapM vstr l);
  mapM (fun c => do comp <- read_json_basis d c;
                 do w <- wrap_component comp;
                 do els <- vfield "elements" w;
                 match els with
                 | VDict ce => match assoc z ce with Some x => ok x | None => fail ERuntime end
                 | _ => fail EType
                 end) comps.
Definition spec_element (d : datadir) (efile z : string) : res val :=
  do srcs <- spec_sources d efile z; do m <- merge_sources [] srcs; ok (VDict m).

Definition key_present (k : string) (v : val) : bool :=
  match v with VDict d => match assoc k d with Some _ => true | None => false end | _ => false end.
Definition list_under (k : string) (v : val) : list val :=
  match v with VDict d => match assoc k d with Some (VList l) => l | _ => [] end | _ => [] end.

(* merge_element_data(None, sources): shells and reference groups are concatenated in source order, nothing else appears *)
Definition merge_sources_spec_stmt : Prop :=
  forall srcs ret, merge_sources [] srcs = inr ret ->
    assoc "electron_shells" ret =
      (if existsb (key_present "electron_shells") srcs then Some (VList (flat_map (list_under "electron_shells") srcs)) else None) /\
    assoc "references" ret =
      (if existsb (key_present "references") srcs then Some (VList (flat_map (list_under "references") srcs)) else None) /\
    (forall k, In k (map fst ret) -> In k ["electron_shells"; "ecp_potentials"; "ecp_electrons"; "references"]) /\
    (forall p, assoc "ecp_potentials" ret = Some p ->
       exists s sd, In s srcs /\ s = VDict sd /\ assoc "ecp_potentials" sd = Some p /\ assoc "ecp_electrons" ret = assoc "ecp_electrons" sd) /\
    (assoc "ecp_potentials" ret = None -> existsb (key_present "ecp_potentials") srcs = false).

(* a second ECP for one element is refused *)
Definition merge_two_ecps_refused_stmt : Prop :=
  forall pre s1 mid s2 post,
    key_present "ecp_potentials" s1 = true -> key_present "ecp_potentials" s2 = true ->
    exists e, merge_sources [] (pre ++ s1 :: mid ++ s2 :: post) = inl e.

(* compose_table_basis refines the per-element spec: same element keys in the table's order, and each element is exactly the
   merge of the component entries its element file lists for it (hence depends on nothing else: no leak between elements) *)
Definition compose_table_elements_stmt : Prop :=
  forall d t b, compose_table_basis d t = inr b ->
    exists table tels els',
      read_json_basis d t = inr table /\ vfield "elements" table = inr (VDict tels) /\
      vfield "elements" b = inr (VDict els') /\ map fst els' = map fst tels /\
      Forall2 (fun kv' kv => exists efile, snd kv = VStr efile /\ spec_element d efile (fst kv) = inr (snd kv')) els' tels.

(* a listed component without the element, or an element file without the element: refused, never composed *)
Definition compose_refuses_stmt : Prop :=
  forall d t table tels z efile,
    read_json_basis d t = inr table -> vfield "elements" table = inr (VDict tels) ->
    In (z, VStr efile) tels -> (exists e, spec_element d efile z = inl e) ->
    exists e, compose_table_basis d t = inl e.

(* metadata overlay, version from the file name, function types recomputed *)
Definition compose_table_fields_stmt : Prop :=
  forall d t b, compose_table_basis d t = inr b ->
    exists table meta md els',
      read_json_basis d t = inr table /\
      read_json_basis d (path_join (dirname t) (hd "" (split_on "." (basename t)) +++ ".metadata.json")) = inr meta /\
      meta = VDict md /\ vfield "elements" b = inr (VDict els') /\
      (forall k v, assoc k md = Some v -> k <> "molssi_bse_schema" -> vfield k b = inr v) /\
      (assoc "version" md = None -> exists ver, nth_from_end (split_on "." (basename t)) 2 = inr ver /\ vfield "version" b = inr (VStr ver)) /\
      (assoc "function_types" md = None -> exists ft, whole_basis_types els' = inr ft /\ vfield "function_types" b = inr (VStrs ft)) /\
      (forall k, ~ In k ["elements"; "version"; "function_types"; "molssi_bse_schema"] -> assoc k md = None -> vfield k b = vfield k table).

(* whole_basis_types: sorted, duplicate free, and exactly the types present *)
Definition whole_basis_types_spec_stmt : Prop :=
  forall els ft, whole_basis_types els = inr ft ->
    (forall t, In t ft <->
       exists kv sh, In kv els /\
         ((In sh (list_under "electron_shells" (snd kv)) /\ vfield "function_type" sh = inr (VStr t)) \/
          (In sh (list_under "ecp_potentials" (snd kv)) /\ vfield "ecp_type" sh = inr (VStr t)))) /\
    (forall i j a b, i < j -> nth_error ft i = Some a -> nth_error ft j = Some b -> str_ltb a b = true).

(* ---------- C05: names and element selection ---------- *)
Definition name_case_insensitive_stmt : Prop :=
  forall n1 n2, lower n1 = lower n2 -> transform_basis_name n1 = transform_basis_name n2.

(* get_basis_plain with a selection = the full result restricted to the selected elements (file order kept, per-element data
   identical, function_types recomputed, every other field unchanged); an empty selection means everything *)
Definition select_spec_stmt : Prop :=
  forall d name ver sel zs full fd els,
    get_basis_plain d name ver None = inr full -> full = VDict fd -> assoc "elements" fd = Some (VDict els) ->
    expand_elements sel = inr zs ->
    match zs with
    | [] => get_basis_plain d name ver (Some sel) = inr full
    | _ =>
      let want := map Z_to_string zs in
      if forallb (fun z => existsb (String.eqb z) (map fst els)) want then
        exists ft, whole_basis_types (filter (fun kv => existsb (String.eqb (fst kv)) want) els) = inr ft /\
          get_basis_plain d name ver (Some sel) =
            inr (VDict (assoc_set "function_types" (VStrs ft)
                          (assoc_set "elements" (VDict (filter (fun kv => existsb (String.eqb (fst kv)) want) els)) fd)))
      else get_basis_plain d name ver (Some sel) = inl EKey
    end.

(* two selections with the same members select the same data *)
Definition select_ext_stmt : Prop :=
  forall d name ver s1 s2 z1 z2,
    expand_elements s1 = inr z1 -> expand_elements s2 = inr z2 -> z1 <> [] -> z2 <> [] ->
    (forall z, In z z1 <-> In z z2) ->
    get_basis_plain d name ver (Some s1) = get_basis_plain d name ver (Some s2).

Definition name_spelling_stmt : Prop :=
  forall d n1 n2 ver sel, lower n1 = lower n2 -> get_basis_plain d n1 ver sel = get_basis_plain d n2 ver sel.

Definition unknown_name_stmt : Prop :=
  forall d m name ver sel, assoc "METADATA.json" d = Some (VDict m) -> assoc (transform_basis_name name) m = None ->
    get_basis_plain d name ver sel = inl EKey.

(* ---------- C11: filter and lookups over the index ---------- *)
Definition entry_ok (e : val) : Prop :=
  exists f r dn vers, entry_str "family" e = inr f /\ entry_str "role" e = inr r /\ entry_str "display_name" e = inr dn /\
                      vfield "versions" e = inr (VDict vers).

(* filter_basis_sets without the elements criterion: exactly the entries whose family and role equal the lower-cased
   arguments and whose lower-cased display name contains the lower-cased substring; entries unchanged, index order kept *)
Definition filter_spec_stmt : Prop :=
  forall m substr family role out,
    Forall (fun kv => entry_ok (snd kv)) m ->
    filter_basis_sets m substr family role None = inr out ->
    out = filter (fun kv =>
            match entry_str "family" (snd kv), entry_str "role" (snd kv), entry_str "display_name" (snd kv) with
            | inr f, inr r, inr dn =>
              (match family with None => true | Some x => String.eqb f (lower x) end) &&
              (match role with None => true | Some x => String.eqb r (lower x) end) &&
              (match substr with None => true | Some "" => true | Some x => infix (lower x) (lower dn) end)
            | _, _, _ => false
            end) m.

Definition filter_invalid_stmt : Prop :=
  forall m substr family role els,
    (exists r, role = Some r /\ is_role (lower r) = false) ->
    (match family with None => True | Some f => exists fams, get_families m = inr fams /\ In (lower f) fams end) ->
    filter_basis_sets m substr family role els = inl ERuntime.

(* get_all_basis_names / get_families enumerate exactly the index *)
Definition names_enumerate_stmt : Prop :=
  forall m names, get_all_basis_names m = inr names ->
    List.length names = List.length m /\
    (forall n, In n names <-> exists kv, In kv m /\ entry_str "display_name" (snd kv) = inr n).
Definition families_enumerate_stmt : Prop :=
  forall m fams, get_families m = inr fams ->
    (forall f, In f fams <-> exists kv, In kv m /\ entry_str "family" (snd kv) = inr f) /\
    (forall i j a b, i < j -> nth_error fams i = Some a -> nth_error fams j = Some b -> str_ltb a b = true).

(* lookup_basis_by_role returns exactly the names listed under that role of the primary entry *)
Definition lookup_role_spec_stmt : Prop :=
  forall m primary role names, lookup_basis_by_role m primary role = inr names ->
    is_role (lower role) = true /\
    exists e aux, assoc (transform_basis_name primary) m = Some e /\ vfield "auxiliaries" e = inr (VDict aux) /\
      (assoc (lower role) aux = Some (VStr (hd "" names)) /\ List.length names = 1 \/
       assoc (lower role) aux = Some (VStrs names)).
