(* Statements about the ECP part of the Molcas writers / reader and about the whole file (an element with electron shells, an
   ECP, or both): what write_molcas_library prints, read_molcas reads back.  Definitions only; the proofs are in
   Proofs/MolcasEcpSpec.v. *)
From BSE Require Import Model.Val Model.Text Model.Basis Model.Manip Model.Matrix Model.Lut Model.Elements Model.Nwchem
                        Model.NwchemEcp Model.Molcas Model.MolcasEcp
                        Proofs.MatrixDefs Proofs.NwchemDefs Proofs.NwchemEcpDefs Proofs.MolcasDefs.

(* ---------- well-formed input ---------- *)
(* [[n]; [0]; [1]; ...; [n - 1]] : helpers.potential_am_list(n), one momentum per potential *)
Definition mc_canon_ams (n : nat) : list (list Z) := map (fun a => [Z.of_nat a]) (potential_am_list n).

(* the ECP of an element with atomic number z.  ecp_pot_ok (Proofs/NwchemEcpDefs.v): ONE momentum (with a letter), at least
   one term, one gaussian exponent per r exponent, exactly ONE row of coefficients of the same length, numbers matching
   helpers.floating_re; r exponents are any integers *)
Definition mc_ecp_ok (z : Z) (e : Z * list epot) : Prop :=
  (* 'ecp_electrons' is printed with str() and read with \d+ : not negative; and not more than the element has, so that the
     charge line `Z - ecp_electrons` is a plain non-negative number (this second bound is NOT needed for the round trip -
     mcasl_ecp_negative_charge_stmt - it keeps the statement simple) *)
  (0 <= fst e <= z)%Z /\
  (* at least one potential (max() of the writer) *)
  snd e <> [] /\
  (* the momenta are 0 .. L, each exactly once, in the order [L, 0, 1, ..., L - 1] which sort_basis establishes (the writer
     sorts once more): the reader does not look at the comments `!  s-ul potential`, it takes L from the `PP` line and
     assigns potential_am_list(L) to the blocks in the order in which they come *)
  map p_am (snd e) = mc_canon_ams (List.length (snd e) - 1) /\
  Forall ecp_pot_ok (snd e).

(* the electron shells of an element: mc_shell_wf and no gap (Proofs/MolcasDefs.v) *)
Definition mc_shells_ok (shs : list sshell) : Prop :=
  shs <> [] /\ Forall mc_shell_wf shs /\
  map (@am string) shs = map (fun k => [Z.of_nat k]) (seq 0 (List.length shs)).

Definition mc_el_all_ok (meta : Z -> string * string) (ze : Z * mel) : Prop :=
  (1 <= fst ze <= 118)%Z /\ mc_meta_ok (meta (fst ze)) /\
  (* shells or an ECP: an element with neither leaves three lines, which partition_lines(min_size=4) refuses *)
  (fst (snd ze) <> None \/ snd (snd ze) <> None) /\
  match fst (snd ze) with Some shs => mc_shells_ok shs | None => True end /\
  match snd (snd ze) with Some e => mc_ecp_ok (fst ze) e | None => True end.

Definition mcasl_all_ok (sord : list string -> list string) (bs_name : string) (meta : Z -> string * string)
                        (els : list (Z * mel)) : Prop :=
  sord_ok sord /\ mc_name_ok bs_name /\ els <> [] /\ NoDup (map fst els) /\ Forall (mc_el_all_ok meta) els.

(* ---------- what comes back ---------- *)
(* shells as in mcasl_expected; 'ecp_electrons' as it is, present exactly when there is an ECP; the potentials in order, with
   type 'scalar_ecp' whatever the input said, momenta and r exponents unchanged, numbers normalised (d/D -> e/E) *)
Definition mc_expected_eld (m : mel) : mc_eld :=
  (option_map (map mc_expected_shell) (fst m),
   option_map fst (snd m),
   option_map (fun e : Z * list epot => map ecp_expected_pot (snd e)) (snd m)).
Definition mcasl_all_expected (els : list (Z * mel)) : mc_data := map (fun ze => (fst ze, mc_expected_eld (snd ze))) els.

(* ---------- statements ---------- *)
Definition mcasl_all_write_total_stmt : Prop :=
  forall sord bs_name meta els, Forall (mc_el_all_ok meta) els -> exists t, mcasl_write_all sord bs_name meta els = inr t.

(* the whole file: elements in order, each with its shells, its electron count and its potentials *)
Definition mcasl_all_roundtrip_stmt : Prop :=
  forall sord bs_name meta els, mcasl_all_ok sord bs_name meta els ->
    mcasl_roundtrip_all sord bs_name meta els = inr (mcasl_all_expected els, lower bs_name).

(* the order required by mc_ecp_ok is a fixed point of the writers' ordering (sorted by momentum, last to the front) *)
Definition mc_ecp_order_canon_stmt : Prop :=
  forall pots, pots <> [] -> map p_am pots = mc_canon_ams (List.length pots - 1) -> ecp_order pots = inr pots.

(* C04 direction for the ECP part: the lines are `r,g,c;` - every gaussian exponent and every coefficient (unchanged) and the
   decimal form of every r exponent is a comma delimited field of some line (after the final `;` is taken off) *)
Definition mc_ecp_number_of (els : list (Z * mel)) (x : string) : Prop :=
  exists ze e p, In ze els /\ snd (snd ze) = Some e /\ In p (snd e) /\
    (In x (p_gexp p) \/ (exists c, In c (p_coef p) /\ In x c) \/ exists r, In r (p_rexp p) /\ x = Z_to_string r).
Definition mcasl_ecp_no_number_lost_stmt : Prop :=
  forall sord bs_name meta els t, sord_ok sord -> one_line bs_name -> Forall (mc_el_all_ok meta) els ->
    mcasl_write_all sord bs_name meta els = inr t ->
    forall x, mc_ecp_number_of els x -> exists line, In line (splitlines t) /\ In x (comma_split (rstrip_semi line)).

(* format 'molcas' (inline): never readable, with or without ECP (no hypothesis on the input) *)
Definition mcas_all_never_stmt : Prop :=
  forall sord els t, els <> [] -> mcas_write_all sord els = inr t -> mcas_read_all (splitlines t) = inl ERuntime.

(* ---------- conditions that cannot be dropped ---------- *)
Definition mp (t : string) (l : Z) : epot := mkEpot t [l] [2%Z] ["1.0"] [["0.5"]].
Definition me1 (pots : list epot) : list (Z * mel) := [(11%Z, (Some [mc_s], Some (10%Z, pots)))].

(* FINDING (valid data).  Momenta with a gap ({0, 2}: valid for the validator): `PP, Na, 10, 2 ;` and two blocks, the reader
   wants three: RuntimeError.  A single potential with momentum 1 likewise. *)
Definition mcasl_ecp_gap_stmt : Prop :=
  mcasl_roundtrip_all id "X" mc_meta0 (me1 [mp "scalar_ecp" 2; mp "scalar_ecp" 0]) = inl ERuntime /\
  mcasl_roundtrip_all id "X" mc_meta0 (me1 [mp "scalar_ecp" 1]) = inl ERuntime.
(* a duplicated momentum that makes up for a missing one is not an error: {2, 2, 1} comes back as {2, 0, 1} (the comments
   `!  p-ul potential` are not read) *)
Definition mcasl_ecp_duplicate_stmt : Prop :=
  mcasl_roundtrip_all id "X" mc_meta0 (me1 [mp "scalar_ecp" 2; mp "scalar_ecp" 2; mp "scalar_ecp" 1]) =
    inr ([(11%Z, (Some [mc_s], Some 10%Z, Some [mp "scalar_ecp" 2; mp "scalar_ecp" 0; mp "scalar_ecp" 1]))], "x").
(* another order of the input: the written order comes back *)
Definition mcasl_ecp_order_stmt : Prop :=
  mcasl_roundtrip_all id "X" mc_meta0 (me1 [mp "scalar_ecp" 0; mp "scalar_ecp" 1; mp "scalar_ecp" 2]) =
    inr ([(11%Z, (Some [mc_s], Some 10%Z, Some [mp "scalar_ecp" 2; mp "scalar_ecp" 0; mp "scalar_ecp" 1]))], "x").
(* FINDING (silent change).  Only coefficients[0] is printed: a second row of coefficients is lost without any error; the
   ecp_type is not printed either: 'spinorbit_ecp' comes back as 'scalar_ecp' (this one is in mcasl_all_expected) *)
Definition mcasl_ecp_rows_stmt : Prop :=
  mcasl_roundtrip_all id "X" mc_meta0 (me1 [mkEpot "scalar_ecp" [0%Z] [2%Z] ["1.0"] [["0.5"]; ["0.25"]]]) =
    inr ([(11%Z, (Some [mc_s], Some 10%Z, Some [mp "scalar_ecp" 0]))], "x") /\
  mcasl_roundtrip_all id "X" mc_meta0 (me1 [mp "spinorbit_ecp" 0]) =
    inr ([(11%Z, (Some [mc_s], Some 10%Z, Some [mp "scalar_ecp" 0]))], "x").
(* no potential (writer: max() of an empty list), a potential without terms (reader: block of one line), a negative electron
   count (reader: \d+), an element with neither shells nor ECP (reader: min_size=4) *)
Definition mcasl_ecp_bad_stmt : Prop :=
  mcasl_roundtrip_all id "X" mc_meta0 (me1 []) = inl EValue /\
  mcasl_roundtrip_all id "X" mc_meta0 (me1 [mkEpot "scalar_ecp" [0%Z] [] [] [[]]]) = inl ERuntime /\
  mcasl_roundtrip_all id "X" mc_meta0 [(11%Z, (Some [mc_s], Some ((-1)%Z, [mp "scalar_ecp" 0])))] = inl ERuntime /\
  mcasl_roundtrip_all id "X" mc_meta0 [(11%Z, (None, None))] = inl ERuntime.
(* more ECP electrons than the element has: the charge line is negative, and it is read back all the same *)
Definition mcasl_ecp_negative_charge_stmt : Prop :=
  mcasl_roundtrip_all id "X" mc_meta0 [(1%Z, (Some [mc_s], Some (2%Z, [mp "scalar_ecp" 0])))] =
    inr ([(1%Z, (Some [mc_s], Some 2%Z, Some [mp "scalar_ecp" 0]))], "x").
(* an ECP without electron shells, and an ECP with zero electrons *)
Definition mcasl_ecp_only_stmt : Prop :=
  mcasl_all_ok id "X" mc_meta0 [(11%Z, (None, Some (10%Z, [mp "scalar_ecp" 0]))); (12%Z, (Some [mc_s], Some (0%Z, [mp "scalar_ecp" 0])))] /\
  mcasl_write_all id "X" mc_meta0 [(11%Z, (None, Some (10%Z, [mp "scalar_ecp" 0])))] =
    inr (String.concat nl1
          ["/Na.X.Author..ECP.1el.";
           "A. Author. J. Chem. Phys. 1 (2000) 1.";
           "SODIUM ";
           "PP, Na, 10, 0 ;";
           "1; !  ul potential";
           "2,1.0,0.5;";
           "Spectral Representation Operator";
           "End of Spectral Representation Operator";
           "";
           ""]).


(* ---------- a concrete instance from the store: LANL2DZ for H (shells only) and Na (shells and ECP) after make_general /
   sort_basis; me_text is, byte for byte, get_basis('lanl2dz', elements=[1, 11], fmt='molcas_library', header=False) ---------- *)
Definition me_H0 : sshell :=
  mkShell "gto" "" [0%Z]
          ["19.2384000"; "2.8987000"; "0.6535000"; "0.1776000"]
          [["0.0328280"; "0.2312040"; "0.8172260"; "0.0000000"];
           ["0.0000000"; "0.0000000"; "0.0000000"; "1.0000000"]].
Definition me_Na0 : sshell :=
  mkShell "gto" "" [0%Z]
          ["0.4972000"; "0.0560000"; "0.0221000"]
          [["-0.2753574"; "1.0989969"; "0.0000000"];
           ["0.0000000"; "0.0000000"; "1.0000000"]].
Definition me_Na1 : sshell :=
  mkShell "gto" "" [1%Z]
          ["0.6697000"; "0.0636000"; "0.0204000"]
          [["-0.0683845"; "1.0140550"; "0.0000000"];
           ["0.0000000"; "0.0000000"; "1.0000000"]].
Definition me_pot0 : epot :=
  mkEpot "scalar_ecp" [2%Z] [1%Z; 2%Z; 2%Z; 2%Z; 2%Z]
         ["175.5502590"; "35.0516791"; "7.9060270"; "2.3365719"; "0.7799867"]
         [["-10.0000000"; "-47.4902024"; "-17.2283007"; "-6.0637782"; "-0.7299393"]].
Definition me_pot1 : epot :=
  mkEpot "scalar_ecp" [0%Z] [0%Z; 1%Z; 2%Z; 2%Z; 2%Z]
         ["243.3605846"; "41.5764759"; "13.2649167"; "3.6797165"; "0.9764209"]
         [["3.0000000"; "36.2847626"; "72.9304880"; "23.8401151"; "6.0123861"]].
Definition me_pot2 : epot :=
  mkEpot "scalar_ecp" [1%Z] [0%Z; 1%Z; 2%Z; 2%Z; 2%Z; 2%Z]
         ["1257.2650682"; "189.6248810"; "54.5247759"; "13.7449955"; "3.6813579"; "0.9461106"]
         [["5.0000000"; "117.4495683"; "423.3986704"; "109.3247297"; "31.3701656"; "7.1241813"]].
Definition me_text : string :=
  String.concat nl1
   ["/H.LANL2DZ.Dunning.4s.2s.";
    "T.H. Dunning, P.J. Hay. In ""Methods of Electronic Structure Theory"" (1977) 1-27. doi:10.1007/978-1-4757-0887-5";
    "HYDROGEN (4s) -> [2s]";
    "      1.0   0";
    "* s-type functions";
    "     4    2";
    "              19.2384000";
    "               2.8987000";
    "               0.6535000";
    "               0.1776000";
    "      0.0328280              0.0000000";
    "      0.2312040              0.0000000";
    "      0.8172260              0.0000000";
    "      0.0000000              1.0000000";
    "";
    "/Na.LANL2DZ.Wadt.3s3p.2s2p.ECP.1el.";
    "W.R. Wadt, P.J. Hay. J. Chem. Phys. 82 (1985) 284-298. doi:10.1063/1.448800";
    "SODIUM (3s,3p) -> [2s,2p]";
    "      1.0   1";
    "* s-type functions";
    "     3    2";
    "               0.4972000";
    "               0.0560000";
    "               0.0221000";
    "     -0.2753574              0.0000000";
    "      1.0989969              0.0000000";
    "      0.0000000              1.0000000";
    "* p-type functions";
    "     3    2";
    "               0.6697000";
    "               0.0636000";
    "               0.0204000";
    "     -0.0683845              0.0000000";
    "      1.0140550              0.0000000";
    "      0.0000000              1.0000000";
    "PP, Na, 10, 2 ;";
    "5; !  ul potential";
    "1,175.5502590,-10.0000000;";
    "2,35.0516791,-47.4902024;";
    "2,7.9060270,-17.2283007;";
    "2,2.3365719,-6.0637782;";
    "2,0.7799867,-0.7299393;";
    "5; !  s-ul potential";
    "0,243.3605846,3.0000000;";
    "1,41.5764759,36.2847626;";
    "2,13.2649167,72.9304880;";
    "2,3.6797165,23.8401151;";
    "2,0.9764209,6.0123861;";
    "6; !  p-ul potential";
    "0,1257.2650682,5.0000000;";
    "1,189.6248810,117.4495683;";
    "2,54.5247759,423.3986704;";
    "2,13.7449955,109.3247297;";
    "2,3.6813579,31.3701656;";
    "2,0.9461106,7.1241813;";
    "Spectral Representation Operator";
    "End of Spectral Representation Operator";
    "";
    ""].

Definition me_els : list (Z * mel) :=
  [(1%Z, (Some [me_H0], None)); (11%Z, (Some [me_Na0; me_Na1], Some (10%Z, [me_pot0; me_pot1; me_pot2])))].
Definition me_meta (z : Z) : string * string :=
  if Z.eqb z 1 then ("Dunning", "T.H. Dunning, P.J. Hay. In ""Methods of Electronic Structure Theory"" (1977) 1-27. doi:10.1007/978-1-4757-0887-5")
  else ("Wadt", "W.R. Wadt, P.J. Hay. J. Chem. Phys. 82 (1985) 284-298. doi:10.1063/1.448800").

Definition mcasl_ecp_example_stmt : Prop :=
  mcasl_all_ok id "LANL2DZ" me_meta me_els /\
  mcasl_write_all id "LANL2DZ" me_meta me_els = inr me_text /\
  mcas_read_all (splitlines me_text) =
    inr ([(1%Z, (Some [me_H0], None, None)); (11%Z, (Some [me_Na0; me_Na1], Some 10%Z, Some [me_pot0; me_pot1; me_pot2]))],
         "lanl2dz") /\
  mcasl_all_expected me_els =
    [(1%Z, (Some [me_H0], None, None)); (11%Z, (Some [me_Na0; me_Na1], Some 10%Z, Some [me_pot0; me_pot1; me_pot2]))] /\
  mcas_roundtrip_all id me_els = inl ERuntime.
