(* Proofs of the statements of Proofs/TurbomoleDefs.v: the Turbomole $basis section written by write_turbomole is read
   back by read_turbomole exactly (up to the exponent marker, the region and the function type, see tm_expected). *)
From BSE Require Import Model.Val Model.Text Model.Basis Model.Manip Model.Matrix Gen.GenLut Model.Lut Model.Elements
                        Model.Nwchem Model.Turbomole Proofs.MatrixDefs Proofs.NwchemDefs Proofs.C20Finite
                        Proofs.TurbomoleDefs.
From BSE Require Proofs.ElementsSpec.
From BSE Require Import Proofs.HeaderSpec Proofs.PruneFS Proofs.MatrixSpec Proofs.NwchemSpec.

(* ================================================================== *)
(* 1. generic helpers                                                  *)
(* ================================================================== *)
Lemma sall_false_split : forall p s, sall p s = false ->
  exists a c b, s = a +++ String c b /\ p c = false /\ sall p b = true.
Proof.
  intros p; induction s as [|x t IH]; intros H; [discriminate|].
  destruct (sall p t) eqn:Et.
  - exists "", x, t. cbn [sall] in H. rewrite Et, andb_true_r in H. repeat split; assumption.
  - destruct (IH eq_refl) as [a [c [b [-> [Hc Hb]]]]]. exists (String x a), c, b. repeat split; assumption.
Qed.

Lemma lstrip_spaces : forall b r, sall is_space b = true -> lstrip_ws (b +++ r) = lstrip_ws r.
Proof.
  induction b as [|x b IH]; intros r H; [reflexivity|].
  cbn [sall] in H. apply andb_true_iff in H. destruct H as [Hx Hb].
  cbn [String.append lstrip_ws]. rewrite Hx. apply IH, Hb.
Qed.

Lemma lstrip_head : forall c r, is_space c = false -> lstrip_ws (String c r) = String c r.
Proof. intros c r H. cbn [lstrip_ws]. now rewrite H. Qed.

(* strip() is idempotent *)
Definition rstrip_ws (x : string) : string := srev (lstrip_ws (srev x)).
Lemma strip_rl : forall s, strip_ws s = rstrip_ws (lstrip_ws s).
Proof. reflexivity. Qed.
Lemma lstrip_shape : forall s, lstrip_ws s = "" \/ exists c y, lstrip_ws s = String c y /\ is_space c = false.
Proof.
  induction s as [|c s IH]; [now left|]. cbn [lstrip_ws]. destruct (is_space c) eqn:E; [exact IH|].
  right. exists c, s. split; [reflexivity | exact E].
Qed.
Lemma lstrip_idem : forall s, lstrip_ws (lstrip_ws s) = lstrip_ws s.
Proof.
  intros s. destruct (lstrip_shape s) as [->|[c [y [-> Hc]]]]; [reflexivity | apply lstrip_head, Hc].
Qed.
Lemma rstrip_idem : forall a, rstrip_ws (rstrip_ws a) = rstrip_ws a.
Proof. intros a. unfold rstrip_ws. now rewrite srev_involutive, lstrip_idem. Qed.
Lemma rstrip_head : forall c y, is_space c = false -> exists Z, rstrip_ws (String c y) = String c Z.
Proof.
  intros c y Hc. unfold rstrip_ws. rewrite srev_cons.
  destruct (lstrip_snoc c (srev y) Hc) as [Z EZ]. rewrite EZ, srev_snoc. eauto.
Qed.
Lemma strip_idem : forall s, strip_ws (strip_ws s) = strip_ws s.
Proof.
  intros s. rewrite !strip_rl.
  destruct (lstrip_shape s) as [->|[c [y [-> Hc]]]]; [reflexivity|].
  destruct (rstrip_head c y Hc) as [Z EZ]. rewrite EZ, (lstrip_head c Z Hc), <- EZ. apply rstrip_idem.
Qed.

Lemma strip_blank_head : forall x, strip_ws (String " " x) = strip_ws x.
Proof. reflexivity. Qed.

(* a word, a blank, and something that is not blank: strip() keeps the word and the blank *)
Lemma strip_word_rest : forall w name, tok_ok w -> sall is_space name = false ->
  exists r, strip_ws (w +++ " " +++ name) = w +++ String " " r.
Proof.
  intros w name Hw Hn. destruct (sall_false_split _ _ Hn) as [a [c [b [-> [Hc Hb]]]]].
  exists (a +++ String c ""). rewrite strip_rl, (lstrip_word w _ Hw). unfold rstrip_ws.
  change (w +++ " " +++ a +++ String c b) with (w +++ String " " (a +++ String c b)).
  replace (w +++ String " " (a +++ String c b)) with ((w +++ String " " a) +++ String c b)
    by (rewrite sapp_assoc; reflexivity).
  rewrite srev_app, srev_cons, sapp_assoc. cbn [String.append].
  rewrite lstrip_spaces by (now rewrite sall_srev).
  rewrite (lstrip_head c _ Hc).
  change (String c (srev (w +++ String " " a))) with (String c "" +++ srev (w +++ String " " a)).
  rewrite srev_app, srev_involutive. cbn [srev srev_acc]. rewrite !sapp_assoc. reflexivity.
Qed.

Lemma flat_map_sep : forall (A B : Type) (x : B) (f : A -> list B) l,
  x :: flat_map (fun e => f e ++ [x]) l = flat_map (fun e => x :: f e) l ++ [x].
Proof.
  intros A B x f; induction l as [|a l IH]; [reflexivity|].
  cbn [flat_map]. rewrite <- !app_assoc. cbn [app]. rewrite <- IH. reflexivity.
Qed.

(* ================================================================== *)
(* 2. str(int) and int(str)                                            *)
(* ================================================================== *)
Lemma digit_char_val : forall k, k < 10 -> Z.of_nat (nat_of_ascii (digit_char k) - 48) = Z.of_nat k.
Proof. intros k H. do 10 (destruct k as [|k]; [reflexivity|]). lia. Qed.

Lemma digits_val_app : forall x y a, digits_val (x +++ y) a = digits_val y (digits_val x a).
Proof. induction x as [|c x IH]; intros y a; [reflexivity|]. cbn [String.append digits_val]. apply IH. Qed.

Lemma log2_div10 : forall n, (n / 10 <> 0)%N -> (N.log2 (n / 10) < N.log2 n)%N.
Proof.
  intros n H.
  assert (Hn : (10 <= n)%N).
  { destruct (N.lt_ge_cases n 10) as [L|G]; [|exact G]. rewrite N.div_small in H by exact L. congruence. }
  assert (H2 : (n / 10 <= n / 2)%N) by (apply N.div_le_compat_l; lia).
  apply N.le_lt_trans with (N.log2 (n / 2)); [apply N.log2_le_mono, H2|].
  change 2%N with (2 ^ 1)%N. rewrite <- N.shiftr_div_pow2, N.log2_shiftr.
  assert (1 <= N.log2 n)%N; [|lia].
  change 1%N with (N.log2 2). apply N.log2_le_mono. lia.
Qed.

Lemma pdf_val : forall f n acc, N.to_nat (N.log2 n) < f ->
  exists X, pos_digits_fuel f n acc = X +++ acc /\
            forall a, digits_val X a = (a * 10 ^ Z.of_nat (String.length X) + Z.of_N n)%Z.
Proof.
  induction f as [|f IH]; intros n acc Hf; [lia|]. cbn [pos_digits_fuel].
  assert (Hr : N.to_nat (n mod 10) < 10) by (pose proof (N.mod_lt n 10); lia).
  assert (Hn : n = (10 * (n / 10) + n mod 10)%N) by (apply N.div_mod; discriminate).
  destruct (N.eqb_spec (n / 10) 0) as [E|E].
  - exists (String (digit_char (N.to_nat (n mod 10))) ""). split; [reflexivity|]. intros a.
    cbn [digits_val String.length]. rewrite (digit_char_val _ Hr).
    rewrite E in Hn. change (Z.of_nat 1) with 1%Z. rewrite Z.pow_1_r. lia.
  - destruct (IH (n / 10)%N (String (digit_char (N.to_nat (n mod 10))) acc)) as [X [EX HX]].
    { pose proof (log2_div10 n E). lia. }
    exists (X +++ String (digit_char (N.to_nat (n mod 10))) ""). split.
    + rewrite EX, sapp_assoc. reflexivity.
    + intros a. rewrite digits_val_app, HX. cbn [digits_val]. rewrite (digit_char_val _ Hr).
      assert (EL : String.length (X +++ String (digit_char (N.to_nat (n mod 10))) "") = S (String.length X)).
      { clear. induction X as [|c X IHX]; [reflexivity|]. cbn [String.append String.length]. now rewrite IHX. }
      rewrite EL, Nat2Z.inj_succ, Z.pow_succ_r by lia. lia.
Qed.

Lemma nat_str_val : forall n, digits_val (nat_str n) 0 = Z.of_nat n.
Proof.
  intros n. unfold nat_str, N_to_string.
  destruct (pdf_val (S (N.to_nat (N.log2 (N.of_nat n)))) (N.of_nat n) "") as [X [EX HX]]; [lia|].
  rewrite EX, sapp_nil_r, HX. lia.
Qed.

Lemma nat_str_digits : forall n, sall is_digit (nat_str n) = true.
Proof. intros n. unfold nat_str, N_to_string. apply pdf_chars; [exact digit_char_fchar | reflexivity]. Qed.
Lemma nat_str_ne : forall n, nat_str n <> "".
Proof. intros n. apply N_to_string_ne. Qed.

Lemma digit_facts : forall c, is_digit c = true ->
  is_space c = false /\ nobd c = true /\ is_alpha c = false /\ Ascii.eqb c "#" = false /\ Ascii.eqb c "$" = false /\
  Ascii.eqb c "*" = false.
Proof. intros c H. all_chars c; try (repeat split; reflexivity); discriminate H. Qed.

Lemma nat_str_tok : forall n, tok_ok (nat_str n).
Proof.
  intros n. split; [apply nat_str_ne|].
  apply (sall_sany_false is_digit); [intros c H; apply (digit_facts c H) | apply nat_str_digits].
Qed.

Lemma mapM_ext_in : forall (A B : Type) (f g : A -> res B) l, (forall x, In x l -> f x = g x) -> mapM f l = mapM g l.
Proof.
  intros A B f g; induction l as [|a l IH]; intros H; [reflexivity|]. cbn [mapM].
  rewrite (H a (or_introl eq_refl)), IH; [reflexivity|]. intros x Hx. apply H. now right.
Qed.

Lemma mapM_map : forall (A B C : Type) (f : B -> res C) (g : A -> B) l, mapM f (map g l) = mapM (fun x => f (g x)) l.
Proof. intros A B C f g l. apply mapM_map_ext. reflexivity. Qed.

(* ================================================================== *)
(* 3. finite facts about the tables of lut.py                          *)
(* ================================================================== *)
(* element symbols as the writer prints them (lower case), 1..120 *)
Definition symlo (z : Z) : string := match element_sym_from_Z z false with inr s => s | inl _ => "" end.
Definition symlo_good (z : Z) : bool :=
  match element_sym_from_Z z false with
  | inr s => negb (is_empty s) && sall is_alpha s && Nat.leb (String.length s) 3 && res_eqb Z.eqb (element_Z_from_sym s) z
  | inl _ => false
  end.
Lemma symlo_sweep : forallb symlo_good (zrange 1 120) = true.
Proof. vm_compute. reflexivity. Qed.

Lemma symlo_facts : forall z, (1 <= z <= 120)%Z ->
  element_sym_from_Z z false = inr (symlo z) /\ symlo z <> "" /\ sall is_alpha (symlo z) = true /\
  String.length (symlo z) <= 3 /\ element_Z_from_sym (symlo z) = inr z.
Proof.
  intros z Hz. assert (Hin : In z (zrange 1 120)) by (apply zrange_In; lia).
  pose proof (proj1 (forallb_forall _ _) symlo_sweep z Hin) as H. unfold symlo_good, symlo in *.
  destruct (element_sym_from_Z z false) as [e|s]; [discriminate H|].
  rewrite !andb_true_iff in H. destruct H as [[[H1 H2] H3] H4].
  split; [reflexivity|]. split; [intros ->; discriminate H1|]. split; [exact H2|].
  split; [now apply Nat.leb_le | now apply res_eqb_Z].
Qed.

Lemma alpha_facts2 : forall c, is_alpha c = true ->
  lower_char (upper_char c) = lower_char c /\ Ascii.eqb c " " = false /\ is_digit c = false /\
  Ascii.eqb c "$" = false /\ Ascii.eqb c "*" = false.
Proof. intros c H. all_chars c; try (repeat split; reflexivity); discriminate H. Qed.

(* one angular momentum: its letter (lower case, no upper() as in NWChem) and the way back *)
Lemma am1_facts : forall l, (0 <= l < 25)%Z ->
  exists c, amint_to_char [l] false false = inr (String c "") /\ is_alpha c = true /\
            amchar_to_int (String c "") false = inr [l].
Proof.
  intros l Hl. destruct (am_letter l Hl) as [c [Ec [Hc [i [Ei Hi]]]]]. exists c.
  assert (En : (l <? 0)%Z = false) by lia.
  split; [|split; [exact Hc|]].
  - unfold amint_to_char. cbn [andb amchar_map amint_chars]. rewrite En, Ec. reflexivity.
  - destruct (alpha_facts2 c Hc) as [El _]. rewrite El in Ei.
    unfold amchar_to_int, lower. cbn [smap amchar_map amchar_ints]. rewrite Ei. unfold bind, ok. now rewrite Hi.
Qed.

(* ================================================================== *)
(* 4. the lines the writer prints                                      *)
(* ================================================================== *)
Lemma tm_nw_shell : forall s, tm_shell_ok s -> nw_shell_ok s.
Proof.
  intros s [Hex [[l [Ea Hl]] [[c [Ec Hc]] [He Hco]]]]. unfold nw_shell_ok. rewrite Ea, Ec.
  repeat split; try assumption; try discriminate.
  - constructor; [exact Hl | constructor].
  - constructor; [exact Hc | constructor].
  - now rewrite <- Ec.
Qed.

Definition crows (s : sshell) : list string := map d_convert (rows_of s).
Definition hdr_p (s : sshell) : string := nat_str (List.length (exps s)) +++ "   " +++ amch_of (am s).
Definition hdr_line (s : sshell) : string := "    " +++ hdr_p s.
Definition tsh_lines (s : sshell) : list string := hdr_line s :: crows s.
Definition el_line (bsname : string) (z : Z) : string := symlo z +++ " " +++ bsname.
Definition tel_body (shs : list sshell) : list string := flat_map tsh_lines shs.
Definition tel_lines (bsname : string) (zs : Z * list sshell) : list string :=
  el_line bsname (fst zs) :: "*" :: tel_body (snd zs) ++ ["*"].
Definition tall_lines (role bsname : string) (els : list (Z * list sshell)) : list string :=
  tm_section_keyword role :: "*" :: flat_map (tel_lines bsname) els ++ ["$end"].

Definition tel_ok (zs : Z * list sshell) : Prop :=
  (1 <= fst zs <= 120)%Z /\ snd zs <> [] /\ Forall tm_shell_ok (snd zs).

(* ---- the matrix rows of a shell, with convert_exp=True ---- *)
Lemma dconv_lines : forall rows, d_convert (unlines rows) = unlines (map d_convert rows).
Proof. intros rows. unfold d_convert, unlines. now rewrite smap_lines by reflexivity. Qed.

Lemma dconv_good : forall r, good_line r -> good_line (d_convert r).
Proof.
  intros r H. unfold good_line, d_convert in *. fold dconv_c. rewrite sall_smap.
  apply (sall_impl nobd); [exact nobd_dconv | exact H].
Qed.

Lemma crows_facts : forall s, tm_shell_ok s ->
  write_matrix (mat_of s) (pps_of s) true = inr (unlines (crows s)) /\
  Forall good_line (crows s) /\
  List.length (crows s) = List.length (exps s) /\
  parse_primitive_matrix (crows s) = inr (map (norm true) (exps s), map (map (norm true)) (coefs s)).
Proof.
  intros s Hs. pose proof (tm_nw_shell s Hs) as Hn.
  destruct (rows_facts s Hn) as [Hw [Hg [_ [Hlen _]]]].
  assert (Hw' : write_matrix (mat_of s) (pps_of s) true = inr (unlines (crows s))).
  { unfold crows. rewrite <- dconv_lines. unfold rows_of in *. unfold write_matrix, transpose_cells in *.
    destruct (mapM (fun row => write_row row (pps_of s) true "") (transpose (mat_of s))) as [e|rows0]; [discriminate Hw|].
    reflexivity. }
  assert (Hg' : Forall good_line (crows s)).
  { unfold crows. rewrite Forall_forall in *. intros r Hr. apply in_map_iff in Hr. destruct Hr as [r0 [<- Hr0]].
    apply dconv_good, Hg, Hr0. }
  split; [exact Hw'|]. split; [exact Hg'|]. split; [unfold crows; now rewrite map_length|].
  destruct Hn as [Hex [_ [_ [Hcne [HcF [_ [He Hc]]]]]]]. unfold floating in *.
  rewrite <- (splitlines_unlines (crows s) Hg').
  apply (matrix_roundtrip (exps s) (coefs s) (pps_of s) true (unlines (crows s)) (List.length (exps s)));
    try assumption; try reflexivity.
  - destruct (exps s); [congruence | discriminate].
  - unfold pps_of. rewrite pps_length. lia.
Qed.

(* the explicit form of a row with two cells *)
Lemma sp_succ : forall n, sp (S n) = String " " (sp n).
Proof. reflexivity. Qed.

Lemma row2_form : forall e c p1 p2 ps line, write_row [CStr e; CStr c] (p1 :: p2 :: ps) true "" = inr line ->
  exists g1 g2, line = sp g1 +++ e +++ sp (S g2) +++ c.
Proof.
  intros e c p1 p2 ps line H. cbn [write_row] in H. unfold bind in H.
  destruct (find_point (CStr e)) as [x|fe]; [discriminate|].
  destruct (find_point (CStr c)) as [x|fc]; [discriminate|]. cbn [cell_str] in H. unfold ok in H.
  inversion H as [E]; clear H E.
  match goal with |- context [sp (Nat.max ?g 1)] => destruct (Nat.max g 1) as [|g2] eqn:Eg; [lia|] end.
  eexists _, g2. cbn [String.append]. rewrite sapp_assoc. reflexivity.
Qed.

Definition row_shape (row : string) : Prop :=
  exists e c g1 g2, row = sp g1 +++ e +++ sp (S g2) +++ c /\ is_floating e = true /\ is_floating c = true.

Lemma rows_shape : forall s, tm_shell_ok s -> Forall row_shape (rows_of s).
Proof.
  intros s Hs. pose proof (tm_nw_shell s Hs) as Hn. destruct Hs as [_ [_ [[c [Ec Hc]] _]]].
  destruct Hn as [Hex [_ [_ [Hcne [HcF [_ [He Hco]]]]]]]. unfold floating in *.
  unfold rows_of.
  destruct (mapM (fun row => write_row row (pps_of s) true "") (transpose (mat_of s))) as [e|rows0] eqn:Em; [constructor|].
  pose proof (mapM_Forall2 _ _ _ _ _ Em) as F2.
  unfold mat_of in F2. change (map CStr (exps s) :: map (map CStr) (coefs s)) with (map (map CStr) (exps s :: coefs s)) in F2.
  rewrite transpose_map in F2. apply Forall2_map_l in F2.
  assert (HT : Forall (Forall (fun x => is_floating x = true)) (transpose (exps s :: coefs s))).
  { apply transpose_Forall. constructor; assumption. }
  assert (HL : Forall (fun r => List.length r = List.length (exps s :: coefs s)) (transpose (exps s :: coefs s)))
    by apply transpose_rowlen.
  pose proof (Forall_and _ _ _ _ HT HL) as HTL.
  refine (Forall2_Forall_r _ _ _ _ _ _ _ _ HTL F2). intros srow line [Hf Hl] Hw. cbv beta in Hw.
  rewrite Ec in Hl. cbn [List.length] in Hl.
  destruct srow as [|e1 [|c1 [|x srow]]]; try discriminate Hl.
  inversion Hf as [|? ? Hfe Hf']; subst. inversion Hf' as [|? ? Hfc _]; subst.
  unfold pps_of in Hw. rewrite Ec in Hw. cbn [List.length nw_point_places zrange map] in Hw.
  destruct (row2_form _ _ _ _ _ _ Hw) as [g1 [g2 E]]. exists e1, c1, g1, g2. repeat split; assumption.
Qed.

(* d_convert on the pieces of a row *)
Lemma dconv_floating : forall s, is_floating (d_convert s) = is_floating s.
Proof. intros s. unfold d_convert. fold dconv_c. apply is_floating_smap; intros c; all_chars c; reflexivity. Qed.

Lemma smap_sp : forall f n, f " "%char = " "%char -> smap f (sp n) = sp n.
Proof. intros f n H; induction n as [|n IH]; [reflexivity|]. rewrite sp_succ. cbn [smap]. now rewrite H, IH. Qed.

Lemma dconv_app : forall a b, d_convert (a +++ b) = d_convert a +++ d_convert b.
Proof. intros a b. unfold d_convert. apply smap_app. Qed.
Lemma dconv_sp : forall n, d_convert (sp n) = sp n.
Proof. intros n. unfold d_convert. apply smap_sp. reflexivity. Qed.

Lemma floating_tok : forall s, is_floating s = true -> tok_ok s.
Proof. intros s H. exact (cell_ok_tok (CStr s) (floating_is_cell s H)). Qed.

Lemma strip_sp : forall n x, strip_ws (sp n +++ x) = strip_ws x.
Proof. induction n as [|n IH]; intros x; [reflexivity|]. rewrite sp_succ. cbn [String.append]. rewrite strip_blank_head. apply IH. Qed.

(* a printed row after d_convert and strip() *)
Lemma crow_strip : forall e c g1 g2, is_floating e = true -> is_floating c = true ->
  strip_ws (d_convert (sp g1 +++ e +++ sp (S g2) +++ c)) = d_convert e +++ sp (S g2) +++ d_convert c.
Proof.
  intros e c g1 g2 He Hc. rewrite !dconv_app, !dconv_sp, strip_sp.
  apply strip_words; apply floating_tok; now rewrite dconv_floating.
Qed.

Lemma tokens_two : forall a n b, tok_ok a -> tok_ok b -> tokens_acc (a +++ sp (S n) +++ b) "" = [a; b].
Proof.
  intros a n b Ha Hb. rewrite (tokens_snoc n b Hb a "").
  pose proof (tokens_sp_word 0 a Ha) as H. cbn [sp String.append] in H. now rewrite H.
Qed.

(* ---- section keyword ---- *)
Lemma kw_cases : forall role, let k := tm_section_keyword role in k = "$basis" \/ k = "$jbas" \/ k = "$jkbas" \/ k = "$cbas".
Proof.
  intros role. unfold tm_section_keyword.
  destruct (String.eqb role "jfit"); [tauto|]. destruct (String.eqb role "jkfit"); [tauto|].
  destruct (String.eqb role "rifit"); tauto.
Qed.

Ltac kw_split role := let K := fresh "K" in
  pose proof (kw_cases role) as K; cbv zeta in K; destruct K as [K|[K|[K|K]]]; rewrite K.

(* ---- shell, element, file ---- *)
Lemma am1_of : forall s, tm_shell_ok s ->
  exists l c, am s = [l] /\ (0 <= l < 25)%Z /\ amch_of (am s) = String c "" /\ is_alpha c = true /\
              amint_to_char (am s) false false = inr (String c "") /\ amchar_to_int (String c "") false = inr [l].
Proof.
  intros s [_ [[l [Ea Hl]] _]]. destruct (am1_facts l Hl) as [c [E1 [Hc E2]]].
  exists l, c. rewrite Ea. unfold amch_of. rewrite E1. repeat split; try assumption; try reflexivity; lia.
Qed.

Lemma tm_write_shell_lines : forall s, tm_shell_ok s -> tm_write_shell s = inr (unlines (tsh_lines s)).
Proof.
  intros s Hs. destruct (crows_facts s Hs) as [Hw _]. destruct (am1_of s Hs) as [l [c [_ [_ [Ech [_ [E _]]]]]]].
  unfold tm_write_shell. rewrite E. unfold bind. fold (mat_of s). fold (pps_of s). rewrite Hw.
  unfold tsh_lines, hdr_line, hdr_p, ok. rewrite Ech, unlines_cons, !sapp_assoc. reflexivity.
Qed.

Lemma tm_write_element_lines : forall bsname zs, tel_ok zs ->
  tm_write_element bsname zs = inr (unlines (tel_lines bsname zs)).
Proof.
  intros bsname [z shs] [Hz [_ Hshs]]. cbn [fst snd] in *. destruct (symlo_facts z Hz) as [Es _].
  unfold tm_write_element. rewrite Es. unfold bind.
  rewrite (mapM_map_ok _ _ tm_write_shell (fun s => unlines (tsh_lines s))).
  - unfold tel_lines, tel_body, el_line, ok. cbn [fst snd].
    rewrite !unlines_cons, unlines_app, unlines_flat_map, !sapp_assoc. reflexivity.
  - intros s Hin. apply tm_write_shell_lines. rewrite Forall_forall in Hshs. apply Hshs, Hin.
Qed.

Lemma tm_ok_els : forall role bsname els, tm_ok role bsname els -> Forall tel_ok els.
Proof. intros role bsname els [_ [_ [_ H]]]. exact H. Qed.

Lemma tm_write_electron_lines : forall role bsname els, Forall tel_ok els ->
  tm_write_electron role bsname els = inr (unlines (tall_lines role bsname els)).
Proof.
  intros role bsname els Hel. unfold tm_write_electron.
  rewrite (mapM_map_ok _ _ (tm_write_element bsname) (fun zs => unlines (tel_lines bsname zs))).
  - unfold bind, ok, tall_lines. rewrite !unlines_cons, unlines_app, unlines_flat_map, ?sapp_assoc. reflexivity.
  - intros zs Hin. apply tm_write_element_lines. rewrite Forall_forall in Hel. apply Hel, Hin.
Qed.

Lemma name_char_nobd : forall c, tm_name_char c = true -> nobd c = true.
Proof. intros c H. all_chars c; try reflexivity; discriminate H. Qed.

Lemma el_line_good : forall bsname z, tm_name_ok bsname -> (1 <= z <= 120)%Z -> good_line (el_line bsname z).
Proof.
  intros bsname z [Hn _] Hz. destruct (symlo_facts z Hz) as [_ [_ [Ha _]]].
  unfold el_line, good_line. rewrite !sall_app, (sall_impl is_alpha nobd _ alpha_nobd Ha), (sall_impl _ nobd _ name_char_nobd Hn).
  reflexivity.
Qed.

Lemma hdr_line_good : forall s, tm_shell_ok s -> good_line (hdr_line s).
Proof.
  intros s Hs. destruct (am1_of s Hs) as [l [c [_ [_ [Ech [Hc _]]]]]].
  unfold hdr_line, hdr_p, good_line. rewrite Ech, !sall_app, nat_str_nobd. cbn [sall]. rewrite (alpha_nobd c Hc). reflexivity.
Qed.

Lemma tall_lines_good : forall role bsname els, tm_ok role bsname els -> Forall good_line (tall_lines role bsname els).
Proof.
  intros role bsname els H. pose proof (tm_ok_els _ _ _ H) as Hel. destruct H as [Hname _].
  unfold tall_lines. constructor; [kw_split role; reflexivity|]. constructor; [reflexivity|].
  apply Forall_app. split; [|repeat constructor].
  rewrite Forall_forall in *. intros l Hin. apply in_flat_map in Hin. destruct Hin as [[z shs] [Hzs Hl]].
  destruct (Hel _ Hzs) as [Hz [_ Hshs]]. cbn [fst snd] in *. unfold tel_lines in Hl. cbn [fst snd] in Hl.
  destruct Hl as [<-|[<-|Hl]]; [apply el_line_good; assumption | reflexivity |].
  apply in_app_or in Hl. destruct Hl as [Hl|[<-|[]]]; [|reflexivity].
  unfold tel_body in Hl. apply in_flat_map in Hl. destruct Hl as [s [Hs Hl]]. rewrite Forall_forall in Hshs.
  specialize (Hshs s Hs). destruct Hl as [<-|Hl]; [apply hdr_line_good, Hshs|].
  destruct (crows_facts s Hshs) as [_ [Hg _]]. rewrite Forall_forall in Hg. apply Hg, Hl.
Qed.

(* ---------- tm_write_total ---------- *)
Lemma tm_write_total : tm_write_total_stmt.
Proof. intros role bsname els H. eexists. apply tm_write_electron_lines, (tm_ok_els _ _ _ H). Qed.

Lemma tm_written_lines : forall role bsname els t, tm_ok role bsname els -> tm_write_electron role bsname els = inr t ->
  splitlines t = tall_lines role bsname els.
Proof.
  intros role bsname els t H E. rewrite (tm_write_electron_lines role bsname els (tm_ok_els _ _ _ H)) in E.
  inversion E; subst. apply splitlines_unlines, tall_lines_good, H.
Qed.

(* ---------- tm_no_number_lost ---------- *)
Lemma tokens_dconv : forall row, tokens_acc (d_convert row) "" = map d_convert (tokens_acc row "").
Proof. intros row. unfold d_convert. fold dconv_c. exact (tokens_smap dconv_c dconv_c_space row ""). Qed.

Lemma tm_no_number_lost : tm_no_number_lost_stmt.
Proof.
  intros role bsname els t H E x [zs [s [Hzs [Hs Hx]]]].
  rewrite (tm_written_lines role bsname els t H E).
  pose proof (tm_ok_els _ _ _ H) as Hel. rewrite Forall_forall in Hel. destruct (Hel zs Hzs) as [_ [_ Hshs]].
  rewrite Forall_forall in Hshs. pose proof (tm_nw_shell s (Hshs s Hs)) as Hok.
  destruct (rows_facts s Hok) as [_ [_ [F2 _]]].
  destruct Hok as [_ [_ [_ [_ [HcF _]]]]].
  assert (HF : Forall (fun r => List.length r = List.length (exps s)) (exps s :: coefs s)) by (constructor; [reflexivity | exact HcF]).
  assert (Hcol : exists c, In c (exps s :: coefs s) /\ In x c).
  { destruct Hx as [Hx|[c [Hc Hx]]]; [exists (exps s); split; [now left | exact Hx] | exists c; split; [now right | exact Hx]]. }
  destruct Hcol as [c [Hc Hxc]].
  destruct (transpose_has _ _ c x HF Hc Hxc) as [row [Hrow Hxr]].
  destruct (Forall2_In_l _ _ _ _ _ row F2 Hrow) as [line [Hline Htok]].
  exists (d_convert line). split; [|rewrite tokens_dconv, Htok; apply in_map, Hxr].
  unfold tall_lines. right. right. apply in_or_app. left. apply in_flat_map. exists zs. split; [exact Hzs|].
  unfold tel_lines. right. right. apply in_or_app. left. unfold tel_body. apply in_flat_map. exists s. split; [exact Hs|].
  right. unfold crows. apply in_map, Hline.
Qed.

(* ================================================================== *)
(* 5. the lines after strip(): what each regex says about them         *)
(* ================================================================== *)
Definition el_p (bsname : string) (z : Z) : string := strip_ws (el_line bsname z).
Definition prow (row : string) : string := strip_ws (d_convert row).
Definition bshell (s : sshell) : list string := hdr_p s :: map prow (rows_of s).
Definition pbody (shs : list sshell) : list string := flat_map bshell shs.

(* a line that both prune_lines calls keep as it is *)
Definition starts_ok (l : string) : Prop :=
  exists c r, l = String c r /\ Ascii.eqb c "#" = false /\ Ascii.eqb c "$" = false.
Definition body_ok (l : string) : Prop := strip_ws l = l /\ starts_ok l.

Definition el_cond (x : string) : res bool := ok (is_element_line x).
Definition sh_cond (x : string) : res bool := ok (is_shell_line x).

Lemma floating_first3 : forall c t, is_floating (String c t) = true ->
  is_alpha c = false /\ Ascii.eqb c "#" = false /\ Ascii.eqb c "$" = false /\ Ascii.eqb c "*" = false.
Proof. intros c t H. all_chars c; try (repeat split; reflexivity); exfalso; cbn in H; discriminate H. Qed.

Lemma not_alpha_not_element : forall c r, is_alpha c = false -> is_element_line (String c r) = false.
Proof. intros c r H. unfold is_element_line, match_element_line. cbn [span_alpha]. rewrite H. reflexivity. Qed.

Lemma not_star : forall c r, Ascii.eqb c "*" = false -> str_prefix "*" (String c r) = false.
Proof. intros c r H. cbn [str_prefix]. rewrite Ascii.eqb_sym, H. reflexivity. Qed.

(* ---- the element line ---- *)
Lemma symlo_tok : forall z, (1 <= z <= 120)%Z -> tok_ok (symlo z).
Proof. intros z Hz. destruct (symlo_facts z Hz) as [_ [Hne [Ha _]]]. now apply alpha_word_tok. Qed.

Lemma el_p_form : forall bsname z, tm_name_ok bsname -> (1 <= z <= 120)%Z ->
  exists r, el_p bsname z = symlo z +++ String " " r.
Proof. intros bsname z [_ Hn] Hz. unfold el_p, el_line. apply strip_word_rest; [apply symlo_tok, Hz | exact Hn]. Qed.

Lemma el_p_facts : forall bsname z, tm_name_ok bsname -> (1 <= z <= 120)%Z ->
  body_ok (el_p bsname z) /\ is_element_line (el_p bsname z) = true /\ parse_element_line (el_p bsname z) = inr (symlo z).
Proof.
  intros bsname z Hn Hz. destruct (el_p_form bsname z Hn Hz) as [r Er].
  destruct (symlo_facts z Hz) as [_ [Hne [Ha [Hlen _]]]].
  assert (Hm : match_element_line (el_p bsname z) = Some (symlo z)).
  { rewrite Er. unfold match_element_line. rewrite (span_alpha_word_sp _ _ Ha).
    destruct (symlo z) as [|c0 a']; [congruence|]. apply Nat.leb_le in Hlen. rewrite Hlen. reflexivity. }
  split; [|split].
  - split; [unfold el_p; apply strip_idem|]. rewrite Er. destruct (symlo z) as [|c0 a']; [congruence|].
    cbn [sall] in Ha. apply andb_true_iff in Ha. destruct Ha as [Hc _]. destruct (alpha_facts2 c0 Hc) as [_ [_ [_ [H1 _]]]].
    exists c0. eexists. split; [reflexivity|]. split; [apply alpha_not_hash, Hc | exact H1].
  - unfold is_element_line. now rewrite Hm.
  - unfold parse_element_line. now rewrite Hm.
Qed.

(* ---- the shell header ---- *)
Lemma span_digits_word_sp : forall a r, sall is_digit a = true -> span_digits (a +++ String " " r) = (a, String " " r).
Proof.
  induction a as [|c a IH]; intros r H; [reflexivity|].
  cbn [sall] in H. apply andb_true_iff in H. destruct H as [Hc Ha].
  cbn [String.append span_digits]. rewrite Hc, (IH r Ha). reflexivity.
Qed.

Lemma hdr_p_facts : forall s, tm_shell_ok s ->
  strip_ws (hdr_line s) = hdr_p s /\ body_ok (hdr_p s) /\ is_element_line (hdr_p s) = false /\
  is_shell_line (hdr_p s) = true /\ str_prefix "*" (hdr_p s) = false /\
  exists l c, am s = [l] /\ amchar_to_int (String c "") false = inr [l] /\
              parse_shell_line (hdr_p s) = inr (Z.of_nat (List.length (exps s)), String c "").
Proof.
  intros s Hs. destruct (am1_of s Hs) as [l [c [Ea [_ [Ech [Hc [_ Eback]]]]]]].
  destruct (alpha_facts2 c Hc) as [_ [Hb _]].
  set (n := List.length (exps s)).
  assert (Hfix : strip_ws (hdr_p s) = hdr_p s).
  { unfold hdr_p. rewrite Ech. apply strip_words; [apply nat_str_tok|].
    split; [discriminate|]. cbn [sany]. now rewrite (alpha_not_space c Hc). }
  assert (Hhead : exists c0 r0, nat_str n = String c0 r0 /\ is_digit c0 = true).
  { pose proof (nat_str_digits n) as Hd. pose proof (nat_str_ne n) as Hne. destruct (nat_str n) as [|c0 r0]; [congruence|].
    cbn [sall] in Hd. apply andb_true_iff in Hd. destruct Hd as [Hd _]. eauto. }
  destruct Hhead as [c0 [r0 [En Hd]]]. destruct (digit_facts c0 Hd) as [_ [_ [Hna [Hh [Hdl Hst]]]]].
  assert (Hm : match_shell_line (hdr_p s) = Some (nat_str n, c)).
  { unfold hdr_p. rewrite Ech. fold n. unfold match_shell_line.
    change (nat_str n +++ "   " +++ String c "") with (nat_str n +++ String " " ("  " +++ String c "")).
    rewrite (span_digits_word_sp _ _ (nat_str_digits n)). rewrite En.
    cbn [Ascii.eqb Bool.eqb String.append lstrip_blanks]. rewrite Hb, Hc. reflexivity. }
  assert (Hform : hdr_p s = String c0 (r0 +++ "   " +++ amch_of (am s))).
  { unfold hdr_p. fold n. rewrite En. reflexivity. }
  split; [|split; [|split; [|split; [|split]]]].
  - unfold hdr_line. change ("    " +++ hdr_p s) with (String " " (String " " (String " " (String " " (hdr_p s))))).
    now rewrite !strip_blank_head.
  - split; [exact Hfix|]. rewrite Hform. exists c0. eexists. repeat split; assumption.
  - rewrite Hform. apply not_alpha_not_element, Hna.
  - unfold is_shell_line. now rewrite Hm.
  - rewrite Hform. apply not_star, Hst.
  - exists l, c. split; [exact Ea|]. split; [exact Eback|]. unfold parse_shell_line. rewrite Hm.
    unfold n. now rewrite nat_str_val.
Qed.

(* ---- the number rows ---- *)
Lemma span_digits_skip : forall e rest c t, skip_digits e = String c t ->
  exists d, span_digits (e +++ rest) = (d, String c (t +++ rest)).
Proof.
  induction e as [|a e IH]; intros rest c t H; [discriminate|].
  cbn [skip_digits] in H. cbn [String.append span_digits]. destruct (is_digit a) eqn:Ea.
  - destruct (IH rest c t H) as [d Ed]. rewrite Ed. eauto.
  - inversion H; subst. eauto.
Qed.

Lemma digit_not_sign : forall c, is_digit c = true -> orb (Ascii.eqb c "-") (Ascii.eqb c "+") = false.
Proof. intros c H. all_chars c; try reflexivity; discriminate H. Qed.

Lemma floating_not_shell : forall e rest, is_floating e = true -> is_shell_line (e +++ rest) = false.
Proof.
  intros e rest H. unfold is_shell_line, match_shell_line.
  destruct e as [|c0 e']; [discriminate H|]. destruct (is_digit c0) eqn:Ed.
  - rewrite is_floating_unfold in H. cbn [skip_sign] in H. rewrite (digit_not_sign c0 Ed) in H.
    destruct (skip_digits (String c0 e')) as [|c t] eqn:Es; [discriminate H|].
    destruct (Ascii.eqb_spec c ".") as [->|Hne]; [|discriminate H].
    destruct (span_digits_skip _ rest _ _ Es) as [d Ed']. rewrite Ed'. destruct d; reflexivity.
  - cbn [String.append span_digits]. rewrite Ed. reflexivity.
Qed.

Lemma pline_tokens : forall l1 l2, tokens_acc l1 "" = tokens_acc l2 "" -> pline l1 = pline l2.
Proof.
  intros l1 l2 H. unfold pline, split_ws.
  pose proof (tokens_read false l1) as H1. pose proof (tokens_read false l2) as H2. cbn [conv_text] in H1, H2.
  now rewrite H1, H2, H.
Qed.

Lemma prow_facts : forall row, row_shape row ->
  body_ok (prow row) /\ is_element_line (prow row) = false /\ is_shell_line (prow row) = false /\
  str_prefix "*" (prow row) = false /\
  exists e c, match_exp_coef (prow row) = Some (e, c) /\ pline (e +++ " " +++ c) = pline (d_convert row).
Proof.
  intros row [e [c [g1 [g2 [-> [He Hc]]]]]].
  assert (Hte : tok_ok (d_convert e)) by (apply floating_tok; now rewrite dconv_floating).
  assert (Htc : tok_ok (d_convert c)) by (apply floating_tok; now rewrite dconv_floating).
  assert (Ep : prow (sp g1 +++ e +++ sp (S g2) +++ c) = d_convert e +++ sp (S g2) +++ d_convert c)
    by (apply crow_strip; assumption).
  assert (Hfe : is_floating (d_convert e) = true) by now rewrite dconv_floating.
  assert (Hfc : is_floating (d_convert c) = true) by now rewrite dconv_floating.
  destruct (d_convert e) as [|c0 e'] eqn:Ede; [discriminate Hfe|].
  destruct (floating_first3 c0 e' Hfe) as [Hna [Hh [Hdl Hst]]].
  split; [|split; [|split; [|split]]].
  - split; [unfold prow; apply strip_idem|]. rewrite Ep. exists c0. eexists. repeat split; assumption.
  - rewrite Ep. apply not_alpha_not_element, Hna.
  - rewrite Ep. apply floating_not_shell, Hfe.
  - rewrite Ep. apply not_star, Hst.
  - exists (String c0 e'), (d_convert c). split.
    + unfold match_exp_coef. rewrite Ep, (tokens_two _ g2 _ Hte Htc), Hfe, Hfc. reflexivity.
    + apply pline_tokens. change " " with (sp 1). rewrite (tokens_two _ 0 _ Hte Htc).
      rewrite !dconv_app, !dconv_sp, tokens_sp, Ede. symmetry. apply (tokens_two _ g2 _ Hte Htc).
Qed.

(* ================================================================== *)
(* 6. one shell block                                                  *)
(* ================================================================== *)
Definition reformat (line : string) : res string :=
  match match_exp_coef line with Some (e, c) => ok (e +++ " " +++ c) | None => fail EValue end.
Definition reformat_of (row : string) : string := match reformat (prow row) with inr l => l | inl _ => "" end.

Lemma tm_ftype_ok : forall l, function_type_from_am [l] "gto" "spherical" = inr (tm_ftype [l]).
Proof. reflexivity. Qed.

Lemma ppm_same : forall l1 l2, mapM pline l1 = mapM pline l2 -> parse_primitive_matrix l1 = parse_primitive_matrix l2.
Proof. intros l1 l2 H. rewrite !parse_primitive_matrix_unfold, H. reflexivity. Qed.

Lemma parse_shell_block_ok : forall s, tm_shell_ok s -> tm_parse_shell_block (bshell s) = inr (tm_expected_shell s).
Proof.
  intros s Hs. destruct (hdr_p_facts s Hs) as [_ [_ [_ [_ [_ [l [c [Ea [Eback Eparse]]]]]]]]].
  destruct (crows_facts s Hs) as [_ [_ [_ Hp]]]. pose proof (rows_shape s Hs) as Hsh.
  destruct Hs as [Hex [_ [[c1 [Ec Hc1]] _]]].
  unfold tm_parse_shell_block, bshell. rewrite Eparse. unfold bind at 1. rewrite Eback. unfold bind at 1.
  rewrite tm_ftype_ok. unfold bind at 1. fold reformat.
  assert (Hre : mapM reformat (map prow (rows_of s)) = inr (map reformat_of (rows_of s))).
  { rewrite mapM_map. apply mapM_map_ok. intros row Hin. rewrite Forall_forall in Hsh.
    destruct (prow_facts row (Hsh row Hin)) as [_ [_ [_ [_ [e [c2 [Hm _]]]]]]].
    unfold reformat_of, reformat. rewrite Hm. reflexivity. }
  rewrite Hre. unfold bind at 1.
  assert (Hpp : parse_primitive_matrix (map reformat_of (rows_of s)) = parse_primitive_matrix (crows s)).
  { apply ppm_same. unfold crows. rewrite !mapM_map. apply mapM_ext_in. intros row Hin. rewrite Forall_forall in Hsh.
    destruct (prow_facts row (Hsh row Hin)) as [_ [_ [_ [_ [e [c2 [Hm Hpl]]]]]]].
    unfold reformat_of, reformat. rewrite Hm. exact Hpl. }
  unfold parse_primitive_matrix_np. rewrite Hpp, Hp. unfold bind. rewrite Ec. cbn [map].
  rewrite !map_length, Hc1, Z.eqb_refl. cbn [negb List.length Nat.eqb].
  unfold tm_expected_shell. rewrite Ea, Ec. reflexivity.
Qed.

(* ================================================================== *)
(* 7. partition_lines: generic, and with before=1                      *)
(* ================================================================== *)
Lemma partition_blocks2 : forall cond bs, Forall (fun b => block_shape cond b /\ 2 <= List.length b) bs ->
  partition_lines (concat bs) cond true 2 0 0 = inr bs.
Proof.
  intros cond bs H. unfold partition_lines.
  rewrite (part_blocks cond bs [] []).
  - cbn [flush app]. unfold bind. rewrite existsb_false; [reflexivity|].
    intros b Hb. rewrite Forall_forall in H. destruct (H b Hb) as [_ Hl]. apply Nat.ltb_ge. exact Hl.
  - rewrite Forall_forall in *. intros b Hb. apply H, Hb.
Qed.

(* the blocks as part_go sees them when every block is preceded by the line x *)
Fixpoint shift (x : string) (bs : list (list string)) : list (list string) :=
  match bs with
  | [] => []
  | [b] => [b]
  | b :: t => (b ++ [x]) :: shift x t
  end.

Lemma flat_shift : forall x bs, bs <> [] -> flat_map (cons x) bs = x :: concat (shift x bs).
Proof.
  intros x; induction bs as [|b bs IH]; intros H; [congruence|]. destruct bs as [|b2 bs].
  - cbn [flat_map shift concat app]. reflexivity.
  - change (shift x (b :: b2 :: bs)) with ((b ++ [x]) :: shift x (b2 :: bs)).
    cbn [flat_map concat]. cbn [flat_map] in IH. rewrite IH by discriminate. rewrite <- app_assoc. reflexivity.
Qed.

Lemma shift_shape : forall cond x bs, cond x = inr false -> Forall (block_shape cond) bs -> Forall (block_shape cond) (shift x bs).
Proof.
  intros cond x; induction bs as [|b bs IH]; intros Hx H; [constructor|]. inversion H as [|? ? Hb Hbs]; subst.
  destruct bs as [|b2 bs]; [constructor; [exact Hb | constructor]|].
  change (shift x (b :: b2 :: bs)) with ((b ++ [x]) :: shift x (b2 :: bs)). constructor; [|apply IH; assumption].
  destruct Hb as [h [r [-> [Hh Hr]]]]. exists h, (r ++ [x]). split; [reflexivity|]. split; [exact Hh|].
  apply Forall_app. split; [exact Hr | constructor; [exact Hx | constructor]].
Qed.

Lemma shift_ne : forall x bs, bs <> [] -> shift x bs <> [].
Proof. intros x [|b [|b2 bs]] H; [congruence | discriminate | discriminate]. Qed.

Lemma steal_shift : forall x bs p, bs <> [] -> steal_before 1 (p ++ [x]) (shift x bs) = p :: map (cons x) bs.
Proof.
  intros x; induction bs as [|b bs IH]; intros p H; [congruence|].
  assert (Ek : List.length (p ++ [x]) - 1 = List.length p) by (rewrite app_length; cbn; lia).
  assert (Ef : firstn (List.length p) (p ++ [x]) = p) by (rewrite firstn_app, Nat.sub_diag, firstn_all; cbn; apply app_nil_r).
  assert (Es : skipn (List.length p) (p ++ [x]) = [x]) by (rewrite skipn_app, Nat.sub_diag, skipn_all; reflexivity).
  destruct bs as [|b2 bs].
  - cbn [shift steal_before map]. rewrite Ek, Ef, Es. reflexivity.
  - change (shift x (b :: b2 :: bs)) with ((b ++ [x]) :: shift x (b2 :: bs)).
    cbn [steal_before]. rewrite Ek, Ef, Es.
    change ([x] ++ b ++ [x]) with ((x :: b) ++ [x]). rewrite IH by discriminate. reflexivity.
Qed.

Lemma partition_before1 : forall cond x bs, cond x = inr false -> bs <> [] ->
  Forall (block_shape cond) bs -> Forall (fun b => 3 <= List.length b) bs ->
  partition_lines_before (flat_map (cons x) bs) cond 1 4 = inr (map (cons x) bs).
Proof.
  intros cond x bs Hx Hne Hsh Hlen. unfold partition_lines_before.
  rewrite (flat_shift x bs Hne). change (x :: concat (shift x bs)) with ([x] ++ concat (shift x bs)).
  rewrite (part_skip cond true [x] _ [] []) by (constructor; [exact Hx | constructor]).
  rewrite (part_blocks cond _ _ _ (shift_shape cond x bs Hx Hsh)). cbn [app flush]. unfold bind.
  pose proof (shift_ne x bs Hne) as Hs. pose proof (steal_shift x bs [] Hne) as Est. cbn [app] in Est.
  destruct (shift x bs) as [|s0 S]; [congruence|]. cbn [List.length Nat.eqb negb]. rewrite Est.
  rewrite existsb_false; [reflexivity|].
  intros b Hb. apply in_map_iff in Hb. destruct Hb as [b0 [<- Hb0]]. rewrite Forall_forall in Hlen.
  specialize (Hlen b0 Hb0). apply Nat.ltb_ge. cbn [List.length]. lia.
Qed.

(* ================================================================== *)
(* 8. one element block                                                *)
(* ================================================================== *)
Definition tblock (bsname : string) (zs : Z * list sshell) : list string :=
  el_p bsname (fst zs) :: "*" :: pbody (snd zs).

Lemma bshell_facts : forall s, tm_shell_ok s ->
  block_shape sh_cond (bshell s) /\ 2 <= List.length (bshell s) /\
  Forall (fun l => body_ok l /\ el_cond l = inr false /\ str_prefix "*" l = false) (bshell s).
Proof.
  intros s Hs. destruct (hdr_p_facts s Hs) as [_ [Hb [He [Hsl [Hst _]]]]].
  pose proof (rows_shape s Hs) as Hsh. destruct (rows_facts s (tm_nw_shell s Hs)) as [_ [_ [_ [Hlen _]]]].
  assert (Hex : List.length (exps s) <> 0) by (destruct Hs as [Hex _]; destruct (exps s); [congruence | discriminate]).
  unfold bshell. split; [|split].
  - exists (hdr_p s), (map prow (rows_of s)). split; [reflexivity|]. split; [unfold sh_cond; now rewrite Hsl|].
    rewrite Forall_forall in *. intros l Hin. apply in_map_iff in Hin. destruct Hin as [row [<- Hrow]].
    destruct (prow_facts row (Hsh row Hrow)) as [_ [_ [H3 _]]]. unfold sh_cond. now rewrite H3.
  - cbn [List.length]. rewrite map_length. lia.
  - constructor; [split; [exact Hb|]; split; [unfold el_cond; now rewrite He | exact Hst]|].
    rewrite Forall_forall in *. intros l Hin. apply in_map_iff in Hin. destruct Hin as [row [<- Hrow]].
    destruct (prow_facts row (Hsh row Hrow)) as [H1 [H2 [_ [H4 _]]]]. split; [exact H1|]. split; [unfold el_cond; now rewrite H2 | exact H4].
Qed.

Lemma pbody_facts : forall shs, Forall tm_shell_ok shs ->
  Forall (fun l => body_ok l /\ el_cond l = inr false /\ str_prefix "*" l = false) (pbody shs).
Proof.
  intros shs H. unfold pbody. rewrite Forall_forall in *. intros l Hin. apply in_flat_map in Hin.
  destruct Hin as [s [Hs Hl]]. destruct (bshell_facts s (H s Hs)) as [_ [_ Hf]]. rewrite Forall_forall in Hf. apply Hf, Hl.
Qed.

Lemma pbody_len : forall shs, shs <> [] -> Forall tm_shell_ok shs -> 2 <= List.length (pbody shs).
Proof.
  intros [|s shs] Hne H; [congruence|]. inversion H as [|? ? Hs _]; subst.
  destruct (bshell_facts s Hs) as [_ [Hl _]]. unfold pbody. cbn [flat_map]. rewrite app_length. lia.
Qed.

Lemma shell_blocks_rest : forall z shs d l, Forall tm_shell_ok shs -> ~ In z (map fst d) ->
  tm_parse_shell_blocks z (map bshell shs) (d ++ [(z, l)]) = inr (d ++ [(z, l ++ map tm_expected_shell shs)]).
Proof.
  intros z; induction shs as [|s shs IH]; intros d l Hs Hd.
  - cbn [map tm_parse_shell_blocks]. now rewrite app_nil_r.
  - inversion Hs as [|? ? H1 H2]; subst. cbn [map tm_parse_shell_blocks].
    rewrite (parse_shell_block_ok s H1). unfold bind. rewrite (append_shell_last z _ l d Hd).
    rewrite (IH d _ H2 Hd), <- app_assoc. reflexivity.
Qed.

Lemma not_in_existsb : forall z l, ~ In z l -> existsb (Z.eqb z) l = false.
Proof.
  intros z l H. apply existsb_false. intros x Hx. apply Z.eqb_neq. intros ->. apply H, Hx.
Qed.

Lemma parse_element_block_ok : forall bsname zs d, tm_name_ok bsname -> tel_ok zs -> ~ In (fst zs) (map fst d) ->
  tm_parse_element_block ("*" :: tblock bsname zs) d = inr (d ++ [(fst zs, map tm_expected_shell (snd zs))]).
Proof.
  intros bsname [z shs] d Hn [Hz [Hne Hs]] Hd. cbn [fst snd] in *.
  destruct (el_p_facts bsname z Hn Hz) as [_ [_ Hp]]. destruct (symlo_facts z Hz) as [_ [_ [_ [_ Hback]]]].
  unfold tblock, tm_parse_element_block. cbn [fst snd]. rewrite Hp. unfold bind at 1. rewrite Hback. unfold bind at 1.
  unfold tm_create_electron_shells. rewrite (not_in_existsb z _ Hd). unfold bind at 1, ok at 1.
  unfold pbody. rewrite flat_map_concat_map. fold sh_cond. rewrite partition_blocks2.
  - unfold bind. rewrite (shell_blocks_rest z shs d [] Hs Hd). reflexivity.
  - rewrite Forall_forall in *. intros b Hb. apply in_map_iff in Hb. destruct Hb as [s [<- Hin]].
    destruct (bshell_facts s (Hs s Hin)) as [H1 [H2 _]]. split; assumption.
Qed.

Lemma element_blocks_ok : forall bsname els d, tm_name_ok bsname -> Forall tel_ok els -> NoDup (map fst els) ->
  (forall z, In z (map fst els) -> ~ In z (map fst d)) ->
  tm_parse_element_blocks (map (fun zs => "*" :: tblock bsname zs) els) d = inr (d ++ tm_expected els).
Proof.
  intros bsname; induction els as [|zs els IH]; intros d Hn Hel Hnd Hdis.
  - cbn. now rewrite app_nil_r.
  - inversion Hel as [|? ? H1 H2]; subst. cbn [map] in Hnd. inversion Hnd as [|? ? Hnotin Hnd']; subst.
    cbn [map tm_parse_element_blocks].
    rewrite (parse_element_block_ok bsname zs d Hn H1); [|apply Hdis; now left]. unfold bind.
    rewrite IH; [| exact Hn | exact H2 | exact Hnd' |].
    + unfold tm_expected. cbn [map]. rewrite <- app_assoc. reflexivity.
    + intros z Hz. rewrite map_app, in_app_iff. cbn [map In]. intros [Hin|[Heq|[]]].
      * apply (Hdis z); [now right | exact Hin].
      * subst z. apply Hnotin, Hz.
Qed.

Lemma tblock_facts : forall bsname zs, tm_name_ok bsname -> tel_ok zs ->
  block_shape el_cond (tblock bsname zs) /\ 3 <= List.length (tblock bsname zs) /\
  Forall body_ok (tblock bsname zs) /\ tm_check_element_block ("*" :: tblock bsname zs) = inr tt.
Proof.
  intros bsname [z shs] Hn [Hz [Hne Hs]]. cbn [fst snd] in *.
  destruct (el_p_facts bsname z Hn Hz) as [Hb [He _]]. pose proof (pbody_facts shs Hs) as Hpb.
  pose proof (pbody_len shs Hne Hs) as Hlen. unfold tblock. cbn [fst snd].
  assert (Hstar : body_ok "*") by (split; [reflexivity|]; exists "*"%char, ""; repeat split).
  split; [|split; [|split]].
  - exists (el_p bsname z), ("*" :: pbody shs). split; [reflexivity|]. split; [unfold el_cond; now rewrite He|].
    constructor; [reflexivity|]. rewrite Forall_forall in *. intros l Hl. apply (Hpb l Hl).
  - cbn [List.length]. lia.
  - constructor; [exact Hb|]. constructor; [exact Hstar|]. rewrite Forall_forall in *. intros l Hl. apply (Hpb l Hl).
  - unfold tm_check_element_block. cbn [String.eqb Ascii.eqb Bool.eqb negb].
    rewrite existsb_false; [reflexivity|]. rewrite Forall_forall in Hpb. intros l Hl. apply (Hpb l Hl).
Qed.

(* ================================================================== *)
(* 9. prune_lines on the written lines                                 *)
(* ================================================================== *)
Lemma pr_unfold : forall sk L, is_empty sk = false ->
  prune_lines L sk true true =
  filter (fun l => negb (is_empty l)) (filter (fun l => orb (is_empty l) (negb (first_in sk l))) (map strip_ws L)).
Proof. intros sk L H. unfold prune_lines. rewrite H. reflexivity. Qed.

Lemma pr_app : forall sk a b, is_empty sk = false ->
  prune_lines (a ++ b) sk true true = prune_lines a sk true true ++ prune_lines b sk true true.
Proof. intros sk a b H. rewrite !pr_unfold by exact H. rewrite map_app, !filter_app. reflexivity. Qed.

Definition head_not_in (sk : string) (l : string) : Prop := exists c r, l = String c r /\ sany (Ascii.eqb c) sk = false.

Lemma pr_keep : forall sk L, is_empty sk = false -> Forall (head_not_in sk) (map strip_ws L) ->
  prune_lines L sk true true = map strip_ws L.
Proof.
  intros sk L Hsk H. rewrite pr_unfold by exact Hsk. rewrite (filter_id _ _ (map strip_ws L)).
  - apply filter_id. rewrite Forall_forall in *. intros l Hl. destruct (H l Hl) as [c [r [-> _]]]. reflexivity.
  - rewrite Forall_forall in *. intros l Hl. destruct (H l Hl) as [c [r [-> Hc]]]. cbn [is_empty first_in orb]. now rewrite Hc.
Qed.

Lemma map_id_in : forall (A : Type) (f : A -> A) l, Forall (fun x => f x = x) l -> map f l = l.
Proof. intros A f; induction l as [|a l IH]; intros H; [reflexivity|]. inversion H; subst. cbn [map]. now rewrite H2, IH. Qed.

Lemma map_flat_map : forall (A B C : Type) (f : B -> C) (g : A -> list B) l,
  map f (flat_map g l) = flat_map (fun x => map f (g x)) l.
Proof. intros A B C f g; induction l as [|a l IH]; [reflexivity|]. cbn [flat_map]. now rewrite map_app, IH. Qed.

Lemma flat_map_map : forall (A B C : Type) (f : B -> list C) (g : A -> B) l,
  flat_map f (map g l) = flat_map (fun x => f (g x)) l.
Proof. intros A B C f g; induction l as [|a l IH]; [reflexivity|]. cbn [map flat_map]. now rewrite IH. Qed.

(* the stripped file *)
Definition mid_lines (bsname : string) (els : list (Z * list sshell)) : list string :=
  "*" :: flat_map (fun zs => tblock bsname zs ++ ["*"]) els.
Definition stripped_lines (role bsname : string) (els : list (Z * list sshell)) : list string :=
  tm_section_keyword role :: mid_lines bsname els ++ ["$end"].

Lemma strip_shell_lines : forall s, tm_shell_ok s -> map strip_ws (tsh_lines s) = bshell s.
Proof.
  intros s Hs. destruct (hdr_p_facts s Hs) as [E _]. unfold tsh_lines, bshell, crows. cbn [map]. rewrite E, map_map. reflexivity.
Qed.

Lemma strip_tel_lines : forall bsname zs, tel_ok zs -> map strip_ws (tel_lines bsname zs) = tblock bsname zs ++ ["*"].
Proof.
  intros bsname [z shs] [_ [_ Hs]]. cbn [fst snd] in *. unfold tel_lines, tblock, tel_body, pbody, el_p. cbn [fst snd map].
  rewrite map_app, map_flat_map. cbn [map app]. f_equal. f_equal. f_equal.
  apply flat_map_ext_in. intros s Hin. apply strip_shell_lines. rewrite Forall_forall in Hs. apply Hs, Hin.
Qed.

Lemma strip_tall_lines : forall role bsname els, Forall tel_ok els ->
  map strip_ws (tall_lines role bsname els) = stripped_lines role bsname els.
Proof.
  intros role bsname els Hel. unfold tall_lines, stripped_lines, mid_lines. cbn [map]. rewrite map_app, map_flat_map. cbn [map app].
  f_equal; [kw_split role; reflexivity|]. f_equal. f_equal.
  apply flat_map_ext_in. intros zs Hin. apply strip_tel_lines. rewrite Forall_forall in Hel. apply Hel, Hin.
Qed.

Lemma mid_body_ok : forall bsname els, tm_name_ok bsname -> Forall tel_ok els -> Forall body_ok (mid_lines bsname els).
Proof.
  intros bsname els Hn Hel.
  assert (Hstar : body_ok "*") by (split; [reflexivity|]; exists "*"%char, ""; repeat split).
  unfold mid_lines. constructor; [exact Hstar|]. rewrite Forall_forall in *. intros l Hl. apply in_flat_map in Hl.
  destruct Hl as [zs [Hzs Hl]]. destruct (tblock_facts bsname zs Hn (Hel zs Hzs)) as [_ [_ [Hb _]]].
  apply in_app_or in Hl. destruct Hl as [Hl|[<-|[]]]; [|exact Hstar]. rewrite Forall_forall in Hb. apply Hb, Hl.
Qed.

Lemma body_head_hash : forall l, body_ok l -> head_not_in "#" l.
Proof. intros l [_ [c [r [-> [H1 _]]]]]. exists c, r. split; [reflexivity|]. cbn [sany]. now rewrite H1. Qed.
Lemma body_head_dollar : forall l, body_ok l -> head_not_in "$" l.
Proof. intros l [_ [c [r [-> [_ H2]]]]]. exists c, r. split; [reflexivity|]. cbn [sany]. now rewrite H2. Qed.

Lemma prune_hash : forall role bsname els, tm_name_ok bsname -> Forall tel_ok els ->
  prune_lines (tall_lines role bsname els) "#" true true = stripped_lines role bsname els.
Proof.
  intros role bsname els Hn Hel. rewrite pr_keep; [apply strip_tall_lines, Hel | reflexivity |].
  rewrite (strip_tall_lines role bsname els Hel). unfold stripped_lines. constructor.
  - kw_split role; (exists "$"%char; eexists; split; reflexivity).
  - apply Forall_app. split.
    + pose proof (mid_body_ok bsname els Hn Hel) as H. rewrite Forall_forall in *. intros l Hl. apply body_head_hash, H, Hl.
    + constructor; [|constructor]. exists "$"%char, "end". split; reflexivity.
Qed.

Lemma prune_dollar : forall role bsname els, tm_name_ok bsname -> Forall tel_ok els ->
  prune_lines (stripped_lines role bsname els) "$" true true = mid_lines bsname els.
Proof.
  intros role bsname els Hn Hel. pose proof (mid_body_ok bsname els Hn Hel) as H. unfold stripped_lines.
  change (tm_section_keyword role :: mid_lines bsname els ++ ["$end"])
    with ([tm_section_keyword role] ++ mid_lines bsname els ++ ["$end"]).
  rewrite !pr_app by reflexivity.
  assert (E1 : prune_lines [tm_section_keyword role] "$" true true = []) by (kw_split role; reflexivity).
  assert (E3 : prune_lines ["$end"] "$" true true = []) by reflexivity.
  assert (Eid : map strip_ws (mid_lines bsname els) = mid_lines bsname els).
  { apply map_id_in. rewrite Forall_forall in *. intros l Hl. apply (H l Hl). }
  rewrite E1, E3, app_nil_r. cbn [app]. rewrite pr_keep; [exact Eid | reflexivity |].
  rewrite Eid. rewrite Forall_forall in *. intros l Hl. apply body_head_dollar, H, Hl.
Qed.

(* ================================================================== *)
(* 10. the round trip                                                  *)
(* ================================================================== *)
Definition sec_cond (x : string) : res bool := ok (andb (str_prefix "$" x) (negb (String.eqb x "$end"))).

Lemma body_not_sec : forall l, body_ok l -> sec_cond l = inr false.
Proof.
  intros l [_ [c [r [-> [_ H2]]]]]. unfold sec_cond. cbn [str_prefix]. rewrite Ascii.eqb_sym, H2. reflexivity.
Qed.

Lemma kw_facts : forall role, let k := tm_section_keyword role in
  sec_cond k = inr true /\ (exists r, k = String "$" r) /\ String.eqb (lower k) "$ecp" = false /\
  existsb (String.eqb k) tm_section_names = true /\ forall X, forallb (str_prefix "$") (k :: "*" :: X) = false.
Proof. intros role. cbv zeta. kw_split role; (split; [reflexivity|]; split; [eexists; reflexivity|]; repeat split; reflexivity). Qed.

Lemma part_skip_all : forall cond inc r cur all, Forall (fun l => cond l = inr false) r ->
  part_go cond inc r cur all = inr (flush (cur ++ r) all).
Proof.
  intros cond inc r cur all H. rewrite <- (app_nil_r r) at 1. rewrite (part_skip cond inc r [] cur all H). apply part_go_nil.
Qed.

Lemma partition_sections : forall role bsname els, tm_name_ok bsname -> Forall tel_ok els ->
  partition_lines (stripped_lines role bsname els) sec_cond true 1 1 2 = inr [stripped_lines role bsname els].
Proof.
  intros role bsname els Hn Hel. destruct (kw_facts role) as [Hk _]. cbv zeta in Hk.
  pose proof (mid_body_ok bsname els Hn Hel) as H.
  unfold partition_lines, stripped_lines.
  rewrite (part_go_match sec_cond true _ _ [] [] Hk). cbn [flush].
  rewrite part_skip_all.
  - unfold bind. reflexivity.
  - apply Forall_app. split; [|constructor; [reflexivity | constructor]].
    rewrite Forall_forall in *. intros l Hl. apply body_not_sec, H, Hl.
Qed.

Lemma mid_as_blocks : forall bsname els,
  mid_lines bsname els = flat_map (cons "*") (map (tblock bsname) els) ++ ["*"].
Proof.
  intros bsname els. unfold mid_lines. rewrite (flat_map_sep _ _ "*" (tblock bsname) els), flat_map_map. reflexivity.
Qed.

Lemma parse_electron_section : forall role bsname els, tm_ok role bsname els ->
  tm_parse_electron_lines (stripped_lines role bsname els) [] = inr (tm_expected els).
Proof.
  intros role bsname els H. pose proof (tm_ok_els _ _ _ H) as Hel. destruct H as [Hn [Hne [Hnd _]]].
  unfold tm_parse_electron_lines. rewrite (prune_dollar role bsname els Hn Hel), mid_as_blocks, rev_unit.
  cbn [String.eqb Ascii.eqb Bool.eqb negb]. rewrite rev_involutive. fold el_cond.
  rewrite (partition_before1 el_cond "*" (map (tblock bsname) els)).
  - unfold bind at 1. rewrite map_map.
    rewrite (mapM_map_ok _ _ tm_check_element_block (fun _ => tt)).
    + unfold bind at 1. rewrite (element_blocks_ok bsname els [] Hn Hel Hnd); [reflexivity|]. intros z _ [].
    + intros b Hb. apply in_map_iff in Hb. destruct Hb as [zs [<- Hzs]]. rewrite Forall_forall in Hel.
      apply (tblock_facts bsname zs Hn (Hel zs Hzs)).
  - reflexivity.
  - destruct els; [congruence | discriminate].
  - rewrite Forall_forall in *. intros b Hb. apply in_map_iff in Hb. destruct Hb as [zs [<- Hzs]].
    apply (tblock_facts bsname zs Hn (Hel zs Hzs)).
  - rewrite Forall_forall in *. intros b Hb. apply in_map_iff in Hb. destruct Hb as [zs [<- Hzs]].
    apply (tblock_facts bsname zs Hn (Hel zs Hzs)).
Qed.

Lemma sections_one : forall role bsname els, tm_ok role bsname els ->
  tm_sections [stripped_lines role bsname els] [] = inr (tm_expected els).
Proof.
  intros role bsname els H. destruct (kw_facts role) as [_ [_ [Hecp [Hsec Hall]]]].
  pose proof (parse_electron_section role bsname els H) as Hp.
  assert (Ef : forallb (str_prefix "$") (stripped_lines role bsname els) = false) by (unfold stripped_lines, mid_lines; apply Hall).
  cbn [tm_sections]. rewrite Ef.
  remember (stripped_lines role bsname els) as S eqn:ES. destruct S as [|first T0]; [unfold stripped_lines in ES; discriminate ES|].
  assert (E1 : first = tm_section_keyword role) by (unfold stripped_lines in ES; now inversion ES).
  rewrite Hp, E1, Hecp, Hsec. reflexivity.
Qed.

Lemma read_tall_lines : forall role bsname els, tm_ok role bsname els ->
  tm_read_electron (tall_lines role bsname els) = inr (tm_expected els).
Proof.
  intros role bsname els H. pose proof (tm_ok_els _ _ _ H) as Hel. pose proof H as [Hn _].
  destruct (kw_facts role) as [_ [[r Er] _]].
  unfold tm_read_electron. rewrite (prune_hash role bsname els Hn Hel). fold sec_cond.
  rewrite (partition_sections role bsname els Hn Hel).
  assert (Elast : rev (stripped_lines role bsname els) = "$end" :: rev (tm_section_keyword role :: mid_lines bsname els)).
  { unfold stripped_lines. change (tm_section_keyword role :: mid_lines bsname els ++ ["$end"])
      with ((tm_section_keyword role :: mid_lines bsname els) ++ ["$end"]). apply rev_unit. }
  rewrite Elast. unfold bind at 2. rewrite (sections_one role bsname els H).
  unfold stripped_lines. rewrite Er. reflexivity.
Qed.

Lemma tm_roundtrip_exact : tm_roundtrip_stmt.
Proof.
  intros role bsname els H. unfold tm_roundtrip.
  rewrite (tm_write_electron_lines role bsname els (tm_ok_els _ _ _ H)). unfold bind.
  rewrite (splitlines_unlines _ (tall_lines_good role bsname els H)). apply read_tall_lines, H.
Qed.

(* ================================================================== *)
(* 11. the hypotheses of tm_ok that cannot be dropped, and a concrete instance *)
(* ================================================================== *)
Lemma tm_literal_number_counterexample : tm_literal_number_counterexample_stmt.
Proof. eexists. split; vm_compute; reflexivity. Qed.

Lemma tm_roundtrip_empty : tm_roundtrip_empty_stmt.
Proof. vm_compute. reflexivity. Qed.
Lemma tm_roundtrip_noshell : tm_roundtrip_noshell_stmt.
Proof. vm_compute. reflexivity. Qed.
Lemma tm_roundtrip_noname : tm_roundtrip_noname_stmt.
Proof. vm_compute. reflexivity. Qed.
Lemma tm_roundtrip_blankname : tm_roundtrip_blankname_stmt.
Proof. vm_compute. reflexivity. Qed.
Lemma tm_roundtrip_nlname : tm_roundtrip_nlname_stmt.
Proof. vm_compute. reflexivity. Qed.
Lemma tm_roundtrip_name_blanks : tm_roundtrip_name_blanks_stmt.
Proof. vm_compute. reflexivity. Qed.
Lemma tm_roundtrip_fused : tm_roundtrip_fused_stmt.
Proof. vm_compute. reflexivity. Qed.
Lemma tm_roundtrip_general : tm_roundtrip_general_stmt.
Proof. vm_compute. reflexivity. Qed.
Lemma tm_roundtrip_dup : tm_roundtrip_dup_stmt.
Proof. vm_compute. reflexivity. Qed.
Lemma tm_write_am25 : tm_write_am25_stmt.
Proof. vm_compute. reflexivity. Qed.
Lemma tm_write_z121 : tm_write_z121_stmt.
Proof. vm_compute. reflexivity. Qed.
Lemma tm_write_nopoint : tm_write_nopoint_stmt.
Proof. vm_compute. reflexivity. Qed.
Lemma tm_roundtrip_cartesian : tm_roundtrip_cartesian_stmt.
Proof. vm_compute. reflexivity. Qed.

Ltac shell_ok_tac :=
  unfold tm_shell_ok; cbn [exps am coefs];
  split; [discriminate|]; split; [eexists; split; [reflexivity | lia]|];
  split; [eexists; split; reflexivity|]; split; repeat constructor.

Lemma tm_roles : tm_roles_stmt.
Proof.
  split; [reflexivity|]. intros role.
  assert (H : tm_ok role "n" [(1%Z, [tm_h])]).
  { split; [split; reflexivity|]. split; [discriminate|]. split; [repeat constructor; intros []|].
    constructor; [|constructor]. cbn [fst snd]. split; [lia|]. split; [discriminate|].
    constructor; [|constructor]. unfold tm_h. shell_ok_tac. }
  rewrite (tm_roundtrip_exact role "n" _ H). reflexivity.
Qed.

Example tm_example : tm_example_stmt.
Proof.
  split; [|split; [|split; [|split]]]; try (vm_compute; reflexivity).
  unfold tm_ok, tx_els. split; [split; reflexivity|]. split; [discriminate|]. split.
  - cbn [map fst]. repeat constructor; cbn [In]; intros H; repeat (destruct H as [H|H]; [discriminate H|]); exact H.
  - repeat (constructor; [cbn [fst snd]; split; [lia|]; split; [discriminate|]|]); [| | |constructor].
    + repeat (constructor; [shell_ok_tac|]). constructor.
    + repeat (constructor; [shell_ok_tac|]). constructor.
    + repeat (constructor; [shell_ok_tac|]). constructor.
Qed.

Print Assumptions tm_write_total.
Print Assumptions tm_roundtrip_exact.
Print Assumptions tm_no_number_lost.
Print Assumptions tm_literal_number_counterexample.
Print Assumptions tm_roundtrip_empty.
Print Assumptions tm_roundtrip_noshell.
Print Assumptions tm_roundtrip_noname.
Print Assumptions tm_roundtrip_blankname.
Print Assumptions tm_roundtrip_nlname.
Print Assumptions tm_roundtrip_name_blanks.
Print Assumptions tm_roundtrip_fused.
Print Assumptions tm_roundtrip_general.
Print Assumptions tm_roundtrip_dup.
Print Assumptions tm_write_am25.
Print Assumptions tm_write_z121.
Print Assumptions tm_write_nopoint.
Print Assumptions tm_roundtrip_cartesian.
Print Assumptions tm_roles.
Print Assumptions tm_example.
