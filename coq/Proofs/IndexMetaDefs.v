(* Declarative specification of index generation: create_metadata of Model/Index.v (one_meta, add_entries,
   collect_meta, sort_items, ver_max, meta_files, table_files).  Definitions only; proofs in IndexMetaSpec.v. *)
From BSE Require Import Model.Val Model.Elements Model.Compose Model.Index Gen.GenApi.
From Coq Require Import Sorted.

(* the order insert_kv / sort_items compares keys with: x goes before the first y with str_ltb x y *)
Definition key_lt (a b : string) : Prop := str_ltb a b = true.
(* strictly increasing: every key is key_lt every later key *)
Definition keys_sorted (l : list string) : Prop := StronglySorted key_lt l.

(* the part of the metadata file's name before the first "." *)
Definition meta_stem (f : string) : string := hd "" (split_on "." (basename f)).

(* tf is a table file of the basis described by metadata file f, and ver is its version:
   same directory, <stem>.<ver>.<x>.<y> *)
Definition version_table (d : datadir) (f tf ver : string) : Prop :=
  In tf (table_files d) /\
  dirname tf = dirname f /\
  str_prefix (meta_stem f +++ ".") (basename tf) = true /\
  exists a b c, split_on "." (basename tf) = [a; ver; b; c].

(* the fields of an index entry that do not depend on which of the names the entry is filed under *)
Definition shared_fields : list string :=
  ["description"; "latest_version"; "tags"; "basename"; "relpath"; "family"; "role";
   "function_types"; "auxiliaries"; "versions"].

(* (a) the keys of the index are pairwise distinct and strictly increasing *)
Definition create_metadata_keys_stmt : Prop :=
  forall d m, create_metadata d = inr (VDict m) ->
    NoDup (map fst m) /\ keys_sorted (map fst m).

(* (b) no entry is invented *)
Definition create_metadata_sound_stmt : Prop :=
  forall d m k e, create_metadata d = inr (VDict m) -> In (k, e) m ->
    exists f es, In f (meta_files d) /\ one_meta d f = inr es /\ In (k, e) es.

(* (c) no entry is lost *)
Definition create_metadata_complete_stmt : Prop :=
  forall d m, create_metadata d = inr (VDict m) ->
    forall f, In f (meta_files d) ->
      exists es, one_meta d f = inr es /\ forall k e, In (k, e) es -> In (k, e) m.

(* (c') a key determines the metadata file and the entry: no two files (and no two names of one file)
   produce the same key *)
Definition create_metadata_key_unique_stmt : Prop :=
  forall d m, create_metadata d = inr (VDict m) ->
    forall f1 f2 es1 es2 k e1 e2,
      In f1 (meta_files d) -> In f2 (meta_files d) ->
      one_meta d f1 = inr es1 -> one_meta d f2 = inr es2 ->
      In (k, e1) es1 -> In (k, e2) es2 -> f1 = f2 /\ e1 = e2.

(* the result is always a dictionary *)
Definition create_metadata_dict_stmt : Prop :=
  forall d v, create_metadata d = inr v -> exists m, v = VDict m.

(* (d) the content of one entry *)
Definition one_meta_entry_stmt : Prop :=
  forall d f es k e, one_meta d f = inr es -> In (k, e) es ->
    exists md names nm latest vi,
      read_json_basis d f = inr md /\
      vfield "names" md = inr (VStrs names) /\
      In nm names /\
      k = transform_basis_name nm /\
      vfield "display_name" e = inr (VStr nm) /\
      vfield "other_names" e = inr (VStrs (remove_first nm names)) /\
      vfield "relpath" e = inr (VStr (dirname f)) /\
      vfield "basename" e = inr (VStr (meta_stem f)) /\
      vfield "versions" e = inr (VDict vi) /\
      vfield "latest_version" e = inr (VStr latest) /\
      ver_max (map fst vi) = inr latest /\
      NoDup (map fst vi) /\
      keys_sorted (map fst vi) /\
      (forall ver info, In (ver, info) vi ->
         exists tf, vfield "file_relpath" info = inr (VStr tf) /\ version_table d f tf ver) /\
      (forall tf ver, version_table d f tf ver -> In ver (map fst vi)).

(* the entries of one file are exactly one per listed name, in the order of the names *)
Definition one_meta_names_stmt : Prop :=
  forall d f es, one_meta d f = inr es ->
    exists md names,
      read_json_basis d f = inr md /\
      vfield "names" md = inr (VStrs names) /\
      map fst es = map transform_basis_name names.

(* (e) the entries of one file differ only in display_name / other_names *)
Definition one_meta_aliases_stmt : Prop :=
  forall d f es k1 e1 k2 e2 fld, one_meta d f = inr es -> In (k1, e1) es -> In (k2, e2) es ->
    In fld shared_fields -> exists v, vfield fld e1 = inr v /\ vfield fld e2 = inr v.

(* (f) ver_max is a maximum for ver_ltb *)
Definition ver_max_spec_stmt : Prop :=
  (forall l m, ver_max l = inr m -> In m l /\ forall x, In x l -> ver_ltb m x = false) /\
  ver_max [] = inl EValue.
