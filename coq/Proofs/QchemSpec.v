(* Proofs of the statements of Proofs/QchemDefs.v: write_qchem is total on well-formed input and every number of the input
   is a token of some line of the text.  The generic part (lines, tokens, printed matrices, ECP blocks) is sections 1 - 4
   of Proofs/G94FamilySpec.v. *)
From BSE Require Import Model.Val Model.Text Model.Num Model.Basis Model.Manip Model.Matrix Gen.GenLut Model.Lut
                        Model.Elements Model.Sort Model.Nwchem Model.G94 Model.G94Ecp Model.G94Family Model.Qchem
                        Proofs.MatrixDefs Proofs.NwchemDefs Proofs.G94Defs Proofs.G94EcpDefs Proofs.G94FamilyDefs
                        Proofs.QchemDefs Proofs.C20Finite.
From BSE Require Proofs.ElementsSpec.
From Coq Require Import NArith Nnat Znat Permutation.
From BSE Require Import Proofs.HeaderSpec Proofs.PruneFS Proofs.MatrixSpec Proofs.NwchemSpec Proofs.G94Spec Proofs.G94EcpSpec
                        Proofs.G94FamilySpec.

Lemma qchem_ok_split : forall els ecps, qchem_ok els ecps <-> g94f_ok els /\ g94f_ecp_ok ecps.
Proof. intros els ecps. reflexivity. Qed.

(* ---------- one shell, one element ---------- *)
Lemma qshell_wr : forall s, g94f_shell_ok s -> exists L, wr (qchem_write_shell s) L /\ toks_in (shell_words s) L.
Proof.
  intros s Hs. destruct (shell_mat_facts s Hs) as [Hpre [Hw [Hg Ht]]]. destruct Hs as [Ha _].
  destruct (amint_alpha (am s) Ha) as [ch [E [_ Hu]]].
  set (hdrl := upper ch +++ "   " +++ nat_str (List.length (exps s)) +++ "   1.00").
  exists (hdrl :: wrows (g94f_shell_mat s) (spps s)). split; [split|].
  - unfold qchem_write_shell. cbv zeta. rewrite E. unfold bind at 1.
    change (qchem_shell_mat s) with (g94f_shell_mat s). fold (spps s). rewrite Hpre. unfold bind at 1. rewrite Hw.
    unfold bind, ok. f_equal. rewrite unlines_cons. unfold hdrl. rewrite !sapp_assoc. reflexivity.
  - constructor; [|exact Hg]. unfold hdrl, good_line. rewrite !sall_app, (alpha_good _ Hu), (nat_str_nobd _). reflexivity.
  - apply (toks_in_incl _ (wrows (g94f_shell_mat s) (spps s))); [apply incl_tl, incl_refl | exact Ht].
Qed.

Lemma qelement_wr : forall zs, (1 <= fst zs <= 120)%Z -> Forall g94f_shell_ok (snd zs) ->
  exists L, wr (qchem_write_element zs) L /\ toks_in (el_words zs) L.
Proof.
  intros [z shs] Hz Hshs. cbn [fst snd] in *. destruct (sym_facts94 z Hz) as [Es [_ [Hs _]]].
  destruct (mapM_wr _ qchem_write_shell shell_words shs) as [parts [L [Em [Ec [G T]]]]].
  { intros s Hin. apply qshell_wr. rewrite Forall_forall in Hshs. apply Hshs, Hin. }
  exists ((symz z +++ "     0") :: L ++ ["****"]). split; [split|].
  - unfold qchem_write_element. rewrite Es. unfold bind at 1. rewrite Em. unfold bind, ok. f_equal.
    rewrite Ec, unlines_cons, unlines_app. cbn [unlines map String.concat]. rewrite !sapp_assoc. reflexivity.
  - constructor; [|apply Forall_app_intro; [exact G | constructor; [reflexivity | constructor]]].
    unfold good_line. rewrite !sall_app, (alpha_good _ Hs). reflexivity.
  - intros w [s [Hin Hw]]. destruct (T s Hin w Hw) as [line [Hl Ht]]. exists line.
    split; [right; apply in_or_app; now left | exact Ht].
Qed.

Lemma qecp_element_wr : forall zp, g94f_ecp_el_ok zp ->
  exists L, wr (qchem_write_ecp_element zp) L /\ toks_in (ecp_el_words zp) L.
Proof.
  intros zp H. destruct (ecp_element_wr zp H) as [L [[E G] T]].
  exists (L ++ ["****"]). split; [split|].
  - unfold qchem_write_ecp_element. rewrite E. unfold bind, ok. f_equal. rewrite unlines_app.
    cbn [unlines map String.concat]. reflexivity.
  - apply Forall_app_intro; [exact G | constructor; [reflexivity | constructor]].
  - apply (toks_in_incl _ L); [apply incl_appl, incl_refl | exact T].
Qed.

(* ---------- the $rem block ---------- *)
Lemma pure_digits_good : forall l : list (Z * bool),
  sall nobd (String.concat "" (map (fun x : Z * bool => if snd x then "1" else "2") l)) = true.
Proof.
  induction l as [|x l IH]; [reflexivity|]. cbn [map]. rewrite concat_cons, sall_app, IH. destruct (snd x); reflexivity.
Qed.

Definition rem_lines (role : string) (els : list (Z * list sshell)) (ecps : list (Z * gecp)) : list string :=
  "$rem" ::
  (if String.eqb role "orbital" then
     (match els with [] => [] | _ => ["    BASIS GEN"] end) ++ (match ecps with [] => [] | _ => ["    ECP GEN"] end) ++
     ["    PURECART " +++ qchem_determine_pure els]
   else ["AUX_BASIS GEN"]) ++ ["$end"; ""].

Lemma rem_wr : forall role els ecps, qchem_rem role els ecps = unlines (rem_lines role els ecps) /\
                                     Forall good_line (rem_lines role els ecps).
Proof.
  intros role els ecps. unfold qchem_rem, rem_lines. split.
  - destruct (String.eqb role "orbital"), els, ecps; cbn [app]; rewrite !unlines_cons; cbn [unlines map String.concat];
      rewrite ?sapp_assoc; reflexivity.
  - assert (Hp : good_line ("    PURECART " +++ qchem_determine_pure els)).
    { unfold good_line. rewrite sall_app. unfold qchem_determine_pure. rewrite pure_digits_good. reflexivity. }
    destruct (String.eqb role "orbital"), els, ecps; cbn [app]; repeat constructor; exact Hp.
Qed.

(* ---------- the whole text ---------- *)
Lemma qchem_wr : forall role els ecps, qchem_ok els ecps ->
  exists L, wr (qchem_write_all role els ecps) L /\ toks_in (els_words els) L /\ toks_in (ecps_words ecps) L.
Proof.
  intros role els ecps [H1 H2]. destruct (rem_wr role els ecps) as [Er Gr].
  (* electron part *)
  assert (HA : exists La, wr (match els with
                              | [] => ok ""
                              | _ => do parts <- mapM qchem_write_element els;
                                     ok ("$" +++ (if String.eqb role "orbital" then "basis" else "aux_basis") +++ nl1 +++
                                         String.concat "" parts +++ "$end" +++ nl1)
                              end) La /\ toks_in (els_words els) La).
  { destruct els as [|zs0 els0] eqn:Ee.
    - exists []. split; [split; [reflexivity | constructor]|]. intros w [zs [[] _]].
    - rewrite <- Ee in *. rewrite Forall_forall in H1.
      destruct (mapM_wr _ qchem_write_element el_words els) as [parts [L [Em [Ec [G T]]]]].
      { intros zs Hin. destruct (H1 zs Hin) as [Hz Hs]. apply qelement_wr; assumption. }
      set (l1 := "$" +++ (if String.eqb role "orbital" then "basis" else "aux_basis")).
      exists (l1 :: L ++ ["$end"]). split; [split|].
      + rewrite Em. unfold bind, ok. f_equal. rewrite Ec, unlines_cons, unlines_app. unfold l1.
        cbn [unlines map String.concat]. rewrite ?sapp_assoc. reflexivity.
      + constructor; [unfold l1; destruct (String.eqb role "orbital"); reflexivity|].
        apply Forall_app_intro; [exact G | constructor; [reflexivity | constructor]].
      + intros w [zs [Hin Hw]]. destruct (T zs Hin w Hw) as [line [Hl Ht]]. exists line.
        split; [right; apply in_or_app; now left | exact Ht]. }
  (* ECP part *)
  assert (HB : exists Lb, wr (match ecps with
                              | [] => ok ""
                              | _ => do parts <- mapM qchem_write_ecp_element ecps;
                                     ok (nl1 +++ nl1 +++ "$ecp" +++ nl1 +++ String.concat "" parts +++ "$end" +++ nl1)
                              end) Lb /\ toks_in (ecps_words ecps) Lb).
  { destruct ecps as [|zp0 ecps0] eqn:Ee.
    - exists []. split; [split; [reflexivity | constructor]|]. intros w [zp [[] _]].
    - rewrite <- Ee in *.
      destruct (mapM_wr _ qchem_write_ecp_element ecp_el_words ecps) as [parts [L [Em [Ec [G T]]]]].
      { intros zp Hin. apply qecp_element_wr, (g94f_ecp_ok_els ecps H2 zp Hin). }
      exists ("" :: "" :: "$ecp" :: L ++ ["$end"]). split; [split|].
      + rewrite Em. unfold bind, ok. f_equal. rewrite Ec, !unlines_cons, unlines_app.
        cbn [unlines map String.concat]. rewrite ?sapp_assoc. reflexivity.
      + do 3 (constructor; [reflexivity|]). apply Forall_app_intro; [exact G | constructor; [reflexivity | constructor]].
      + intros w [zp [Hin Hw]]. destruct (T zp Hin w Hw) as [line [Hl Ht]]. exists line.
        split; [do 3 right; apply in_or_app; now left | exact Ht]. }
  destruct HA as [La [[Ea Ga] Ta]]. destruct HB as [Lb [[Eb Gb] Tb]].
  exists (rem_lines role els ecps ++ La ++ Lb). split; [split|split].
  - unfold qchem_write_all. rewrite Ea, Eb. unfold bind, ok. f_equal. rewrite Er, !unlines_app. reflexivity.
  - apply Forall_app_intro; [exact Gr | apply Forall_app_intro; assumption].
  - apply (toks_in_incl _ La); [apply incl_appr, incl_appl, incl_refl | exact Ta].
  - apply (toks_in_incl _ Lb); [apply incl_appr, incl_appr, incl_refl | exact Tb].
Qed.

Lemma qchem_write_total : qchem_write_total_stmt.
Proof. intros role els ecps H. destruct (qchem_wr role els ecps H) as [L [[E _] _]]. eexists. exact E. Qed.

Lemma qchem_no_number_lost : qchem_no_number_lost_stmt.
Proof.
  intros role els ecps t H E. destruct (qchem_wr role els ecps H) as [L [Hwr [T1 T2]]].
  exact (proj1 (lines_conclusions _ L t els ecps Hwr E T1 T2)).
Qed.

Lemma qchem_ecp_no_number_lost : qchem_ecp_no_number_lost_stmt.
Proof.
  intros role els ecps t H E. destruct (qchem_wr role els ecps H) as [L [Hwr [T1 T2]]].
  exact (proj2 (lines_conclusions _ L t els ecps Hwr E T1 T2)).
Qed.

(* ---------- the conditions, the examples ---------- *)
Lemma qchem_empty : qchem_empty_stmt.
Proof. split; vm_compute; reflexivity. Qed.

Lemma qchem_mixed : qchem_mixed_stmt.
Proof. split; vm_compute; reflexivity. Qed.

Lemma qchem_pure : qchem_pure_stmt.
Proof. repeat split; vm_compute; reflexivity. Qed.

Lemma qchem_am_bound : qchem_am_bound_stmt.
Proof. repeat split; vm_compute; reflexivity. Qed.

Lemma qchem_ragged : qchem_ragged_stmt.
Proof. split; [|split]; eexists; repeat split; vm_compute; reflexivity. Qed.

Lemma qchem_floating : qchem_floating_stmt.
Proof. repeat split; vm_compute; reflexivity. Qed.

Lemma qchem_elements : qchem_elements_stmt.
Proof. split; vm_compute; reflexivity. Qed.

Lemma qchem_ecp_coef_rows : qchem_ecp_coef_rows_stmt.
Proof. vm_compute. reflexivity. Qed.

Lemma qchem_ecp_anyorder : qchem_ecp_anyorder_stmt.
Proof. vm_compute. reflexivity. Qed.

Lemma qchem_okb_spec : forall els ecps, g94f_okb els = true -> g94f_ecp_okb ecps = true -> qchem_ok els ecps.
Proof. intros els ecps H1 H2. split; [apply g94f_okb_spec, H1 | apply g94f_ecp_okb_spec, H2]. Qed.

Example qchem_example : qchem_example_stmt.
Proof.
  split; [apply qchem_okb_spec; vm_compute; reflexivity|]. split; [vm_compute; reflexivity|].
  split; [apply qchem_okb_spec; vm_compute; reflexivity|]. split; [vm_compute; reflexivity|].
  split; [apply qchem_okb_spec; vm_compute; reflexivity|]. vm_compute; reflexivity.
Qed.

Print Assumptions qchem_write_total.
Print Assumptions qchem_no_number_lost.
Print Assumptions qchem_ecp_no_number_lost.
Print Assumptions qchem_empty.
Print Assumptions qchem_mixed.
Print Assumptions qchem_pure.
Print Assumptions qchem_am_bound.
Print Assumptions qchem_ragged.
Print Assumptions qchem_floating.
Print Assumptions qchem_elements.
Print Assumptions qchem_ecp_coef_rows.
Print Assumptions qchem_ecp_anyorder.
Print Assumptions qchem_example.
