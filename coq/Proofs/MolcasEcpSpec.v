(* Proofs of the statements of Proofs/MolcasEcpDefs.v: the whole Molcas basis_library text (electron shells and ECPs) written by
   write_molcas_library is read back by read_molcas exactly (mcasl_all_roundtrip); the inline text of write_molcas never is. *)
From BSE Require Import Model.Val Model.Text Model.Num Model.Basis Model.Manip Model.Matrix Gen.GenLut Model.Lut
                        Model.Elements Model.Nwchem Model.NwchemEcp Model.G94 Model.Molcas Model.MolcasEcp
                        Proofs.MatrixDefs Proofs.NwchemDefs Proofs.NwchemEcpDefs Proofs.MolcasDefs Proofs.MolcasEcpDefs
                        Proofs.C20Finite.
From Coq Require Import NArith Nnat Znat.
From BSE Require Import Proofs.HeaderSpec Proofs.PruneFS Proofs.MatrixSpec Proofs.NwchemSpec Proofs.NwchemEcpSpec
                        Proofs.TurbomoleSpec Proofs.G94Spec Proofs.GamessUsSpec Proofs.MolcasSpec.

(* ================================================================== *)
(* 1. the order of the potentials                                      *)
(* ================================================================== *)
Lemma sort_ascending_mc : forall l s, map p_am l = map (fun a => [Z.of_nat a]) (seq s (List.length l)) -> ecp_sorted l = l.
Proof.
  induction l as [|x t IH]; intros s H; [reflexivity|]. cbn [List.length seq map] in H. injection H as Hx Ht.
  unfold ecp_sorted in *. cbn [fold_right]. rewrite (IH (S s) Ht). destruct t as [|q t']; [reflexivity|].
  cbn [List.length seq map] in Ht. injection Ht as Hq _. cbn [ecp_insert]. rewrite Hx, Hq, am_ltb_single.
  match goal with |- context [Z.ltb ?a ?b] => assert (E : Z.ltb a b = false) by (apply Z.ltb_ge; lia) end. rewrite E. reflexivity.
Qed.

Lemma insert_highest_mc : forall x n l s, p_am x = [Z.of_nat n] ->
  map p_am l = map (fun a => [Z.of_nat a]) (seq s (List.length l)) -> s + List.length l <= n -> ecp_insert x l = l ++ [x].
Proof.
  intros x n; induction l as [|q t IH]; intros s Hx H Hn; [reflexivity|].
  cbn [List.length seq map] in H. injection H as Hq Ht. cbn [List.length] in Hn.
  cbn [ecp_insert app]. rewrite Hx, Hq, am_ltb_single.
  match goal with |- context [Z.ltb ?a ?b] => assert (E : Z.ltb a b = true) by (apply Z.ltb_lt; lia) end. rewrite E. f_equal. apply (IH (S s) Hx Ht). lia.
Qed.

Lemma mc_ecp_order_canon : mc_ecp_order_canon_stmt.
Proof.
  intros pots Hne H. destruct pots as [|x rest]; [congruence|]. cbn [List.length] in H.
  replace (S (List.length rest) - 1) with (List.length rest) in H by lia.
  unfold mc_canon_ams, potential_am_list in H. cbn [map] in H. injection H as Hx Hr.
  unfold ecp_order, ecp_sorted. cbn [fold_right]. fold (ecp_sorted rest). rewrite (sort_ascending_mc rest 0 Hr).
  rewrite (insert_highest_mc x (List.length rest) rest 0 Hx Hr) by lia.
  unfold ecp_rotate. rewrite rev_app_distr. cbn [rev app]. now rewrite rev_involutive.
Qed.

Definition Lmax (pots : list epot) : Z := Z.of_nat (List.length pots - 1).

Lemma ams_facts : forall (ps : list epot) (as_ : list nat), map p_am ps = map (fun a => [Z.of_nat a]) as_ ->
  Forall2 (fun a p => p_am p = [Z.of_nat a]) as_ ps /\ map pot_l ps = map Z.of_nat as_.
Proof.
  induction ps as [|p ps IH]; intros [|a as_] E; cbn [map] in E; try discriminate; [split; constructor|].
  injection E as E1 E2. destruct (IH as_ E2) as [F M]. split; [constructor; assumption|].
  cbn [map]. unfold pot_l at 1. rewrite E1, M. reflexivity.
Qed.

Lemma fold_max_init_mc : forall l init, Forall (fun x => (x <= init)%Z) l -> fold_left Z.max l init = init.
Proof.
  induction l as [|x l IH]; intros init H; [reflexivity|]. inversion H; subst. cbn [fold_left].
  rewrite Z.max_l by assumption. apply IH. assumption.
Qed.

Lemma canon_max : forall pots, pots <> [] -> Forall ecp_pot_ok pots ->
  map p_am pots = mc_canon_ams (List.length pots - 1) -> ecp_max_am pots = inr (Lmax pots).
Proof.
  intros pots Hne Hok H. rewrite (max_am_ok pots Hne Hok). f_equal. unfold mc_canon_ams in H.
  destruct (ams_facts pots _ H) as [_ M]. rewrite M. unfold potential_am_list, Lmax. cbn [map].
  unfold zmax. cbn [hd fold_left]. rewrite Z.max_id. apply fold_max_init_mc.
  rewrite Forall_forall. intros x Hx. apply in_map_iff in Hx. destruct Hx as [a [<- Ha]]. apply in_seq in Ha. lia.
Qed.

(* ================================================================== *)
(* 2. the lines of the ECP part                                        *)
(* ================================================================== *)
Definition prow (t : Z * string * string) : string :=
  Z_to_string (fst (fst t)) +++ ("," +++ snd (fst t) +++ "," +++ snd t) +++ ";".
Definition pot_mid (mx : Z) (p : epot) : string :=
  if Z.eqb (pot_l p) mx then "; !  ul " else ";" +++ " !  " +++ amch_of (p_am p) +++ "-ul ".
Definition pot_head_mc (mx : Z) (p : epot) : string := nat_str (List.length (p_rexp p)) +++ pot_mid mx p +++ "potential".
Definition pot_lines_mc (mx : Z) (p : epot) : list string := pot_head_mc mx p :: map prow (ptrip p).
Definition pp_line (sym : string) (n mx : Z) : string :=
  "PP," +++ (" " +++ sym +++ ", " +++ Z_to_string n +++ ", " +++ Z_to_string mx +++ " ") +++ ";".
Definition ecp_lines_mc (sym : string) (e : Z * list epot) : list string :=
  pp_line sym (fst e) (Lmax (snd e)) :: flat_map (pot_lines_mc (Lmax (snd e))) (snd e).
Definition spec1 : string := "Spectral Representation Operator".
Definition spec2 : string := "End of Spectral Representation Operator".

Lemma pot_rows_ok : forall r g c, List.length g = List.length r -> List.length c = List.length r ->
  mc_pot_rows r g c = inr (map (fun t => prow t +++ nl1) (trip r g c)).
Proof.
  induction r as [|x r IH]; intros g c Hg Hc; [reflexivity|].
  destruct g as [|y g]; [discriminate|]. destruct c as [|z c]; [discriminate|]. cbn [List.length] in *.
  cbn [mc_pot_rows trip map]. rewrite (IH g c) by lia. unfold bind, ok, prow. cbn [fst snd]. rewrite !sapp_assoc. reflexivity.
Qed.

Lemma concat_unlines_map : forall (rows : list string), String.concat "" (map (fun r => r +++ nl1) rows) = unlines rows.
Proof. reflexivity. Qed.

Lemma write_pot_lines_mc : forall mx p, ecp_pot_ok p -> mc_write_pot mx p = inr (unlines (pot_lines_mc mx p)).
Proof.
  intros mx p Hp. destruct (pot_facts p Hp) as [_ [_ [Hg [Hc _]]]]. destruct (pot_am_facts p Hp) as [A1 [A2 _]].
  unfold mc_write_pot. rewrite A1, A2. unfold bind. fold (pcoef p). rewrite (pot_rows_ok _ _ _ Hg Hc).
  unfold ok, pot_lines_mc, pot_head_mc, pot_mid. fold (ptrip p). rewrite unlines_cons. unfold unlines. rewrite map_map.
  destruct (Z.eqb (pot_l p) mx); rewrite !sapp_assoc; reflexivity.
Qed.

Lemma write_ecp_lines_mc : forall sym e, snd e <> [] -> Forall ecp_pot_ok (snd e) ->
  map p_am (snd e) = mc_canon_ams (List.length (snd e) - 1) ->
  mc_write_ecp sym e = inr (unlines (ecp_lines_mc sym e)).
Proof.
  intros sym [n pots] Hne Hok Hc. cbn [fst snd] in *. unfold mc_write_ecp.
  rewrite (canon_max pots Hne Hok Hc). unfold bind. rewrite (mc_ecp_order_canon pots Hne Hc).
  rewrite (mapM_map_ok _ _ _ (fun p => unlines (pot_lines_mc (Lmax pots) p)) pots).
  - unfold ok, ecp_lines_mc, pp_line. cbn [fst snd]. rewrite unlines_cons, unlines_flat_map, !sapp_assoc. reflexivity.
  - intros p Hp. apply write_pot_lines_mc. rewrite Forall_forall in Hok. apply Hok, Hp.
Qed.

(* ---- the characters of these lines ---- *)
Lemma floating_good : forall s, floating s -> good_line s.
Proof.
  intros s H. unfold good_line. apply (sall_impl fchar nobd); [|apply floating_chars, H].
  intros c Hc. apply nobd_of_ascii; [apply fchar_not_space, Hc | apply fchar_ascii, Hc].
Qed.

Lemma prow_good : forall t, trip_ok t -> good_line (prow t).
Proof.
  intros [[r g] c] [Hg Hc]. cbn [fst snd] in *. unfold prow. cbn [fst snd].
  repeat apply good_app; try reflexivity; try (apply floating_good; assumption). apply Z_to_string_good.
Qed.

Lemma pot_lines_good_mc : forall mx p, ecp_pot_ok p -> Forall good_line (pot_lines_mc mx p).
Proof.
  intros mx p Hp. destruct (pot_facts p Hp) as [_ [_ [_ [_ [_ [_ [Ht _]]]]]]]. destruct (pot_ok_single p Hp) as [Hs Hl].
  unfold pot_lines_mc. constructor.
  - unfold pot_head_mc, pot_mid. apply good_app; [apply nat_str_nobd|]. apply good_app; [|reflexivity].
    destruct (Z.eqb (pot_l p) mx); [reflexivity|]. apply (good_app ";"); [reflexivity|]. apply (good_app " !  "); [reflexivity|].
    apply good_app; [|reflexivity]. rewrite Hs. destruct (am1_facts (pot_l p) Hl) as [c [Ec Hc]].
    unfold amch_of. rewrite Ec. apply letter_good. exists c. split; [reflexivity | exact Hc].
  - rewrite Forall_forall. intros l Hl'. apply in_map_iff in Hl'. destruct Hl' as [t [<- Hin]]. apply prow_good, Ht, Hin.
Qed.

(* ================================================================== *)
(* 3. the lines of an element (library form)                           *)
(* ================================================================== *)
Definition cs_any (compact : bool) (oshs : option (list sshell)) : string :=
  match oshs with Some shs => cs_gen compact shs | None => "" end.
Definition ecp_tag (z : Z) (oecp : option (Z * list epot)) : string :=
  match oecp with Some _ => "ECP." +++ Z_to_string (mc_nelectrons z oecp) +++ "el." | None => "" end.
Definition head_all (bs : string) (meta : Z -> string * string) (z : Z) (m : mel) : string :=
  "/" +++ symz z +++ "." +++ bs +++ "." +++ fst (meta z) +++ "." +++ cs_any true (fst m) +++ "." +++ ecp_tag z (snd m).
Definition name_all (z : Z) (m : mel) : string := gname z +++ " " +++ cs_any false (fst m).
Definition epart_lines (sord : list string -> list string) (z : Z) (m : mel) : list string :=
  match fst m with
  | Some shs => opt_lines (cart_of sord shs) ++ charge_line ".0   " (mc_nelectrons z (snd m)) shs :: flat_map (shl false) shs
  | None => []
  end.
Definition ppart_lines (z : Z) (m : mel) : list string :=
  match snd m with Some e => ecp_lines_mc (symz z) e ++ [spec1; spec2] | None => [] end.
Definition ell_all (sord : list string -> list string) (bs : string) (meta : Z -> string * string) (ze : Z * mel) : list string :=
  head_all bs meta (fst ze) (snd ze) :: snd (meta (fst ze)) :: name_all (fst ze) (snd ze) ::
  epart_lines sord (fst ze) (snd ze) ++ ppart_lines (fst ze) (snd ze) ++ [""].

Lemma cs_any_facts : forall compact oshs, match oshs with Some shs => Forall mc_shell_wf shs | None => True end ->
  contraction_string (option_map (map nw_cshell) oshs) compact = inr (cs_any compact oshs) /\ good_line (cs_any compact oshs).
Proof.
  intros compact [shs|] H; cbn [option_map cs_any]; [apply cs_gen_facts, H|]. split; reflexivity.
Qed.

Lemma el_ok_parts : forall meta ze, mc_el_all_ok meta ze ->
  (1 <= fst ze <= 118)%Z /\ mc_meta_ok (meta (fst ze)) /\
  match fst (snd ze) with Some shs => shs <> [] /\ Forall mc_shell_wf shs /\ gapless shs | None => True end /\
  match snd (snd ze) with
  | Some e => (0 <= fst e <= fst ze)%Z /\ snd e <> [] /\
              map p_am (snd e) = mc_canon_ams (List.length (snd e) - 1) /\ Forall ecp_pot_ok (snd e)
  | None => True
  end /\ (fst (snd ze) <> None \/ snd (snd ze) <> None).
Proof.
  intros meta [z [oshs oecp]] [H1 [H2 [H3 [H4 H5]]]]. cbn [fst snd] in *.
  split; [exact H1|]. split; [exact H2|]. split; [destruct oshs; exact H4|]. split; [destruct oecp; exact H5 | exact H3].
Qed.

Lemma write_element_all_lines : forall sord bs meta ze, mc_el_all_ok meta ze ->
  mcasl_write_element_all sord bs meta ze = inr (unlines (ell_all sord bs meta ze)).
Proof.
  intros sord bs meta ze H. destruct (el_ok_parts meta ze H) as [Hz [_ [Hs [He _]]]].
  destruct ze as [z [oshs oecp]]. cbn [fst snd] in *.
  destruct (name_facts z) as [En _]; [lia|]. destruct (sym_facts z Hz) as [Es _].
  assert (Hwf : match oshs with Some shs => Forall mc_shell_wf shs | None => True end) by (destruct oshs; [apply Hs | exact I]).
  destruct (cs_any_facts true oshs Hwf) as [Ec1 _]. destruct (cs_any_facts false oshs Hwf) as [Ec2 _].
  unfold mcasl_write_element_all. rewrite En. unfold bind at 1. rewrite Es. unfold bind at 1. rewrite Ec1. unfold bind at 1.
  rewrite Ec2. unfold bind at 1.
  assert (Eep : match oshs with
                | None => ok ""
                | Some shs =>
                  do cart <- mc_cartesian sord shs;
                  do mx <- mc_max_am shs;
                  do body <- mapM (mc_write_shell false) shs;
                  ok ((match cart with
                       | [] => ""
                       | _ => "Options" +++ nl1 +++ "Cartesian " +++ sjoin " " cart +++ nl1 +++ "EndOptions" +++ nl1
                       end) +++
                      rjust 7 (Z_to_string (mc_nelectrons z oecp)) +++ ".0   " +++ Z_to_string mx +++ nl1 +++ String.concat "" body)
                end = inr (unlines (epart_lines sord z (oshs, oecp)))).
  { unfold epart_lines. cbn [fst snd]. destruct oshs as [shs|]; [|reflexivity]. destruct Hs as [Hne [Hshs _]].
    destruct (cartesian_ok sord shs Hshs) as [Ecart _].
    rewrite Ecart. unfold bind. rewrite (max_am_ok_mc shs Hne Hshs), (body_lines false shs Hshs).
    unfold ok, charge_line. f_equal. rewrite unlines_app, unlines_cons, unlines_flat_map.
    destruct (cart_of sord shs) as [|c0 cs]; cbn [opt_lines]; rewrite ?unlines_cons; cbn [unlines map String.concat];
      rewrite ?sapp_assoc; reflexivity. }
  rewrite Eep. unfold bind at 1.
  assert (Epp : match oecp with
                | None => ok ""
                | Some e => do t <- mc_write_ecp (symz z) e; ok (t +++ spectral_library)
                end = inr (unlines (ppart_lines z (oshs, oecp)))).
  { unfold ppart_lines. cbn [fst snd]. destruct oecp as [e|]; [|reflexivity]. destruct He as [_ [Hne [Hc Hok]]].
    rewrite (write_ecp_lines_mc (symz z) e Hne Hok Hc). unfold bind, ok, spectral_library, spec1, spec2.
    rewrite unlines_app. f_equal. }
  rewrite Epp. unfold bind, ok. f_equal. unfold ell_all, head_all, name_all, gname, ecp_tag. cbn [fst snd].
  rewrite !unlines_cons, !unlines_app. cbn [unlines map String.concat]. rewrite !sapp_assoc. reflexivity.
Qed.

Definition all_lines_all sord bs meta (els : list (Z * mel)) : list string := flat_map (ell_all sord bs meta) els.

Lemma write_all_lines : forall sord bs meta els, Forall (mc_el_all_ok meta) els ->
  mcasl_write_all sord bs meta els = inr (unlines (all_lines_all sord bs meta els)).
Proof.
  intros sord bs meta els H. unfold mcasl_write_all.
  rewrite (mapM_map_ok _ _ _ (fun ze => unlines (ell_all sord bs meta ze)) els).
  - unfold bind, ok, all_lines_all. now rewrite unlines_flat_map.
  - intros ze Hin. apply write_element_all_lines. rewrite Forall_forall in H. apply H, Hin.
Qed.

Lemma mcasl_all_write_total : mcasl_all_write_total_stmt.
Proof. intros sord bs meta els H. eexists. apply write_all_lines, H. Qed.

(* ---- all lines are free of line boundaries ---- *)
Lemma ecp_lines_good : forall z e, (1 <= z <= 118)%Z -> Forall ecp_pot_ok (snd e) -> Forall good_line (ecp_lines_mc (symz z) e).
Proof.
  intros z e Hz Hok. unfold ecp_lines_mc. constructor.
  - unfold pp_line. repeat apply good_app; try reflexivity; try apply Z_to_string_good. apply symz_good, Hz.
  - apply flat_map_Forall. intros p Hp. apply pot_lines_good_mc. rewrite Forall_forall in Hok. apply Hok, Hp.
Qed.

Lemma ell_all_good : forall sord bs meta ze, sord_ok sord -> one_line bs -> mc_el_all_ok meta ze ->
  Forall good_line (ell_all sord bs meta ze).
Proof.
  intros sord bs meta ze Hsord Hbs H. destruct (el_ok_parts meta ze H) as [Hz [[Ha [Hr _]] [Hs [He _]]]].
  destruct ze as [z [oshs oecp]]. cbn [fst snd] in *.
  assert (Hwf : match oshs with Some shs => Forall mc_shell_wf shs | None => True end) by (destruct oshs; [apply Hs | exact I]).
  destruct (cs_any_facts true oshs Hwf) as [_ G1]. destruct (cs_any_facts false oshs Hwf) as [_ G2].
  unfold ell_all. cbn [fst snd]. constructor; [|constructor; [|constructor]].
  - unfold head_all. cbn [fst snd]. repeat apply good_app; try reflexivity; try assumption; try (apply one_line_good; assumption).
    + apply symz_good, Hz.
    + unfold ecp_tag. destruct oecp; [|reflexivity]. repeat apply good_app; try reflexivity. apply Z_to_string_good.
  - apply one_line_good, Hr.
  - unfold name_all. cbn [fst]. apply good_app; [apply gname_good, Hz | apply good_app; [reflexivity | exact G2]].
  - apply Forall_app. split; [|apply Forall_app; split; [|repeat constructor]].
    + unfold epart_lines. cbn [fst snd]. destruct oshs as [shs|]; [|constructor]. destruct Hs as [_ [Hshs _]].
      apply Forall_app. split.
      * pose proof (cart_good sord shs Hsord Hshs) as Gc. unfold opt_lines. destruct (cart_of sord shs); [constructor|].
        repeat constructor. apply (good_app "Cartesian "); [reflexivity | exact Gc].
      * constructor; [apply charge_line_good; reflexivity | apply flat_shl_good, Hshs].
    + unfold ppart_lines. cbn [snd]. destruct oecp as [e|]; [|constructor]. destruct He as [_ [_ [_ Hok]]].
      apply Forall_app. split; [apply ecp_lines_good; assumption | repeat constructor].
Qed.

Lemma all_lines_all_good : forall sord bs meta els, sord_ok sord -> one_line bs -> Forall (mc_el_all_ok meta) els ->
  Forall good_line (all_lines_all sord bs meta els).
Proof.
  intros sord bs meta els Hs Hb H. apply flat_map_Forall. intros ze Hin. rewrite Forall_forall in H.
  apply ell_all_good; [exact Hs | exact Hb | apply H, Hin].
Qed.

(* ================================================================== *)
(* 4. format 'molcas' (inline), whole file: never readable             *)
(* ================================================================== *)
Lemma inline_element_all_prefix : forall sord ze t0, mcas_write_element_all sord ze = inr t0 ->
  exists X, t0 = "Basis set" +++ String (byte 10) X.
Proof.
  intros sord [z [oshs oecp]] t0 H. unfold mcas_write_element_all in H.
  destruct (element_name_from_Z z false); [discriminate|]. unfold bind at 1 in H.
  destruct (element_sym_from_Z z true); [discriminate|]. unfold bind at 1 in H.
  destruct (contraction_string (option_map (map nw_cshell) oshs) false); [discriminate|]. unfold bind at 1 in H.
  match type of H with bind ?x _ = _ => destruct x; [discriminate|] end. unfold bind at 1 in H.
  match type of H with bind ?x _ = _ => destruct x; [discriminate|] end. unfold bind at 1 in H.
  match type of H with bind ?x _ = _ => destruct x; [discriminate|] end. unfold bind at 1 in H.
  unfold ok in H. inversion H. eexists. reflexivity.
Qed.

Lemma read_all_basis_set_line : forall L, mcas_read_all ("Basis set" :: L) = inl ERuntime.
Proof.
  intros L. unfold mcas_read_all. fold sk3. fold (pr3 ("Basis set" :: L)). rewrite pr3_cons.
  change (pr3 ["Basis set"]) with ["Basis set"]. cbn [app].
  unfold partition_lines. cbn [part_go]. change (str_prefix "/" "Basis set") with false. unfold ok at 1. unfold bind at 3. cbv iota.
  change ([] ++ ["Basis set"]) with ["Basis set"].
  destruct (part_go_head (fun x => ok (str_prefix "/" x)) (pr3 L) "Basis set" [] []) as [b [rest E]].
  { intros x. eexists. reflexivity. }
  rewrite E. cbn [app]. unfold bind.
  destruct (existsb (fun b0 : list string => Nat.ltb (List.length b0) 4) (("Basis set" :: b) :: rest)); reflexivity.
Qed.

Lemma mcas_all_never : mcas_all_never_stmt.
Proof.
  intros sord els t Hne E. unfold mcas_write_all in E. destruct els as [|ze els]; [congruence|].
  cbn [mapM] in E. destruct (mcas_write_element_all sord ze) as [e|t0] eqn:E0; [discriminate|]. unfold bind at 1 in E.
  destruct (mapM (mcas_write_element_all sord) els) as [e|ts]; [discriminate|].
  assert (Et : t = String.concat "" (t0 :: ts)) by (unfold bind, ok in E; congruence). subst t. clear E.
  destruct (inline_element_all_prefix sord ze t0 E0) as [X ->]. rewrite concat_cons, sapp_assoc.
  change (String (byte 10) X +++ String.concat "" ts) with (String (byte 10) (X +++ String.concat "" ts)).
  rewrite splitlines_first by reflexivity. apply read_all_basis_set_line.
Qed.

(* ================================================================== *)
(* 5. reading one potential                                            *)
(* ================================================================== *)
Definition nocomma (s : string) : Prop := sall (fun a => negb (Ascii.eqb a ",")) s = true.

Lemma split_on_word : forall w r, nocomma w -> split_on "," (w +++ String "," r) = w :: split_on "," r.
Proof.
  induction w as [|c w IH]; intros r H.
  - cbn [String.append split_on]. change (Ascii.eqb "," ",") with true. reflexivity.
  - unfold nocomma in H. cbn [sall] in H. apply andb_true_iff in H. destruct H as [Hc Hw]. apply negb_true_iff in Hc.
    cbn [String.append split_on]. rewrite Hc, (IH r Hw). reflexivity.
Qed.

Lemma split_on_last : forall w, nocomma w -> split_on "," w = [w].
Proof.
  induction w as [|c w IH]; intros H; [reflexivity|].
  unfold nocomma in H. cbn [sall] in H. apply andb_true_iff in H. destruct H as [Hc Hw]. apply negb_true_iff in Hc.
  cbn [split_on]. rewrite Hc, (IH Hw). reflexivity.
Qed.

Lemma fchar_nocomma : forall c, fchar c = true -> negb (Ascii.eqb c ",") = true /\ Ascii.eqb c ";" = false.
Proof. intros c H. all_chars c; try (split; reflexivity); discriminate H. Qed.
Lemma intc_nocomma : forall c, intc c = true -> negb (Ascii.eqb c ",") = true.
Proof. intros c H. all_chars c; try reflexivity; discriminate H. Qed.

Lemma floating_nocomma : forall s, is_floating s = true -> nocomma s.
Proof. intros s H. apply (sall_impl fchar); [intros c Hc; apply (fchar_nocomma c Hc) | apply floating_chars, H]. Qed.
Lemma int_nocomma : forall z, nocomma (Z_to_string z).
Proof. intros z. apply (sall_impl intc); [exact intc_nocomma | apply Z_to_string_intc]. Qed.

Lemma floating_tok : forall s, is_floating s = true -> tok_ok s.
Proof. intros s H. destruct (floating_is_cell s H) as [H1 [H2 _]]. split; assumption. Qed.

Lemma replace_d_int : forall z, replace_d (Z_to_string z) = Z_to_string z.
Proof. intros z. exact (norm_int z). Qed.

(* x.rstrip(';') of a printed row *)
Lemma lstrip_semi_head : forall s Y, s <> "" -> sall fchar s = true -> lstrip ";" (s +++ Y) = s +++ Y.
Proof.
  intros [|d r] Y Hne H; [congruence|]. cbn [sall] in H. apply andb_true_iff in H. destruct H as [Hd _].
  cbn [String.append lstrip]. now rewrite (proj2 (fchar_nocomma d Hd)).
Qed.

Definition rbody (t : Z * string * string) : string := Z_to_string (fst (fst t)) +++ ("," +++ snd (fst t) +++ ",") +++ snd t.

Lemma rstrip_prow : forall t, trip_ok t -> rstrip_semi (prow t) = rbody t.
Proof.
  intros [[r g] c] [Hg Hc]. cbn [fst snd] in *. unfold rstrip_semi, prow, rbody. cbn [fst snd].
  assert (E : Z_to_string r +++ ("," +++ g +++ "," +++ c) +++ ";" = (Z_to_string r +++ ("," +++ g +++ ",")) +++ c +++ ";").
  { rewrite !sapp_assoc. reflexivity. }
  rewrite E. set (X := Z_to_string r +++ ("," +++ g +++ ",")). rewrite (srev_app X), (srev_app c).
  change (srev ";") with ";". rewrite sapp_assoc. cbn [String.append lstrip]. change (Ascii.eqb ";" ";") with true. cbv iota.
  rewrite lstrip_semi_head.
  - rewrite <- srev_app, srev_involutive. unfold X. rewrite !sapp_assoc. reflexivity.
  - apply srev_ne. destruct (floating_tok c Hc) as [Hne _]. exact Hne.
  - rewrite sall_srev. apply floating_chars, Hc.
Qed.

Definition mline (l : string) : res (string * string * string) :=
  match comma_split (strip_ws (replace_d l)) with
  | [a; b; c] => ok (a, b, c)
  | _ => fail ERuntime
  end.

Lemma mline_rbody : forall t, trip_ok t -> mline (rbody t) = inr (readrow t).
Proof.
  intros [[r g] c] [Hg Hc]. cbn [fst snd] in *. unfold mline, rbody, readrow. cbn [fst snd].
  unfold replace_d at 1. rewrite !smap_app. fold (replace_d (Z_to_string r)). fold (replace_d g). fold (replace_d c).
  rewrite replace_d_int. change (smap (fun c0 => if Ascii.eqb c0 "D" then "E"%char else if Ascii.eqb c0 "d" then "e"%char else c0) ",") with ",".
  change (replace_d g) with (norm false g). change (replace_d c) with (norm false c).
  assert (Fg : is_floating (norm false g) = true) by (now rewrite is_floating_norm).
  assert (Fc : is_floating (norm false c) = true) by (now rewrite is_floating_norm).
  rewrite (strip_words _ _ _ (int_tok r) (floating_tok _ Fc)).
  unfold comma_split.
  assert (E : Z_to_string r +++ ("," +++ norm false g +++ ",") +++ norm false c =
              Z_to_string r +++ String "," (norm false g +++ String "," (norm false c))).
  { rewrite !sapp_assoc. reflexivity. }
  rewrite E, (split_on_word _ _ (int_nocomma r)), (split_on_word _ _ (floating_nocomma _ Fg)), (split_on_last _ (floating_nocomma _ Fc)).
  cbn [map]. rewrite (strip_tok _ (int_tok r)), (strip_tok _ (floating_tok _ Fg)), (strip_tok _ (floating_tok _ Fc)). reflexivity.
Qed.

Lemma mc_parse_ecp_table_unfold : forall lines,
  mc_parse_ecp_table lines =
  (do rows <- mapM mline lines;
   let r := map (fun x => fst (fst x)) rows in
   let g := map (fun x => snd (fst x)) rows in
   let c := map snd rows in
   if negb (forallb is_integer r) then fail ERuntime else
   if negb (forallb is_floating g) then fail ERuntime else
   if negb (forallb is_floating c) then fail ERuntime else
   ok (map to_int r, g, [c])).
Proof. reflexivity. Qed.

Lemma mc_table_read : forall r g c, List.length g = List.length r -> List.length c = List.length r ->
  Forall floating g -> Forall floating c ->
  mc_parse_ecp_table (map rstrip_semi (map prow (trip r g c))) = inr (r, map (norm false) g, [map (norm false) c]).
Proof.
  intros r g c Hg Hc Fg Fc. unfold floating in *.
  assert (Hts : forall t, In t (trip r g c) -> trip_ok t).
  { intros [[x y] z] Hin. destruct (trip_in _ _ _ _ _ _ Hin) as [_ [Hy Hz]]. rewrite Forall_forall in Fg, Fc.
    split; cbn [fst snd]; [apply Fg, Hy | apply Fc, Hz]. }
  rewrite mc_parse_ecp_table_unfold. rewrite (map_map prow rstrip_semi).
  rewrite (mapM_map_ext _ _ _ mline (fun t => rstrip_semi (prow t)) (fun t => mline (rstrip_semi (prow t)))) by reflexivity.
  rewrite (mapM_map_ok _ _ _ readrow (trip r g c)).
  2:{ intros t Hin. rewrite (rstrip_prow t (Hts t Hin)). apply mline_rbody, Hts, Hin. }
  unfold bind. cbv zeta. destruct (trip_proj r g c Hg Hc) as [P1 [P2 P3]].
  assert (E1 : map (fun x => fst (fst x)) (map readrow (trip r g c)) = map Z_to_string r).
  { transitivity (map Z_to_string (map (fun t => fst (fst t)) (trip r g c))); [|now rewrite P1].
    rewrite !map_map. apply map_ext. intros [[x y] z]. reflexivity. }
  assert (E2 : map (fun x => snd (fst x)) (map readrow (trip r g c)) = map (norm false) g).
  { transitivity (map (norm false) (map (fun t => snd (fst t)) (trip r g c))); [|now rewrite P2].
    rewrite !map_map. apply map_ext. intros [[x y] z]. reflexivity. }
  assert (E3 : map snd (map readrow (trip r g c)) = map (norm false) c).
  { transitivity (map (norm false) (map snd (trip r g c))); [|now rewrite P3].
    rewrite !map_map. apply map_ext. intros [[x y] z]. reflexivity. }
  rewrite E1, E2, E3.
  rewrite (forallb_true _ is_integer (map Z_to_string r)).
  2:{ intros s Hs. apply in_map_iff in Hs. destruct Hs as [z [<- _]]. apply Z_to_string_int. }
  rewrite (forallb_true _ is_floating (map (norm false) g)).
  2:{ intros s Hs. apply in_map_iff in Hs. destruct Hs as [y [<- Hy]]. rewrite is_floating_norm.
      rewrite Forall_forall in Fg. apply Fg, Hy. }
  rewrite (forallb_true _ is_floating (map (norm false) c)).
  2:{ intros s Hs. apply in_map_iff in Hs. destruct Hs as [y [<- Hy]]. rewrite is_floating_norm.
      rewrite Forall_forall in Fc. apply Fc, Hy. }
  cbn [negb]. rewrite map_map. rewrite (map_ext _ (fun z => z) (fun z => proj2 (Z_to_string_int z))), map_id. reflexivity.
Qed.

(* the head line of a potential *)
Lemma span_digit_stop : forall d c r, sall is_digit d = true -> is_digit c = false -> span_digit (d +++ String c r) = (d, String c r).
Proof.
  induction d as [|x d IH]; intros c r Hd Hc.
  - cbn [String.append span_digit]. now rewrite Hc.
  - cbn [sall] in Hd. apply andb_true_iff in Hd. destruct Hd as [Hx Hd]. cbn [String.append span_digit]. now rewrite Hx, (IH c r Hd Hc).
Qed.

Lemma pot_mid_head : forall mx p, exists Y, pot_mid mx p = String ";" Y.
Proof. intros mx p. unfold pot_mid. destruct (Z.eqb (pot_l p) mx); eexists; reflexivity. Qed.

Lemma pot_head_begin : forall mx p, match_pot_begin (pot_head_mc mx p) = Some (nat_str (List.length (p_rexp p))).
Proof.
  intros mx p. unfold match_pot_begin, pot_head_mc. destruct (pot_mid_head mx p) as [Y ->]. cbn [String.append].
  rewrite (span_digit_stop _ ";" _ (nat_str_digits _) eq_refl). pose proof (nat_str_ne (List.length (p_rexp p))) as Hne.
  destruct (nat_str (List.length (p_rexp p))); [congruence | reflexivity].
Qed.

Lemma prow_not_begin : forall t, match_pot_begin (prow t) = None.
Proof.
  intros [[r g] c]. unfold match_pot_begin, prow. cbn [fst snd]. cbn [String.append].
  change (Z_to_string r +++ String "," (g +++ "," +++ c) +++ ";") with (Z_to_string r +++ String "," ((g +++ "," +++ c) +++ ";")).
  destruct r as [|q|q]; cbn [Z_to_string].
  - reflexivity.
  - rewrite (span_digit_stop _ "," _ (N_to_string_digits _) eq_refl). destruct (N_to_string (N.pos q)); reflexivity.
  - reflexivity.
Qed.

Lemma parse_pot_mc : forall a mx p, ecp_pot_ok p -> p_am p = [Z.of_nat a] ->
  mc_parse_pot a (pot_lines_mc mx p) = inr (ecp_expected_pot p).
Proof.
  intros a mx p Hp Ha. destruct (pot_facts p Hp) as [_ [Ec [Hg [Hc [Fg [Fc _]]]]]].
  unfold mc_parse_pot, pot_lines_mc. rewrite pot_head_begin, nat_str_val, !map_length.
  unfold ptrip. rewrite (trip_length _ _ _ Hg Hc), Z.eqb_refl. cbn [negb].
  rewrite (mc_table_read _ _ _ Hg Hc Fg Fc). unfold bind, ok, ecp_expected_pot. rewrite Ha, Ec. reflexivity.
Qed.

Lemma parse_pots_mc : forall mx ams pots, Forall ecp_pot_ok pots ->
  Forall2 (fun a p => p_am p = [Z.of_nat a]) ams pots ->
  mc_parse_pots ams (map (pot_lines_mc mx) pots) = inr (map ecp_expected_pot pots).
Proof.
  intros mx ams pots Hok F; induction F as [|a p ams' pots' Ha F' IH]; [reflexivity|].
  inversion Hok as [|? ? Hp Hps]; subst. cbn [map mc_parse_pots]. rewrite (parse_pot_mc a mx p Hp Ha). unfold bind.
  rewrite (IH Hps). reflexivity.
Qed.

(* ================================================================== *)
(* 6. the PP line and the ECP block                                    *)
(* ================================================================== *)
Lemma span_alpha_stop : forall a c r, sall is_alpha a = true -> is_alpha c = false -> span_alpha (a +++ String c r) = (a, String c r).
Proof.
  induction a as [|x a IH]; intros c r Ha Hc.
  - cbn [String.append span_alpha]. now rewrite Hc.
  - cbn [sall] in Ha. apply andb_true_iff in Ha. destruct Ha as [Hx Ha]. cbn [String.append span_alpha]. now rewrite Hx, (IH c r Ha Hc).
Qed.

Lemma lstrip_nonspace : forall c r, is_space c = false -> lstrip_ws (String c r) = String c r.
Proof. intros c r H. cbn [lstrip_ws]. now rewrite H. Qed.

Lemma eat_comma_ok : forall c r, is_space c = false -> eat_comma (String "," (String " " (String c r))) = Some (String c r).
Proof.
  intros c r H. unfold eat_comma.
  assert (E1 : lstrip_ws (String "," (String " " (String c r))) = String "," (String " " (String c r))) by reflexivity.
  rewrite E1. cbv beta iota.
  assert (E2 : lstrip_ws (String " " (String c r)) = String c r).
  { change (lstrip_ws (String " " (String c r))) with (lstrip_ws (String c r)). apply lstrip_nonspace, H. }
  now rewrite E2.
Qed.
Lemma span_alpha_stop_c : forall c0 r0 c r, sall is_alpha (String c0 r0) = true -> is_alpha c = false ->
  span_alpha (String c0 (r0 +++ String c r)) = (String c0 r0, String c r).
Proof. intros c0 r0 c r H H0. exact (span_alpha_stop (String c0 r0) c r H H0). Qed.
Lemma span_digit_stop_c : forall c0 r0 c r, sall is_digit (String c0 r0) = true -> is_digit c = false ->
  span_digit (String c0 (r0 +++ String c r)) = (String c0 r0, String c r).
Proof. intros c0 r0 c r H H0. exact (span_digit_stop (String c0 r0) c r H H0). Qed.

Lemma pp_match_gen : forall sym ns ms, sym <> "" -> sall is_alpha sym = true -> decimal ns -> decimal ms ->
  match_ecp_info ("PP," +++ " " +++ sym +++ ", " +++ ns +++ ", " +++ ms +++ " " +++ ";") = Some (sym, ns, ms).
Proof.
  intros sym ns ms Hne Ha [Hn1 Hn2] [Hm1 Hm2].
  destruct sym as [|c0 r0]; [congruence|]. destruct ns as [|c1 r1]; [congruence|]. destruct ms as [|c2 r2]; [congruence|].
  assert (Hc0 : is_alpha c0 = true) by (cbn [sall] in Ha; apply andb_true_iff in Ha; apply Ha).
  assert (Hc1 : is_digit c1 = true) by (cbn [sall] in Hn2; apply andb_true_iff in Hn2; apply Hn2).
  assert (Hc2 : is_digit c2 = true) by (cbn [sall] in Hm2; apply andb_true_iff in Hm2; apply Hm2).
  unfold match_ecp_info. cbn [String.append]. change (is_P "P") with true. cbn [andb].
  rewrite (eat_comma_ok c0 _ (alpha_not_space c0 Hc0)).
  rewrite (span_alpha_stop_c c0 r0 "," _ Ha eq_refl).
  rewrite (eat_comma_ok c1 _ (digit_not_space c1 Hc1)).
  rewrite (span_digit_stop_c c1 r1 "," _ Hn2 eq_refl).
  rewrite (eat_comma_ok c2 _ (digit_not_space c2 Hc2)).
  rewrite (span_digit_stop_c c2 r2 " " _ Hm2 eq_refl).
  reflexivity.
Qed.

Lemma pp_line_match : forall sym n mx, sym <> "" -> sall is_alpha sym = true -> (0 <= n)%Z -> (0 <= mx)%Z ->
  match_ecp_info (pp_line sym n mx) = Some (sym, Z_to_string n, Z_to_string mx).
Proof.
  intros sym n mx Hne Ha Hn Hm. destruct (nonneg_string n Hn) as [Dn _]. destruct (nonneg_string mx Hm) as [Dm _].
  unfold pp_line. rewrite !sapp_assoc. apply pp_match_gen; assumption.
Qed.

Lemma break_at_app : forall p E x R, Forall (fun l => p l = false) E -> p x = true -> break_at p (E ++ x :: R) = (E, x :: R).
Proof.
  intros p; induction E as [|l E IH]; intros x R H Hx.
  - cbn [app break_at]. now rewrite Hx.
  - inversion H as [|? ? Hl HE]; subst. cbn [app break_at]. now rewrite Hl, (IH x R HE Hx).
Qed.

Lemma numc_not_s : forall c, numc c = true -> Ascii.eqb "s" (lower_char c) = false.
Proof. intros c H. all_chars c; try reflexivity; discriminate H. Qed.
Lemma num_head_not_spectral : forall l, num_head l -> is_spectral l = false.
Proof. intros l [c [r [-> Hc]]]. unfold is_spectral, lower. cbn [smap str_prefix]. now rewrite (numc_not_s c Hc). Qed.

Lemma int_numc : forall z, exists c r, Z_to_string z = String c r /\ numc c = true.
Proof.
  intros z. destruct (int_first z) as [c [t [E Hc]]]. exists c, t. split; [exact E|].
  unfold intc in Hc. unfold numc. apply orb_true_iff in Hc. destruct Hc as [Hc|Hc]; rewrite Hc; [reflexivity | apply orb_true_r].
Qed.

Lemma prow_num : forall t, num_head (prow t).
Proof.
  intros [[r g] c]. unfold prow. cbn [fst snd]. destruct (int_numc r) as [c0 [r0 [E Hc]]]. rewrite E.
  exists c0. eexists. split; [reflexivity | exact Hc].
Qed.

Lemma pot_head_num : forall mx p, num_head (pot_head_mc mx p).
Proof.
  intros mx p. unfold pot_head_mc. destruct (decimal_head (nat_str (List.length (p_rexp p)))) as [c [r [E Hc]]];
    [split; [apply nat_str_ne | apply nat_str_digits]|].
  rewrite E. exists c. eexists. split; [reflexivity | apply digit_numc, Hc].
Qed.

Lemma prow_strip : forall t, trip_ok t -> strip_ws (prow t) = prow t.
Proof.
  intros [[r g] c] _. unfold prow. cbn [fst snd]. apply strip_words; [apply int_tok|]. split; [discriminate | reflexivity].
Qed.

Lemma pot_head_strip : forall mx p, strip_ws (pot_head_mc mx p) = pot_head_mc mx p.
Proof. intros mx p. unfold pot_head_mc. apply strip_words; [apply nat_str_tok|]. split; [discriminate | reflexivity]. Qed.

Lemma pp_line_strip : forall sym n mx, strip_ws (pp_line sym n mx) = pp_line sym n mx.
Proof. intros sym n mx. unfold pp_line. apply strip_words; split; try discriminate; reflexivity. Qed.

(* the lines of the potentials of an element: stripped already, numbers at the head *)
Lemma pot_lines_facts : forall mx p l, ecp_pot_ok p -> In l (pot_lines_mc mx p) -> num_head l /\ strip_ws l = l.
Proof.
  intros mx p l Hp Hl. destruct (pot_facts p Hp) as [_ [_ [_ [_ [_ [_ [Ht _]]]]]]]. unfold pot_lines_mc in Hl. destruct Hl as [<-|Hl].
  - split; [apply pot_head_num | apply pot_head_strip].
  - apply in_map_iff in Hl. destruct Hl as [t [<- Hin]]. split; [apply prow_num | apply prow_strip, Ht, Hin].
Qed.

Lemma pot_block_shape : forall mx p, ecp_pot_ok p ->
  block_shape (fun x => ok (match match_pot_begin x with Some _ => true | None => false end)) (pot_lines_mc mx p) /\
  2 <= List.length (pot_lines_mc mx p).
Proof.
  intros mx p Hp. destruct (pot_facts p Hp) as [_ [_ [Hg [Hc [_ [_ [_ Hne]]]]]]]. split.
  - exists (pot_head_mc mx p), (map prow (ptrip p)). split; [reflexivity|]. split; [now rewrite pot_head_begin|].
    rewrite Forall_forall. intros l Hl. apply in_map_iff in Hl. destruct Hl as [t [<- _]]. now rewrite prow_not_begin.
  - unfold pot_lines_mc. cbn [List.length]. rewrite map_length. destruct (ptrip p); [congruence | cbn; lia].
Qed.

Lemma partition_pots : forall mx pots, Forall ecp_pot_ok pots ->
  partition_lines (flat_map (pot_lines_mc mx) pots)
                  (fun x => ok (match match_pot_begin x with Some _ => true | None => false end)) true 2 0 0 =
  inr (map (pot_lines_mc mx) pots).
Proof.
  intros mx pots H. rewrite flat_map_concat_map. unfold partition_lines.
  rewrite (part_blocks _ (map (pot_lines_mc mx) pots) [] []).
  - cbn [flush app]. unfold bind. rewrite existsb_false; [reflexivity|].
    intros b Hb. apply in_map_iff in Hb. destruct Hb as [p [<- Hp]]. apply Nat.ltb_ge. rewrite Forall_forall in H.
    apply (pot_block_shape mx p (H p Hp)).
  - rewrite Forall_forall in *. intros b Hb. apply in_map_iff in Hb. destruct Hb as [p [<- Hp]]. apply (pot_block_shape mx p (H p Hp)).
Qed.

Definition ecp_ok_z (z : Z) (e : Z * list epot) : Prop :=
  (0 <= fst e <= z)%Z /\ snd e <> [] /\
  map p_am (snd e) = mc_canon_ams (List.length (snd e) - 1) /\ Forall ecp_pot_ok (snd e).

Lemma ecp_block_not_spectral : forall z e, Forall ecp_pot_ok (snd e) ->
  Forall (fun l => is_spectral l = false) (ecp_lines_mc (symz z) e).
Proof.
  intros z e Hok. unfold ecp_lines_mc. constructor; [reflexivity|]. apply flat_map_Forall. intros p Hp.
  rewrite Forall_forall in *. intros l Hl. apply num_head_not_spectral. apply (pot_lines_facts _ p l (Hok p Hp) Hl).
Qed.

Lemma Lmax_val : forall pots, pots <> [] -> Z.to_nat (digits_val (Z_to_string (Lmax pots)) 0) = List.length pots - 1.
Proof.
  intros pots Hne. unfold Lmax. destruct (nonneg_string (Z.of_nat (List.length pots - 1))) as [_ Hv]; [lia|]. rewrite Hv. lia.
Qed.

Lemma parse_ecp_block_mc : forall z e d oshs onel, (1 <= z <= 118)%Z -> ecp_ok_z z e ->
  cur_el z d = (oshs, onel, None) -> (onel = None \/ onel = Some (fst e)) ->
  mc_ecp_all z (ecp_lines_mc (symz z) e ++ [spec1; spec2]) d =
  inr (set_el z (oshs, Some (fst e), Some (map ecp_expected_pot (snd e))) d).
Proof.
  intros z [n pots] d oshs onel Hz [Hn [Hne [Hc Hok]]] Hcur Hon. cbn [fst snd] in *.
  destruct (sym_facts z Hz) as [_ [Hsne [Hsa Hback]]].
  unfold mc_ecp_all, remove_block.
  rewrite (break_at_app is_spectral _ spec1 [spec2] (ecp_block_not_spectral z (n, pots) Hok) eq_refl).
  change (break_at is_end_spectral [spec2]) with (@nil string, [spec2]). unfold bind at 1. cbn [snd]. rewrite app_nil_r.
  unfold ecp_lines_mc. cbn [fst snd]. unfold ok at 1. cbv beta iota. cbn [snd].
  rewrite (pp_line_match (symz z) n (Lmax pots) Hsne Hsa) by (unfold Lmax; lia). rewrite Hback. unfold bind at 1.
  rewrite Z.eqb_refl. cbn [negb]. rewrite Hcur.
  destruct (nonneg_string n) as [_ Hv]; [lia|]. rewrite Hv.
  assert (Echk : match onel with Some n0 => negb (Z.eqb n0 n) | None => false end = false).
  { destruct Hon as [->| ->]; [reflexivity|]. now rewrite Z.eqb_refl. }
  rewrite Echk. rewrite (partition_pots (Lmax pots) pots Hok). unfold bind at 1.
  rewrite map_length, (Lmax_val pots Hne).
  assert (El : Nat.eqb (List.length pots) (S (List.length pots - 1)) = true)
    by (apply Nat.eqb_eq; destruct pots; [congruence | cbn; lia]).
  rewrite El. cbn [negb].
  destruct (ams_facts pots _ Hc) as [F2 _].
  rewrite (parse_pots_mc (Lmax pots) _ pots Hok F2). reflexivity.
Qed.

(* ================================================================== *)
(* 7. prune_lines on the lines of an element                           *)
(* ================================================================== *)
Definition inner_q (sord : list string -> list string) (q : Z) (shs : list sshell) : list string :=
  sopt (cart_of sord shs) ++ scharge q shs :: flat_map pshl shs.
Definition inner_all (sord : list string -> list string) (z : Z) (m : mel) : list string :=
  match fst m with Some shs => inner_q sord (mc_nelectrons z (snd m)) shs | None => [] end.
Definition pel_all (sord : list string -> list string) (bs : string) (meta : Z -> string * string) (ze : Z * mel) : list string :=
  head_all bs meta (fst ze) (snd ze) :: strip_ws (snd (meta (fst ze))) :: strip_ws (name_all (fst ze) (snd ze)) ::
  inner_all sord (fst ze) (snd ze) ++ ppart_lines (fst ze) (snd ze).

Lemma head_all_strip : forall bs meta z m, strip_ws (head_all bs meta z m) = head_all bs meta z m.
Proof.
  intros bs meta z [oshs oecp]. unfold head_all, ecp_tag. cbn [fst snd].
  destruct oecp as [e|].
  - assert (E : "/" +++ symz z +++ "." +++ bs +++ "." +++ fst (meta z) +++ "." +++ cs_any true oshs +++ "." +++
                "ECP." +++ Z_to_string (mc_nelectrons z (Some e)) +++ "el." =
                String "/" ((symz z +++ "." +++ bs +++ "." +++ fst (meta z) +++ "." +++ cs_any true oshs +++ "." +++
                "ECP." +++ Z_to_string (mc_nelectrons z (Some e)) +++ "el") +++ String "." "")).
    { rewrite !sapp_assoc. reflexivity. }
    rewrite E. apply strip_ends; reflexivity.
  - assert (E : "/" +++ symz z +++ "." +++ bs +++ "." +++ fst (meta z) +++ "." +++ cs_any true oshs +++ "." +++ "" =
                String "/" ((symz z +++ "." +++ bs +++ "." +++ fst (meta z) +++ "." +++ cs_any true oshs) +++ String "." "")).
    { rewrite !sapp_assoc. reflexivity. }
    rewrite E. apply strip_ends; reflexivity.
Qed.

Lemma name_all_strip : forall z m, (1 <= z <= 118)%Z -> exists c Z, strip_ws (name_all z m) = String c Z /\ is_alpha c = true.
Proof.
  intros z m Hz. destruct (name_facts z) as [_ [Hne [Ha _]]]; [lia|]. destruct (alpha_head _ Hne Ha) as [c [r [E Hc]]].
  unfold name_all. rewrite E. cbn [String.append].
  destruct (strip_ws_head c (r +++ " " +++ cs_any false (fst m)) (alpha_not_space c Hc)) as [Z EZ]. exists c, Z. split; assumption.
Qed.

Lemma pr3_epart : forall sord z m, (0 <= mc_nelectrons z (snd m))%Z ->
  match fst m with Some shs => Forall mc_shell_wf shs | None => True end ->
  pr3 (epart_lines sord z m) = inner_all sord z m.
Proof.
  intros sord z [oshs oecp] Hq Hwf. unfold epart_lines, inner_all, inner_q. cbn [fst snd] in *. destruct oshs as [shs|]; [|reflexivity].
  change (opt_lines (cart_of sord shs) ++ charge_line ".0   " (mc_nelectrons z oecp) shs :: flat_map (shl false) shs)
    with (opt_lines (cart_of sord shs) ++ [charge_line ".0   " (mc_nelectrons z oecp) shs] ++ flat_map (shl false) shs).
  rewrite !pr3_app, (pr3_keepable _ (opt_keepable _)), (pr3_keepable [charge_line ".0   " (mc_nelectrons z oecp) shs]).
  - rewrite pr3_flat_map. cbn [map app]. rewrite charge_line_strip by (assumption || apply mx_of_nonneg, Hwf).
    unfold sopt. do 2 f_equal. apply flat_map_ext_in. intros s Hs. apply pr3_shl. rewrite Forall_forall in Hwf. apply Hwf, Hs.
  - constructor; [|constructor]. unfold keepable. rewrite charge_line_strip by (assumption || apply mx_of_nonneg, Hwf).
    apply num_head_keep, scharge_num. exact Hq.
Qed.

(* the lines of the ECP part: kinds *)
Definition ecp_line (l : string) : Prop :=
  (exists sym n mx, l = pp_line sym n mx) \/ (num_head l /\ strip_ws l = l) \/ l = spec1 \/ l = spec2.

Lemma ppart_kinds : forall z m, match snd m with Some e => Forall ecp_pot_ok (snd e) | None => True end ->
  Forall ecp_line (ppart_lines z m).
Proof.
  intros z [oshs oecp] H. unfold ppart_lines. cbn [snd] in *. destruct oecp as [e|]; [|constructor].
  apply Forall_app. split.
  - unfold ecp_lines_mc. constructor; [left; do 3 eexists; reflexivity|].
    apply flat_map_Forall. intros p Hp. rewrite Forall_forall in *. intros l Hl. right. left. apply (pot_lines_facts _ p l (H p Hp) Hl).
  - constructor; [right; right; now left|]. constructor; [right; right; now right | constructor].
Qed.

Lemma ecp_line_facts : forall l, ecp_line l ->
  strip_ws l = l /\ head_not_in sk3 l /\ str_prefix "/" l = false.
Proof.
  intros l [[sym [n [mx ->]]]|[[Hn Hs]|[->| ->]]].
  - split; [apply pp_line_strip|]. split; [unfold pp_line; exists "P"%char; eexists; split; reflexivity | reflexivity].
  - split; [exact Hs|]. split; [apply num_head_keep, Hn | apply (num_head_facts l Hn)].
  - split; [reflexivity|]. split; [exists "S"%char; eexists; split; reflexivity | reflexivity].
  - split; [reflexivity|]. split; [exists "E"%char; eexists; split; reflexivity | reflexivity].
Qed.

Lemma pr3_ppart : forall z m, match snd m with Some e => Forall ecp_pot_ok (snd e) | None => True end ->
  pr3 (ppart_lines z m) = ppart_lines z m.
Proof.
  intros z m H. pose proof (ppart_kinds z m H) as K. rewrite pr3_keepable.
  - apply map_id_in. rewrite Forall_forall in *. intros l Hl. apply (ecp_line_facts l (K l Hl)).
  - rewrite Forall_forall in *. intros l Hl. unfold keepable. destruct (ecp_line_facts l (K l Hl)) as [-> [Hh _]]. exact Hh.
Qed.

Lemma nelectrons_nonneg : forall z oecp, (0 <= z)%Z -> match oecp with Some e => (0 <= fst e <= z)%Z | None => True end ->
  (0 <= mc_nelectrons z oecp)%Z.
Proof. intros z [[n pots]|] Hz H; cbn [mc_nelectrons fst] in *; lia. Qed.

Lemma el_nonneg : forall meta ze, mc_el_all_ok meta ze -> (0 <= mc_nelectrons (fst ze) (snd (snd ze)))%Z.
Proof.
  intros meta ze H. destruct (el_ok_parts meta ze H) as [Hz [_ [_ [He _]]]]. apply nelectrons_nonneg; [lia|].
  destruct (snd (snd ze)); [apply He | exact I].
Qed.

Lemma el_wf_shells : forall meta ze, mc_el_all_ok meta ze ->
  match fst (snd ze) with Some shs => Forall mc_shell_wf shs | None => True end.
Proof. intros meta ze H. destruct (el_ok_parts meta ze H) as [_ [_ [Hs _]]]. destruct (fst (snd ze)); [apply Hs | exact I]. Qed.

Lemma el_pots_ok : forall meta ze, mc_el_all_ok meta ze ->
  match snd (snd ze) with Some e => Forall ecp_pot_ok (snd e) | None => True end.
Proof. intros meta ze H. destruct (el_ok_parts meta ze H) as [_ [_ [_ [He _]]]]. destruct (snd (snd ze)); [apply He | exact I]. Qed.

Lemma pr3_ell_all : forall sord bs meta ze, mc_el_all_ok meta ze -> pr3 (ell_all sord bs meta ze) = pel_all sord bs meta ze.
Proof.
  intros sord bs meta ze H. destruct (el_ok_parts meta ze H) as [Hz [[_ [_ [Hr1 Hr2]]] _]].
  unfold ell_all, pel_all.
  change (head_all bs meta (fst ze) (snd ze) :: snd (meta (fst ze)) :: name_all (fst ze) (snd ze) ::
          epart_lines sord (fst ze) (snd ze) ++ ppart_lines (fst ze) (snd ze) ++ [""])
    with ([head_all bs meta (fst ze) (snd ze); snd (meta (fst ze)); name_all (fst ze) (snd ze)] ++
          epart_lines sord (fst ze) (snd ze) ++ ppart_lines (fst ze) (snd ze) ++ [""]).
  rewrite !pr3_app. change (pr3 [""]) with (@nil string). rewrite app_nil_r.
  rewrite (pr3_epart sord (fst ze) (snd ze) (el_nonneg meta ze H) (el_wf_shells meta ze H)).
  rewrite (pr3_ppart (fst ze) (snd ze) (el_pots_ok meta ze H)).
  rewrite pr3_keepable.
  - cbn [map app]. now rewrite head_all_strip.
  - constructor; [|constructor; [|constructor; [|constructor]]].
    + unfold keepable. rewrite head_all_strip. unfold head_all. exists "/"%char. eexists. split; reflexivity.
    + apply (first_in_facts _ Hr1 Hr2).
    + destruct (name_all_strip (fst ze) (snd ze) Hz) as [c [Z [E Hc]]]. unfold keepable. rewrite E. exists c, Z.
      split; [reflexivity | apply alpha_not_sk3, Hc].
Qed.

Lemma pruned_lines_all : forall sord bs meta els, Forall (mc_el_all_ok meta) els ->
  pr3 (all_lines_all sord bs meta els) = concat (map (pel_all sord bs meta) els).
Proof.
  intros sord bs meta els H. unfold all_lines_all. rewrite pr3_flat_map, <- flat_map_concat_map.
  apply flat_map_ext_in. intros ze Hin. rewrite Forall_forall in H. apply pr3_ell_all, H, Hin.
Qed.

(* ================================================================== *)
(* 8. the partition into element blocks                                *)
(* ================================================================== *)
Lemma inner_q_lines : forall sord q shs, (0 <= q)%Z -> Forall mc_shell_wf shs -> Forall inner_line (inner_q sord q shs).
Proof.
  intros sord q shs Hq Hshs. unfold inner_q. apply Forall_app. split.
  - destruct (sopt_form (cart_of sord shs)) as [->|[Z ->]]; [constructor|].
    constructor; [right; now left|]. constructor; [right; right; right; now exists Z|]. constructor; [right; right; now left | constructor].
  - constructor; [left; apply scharge_num; exact Hq|].
    pose proof (flat_pshl_num shs Hshs) as H. rewrite Forall_forall in *. intros l Hl. left. apply H, Hl.
Qed.

Lemma inner_all_lines : forall sord meta ze, mc_el_all_ok meta ze -> Forall inner_line (inner_all sord (fst ze) (snd ze)).
Proof.
  intros sord meta ze H. pose proof (el_nonneg meta ze H) as Hq. pose proof (el_wf_shells meta ze H) as Hwf.
  unfold inner_all. destruct (fst (snd ze)) as [shs|]; [apply inner_q_lines; assumption | constructor].
Qed.

Lemma pel_all_shape : forall sord bs meta ze, mc_el_all_ok meta ze ->
  block_shape slash_cond (pel_all sord bs meta ze) /\ 4 <= List.length (pel_all sord bs meta ze).
Proof.
  intros sord bs meta ze H. destruct (el_ok_parts meta ze H) as [Hz [[_ [_ [Hr1 Hr2]]] [Hs [He Hsome]]]].
  pose proof (inner_all_lines sord meta ze H) as Hin. pose proof (ppart_kinds (fst ze) (snd ze) (el_pots_ok meta ze H)) as Hpp.
  unfold pel_all. split.
  - eexists. eexists. split; [reflexivity|]. split; [reflexivity|].
    constructor; [unfold slash_cond; now rewrite (proj2 (first_in_facts _ Hr1 Hr2))|].
    constructor.
    { destruct (name_all_strip (fst ze) (snd ze) Hz) as [c [Z [E Hc]]]. rewrite E. unfold slash_cond. cbn [str_prefix].
      assert (Ec : Ascii.eqb "/" c = false) by (all_chars c; try reflexivity; discriminate Hc). now rewrite Ec. }
    apply Forall_app. split; rewrite Forall_forall in *; intros l Hl; unfold slash_cond.
    + now rewrite (proj1 (inner_line_facts l (Hin l Hl))).
    + destruct (ecp_line_facts l (Hpp l Hl)) as [_ [_ ->]]. reflexivity.
  - cbn [List.length]. rewrite app_length. unfold inner_all, inner_q, ppart_lines.
    destruct (fst (snd ze)) as [shs|]; [rewrite app_length; cbn [List.length]; lia|].
    destruct (snd (snd ze)) as [e|]; [rewrite app_length; cbn [List.length]; lia|]. destruct Hsome; congruence.
Qed.

Lemma partition_elements_all : forall sord bs meta els, Forall (mc_el_all_ok meta) els ->
  partition_lines (concat (map (pel_all sord bs meta) els)) slash_cond true 4 0 0 = inr (map (pel_all sord bs meta) els).
Proof.
  intros sord bs meta els H. unfold partition_lines.
  assert (Hsh : forall b, In b (map (pel_all sord bs meta) els) -> block_shape slash_cond b /\ 4 <= List.length b).
  { intros b Hb. apply in_map_iff in Hb. destruct Hb as [ze [<- Hze]]. rewrite Forall_forall in H. apply pel_all_shape, H, Hze. }
  rewrite (part_blocks slash_cond (map (pel_all sord bs meta) els) [] []).
  - cbn [flush app]. unfold bind. rewrite existsb_false; [reflexivity|].
    intros b Hb. apply Nat.ltb_ge. apply (Hsh b Hb).
  - rewrite Forall_forall. intros b Hb. apply (Hsh b Hb).
Qed.

(* ================================================================== *)
(* 9. one element block                                                *)
(* ================================================================== *)
Lemma parse_electron_block_q : forall check sord q shs, (0 <= q)%Z -> shs <> [] -> Forall mc_shell_wf shs -> gapless shs ->
  check q = ok tt ->
  mc_parse_electron_block check (inner_q sord q shs) = inr (q, map mc_expected_shell shs).
Proof.
  intros check sord q shs Hq Hne Hshs Hgap Hchk. unfold inner_q.
  pose proof (mx_of_nonneg shs Hshs) as Hm.
  assert (HR : Forall num_head (scharge q shs :: flat_map pshl shs)).
  { constructor; [apply scharge_num; exact Hq | apply flat_pshl_num, Hshs]. }
  destruct (remove_opts (cart_of sord shs) _ HR) as [ob [Er Eo]].
  unfold mc_parse_electron_block. rewrite Er. unfold bind. rewrite Eo.
  rewrite (scharge_match q shs Hq Hm). rewrite (nuc_charge_ok q Hq). rewrite Hchk. unfold ok at 1. cbv beta iota.
  rewrite (partition_shells_mc shs Hshs).
  destruct (nonneg_string _ Hm) as [_ Hv]. rewrite Hv, map_length, (mx_of_seq shs Hne Hgap).
  match goal with |- context [Z.eqb ?a ?b] => assert (Ec : Z.eqb a b = true)
    by (apply Z.eqb_eq; cbn [List.length]; change (Z.of_nat 0 + 1)%Z with 1%Z; rewrite Z.mul_1_r, Z.sub_add; reflexivity) end.
  rewrite Ec. cbn [negb List.length].
  pose proof (parse_shells_mc shs 0 Hshs Hgap) as Hp. change (Z.of_nat 0) with 0%Z in Hp. rewrite Hp. reflexivity.
Qed.

Lemma head_all_match : forall bs meta z m, (1 <= z <= 118)%Z -> mc_name_ok bs ->
  match_element_head (head_all bs meta z m) = Some (symz z, bs).
Proof.
  intros bs meta z m Hz [_ [Hne [Hd [Hecp _]]]]. destruct (sym_facts z Hz) as [_ [Hsne [Hsa _]]].
  pose proof (sym_len z Hz) as Hl.
  unfold head_all, match_element_head.
  change ("/" +++ symz z +++ "." +++ bs +++ "." +++ fst (meta z) +++ "." +++ cs_any true (fst m) +++ "." +++ ecp_tag z (snd m))
    with (String "/" (symz z +++ String "." (bs +++ String "." (fst (meta z) +++ "." +++ cs_any true (fst m) +++ "." +++ ecp_tag z (snd m))))).
  cbv beta iota. rewrite (span_alpha_dot _ _ Hsa).
  assert (E1 : Nat.leb 1 (String.length (symz z)) = true) by (apply Nat.leb_le; destruct (symz z); [congruence | cbn; lia]).
  assert (E2 : Nat.leb (String.length (symz z)) 3 = true) by (apply Nat.leb_le; exact Hl).
  rewrite E1, E2. cbn [andb]. rewrite (not_ecp_prefix bs _ Hd Hecp).
  unfold head_name. rewrite (span_nondot_word bs _ Hd). destruct bs; [congruence | reflexivity].
Qed.

Lemma ecp_line_pp : forall l, ecp_line l -> (exists sym n mx, l = pp_line sym n mx) \/ is_pp_or_m1 l = false.
Proof.
  intros l [H|[[Hn _]|[->| ->]]]; [now left | right | right; reflexivity | right; reflexivity].
  apply (num_head_facts l Hn).
Qed.

(* partition at the PP line *)
Lemma part_two : forall cond A h R, Forall (fun l => cond l = inr false) A -> cond h = inr true ->
  Forall (fun l => cond l = inr false) R ->
  part_go cond true (A ++ h :: R) [] [] = inr (flush A [] ++ [h :: R]).
Proof.
  intros cond A h R HA Hh HR. rewrite (part_skip cond true A (h :: R) [] [] HA). cbn [app].
  rewrite (part_go_match _ _ _ _ _ _ Hh). rewrite <- (app_nil_r R) at 1. rewrite (part_skip cond true R [] [h] _ HR).
  rewrite part_go_nil. reflexivity.
Qed.

Definition pp_cond (x : string) : res bool := ok (is_pp_or_m1 x).

Lemma pot_part_not_pp : forall (z : Z) (e : Z * list epot), Forall ecp_pot_ok (snd e) ->
  Forall (fun l => pp_cond l = inr false) (flat_map (pot_lines_mc (Lmax (snd e))) (snd e) ++ [spec1; spec2]).
Proof.
  intros z e Hok. apply Forall_app. split; [|repeat constructor].
  apply flat_map_Forall. intros p Hp. rewrite Forall_forall in *. intros l Hl. unfold pp_cond, ok.
  destruct (pot_lines_facts _ p l (Hok p Hp) Hl) as [Hn _]. now rewrite (proj1 (proj2 (num_head_facts l Hn))).
Qed.

Lemma split_partition : forall sord meta ze, mc_el_all_ok meta ze ->
  partition_lines (inner_all sord (fst ze) (snd ze) ++ ppart_lines (fst ze) (snd ze)) pp_cond true 1 1 2 =
  inr ((match inner_all sord (fst ze) (snd ze) with [] => [] | a => [a] end) ++
       (match ppart_lines (fst ze) (snd ze) with [] => [] | b => [b] end)).
Proof.
  intros sord meta ze H. pose proof (inner_all_lines sord meta ze H) as Hin. pose proof (el_pots_ok meta ze H) as Hpo.
  destruct (el_ok_parts meta ze H) as [_ [_ [_ [_ Hsome]]]].
  assert (HA : Forall (fun l => pp_cond l = inr false) (inner_all sord (fst ze) (snd ze))).
  { rewrite Forall_forall in *. intros l Hl. unfold pp_cond, ok. now rewrite (proj2 (inner_line_facts l (Hin l Hl))). }
  unfold partition_lines, ppart_lines in *. destruct (snd (snd ze)) as [e|] eqn:Ee.
  - unfold ecp_lines_mc. cbn [app].
    change ((pp_line (symz (fst ze)) (fst e) (Lmax (snd e)) :: flat_map (pot_lines_mc (Lmax (snd e))) (snd e)) ++ [spec1; spec2])
      with (pp_line (symz (fst ze)) (fst e) (Lmax (snd e)) :: (flat_map (pot_lines_mc (Lmax (snd e))) (snd e) ++ [spec1; spec2])).
    rewrite (part_two pp_cond (inner_all sord (fst ze) (snd ze)) (pp_line (symz (fst ze)) (fst e) (Lmax (snd e)))
               (flat_map (pot_lines_mc (Lmax (snd e))) (snd e) ++ [spec1; spec2]) HA eq_refl (pot_part_not_pp (fst ze) e Hpo)). unfold bind.
    destruct (inner_all sord (fst ze) (snd ze)) as [|a0 A]; reflexivity.
  - rewrite app_nil_r. rewrite <- (app_nil_r (inner_all sord (fst ze) (snd ze))) at 1.
    rewrite (part_skip pp_cond true _ [] [] [] HA), part_go_nil. cbn [app flush].
    assert (Hne : inner_all sord (fst ze) (snd ze) <> []).
    { unfold inner_all, inner_q. destruct (fst (snd ze)) as [shs|]; [|destruct Hsome; congruence].
      destruct (sopt (cart_of sord shs)); discriminate. }
    destruct (inner_all sord (fst ze) (snd ze)) as [|a0 A]; [congruence | reflexivity].
Qed.

(* the dictionary *)
Lemma get_el_notin : forall z d, ~ In z (map fst d) -> get_el z d = None.
Proof.
  intros z; induction d as [|[z' e] d IH]; intros H; [reflexivity|]. cbn [get_el map fst In] in *.
  destruct (Z.eqb_spec z z') as [->|_]; [exfalso; apply H; now left | apply IH; intros Hin; apply H; now right].
Qed.
Lemma set_el_notin : forall z e d, ~ In z (map fst d) -> set_el z e d = d ++ [(z, e)].
Proof.
  intros z e; induction d as [|[z' e'] d IH]; intros H; [reflexivity|]. cbn [set_el map fst In app] in *.
  destruct (Z.eqb_spec z z') as [->|_]; [exfalso; apply H; now left|]. rewrite IH; [reflexivity | intros Hin; apply H; now right].
Qed.
Lemma get_el_last : forall z e d, ~ In z (map fst d) -> get_el z (d ++ [(z, e)]) = Some e.
Proof.
  intros z e; induction d as [|[z' e'] d IH]; intros H; cbn [app get_el]; [now rewrite Z.eqb_refl|].
  cbn [map fst In] in H. destruct (Z.eqb_spec z z') as [->|_]; [exfalso; apply H; now left | apply IH; intros Hin; apply H; now right].
Qed.
Lemma set_el_last : forall z e e' d, ~ In z (map fst d) -> set_el z e' (d ++ [(z, e)]) = d ++ [(z, e')].
Proof.
  intros z e e'; induction d as [|[z0 e0] d IH]; intros H; cbn [app set_el]; [now rewrite Z.eqb_refl|].
  cbn [map fst In] in H. destruct (Z.eqb_spec z z0) as [->|_]; [exfalso; apply H; now left|].
  rewrite IH; [reflexivity | intros Hin; apply H; now right].
Qed.

Lemma inner_q_first : forall sord q shs, (0 <= q)%Z ->
  exists first rest, inner_q sord q shs = first :: rest /\ str_prefix "pp" (lower first) = false /\ str_prefix "m1" (lower first) = false.
Proof.
  intros sord q shs Hq. unfold inner_q. destruct (sopt_form (cart_of sord shs)) as [->|[Z ->]].
  - cbn [app]. eexists. eexists. split; [reflexivity|]. apply (num_head_facts _ (scharge_num q shs Hq)).
  - cbn [app]. eexists. eexists. split; [reflexivity|]. split; reflexivity.
Qed.

Lemma electron_all_ok : forall sord z oecp shs d, (1 <= z <= 118)%Z -> shs <> [] -> Forall mc_shell_wf shs -> gapless shs ->
  match oecp with Some e => (0 <= fst e <= z)%Z | None => True end -> ~ In z (map fst d) ->
  mc_electron_all z (inner_q sord (mc_nelectrons z oecp) shs) d =
  inr (d ++ [(z, (Some (map mc_expected_shell shs),
                  match oecp with Some e => if (0 <? fst e)%Z then Some (fst e) else None | None => None end, None))]).
Proof.
  intros sord z oecp shs d Hz Hne Hshs Hgap He Hd. unfold mc_electron_all, cur_el. rewrite (get_el_notin z d Hd). unfold eld_empty.
  rewrite (parse_electron_block_q _ sord (mc_nelectrons z oecp) shs); [| apply nelectrons_nonneg; [lia | exact He] | assumption.. | reflexivity].
  unfold bind, ok. rewrite (set_el_notin z _ d Hd). do 4 f_equal.
  destruct oecp as [[n pots]|]; cbn [mc_nelectrons fst] in *.
  - replace (z - (z - n))%Z with n by lia. reflexivity.
  - replace (z - z)%Z with 0%Z by lia. reflexivity.
Qed.

Lemma parse_element_all_mc : forall sord bs meta ze d names, mc_el_all_ok meta ze -> mc_name_ok bs ->
  ~ In (fst ze) (map fst d) ->
  mc_parse_element_all (pel_all sord bs meta ze) (d, names) =
  inr (d ++ [(fst ze, mc_expected_eld (snd ze))], add_name (lower bs) names).
Proof.
  intros sord bs meta ze d names H Hbs Hd. destruct (el_ok_parts meta ze H) as [Hz [_ [Hs [He Hsome]]]].
  destruct (sym_facts (fst ze) Hz) as [_ [_ [_ Hback]]]. pose proof Hbs as [_ [_ [_ [_ Hint]]]].
  unfold mc_parse_element_all, pel_all. rewrite (head_all_match bs meta (fst ze) (snd ze) Hz Hbs), Hback. unfold bind at 1. rewrite Hint.
  cbn [skipn]. fold pp_cond. rewrite (split_partition sord meta ze H). unfold bind at 1.
  destruct ze as [z [oshs oecp]]. cbn [fst snd] in *. unfold inner_all, ppart_lines, mc_expected_eld. cbn [fst snd].
  destruct oshs as [shs|]; destruct oecp as [e|]; cbn [option_map].
  - (* shells and ECP *)
    destruct Hs as [Hne [Hshs Hgap]]. pose proof He as [Hn [Hpne [Hc Hok]]].
    destruct (inner_q_first sord (mc_nelectrons z (Some e)) shs) as [first [rest [E [P1 P2]]]];
      [apply nelectrons_nonneg; [lia | exact Hn]|].
    rewrite E. cbn [app mc_element_split_all]. rewrite P1, P2. rewrite <- E.
    rewrite (electron_all_ok sord z (Some e) shs d Hz Hne Hshs Hgap Hn Hd). unfold bind. cbv beta iota.
    unfold ecp_lines_mc at 1. cbn [app mc_element_split_all]. change (str_prefix "pp" (lower (pp_line (symz z) (fst e) (Lmax (snd e))))) with true. cbv iota.
    change (pp_line (symz z) (fst e) (Lmax (snd e)) :: flat_map (pot_lines_mc (Lmax (snd e))) (snd e) ++ [spec1; spec2])
      with (ecp_lines_mc (symz z) e ++ [spec1; spec2]).
    rewrite (parse_ecp_block_mc z e _ (Some (map mc_expected_shell shs)) (if (0 <? fst e)%Z then Some (fst e) else None) Hz).
    + unfold bind, ok. rewrite (set_el_last z _ _ d Hd). reflexivity.
    + exact He.
    + unfold cur_el. rewrite (get_el_last z _ d Hd). reflexivity.
    + destruct (0 <? fst e)%Z; [now right | now left].
  - (* shells only *)
    destruct Hs as [Hne [Hshs Hgap]].
    destruct (inner_q_first sord (mc_nelectrons z None) shs) as [first [rest [E [P1 P2]]]]; [cbn [mc_nelectrons]; lia|].
    rewrite E. cbn [app mc_element_split_all]. rewrite P1, P2. rewrite <- E.
    rewrite (electron_all_ok sord z None shs d Hz Hne Hshs Hgap I Hd). reflexivity.
  - (* ECP only *)
    pose proof He as [Hn [Hpne [Hc Hok]]].
    unfold ecp_lines_mc at 1. cbn [app mc_element_split_all].
    change (str_prefix "pp" (lower (pp_line (symz z) (fst e) (Lmax (snd e))))) with true. cbv iota.
    change (pp_line (symz z) (fst e) (Lmax (snd e)) :: flat_map (pot_lines_mc (Lmax (snd e))) (snd e) ++ [spec1; spec2])
      with (ecp_lines_mc (symz z) e ++ [spec1; spec2]).
    rewrite (parse_ecp_block_mc z e d None None Hz He).
    + unfold bind, ok. rewrite (set_el_notin z _ d Hd). reflexivity.
    + unfold cur_el. rewrite (get_el_notin z d Hd). reflexivity.
    + now left.
  - destruct Hsome; congruence.
Qed.

(* ================================================================== *)
(* 10. all elements, the round trip                                    *)
(* ================================================================== *)
Lemma elements_all_mc : forall sord bs meta els d names, mc_name_ok bs ->
  Forall (mc_el_all_ok meta) els -> NoDup (map fst els) ->
  (forall z, In z (map fst els) -> ~ In z (map fst d)) ->
  (names = [] \/ names = [lower bs]) ->
  mc_elements_all (map (pel_all sord bs meta) els) (d, names) =
  inr (d ++ mcasl_all_expected els, match els with [] => names | _ => [lower bs] end).
Proof.
  intros sord bs meta; induction els as [|ze els IH]; intros d names Hbs Hok Hnd Hdis Hn.
  - cbn [map mc_elements_all mcasl_all_expected]. now rewrite app_nil_r.
  - inversion Hok as [|? ? W1 W2]; subst. cbn [map] in Hnd. inversion Hnd as [|? ? Hnotin Hnd']; subst.
    cbn [map mc_elements_all]. rewrite (parse_element_all_mc sord bs meta ze d names W1 Hbs); [|apply Hdis; now left]. unfold bind.
    assert (En : add_name (lower bs) names = [lower bs]).
    { destruct Hn as [->| ->]; unfold add_name; cbn [existsb app]; [reflexivity|]. now rewrite String.eqb_refl. }
    rewrite En, (IH _ [lower bs] Hbs W2 Hnd').
    + unfold mcasl_all_expected. cbn [map]. rewrite <- app_assoc. cbn [app]. destruct els; reflexivity.
    + intros z Hz. rewrite map_app, in_app_iff. cbn [map In fst]. intros [Hin|[Heq|[]]].
      * apply (Hdis z); [now right | exact Hin].
      * subst z. apply Hnotin, Hz.
    + now right.
Qed.

Lemma read_all_lines_mc : forall sord bs meta els, mcasl_all_ok sord bs meta els ->
  mcas_read_all (all_lines_all sord bs meta els) = inr (mcasl_all_expected els, lower bs).
Proof.
  intros sord bs meta els [Hs [Hbs [Hne [Hnd Hok]]]].
  unfold mcas_read_all. fold sk3. fold (pr3 (all_lines_all sord bs meta els)).
  rewrite (pruned_lines_all sord bs meta els Hok). fold slash_cond. rewrite (partition_elements_all sord bs meta els Hok).
  unfold bind. rewrite (elements_all_mc sord bs meta els [] [] Hbs Hok Hnd); [| intros z _ [] | now left].
  cbn [app]. destruct els; [congruence | reflexivity].
Qed.

Lemma mcasl_all_roundtrip : mcasl_all_roundtrip_stmt.
Proof.
  intros sord bs meta els H. pose proof H as [Hs [[Hb1 _] [_ [_ Hok]]]].
  unfold mcasl_roundtrip_all. rewrite (write_all_lines sord bs meta els Hok). unfold bind.
  rewrite (splitlines_unlines _ (all_lines_all_good sord bs meta els Hs Hb1 Hok)). apply read_all_lines_mc, H.
Qed.

(* ================================================================== *)
(* 11. no number of the ECP part is lost                               *)
(* ================================================================== *)
Lemma comma_rbody : forall t, trip_ok t -> comma_split (rbody t) = [Z_to_string (fst (fst t)); snd (fst t); snd t].
Proof.
  intros [[r g] c] [Hg Hc]. cbn [fst snd] in *. unfold comma_split, rbody. cbn [fst snd].
  assert (E : Z_to_string r +++ ("," +++ g +++ ",") +++ c = Z_to_string r +++ String "," (g +++ String "," c)).
  { rewrite !sapp_assoc. reflexivity. }
  rewrite E, (split_on_word _ _ (int_nocomma r)), (split_on_word _ _ (floating_nocomma _ Hg)), (split_on_last _ (floating_nocomma _ Hc)).
  cbn [map]. rewrite (strip_tok _ (int_tok r)), (strip_tok _ (floating_tok _ Hg)), (strip_tok _ (floating_tok _ Hc)). reflexivity.
Qed.

Lemma trip_has : forall r g c, List.length g = List.length r -> List.length c = List.length r ->
  (forall x, In x r -> exists t, In t (trip r g c) /\ fst (fst t) = x) /\
  (forall y, In y g -> exists t, In t (trip r g c) /\ snd (fst t) = y) /\
  (forall w, In w c -> exists t, In t (trip r g c) /\ snd t = w).
Proof.
  intros r g c Hg Hc. destruct (trip_proj r g c Hg Hc) as [P1 [P2 P3]]. repeat split.
  - intros x Hx. rewrite <- P1 in Hx. apply in_map_iff in Hx. destruct Hx as [t [E Ht]]. exists t. split; assumption.
  - intros y Hy. rewrite <- P2 in Hy. apply in_map_iff in Hy. destruct Hy as [t [E Ht]]. exists t. split; assumption.
  - intros w Hw. rewrite <- P3 in Hw. apply in_map_iff in Hw. destruct Hw as [t [E Ht]]. exists t. split; assumption.
Qed.

Lemma mcasl_ecp_no_number_lost : mcasl_ecp_no_number_lost_stmt.
Proof.
  intros sord bs meta els t Hs Hb Hok E x [ze [e [p [Hze [Ee [Hp Hx]]]]]].
  rewrite (write_all_lines sord bs meta els Hok) in E. inversion E; subst; clear E.
  rewrite (splitlines_unlines _ (all_lines_all_good sord bs meta els Hs Hb Hok)).
  pose proof Hok as Hok'. rewrite Forall_forall in Hok'. pose proof (el_pots_ok meta ze (Hok' ze Hze)) as Hpo. rewrite Ee in Hpo.
  rewrite Forall_forall in Hpo. pose proof (Hpo p Hp) as Hpok.
  destruct (pot_facts p Hpok) as [_ [Ec [Hg [Hc [_ [_ [Ht _]]]]]]].
  assert (Hrow : exists tr, In tr (ptrip p) /\ In x [Z_to_string (fst (fst tr)); snd (fst tr); snd tr]).
  { destruct (trip_has _ _ _ Hg Hc) as [T1 [T2 T3]]. fold (ptrip p) in T1, T2, T3.
    destruct Hx as [Hx|[[c [Hcin Hx]]|[r [Hr ->]]]].
    - destruct (T2 x Hx) as [tr [Htr <-]]. exists tr. split; [exact Htr | right; now left].
    - rewrite Ec in Hcin. destruct Hcin as [<-|[]]. destruct (T3 x Hx) as [tr [Htr <-]]. exists tr. split; [exact Htr | right; right; now left].
    - destruct (T1 r Hr) as [tr [Htr <-]]. exists tr. split; [exact Htr | now left]. }
  destruct Hrow as [tr [Htr Hin]]. exists (prow tr). split.
  - unfold all_lines_all. apply in_flat_map. exists ze. split; [exact Hze|]. unfold ell_all. do 3 right.
    apply in_or_app. right. apply in_or_app. left. unfold ppart_lines. rewrite Ee. apply in_or_app. left.
    unfold ecp_lines_mc. right. apply in_flat_map. exists p. split; [exact Hp|]. unfold pot_lines_mc. right. apply in_map, Htr.
  - rewrite (rstrip_prow tr (Ht tr Htr)), (comma_rbody tr (Ht tr Htr)). exact Hin.
Qed.

(* ================================================================== *)
(* 12. conditions that cannot be dropped; a concrete instance          *)
(* ================================================================== *)
Lemma mcasl_ecp_gap : mcasl_ecp_gap_stmt.
Proof. split; vm_compute; reflexivity. Qed.
Lemma mcasl_ecp_duplicate : mcasl_ecp_duplicate_stmt.
Proof. vm_compute. reflexivity. Qed.
Lemma mcasl_ecp_order : mcasl_ecp_order_stmt.
Proof. vm_compute. reflexivity. Qed.
Lemma mcasl_ecp_rows : mcasl_ecp_rows_stmt.
Proof. split; vm_compute; reflexivity. Qed.
Lemma mcasl_ecp_bad : mcasl_ecp_bad_stmt.
Proof. split; [|split; [|split]]; vm_compute; reflexivity. Qed.
Lemma mcasl_ecp_negative_charge : mcasl_ecp_negative_charge_stmt.
Proof. vm_compute. reflexivity. Qed.

Ltac name_ok_tac := repeat split; try reflexivity; discriminate.
Ltac meta_ok_tac := repeat split; try reflexivity; discriminate.

Lemma mcasl_ecp_only : mcasl_ecp_only_stmt.
Proof.
  split; [|vm_compute; reflexivity].
  unfold mcasl_all_ok. split; [intros l x Hx; exact Hx|]. split; [name_ok_tac|]. split; [discriminate|]. split.
  - cbn [map fst]. repeat constructor; cbn [In]; intros H; repeat (destruct H as [H|H]; [discriminate H|]); exact H.
  - constructor; [|constructor; [|constructor]].
    + unfold mc_el_all_ok. cbn [fst snd]. split; [lia|]. split; [meta_ok_tac|]. split; [right; discriminate|]. split; [exact I|].
      unfold mc_ecp_ok. cbn [fst snd]. split; [lia|]. split; [discriminate|]. split; [reflexivity|].
      repeat constructor; cbn; try lia; try discriminate; try reflexivity. exists 0%Z. split; [reflexivity | lia].
      exists ["0.5"]. split; reflexivity.
    + unfold mc_el_all_ok. cbn [fst snd]. split; [lia|]. split; [meta_ok_tac|]. split; [left; discriminate|]. split.
      * unfold mc_shells_ok. split; [discriminate|]. split; [|reflexivity].
        repeat constructor; cbn; try lia; try discriminate; try reflexivity.
      * unfold mc_ecp_ok. cbn [fst snd]. split; [lia|]. split; [discriminate|]. split; [reflexivity|].
        repeat constructor; cbn; try lia; try discriminate; try reflexivity. exists 0%Z. split; [reflexivity | lia].
        exists ["0.5"]. split; reflexivity.
Qed.

Example mcasl_ecp_example : mcasl_ecp_example_stmt.
Proof.
  split; [|split; [|split; [|split]]]; try (vm_compute; reflexivity).
  unfold mcasl_all_ok. split; [intros l x Hx; exact Hx|]. split; [name_ok_tac|]. split; [discriminate|]. split.
  - cbn [map fst me_els]. repeat constructor; cbn [In]; intros H; repeat (destruct H as [H|H]; [discriminate H|]); exact H.
  - constructor; [|constructor; [|constructor]].
    + unfold mc_el_all_ok. cbn [fst snd]. split; [lia|]. split; [meta_ok_tac|]. split; [left; discriminate|]. split; [|exact I].
      unfold mc_shells_ok. split; [discriminate|]. split; [|reflexivity].
      repeat constructor; cbn; try lia; try discriminate; try reflexivity.
    + unfold mc_el_all_ok. cbn [fst snd]. split; [lia|]. split; [meta_ok_tac|]. split; [left; discriminate|]. split.
      * unfold mc_shells_ok. split; [discriminate|]. split; [|reflexivity].
        repeat constructor; cbn; try lia; try discriminate; try reflexivity.
      * unfold mc_ecp_ok. cbn [fst snd]. split; [lia|]. split; [discriminate|]. split; [reflexivity|].
        constructor; [|constructor; [|constructor; [|constructor]]]; unfold ecp_pot_ok; cbn;
          (split; [eexists; split; [reflexivity | lia]|]); (split; [discriminate|]); (split; [reflexivity|]);
          (split; [eexists; split; reflexivity|]); split; repeat constructor.
Qed.

Print Assumptions mc_ecp_order_canon.
Print Assumptions mcasl_all_write_total.
Print Assumptions mcas_all_never.
Print Assumptions mcasl_all_roundtrip.
Print Assumptions mcasl_ecp_no_number_lost.
Print Assumptions mcasl_ecp_gap.
Print Assumptions mcasl_ecp_duplicate.
Print Assumptions mcasl_ecp_order.
Print Assumptions mcasl_ecp_rows.
Print Assumptions mcasl_ecp_bad.
Print Assumptions mcasl_ecp_negative_charge.
Print Assumptions mcasl_ecp_only.
Print Assumptions mcasl_ecp_example.
