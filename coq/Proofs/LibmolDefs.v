(* Statements about the Molpro system library (libmol) writer / reader pair (electron shells): what write_libmol prints,
   read_libmol reads back.  Definitions only; the proofs are in Proofs/LibmolSpec.v. *)
From BSE Require Import Model.Val Model.Text Model.Num Model.Basis Model.Manip Model.Matrix Model.Lut Model.Elements
                        Model.Nwchem Model.Libmol Proofs.MatrixDefs Proofs.NwchemDefs.

(* ---------- well-formed input of the writer (what is left after make_general / sort_basis) ---------- *)
(* `floating s` (Proofs/NwchemDefs.v) : is_floating s = true, the string matches helpers.floating_re entirely *)
(* float(x) does not raise: the exact decimal value exists (Model.Num) *)
Definition lmol_number (x : string) : Prop := parse_num x <> None.

Definition lmol_shell_ok (s : sshell) : Prop :=
  (* at least one primitive *)
  exps s <> [] /\
  (* ONE angular momentum (the writer has split the fused shells), and one of the eight the reader's header expression
     accepts: [spdfghik] = 0 .. 7 *)
  (exists l, am s = [l] /\ (0 <= l < 8)%Z) /\
  (* at least one contraction, every one with one coefficient per primitive *)
  coefs s <> [] /\ Forall (fun c => List.length c = List.length (exps s)) (coefs s) /\
  (* every number is a string matching helpers.floating_re *)
  Forall floating (exps s) /\ Forall (Forall floating) (coefs s) /\
  (* find_range calls float() on every coefficient: it has to be a number for Python (no d / D exponent marker, at least
     one digit), and every contraction needs a coefficient that is not zero *)
  Forall (Forall lmol_number) (coefs s) /\
  Forall (fun c => exists x, In x c /\ is0_s x = false) (coefs s).

(* basis['name'] as the reader's header expression wants it: one or more words separated by blanks or tabs, every word
   matching helpers.basis_name_re_str = \d*[a-zA-Z][a-zA-Z0-9\-\+\*\(\)\[\]]*  entirely *)
Definition lmol_name_char (c : ascii) : bool := orb (is_name_char c) (orb (beq c 32) (beq c 9)).
Definition lmol_name_ok (n : string) : Prop :=
  sall lmol_name_char n = true /\ tokens_acc n "" <> [] /\ forallb is_basis_name (tokens_acc n "") = true.

Definition lmol_ok (harm bsname : string) (els : list (Z * list sshell)) : Prop :=
  (harm = "spherical" \/ harm = "cartesian") /\
  lmol_name_ok bsname /\
  (* dictionary keys: pairwise distinct atomic numbers, all of them in the periodic table *)
  NoDup (map fst els) /\
  Forall (fun zs => (1 <= fst zs <= 118)%Z /\
                    (* at least one shell (an element without shells leaves no trace in the file) *)
                    snd zs <> [] /\
                    Forall lmol_shell_ok (snd zs)) els.
(* no condition `els <> []`: only the first line is written for no element, and the reader finds nothing in it *)

(* ---------- what comes back ---------- *)
(* the function type the reader assigns: 'gto' if shell_am[0] < 2 else 'gto_spherical' - the reader ignores the first line
   (spherical / cartesian) *)
Definition lmol_ftype (a : list Z) : string :=
  match a with l :: _ => if (l <? 2)%Z then "gto" else "gto_spherical" | [] => "gto" end.

(* a contraction comes back with the coefficients before its first and after its last non-zero coefficient replaced by
   the string 0.0 (they are not in the file); every other coefficient - also a zero between two non-zero ones - and every
   exponent comes back as the same string: the reader does not touch the exponent marker *)
Definition lmol_expected_col (c : list string) : list string :=
  match find_range c with
  | inr (f, l) => repeat "0.0" f ++ lmol_slice c (f, l) ++ repeat "0.0" (List.length c - S l)
  | inl _ => c
  end.

Definition lmol_expected_shell (s : sshell) : sshell :=
  mkShell (lmol_ftype (am s)) "" (am s) (exps s) (map lmol_expected_col (coefs s)).

Definition lmol_expected (els : list (Z * list sshell)) : list (Z * list sshell) :=
  map (fun zs => (fst zs, map lmol_expected_shell (snd zs))) els.

(* ---------- statements ---------- *)
(* the writer does not fail on well-formed input *)
Definition lmol_write_total_stmt : Prop :=
  forall harm bsname els, lmol_ok harm bsname els -> exists t, lmol_write_electron harm bsname els = inr t.

(* reading back what was written gives exactly the same elements, in order, with the same shells, in order *)
Definition lmol_roundtrip_stmt : Prop :=
  forall harm bsname els, lmol_ok harm bsname els -> lmol_roundtrip harm bsname els = inr (lmol_expected els).

(* what lmol_expected_col does, position by position: same length; a coefficient either stays the same string or it is
   zero (float(x) == 0.0) and becomes the string 0.0 *)
Definition lmol_expected_col_stmt : Prop :=
  forall c, Forall lmol_number c -> (exists x, In x c /\ is0_s x = false) ->
    List.length (lmol_expected_col c) = List.length c /\
    forall i x, nth_error c i = Some x ->
      nth_error (lmol_expected_col c) i = Some x \/
      (is0_s x = true /\ nth_error (lmol_expected_col c) i = Some "0.0").

(* C04 direction: every exponent and every coefficient that is NOT ZERO is, unchanged, a white-space delimited token of
   some line of the written text.  (The writer leaves out the zero coefficients before the first and after the last
   non-zero coefficient of a contraction - the ranges in the header say where the printed ones belong - so a zero
   coefficient need not be in the text.) *)
Definition lmol_number_of (els : list (Z * list sshell)) (x : string) : Prop :=
  exists zs s, In zs els /\ In s (snd zs) /\ (In x (exps s) \/ exists c, In c (coefs s) /\ In x c /\ is0_s x = false).
Definition lmol_no_number_lost_stmt : Prop :=
  forall harm bsname els t, lmol_ok harm bsname els -> lmol_write_electron harm bsname els = inr t ->
    forall x, lmol_number_of els x -> exists line, In line (splitlines t) /\ In x (tokens_acc line "").

(* ---------- which conditions of lmol_ok cannot be dropped ---------- *)
Definition lmol_h : sshell := mkShell "gto" "" [0%Z] ["1.0"] [["1.0"]].

(* no element at all is fine *)
Definition lmol_roundtrip_empty_stmt : Prop := lmol_roundtrip "spherical" "X" [] = inr [].

(* FINDING (valid data).  `lmol_name_ok bsname`: the name of the basis set is printed in every shell header and the reader's
   header expression wants it to look like helpers.basis_name_re_str.  When it does not, NO header is recognised, every
   line is skipped and the result is empty - without an error.  Names of the store that fail: they begin with digits and
   `-` (6-31G, 3-21G, ...), contain a word beginning with `(` or without a letter, or a character like `_` `!` `.` `,`. *)
Definition lmol_name_stmt : Prop :=
  lmol_write_electron "spherical" "6-31G" [(1%Z, [lmol_h])] =
    inr (String.concat nl1 ["spherical"; "basis={"; "H s 6-31G : 1 1 1.1";
                            "hydrogen (1s) -> [1s] converted by Basis Set Exchange"; "1.0 1.0"; ""]) /\
  Forall (fun n => lmol_roundtrip "spherical" n [(1%Z, [lmol_h])] = inr [])
         ["6-31G"; "3-21G"; "SV (Dunning-Hay)"; "Binning 641"; "aug-pcJ-0_2006"; "MIDI!"; "def2-SV(P)/JK"; "STO-3G."; ""] /\
  Forall (fun n => lmol_roundtrip "spherical" n [(1%Z, [lmol_h])] = inr [(1%Z, [lmol_h])])
         ["STO-3G"; "cc-pVDZ"; "2ZaPa-NR"; "def2-SV(P)"; "cc-pV(D+d)Z"; "pcseg-1 x[y]*"; "CRENBL ECP"; "x	y"].

(* FINDING (valid data).  `0 <= l < 8`: the writer prints l = 8 as `l`, 9 as `m` ... (lut.amint_to_char), the reader's header
   expression knows [spdfghik] only: such a shell is skipped without an error, an element that has only such shells
   disappears.  l = 7 is still read. *)
Definition lmol_l8 : sshell := mkShell "gto_spherical" "" [8%Z] ["1.0"] [["1.0"]].
Definition lmol_am_bound_stmt : Prop :=
  lmol_write_electron "spherical" "X" [(1%Z, [lmol_h; lmol_l8]); (2%Z, [lmol_l8])] =
    inr (String.concat nl1 ["spherical"; "basis={";
                            "H s X : 1 1 1.1"; "hydrogen (1s,1l) -> [1s,1l] converted by Basis Set Exchange"; "1.0 1.0";
                            "H l X : 1 1 1.1"; "hydrogen (1s,1l) -> [1s,1l] converted by Basis Set Exchange"; "1.0 1.0";
                            "HE l X : 1 1 1.1"; "helium (,1l) -> [,1l] converted by Basis Set Exchange"; "1.0 1.0"; ""]) /\
  lmol_roundtrip "spherical" "X" [(1%Z, [lmol_h; lmol_l8]); (2%Z, [lmol_l8])] = inr [(1%Z, [lmol_h])] /\
  lmol_roundtrip "spherical" "X" [(1%Z, [mkShell "gto_spherical" "" [7%Z] ["1.0"] [["1.0"]]])] =
    inr [(1%Z, [mkShell "gto_spherical" "" [7%Z] ["1.0"] [["1.0"]]])] /\
  lmol_write_electron "spherical" "X" [(1%Z, [mkShell "gto_spherical" "" [25%Z] ["1.0"] [["1.0"]]])] = inl EIndex.

(* `am s = [l]`: a fused sp shell (the writer never sees one after make_general) is printed as `H sp X : ...`, and the
   reader takes this for an s shell of a basis set with the two names `p` and `X` *)
Definition lmol_roundtrip_fused_stmt : Prop :=
  lmol_roundtrip "spherical" "X" [(1%Z, [mkShell "gto" "" [0%Z; 1%Z] ["1.0"; "2.0"] [["1.0"; "0.5"]; ["0.3"; "0.0"]]])] =
    inr [(1%Z, [mkShell "gto" "" [0%Z] ["1.0"; "2.0"] [["1.0"; "0.5"]; ["0.3"; "0.0"]]])].

(* `snd zs <> []`: an element without shells leaves no trace *)
Definition lmol_roundtrip_noshell_stmt : Prop :=
  lmol_roundtrip "spherical" "X" [(1%Z, [lmol_h]); (2%Z, [])] = inr [(1%Z, [lmol_h])].

(* `coefs s <> []`: the header `H s X : 1 0` has no range and is not recognised - the shell is skipped *)
Definition lmol_roundtrip_nocontr_stmt : Prop :=
  lmol_roundtrip "spherical" "X" [(1%Z, [mkShell "gto" "" [0%Z] ["1.0"] []])] = inr [].

(* every contraction needs a non-zero coefficient (list.index(True) in find_range), and every coefficient has to be a
   number for float(): a D exponent marker - accepted by helpers.floating_re and by every reader - stops the writer *)
Definition lmol_find_range_stmt : Prop :=
  lmol_write_electron "spherical" "X" [(1%Z, [mkShell "gto" "" [0%Z] ["1.0"; "2.0"] [["1.0"; "0.0"]; ["0.0"; "0.0"]]])] = inl EValue /\
  lmol_write_electron "spherical" "X" [(1%Z, [mkShell "gto" "" [0%Z] ["1.0"] [["1.0D+00"]]])] = inl EValue /\
  (* an exponent is printed as it is: D survives the round trip *)
  lmol_roundtrip "spherical" "X" [(1%Z, [mkShell "gto" "" [0%Z] ["1.0D+00"] [["1.0"]]])] =
    inr [(1%Z, [mkShell "gto" "" [0%Z] ["1.0D+00"] [["1.0"]]])].

(* `length c = length (exps s)`: a short contraction is filled up with 0.0 *)
Definition lmol_roundtrip_ragged_stmt : Prop :=
  lmol_roundtrip "spherical" "X" [(1%Z, [mkShell "gto" "" [0%Z] ["1.0"; "2.0"] [["1.0"]]])] =
    inr [(1%Z, [mkShell "gto" "" [0%Z] ["1.0"; "2.0"] [["1.0"; "0.0"]]])].

(* `Forall floating`: a number without a point gets `.0` appended by the reader, a string that is not a number is refused *)
Definition lmol_floating_stmt : Prop :=
  lmol_roundtrip "spherical" "X" [(1%Z, [mkShell "gto" "" [0%Z] ["10"] [["1"]]])] =
    inr [(1%Z, [mkShell "gto" "" [0%Z] ["10.0"] [["1.0"]]])] /\
  lmol_roundtrip "spherical" "X" [(1%Z, [mkShell "gto" "" [0%Z] ["1.0x"] [["1.0"]]])] = inl ERuntime.

(* `NoDup (map fst els)` (cannot happen for a Python dictionary): the shells are collected under one element.
   `1 <= z <= 118`: no symbol - KeyError in the writer *)
Definition lmol_elements_stmt : Prop :=
  lmol_roundtrip "spherical" "X" [(1%Z, [lmol_h]); (1%Z, [lmol_h])] = inr [(1%Z, [lmol_h; lmol_h])] /\
  lmol_write_electron "spherical" "X" [(0%Z, [lmol_h])] = inl EKey.

(* neither the function type nor the region survives: a cartesian d shell comes back as spherical although the first
   line of the text says `cartesian` (not a condition of lmol_ok: lmol_expected says so) *)
Definition lmol_cartesian_stmt : Prop :=
  lmol_roundtrip "cartesian" "X" [(1%Z, [mkShell "gto_cartesian" "valence" [2%Z] ["1.0"] [["1.0"]]])] =
    inr [(1%Z, [mkShell "gto_spherical" "" [2%Z] ["1.0"] [["1.0"]]])].

(* the zero coefficients outside the printed range come back as the string 0.0, whatever they were *)
Definition lmol_zero_stmt : Prop :=
  lmol_roundtrip "spherical" "X" [(1%Z, [mkShell "gto" "" [0%Z] ["3.0"; "2.0"; "1.0"] [["0.00000000"; "1.0"; "0.0E+00"]]])] =
    inr [(1%Z, [mkShell "gto" "" [0%Z] ["3.0"; "2.0"; "1.0"] [["0.0"; "1.0"; "0.0"]]])].

(* the reader on hand-written text: the header expression is matched with backtracking (nprim and ncontr may touch), the
   separator of a range may be any character, numbers may touch, D exponents and integers are accepted, the loop
   continues at the last number line *)
Definition lmol_reader_stmt : Prop :=
  lmol_read_electron ["H s X : 21 1.2"; "comment"; "1.0 2.0 3.0-4.0"] =
    inr [(1%Z, [mkShell "gto" "" [0%Z] ["1.0"; "2.0"] [["3.0"; "-4.0"]]])] /\
  lmol_read_electron ["h S a b : 2 1 2.2"; "c"; "1.0D+00 2"; "3"] =
    inr [(1%Z, [mkShell "gto" "" [0%Z] ["1.0D+00"; "2.0"] [["0.0"; "3.0"]]])] /\
  lmol_read_electron ["H s X : 2 1 1x2"; "c"; "1.0 2.0 3.0 4.0"] = inl EValue /\
  lmol_read_electron ["H s X : 2 1 1_2"; "c"; "1.0 2.0 3.0 4.0"] = inl EOther /\
  lmol_read_electron ["H s X : 2 2 1.2"; "c"; "1.0 2.0 3.0 4.0"] = inl EAssert /\
  lmol_read_electron ["H s X : 2 1 1.2"; "c"; "1.0 2.0 3.0"] = inl EIndex /\
  lmol_read_electron ["H s X : 2 1 1.2"; "c"; "1.0 2.0 3.0 4.0E"] = inl ERuntime /\
  lmol_read_electron ["Xx s X : 2 1 1.2"; "c"; "1.0 2.0 3.0 4.0"] = inl EKey /\
  lmol_read_electron ["na ECP X : 10 2 0 51"] = inl ENotImpl /\
  lmol_read_electron ["na ECP : 10 2 0 51"] = inr [].

(* ---------- a concrete instance: cc-pVDZ for H and C as write_libmol sees it (after make_general and sort_basis), the text
   is what bse.get_basis('cc-pvdz', elements=[1,6], fmt='libmol', header=False) returns ---------- *)
Definition exl_H1 : sshell :=
  mkShell "gto" "" [0%Z] ["1.301000E+01"; "1.962000E+00"; "4.446000E-01"; "1.220000E-01"]
    [["1.968500E-02"; "1.379770E-01"; "4.781480E-01"; "5.012400E-01"];
     ["0.000000E+00"; "0.000000E+00"; "0.000000E+00"; "1.000000E+00"]].
Definition exl_H2 : sshell := mkShell "gto" "" [1%Z] ["7.270000E-01"] [["1.0000000"]].
Definition exl_C1 : sshell :=
  mkShell "gto" "" [0%Z]
    ["6.665000E+03"; "1.000000E+03"; "2.280000E+02"; "6.471000E+01"; "2.106000E+01"; "7.495000E+00"; "2.797000E+00";
     "5.215000E-01"; "1.596000E-01"]
    [["6.920000E-04"; "5.329000E-03"; "2.707700E-02"; "1.017180E-01"; "2.747400E-01"; "4.485640E-01"; "2.850740E-01";
      "1.520400E-02"; "-3.191000E-03"];
     ["-1.460000E-04"; "-1.154000E-03"; "-5.725000E-03"; "-2.331200E-02"; "-6.395500E-02"; "-1.499810E-01"; "-1.272620E-01";
      "5.445290E-01"; "5.804960E-01"];
     ["0.000000E+00"; "0.000000E+00"; "0.000000E+00"; "0.000000E+00"; "0.000000E+00"; "0.000000E+00"; "0.000000E+00";
      "0.000000E+00"; "1.000000E+00"]].
Definition exl_C2 : sshell :=
  mkShell "gto" "" [1%Z] ["9.439000E+00"; "2.002000E+00"; "5.456000E-01"; "1.517000E-01"]
    [["3.810900E-02"; "2.094800E-01"; "5.085570E-01"; "4.688420E-01"];
     ["0.000000E+00"; "0.000000E+00"; "0.000000E+00"; "1.000000E+00"]].
Definition exl_C3 : sshell := mkShell "gto_spherical" "" [2%Z] ["5.500000E-01"] [["1.0000000"]].
Definition exl_els : list (Z * list sshell) := [(1%Z, [exl_H1; exl_H2]); (6%Z, [exl_C1; exl_C2; exl_C3])].

Definition exl_text : string :=
  String.concat nl1
   ["spherical";
    "basis={";
    "H s cc-pVDZ : 4 2 1.4 4.4";
    "hydrogen (4s,1p) -> [2s,1p] converted by Basis Set Exchange";
    "1.301000E+01 1.962000E+00 4.446000E-01 1.220000E-01 1.968500E-02";
    "1.379770E-01 4.781480E-01 5.012400E-01 1.000000E+00";
    "H p cc-pVDZ : 1 1 1.1";
    "hydrogen (4s,1p) -> [2s,1p] converted by Basis Set Exchange";
    "7.270000E-01 1.0000000";
    "C s cc-pVDZ : 9 3 1.9 1.9 9.9";
    "carbon (9s,4p,1d) -> [3s,2p,1d] converted by Basis Set Exchange";
    "6.665000E+03 1.000000E+03 2.280000E+02 6.471000E+01 2.106000E+01";
    "7.495000E+00 2.797000E+00 5.215000E-01 1.596000E-01 6.920000E-04";
    "5.329000E-03 2.707700E-02 1.017180E-01 2.747400E-01 4.485640E-01";
    "2.850740E-01 1.520400E-02 -3.191000E-03 -1.460000E-04 -1.154000E-03";
    "-5.725000E-03 -2.331200E-02 -6.395500E-02 -1.499810E-01 -1.272620E-01";
    "5.445290E-01 5.804960E-01 1.000000E+00";
    "C p cc-pVDZ : 4 2 1.4 4.4";
    "carbon (9s,4p,1d) -> [3s,2p,1d] converted by Basis Set Exchange";
    "9.439000E+00 2.002000E+00 5.456000E-01 1.517000E-01 3.810900E-02";
    "2.094800E-01 5.085570E-01 4.688420E-01 1.000000E+00";
    "C d cc-pVDZ : 1 1 1.1";
    "carbon (9s,4p,1d) -> [3s,2p,1d] converted by Basis Set Exchange";
    "5.500000E-01 1.0000000";
    ""].

Definition lmol_example_stmt : Prop :=
  lmol_ok "spherical" "cc-pVDZ" exl_els /\
  lmol_write_electron "spherical" "cc-pVDZ" exl_els = inr exl_text /\
  lmol_roundtrip "spherical" "cc-pVDZ" exl_els = inr (lmol_expected exl_els) /\
  (* the visible change: the zeros before the first non-zero coefficient of a contraction *)
  lmol_expected_shell exl_H1 =
    mkShell "gto" "" [0%Z] ["1.301000E+01"; "1.962000E+00"; "4.446000E-01"; "1.220000E-01"]
      [["1.968500E-02"; "1.379770E-01"; "4.781480E-01"; "5.012400E-01"]; ["0.0"; "0.0"; "0.0"; "1.000000E+00"]] /\
  lmol_expected_shell exl_C3 = exl_C3 /\
  (* the same basis set under its Pople-style name: nothing comes back *)
  lmol_roundtrip "spherical" "6-31G" exl_els = inr [].

(* ---------- FINDING: the ECP part of the writer's own text is never read ----------
   The writer prints the ECP header as `sym ECP : ncore lmax 0 ndata` - WITHOUT a basis set name - while the reader's ecp_re
   demands exactly one name between `ECP` and the colon.  The header is therefore not recognised (neither as a shell header:
   `E` is no angular momentum letter), _read_ecp is never entered, every ECP line is skipped, and the elements come back
   without 'ecp_potentials' / 'ecp_electrons' (an ECP-only element does not come back at all) - without an error.
   The text below is bse.get_basis('lanl2dz', elements=[11], fmt='libmol', header=False); the electron reader model would
   answer ENotImpl if the ECP header were recognised. *)
Definition exl_na_text : string :=
  String.concat nl1
   ["spherical";
    "basis={";
    "NA s LANL2DZ : 3 2 1.2 3.3";
    "sodium (3s,3p) -> [2s,2p] converted by Basis Set Exchange";
    "0.4972000 0.0560000 0.0221000 -0.2753574 1.0989969";
    "1.0000000";
    "NA p LANL2DZ : 3 2 1.2 3.3";
    "sodium (3s,3p) -> [2s,2p] converted by Basis Set Exchange";
    "0.6697000 0.0636000 0.0204000 -0.0683845 1.0140550";
    "1.0000000";
    "";
    "";
    "! Effective core Potentials";
    "na ECP : 10 2 0 51";
    "ECP for LANL2DZ converted by Basis Set Exchange";
    "5 1 175.5502590 -10.0000000 2 35.0516791 -47.4902024";
    "  2 7.9060270 -17.2283007 2 2.3365719 -6.0637782";
    "  2 0.7799867 -0.7299393";
    "5 0 243.3605846 3.0000000 1 41.5764759 36.2847626";
    "  2 13.2649167 72.9304880 2 3.6797165 23.8401151";
    "  2 0.9764209 6.0123861";
    "6 0 1257.2650682 5.0000000 1 189.6248810 117.4495683";
    "  2 54.5247759 423.3986704 2 13.7449955 109.3247297";
    "  2 3.6813579 31.3701656 2 0.9461106 7.1241813";
    ""].

Definition lmol_ecp_dropped_stmt : Prop :=
  (* whatever the symbol and the four numbers are, the header the writer prints is no ECP header for the reader *)
  (forall sym tail, sall is_alpha sym = true -> match_ecp_line (sym +++ " ECP " +++ String ":" tail) = None) /\
  match_ecp_line "na ECP : 10 2 0 51" = None /\ match_shell_line "na ECP : 10 2 0 51" = None /\
  (* with a name it would be one *)
  match_ecp_line "na ECP LANL2DZ : 10 2 0 51" = Some ("na", "10", "2", "0", "51") /\
  (* the whole text of an ECP + orbital basis set: the electron shells come back, nothing else is noticed *)
  lmol_read_electron (splitlines exl_na_text) =
    inr [(11%Z, [mkShell "gto" "" [0%Z] ["0.4972000"; "0.0560000"; "0.0221000"]
                   [["-0.2753574"; "1.0989969"; "0.0"]; ["0.0"; "0.0"; "1.0000000"]];
                 mkShell "gto" "" [1%Z] ["0.6697000"; "0.0636000"; "0.0204000"]
                   [["-0.0683845"; "1.0140550"; "0.0"]; ["0.0"; "0.0"; "1.0000000"]]])].
