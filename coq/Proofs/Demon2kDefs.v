(* Statements about the deMon2k writer / reader pair (electron shells): what write_demon2k prints, read_demon2k reads back.
   Definitions only; the proofs are in Proofs/Demon2kSpec.v. *)
From BSE Require Import Model.Val Model.Text Model.Basis Model.Manip Model.Matrix Model.Lut Model.Elements Model.Nwchem
                        Model.Turbomole Model.Demon2k Proofs.MatrixDefs Proofs.NwchemDefs.

(* ---------- well-formed input of the writer (what is left after uncontract_spdf / uncontract_general / sort_basis) ---------- *)
Definition d2k_shell_ok (s : sshell) : Prop :=
  (* at least one primitive *)
  exps s <> [] /\
  (* exactly one angular momentum (uncontract_spdf; the writer asserts it), and one for which lut.electron_shells_start
     (max_am = 20) has a principal quantum number: the writer indexes that list of 21 entries with it *)
  (exists a, am s = [a] /\ (0 <= a <= 20)%Z) /\
  (* exactly one contraction (uncontract_general; the reader asks for ngen = 1), with one coefficient per primitive *)
  (exists c, coefs s = [c] /\ List.length c = List.length (exps s)) /\
  (* every number is a string matching helpers.floating_re *)
  Forall floating (exps s) /\ Forall (Forall floating) (coefs s).

(* data.get('ecp_electrons', 0) must be a number of core electrons lut.electron_shells_start accepts
   (d2k_nelec_values_stmt lists them) *)
Definition d2k_nelec_ok (n : Z) : Prop := exists st, electron_shells_start n 20 = inr st.

Definition d2k_el_ok (e : Z * (Z * list sshell)) : Prop :=
  (1 <= fst e <= 118)%Z /\
  d2k_nelec_ok (fst (snd e)) /\
  (* at least one shell (with none the section has two lines and the reader wants three) *)
  snd (snd e) <> [] /\
  Forall d2k_shell_ok (snd (snd e)).

Definition d2k_ok (bsname : string) (els : list (Z * (Z * list sshell))) : Prop :=
  (* basis['name'] is printed between parentheses on the element line; orbital_re wants helpers.basis_name_re there:
     digits, then a letter, then letters, digits and - + * ( ) [ ] only.  "6-31G" is not such a name. *)
  basis_name_ok bsname = true /\
  (* at least one element with electron shells (the reader asserts that the file begins with an element line) *)
  els <> [] /\
  (* dictionary keys: pairwise distinct atomic numbers *)
  NoDup (map fst els) /\
  Forall d2k_el_ok els.

(* ---------- what comes back ---------- *)
(* the reader says "assuming always spherical": lut.function_type_from_am([am], 'gto', 'spherical') whatever the comment line
   of the file says; region is ''; the numbers as normalised by the matrix round trip (d/D -> e/E, nothing else) *)
Definition d2k_expected_shell (s : sshell) : sshell := nw_expected_shell "spherical" s.
Definition d2k_expected (els : list (Z * (Z * list sshell))) : list (Z * list sshell) :=
  map (fun e => (fst e, map d2k_expected_shell (snd (snd e)))) els.

(* ---------- statements ---------- *)
(* the writer does not fail on well-formed input *)
Definition d2k_write_total_stmt : Prop :=
  forall sph bsname els, d2k_ok bsname els -> exists t, d2k_write_electron sph bsname els = inr t.

(* The full-strength round trip is FALSE for every well-formed input: the writer ends the text with `END` only when some
   element has an ECP, the reader refuses a non-empty text whose last line is not `END`. *)
Definition d2k_roundtrip_stmt : Prop :=
  forall sph bsname els, d2k_ok bsname els -> d2k_roundtrip sph bsname els = inr (d2k_expected els).
Definition d2k_roundtrip_noend_stmt : Prop :=
  forall sph bsname els, d2k_ok bsname els -> d2k_roundtrip sph bsname els = inl ERuntime.
Definition d2k_roundtrip_false_stmt : Prop := ~ d2k_roundtrip_stmt.

(* with the `END` line added: exactly the same elements, in order, with the same shells, in order *)
Definition d2k_roundtrip_partial_stmt : Prop :=
  forall sph bsname els, d2k_ok bsname els -> d2k_roundtrip_end sph bsname els = inr (d2k_expected els).

(* the electron counts lut.electron_shells_start accepts *)
Definition d2k_nelec_values : list Z :=
  [0; 2; 4; 10; 12; 18; 20; 28; 30; 36; 38; 46; 48; 54; 56; 60; 68; 70; 78; 80; 86; 88; 92; 102; 112; 118]%Z.
Definition d2k_nelec_values_stmt : Prop := forall n, d2k_nelec_ok n <-> In n d2k_nelec_values.

(* C04 direction: every exponent and every coefficient of the input (no coefficient is left out, no marker is converted:
   convert_exp=False) is a white-space delimited token of some line of the written text *)
Definition d2k_number_of (els : list (Z * (Z * list sshell))) (x : string) : Prop :=
  exists e s, In e els /\ In s (snd (snd e)) /\ (In x (exps s) \/ exists c, In c (coefs s) /\ In x c).
Definition d2k_no_number_lost_stmt : Prop :=
  forall sph bsname els t, d2k_ok bsname els -> d2k_write_electron sph bsname els = inr t ->
    forall x, d2k_number_of els x -> exists line, In line (splitlines t) /\ In x (tokens_acc line "").

(* ---------- the conditions of d2k_ok cannot be dropped ---------- *)
Definition cx_s : sshell := mkShell "gto" "valence" [0%Z] ["1.0"] [["1.0"]].
Definition cx_d : sshell := mkShell "gto_cartesian" "valence" [2%Z] ["0.8"] [["1.0"]].

(* VALID DATA 1: a basis set name that helpers.basis_name_re does not match (6-31G, 3-21G, def2-SVP is fine ...): the text is
   written, the reader's assert on the element line fails *)
Definition d2k_roundtrip_name_stmt : Prop :=
  basis_name_ok "6-31G" = false /\
  d2k_roundtrip_end false "6-31G" [(1%Z, (0%Z, [cx_s]))] = inl EAssert /\
  d2k_roundtrip_end false "G-631" [(1%Z, (0%Z, [cx_s]))] = inr [(1%Z, [mkShell "gto" "" [0%Z] ["1.0"] [["1.0"]]])].
(* VALID DATA 2: a cartesian basis comes back spherical (the comment line is the only place that says cartesian) *)
Definition d2k_roundtrip_cartesian_stmt : Prop :=
  d2k_roundtrip_end false "x" [(6%Z, (0%Z, [cx_d]))] = inr [(6%Z, [mkShell "gto_spherical" "" [2%Z] ["0.8"] [["1.0"]]])].
(* VALID DATA 3: angular momentum 21 and above: IndexError in the writer (shells_start has 21 entries) *)
Definition d2k_write_am21_stmt : Prop :=
  d2k_write_electron true "x" [(1%Z, (0%Z, [mkShell "gto_spherical" "" [21%Z] ["1.0"] [["1.0"]]]))] = inl EIndex /\
  exists t, d2k_write_electron true "x" [(1%Z, (0%Z, [mkShell "gto_spherical" "" [20%Z] ["1.0"] [["1.0"]]]))] = inr t.
(* an ECP that replaces a number of electrons that is not a sequence of closed shells: RuntimeError in the writer *)
Definition d2k_write_nelec_stmt : Prop :=
  d2k_write_electron true "x" [(3%Z, (3%Z, [cx_s]))] = inl ERuntime /\ ~ d2k_nelec_ok 3%Z.
(* no element: the text is the comment line (and END): one line, the reader wants three *)
Definition d2k_roundtrip_empty_stmt : Prop := d2k_roundtrip_end true "x" [] = inl ERuntime.
(* an element without shells *)
Definition d2k_roundtrip_noshell_stmt : Prop :=
  d2k_roundtrip_end true "x" [(1%Z, (0%Z, [cx_s])); (2%Z, (0%Z, []))] = inl ERuntime /\
  d2k_roundtrip_end true "x" [(2%Z, (0%Z, [])); (1%Z, (0%Z, [cx_s]))] = inl ERuntime.
(* two contractions in one shell (not left by uncontract_general): written, refused by the reader (ngen = 1);
   a fused shell (not left by uncontract_spdf): the writer's assert *)
Definition d2k_roundtrip_general_stmt : Prop :=
  d2k_roundtrip_end true "x" [(1%Z, (0%Z, [mkShell "gto" "" [0%Z] ["1.0"; "2.0"] [["1.0"; "0.0"]; ["0.0"; "1.0"]]]))] = inl ERuntime /\
  d2k_write_electron true "x" [(1%Z, (0%Z, [mkShell "gto" "" [0%Z; 1%Z] ["1.0"] [["1.0"]; ["1.0"]]]))] = inl EAssert.

(* ---------- a concrete instance: cc-pVDZ for H and C as write_demon2k sees it; exd_text is, byte for byte,
   basis_set_exchange.get_basis('cc-pvdz', elements=[1, 6], fmt='demon2k', header=False) ---------- *)
Definition exd_els : list (Z * (Z * list sshell)) :=
  [((1)%Z, ((0)%Z,
     [mkShell "gto" "" [(0)%Z] ["1.301000E+01"; "1.962000E+00"; "4.446000E-01"; "1.220000E-01"] [["1.968500E-02"; "1.379770E-01"; "4.781480E-01"; "5.012400E-01"]];
      mkShell "gto" "" [(0)%Z] ["1.220000E-01"] [["1.000000E+00"]];
      mkShell "gto" "" [(1)%Z] ["7.270000E-01"] [["1.0000000"]]]));
   ((6)%Z, ((0)%Z,
     [mkShell "gto" "" [(0)%Z] ["6.665000E+03"; "1.000000E+03"; "2.280000E+02"; "6.471000E+01"; "2.106000E+01"; "7.495000E+00"; "2.797000E+00"; "5.215000E-01"; "1.596000E-01"] [["6.920000E-04"; "5.329000E-03"; "2.707700E-02"; "1.017180E-01"; "2.747400E-01"; "4.485640E-01"; "2.850740E-01"; "1.520400E-02"; "-3.191000E-03"]];
      mkShell "gto" "" [(0)%Z] ["6.665000E+03"; "1.000000E+03"; "2.280000E+02"; "6.471000E+01"; "2.106000E+01"; "7.495000E+00"; "2.797000E+00"; "5.215000E-01"; "1.596000E-01"] [["-1.460000E-04"; "-1.154000E-03"; "-5.725000E-03"; "-2.331200E-02"; "-6.395500E-02"; "-1.499810E-01"; "-1.272620E-01"; "5.445290E-01"; "5.804960E-01"]];
      mkShell "gto" "" [(0)%Z] ["1.596000E-01"] [["1.000000E+00"]];
      mkShell "gto" "" [(1)%Z] ["9.439000E+00"; "2.002000E+00"; "5.456000E-01"; "1.517000E-01"] [["3.810900E-02"; "2.094800E-01"; "5.085570E-01"; "4.688420E-01"]];
      mkShell "gto" "" [(1)%Z] ["1.517000E-01"] [["1.000000E+00"]];
      mkShell "gto_spherical" "" [(2)%Z] ["5.500000E-01"] [["1.0000000"]]]))].
Definition exd_text : string :=
  String.concat nl1
   ["# This basis set uses spherical components";
    "";
    "O-HYDROGEN H (cc-pVDZ)";
    "# (5s,1p) -> [2s,1p]";
    "    3";
    "    1    0    4";
    "      1.301000E+01           1.968500E-02";
    "      1.962000E+00           1.379770E-01";
    "      4.446000E-01           4.781480E-01";
    "      1.220000E-01           5.012400E-01";
    "    2    0    1";
    "      1.220000E-01           1.000000E+00";
    "    2    1    1";
    "      7.270000E-01           1.0000000";
    "O-CARBON C (cc-pVDZ)";
    "# (19s,5p,1d) -> [3s,2p,1d]";
    "    6";
    "    1    0    9";
    "      6.665000E+03           6.920000E-04";
    "      1.000000E+03           5.329000E-03";
    "      2.280000E+02           2.707700E-02";
    "      6.471000E+01           1.017180E-01";
    "      2.106000E+01           2.747400E-01";
    "      7.495000E+00           4.485640E-01";
    "      2.797000E+00           2.850740E-01";
    "      5.215000E-01           1.520400E-02";
    "      1.596000E-01          -3.191000E-03";
    "    2    0    9";
    "      6.665000E+03          -1.460000E-04";
    "      1.000000E+03          -1.154000E-03";
    "      2.280000E+02          -5.725000E-03";
    "      6.471000E+01          -2.331200E-02";
    "      2.106000E+01          -6.395500E-02";
    "      7.495000E+00          -1.499810E-01";
    "      2.797000E+00          -1.272620E-01";
    "      5.215000E-01           5.445290E-01";
    "      1.596000E-01           5.804960E-01";
    "    3    0    1";
    "      1.596000E-01           1.000000E+00";
    "    2    1    4";
    "      9.439000E+00           3.810900E-02";
    "      2.002000E+00           2.094800E-01";
    "      5.456000E-01           5.085570E-01";
    "      1.517000E-01           4.688420E-01";
    "    3    1    1";
    "      1.517000E-01           1.000000E+00";
    "    3    2    1";
    "      5.500000E-01           1.0000000";
    ""].

Definition d2k_example_stmt : Prop :=
  d2k_ok "cc-pVDZ" exd_els /\
  d2k_write_electron true "cc-pVDZ" exd_els = inr exd_text /\
  d2k_roundtrip true "cc-pVDZ" exd_els = inl ERuntime /\
  d2k_roundtrip_end true "cc-pVDZ" exd_els = inr (d2k_expected exd_els) /\
  (* the only visible change: the region (and, for other inputs, the Fortran exponent marker and a cartesian function type) *)
  map (fun e => (fst e, map (fun s => mkShell (ftype s) "" (am s) (exps s) (coefs s)) (snd (snd e)))) exd_els = d2k_expected exd_els.
