(* Proofs of the statements of Proofs/GenbasDefs.v: the CFOUR / GENBAS text written by write_cfour (electron shells) is read
   back by read_genbas exactly (up to the exponent marker, the region and the function type, see c4_expected). *)
From BSE Require Import Model.Val Model.Text Model.Basis Model.Manip Model.Matrix Gen.GenLut Model.Lut Model.Elements
                        Model.Nwchem Model.NwchemEcp Model.Turbomole Model.Genbas Proofs.MatrixDefs Proofs.NwchemDefs
                        Proofs.C20Finite Proofs.TurbomoleDefs Proofs.GenbasDefs.
From BSE Require Proofs.ElementsSpec.
From BSE Require Import Proofs.HeaderSpec Proofs.PruneFS Proofs.MatrixSpec Proofs.NwchemSpec Proofs.TurbomoleSpec.

(* ================================================================== *)
(* 1. numbers: the marker conversion, tokens                           *)
(* ================================================================== *)
Definition c4c (c : ascii) : ascii := if Ascii.eqb c "E" then "D"%char else c.

Lemma smap_ext : forall f g s, (forall c, f c = g c) -> smap f s = smap g s.
Proof. intros f g s H; induction s as [|c s IH]; [reflexivity|]. cbn [smap]. now rewrite H, IH. Qed.

Lemma c4_norm : c4_norm_stmt.
Proof.
  intros x. unfold norm, replace_d, c4_dconv. rewrite smap_smap. apply smap_ext. intros c. all_chars c; reflexivity.
Qed.

Lemma c4_dconv_floating : forall s, is_floating (c4_dconv s) = is_floating s.
Proof. intros s. unfold c4_dconv. fold c4c. apply is_floating_smap; intros c; all_chars c; reflexivity. Qed.

Lemma c4c_space : forall c, is_space (c4c c) = is_space c.
Proof. intros c. all_chars c; reflexivity. Qed.

Lemma c4_dconv_tok : forall x, floating x -> tok_ok (c4_dconv x).
Proof. intros x H. apply floating_tok. now rewrite c4_dconv_floating. Qed.

Lemma floating_nobd : forall s, is_floating s = true -> sall nobd s = true.
Proof.
  intros s H. apply (sall_impl fchar); [|now apply floating_chars].
  intros c Hc. apply nobd_of_ascii; [apply fchar_not_space, Hc | apply fchar_ascii, Hc].
Qed.

(* the head of a number: a digit, a sign or the point *)
Definition numhd (c : ascii) : bool :=
  orb (is_digit c) (orb (Ascii.eqb c "-") (orb (Ascii.eqb c "+") (Ascii.eqb c "."))).
Lemma numhd_facts : forall c, numhd c = true ->
  is_alpha c = false /\ Ascii.eqb c "!" = false /\ Ascii.eqb c "#" = false /\ is_space c = false /\
  Ascii.eqb (lower_char c) "n" = false.
Proof. intros c H. all_chars c; try (repeat split; reflexivity); discriminate H. Qed.

Lemma floating_numhd : forall c t, is_floating (String c t) = true -> numhd c = true.
Proof. intros c t H. all_chars c; try reflexivity; exfalso; cbn in H; discriminate H. Qed.

(* a line whose first character is the head of a number *)
Definition nline (l : string) : Prop := exists c r, l = String c r /\ numhd c = true.

Lemma tokens_nline : forall row c t ts, tokens_acc row "" = String c t :: ts -> numhd c = true -> nline (strip_ws row).
Proof.
  intros row c t ts Ht Hc. destruct (tokens_first row _ ts Ht) as [c' [t' [y [E [El Hs]]]]].
  inversion E; subst c' t'. destruct (strip_first row c y El Hs) as [r Er]. exists c, r. split; assumption.
Qed.

(* words followed by one blank each: the tokens are the words *)
Definition jl (ch : list string) : string := String.concat "" ch.

Lemma tokens_blank_words : forall ws, Forall tok_ok ws ->
  tokens_acc (jl (map (fun w => w +++ " ") ws)) "" = ws.
Proof.
  induction ws as [|w ws IH]; intros H; [reflexivity|]. inversion H as [|? ? Hw Hws]; subst.
  unfold jl in *. cbn [map]. rewrite concat_cons, sapp_assoc. destruct Hw as [Hne Hs].
  rewrite (tokens_word w _ "" Hs), sapp_nil_r. cbn [String.append tokens_acc]. change (is_space " ") with true. cbv iota.
  destruct (srev w) as [|a r] eqn:E.
  - exfalso. apply Hne. rewrite <- (srev_involutive w), E. reflexivity.
  - rewrite <- E, srev_involutive, (IH Hws). reflexivity.
Qed.

(* ================================================================== *)
(* 2. str(int) in a '{:>5}' field                                      *)
(* ================================================================== *)
Definition numch (c : ascii) : bool := orb (is_digit c) (Ascii.eqb c "-").
Definition int_good (z : Z) : bool :=
  let s := Z_to_string z in
  Nat.leb (String.length s) 4 && is_integer s && Z.eqb (int_of_token s) z && sall numch s.
Lemma int_sweep : forallb int_good (zrange (-999) (Z.to_nat 10999)) = true.
Proof. vm_compute. reflexivity. Qed.

Lemma numch_facts : forall c, numch c = true -> is_space c = false /\ nobd c = true /\ numhd c = true.
Proof. intros c H. all_chars c; try (repeat split; reflexivity); discriminate H. Qed.

Lemma int_facts : forall z, (-1000 < z < 10000)%Z ->
  String.length (Z_to_string z) <= 4 /\ is_integer (Z_to_string z) = true /\ int_of_token (Z_to_string z) = z /\
  tok_ok (Z_to_string z) /\ sall nobd (Z_to_string z) = true /\
  exists c t, Z_to_string z = String c t /\ numhd c = true.
Proof.
  intros z Hz. assert (Hin : In z (zrange (-999) (Z.to_nat 10999))) by (apply zrange_In; lia).
  pose proof (proj1 (forallb_forall _ _) int_sweep z Hin) as H. unfold int_good in H. cbv zeta in H.
  rewrite !andb_true_iff in H. destruct H as [[[H1 H2] H3] H4].
  split; [now apply Nat.leb_le|]. split; [exact H2|]. split; [now apply Z.eqb_eq|].
  split; [split; [apply Z_to_string_ne|]; apply (sall_sany_false numch); [intros c Hc; apply (numch_facts c Hc) | exact H4]|].
  split; [apply (sall_impl numch); [intros c Hc; apply (numch_facts c Hc) | exact H4]|].
  pose proof (Z_to_string_ne z) as Hne. destruct (Z_to_string z) as [|c t]; [congruence|].
  exists c, t. split; [reflexivity|]. cbn [sall] in H4. apply andb_true_iff in H4. apply (numch_facts c), H4.
Qed.

Lemma nat_str_Z : forall n, nat_str n = Z_to_string (Z.of_nat n).
Proof. intros [|n]; reflexivity. Qed.

Lemma rjust_form : forall w k, String.length w <= k -> exists n, rjust (S k) w = sp (S n) +++ w.
Proof.
  intros w k H. unfold rjust. destruct (S k - String.length w) as [|n] eqn:E; [lia|]. exists n. reflexivity.
Qed.

Definition field_line (ws : list string) : string := String.concat "" (map (rjust 5) ws).

Lemma field_line_snoc : forall ws w, field_line (ws ++ [w]) = field_line ws +++ rjust 5 w.
Proof. intros ws w. unfold field_line. rewrite map_app, concat_app_s. reflexivity. Qed.

Lemma field_line_tokens : forall ws, Forall (fun w => tok_ok w /\ String.length w <= 4) ws ->
  tokens_acc (field_line ws) "" = ws.
Proof.
  induction ws as [|w ws IH] using rev_ind; intros H; [reflexivity|].
  apply Forall_app in H. destruct H as [Hws Hw]. inversion Hw as [|? ? [Ht Hl] _]; subst.
  rewrite field_line_snoc. destruct (rjust_form w 4 Hl) as [n ->].
  rewrite (tokens_snoc n w Ht), (IH Hws). reflexivity.
Qed.

Lemma sall_concat : forall p l, Forall (fun s => sall p s = true) l -> sall p (String.concat "" l) = true.
Proof.
  intros p; induction l as [|x l IH]; intros H; [reflexivity|]. inversion H; subst.
  rewrite concat_cons, sall_app. now rewrite H2, IH.
Qed.

Lemma rjust_nobd : forall k w, sall nobd w = true -> sall nobd (rjust k w) = true.
Proof. intros k w H. unfold rjust. rewrite sall_app, H, sall_sp; reflexivity. Qed.

Lemma field_line_good : forall ws, Forall (fun w => sall nobd w = true) ws -> good_line (field_line ws).
Proof.
  intros ws H. unfold good_line, field_line. apply sall_concat. rewrite Forall_forall in *. intros s Hs.
  apply in_map_iff in Hs. destruct Hs as [w [<- Hw]]. apply rjust_nobd, H, Hw.
Qed.

(* ================================================================== *)
(* 3. chunks                                                           *)
(* ================================================================== *)
Lemma chunks_fuel_concat : forall f n (data : list string), 0 < n -> List.length data <= f ->
  concat (chunks_fuel f n data) = data.
Proof.
  induction f as [|f IH]; intros n data Hn Hl.
  - destruct data; [reflexivity | cbn in Hl; lia].
  - destruct data as [|x d]; [reflexivity|]. cbn [chunks_fuel concat].
    rewrite IH; [apply firstn_skipn | exact Hn |]. rewrite skipn_length. cbn [List.length] in *. lia.
Qed.

Lemma chunks_concat : forall n (data : list string), 0 < n -> concat (chunks n data) = data.
Proof. intros n data Hn. apply chunks_fuel_concat; [exact Hn | lia]. Qed.

Lemma chunks_in : forall n (data : list string) ch x, 0 < n -> In ch (chunks n data) -> In x ch -> In x data.
Proof.
  intros n data ch x Hn Hch Hx. rewrite <- (chunks_concat n data Hn). apply in_concat. exists ch. split; assumption.
Qed.

Lemma chunks_cover : forall n (data : list string) x, 0 < n -> In x data -> exists ch, In ch (chunks n data) /\ In x ch.
Proof.
  intros n data x Hn Hx. rewrite <- (chunks_concat n data Hn) in Hx. apply in_concat in Hx.
  destruct Hx as [ch [H1 H2]]. exists ch. split; assumption.
Qed.

Lemma chunks_fuel_nonempty : forall f n (data : list string), 0 < n -> Forall (fun ch => ch <> []) (chunks_fuel f n data).
Proof.
  induction f as [|f IH]; intros n data Hn; [constructor|]. destruct data as [|x d]; [constructor|].
  cbn [chunks_fuel]. constructor; [|apply IH, Hn]. destruct n as [|n]; [lia|]. discriminate.
Qed.

(* ================================================================== *)
(* 4. finite facts about the element table                             *)
(* ================================================================== *)
(* the symbol as the writer prints it (upper case) is 1..3 letters and is mapped back *)
Definition symup (z : Z) : string := upper (symlo z).
Definition symup_good (z : Z) : bool :=
  match element_sym_from_Z z false with
  | inr s => negb (is_empty (upper s)) && sall is_alpha (upper s) && Nat.leb (String.length (upper s)) 3 &&
             res_eqb Z.eqb (element_Z_from_sym (upper s)) z
  | inl _ => false
  end.
Lemma symup_sweep : forallb symup_good (zrange 1 120) = true.
Proof. vm_compute. reflexivity. Qed.

Lemma symup_facts : forall z, (1 <= z <= 120)%Z ->
  element_sym_from_Z z false = inr (symlo z) /\ symup z <> "" /\ sall is_alpha (symup z) = true /\
  String.length (symup z) <= 3 /\ element_Z_from_sym (symup z) = inr z.
Proof.
  intros z Hz. assert (Hin : In z (zrange 1 120)) by (apply zrange_In; lia).
  pose proof (proj1 (forallb_forall _ _) symup_sweep z Hin) as H. unfold symup_good, symup, symlo in *.
  destruct (element_sym_from_Z z false) as [e|s]; [discriminate H|].
  rewrite !andb_true_iff in H. destruct H as [[[H1 H2] H3] H4].
  split; [reflexivity|]. split; [intros E; rewrite E in H1; discriminate H1|]. split; [exact H2|].
  split; [now apply Nat.leb_le | now apply res_eqb_Z].
Qed.

(* ================================================================== *)
(* 5. the lines the writer prints                                      *)
(* ================================================================== *)
Definition cshell_ok := c4_shell_ok.
Definition cel_ok (zs : Z * list sshell) : Prop := (1 <= fst zs <= 120)%Z /\ Forall c4_shell_ok (snd zs).

Definition am0 (s : sshell) : Z := match am s with a :: _ => a | [] => 0%Z end.
Definition exp_lines (s : sshell) : list string := map jl (chunks 5 (map c4_num (exps s))).
Definition coef_rows (s : sshell) : list (list string) := transpose (map (map c4_num) (coefs s)).
Definition coef_lines (s : sshell) : list string := flat_map (fun row => map jl (chunks 7 row)) (coef_rows s).
Definition sh_lines (s : sshell) : list string := (exp_lines s ++ "" :: coef_lines s) ++ [""].
Definition am_ws (shs : list sshell) : list string := map (fun s => Z_to_string (am0 s)) shs.
Definition ngen_ws (shs : list sshell) : list string := map (fun s => nat_str (List.length (coefs s))) shs.
Definition nprim_ws (shs : list sshell) : list string := map (fun s => nat_str (List.length (exps s))) shs.
Definition sym_line (name : string) (z : Z) : string := symup z +++ ":" +++ name.
Definition nsh_line (shs : list sshell) : string := rjust 3 (nat_str (List.length shs)).
Definition hdr7 (name desc : string) (zs : Z * list sshell) : list string :=
  [sym_line name (fst zs); desc; ""; nsh_line (snd zs); field_line (am_ws (snd zs)); field_line (ngen_ws (snd zs));
   field_line (nprim_ws (snd zs))].
Definition el_lines (name desc : string) (zs : Z * list sshell) : list string :=
  hdr7 name desc zs ++ "" :: flat_map sh_lines (snd zs).
Definition all_lines (name desc : string) (els : list (Z * list sshell)) : list string :=
  "" :: flat_map (el_lines name desc) els.

Lemma print_columns_lines : forall data n, print_columns data n = unlines (map jl (chunks n data)).
Proof. intros data n. unfold print_columns, unlines. rewrite map_map. reflexivity. Qed.

Lemma unlines_one : forall x, unlines [x] = x +++ nl1.
Proof. intros x. unfold unlines. cbn [map]. rewrite concat_cons. cbn [String.concat]. apply sapp_nil_r. Qed.

Lemma c4_write_shell_lines : forall s, c4_write_shell s = unlines (sh_lines s).
Proof.
  intros s. unfold c4_write_shell, sh_lines, exp_lines, coef_lines, coef_rows.
  rewrite (map_ext (fun c => print_columns c 7) (fun c => unlines (map jl (chunks 7 c))))
    by (intros c; apply print_columns_lines).
  rewrite !unlines_app, unlines_cons, unlines_one, print_columns_lines, <- unlines_flat_map, !sapp_assoc.
  reflexivity.
Qed.

Lemma am0_ok : forall s, c4_shell_ok s -> c4_am0 s = inr (am0 s).
Proof. intros s [_ [[l [E _]] _]]. unfold c4_am0, am0. rewrite E. reflexivity. Qed.

Lemma c4_write_element_lines : forall name desc zs, cel_ok zs ->
  c4_write_element name desc zs = inr (unlines (el_lines name desc zs)).
Proof.
  intros name desc [z shs] [Hz Hs]. cbn [fst snd] in *. destruct (symup_facts z Hz) as [Es _].
  unfold c4_write_element. rewrite Es. unfold bind at 1.
  rewrite (mapM_map_ok _ _ c4_am0 am0) by (intros s Hin; apply am0_ok; rewrite Forall_forall in Hs; apply Hs, Hin).
  unfold bind, ok, el_lines, hdr7, sym_line, nsh_line, field_line, am_ws, ngen_ws, nprim_ws, symup. cbn [fst snd].
  rewrite (map_ext c4_write_shell (fun s => unlines (sh_lines s)) c4_write_shell_lines).
  rewrite !map_map. cbn [app]. rewrite !unlines_cons, <- unlines_flat_map, !sapp_assoc. reflexivity.
Qed.

Lemma c4_ok_els : forall name desc els, c4_ok name desc els -> Forall cel_ok els.
Proof. intros name desc els [_ [_ [_ H]]]. exact H. Qed.

Lemma c4_write_electron_lines : forall name desc els, Forall cel_ok els ->
  c4_write_electron name desc els = inr (unlines (all_lines name desc els)).
Proof.
  intros name desc els Hel. unfold c4_write_electron.
  rewrite (mapM_map_ok _ _ (c4_write_element name desc) (fun zs => unlines (el_lines name desc zs))).
  - unfold bind, ok, all_lines. rewrite unlines_cons, unlines_flat_map. reflexivity.
  - intros zs Hin. apply c4_write_element_lines. rewrite Forall_forall in Hel. apply Hel, Hin.
Qed.

Lemma c4_write_total : c4_write_total_stmt.
Proof. intros name desc els H. eexists. apply c4_write_electron_lines, (c4_ok_els _ _ _ H). Qed.

(* ================================================================== *)
(* 6. number lines                                                     *)
(* ================================================================== *)
(* the line that prints the numbers xs *)
Definition num_line (xs : list string) : string := jl (map c4_num xs).

Lemma chunks_fuel_map : forall (g : string -> string) f n l,
  chunks_fuel f n (map g l) = map (map g) (chunks_fuel f n l).
Proof.
  intros g; induction f as [|f IH]; intros n l; [reflexivity|]. destruct l as [|x l]; [reflexivity|].
  cbn [chunks_fuel]. change (g x :: map g l) with (map g (x :: l)).
  rewrite firstn_map, skipn_map, IH. reflexivity.
Qed.

Lemma chunks_map : forall (g : string -> string) n l, chunks n (map g l) = map (map g) (chunks n l).
Proof. intros g n l. unfold chunks. rewrite map_length. apply chunks_fuel_map. Qed.

Lemma exp_lines_eq : forall s, exp_lines s = map num_line (chunks 5 (exps s)).
Proof. intros s. unfold exp_lines. rewrite chunks_map, map_map. reflexivity. Qed.

Definition trows (s : sshell) : list (list string) := transpose (coefs s).

Lemma coef_lines_eq : forall s, coef_lines s = flat_map (fun row => map num_line (chunks 7 row)) (trows s).
Proof.
  intros s. unfold coef_lines, coef_rows, trows. rewrite transpose_map, flat_map_map.
  apply flat_map_ext_in. intros row _. rewrite chunks_map, map_map. reflexivity.
Qed.

Lemma num_line_tokens : forall xs, Forall floating xs -> tokens_acc (num_line xs) "" = map c4_dconv xs.
Proof.
  intros xs H. unfold num_line, c4_num.
  rewrite <- (map_map c4_dconv (fun w => w +++ " ")). apply tokens_blank_words.
  rewrite Forall_forall in *. intros w Hw. apply in_map_iff in Hw. destruct Hw as [x [<- Hx]]. apply c4_dconv_tok, H, Hx.
Qed.

Lemma num_line_good : forall xs, Forall floating xs -> good_line (num_line xs).
Proof.
  intros xs H. unfold good_line, num_line, jl. apply sall_concat. rewrite Forall_forall in *. intros w Hw.
  apply in_map_iff in Hw. destruct Hw as [x [<- Hx]]. unfold c4_num. rewrite sall_app.
  rewrite (floating_nobd (c4_dconv x)) by (rewrite c4_dconv_floating; apply H, Hx). reflexivity.
Qed.

Lemma chunk_Forall : forall (P : string -> Prop) n l ch, 0 < n -> Forall P l -> In ch (chunks n l) -> Forall P ch.
Proof.
  intros P n l ch Hn H Hch. rewrite Forall_forall in *. intros x Hx. apply H. apply (chunks_in n l ch x Hn Hch Hx).
Qed.

(* what c4_shell_ok says about the transposed coefficient matrix *)
Lemma trows_facts : forall s, c4_shell_ok s ->
  List.length (trows s) = List.length (exps s) /\
  Forall (fun row => List.length row = List.length (coefs s)) (trows s) /\
  Forall (Forall floating) (trows s) /\
  List.length (coefs s) <> 0 /\ List.length (exps s) <> 0 /\
  transpose (map (map (norm false)) (trows s)) = map (map (norm false)) (coefs s).
Proof.
  intros s [Hex [_ [Hcne [HcF [_ [_ [_ Hc]]]]]]].
  destruct (transpose_spec string "" (List.length (exps s)) (coefs s) Hcne HcF) as [Tl _].
  assert (Hk : List.length (exps s) <> 0) by (destruct (exps s); [congruence | discriminate]).
  split; [exact Tl|]. split; [apply transpose_rowlen|]. split; [apply transpose_Forall, Hc|].
  split; [destruct (coefs s); [congruence | discriminate]|]. split; [exact Hk|].
  unfold trows. rewrite <- transpose_map.
  apply (transpose_involutive string "" (List.length (exps s))); [exact Hk | |].
  - destruct (coefs s); [congruence | discriminate].
  - rewrite Forall_forall in *. intros r Hr. apply in_map_iff in Hr. destruct Hr as [c [<- Hin]].
    rewrite map_length. apply HcF, Hin.
Qed.

Lemma sh_lines_good : forall s, c4_shell_ok s -> Forall good_line (sh_lines s).
Proof.
  intros s Hs. destruct (trows_facts s Hs) as [_ [_ [HT _]]]. destruct Hs as [_ [_ [_ [_ [_ [_ [He _]]]]]]].
  unfold sh_lines. apply Forall_app. split; [|repeat constructor]. apply Forall_app. split.
  - rewrite exp_lines_eq. rewrite Forall_forall. intros l Hl. apply in_map_iff in Hl. destruct Hl as [ch [<- Hch]].
    apply num_line_good. apply (chunk_Forall _ 5 (exps s)); [lia | exact He | exact Hch].
  - constructor; [reflexivity|]. rewrite coef_lines_eq. rewrite Forall_forall. intros l Hl. apply in_flat_map in Hl.
    destruct Hl as [row [Hrow Hl]]. apply in_map_iff in Hl. destruct Hl as [ch [<- Hch]].
    apply num_line_good. apply (chunk_Forall _ 7 row); [lia | | exact Hch]. rewrite Forall_forall in HT. apply HT, Hrow.
Qed.

Lemma shell_ints : forall s, c4_shell_ok s ->
  (-1000 < am0 s < 10000)%Z /\ am s = [am0 s] /\
  (-1000 < Z.of_nat (List.length (coefs s)) < 10000)%Z /\ (-1000 < Z.of_nat (List.length (exps s)) < 10000)%Z.
Proof.
  intros s [_ [[l [E Hl]] [_ [_ [H1 [H2 _]]]]]]. unfold am0. rewrite E. repeat split; try lia.
Qed.

Lemma ws_facts : forall shs, Forall c4_shell_ok shs ->
  let P := fun w => tok_ok w /\ String.length w <= 4 /\ sall nobd w = true /\ is_integer w = true in
  Forall P (am_ws shs) /\ Forall P (ngen_ws shs) /\ Forall P (nprim_ws shs).
Proof.
  intros shs H P. unfold am_ws, ngen_ws, nprim_ws. rewrite !Forall_forall. rewrite Forall_forall in H.
  split; [|split]; intros w Hw; apply in_map_iff in Hw; destruct Hw as [s [<- Hs]];
    destruct (shell_ints s (H s Hs)) as [H1 [_ [H2 H3]]]; rewrite ?nat_str_Z;
    match goal with |- P (Z_to_string ?z) => destruct (int_facts z) as [A [B [_ [C [D _]]]]]; [assumption|] end;
    (split; [exact C|]; split; [exact A|]; split; [exact D | exact B]).
Qed.

Lemma Forall_weaken : forall (A : Type) (P Q : A -> Prop) l, (forall x, P x -> Q x) -> Forall P l -> Forall Q l.
Proof. intros A P Q l H F. rewrite Forall_forall in *. intros x Hx. apply H, F, Hx. Qed.

Lemma name_good : forall s, sall tm_name_char s = true -> good_line s.
Proof. intros s H. apply (sall_impl tm_name_char nobd _ name_char_nobd H). Qed.

Lemma hdr7_good : forall name desc zs, c4_name_ok name -> c4_desc_ok desc -> cel_ok zs -> Forall good_line (hdr7 name desc zs).
Proof.
  intros name desc [z shs] Hn [Hd _] [Hz Hs]. cbn [fst snd] in *. destruct (symup_facts z Hz) as [_ [_ [Ha _]]].
  destruct (ws_facts shs Hs) as [W1 [W2 W3]].
  unfold hdr7. cbn [fst snd]. repeat constructor.
  - unfold sym_line, good_line. rewrite !sall_app, (sall_impl is_alpha nobd _ alpha_nobd Ha), (name_good name Hn). reflexivity.
  - apply name_good, Hd.
  - unfold nsh_line. apply rjust_nobd, nat_str_nobd.
  - apply field_line_good. eapply Forall_weaken; [|exact W1]. intros w Hw. apply Hw.
  - apply field_line_good. eapply Forall_weaken; [|exact W2]. intros w Hw. apply Hw.
  - apply field_line_good. eapply Forall_weaken; [|exact W3]. intros w Hw. apply Hw.
Qed.

Lemma all_lines_good : forall name desc els, c4_ok name desc els -> Forall good_line (all_lines name desc els).
Proof.
  intros name desc els H. pose proof (c4_ok_els _ _ _ H) as Hel. destruct H as [Hn [Hd _]].
  unfold all_lines. constructor; [reflexivity|]. rewrite Forall_forall in *. intros l Hl. apply in_flat_map in Hl.
  destruct Hl as [zs [Hzs Hl]]. unfold el_lines in Hl. apply in_app_or in Hl. destruct Hl as [Hl|[<-|Hl]]; [|reflexivity|].
  - pose proof (hdr7_good name desc zs Hn Hd (Hel zs Hzs)) as G. rewrite Forall_forall in G. apply G, Hl.
  - apply in_flat_map in Hl. destruct Hl as [s [Hs Hl]]. destruct (Hel zs Hzs) as [_ Hshs]. rewrite Forall_forall in Hshs.
    pose proof (sh_lines_good s (Hshs s Hs)) as G. rewrite Forall_forall in G. apply G, Hl.
Qed.

Lemma c4_written_lines : forall name desc els t, c4_ok name desc els -> c4_write_electron name desc els = inr t ->
  splitlines t = all_lines name desc els.
Proof.
  intros name desc els t H E. rewrite (c4_write_electron_lines name desc els (c4_ok_els _ _ _ H)) in E.
  inversion E; subst. apply splitlines_unlines, all_lines_good, H.
Qed.

(* ---------- c4_no_number_lost ---------- *)
Lemma c4_no_number_lost : c4_no_number_lost_stmt.
Proof.
  intros name desc els t H E x [zs [s [Hzs [Hs Hx]]]].
  rewrite (c4_written_lines name desc els t H E).
  pose proof (c4_ok_els _ _ _ H) as Hel. rewrite Forall_forall in Hel. destruct (Hel zs Hzs) as [_ Hshs].
  rewrite Forall_forall in Hshs. pose proof (Hshs s Hs) as Hok.
  destruct (trows_facts s Hok) as [_ [_ [HT _]]].
  assert (Hcase : exists xs, Forall floating xs /\ In x xs /\ In (num_line xs) (sh_lines s)).
  { destruct Hx as [Hx|[c [Hc Hx]]].
    - destruct (chunks_cover 5 (exps s) x) as [ch [Hch Hxc]]; [lia | exact Hx|]. exists ch.
      destruct Hok as [_ [_ [_ [_ [_ [_ [He _]]]]]]].
      split; [apply (chunk_Forall _ 5 (exps s)); [lia | exact He | exact Hch]|]. split; [exact Hxc|].
      unfold sh_lines. apply in_or_app. left. apply in_or_app. left. rewrite exp_lines_eq. apply in_map, Hch.
    - destruct Hok as [_ [_ [_ [HcF _]]]].
      destruct (transpose_has (coefs s) _ c x HcF Hc Hx) as [row [Hrow Hxr]].
      destruct (chunks_cover 7 row x) as [ch [Hch Hxc]]; [lia | exact Hxr|]. exists ch.
      rewrite Forall_forall in HT.
      split; [apply (chunk_Forall _ 7 row); [lia | apply HT, Hrow | exact Hch]|]. split; [exact Hxc|].
      unfold sh_lines. apply in_or_app. left. apply in_or_app. right. right. rewrite coef_lines_eq.
      apply in_flat_map. exists row. split; [exact Hrow | apply in_map, Hch]. }
  destruct Hcase as [xs [Hf [Hin Hl]]]. exists (num_line xs). split.
  - unfold all_lines. right. apply in_flat_map. exists zs. split; [exact Hzs|]. unfold el_lines.
    apply in_or_app. right. right. apply in_flat_map. exists s. split; [exact Hs | exact Hl].
  - rewrite (num_line_tokens xs Hf). apply in_map, Hin.
Qed.

(* ================================================================== *)
(* 7. strip()                                                          *)
(* ================================================================== *)
Lemma lstrip_snoc_eq : forall c Y, is_space c = false -> lstrip_ws (Y +++ String c "") = lstrip_ws Y +++ String c "".
Proof.
  intros c Y Hc; induction Y as [|a Y IH]; cbn [String.append lstrip_ws]; [now rewrite Hc|].
  destruct (is_space a); [exact IH | reflexivity].
Qed.

Lemma rstrip_cons : forall c y, is_space c = false -> rstrip_ws (String c y) = String c (rstrip_ws y).
Proof. intros c y Hc. unfold rstrip_ws. rewrite srev_cons, (lstrip_snoc_eq c _ Hc), srev_snoc. reflexivity. Qed.

Lemma rstrip_word : forall w r, sany is_space w = false -> rstrip_ws (w +++ r) = w +++ rstrip_ws r.
Proof.
  induction w as [|c w IH]; intros r H; [reflexivity|]. cbn [sany] in H. apply orb_false_iff in H. destruct H as [Hc Hw].
  cbn [String.append]. rewrite (rstrip_cons c _ Hc), (IH r Hw). reflexivity.
Qed.

Lemma strip_word_prefix : forall w r, tok_ok w -> strip_ws (w +++ r) = w +++ rstrip_ws r.
Proof. intros w r Hw. rewrite strip_rl, (lstrip_word w r Hw). apply rstrip_word, Hw. Qed.

Lemma strip_tok : forall w, tok_ok w -> strip_ws w = w.
Proof. intros w Hw. rewrite <- (sapp_nil_r w) at 1. rewrite (strip_word_prefix w "" Hw). apply sapp_nil_r. Qed.

(* ================================================================== *)
(* 8. the lines after strip(): what the reader's tests say about them  *)
(* ================================================================== *)
Definition keepf (l : string) : bool := orb (is_empty l) (negb (first_in "!#" l)).
Definition el_cond (l : string) : res bool := ok (is_c4_element_line l).

(* a line that is kept, is not an element line and not an ECP header *)
Definition plain (l : string) : Prop := keepf l = true /\ el_cond l = inr false /\ is_ecp_block_line l = false.

Lemma plain_blank : plain "".
Proof. repeat split. Qed.

Lemma nline_plain : forall l, nline l -> plain l /\ is_empty l = false.
Proof.
  intros l [c [r [-> Hc]]]. destruct (numhd_facts c Hc) as [H1 [H2 [H3 [_ H5]]]]. split; [|reflexivity]. split; [|split].
  - unfold keepf. cbn [is_empty first_in sany orb]. rewrite H2, H3. reflexivity.
  - unfold el_cond, is_c4_element_line, match_c4_element_line. cbn [span_alpha]. rewrite H1. reflexivity.
  - unfold is_ecp_block_line, match_ecp_block. cbn [strip_prefix_ci]. rewrite H5. reflexivity.
Qed.

(* ---- the element line ---- *)
Definition sym_p (name : string) (z : Z) : string := strip_ws (sym_line name z).

Lemma span_alpha_stop : forall a c r, sall is_alpha a = true -> is_alpha c = false ->
  span_alpha (a +++ String c r) = (a, String c r).
Proof.
  induction a as [|x a IH]; intros c r H Hc.
  - cbn [String.append span_alpha]. now rewrite Hc.
  - cbn [sall] in H. apply andb_true_iff in H. destruct H as [Hx Ha].
    cbn [String.append span_alpha]. rewrite Hx, (IH c r Ha Hc). reflexivity.
Qed.

Lemma sym_p_form : forall name z, (1 <= z <= 120)%Z -> sym_p name z = symup z +++ String ":" (rstrip_ws name).
Proof.
  intros name z Hz. destruct (symup_facts z Hz) as [_ [Hne [Ha _]]].
  unfold sym_p, sym_line. change (symup z +++ ":" +++ name) with (symup z +++ String ":" name).
  replace (symup z +++ String ":" name) with ((symup z +++ ":") +++ name) by (rewrite sapp_assoc; reflexivity).
  rewrite strip_word_prefix.
  - rewrite sapp_assoc. reflexivity.
  - split.
    + destruct (symup z); [congruence | discriminate].
    + rewrite sany_app. cbn [sany]. change (is_space ":") with false.
      destruct (alpha_word_tok _ Hne Ha) as [_ ->]. reflexivity.
Qed.

Lemma ecp_prefix_short : forall a r, sall is_alpha a = true -> a <> "" -> String.length a <= 3 ->
  match_ecp_block (a +++ String ":" r) = None.
Proof.
  intros a r Ha Hne Hl. unfold match_ecp_block.
  destruct a as [|c1 [|c2 [|c3 [|c4 a]]]]; [congruence | | | | cbn [String.length] in Hl; lia];
    cbn [String.append strip_prefix_ci];
    repeat match goal with
           | |- context [Ascii.eqb (lower_char c1) ?k] => destruct (Ascii.eqb (lower_char c1) k)
           | |- context [Ascii.eqb (lower_char c2) ?k] => destruct (Ascii.eqb (lower_char c2) k)
           | |- context [Ascii.eqb (lower_char c3) ?k] => destruct (Ascii.eqb (lower_char c3) k)
           end; reflexivity.
Qed.

Lemma sym_p_facts : forall name z, (1 <= z <= 120)%Z ->
  keepf (sym_p name z) = true /\ el_cond (sym_p name z) = inr true /\ is_ecp_block_line (sym_p name z) = false /\
  parse_c4_element_line (sym_p name z) = inr (symup z) /\ sym_p name z <> "".
Proof.
  intros name z Hz. rewrite (sym_p_form name z Hz). destruct (symup_facts z Hz) as [_ [Hne [Ha [Hl _]]]].
  assert (Hm : match_c4_element_line (symup z +++ String ":" (rstrip_ws name)) = Some (symup z)).
  { unfold match_c4_element_line. rewrite (span_alpha_stop _ ":" _ Ha eq_refl).
    destruct (symup z) as [|c0 a']; [congruence|]. apply Nat.leb_le in Hl. rewrite Hl. reflexivity. }
  split; [|split; [|split; [|split]]].
  - destruct (symup z) as [|c0 a'] eqn:E; [congruence|]. cbn [sall] in Ha. apply andb_true_iff in Ha. destruct Ha as [Hc _].
    unfold keepf. cbn [String.append is_empty first_in sany orb].
    assert (Hx : Ascii.eqb c0 "!" = false /\ Ascii.eqb c0 "#" = false) by (clear -Hc; all_chars c0; try (split; reflexivity); discriminate Hc).
    destruct Hx as [-> ->]. reflexivity.
  - unfold el_cond, is_c4_element_line. now rewrite Hm.
  - unfold is_ecp_block_line. now rewrite (ecp_prefix_short _ _ Ha Hne Hl).
  - unfold parse_c4_element_line. now rewrite Hm.
  - destruct (symup z); [congruence | discriminate].
Qed.

(* ---- the description ---- *)
Lemma desc_p_facts : forall desc, c4_desc_ok desc -> keepf (strip_ws desc) = true /\ is_ecp_block_line (strip_ws desc) = false.
Proof. intros desc [_ [H1 H2]]. split; [|exact H2]. unfold keepf. rewrite H1. apply orb_true_r. Qed.

(* ---- nshell ---- *)
Lemma nsh_strip : forall shs, strip_ws (nsh_line shs) = nat_str (List.length shs).
Proof. intros shs. unfold nsh_line, rjust. rewrite strip_sp. apply strip_tok, nat_str_tok. Qed.

Lemma nat_str_nline : forall n, nline (nat_str n).
Proof.
  intros n. pose proof (nat_str_digits n) as Hd. pose proof (nat_str_ne n) as Hne. destruct (nat_str n) as [|c r]; [congruence|].
  cbn [sall] in Hd. apply andb_true_iff in Hd. destruct Hd as [Hd _]. exists c, r. split; [reflexivity|].
  unfold numhd. now rewrite Hd.
Qed.

Lemma parse_nshell_ok : forall n, parse_nshell (nat_str n) = inr (Z.of_nat n).
Proof.
  intros n. unfold parse_nshell, isdecimal. pose proof (nat_str_ne n) as Hne. rewrite nat_str_digits, nat_str_val.
  destruct (nat_str n); [congruence | reflexivity].
Qed.

(* ---- the three lines of integer fields ---- *)
Definition fl_p (ws : list string) : string := strip_ws (field_line ws).
Definition ws_ok (w : string) : Prop := tok_ok w /\ String.length w <= 4 /\ sall nobd w = true /\ is_integer w = true.

Lemma integer_numhd : forall c t, is_integer (String c t) = true -> numhd c = true.
Proof. intros c t H. all_chars c; try reflexivity; exfalso; cbn in H; discriminate H. Qed.

Lemma fl_p_facts : forall ws, Forall ws_ok ws ->
  plain (fl_p ws) /\ (ws <> [] -> split_ws (strip_ws (fl_p ws)) = ws).
Proof.
  intros ws H.
  assert (Ht : tokens_acc (field_line ws) "" = ws).
  { apply field_line_tokens. eapply Forall_weaken; [|exact H]. intros w [A [B _]]. split; assumption. }
  destruct ws as [|w ws]; [split; [exact plain_blank | congruence]|].
  inversion H as [|? ? [[Hne _] [_ [_ Hi]]] _]; subst. destruct w as [|c t]; [congruence|].
  split.
  - apply nline_plain. unfold fl_p. apply (tokens_nline _ c t ws Ht). apply (integer_numhd c t Hi).
  - intros _. unfold split_ws, fl_p. rewrite !tokens_strip, Ht. reflexivity.
Qed.

(* ---- number lines ---- *)
Definition nl_p (xs : list string) : string := strip_ws (num_line xs).

Lemma nl_p_facts : forall xs, xs <> [] -> Forall floating xs ->
  nline (nl_p xs) /\ split_ws (strip_ws (replace_d (nl_p xs))) = map (norm false) xs.
Proof.
  intros xs Hne Hf. pose proof (num_line_tokens xs Hf) as Ht.
  destruct xs as [|x xs]; [congruence|]. inversion Hf as [|? ? Hx _]; subst.
  assert (Hfx : is_floating (c4_dconv x) = true) by (rewrite c4_dconv_floating; exact Hx).
  cbn [map] in Ht. destruct (c4_dconv x) as [|c t] eqn:Ex; [discriminate Hfx|].
  split.
  - unfold nl_p. apply (tokens_nline _ c t _ Ht). apply (floating_numhd c t Hfx).
  - unfold split_ws, nl_p. rewrite tokens_strip.
    pose proof (tokens_read false (num_line (x :: xs))) as Hr. cbn [conv_text] in Hr. rewrite Hr, Ht, <- Ex.
    change (c4_dconv x :: map c4_dconv xs) with (map c4_dconv (x :: xs)). rewrite map_map.
    rewrite (map_ext (fun y => norm false (c4_dconv y)) (norm false)).
    + reflexivity.
    + intros y. unfold norm at 1. apply c4_norm.
Qed.

(* ================================================================== *)
(* 9. the stripped lines of a shell, of an element, of the file        *)
(* ================================================================== *)
Definition E_p (s : sshell) : list string := map nl_p (chunks 5 (exps s)).
Definition row_p (row : list string) : list string := map nl_p (chunks 7 row).
Definition C_p (s : sshell) : list string := flat_map row_p (trows s).
Definition shb (s : sshell) : list string := "" :: E_p s ++ "" :: C_p s.
Definition body_p (shs : list sshell) : list string := flat_map shb shs.
Definition hdr_p (name desc : string) (zs : Z * list sshell) : list string :=
  [sym_p name (fst zs); strip_ws desc; ""; nat_str (List.length (snd zs)); fl_p (am_ws (snd zs)); fl_p (ngen_ws (snd zs));
   fl_p (nprim_ws (snd zs))].
Definition el_p (name desc : string) (zs : Z * list sshell) : list string :=
  hdr_p name desc zs ++ body_p (snd zs) ++ [""].

Lemma strip_sh_lines : forall s, map strip_ws (sh_lines s) = (E_p s ++ "" :: C_p s) ++ [""].
Proof.
  intros s. unfold sh_lines. rewrite !map_app. cbn [map]. rewrite exp_lines_eq, coef_lines_eq, map_map, map_flat_map.
  unfold E_p, C_p, row_p, nl_p. f_equal. f_equal. f_equal. apply flat_map_ext_in. intros row _. now rewrite map_map.
Qed.

Lemma strip_el_lines : forall name desc zs, map strip_ws (el_lines name desc zs) = el_p name desc zs.
Proof.
  intros name desc [z shs]. unfold el_lines, el_p, hdr7, hdr_p, body_p, shb. cbn [fst snd app map].
  rewrite nsh_strip, map_flat_map.
  rewrite (flat_map_ext_in _ _ (fun s => map strip_ws (sh_lines s)) (fun s => (E_p s ++ "" :: C_p s) ++ [""]) shs)
    by (intros s _; apply strip_sh_lines).
  change (strip_ws "") with "". rewrite (flat_map_sep _ _ "" (fun s => E_p s ++ "" :: C_p s) shs). reflexivity.
Qed.

Lemma strip_all_lines : forall name desc els,
  map strip_ws (all_lines name desc els) = "" :: flat_map (el_p name desc) els.
Proof.
  intros name desc els. unfold all_lines. cbn [map]. rewrite map_flat_map. f_equal.
  apply flat_map_ext_in. intros zs _. apply strip_el_lines.
Qed.

Lemma chunks_ne : forall n (l : list string) ch, 0 < n -> In ch (chunks n l) -> ch <> [].
Proof.
  intros n l ch Hn Hch. pose proof (chunks_fuel_nonempty (List.length l) n l Hn) as H. rewrite Forall_forall in H. apply H, Hch.
Qed.

Lemma E_p_nline : forall s, c4_shell_ok s -> Forall nline (E_p s).
Proof.
  intros s Hs. destruct Hs as [_ [_ [_ [_ [_ [_ [He _]]]]]]]. unfold E_p. rewrite Forall_forall. intros l Hl.
  apply in_map_iff in Hl. destruct Hl as [ch [<- Hch]].
  apply nl_p_facts; [apply (chunks_ne 5 (exps s)); [lia | exact Hch] | apply (chunk_Forall _ 5 (exps s)); [lia | exact He | exact Hch]].
Qed.

Lemma row_p_nline : forall row, Forall floating row -> Forall nline (row_p row).
Proof.
  intros row Hr. unfold row_p. rewrite Forall_forall. intros l Hl. apply in_map_iff in Hl. destruct Hl as [ch [<- Hch]].
  apply nl_p_facts; [apply (chunks_ne 7 row); [lia | exact Hch] | apply (chunk_Forall _ 7 row); [lia | exact Hr | exact Hch]].
Qed.

Lemma C_p_nline : forall s, c4_shell_ok s -> Forall nline (C_p s).
Proof.
  intros s Hs. destruct (trows_facts s Hs) as [_ [_ [HT _]]]. unfold C_p. rewrite Forall_forall in *. intros l Hl.
  apply in_flat_map in Hl. destruct Hl as [row [Hrow Hl]]. pose proof (row_p_nline row (HT row Hrow)) as G.
  rewrite Forall_forall in G. apply G, Hl.
Qed.

Lemma chunks_nil_inv : forall n (l : list string), chunks n l = [] -> l = [].
Proof. intros n [|x l] H; [reflexivity|]. discriminate H. Qed.

Lemma C_p_ne : forall s, c4_shell_ok s -> C_p s <> [].
Proof.
  intros s Hs. destruct (trows_facts s Hs) as [Tl [Tr [_ [Hg [Hp _]]]]]. unfold C_p.
  destruct (trows s) as [|row T]; [cbn in Tl; lia|]. inversion Tr as [|? ? Hrow _]; subst.
  cbn [flat_map]. unfold row_p. destruct row as [|x row]; [cbn in Hrow; lia|]. discriminate.
Qed.

Lemma shb_plain : forall s, c4_shell_ok s -> Forall plain (shb s).
Proof.
  intros s Hs. unfold shb. constructor; [exact plain_blank|]. apply Forall_app. split.
  - eapply Forall_weaken; [|exact (E_p_nline s Hs)]. intros l Hl. apply nline_plain, Hl.
  - constructor; [exact plain_blank|]. eapply Forall_weaken; [|exact (C_p_nline s Hs)]. intros l Hl. apply nline_plain, Hl.
Qed.

Lemma body_plain : forall shs, Forall c4_shell_ok shs -> Forall plain (body_p shs).
Proof.
  intros shs H. unfold body_p. rewrite Forall_forall in *. intros l Hl. apply in_flat_map in Hl. destruct Hl as [s [Hs Hl]].
  pose proof (shb_plain s (H s Hs)) as G. rewrite Forall_forall in G. apply G, Hl.
Qed.

Lemma ws_ok_all : forall shs, Forall c4_shell_ok shs ->
  Forall ws_ok (am_ws shs) /\ Forall ws_ok (ngen_ws shs) /\ Forall ws_ok (nprim_ws shs).
Proof. intros shs H. exact (ws_facts shs H). Qed.

(* the last line of the body of an element that has shells is a number line *)
Lemma body_last : forall shs, shs <> [] -> Forall c4_shell_ok shs -> exists c x, body_p shs = c ++ [x] /\ x <> "".
Proof.
  intros shs Hne H. destruct (exists_last Hne) as [shs' [s ->]]. apply Forall_app in H. destruct H as [_ Hs].
  inversion Hs as [|? ? Hok _]; subst.
  destruct (exists_last (C_p_ne s Hok)) as [c' [x Ec]].
  exists (body_p shs' ++ "" :: E_p s ++ "" :: c'), x. split.
  - unfold body_p. rewrite flat_map_app. cbn [flat_map]. rewrite app_nil_r. unfold shb at 2. rewrite Ec.
    rewrite <- !app_assoc. cbn [app]. rewrite <- app_assoc. reflexivity.
  - pose proof (C_p_nline s Hok) as G. rewrite Ec in G. apply Forall_app in G. destruct G as [_ G].
    inversion G as [|? ? [c0 [r [-> _]]] _]; subst. discriminate.
Qed.

(* ================================================================== *)
(* 10. read_n_floats / parse_fixed_matrix on the printed columns       *)
(* ================================================================== *)
Lemma read_float_tokens_done : forall lines n found, (Z.of_nat (List.length found) <? n)%Z = false ->
  read_float_tokens lines n found = inr (found, lines).
Proof. intros [|l t] n found H; cbn [read_float_tokens]; rewrite H; reflexivity. Qed.

Lemma read_float_tokens_step : forall l t n found, (Z.of_nat (List.length found) <? n)%Z = true -> is_empty l = false ->
  read_float_tokens (l :: t) n found = read_float_tokens t n (found ++ split_ws (strip_ws (replace_d l))).
Proof. intros l t n found H1 H2. cbn [read_float_tokens]. rewrite H1, H2. reflexivity. Qed.

Lemma read_float_chunks : forall f n xs found rest N, 0 < n -> List.length xs <= f -> Forall floating xs ->
  Z.of_nat (List.length found + List.length xs) = N ->
  read_float_tokens (map nl_p (chunks_fuel f n xs) ++ rest) N found = inr (found ++ map (norm false) xs, rest).
Proof.
  induction f as [|f IH]; intros n xs found rest N Hn Hl Hf HN.
  - destruct xs; [|cbn in Hl; lia]. cbn [chunks_fuel map app]. rewrite app_nil_r. apply read_float_tokens_done.
    cbn [List.length] in HN. lia.
  - destruct xs as [|x xs]. { cbn [chunks_fuel map app]. rewrite app_nil_r. apply read_float_tokens_done. cbn [List.length] in HN. lia. }
    cbn [chunks_fuel map app].
    set (ch := firstn n (x :: xs)). set (tl := skipn n (x :: xs)).
    assert (Hsplit : ch ++ tl = x :: xs) by apply firstn_skipn.
    assert (Hch : ch <> []) by (unfold ch; destruct n; [lia | discriminate]).
    assert (Hfch : Forall floating ch /\ Forall floating tl) by (apply Forall_app; rewrite Hsplit; exact Hf).
    destruct Hfch as [Hfc Hft]. destruct (nl_p_facts ch Hch Hfc) as [Hnl Hsp].
    rewrite read_float_tokens_step; [| cbn [List.length] in HN; lia | apply nline_plain, Hnl].
    rewrite Hsp, (IH n tl (found ++ map (norm false) ch) rest N Hn); [| | exact Hft |].
    + rewrite <- app_assoc, <- map_app, Hsplit. reflexivity.
    + unfold tl. rewrite skipn_length. cbn [List.length] in *. lia.
    + rewrite app_length, map_length, <- HN, <- Hsplit, app_length. lia.
Qed.

Lemma read_n_floats_chunks : forall n xs rest, 0 < n -> Forall floating xs ->
  read_n_floats (map nl_p (chunks n xs) ++ rest) (Z.of_nat (List.length xs)) = inr (map (norm false) xs, rest).
Proof.
  intros n xs rest Hn Hf. unfold read_n_floats, chunks.
  rewrite (read_float_chunks (List.length xs) n xs [] rest (Z.of_nat (List.length xs)) Hn (le_n _) Hf eq_refl). unfold bind. cbn [app].
  rewrite map_length, Z.eqb_refl. cbn [negb].
  assert (Hall : forallb is_floating (map (norm false) xs) = true).
  { apply forallb_forall. intros y Hy. apply in_map_iff in Hy. destruct Hy as [x [<- Hx]]. rewrite is_floating_norm.
    rewrite Forall_forall in Hf. apply Hf, Hx. }
  rewrite Hall. reflexivity.
Qed.

Lemma parse_fixed_rows : forall T ngen rest, Forall (fun row => List.length row = ngen) T -> Forall (Forall floating) T ->
  parse_fixed_matrix_go (List.length T) (Z.of_nat ngen) (flat_map row_p T ++ rest) = inr (map (map (norm false)) T, rest).
Proof.
  induction T as [|row T IH]; intros ngen rest Hl Hf; [reflexivity|].
  inversion Hl as [|? ? Hrow Hl']; subst. inversion Hf as [|? ? Hfr Hf']; subst.
  cbn [List.length parse_fixed_matrix_go flat_map]. rewrite <- app_assoc. unfold row_p at 1.
  rewrite (read_n_floats_chunks 7 row _ (Nat.lt_0_succ _) Hfr). unfold bind at 1.
  rewrite (IH (List.length row) rest Hl' Hf'). reflexivity.
Qed.

(* ================================================================== *)
(* 11. one shell                                                       *)
(* ================================================================== *)
Definition idx_of (s : sshell) : Z * Z * Z := (am0 s, Z.of_nat (List.length (coefs s)), Z.of_nat (List.length (exps s))).

Lemma remove_blank : forall t, remove_expected_line ("" :: t) "" 0 = inr t.
Proof. reflexivity. Qed.

Lemma parse_shell_ok : forall s rest, c4_shell_ok s ->
  c4_parse_shell (am0 s) (Z.of_nat (List.length (coefs s))) (Z.of_nat (List.length (exps s))) (shb s ++ rest) =
    inr (c4_expected_shell s, rest).
Proof.
  intros s rest Hs. destruct (trows_facts s Hs) as [Tl [Tr [HT [_ [_ Htr]]]]]. destruct (shell_ints s Hs) as [_ [Ea _]].
  pose proof Hs as [_ [_ [_ [_ [_ [_ [He _]]]]]]].
  unfold c4_parse_shell. rewrite tm_ftype_ok. unfold bind at 1.
  unfold shb. cbn [app]. rewrite remove_blank. unfold bind at 1.
  rewrite <- app_assoc. unfold E_p. rewrite (read_n_floats_chunks 5 (exps s) _ (Nat.lt_0_succ _) He). unfold bind at 1.
  cbn [app]. rewrite remove_blank. unfold bind at 1.
  unfold parse_fixed_matrix. rewrite Nat2Z.id, <- Tl. unfold C_p.
  rewrite (parse_fixed_rows (trows s) (List.length (coefs s)) rest Tr HT). unfold bind, ok.
  rewrite Htr. unfold c4_expected_shell. rewrite Ea. reflexivity.
Qed.

Lemma parse_shells_ok : forall z shs rest d l, Forall c4_shell_ok shs -> ~ In z (map fst d) ->
  c4_parse_shells z (map idx_of shs) (body_p shs ++ rest) (d ++ [(z, l)]) =
    inr (rest, d ++ [(z, l ++ map c4_expected_shell shs)]).
Proof.
  intros z; induction shs as [|s shs IH]; intros rest d l Hs Hd.
  - cbn [map c4_parse_shells body_p flat_map app]. now rewrite app_nil_r.
  - inversion Hs as [|? ? H1 H2]; subst. cbn [map c4_parse_shells]. unfold idx_of at 1.
    unfold body_p. cbn [flat_map]. rewrite <- app_assoc. rewrite (parse_shell_ok s _ H1). unfold bind.
    rewrite (append_shell_last z _ l d Hd). fold (body_p shs).
    rewrite (IH rest d _ H2 Hd), <- app_assoc. reflexivity.
Qed.

(* ================================================================== *)
(* 12. the integer lines                                               *)
(* ================================================================== *)
Lemma read_int_tokens_done : forall lines n found, (Z.of_nat (List.length found) <? n)%Z = false ->
  read_int_tokens lines n found = inr (found, lines).
Proof. intros [|l t] n found H; cbn [read_int_tokens]; rewrite H; reflexivity. Qed.

Lemma read_ints_line : forall ws rest, ws <> [] -> Forall ws_ok ws ->
  read_n_integers (fl_p ws :: rest) (Z.of_nat (List.length ws)) = inr (map int_of_token ws, rest).
Proof.
  intros ws rest Hne H. destruct (fl_p_facts ws H) as [_ Hsp]. specialize (Hsp Hne).
  unfold read_n_integers. cbn [read_int_tokens List.length].
  assert (Hlt : (Z.of_nat 0 <? Z.of_nat (List.length ws))%Z = true) by (apply Z.ltb_lt; destruct ws; [congruence | cbn [List.length]; lia]).
  rewrite Hlt, Hsp. cbn [app]. rewrite read_int_tokens_done by apply Z.ltb_irrefl. unfold bind. rewrite Z.eqb_refl. cbn [negb].
  assert (Hall : forallb is_integer ws = true).
  { apply forallb_forall. intros w Hw. rewrite Forall_forall in H. apply (H w Hw). }
  rewrite Hall. reflexivity.
Qed.

Lemma read_ints_none : forall lines, read_n_integers lines 0 = inr ([], lines).
Proof. intros lines. unfold read_n_integers. rewrite read_int_tokens_done by reflexivity. reflexivity. Qed.

Lemma ints_back : forall shs, Forall c4_shell_ok shs ->
  map int_of_token (am_ws shs) = map am0 shs /\
  map int_of_token (ngen_ws shs) = map (fun s => Z.of_nat (List.length (coefs s))) shs /\
  map int_of_token (nprim_ws shs) = map (fun s => Z.of_nat (List.length (exps s))) shs.
Proof.
  intros shs H. unfold am_ws, ngen_ws, nprim_ws. rewrite !map_map. rewrite Forall_forall in H.
  split; [|split]; apply map_ext_in; intros s Hs; destruct (shell_ints s (H s Hs)) as [H1 [_ [H2 H3]]]; rewrite ?nat_str_Z;
    match goal with |- int_of_token (Z_to_string ?z) = _ => destruct (int_facts z) as [_ [_ [E _]]]; [assumption | exact E] end.
Qed.

Lemma combine3 : forall (shs : list sshell) (f g h : sshell -> Z),
  combine (combine (map f shs) (map g shs)) (map h shs) = map (fun s => (f s, g s, h s)) shs.
Proof. intros shs f g h; induction shs as [|s shs IH]; [reflexivity|]. cbn [map combine]. now rewrite IH. Qed.

(* ================================================================== *)
(* 13. one element block                                               *)
(* ================================================================== *)
Definition blanks (k : nat) : list string := repeat "" k.

Lemma prune_blanks : forall k, prune_lines (blanks k) "*" true true = [].
Proof.
  intros k. rewrite pr_unfold by reflexivity. induction k as [|k IH]; [reflexivity|]. cbn [blanks repeat map filter]. exact IH.
Qed.

Lemma prune_app_blanks : forall a k, Forall (fun l => l = "") a -> prune_lines (a ++ blanks k) "*" true true = [].
Proof.
  intros a k H. rewrite pr_app by reflexivity. rewrite prune_blanks, app_nil_r.
  rewrite pr_unfold by reflexivity. induction a as [|x a IH]; [reflexivity|]. inversion H; subst. cbn [map filter]. apply IH. assumption.
Qed.

Lemma isdecimal_nat_str : forall n, isdecimal (nat_str n) = true.
Proof. intros n. unfold isdecimal. pose proof (nat_str_ne n). rewrite nat_str_digits. destruct (nat_str n); [congruence | reflexivity]. Qed.

(* an element block without its trailing blank lines: tr of them follow in the stripped text *)
Definition core (name desc : string) (zs : Z * list sshell) : list string :=
  match snd zs with
  | [] => [sym_p name (fst zs); strip_ws desc; ""; nat_str 0]
  | _ => hdr_p name desc zs ++ body_p (snd zs)
  end.
Definition tr (zs : Z * list sshell) : nat := match snd zs with [] => 4 | _ => 1 end.

Lemma el_p_core : forall name desc zs, el_p name desc zs = core name desc zs ++ blanks (tr zs).
Proof.
  intros name desc [z [|s shs]]; unfold el_p, core, tr; cbn [fst snd].
  - reflexivity.
  - rewrite app_assoc. reflexivity.
Qed.

Lemma parse_block_ok : forall name desc zs k d, cel_ok zs -> ~ In (fst zs) (map fst d) ->
  c4_parse_electron_lines (core name desc zs ++ blanks k) d =
    inr (d ++ [(fst zs, map c4_expected_shell (snd zs))]).
Proof.
  intros name desc [z shs] k d [Hz Hs] Hd. unfold core. cbn [fst snd] in *.
  replace (match shs with [] => [sym_p name z; strip_ws desc; ""; nat_str 0] | _ :: _ => hdr_p name desc (z, shs) ++ body_p shs end ++ blanks k)
    with (sym_p name z :: strip_ws desc :: "" :: nat_str (List.length shs) ::
          match shs with [] => blanks k | _ => fl_p (am_ws shs) :: fl_p (ngen_ws shs) :: fl_p (nprim_ws shs) :: body_p shs ++ blanks k end)
    by (destruct shs; reflexivity).
  destruct (sym_p_facts name z Hz) as [_ [_ [_ [Hp _]]]]. destruct (symup_facts z Hz) as [_ [_ [_ [_ Hback]]]].
  destruct (ws_ok_all shs Hs) as [W1 [W2 W3]]. destruct (ints_back shs Hs) as [I1 [I2 I3]].
  unfold c4_parse_electron_lines. rewrite Hp. unfold bind at 1. rewrite Hback. unfold bind at 1.
  unfold tm_create_electron_shells. rewrite (not_in_existsb z _ Hd). unfold bind at 1, ok at 1.
  cbn [skipn]. rewrite remove_blank. unfold bind at 1. rewrite parse_nshell_ok. unfold bind at 1.
  destruct shs as [|s0 shs0] eqn:Eshs.
  - cbn [List.length Z.of_nat].
    rewrite read_ints_none. unfold bind at 1. rewrite read_ints_none. unfold bind at 1. rewrite read_ints_none. unfold bind at 1.
    cbn [combine c4_parse_shells]. unfold bind, ok. rewrite prune_blanks. reflexivity.
  - rewrite <- Eshs in *. assert (Hne : shs <> []) by (rewrite Eshs; discriminate).
    assert (L1 : List.length (am_ws shs) = List.length shs) by apply map_length.
    assert (L2 : List.length (ngen_ws shs) = List.length shs) by apply map_length.
    assert (L3 : List.length (nprim_ws shs) = List.length shs) by apply map_length.
    assert (N1 : am_ws shs <> []) by (rewrite Eshs; discriminate).
    assert (N2 : ngen_ws shs <> []) by (rewrite Eshs; discriminate).
    assert (N3 : nprim_ws shs <> []) by (rewrite Eshs; discriminate).
    rewrite <- L1 at 1. rewrite (read_ints_line _ _ N1 W1). unfold bind at 1.
    rewrite <- L2 at 1. rewrite (read_ints_line _ _ N2 W2). unfold bind at 1.
    rewrite <- L3 at 1. rewrite (read_ints_line _ _ N3 W3). unfold bind at 1.
    rewrite I1, I2, I3, combine3.
    change (map (fun s => (am0 s, Z.of_nat (List.length (coefs s)), Z.of_nat (List.length (exps s)))) shs) with (map idx_of shs).
    rewrite (parse_shells_ok z shs (blanks k) d [] Hs Hd). unfold bind. rewrite prune_blanks. reflexivity.
Qed.

(* ================================================================== *)
(* 14. partition_lines with min_after = 1                              *)
(* ================================================================== *)
Definition ablock (cond : string -> res bool) (b : list string) : Prop :=
  exists h x r, b = h :: x :: r /\ cond h = inr true /\ Forall (fun l => cond l = inr false) r.

Lemma part_after_skip : forall cond r rest cur all, Forall (fun l => cond l = inr false) r ->
  part_go_after cond 1 (r ++ rest) 0 cur all = part_go_after cond 1 rest 0 (cur ++ r) all.
Proof.
  intros cond; induction r as [|l r IH]; intros rest cur all H.
  - now rewrite app_nil_r.
  - inversion H as [|? ? Hl Hr]; subst. cbn [app part_go_after]. rewrite Hl. unfold bind.
    rewrite (IH rest (cur ++ [l]) all Hr), <- app_assoc. reflexivity.
Qed.

Lemma part_after_blocks : forall cond bs cur all, Forall (ablock cond) bs ->
  part_go_after cond 1 (concat bs) 0 cur all = inr (flush cur all ++ bs).
Proof.
  intros cond; induction bs as [|b bs IH]; intros cur all H.
  - cbn [concat part_go_after]. rewrite app_nil_r. reflexivity.
  - inversion H as [|? ? [h [x [r [-> [Hh Hr]]]]] Hbs]; subst. cbn [concat].
    change ((h :: x :: r) ++ concat bs) with (h :: x :: (r ++ concat bs)).
    cbn [part_go_after]. rewrite Hh. unfold bind. cbn [app].
    rewrite (part_after_skip cond r _ _ _ Hr), (IH _ _ Hbs). fold (flush cur all).
    cbn [app flush]. rewrite <- app_assoc. reflexivity.
Qed.

Lemma partition_after_blocks : forall cond bs, Forall (fun b => ablock cond b /\ 4 <= List.length b) bs ->
  partition_lines_after (concat bs) cond 1 4 = inr bs.
Proof.
  intros cond bs H. unfold partition_lines_after. rewrite (part_after_blocks cond bs [] []).
  - cbn [flush app]. unfold bind. rewrite existsb_false; [reflexivity|].
    intros b Hb. rewrite Forall_forall in H. destruct (H b Hb) as [_ Hl]. apply Nat.ltb_ge. exact Hl.
  - eapply Forall_weaken; [|exact H]. intros b Hb. apply Hb.
Qed.

(* ================================================================== *)
(* 15. the blocks of the written text                                  *)
(* ================================================================== *)
Lemma blanks_plain : forall k, Forall plain (blanks k).
Proof. induction k as [|k IH]; [constructor|]. cbn [blanks repeat]. constructor; [exact plain_blank | exact IH]. Qed.

Lemma core_block : forall name desc zs k, cel_ok zs ->
  exists r, core name desc zs ++ blanks k = sym_p name (fst zs) :: strip_ws desc :: r /\ Forall plain r /\ 2 <= List.length r.
Proof.
  intros name desc [z shs] k [Hz Hs]. cbn [fst snd] in *. unfold core. cbn [fst snd].
  assert (Hnat : forall n, plain (nat_str n)) by (intros n; apply nline_plain, nat_str_nline).
  destruct shs as [|s0 shs0] eqn:E.
  - eexists. split; [reflexivity|]. split; [|cbn [List.length]; lia].
    constructor; [exact plain_blank|]. constructor; [apply Hnat | apply blanks_plain].
  - rewrite <- E in *. destruct (ws_ok_all shs Hs) as [W1 [W2 W3]].
    unfold hdr_p. cbn [fst snd app]. eexists. split; [reflexivity|]. split; [|cbn [List.length]; lia].
    constructor; [exact plain_blank|]. constructor; [apply Hnat|].
    constructor; [apply (fl_p_facts _ W1)|]. constructor; [apply (fl_p_facts _ W2)|]. constructor; [apply (fl_p_facts _ W3)|].
    apply Forall_app. split; [apply body_plain, Hs | apply blanks_plain].
Qed.

Lemma core_facts : forall name desc zs k, c4_desc_ok desc -> cel_ok zs ->
  let b := core name desc zs ++ blanks k in
  ablock el_cond b /\ 4 <= List.length b /\ existsb is_ecp_block_line b = false /\ Forall (fun l => keepf l = true) b.
Proof.
  intros name desc zs k Hd Hz b. destruct (core_block name desc zs k Hz) as [r [Er [Hr Hl]]]. subst b. rewrite Er.
  destruct Hz as [Hz _]. destruct (sym_p_facts name (fst zs) Hz) as [K1 [K2 [K3 _]]]. destruct (desc_p_facts desc Hd) as [D1 D2].
  split; [|split; [|split]].
  - exists (sym_p name (fst zs)), (strip_ws desc), r. split; [reflexivity|]. split; [exact K2|].
    eapply Forall_weaken; [|exact Hr]. intros l Hp. apply Hp.
  - cbn [List.length]. lia.
  - cbn [existsb]. rewrite K3, D2. cbn [orb]. apply existsb_false. intros l Hin. rewrite Forall_forall in Hr. apply (Hr l Hin).
  - constructor; [exact K1|]. constructor; [exact D1|]. eapply Forall_weaken; [|exact Hr]. intros l Hp. apply Hp.
Qed.

Lemma core_last : forall name desc zs, cel_ok zs -> exists c x, core name desc zs = c ++ [x] /\ x <> "".
Proof.
  intros name desc [z shs] [_ Hs]. cbn [fst snd] in *. unfold core. cbn [fst snd]. destruct shs as [|s0 shs0] eqn:E.
  - exists [sym_p name z; strip_ws desc; ""], (nat_str 0). split; [reflexivity | discriminate].
  - rewrite <- E in *. assert (Hne : shs <> []) by (rewrite E; discriminate).
    destruct (body_last shs Hne Hs) as [c [x [Eb Hx]]]. exists (hdr_p name desc (z, shs) ++ c), x.
    split; [rewrite Eb, app_assoc; reflexivity | exact Hx].
Qed.

(* ================================================================== *)
(* 16. prune_lines(lines, '!#', prune_blank=False)                     *)
(* ================================================================== *)
Definition rstripb (X : list string) : list string := rev (drop_while_empty (rev X)).

Lemma prune_c4_unfold : forall L,
  prune_lines L "!#" false true = rstripb (drop_while_empty (filter keepf (map strip_ws L))).
Proof. reflexivity. Qed.

Lemma rev_blanks : forall k, rev (blanks k) = blanks k.
Proof.
  induction k as [|k IH]; [reflexivity|]. cbn [blanks repeat rev]. fold (blanks k). rewrite IH. symmetry. apply repeat_cons.
Qed.

Lemma drop_blanks : forall k x R, x <> "" -> drop_while_empty (blanks k ++ x :: R) = x :: R.
Proof.
  induction k as [|k IH]; intros x R Hx.
  - cbn [blanks repeat app drop_while_empty]. destruct x; [congruence | reflexivity].
  - cbn [blanks repeat app drop_while_empty is_empty]. apply IH, Hx.
Qed.

Lemma rstripb_core : forall A c x k, x <> "" -> rstripb (A ++ (c ++ [x]) ++ blanks k) = A ++ c ++ [x].
Proof.
  intros A c x k Hx. unfold rstripb. rewrite !rev_app_distr, rev_blanks. cbn [rev app]. rewrite <- app_assoc.
  cbn [app]. rewrite (drop_blanks k x _ Hx). cbn [rev]. rewrite rev_app_distr, !rev_involutive, <- app_assoc. reflexivity.
Qed.

(* a block with the number of blank lines that follow it *)
Definition blk (name desc : string) (p : (Z * list sshell) * nat) : list string := core name desc (fst p) ++ blanks (snd p).

Lemma flat_el_p : forall name desc els,
  flat_map (el_p name desc) els = concat (map (blk name desc) (map (fun zs => (zs, tr zs)) els)).
Proof.
  intros name desc els. rewrite flat_map_concat_map, map_map. f_equal. apply map_ext. intros zs. unfold blk. cbn [fst snd].
  apply el_p_core.
Qed.

Lemma head_kept : forall name desc els, els <> [] -> Forall cel_ok els ->
  drop_while_empty (flat_map (el_p name desc) els) = flat_map (el_p name desc) els.
Proof.
  intros name desc [|z0 els0] Hne Hel; [congruence|]. inversion Hel as [|? ? Hz0 _]; subst.
  cbn [flat_map]. rewrite el_p_core. destruct (core_block name desc z0 (tr z0) Hz0) as [r [Er _]]. rewrite Er.
  destruct Hz0 as [Hz0 _]. destruct (sym_p_facts name (fst z0) Hz0) as [_ [_ [_ [_ Hs]]]].
  cbn [app drop_while_empty]. destruct (sym_p name (fst z0)); [congruence | reflexivity].
Qed.

Lemma pruned_text : forall name desc els, c4_ok name desc els ->
  exists zks, map fst zks = els /\
              prune_lines (all_lines name desc els) "!#" false true = concat (map (blk name desc) zks).
Proof.
  intros name desc els H. pose proof (c4_ok_els _ _ _ H) as Hel. destruct H as [Hn [Hd _]].
  rewrite prune_c4_unfold, strip_all_lines.
  assert (Hk : Forall (fun l => keepf l = true) (flat_map (el_p name desc) els)).
  { rewrite Forall_forall in *. intros l Hl. apply in_flat_map in Hl. destruct Hl as [zs [Hzs Hl]].
    rewrite el_p_core in Hl. destruct (core_facts name desc zs (tr zs) Hd (Hel zs Hzs)) as [_ [_ [_ G]]].
    rewrite Forall_forall in G. apply G, Hl. }
  cbn [filter]. change (keepf "") with true. cbv iota. rewrite (filter_id _ _ _ Hk). cbn [drop_while_empty is_empty].
  destruct els as [|z0 els0]; [exists []; split; reflexivity|].
  assert (Hne : z0 :: els0 <> []) by discriminate. remember (z0 :: els0) as els eqn:E. clear E z0 els0.
  rewrite (head_kept name desc els Hne Hel).
  destruct (exists_last Hne) as [els' [zl Els]]. subst els.
  apply Forall_app in Hel. destruct Hel as [Hel' Hzl]. inversion Hzl as [|? ? Hzl1 _]; subst.
  destruct (core_last name desc zl Hzl1) as [c [x [Ec Hx]]].
  rewrite flat_map_app. cbn [flat_map]. rewrite app_nil_r, el_p_core, Ec.
  rewrite (rstripb_core _ c x _ Hx), <- Ec.
  exists (map (fun zs => (zs, tr zs)) els' ++ [(zl, 0)]). split.
  - rewrite map_app, map_map. cbn [map fst]. rewrite map_id. reflexivity.
  - rewrite map_app, concat_app, <- flat_el_p. cbn [map concat]. unfold blk. cbn [fst snd blanks repeat].
    rewrite !app_nil_r. reflexivity.
Qed.

(* ================================================================== *)
(* 17. the round trip                                                  *)
(* ================================================================== *)
Lemma blocks_ok : forall name desc zks d, c4_desc_ok desc -> Forall cel_ok (map fst zks) -> NoDup (map fst (map fst zks)) ->
  (forall z, In z (map fst (map fst zks)) -> ~ In z (map fst d)) ->
  c4_blocks (map (blk name desc) zks) d = inr (d ++ c4_expected (map fst zks)).
Proof.
  intros name desc; induction zks as [|[zs k] zks IH]; intros d Hd Hel Hnd Hdis.
  - cbn. now rewrite app_nil_r.
  - cbn [map fst] in *. inversion Hel as [|? ? H1 H2]; subst. inversion Hnd as [|? ? Hnotin Hnd']; subst.
    cbn [c4_blocks]. change (blk name desc (zs, k)) with (core name desc zs ++ blanks k).
    destruct (core_facts name desc zs k Hd H1) as [_ [_ [He _]]]. cbv zeta in He. rewrite He.
    rewrite (parse_block_ok name desc zs k d H1); [|apply Hdis; now left]. unfold bind.
    rewrite IH; [| exact Hd | exact H2 | exact Hnd' |].
    + unfold c4_expected. cbn [map]. rewrite <- app_assoc. reflexivity.
    + intros z Hz. rewrite map_app, in_app_iff. cbn [map In]. intros [Hin|[Heq|[]]].
      * apply (Hdis z); [now right | exact Hin].
      * subst z. apply Hnotin, Hz.
Qed.

Lemma read_all_lines : forall name desc els, c4_ok name desc els ->
  c4_read_electron (all_lines name desc els) = inr (c4_expected els).
Proof.
  intros name desc els H. destruct (pruned_text name desc els H) as [zks [Ez Ep]].
  pose proof (c4_ok_els _ _ _ H) as Hel. destruct H as [Hn [Hd [Hnd _]]].
  unfold c4_read_electron. rewrite Ep. fold el_cond. rewrite partition_after_blocks.
  - unfold bind. rewrite (blocks_ok name desc zks [] Hd); rewrite ?Ez; try assumption; [reflexivity | intros z _ []].
  - rewrite Forall_forall. intros b Hb. apply in_map_iff in Hb. destruct Hb as [[zs k] [<- Hin]].
    assert (Hzs : cel_ok zs).
    { rewrite <- Ez in Hel. rewrite Forall_forall in Hel. apply Hel. apply in_map_iff. exists (zs, k). split; [reflexivity | exact Hin]. }
    destruct (core_facts name desc zs k Hd Hzs) as [A [B _]]. split; assumption.
Qed.

Lemma c4_roundtrip_exact : c4_roundtrip_stmt.
Proof.
  intros name desc els H. unfold c4_roundtrip.
  rewrite (c4_write_electron_lines name desc els (c4_ok_els _ _ _ H)). unfold bind.
  rewrite (splitlines_unlines _ (all_lines_good name desc els H)). apply read_all_lines, H.
Qed.

(* ================================================================== *)
(* 18. the hypotheses of c4_ok that cannot be dropped, and a concrete instance *)
(* ================================================================== *)
Lemma c4_literal_number_counterexample : c4_literal_number_counterexample_stmt.
Proof. eexists. split; vm_compute; reflexivity. Qed.

Lemma c4_roundtrip_desc_hash : c4_roundtrip_desc_hash_stmt.
Proof. vm_compute. reflexivity. Qed.
Lemma c4_roundtrip_desc_bang : c4_roundtrip_desc_bang_stmt.
Proof. vm_compute. reflexivity. Qed.
Lemma c4_roundtrip_desc_ecp : c4_roundtrip_desc_ecp_stmt.
Proof. vm_compute. reflexivity. Qed.
Lemma c4_roundtrip_nldesc : c4_roundtrip_nldesc_stmt.
Proof. vm_compute. reflexivity. Qed.
Lemma c4_roundtrip_nlname : c4_roundtrip_nlname_stmt.
Proof. vm_compute. reflexivity. Qed.
Lemma c4_roundtrip_noname : c4_roundtrip_noname_stmt.
Proof. vm_compute. reflexivity. Qed.
Lemma c4_roundtrip_blanks : c4_roundtrip_blanks_stmt.
Proof. vm_compute. reflexivity. Qed.
Lemma c4_roundtrip_desc_element : c4_roundtrip_desc_element_stmt.
Proof. vm_compute. reflexivity. Qed.
Lemma c4_roundtrip_empty : c4_roundtrip_empty_stmt.
Proof. vm_compute. reflexivity. Qed.
Lemma c4_roundtrip_noshell : c4_roundtrip_noshell_stmt.
Proof. vm_compute. reflexivity. Qed.
Lemma c4_roundtrip_fused : c4_roundtrip_fused_stmt.
Proof. vm_compute. reflexivity. Qed.
Lemma c4_write_noam : c4_write_noam_stmt.
Proof. vm_compute. reflexivity. Qed.
Lemma c4_roundtrip_noprim : c4_roundtrip_noprim_stmt.
Proof. vm_compute. reflexivity. Qed.
Lemma c4_roundtrip_noprim_last : c4_roundtrip_noprim_last_stmt.
Proof. vm_compute. reflexivity. Qed.
Lemma c4_roundtrip_nocontr : c4_roundtrip_nocontr_stmt.
Proof. vm_compute. reflexivity. Qed.
Lemma c4_roundtrip_ragged : c4_roundtrip_ragged_stmt.
Proof. vm_compute. reflexivity. Qed.
Lemma c4_roundtrip_nopoint : c4_roundtrip_nopoint_stmt.
Proof. vm_compute. reflexivity. Qed.
Lemma c4_roundtrip_wide_am : c4_roundtrip_wide_am_stmt.
Proof. repeat split; vm_compute; reflexivity. Qed.
Lemma c4_roundtrip_wide_nprim : c4_roundtrip_wide_nprim_stmt.
Proof. vm_compute. reflexivity. Qed.
Lemma c4_roundtrip_wide_ngen : c4_roundtrip_wide_ngen_stmt.
Proof. vm_compute. reflexivity. Qed.
Lemma c4_roundtrip_dup : c4_roundtrip_dup_stmt.
Proof. vm_compute. reflexivity. Qed.
Lemma c4_write_z121 : c4_write_z121_stmt.
Proof. vm_compute. reflexivity. Qed.
Lemma c4_roundtrip_cartesian : c4_roundtrip_cartesian_stmt.
Proof. vm_compute. reflexivity. Qed.
Lemma c4_roundtrip_blank_number : c4_roundtrip_blank_number_stmt.
Proof. vm_compute. reflexivity. Qed.
Lemma c4_markers : c4_markers_stmt.
Proof. split; vm_compute; reflexivity. Qed.

Ltac c4_shell_ok_tac :=
  unfold c4_shell_ok, cx_H, cx_C0, cx_C1, c4_sh; cbn [exps am coefs];
  split; [discriminate|]; split; [eexists; split; [reflexivity | lia]|];
  split; [discriminate|]; split; [repeat constructor|]; split; [reflexivity|]; split; [reflexivity|];
  split; repeat constructor.

Example c4_example : c4_example_stmt.
Proof.
  split; [|split; [|split]]; try (vm_compute; reflexivity).
  unfold c4_ok, cx_els. split; [reflexivity|]. split; [repeat split; reflexivity|]. split.
  - cbn [map fst]. repeat constructor; cbn [In]; intros H; repeat (destruct H as [H|H]; [discriminate H|]); exact H.
  - repeat (constructor; [cbn [fst snd]; split; [lia|]|]); [| |constructor].
    + repeat (constructor; [c4_shell_ok_tac|]). constructor.
    + repeat (constructor; [c4_shell_ok_tac|]). constructor.
Qed.

Print Assumptions c4_norm.
Print Assumptions c4_write_total.
Print Assumptions c4_roundtrip_exact.
Print Assumptions c4_no_number_lost.
Print Assumptions c4_literal_number_counterexample.
Print Assumptions c4_roundtrip_desc_hash.
Print Assumptions c4_roundtrip_desc_bang.
Print Assumptions c4_roundtrip_desc_ecp.
Print Assumptions c4_roundtrip_nldesc.
Print Assumptions c4_roundtrip_nlname.
Print Assumptions c4_roundtrip_noname.
Print Assumptions c4_roundtrip_blanks.
Print Assumptions c4_roundtrip_desc_element.
Print Assumptions c4_roundtrip_empty.
Print Assumptions c4_roundtrip_noshell.
Print Assumptions c4_roundtrip_fused.
Print Assumptions c4_write_noam.
Print Assumptions c4_roundtrip_noprim.
Print Assumptions c4_roundtrip_noprim_last.
Print Assumptions c4_roundtrip_nocontr.
Print Assumptions c4_roundtrip_ragged.
Print Assumptions c4_roundtrip_nopoint.
Print Assumptions c4_roundtrip_wide_am.
Print Assumptions c4_roundtrip_wide_nprim.
Print Assumptions c4_roundtrip_wide_ngen.
Print Assumptions c4_roundtrip_dup.
Print Assumptions c4_write_z121.
Print Assumptions c4_roundtrip_cartesian.
Print Assumptions c4_roundtrip_blank_number.
Print Assumptions c4_markers.
Print Assumptions c4_example.
