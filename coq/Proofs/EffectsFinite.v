(* Finite theorems about the copy discipline extracted from the sources (Gen/GenEffects.v, Gen/GenWriters.v), by vm_compute. *)
From BSE Require Import Model.Val Model.Memo Gen.GenWriters Gen.GenEffects.

Definition triple_eqb (a b : string * string * string) : bool :=
  String.eqb (fst (fst a)) (fst (fst b)) && String.eqb (snd (fst a)) (snd (fst b)) && String.eqb (snd a) (snd b).
Fixpoint triples_eqb (a b : list (string * string * string)) : bool :=
  match a, b with [], [] => true | x :: a', y :: b' => triple_eqb x y && triples_eqb a' b' | _, _ => false end.

(* every manip/sort function with a use_copy parameter: the default is True, and the flag is honoured before anything else
   touches the data (guard) or is handed down with the first use (delegate); the one documented exception is
   merge_element_data, which deep-copies its sources and returns a shallow copy of dest *)
Definition flag_ok (e : string * bool * string) : bool :=
  snd (fst e) &&
  (String.eqb (snd e) "guard" || String.eqb (snd e) "delegate" || String.eqb (fst (fst e)) "manip.merge_element_data").
Lemma use_copy_discipline : forallb flag_ok use_copy_functions = true.
Proof. vm_compute. reflexivity. Qed.

(* nowhere in the listed modules is a use_copy function called with use_copy=False on an argument of the caller that has not
   been copied before *)
Lemma no_uncopied_calls : uncopied_calls = [].
Proof. vm_compute. reflexivity. Qed.

(* the direct in-place edits of (objects reached from) parameters of public functions are exactly the documented ones:
   the in-place builders create_element_data and remove_primitive; merge_element_data (a key assignment on its own shallow copy
   of dest - the analysis cannot see that the copy is shallow; its effect on dest is checked dynamically); convert_references
   (replaces each reference_data list by an equal one with sorted keys) *)
Definition documented_mutations : list (string * string * string) :=
  [ ("manip.create_element_data", "bs_data", "item-assignment");
    ("manip.merge_element_data", "dest", "item-assignment");
    ("manip.remove_primitive", "electron_shell", "item-assignment");
    ("manip.remove_primitive", "electron_shell", "pop");
    ("refconverters.convert.convert_references", "ref_data", "item-assignment") ].
Lemma only_documented_mutations : triples_eqb direct_mutations documented_mutations = true.
Proof. vm_compute. reflexivity. Qed.

(* writers: the first normalisation step of every writer works on a copy (use_copy = True, explicit or by default) *)
Definition step_flag (st : string * string * list warg * list (string * warg)) : bool :=
  let '(m, op, args, kws) := st in
  match assoc "use_copy" kws with
  | Some (WBool b) => b
  | Some _ => false
  | None =>
    match assoc (m +++ "." +++ op) use_copy_index with
    | None => false                      (* not a use_copy function: unknown *)
    | Some i => match nth_error args i with
                | Some (WBool b) => b
                | Some _ => false
                | None => true            (* not given: the default, which is True (use_copy_discipline) *)
                end
    end
  end.
Definition writer_copies (w : writer) : bool :=
  match w_pipeline w with [] => true | st :: _ => step_flag st end.
Lemma all_writers_copy_first : forallb (fun p => writer_copies (snd p)) writer_map = true.
Proof. vm_compute. reflexivity. Qed.
(* the writers without any normalisation step (they only read their argument; checked dynamically) *)
Lemma writers_without_steps :
  map fst (filter (fun p => match w_pipeline (snd p) with [] => true | _ => false end) writer_map) = ["bsedebug"; "json"].
Proof. vm_compute. reflexivity. Qed.
