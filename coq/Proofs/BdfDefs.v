(* Statements about the BDF writer (writers/bdf.py write_bdf; there is no reader): the writer is total on well-formed
   input and the written text carries every number of the input - exponents, coefficients (the zeros make_general has
   filled in included), gaussian exponents, coefficients, r exponents and electron counts of the ECPs - as a white-space
   delimited token of some line, for every element, whether it has electron shells, an ECP or both.
   Definitions only; the proofs are in Proofs/BdfSpec.v. *)
From BSE Require Import Model.Val Model.Text Model.Basis Model.Manip Model.Matrix Model.Lut Model.Elements Model.Nwchem
                        Model.NwchemEcp Model.Bdf Proofs.MatrixDefs Proofs.NwchemDefs Proofs.JaguarDefs.
Require Import Coq.Sorting.Sorted.

(* ---------- well-formed input of the writer (what is left after make_general / sort_basis) ---------- *)
Definition bdf_shell_ok (s : sshell) : Prop :=
  (* at least one angular momentum (max() in misc.max_am); every one has a letter in lut._amchar_map_hik (25 letters; the
     shells are written with hij=False) *)
  am s <> [] /\ Forall (fun l => (0 <= l < 25)%Z) (am s) /\
  (* every column has one coefficient per primitive.  (Exponents and coefficients are printed as two matrices, so what the
     writer needs is only that the coefficient columns have the same length among themselves: bdf_lengths_stmt) *)
  Forall (fun c => List.length c = List.length (exps s)) (coefs s) /\
  (* `floating s` (Proofs/NwchemDefs.v): the string matches helpers.floating_re entirely *)
  Forall floating (exps s) /\ Forall (Forall floating) (coefs s).
(* no condition on the NUMBER of primitives or of columns *)

Definition bdf_pot_ok (p : epot) : Prop :=
  (* at least one angular momentum (am[0]); every one has a letter in lut._amchar_map_hij (26 letters; the potentials are
     written with hij=True) *)
  p_am p <> [] /\ Forall (fun l => (0 <= l < 26)%Z) (p_am p) /\
  (* one gaussian exponent per r exponent (ANY integer) *)
  List.length (p_gexp p) = List.length (p_rexp p) /\
  (* at most ONE column of coefficients (point_places = [4, 12, 34]), as long as the other columns *)
  List.length (p_coef p) <= 1 /\ Forall (fun c => List.length c = List.length (p_rexp p)) (p_coef p) /\
  Forall floating (p_gexp p) /\ Forall (Forall floating) (p_coef p).

Definition bdf_ok (els : list (Z * list sshell)) (ecps : list (Z * (Z * list epot))) : Prop :=
  (* dictionary keys: pairwise distinct *)
  NoDup (map fst els) /\ NoDup (map fst ecps) /\
  (* an atomic number of the table of lut.py (1 .. 120); at least one shell (max() in misc.max_am) *)
  Forall (fun zs => (1 <= fst zs <= 120)%Z /\ snd zs <> [] /\ Forall bdf_shell_ok (snd zs)) els /\
  (* at least one potential (max() of the writer); 'ecp_electrons' may be any integer *)
  Forall (fun e => (1 <= fst e <= 120)%Z /\ snd (snd e) <> [] /\ Forall bdf_pot_ok (snd (snd e))) ecps.
(* no condition relating the two lists: an element may have shells only, an ECP only, or both *)

(* ---------- statements ---------- *)
Definition bdf_write_total_stmt : Prop :=
  forall els ecps, bdf_ok els ecps -> exists t, bdf_write_all els ecps = inr t.

(* the elements are written in the order of their atomic numbers, every one once *)
Definition bdf_all_elements_stmt : Prop :=
  forall els ecps,
    (forall z, In z (bdf_all_elements els ecps) <-> In z (map fst els) \/ In z (map fst ecps)) /\
    StronglySorted Z.lt (bdf_all_elements els ecps).

(* C04, electron part: every exponent and every coefficient (nw_number_of, Proofs/NwchemDefs.v), as it is
   (convert_exp=False), is a white-space delimited token of some line of the text *)
Definition bdf_no_number_lost_stmt : Prop :=
  forall els ecps t, bdf_ok els ecps -> bdf_write_all els ecps = inr t ->
    forall x, nw_number_of els x -> exists line, In line (splitlines t) /\ In x (tokens_acc line "").

(* C04, ECP part (wecp_number_of, wecp_int_of: Proofs/JaguarDefs.v): every gaussian exponent and every coefficient with
   e/E replaced by D (convert_exp=True, Model.Matrix.d_convert), and the decimal form of every r exponent and of every
   electron count is a token of some line - for elements without electron shells too *)
Definition bdf_ecp_no_number_lost_stmt : Prop :=
  forall els ecps t, bdf_ok els ecps -> bdf_write_all els ecps = inr t ->
    (forall x, wecp_number_of ecps x -> exists line, In line (splitlines t) /\ In (d_convert x) (tokens_acc line "")) /\
    (forall n, wecp_int_of ecps n -> exists line, In line (splitlines t) /\ In (Z_to_string n) (tokens_acc line "")).

(* ---------- which conditions of bdf_ok cannot be dropped ---------- *)
Definition bdf_h : sshell := mkShell "gto" "" [0%Z] ["1.0"] [["1.0"]].
Definition bdf_p (l : Z) : epot := mkEpot "scalar_ecp" [l] [2%Z; 1%Z] ["1.5"; "0.25"] [["-10.0"; "2.5E+00"]].

(* no element at all: the closing line alone.  Shells only (H), both (Rb, given first), ECP only (Cs): by atomic number *)
Definition bdf_mixed_stmt : Prop :=
  bdf_write_all [] [] = inr (String.concat nl1 ["****"; ""]) /\
  bdf_write_all [(37%Z, [bdf_h]); (1%Z, [bdf_h])] [(55%Z, (46%Z, [bdf_p 1; bdf_p 0])); (37%Z, (28%Z, [bdf_p 0]))] =
    inr (String.concat nl1
          ["****"; "H      1   0"; "S      1    1"; "            1.0"; "     1.0";
           "****"; "Rb     37   0"; "S      1    1"; "            1.0"; "     1.0";
           "ECP"; "Rb     28     0"; "S potential  2"; "   2      1.5                 -10.0"; "   1      0.25                  2.5D+00";
           "****"; "ECP"; "Cs     46     1";
           "P potential  2"; "   2      1.5                 -10.0"; "   1      0.25                  2.5D+00";
           "S potential  2"; "   2      1.5                 -10.0"; "   1      0.25                  2.5D+00";
           "****"; ""]).

(* `snd zs <> []`, `am s <> []`: ValueError of max(); the letters: 24 is the last one for a shell, 25 for a potential *)
Definition bdf_am_stmt : Prop :=
  bdf_write_all [(1%Z, [])] [] = inl EValue /\
  bdf_write_all [(1%Z, [mkShell "gto" "" [] ["1.0"] [["1.0"]]])] [] = inl EValue /\
  bdf_write_all [(1%Z, [mkShell "gto" "" [24%Z] ["1.0"] [["1.0"]]])] [] =
    inr (String.concat nl1 ["****"; "H      1   24"; "E      1    1"; "            1.0"; "     1.0"; "****"; ""]) /\
  bdf_write_all [(1%Z, [mkShell "gto" "" [25%Z] ["1.0"] [["1.0"]]])] [] = inl EIndex /\
  bdf_write_all [] [(37%Z, (28%Z, []))] = inl EValue /\
  bdf_write_all [] [(37%Z, (28%Z, [mkEpot "scalar_ecp" [] [2%Z] ["1.0"] [["1.0"]]]))] = inl EIndex /\
  bdf_write_all [] [(37%Z, (28%Z, [bdf_p 25]))] =
    inr (String.concat nl1 ["****"; "ECP"; "Rb     28     25"; "E potential  2"; "   2      1.5                 -10.0";
                            "   1      0.25                  2.5D+00"; "****"; ""]) /\
  bdf_write_all [] [(37%Z, (28%Z, [bdf_p 26]))] = inl EIndex.

(* the list lengths.  Exponents and coefficients are two matrices: a column that is shorter or longer than the exponents
   is printed in full; columns of DIFFERENT lengths are cut to the shortest one by zip() - 7.0 is LOST without an error.
   In a potential the three columns are one matrix: 3.0 and 0.25 are lost *)
Definition bdf_lengths_stmt : Prop :=
  bdf_write_all [(1%Z, [mkShell "gto" "" [0%Z] ["1.0"; "2.0"] [["1.0"]]])] [] =
    inr (String.concat nl1 ["****"; "H      1   0"; "S      2    1"; "            1.0"; "            2.0"; "     1.0"; "****"; ""]) /\
  bdf_write_all [(1%Z, [mkShell "gto" "" [0%Z] ["1.0"] [["1.0"; "7.0"]]])] [] =
    inr (String.concat nl1 ["****"; "H      1   0"; "S      1    1"; "            1.0"; "     1.0"; "     7.0"; "****"; ""]) /\
  bdf_write_all [(1%Z, [mkShell "gto" "" [0%Z] ["1.0"] [["1.0"; "7.0"]; ["2.0"]]])] [] =
    inr (String.concat nl1 ["****"; "H      1   0"; "S      1    2"; "            1.0"; "     1.0                 2.0"; "****"; ""]) /\
  bdf_write_all [] [(37%Z, (28%Z, [mkEpot "scalar_ecp" [0%Z] [2%Z] ["1.0"; "3.0"] [["0.5"; "0.25"]]]))] =
    inr (String.concat nl1 ["****"; "ECP"; "Rb     28     0"; "S potential  1"; "   2      1.0                   0.5"; "****"; ""]).

(* `length (p_coef p) <= 1`: two columns of coefficients are VALID for the schema and the validator; the writer stops with
   an IndexError (point_places = [4, 12, 34] has no fourth entry).  Negative integers are printed as they are *)
Definition bdf_ecp_coef_columns_stmt : Prop :=
  bdf_write_all [] [(37%Z, (28%Z, [mkEpot "scalar_ecp" [0%Z] [2%Z] ["1.0"] [["1.0"]; ["2.0"]]]))] = inl EIndex /\
  bdf_write_all [] [(37%Z, ((-28)%Z, [mkEpot "scalar_ecp" [0%Z; 1%Z] [(-2)%Z] ["1.0"] []]))] =
    inr (String.concat nl1 ["****"; "ECP"; "Rb     -28     0"; "SP potential  1"; "   -2     1.0"; "****"; ""]).

(* `Forall floating`: a number without a decimal point stops the writer (ValueError in _find_point) *)
Definition bdf_floating_stmt : Prop :=
  bdf_write_all [(1%Z, [mkShell "gto" "" [0%Z] ["10"] [["1.0"]]])] [] = inl EValue /\
  bdf_write_all [(1%Z, [mkShell "gto" "" [0%Z] ["1.0"] [["1"]]])] [] = inl EValue /\
  bdf_write_all [] [(37%Z, (28%Z, [mkEpot "scalar_ecp" [0%Z] [2%Z] ["1"] [["1.0"]]]))] = inl EValue.

(* the elements: no symbol for 0 and 121 (KeyError), in either list; the same key twice (cannot happen for a dictionary):
   it is written once, with the shells of the first entry - 2.0 and 3.0 are not in the text *)
Definition bdf_elements_stmt : Prop :=
  bdf_write_all [(121%Z, [bdf_h])] [] = inl EKey /\
  bdf_write_all [] [(121%Z, (28%Z, [bdf_p 0]))] = inl EKey /\
  bdf_write_all [(0%Z, [bdf_h])] [] = inl EKey /\
  bdf_write_all [(1%Z, [bdf_h]); (1%Z, [mkShell "gto" "" [0%Z] ["2.0"] [["3.0"]]])] [] = bdf_write_all [(1%Z, [bdf_h])] [].

(* ---------- a concrete instance from the store: LANL2DZ for H (electron shells only) and Na (electron shells and ECP), as
   write_bdf sees it (one shell per angular momentum, zeros filled in); bdf_ex_text is, byte for byte,
   basis_set_exchange.get_basis('lanl2dz', elements=[1, 11], fmt='bdf', header=False) ---------- *)
Definition bdf_ex_els : list (Z * list sshell) :=
  [((1)%Z, [(mkShell "gto" "" [(0)%Z] ["19.2384000"; "2.8987000"; "0.6535000"; "0.1776000"] [["0.0328280"; "0.2312040"; "0.8172260"; "0.0000000"]; ["0.0000000"; "0.0000000"; "0.0000000"; "1.0000000"]])]);
   ((11)%Z, [(mkShell "gto" "" [(0)%Z] ["0.4972000"; "0.0560000"; "0.0221000"] [["-0.2753574"; "1.0989969"; "0.0000000"]; ["0.0000000"; "0.0000000"; "1.0000000"]]);
      (mkShell "gto" "" [(1)%Z] ["0.6697000"; "0.0636000"; "0.0204000"] [["-0.0683845"; "1.0140550"; "0.0000000"]; ["0.0000000"; "0.0000000"; "1.0000000"]])])].
Definition bdf_ex_ecps : list (Z * (Z * list epot)) :=
  [((11)%Z, ((10)%Z, [(mkEpot "scalar_ecp" [(2)%Z] [(1)%Z; (2)%Z; (2)%Z; (2)%Z; (2)%Z] ["175.5502590"; "35.0516791"; "7.9060270"; "2.3365719"; "0.7799867"] [["-10.0000000"; "-47.4902024"; "-17.2283007"; "-6.0637782"; "-0.7299393"]]);
      (mkEpot "scalar_ecp" [(0)%Z] [(0)%Z; (1)%Z; (2)%Z; (2)%Z; (2)%Z] ["243.3605846"; "41.5764759"; "13.2649167"; "3.6797165"; "0.9764209"] [["3.0000000"; "36.2847626"; "72.9304880"; "23.8401151"; "6.0123861"]]);
      (mkEpot "scalar_ecp" [(1)%Z] [(0)%Z; (1)%Z; (2)%Z; (2)%Z; (2)%Z; (2)%Z] ["1257.2650682"; "189.6248810"; "54.5247759"; "13.7449955"; "3.6813579"; "0.9461106"] [["5.0000000"; "117.4495683"; "423.3986704"; "109.3247297"; "31.3701656"; "7.1241813"]])]))].
Definition bdf_ex_text : string :=
  String.concat nl1
   ["****";
    "H      1   0";
    "S      4    2";
    "           19.2384000";
    "            2.8987000";
    "            0.6535000";
    "            0.1776000";
    "     0.0328280           0.0000000";
    "     0.2312040           0.0000000";
    "     0.8172260           0.0000000";
    "     0.0000000           1.0000000";
    "****";
    "Na     11   1";
    "S      3    2";
    "            0.4972000";
    "            0.0560000";
    "            0.0221000";
    "    -0.2753574           0.0000000";
    "     1.0989969           0.0000000";
    "     0.0000000           1.0000000";
    "P      3    2";
    "            0.6697000";
    "            0.0636000";
    "            0.0204000";
    "    -0.0683845           0.0000000";
    "     1.0140550           0.0000000";
    "     0.0000000           1.0000000";
    "ECP";
    "Na     10     2";
    "D potential  5";
    "   1    175.5502590           -10.0000000";
    "   2     35.0516791           -47.4902024";
    "   2      7.9060270           -17.2283007";
    "   2      2.3365719            -6.0637782";
    "   2      0.7799867            -0.7299393";
    "S potential  5";
    "   0    243.3605846             3.0000000";
    "   1     41.5764759            36.2847626";
    "   2     13.2649167            72.9304880";
    "   2      3.6797165            23.8401151";
    "   2      0.9764209             6.0123861";
    "P potential  6";
    "   0   1257.2650682             5.0000000";
    "   1    189.6248810           117.4495683";
    "   2     54.5247759           423.3986704";
    "   2     13.7449955           109.3247297";
    "   2      3.6813579            31.3701656";
    "   2      0.9461106             7.1241813";
    "****";
    ""].

Definition bdf_example_stmt : Prop :=
  bdf_ok bdf_ex_els bdf_ex_ecps /\ bdf_write_all bdf_ex_els bdf_ex_ecps = inr bdf_ex_text.
