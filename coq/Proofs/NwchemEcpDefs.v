(* Statements about the ECP section of the NWChem writer / reader pair and about the whole file (electron section + ECP
   section): what write_nwchem prints, read_nwchem reads back.  Definitions only; the proofs are in Proofs/NwchemEcpSpec.v. *)
From BSE Require Import Model.Val Model.Text Model.Basis Model.Manip Model.Matrix Model.Lut Model.Elements Model.Nwchem
                        Model.NwchemEcp Proofs.MatrixDefs Proofs.NwchemDefs.
Require Import Coq.Sorting.Permutation Coq.Sorting.Sorted.

(* ---------- well-formed input of the ECP part of the writer ---------- *)
(* the angular momentum of a potential (am[0]) *)
Definition pot_l (p : epot) : Z := hd 0%Z (p_am p).

Definition ecp_pot_ok (p : epot) : Prop :=
  (* exactly one angular momentum, and one that has a letter in lut._amchar_map_hik (25 letters) *)
  (exists l, p_am p = [l] /\ (0 <= l < 25)%Z) /\
  (* at least one term (a potential without terms leaves a one-line block, which the reader takes for a bad nelec line) *)
  p_rexp p <> [] /\
  (* r exponents (integers), gaussian exponents and coefficients: one of each per term; exactly one coefficient column
     (the writer has three point places, parse_ecp_table reads three tokens per line) *)
  List.length (p_gexp p) = List.length (p_rexp p) /\
  (exists c, p_coef p = [c] /\ List.length c = List.length (p_rexp p)) /\
  (* the numbers are strings matching helpers.floating_re *)
  Forall floating (p_gexp p) /\ Forall (Forall floating) (p_coef p).

(* The format labels every potential but the highest with its letter; the highest is written as `ul` and read back as
   (highest of the others) + 1, or as 0 when it is the only one.  So: the highest momentum minus one is present, or the
   only momentum is 0.  (Nothing is required of the momenta below: 0, 2, 3 is fine.) *)
Definition ecp_top_ok (ls : list Z) : Prop := ls = [0%Z] \/ In (zmax ls - 1)%Z ls.

Definition ecp_el_ok (e : Z * (Z * list epot)) : Prop :=
  let '(z, (nelec, pots)) := e in
  (1 <= z <= 118)%Z /\
  (* 'ecp_electrons': nelec_re wants \d+ *)
  (0 <= nelec)%Z /\
  (* at least one potential (max() of the writer) *)
  pots <> [] /\ Forall ecp_pot_ok pots /\
  (* momenta pairwise distinct *)
  NoDup (map pot_l pots) /\
  ecp_top_ok (map pot_l pots).

Definition nw_ecp_ok (ecps : list (Z * (Z * list epot))) : Prop :=
  (* at least one element (nothing at all is written otherwise) *)
  ecps <> [] /\
  (* dictionary keys *)
  NoDup (map fst ecps) /\
  Forall ecp_el_ok ecps.

(* the whole file: an electron part, an ECP part or both; an element may be in one of them or in both *)
Definition nw_all_ok (harm : string) (els : list (Z * list sshell)) (ecps : list (Z * (Z * list epot))) : Prop :=
  (els = [] \/ nw_ok harm els) /\ (ecps = [] \/ nw_ecp_ok ecps) /\ (els <> [] \/ ecps <> []).

(* ---------- what comes back ---------- *)
(* numbers: same normalisation as in matrix_roundtrip_stmt (every digit, sign and point kept, d/D -> e/E); the r exponents
   and the momentum come back as they are; ecp_type is not in the file, the reader says 'scalar_ecp' *)
Definition ecp_expected_pot (p : epot) : epot :=
  mkEpot "scalar_ecp" (p_am p) (p_rexp p) (map (norm false) (p_gexp p)) (map (map (norm false)) (p_coef p)).

(* the order of the potentials in the file and in the result: the writer's (sorted by momentum, then the highest moved to the
   front); nw_ecp_order_stmt says what this order is without reference to the sorting function *)
Definition ecp_written_order (pots : list epot) : list epot := match ecp_order pots with inr l => l | inl _ => [] end.

Definition nw_ecp_expected (ecps : list (Z * (Z * list epot))) : ecp_state :=
  map (fun e => (fst e, (Some (fst (snd e)), map ecp_expected_pot (ecp_written_order (snd (snd e)))))) ecps.

(* the whole file: the keys of the electron part, then the new keys of the ECP part; per element what each part gives *)
Definition nw_all_expected (harm : string) (els : list (Z * list sshell)) (ecps : list (Z * (Z * list epot)))
  : list (Z * nw_el) :=
  nw_assemble (map fst els ++ filter (fun z => negb (existsb (Z.eqb z) (map fst els))) (map fst ecps),
               nw_expected els harm, nw_ecp_expected ecps).

(* ---------- statements ---------- *)
(* the order: the potential with the highest momentum first, then the others by increasing momentum *)
Definition nw_ecp_order_stmt : Prop :=
  forall pots, pots <> [] -> Forall ecp_pot_ok pots -> NoDup (map pot_l pots) ->
    exists top rest, ecp_written_order pots = top :: rest /\ Permutation pots (top :: rest) /\
                     pot_l top = zmax (map pot_l pots) /\
                     StronglySorted (fun a b => (pot_l a < pot_l b)%Z) rest.

(* the usual case: the momenta are 0, 1, ..., lmax in some order *)
Definition nw_ecp_contiguous_stmt : Prop :=
  forall ls lmax, Permutation ls (zrange 0 (S lmax)) -> ecp_top_ok ls.

(* the writer does not fail on well-formed input *)
Definition nw_ecp_write_total_stmt : Prop :=
  forall ecps, nw_ecp_ok ecps -> exists t, nw_write_ecp ecps = inr t.

(* the ECP section alone (a file without electron section): reading back what was written gives the same elements in
   order, their electron counts, their potentials in the written order with the same momenta, r exponents and numbers *)
Definition nw_ecp_roundtrip_stmt : Prop :=
  forall ecps, nw_ecp_ok ecps -> nw_roundtrip_ecp ecps = inr (nw_ecp_expected ecps).

(* the whole file *)
Definition nw_all_write_total_stmt : Prop :=
  forall harm els ecps, nw_all_ok harm els ecps -> exists t, nw_write_all harm els ecps = inr t.
Definition nw_all_roundtrip_stmt : Prop :=
  forall harm els ecps, nw_all_ok harm els ecps ->
    nw_roundtrip_all harm els ecps = inr (nw_all_expected harm els ecps).
(* the same, component by component: key order, electron part (nw_expected of Proofs/NwchemDefs.v), ECP part *)
Definition nw_all_roundtrip_parts_stmt : Prop :=
  forall harm els ecps t, nw_all_ok harm els ecps -> nw_write_all harm els ecps = inr t ->
    nw_read_all_parts (splitlines t) =
      inr (map fst els ++ filter (fun z => negb (existsb (Z.eqb z) (map fst els))) (map fst ecps),
           nw_expected els harm, nw_ecp_expected ecps).

(* C04 direction: every number of the ECP part - gaussian exponents, coefficients, r exponents and electron counts in
   decimal - is a white-space delimited token of some line of the written text *)
Definition nw_ecp_number_of (ecps : list (Z * (Z * list epot))) (x : string) : Prop :=
  exists e, In e ecps /\
    (x = Z_to_string (fst (snd e)) \/
     exists p, In p (snd (snd e)) /\
       (In x (p_gexp p) \/ (exists c, In c (p_coef p) /\ In x c) \/ exists r, In r (p_rexp p) /\ x = Z_to_string r)).
Definition nw_ecp_no_number_lost_stmt : Prop :=
  forall ecps t, nw_ecp_ok ecps -> nw_write_ecp ecps = inr t ->
    forall x, nw_ecp_number_of ecps x -> exists line, In line (splitlines t) /\ In x (tokens_acc line "").

(* ---------- the condition on the highest momentum cannot be dropped ---------- *)
Definition gap_pot (l : Z) : epot := mkEpot "scalar_ecp" [l] [2%Z] ["1.0"] [["1.0"]].
Definition gap_ecp (ls : list Z) : list (Z * (Z * list epot)) := [(11%Z, (10%Z, map gap_pot ls))].
Definition gap_read (ls : list Z) : ecp_state := [(11%Z, (Some 10%Z, map gap_pot ls))].

(* momenta 0, 1, 3 (2 is missing below the top): written as ul, S, P; read back as 2, 0, 1.  Everything else about this input
   is well-formed. *)
Definition nw_ecp_gap_counterexample_stmt : Prop :=
  nw_roundtrip_ecp (gap_ecp [0; 1; 3]%Z) = inr (gap_read [2; 0; 1]%Z) /\
  nw_ecp_expected (gap_ecp [0; 1; 3]%Z) = gap_read [3; 0; 1]%Z /\
  ~ ecp_top_ok [0; 1; 3]%Z /\
  (forall ls, nw_ecp_ok (gap_ecp ls) <-> (ls <> [] /\ Forall (fun l => 0 <= l < 25)%Z ls /\ NoDup ls /\ ecp_top_ok ls)).
(* momenta 0, 2, 3 (a gap further down) come back unchanged: the lower potentials carry their letters *)
Definition nw_ecp_gap_below_stmt : Prop :=
  nw_ecp_ok (gap_ecp [0; 2; 3]%Z) /\
  nw_roundtrip_ecp (gap_ecp [0; 2; 3]%Z) = inr (gap_read [3; 0; 2]%Z).
(* a single potential is written as `ul` and read back with momentum 0 (max_ecp_am = -1): [0] comes back, [2] does not *)
Definition nw_ecp_single_stmt : Prop :=
  nw_ecp_ok (gap_ecp [0%Z]) /\
  nw_roundtrip_ecp (gap_ecp [0%Z]) = inr (gap_read [0%Z]) /\
  nw_roundtrip_ecp (gap_ecp [2%Z]) = inr (gap_read [0%Z]) /\ ~ ecp_top_ok [2%Z].
(* two potentials with the same momentum: no error anywhere, both highest ones are written as `ul` (1, 0, 1 happens to
   come back); with 0, 0, 1 the two S blocks survive as well - the format does not need distinctness, the hypothesis is
   there because the data model does (validator) *)
Definition nw_ecp_dup_stmt : Prop :=
  nw_roundtrip_ecp (gap_ecp [1; 0; 1]%Z) = inr (gap_read [1; 0; 1]%Z).

(* other hypotheses that cannot be dropped: no potential (writer: max() of an empty list), a potential without terms
   (reader: one-line block), a negative electron count (reader: nelec_re), two coefficient columns (writer: point_place[3]) *)
Definition nw_ecp_nopot_stmt : Prop := nw_roundtrip_ecp [(11%Z, (10%Z, []))] = inl EValue.
Definition nw_ecp_noterm_stmt : Prop :=
  nw_roundtrip_ecp [(11%Z, (10%Z, [mkEpot "scalar_ecp" [1%Z] [2%Z] ["1.0"] [["1.0"]]; mkEpot "scalar_ecp" [0%Z] [] [] [[]]]))]
    = inl ERuntime.
Definition nw_ecp_negelec_stmt : Prop := nw_roundtrip_ecp [(11%Z, ((-1)%Z, [gap_pot 0%Z]))] = inl ERuntime.
Definition nw_ecp_twocols_stmt : Prop :=
  nw_roundtrip_ecp [(11%Z, (10%Z, [mkEpot "scalar_ecp" [0%Z] [2%Z] ["1.0"] [["1.0"]; ["2.0"]]]))] = inl EIndex.

(* ---------- a concrete instance from the store: LANL2DZ for H (electron shells only) and Na (electron shells and ECP),
   as write_nwchem sees it; exe_text is, byte for byte,
   basis_set_exchange.get_basis('lanl2dz', elements=[1, 11], fmt='nwchem', header=False) ---------- *)
Definition exe_1_0 : sshell := mkShell "gto" "valence" [(0)%Z] ["19.2384000"; "2.8987000"; "0.6535000"; "0.1776000"] [["0.0328280"; "0.2312040"; "0.8172260"; "0.0000000"]; ["0.0000000"; "0.0000000"; "0.0000000"; "1.0000000"]].
Definition exe_11_0 : sshell := mkShell "gto" "valence" [(0)%Z] ["0.4972000"; "0.0560000"; "0.0221000"] [["-0.2753574"; "1.0989969"; "0.0000000"]; ["0.0000000"; "0.0000000"; "1.0000000"]].
Definition exe_11_1 : sshell := mkShell "gto" "valence" [(1)%Z] ["0.6697000"; "0.0636000"; "0.0204000"] [["-0.0683845"; "1.0140550"; "0.0000000"]; ["0.0000000"; "0.0000000"; "1.0000000"]].
Definition exe_pot_11_0 : epot := mkEpot "scalar_ecp" [(2)%Z] [(1)%Z; (2)%Z; (2)%Z; (2)%Z; (2)%Z] ["175.5502590"; "35.0516791"; "7.9060270"; "2.3365719"; "0.7799867"] [["-10.0000000"; "-47.4902024"; "-17.2283007"; "-6.0637782"; "-0.7299393"]].
Definition exe_pot_11_1 : epot := mkEpot "scalar_ecp" [(0)%Z] [(0)%Z; (1)%Z; (2)%Z; (2)%Z; (2)%Z] ["243.3605846"; "41.5764759"; "13.2649167"; "3.6797165"; "0.9764209"] [["3.0000000"; "36.2847626"; "72.9304880"; "23.8401151"; "6.0123861"]].
Definition exe_pot_11_2 : epot := mkEpot "scalar_ecp" [(1)%Z] [(0)%Z; (1)%Z; (2)%Z; (2)%Z; (2)%Z; (2)%Z] ["1257.2650682"; "189.6248810"; "54.5247759"; "13.7449955"; "3.6813579"; "0.9461106"] [["5.0000000"; "117.4495683"; "423.3986704"; "109.3247297"; "31.3701656"; "7.1241813"]].
Definition exe_els : list (Z * list sshell) := [(1%Z, [exe_1_0]); (11%Z, [exe_11_0; exe_11_1])].
Definition exe_ecps : list (Z * (Z * list epot)) := [(11%Z, (10%Z, [exe_pot_11_0; exe_pot_11_1; exe_pot_11_2]))].

Definition exe_text : string :=
  String.concat nl1
   ["BASIS ""ao basis"" SPHERICAL PRINT";
    "#BASIS SET: (4s) -> [2s]";
    "H    S";
    "     19.2384000              0.0328280              0.0000000";
    "      2.8987000              0.2312040              0.0000000";
    "      0.6535000              0.8172260              0.0000000";
    "      0.1776000              0.0000000              1.0000000";
    "#BASIS SET: (3s,3p) -> [2s,2p]";
    "Na    S";
    "      0.4972000             -0.2753574              0.0000000";
    "      0.0560000              1.0989969              0.0000000";
    "      0.0221000              0.0000000              1.0000000";
    "Na    P";
    "      0.6697000             -0.0683845              0.0000000";
    "      0.0636000              1.0140550              0.0000000";
    "      0.0204000              0.0000000              1.0000000";
    "END";
    "";
    "";
    "ECP";
    "Na nelec 10";
    "Na ul";
    "1     175.5502590            -10.0000000";
    "2      35.0516791            -47.4902024";
    "2       7.9060270            -17.2283007";
    "2       2.3365719             -6.0637782";
    "2       0.7799867             -0.7299393";
    "Na S";
    "0     243.3605846              3.0000000";
    "1      41.5764759             36.2847626";
    "2      13.2649167             72.9304880";
    "2       3.6797165             23.8401151";
    "2       0.9764209              6.0123861";
    "Na P";
    "0    1257.2650682              5.0000000";
    "1     189.6248810            117.4495683";
    "2      54.5247759            423.3986704";
    "2      13.7449955            109.3247297";
    "2       3.6813579             31.3701656";
    "2       0.9461106              7.1241813";
    "END";
    ""].

(* what read_nwchem returns for exe_text: H with its shells only, Na with shells, 10 electrons and the three potentials in
   file order (D, S, P), every number unchanged (the electron shells lose their region) *)
Definition exe_read : list (Z * nw_el) :=
  [(1%Z, mkNwEl [mkShell "gto" "" (am exe_1_0) (exps exe_1_0) (coefs exe_1_0)] None []);
   (11%Z, mkNwEl [mkShell "gto" "" (am exe_11_0) (exps exe_11_0) (coefs exe_11_0);
                  mkShell "gto" "" (am exe_11_1) (exps exe_11_1) (coefs exe_11_1)]
                 (Some 10%Z) [exe_pot_11_0; exe_pot_11_1; exe_pot_11_2])].

Definition nw_ecp_example_stmt : Prop :=
  nw_all_ok "spherical" exe_els exe_ecps /\
  nw_write_all "spherical" exe_els exe_ecps = inr exe_text /\
  nw_all_expected "spherical" exe_els exe_ecps = exe_read /\
  nw_roundtrip_all "spherical" exe_els exe_ecps = inr exe_read.
