(* contraction_string counts exactly the primitives and contractions present per angular momentum:
   the map that misc.contraction_string accumulates (Model/Elements.v cmap) holds, for every angular momentum,
   the sums written down directly below (prims_of / conts_of), and no entry for an absent one.
   Unbounded: any number of shells, any angular-momentum lists (repeats counted with multiplicity, as the code does). *)
From BSE Require Import Model.Val Model.Elements.
From Coq Require Import Lia.

Fixpoint clookup (am : Z) (m : list (Z * (nat * nat))) : option (nat * nat) :=
  match m with [] => None | (a, v) :: t => if (a =? am)%Z then Some v else clookup am t end.

(* ---- the specification: plain sums over the shells ---- *)
Definition cnt (am : Z) (ams : list Z) : nat := List.length (filter (Z.eqb am) ams).
Definition has (am : Z) (ams : list Z) : bool := existsb (Z.eqb am) ams.
Definition sh_ams (sh : cshell) : list Z := fst (fst sh).
Definition sh_np (sh : cshell) : nat := snd (fst sh).
(* a combined shell (sp, spd) counts as one contraction per angular momentum, otherwise one per coefficient row *)
Definition sh_nc (sh : cshell) : nat := if Nat.ltb 1 (List.length (sh_ams sh)) then 1 else snd sh.
Fixpoint occurs (am : Z) (shs : list cshell) : bool :=
  match shs with [] => false | sh :: t => orb (has am (sh_ams sh)) (occurs am t) end.
Fixpoint prims_of (am : Z) (shs : list cshell) : nat :=
  match shs with [] => 0 | sh :: t => cnt am (sh_ams sh) * sh_np sh + prims_of am t end.
Fixpoint conts_of (am : Z) (shs : list cshell) : nat :=
  match shs with [] => 0 | sh :: t => cnt am (sh_ams sh) * sh_nc sh + conts_of am t end.

Definition oplus (o : option (nat * nat)) (b : bool) (p c : nat) : option (nat * nat) :=
  match o with Some (p0, c0) => Some (p0 + p, c0 + c) | None => if b then Some (p, c) else None end.

Lemma clookup_add_same am np nc m : clookup am (cmap_add am np nc m) = oplus (clookup am m) true np nc.
Proof.
  induction m as [|[a [p c]] t IH]; cbn [cmap_add clookup].
  - rewrite Z.eqb_refl. reflexivity.
  - destruct (a =? am)%Z eqn:E; cbn [clookup]; rewrite E; [reflexivity | exact IH].
Qed.

Lemma clookup_add_other a am np nc m : a <> am -> clookup a (cmap_add am np nc m) = clookup a m.
Proof.
  intros H. induction m as [|[a' [p c]] t IH]; cbn [cmap_add clookup].
  - destruct (am =? a)%Z eqn:E; [apply Z.eqb_eq in E; congruence | reflexivity].
  - destruct (a' =? am)%Z eqn:E; cbn [clookup].
    + apply Z.eqb_eq in E. subst a'. destruct (am =? a)%Z eqn:E2; [apply Z.eqb_eq in E2; congruence | reflexivity].
    + destruct (a' =? a)%Z; [reflexivity | exact IH].
Qed.

Lemma has_false_cnt am ams : has am ams = false -> cnt am ams = 0.
Proof.
  unfold has, cnt. induction ams as [|a t IH]; cbn [existsb filter]; intros H; [reflexivity|].
  apply Bool.orb_false_iff in H. destruct H as [H1 H2]. rewrite H1. apply IH. exact H2.
Qed.

Lemma oplus_zero o : oplus o false 0 0 = o.
Proof. destruct o as [[p c]|]; cbn [oplus]; [f_equal; f_equal; lia | reflexivity]. Qed.

Lemma oplus_oplus o b1 p1 c1 b2 p2 c2 :
  (b1 = false -> p1 = 0 /\ c1 = 0) ->
  oplus (oplus o b1 p1 c1) b2 p2 c2 = oplus o (orb b1 b2) (p1 + p2) (c1 + c2).
Proof.
  intros H. destruct o as [[p c]|]; cbn [oplus].
  - f_equal; f_equal; lia.
  - destruct b1; cbn [oplus orb]; [f_equal; f_equal; lia|].
    destruct (H eq_refl) as [-> ->]. reflexivity.
Qed.

Lemma inner am np nc ams : forall m,
  clookup am (fold_left (fun m a => cmap_add a np nc m) ams m)
  = oplus (clookup am m) (has am ams) (cnt am ams * np) (cnt am ams * nc).
Proof.
  induction ams as [|a t IH]; intros m; cbn [fold_left].
  - cbn. apply eq_sym, oplus_zero.
  - rewrite IH. unfold has, cnt. cbn [existsb filter]. fold (has am t). 
    destruct (am =? a)%Z eqn:E.
    + apply Z.eqb_eq in E. subst a. rewrite clookup_add_same. cbn [List.length]. fold (cnt am t).
      rewrite oplus_oplus by (intros X; discriminate X). cbn [orb]. f_equal; lia.
    + rewrite clookup_add_other by (intros X; subst a; rewrite Z.eqb_refl in E; discriminate E).
      cbn [orb]. reflexivity.
Qed.

Lemma outer am shs : forall m,
  clookup am (fold_left cmap_shell shs m)
  = oplus (clookup am m) (occurs am shs) (prims_of am shs) (conts_of am shs).
Proof.
  induction shs as [|[[ams np] ng] t IH]; intros m; cbn [fold_left occurs prims_of conts_of].
  - apply eq_sym, oplus_zero.
  - rewrite IH. unfold cmap_shell. rewrite inner.
    unfold sh_ams, sh_np, sh_nc. cbn [fst snd].
    apply oplus_oplus. intros Hf. rewrite (has_false_cnt _ _ Hf). split; reflexivity.
Qed.

Lemma cmap_counts_lemma am shs :
  clookup am (cmap shs) = if occurs am shs then Some (prims_of am shs, conts_of am shs) else None.
Proof. unfold cmap. rewrite outer. reflexivity. Qed.
