(* Statements about the sorting model (C02) and the primitive-level operations (C07). Definitions only. *)
From Coq Require Import Sorting.Permutation Sorting.Sorted QArith.
Close Scope Q_scope.
From BSE Require Import Model.Val Model.Basis Model.Manip Model.Sort Proofs.FSDefs.
Set Implicit Arguments.

Section SortStmts.
  Variable N : Type.
  Variable is0 : N -> bool.
  Variable same : N -> N -> bool.
  Variable leb : N -> N -> bool.
  Variable dflt : N.
  Notation shell := (shell N).

  Record order_ok : Prop := {
    leb_total : forall a b, leb a b = true \/ leb b a = true;
    leb_trans : forall a b c, leb a b = true -> leb b c = true -> leb a c = true
  }.

  (* the contraction order handed in is a permutation of the contraction indices *)
  Definition cidx_ok (s : shell) (cidx : list nat) : Prop :=
    List.length (am s) = 1 -> Permutation cidx (seq 0 (List.length (coefs s))).

  Definition sort_shell_FS_stmt : Prop :=
    forall s cidx, rect s -> am_ok s -> cidx_ok s cidx ->
      FSeq is0 same [sort_shell leb dflt s cidx] [s] /\ rect (sort_shell leb dflt s cidx).

  (* exponents in non-increasing order *)
  Definition sort_shell_sorted_stmt : Prop :=
    forall s cidx, StronglySorted (fun a b => leb b a = true) (exps (sort_shell leb dflt s cidx)).

  Definition sort_shells_FS_stmt : Prop :=
    forall l : list (shell * (list nat * nat)),
      Forall (fun sr => rect (fst sr) /\ am_ok (fst sr) /\ cidx_ok (fst sr) (fst (snd sr))) l ->
      FSeq is0 same (sort_shells leb dflt l) (map fst l).

  (* shells by non-decreasing highest momentum *)
  Definition sort_shells_order_stmt : Prop :=
    forall l : list (shell * (list nat * nat)),
      StronglySorted (fun s t => (max_am_of (am s) <= max_am_of (am t))%Z) (sort_shells leb dflt l).

  (* sorting an already sorted list of shells with the same keys changes nothing (idempotence under key stability) *)
  Definition sort_shell_idem_stmt : Prop :=
    forall s, rect s -> StronglySorted (fun a b => leb b a = true /\ leb a b = false) (exps s) ->
      sort_shell leb dflt s (seq 0 (List.length (coefs s))) = s.
End SortStmts.

Section C07Stmts.
  Variable N : Type.
  Variable is0 : N -> bool.
  Variable same : N -> N -> bool.
  Variable eqN : N -> N -> bool.
  Variable one_lit : N.
  Notation shell := (shell N).

  (* uncontract_segmented: exactly one unit function per (momentum, primitive) of the input *)
  Definition unc_seg_spec_stmt : Prop :=
    forall (shs : list shell) f, Forall (@am_ok N) shs ->
      (FSin is0 same f (flat_map (unc_seg_shell one_lit) shs) <->
       exists s l x, In s shs /\ In l (am s) /\ In x (exps s) /\ feq is0 same f (l, [(x, one_lit)])).

  (* remove_free_primitives before pruning, for single-momentum shells: exactly the functions with two or more
     non-zero coefficients *)
  Definition rm_free_spec_stmt : Prop :=
    forall (shs : list shell) f, Forall (fun s => List.length (am s) = 1) shs -> wf_shells is0 shs ->
      (FSin is0 same f (flat_map (rm_free_shell is0) shs) <->
       exists s l c, In s shs /\ am s = [l] /\ In c (coefs s) /\ 2 <= List.length (nonzeros is0 c) /\
                     feq is0 same f (l, combine (exps s) c)).
  Definition rm_free_wf_stmt : Prop :=
    forall (shs : list shell), Forall (fun s => List.length (am s) = 1) shs -> wf_shells is0 shs ->
      wf_shells is0 (flat_map (rm_free_shell is0) shs).

  (* after the repair of remove_free_primitives (fused shells lose the momentum of a removed contraction):
     the same specification for every well-formed shell list, fused shells included *)
  Definition rm_free_spec_all_stmt : Prop :=
    forall (shs : list shell) f, wf_shells is0 shs ->
      (FSin is0 same f (flat_map (rm_free_shell is0) shs) <->
       exists g, In g (shells_cfuns shs) /\ 2 <= List.length (nonzeros is0 (map snd (snd g))) /\ feq is0 same f g).
  Definition rm_free_wf_all_stmt : Prop :=
    forall (shs : list shell), wf_shells is0 shs -> wf_shells is0 (flat_map (rm_free_shell is0) shs).

  (* uncontract_segmented with its seen-set: the function set is still one unit function per (momentum, primitive) ... *)
  Definition unc_seg_shells_spec_stmt : Prop :=
    forall (shs : list shell) f,
      (FSin is0 same f (unc_seg_shells same one_lit shs []) <->
       exists s l x, In s shs /\ In l (am s) /\ In x (exps s) /\ feq is0 same f (l, [(x, one_lit)])).
  (* ... and no primitive is emitted twice: two different output shells never carry the same momentum with equal exponents *)
  Definition unc_seg_shells_nodup_stmt : Prop :=
    forall (shs : list shell) i j s t l x y,
      nth_error (unc_seg_shells same one_lit shs []) i = Some s ->
      nth_error (unc_seg_shells same one_lit shs []) j = Some t ->
      In l (am s) -> In l (am t) -> exps s = [x] -> exps t = [y] -> same x y = true -> i = j.
  (* every output shell is a unit shell of some input shell, for a non-empty selection of that shell's momenta (all of them
     unless a part was emitted before) *)
  Definition unc_seg_shells_shape_stmt : Prop :=
    forall (shs : list shell) u, In u (unc_seg_shells same one_lit shs []) ->
      exists s x ams, In s shs /\ In x (exps s) /\ ams <> [] /\ (forall l, In l ams -> In l (am s)) /\
        u = unit_shell_am one_lit s ams x.
End C07Stmts.

(* optimize_general on rational coefficients: same linear span, never more non-zeros *)
Section OptStmts.
  Definition q0 (q : Q) : bool := Qeq_bool q 0%Q.
  Definition qshell := shell Q.

  Fixpoint vadd (a b : list Q) : list Q :=
    match a, b with x :: a', y :: b' => (x + y)%Q :: vadd a' b' | _, _ => [] end.
  Definition vscale (k : Q) (a : list Q) : list Q := map (Qmult k) a.
  Definition veq (a b : list Q) : Prop := Forall2 Qeq a b.
  Fixpoint lincomb_val (ks : list Q) (cols : list (list Q)) (n : nat) : list Q :=
    match ks, cols with
    | k :: ks', c :: cols' => vadd (vscale k c) (lincomb_val ks' cols' n)
    | _, _ => repeat 0%Q n
    end.
  Definition in_span (cols : list (list Q)) (n : nat) (v : list Q) : Prop :=
    exists ks, List.length ks = List.length cols /\ veq v (lincomb_val ks cols n).
  Definition span_eq (n : nat) (a b : list (list Q)) : Prop :=
    Forall (in_span a n) b /\ Forall (in_span b n) a.

  Definition opt_shell_span_stmt : Prop :=
    forall s s' : qshell, rect s -> opt_shell q0 0%Q s = inr s' ->
      exps s' = exps s /\ am s' = am s /\ rect s' /\
      span_eq (List.length (exps s)) (coefs s) (coefs s') /\
      (List.length (flat_map (nonzeros q0) (coefs s')) <= List.length (flat_map (nonzeros q0) (coefs s)))%nat.
End OptStmts.

(* the generic code commutes with any map of the carrier that preserves the zero test: what is proved at
   one instance (rationals) transfers to the string instance that is extracted and run *)
Section Naturality.
  Variables A B : Type.
  Variable is0A : A -> bool.
  Variable is0B : B -> bool.
  Variable h : A -> B.
  Variables (zA : A) (zB : B).
  Definition map_shell (s : shell A) : shell B :=
    mkShell (ftype s) (region s) (am s) (map h (exps s)) (map (map h) (coefs s)).
  Definition opt_shell_natural_stmt : Prop :=
    (forall a, is0B (h a) = is0A a) -> h zA = zB ->
    forall s, match opt_shell is0A zA s, opt_shell is0B zB (map_shell s) with
              | inr s1, inr s2 => s2 = map_shell s1
              | inl e1, inl e2 => e1 = e2
              | _, _ => False
              end.
End Naturality.
