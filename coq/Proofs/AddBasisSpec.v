(* C17: proofs of the statements of AddBasisDefs.v about the model of curate/add_basis.py. *)
From BSE Require Import Model.Val Model.Basis Model.Memo Model.Elements Model.Compose Model.Index Model.Validator Model.AddBasis.
From BSE Require Import Proofs.ComposeSpec Proofs.AddBasisDefs.
From Coq Require Import Lia.

(* ====================================================================== *)
(* files                                                                   *)
(* ====================================================================== *)
Lemma exists_path_false : forall d p, exists_path d p = false -> assoc p d = None.
Proof. intros d p H; unfold exists_path in H; destruct (assoc p d); [discriminate|reflexivity]. Qed.

Lemma exists_path_true : forall d p, exists_path d p = true -> assoc p d <> None.
Proof. intros d p H; unfold exists_path in H; destruct (assoc p d); [discriminate|discriminate]. Qed.

Lemma write_file_same : forall d p v, assoc p (write_file d p v) = Some v.
Proof. intros; unfold write_file; apply assoc_set_same. Qed.

Lemma write_file_other : forall d p q v, q <> p -> assoc q (write_file d p v) = assoc q d.
Proof. intros; unfold write_file; apply assoc_set_other; assumption. Qed.

(* writing to a path that is absent keeps every present file *)
Lemma write_file_keeps : forall d p v q w, assoc p d = None -> assoc q d = Some w -> assoc q (write_file d p v) = Some w.
Proof.
  intros d p v q w Hp Hq. rewrite write_file_other; [assumption|].
  intros ->. rewrite Hp in Hq; discriminate.
Qed.

Lemma remove_write_same : forall d p v, remove_file (write_file d p v) p = remove_file d p.
Proof.
  intros d p v. unfold remove_file, write_file.
  induction d as [|[k w] t IH]; cbn.
  - rewrite String.eqb_refl; reflexivity.
  - destruct (String.eqb p k) eqn:E; cbn.
    + rewrite String.eqb_refl. rewrite String.eqb_sym, E. reflexivity.
    + rewrite String.eqb_sym, E. cbn. rewrite IH. reflexivity.
Qed.

(* ====================================================================== *)
(* inversion of a successful add_from_components                           *)
(* ====================================================================== *)
Definition clash_check (d : datadir) (name fb : string) : res unit :=
  match assoc "METADATA.json" d with
  | Some (VDict m) =>
    match assoc (transform_basis_name name) m with
    | Some e => do bn <- entry_str "basename" e; do rp <- entry_str "relpath" e;
                if andb (String.eqb bn fb) (String.eqb rp "") then ok tt else fail ERuntime
    | None => ok tt
    end
  | _ => ok tt
  end.

Lemma add_from_components_inv :
  forall d comps subdir fb name family role desc version revdesc today d',
    add_from_components d comps subdir fb name family role desc version revdesc today = inr d' ->
    exists ef tf mf idx,
      exists_path d (element_rel subdir fb version) = false /\
      exists_path d (table_rel fb version) = false /\
      clash_check d name fb = inr tt /\
      let d1 := write_file (write_file d (element_rel subdir fb version) ef) (table_rel fb version) tf in
      let d2 := if exists_path d1 (meta_rel fb) then d1 else write_file d1 (meta_rel fb) mf in
      create_metadata (remove_file d2 "METADATA.json") = inr idx /\
      d' = write_file d2 "METADATA.json" idx.
Proof.
  intros d comps subdir fb name family role desc version revdesc today d' H.
  unfold add_from_components in H.
  destruct comps as [|c0 comps']; [discriminate|].
  inv_bind H. inv_bind H. inv_bind H. inv_bind H. inv_bind H.
  fold (element_rel subdir fb version) in H.
  fold (table_rel fb version) in H.
  fold (meta_rel fb) in H.
  destruct (exists_path d (element_rel subdir fb version)) eqn:Ee; [discriminate|].
  destruct (exists_path d (table_rel fb version)) eqn:Et; [discriminate|].
  fold (clash_check d name fb) in H.
  inv_bind H. inv_bind H.
  apply ok_inj in H.
  match goal with Hc : clash_check _ _ _ = inr ?u |- _ => destruct u end.
  do 4 eexists. split; [reflexivity|]. split; [reflexivity|]. split; [eassumption|].
  cbv zeta. split; [eassumption|]. symmetry; exact H.
Qed.

(* ====================================================================== *)
(* add_from_components                                                     *)
(* ====================================================================== *)
Lemma add_from_components_monotone : add_from_components_monotone_stmt.
Proof.
  unfold add_from_components_monotone_stmt.
  intros d comps subdir fb name family role desc version revdesc today d' H p v Hp Hv.
  apply add_from_components_inv in H.
  destruct H as (ef & tf & mf & idx & Ee & Et & _ & H). cbv zeta in H. destruct H as (_ & ->).
  apply exists_path_false in Ee. apply exists_path_false in Et.
  rewrite write_file_other by assumption.
  assert (H1 : assoc p (write_file (write_file d (element_rel subdir fb version) ef) (table_rel fb version) tf) = Some v).
  { assert (Hpe : p <> element_rel subdir fb version) by (intros ->; rewrite Ee in Hv; discriminate).
    assert (Hpt : p <> table_rel fb version) by (intros ->; rewrite Et in Hv; discriminate).
    rewrite write_file_other by assumption. rewrite write_file_other by assumption. exact Hv. }
  match goal with |- context [exists_path ?a ?b] => destruct (exists_path a b) eqn:Em end.
  - exact H1.
  - apply exists_path_false in Em. apply write_file_keeps; assumption.
Qed.

Lemma add_from_components_new_files : add_from_components_new_files_stmt.
Proof.
  unfold add_from_components_new_files_stmt.
  intros d comps subdir fb name family role desc version revdesc today d' H p Hn Hs.
  apply add_from_components_inv in H.
  destruct H as (ef & tf & mf & idx & _ & _ & _ & H). cbv zeta in H. destruct H as (_ & ->).
  destruct (string_dec p "METADATA.json") as [->|N1]; [cbn; auto|].
  destruct (string_dec p (meta_rel fb)) as [->|N2]; [cbn; auto|].
  destruct (string_dec p (table_rel fb version)) as [->|N3]; [cbn; auto|].
  destruct (string_dec p (element_rel subdir fb version)) as [->|N4]; [cbn; auto|].
  exfalso. apply Hs. rewrite write_file_other by assumption.
  match goal with |- context [exists_path ?a ?b] => destruct (exists_path a b) end.
  - rewrite write_file_other by assumption. rewrite write_file_other by assumption. exact Hn.
  - rewrite write_file_other by assumption.
    rewrite write_file_other by assumption. rewrite write_file_other by assumption. exact Hn.
Qed.

Lemma add_from_components_index : add_from_components_index_stmt.
Proof.
  unfold add_from_components_index_stmt.
  intros d comps subdir fb name family role desc version revdesc today d' H.
  apply add_from_components_inv in H.
  destruct H as (ef & tf & mf & idx & _ & _ & _ & H). cbv zeta in H. destruct H as (Hc & ->).
  exists idx. split; [apply write_file_same|]. rewrite remove_write_same. exact Hc.
Qed.

Lemma add_from_components_no_overwrite : add_from_components_no_overwrite_stmt.
Proof.
  unfold add_from_components_no_overwrite_stmt.
  intros d comps subdir fb name family role desc version revdesc today Hex.
  destruct (add_from_components d comps subdir fb name family role desc version revdesc today) as [e|d'] eqn:H;
    [eexists; reflexivity|].
  exfalso. apply add_from_components_inv in H.
  destruct H as (ef & tf & mf & idx & Ee & Et & _).
  destruct Hex as [Hex|Hex]; congruence.
Qed.

Lemma add_from_components_name_clash : add_from_components_name_clash_stmt.
Proof.
  unfold add_from_components_name_clash_stmt.
  intros d comps subdir fb name family role desc version revdesc today m e bn rp Hm He Hbn Hrp Hne.
  destruct (add_from_components d comps subdir fb name family role desc version revdesc today) as [err|d'] eqn:H;
    [eexists; reflexivity|].
  exfalso. apply add_from_components_inv in H.
  destruct H as (ef & tf & mf & idx & _ & _ & Hc & _).
  unfold clash_check in Hc. rewrite Hm, He, Hbn in Hc. cbn [bind] in Hc. rewrite Hrp in Hc. cbn [bind] in Hc.
  destruct (String.eqb bn fb) eqn:E1; cbn [andb] in Hc; [|discriminate].
  destruct (String.eqb rp "") eqn:E2; [|discriminate].
  apply String.eqb_eq in E1. apply String.eqb_eq in E2. destruct Hne as [Hne|Hne]; contradiction.
Qed.

(* ====================================================================== *)
(* the component path is never the index path                              *)
(* ====================================================================== *)
Fixpoint count_char (c : Ascii.ascii) (s : string) : nat :=
  match s with
  | EmptyString => 0
  | String a t => (if Ascii.eqb a c then 1 else 0) + count_char c t
  end.

Lemma count_char_app : forall c a b, count_char c (a +++ b) = count_char c a + count_char c b.
Proof. induction a as [|x a IH]; intros b; cbn; [reflexivity|]. rewrite IH. lia. Qed.

Lemma comp_rel_not_index : forall subdir fb version, comp_rel subdir fb version <> "METADATA.json".
Proof.
  intros subdir fb version H. unfold comp_rel, path_join in H.
  destruct subdir as [|a s].
  - apply (f_equal (count_char "."%char)) in H.
    rewrite !count_char_app in H. cbn in H. lia.
  - remember (fb +++ "." +++ version +++ ".json") as t eqn:Et. clear Et.
    apply (f_equal (count_char "/"%char)) in H.
    rewrite (count_char_app _ (String a s) ("/" +++ t)) in H. rewrite (count_char_app _ "/" t) in H.
    change (count_char "/" "METADATA.json") with 0 in H.
    change (count_char "/" "/") with 1 in H. lia.
Qed.

(* ====================================================================== *)
(* add_basis_from_dict                                                     *)
(* ====================================================================== *)
Lemma add_basis_from_dict_inv :
  forall d bs subdir fb name family role desc version revdesc src today refs d',
    add_basis_from_dict d bs subdir fb name family role desc version revdesc src today refs = inr d' ->
    exists top els els',
      bs = VDict top /\ (do e <- vfield "elements" bs; vdict e) = inr els /\ set_refs els refs = inr els' /\
      let comp := VDict (assoc_set "elements" (VDict els') (assoc_set "data_source" (VStr src) (assoc_set "description" (VStr desc) top))) in
      validate_data "component" comp = inr tt /\
      exists_path d (comp_rel subdir fb version) = false /\
      add_from_components (write_file d (comp_rel subdir fb version) comp) [comp_rel subdir fb version]
                          subdir fb name family role desc version revdesc today = inr d'.
Proof.
  intros d bs subdir fb name family role desc version revdesc src today refs d' H.
  unfold add_basis_from_dict in H.
  inv_bind H. rename x into top. rename E into Etop.
  inv_bind H. rename x into els. rename E into Eels.
  inv_bind H. rename x into els'. rename E into Erefs.
  inv_bind H. rename x into u. rename E into Eval. destruct u.
  fold (comp_rel subdir fb version) in H.
  destruct (exists_path d (comp_rel subdir fb version)) eqn:Ec; [discriminate|].
  exists top, els, els'.
  assert (Hbs : bs = VDict top).
  { destruct bs; cbn in Etop; try discriminate. apply ok_inj in Etop. subst; reflexivity. }
  split; [exact Hbs|]. split; [exact Eels|]. split; [exact Erefs|].
  cbv zeta. split; [exact Eval|]. split; [reflexivity|]. exact H.
Qed.

Lemma add_basis_from_dict_monotone : add_basis_from_dict_monotone_stmt.
Proof.
  unfold add_basis_from_dict_monotone_stmt.
  intros d bs subdir fb name family role desc version revdesc src today refs d' H p v Hp Hv.
  apply add_basis_from_dict_inv in H.
  destruct H as (top & els & els' & _ & _ & _ & H). cbv zeta in H. destruct H as (_ & Ec & H).
  apply exists_path_false in Ec.
  eapply add_from_components_monotone; [exact H|exact Hp|].
  apply write_file_keeps; assumption.
Qed.

Lemma add_basis_from_dict_new_files : add_basis_from_dict_new_files_stmt.
Proof.
  unfold add_basis_from_dict_new_files_stmt.
  intros d bs subdir fb name family role desc version revdesc src today refs d' H p Hn Hs.
  apply add_basis_from_dict_inv in H.
  destruct H as (top & els & els' & _ & _ & _ & H). cbv zeta in H. destruct H as (_ & _ & H).
  destruct (string_dec p (comp_rel subdir fb version)) as [->|N]; [left; reflexivity|].
  right. eapply add_from_components_new_files; [exact H| |exact Hs].
  rewrite write_file_other by assumption. exact Hn.
Qed.

Lemma add_basis_from_dict_index : add_basis_from_dict_index_stmt.
Proof.
  unfold add_basis_from_dict_index_stmt.
  intros d bs subdir fb name family role desc version revdesc src today refs d' H.
  apply add_basis_from_dict_inv in H.
  destruct H as (top & els & els' & _ & _ & _ & H). cbv zeta in H. destruct H as (_ & _ & H).
  eapply add_from_components_index; exact H.
Qed.

Lemma add_basis_from_dict_no_overwrite : add_basis_from_dict_no_overwrite_stmt.
Proof.
  unfold add_basis_from_dict_no_overwrite_stmt.
  intros d bs subdir fb name family role desc version revdesc src today refs Hex.
  destruct (add_basis_from_dict d bs subdir fb name family role desc version revdesc src today refs) as [e|d'] eqn:H;
    [eexists; reflexivity|].
  exfalso. apply add_basis_from_dict_inv in H.
  destruct H as (top & els & els' & _ & _ & _ & H). cbv zeta in H. destruct H as (_ & Ec & _). congruence.
Qed.

Lemma add_basis_from_dict_stores : add_basis_from_dict_stores_stmt.
Proof.
  unfold add_basis_from_dict_stores_stmt.
  intros d bs subdir fb name family role desc version revdesc src today refs d' H.
  apply add_basis_from_dict_inv in H.
  destruct H as (top & els & els' & Hbs & Hels & Hrefs & H). cbv zeta in H. destruct H as (Hval & _ & H).
  exists top, els, els'. split; [exact Hbs|]. split; [exact Hels|]. split; [exact Hrefs|]. split; [|exact Hval].
  eapply add_from_components_monotone; [exact H|apply comp_rel_not_index|apply write_file_same].
Qed.

(* ====================================================================== *)
(* sequences of additions                                                  *)
(* ====================================================================== *)
Lemma apply_op_monotone : forall o d p v, p <> "METADATA.json" -> assoc p d = Some v -> assoc p (apply_op d o) = Some v.
Proof.
  intros o d p v Hp Hv. destruct o; cbn [apply_op].
  - match goal with |- context [add_basis_from_dict ?a ?b ?c ?d ?e ?f ?g ?h ?i ?j ?k ?l ?m] =>
      destruct (add_basis_from_dict a b c d e f g h i j k l m) eqn:E end; [exact Hv|].
    eapply add_basis_from_dict_monotone; eassumption.
  - match goal with |- context [add_from_components ?a ?b ?c ?d ?e ?f ?g ?h ?i ?j ?k] =>
      destruct (add_from_components a b c d e f g h i j k) eqn:E end; [exact Hv|].
    eapply add_from_components_monotone; eassumption.
Qed.

Lemma add_sequence_monotone : add_sequence_monotone_stmt.
Proof.
  unfold add_sequence_monotone_stmt.
  induction ops as [|o ops IH]; intros d p v Hp Hv; cbn [fold_left]; [exact Hv|].
  apply IH; [exact Hp|]. apply apply_op_monotone; assumption.
Qed.

Print Assumptions add_from_components_monotone.
Print Assumptions add_from_components_new_files.
Print Assumptions add_from_components_index.
Print Assumptions add_from_components_no_overwrite.
Print Assumptions add_from_components_name_clash.
Print Assumptions add_basis_from_dict_monotone.
Print Assumptions add_basis_from_dict_new_files.
Print Assumptions add_basis_from_dict_index.
Print Assumptions add_basis_from_dict_no_overwrite.
Print Assumptions add_basis_from_dict_stores.
Print Assumptions add_sequence_monotone.
