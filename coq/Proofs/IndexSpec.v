(* C11: filter_basis_sets and the lookups over the index.  Proofs only; statements in ComposeDefs.v. *)
From BSE Require Import Model.Val Model.Elements Model.Compose Model.Index Gen.GenApi Proofs.ComposeDefs Proofs.ComposeSpec.

(* ---------- list helpers ---------- *)
Lemma filter_all : forall A (l : list A), filter (fun _ => true) l = l.
Proof. induction l as [|a l IH]; cbn; [reflexivity|]. rewrite IH; reflexivity. Qed.

Lemma filter_filter : forall A (p q : A -> bool) l, filter q (filter p l) = filter (fun x => p x && q x) l.
Proof.
  induction l as [|a l IH]; cbn; [reflexivity|].
  destruct (p a); cbn; [destruct (q a); rewrite IH; reflexivity|exact IH].
Qed.

Lemma filter_ext_In : forall A (p q : A -> bool) l, (forall a, In a l -> p a = q a) -> filter p l = filter q l.
Proof.
  induction l as [|a l IH]; intros H; cbn; [reflexivity|].
  rewrite (H a (or_introl eq_refl)). rewrite IH by (intros; apply H; right; assumption). reflexivity.
Qed.

(* ---------- filter_basis_sets ---------- *)
Definition pf (family : option string) (kv : string * val) : bool :=
  match family with
  | None => true
  | Some x => match entry_str "family" (snd kv) with inr f => String.eqb f (lower x) | inl _ => false end
  end.
Definition pr (role : option string) (kv : string * val) : bool :=
  match role with
  | None => true
  | Some x => match entry_str "role" (snd kv) with inr r => String.eqb r (lower x) | inl _ => false end
  end.
Definition ps (substr : option string) (kv : string * val) : bool :=
  match substr with
  | None => true
  | Some EmptyString => true
  | Some x => match entry_str "display_name" (snd kv) with inr dn => infix (lower x) (lower dn) | inl _ => false end
  end.

Lemma filter_basis_sets_shape : forall m substr family role out,
  filter_basis_sets m substr family role None = inr out ->
  out = filter (ps substr) (filter (pr role) (filter (pf family) m)).
Proof.
  intros m substr family role out H. unfold filter_basis_sets in H.
  inv_bind H. rename x into m1, E into H1. inv_bind H. rename x into m2, E into H2.
  inv_bind H. rename x into m3, E into H3. apply ok_inj in H3; subst m3.
  assert (E1 : m1 = filter (pf family) m).
  { destruct family as [f|]; cbv zeta in H1.
    - inv_bind H1. destruct (existsb _ x); [|discriminate]. inv_bind H1. apply ok_inj in H1; subst m1.
      apply (mapM_keep_filter _ _ (fun kv => entry_str "family" (snd kv)) (fun x => String.eqb x (lower f))) in E0.
      exact E0.
    - apply ok_inj in H1; subst m1. symmetry; apply filter_all. }
  assert (E2 : m2 = filter (pr role) m1).
  { destruct role as [r|]; cbv zeta in H2.
    - destruct (is_role (lower r)); [|discriminate]. inv_bind H2. apply ok_inj in H2; subst m2.
      apply (mapM_keep_filter _ _ (fun kv => entry_str "role" (snd kv)) (fun x => String.eqb x (lower r))) in E.
      exact E.
    - apply ok_inj in H2; subst m2. symmetry; apply filter_all. }
  subst m1 m2.
  destruct substr as [[|c s]|]; cbv zeta in H.
  - apply ok_inj in H; subst out. symmetry; apply filter_all.
  - inv_bind H. apply ok_inj in H; subst out.
    apply (mapM_keep_filter _ _ (fun kv => entry_str "display_name" (snd kv))
             (fun dn => infix (lower (String c s)) (lower dn))) in E.
    exact E.
  - apply ok_inj in H; subst out. symmetry; apply filter_all.
Qed.

Lemma filter_spec : filter_spec_stmt.
Proof.
  intros m substr family role out Hok H. apply filter_basis_sets_shape in H. subst out.
  rewrite !filter_filter. apply filter_ext_In. intros kv Hkv.
  rewrite Forall_forall in Hok. destruct (Hok _ Hkv) as (f & r & dn & vers & Hf & Hr & Hd & _).
  unfold pf, pr, ps. rewrite Hf, Hr, Hd.
  destruct family as [ff|], role as [rr|], substr as [[|c ss]|]; rewrite ?andb_assoc; reflexivity.
Qed.

Lemma filter_invalid : filter_invalid_stmt.
Proof.
  intros m substr family role els (r & -> & Hr) Hfam. unfold filter_basis_sets.
  destruct family as [f|].
  - destruct Hfam as (fams & Hg & Hin). cbv zeta. rewrite Hg; cbn [bind].
    assert (Hex : existsb (String.eqb (lower f)) fams = true).
    { apply existsb_exists. exists (lower f). split; [assumption|apply String.eqb_refl]. }
    rewrite Hex.
    assert (Hkeep : exists keep,
      mapM (fun kv => do x <- entry_str "family" (snd kv); ok (if String.eqb x (lower f) then [kv] else [])) m = inr keep).
    { apply mapM_total. intros kv Hkv. unfold get_families in Hg. inv_bind Hg.
      destruct (mapM_ok_each _ _ _ _ _ kv E Hkv) as (b & Hb & _). cbn beta in Hb. rewrite Hb. cbn [bind].
      eexists; reflexivity. }
    destruct Hkeep as [keep Hkeep]. rewrite Hkeep. cbn [bind ok]. rewrite Hr. reflexivity.
  - cbn [bind ok]. cbv zeta. rewrite Hr. reflexivity.
Qed.

(* ---------- sort_strs ---------- *)
Definition ins_s (x : string) : list string -> list string :=
  fix ins (l : list string) : list string :=
    match l with
    | [] => [x]
    | y :: t => if str_ltb x y then x :: l else y :: ins t
    end.

Lemma ins_s_nil : forall x, ins_s x [] = [x].
Proof. reflexivity. Qed.
Lemma ins_s_cons : forall x y t, ins_s x (y :: t) = if str_ltb x y then x :: y :: t else y :: ins_s x t.
Proof. reflexivity. Qed.

Lemma sort_strs_eq : forall l, sort_strs l = fold_left (fun acc x => ins_s x acc) l [].
Proof. reflexivity. Qed.

Lemma ins_s_length : forall x l, List.length (ins_s x l) = S (List.length l).
Proof.
  induction l as [|y t IH]; [reflexivity|]. rewrite ins_s_cons. destruct (str_ltb x y); cbn [List.length]; congruence.
Qed.

Lemma ins_s_In : forall x l n, In n (ins_s x l) <-> n = x \/ In n l.
Proof.
  induction l as [|y t IH]; intros n; [rewrite ins_s_nil; cbn; intuition|]. rewrite ins_s_cons.
  destruct (str_ltb x y); cbn [In]; [intuition|]. rewrite IH. intuition.
Qed.

Lemma fold_ins_length : forall l acc,
  List.length (fold_left (fun acc x => ins_s x acc) l acc) = List.length l + List.length acc.
Proof.
  induction l as [|x l IH]; intros acc; cbn; [reflexivity|]. rewrite IH, ins_s_length. lia.
Qed.

Lemma fold_ins_In : forall l acc n,
  In n (fold_left (fun acc x => ins_s x acc) l acc) <-> In n l \/ In n acc.
Proof.
  induction l as [|x l IH]; intros acc n; cbn; [intuition|]. rewrite IH, ins_s_In. intuition.
Qed.

Lemma names_enumerate : names_enumerate_stmt.
Proof.
  intros m names H. unfold get_all_basis_names in H. inv_bind H. apply ok_inj in H; subst names.
  rewrite sort_strs_eq. split.
  - rewrite fold_ins_length. cbn [List.length]. rewrite Nat.add_0_r. eapply mapM_length; eauto.
  - intros n. rewrite fold_ins_In. cbn [In]. split.
    + intros [Hn|[]]. destruct (mapM_in_out _ _ _ _ _ _ E Hn) as (kv & Hkv & Hf). eauto.
    + intros (kv & Hkv & Hf). left. destruct (mapM_ok_each _ _ _ _ _ kv E Hkv) as (b & Hb & Hin).
      cbn beta in Hb. rewrite Hf in Hb. inversion Hb; subst b. assumption.
Qed.

Lemma families_enumerate : families_enumerate_stmt.
Proof.
  intros m fams H. unfold get_families in H. inv_bind H. apply ok_inj in H; subst fams. split.
  - intros f. rewrite sorted_set_In. split.
    + intros Hn. destruct (mapM_in_out _ _ _ _ _ _ E Hn) as (kv & Hkv & Hf). eauto.
    + intros (kv & Hkv & Hf). destruct (mapM_ok_each _ _ _ _ _ kv E Hkv) as (b & Hb & Hin).
      cbn beta in Hb. rewrite Hf in Hb. inversion Hb; subst b. assumption.
  - apply ssorted_nth, sorted_set_sorted.
Qed.

Lemma lookup_role_spec : lookup_role_spec_stmt.
Proof.
  intros m primary role names H. unfold lookup_basis_by_role in H. cbv zeta in H.
  destruct (is_role (lower role)) eqn:Hr; cbn [negb] in H; [|discriminate].
  split; [reflexivity|].
  inv_bind H. destruct (assoc (transform_basis_name primary) m) as [e|] eqn:Ee; [|discriminate].
  apply ok_inj in E; subst x.
  inv_bind H. rename x into aux, E into Haux. inv_bind H. apply vdict_inr in E; subst aux.
  exists e, x. split; [reflexivity|]. split; [assumption|].
  destruct (assoc (lower role) x) as [v|] eqn:Ea; [|discriminate].
  destruct v; try discriminate.
  - apply ok_inj in H; subst names. left. split; reflexivity.
  - right. apply mapM_vstr in H. subst l. reflexivity.
Qed.

Print Assumptions filter_spec.
Print Assumptions filter_invalid.
Print Assumptions names_enumerate.
Print Assumptions families_enumerate.
Print Assumptions lookup_role_spec.
