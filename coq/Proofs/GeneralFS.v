(* C02/C07: function-set theorems for uncontract_general, uncontract_spdf, make_general and the
   basis-level liftings.  Proofs only; the statements are in FSDefs.v. *)
From BSE Require Import Model.Val Model.Basis Model.Manip Proofs.FSDefs.
From Coq Require Import Permutation.
Set Implicit Arguments.

(* ---------- carrier-independent list helpers ---------- *)
Lemma mapM_Forall2 : forall A B (f : A -> res B) l out,
  mapM f l = inr out -> Forall2 (fun a b => f a = inr b) l out.
Proof.
  induction l as [|a t IH]; intros out H; cbn in H.
  - inversion H; constructor.
  - destruct (f a) as [e|b] eqn:Ea; cbn in H; [discriminate|].
    destruct (mapM f t) as [e|bs] eqn:Et; cbn in H; [discriminate|].
    inversion H; subst. constructor; auto.
Qed.

Lemma Forall2_in_l : forall A B (R : A -> B -> Prop) l l' a,
  Forall2 R l l' -> In a l -> exists b, In b l' /\ R a b.
Proof.
  induction 1 as [|x y l l' Hxy HF IH]; intros Hin; [destruct Hin|].
  destruct Hin as [->|Hin]; [exists y; split; [left; reflexivity|assumption]|].
  destruct (IH Hin) as [b [Hb HR]]. exists b; split; [right|]; assumption.
Qed.

Lemma Forall2_in_r : forall A B (R : A -> B -> Prop) l l' b,
  Forall2 R l l' -> In b l' -> exists a, In a l /\ R a b.
Proof.
  induction 1 as [|x y l l' Hxy HF IH]; intros Hin; [destruct Hin|].
  destruct Hin as [->|Hin]; [exists x; split; [left; reflexivity|assumption]|].
  destruct (IH Hin) as [a [Ha HR]]. exists a; split; [right|]; assumption.
Qed.

Section GeneralFS.
  Variable N : Type.
  Variable is0 : N -> bool.
  Variable same : N -> N -> bool.
  Variable eqN : N -> N -> bool.
  Variables zero_lit one_lit ozero_lit : N.
  Hypothesis Hc : carrier_ok is0 same eqN zero_lit one_lit ozero_lit.
  Hypothesis Hprune : prune_shells_FS_stmt is0 same eqN.
  Hypothesis Hprune1 : prune_shell_FS_stmt is0 same.

  Notation shell := (shell N).
  Notation cfun := (cfun N).
  Notation feq := (feq is0 same).
  Notation FSin := (FSin is0 same).
  Notation FSeq := (FSeq is0 same).
  Notation wf_shell := (wf_shell is0).
  Notation wf_shells := (wf_shells is0).
  Notation wf_basis := (wf_basis is0).

  (* ================= 1. basic facts ================= *)
  Lemma feq_refl : forall f, feq f f.
  Proof. intros f; split; [reflexivity|]. intros p _; tauto. Qed.
  Lemma feq_sym : forall f g, feq f g -> feq g f.
  Proof. intros f g [H1 H2]; split; [auto|]. intros p Hp; symmetry; auto. Qed.
  Lemma feq_trans : forall f g h, feq f g -> feq g h -> feq f h.
  Proof.
    intros f g h [H1 H2] [H3 H4]; split; [congruence|].
    intros p Hp. rewrite (H2 p Hp). auto.
  Qed.

  Lemma FSin_feq : forall f g shs, feq f g -> FSin g shs -> FSin f shs.
  Proof. intros f g shs Hfg [h [Hin Hgh]]. exists h; split; [assumption|]. eapply feq_trans; eauto. Qed.

  Lemma FSin_of_In : forall g shs, In g (shells_cfuns shs) -> FSin g shs.
  Proof. intros g shs H; exists g; split; [assumption|apply feq_refl]. Qed.

  Lemma FSeq_refl : forall a, FSeq a a.
  Proof. intros a f; tauto. Qed.
  Lemma FSeq_sym : forall a b, FSeq a b -> FSeq b a.
  Proof. intros a b H f; symmetry; apply H. Qed.
  Lemma FSeq_trans : forall a b c, FSeq a b -> FSeq b c -> FSeq a c.
  Proof. intros a b c H1 H2 f. rewrite (H1 f). apply H2. Qed.

  Lemma shells_cfuns_app : forall a b : list shell, shells_cfuns (a ++ b) = shells_cfuns a ++ shells_cfuns b.
  Proof. intros; unfold shells_cfuns; apply flat_map_app. Qed.

  Lemma shells_cfuns_cons : forall (s : shell) t, shells_cfuns (s :: t) = shell_cfuns s ++ shells_cfuns t.
  Proof. reflexivity. Qed.

  Lemma FSin_app : forall f a b, FSin f (a ++ b) <-> FSin f a \/ FSin f b.
  Proof.
    intros f a b; unfold FSDefs.FSin; rewrite shells_cfuns_app; split.
    - intros [g [Hin Hfg]]. apply in_app_or in Hin. destruct Hin; [left|right]; exists g; auto.
    - intros [[g [Hin Hfg]]|[g [Hin Hfg]]]; exists g; split; auto; apply in_or_app; auto.
  Qed.

  Lemma FSeq_app : forall a a' b b', FSeq a a' -> FSeq b b' -> FSeq (a ++ b) (a' ++ b').
  Proof. intros a a' b b' H1 H2 f. rewrite !FSin_app, (H1 f), (H2 f). tauto. Qed.

  (* FSeq only looks at the set of contracted functions *)
  Lemma FSeq_of_cfuns_incl : forall a b : list shell,
    (forall g, In g (shells_cfuns a) <-> In g (shells_cfuns b)) -> FSeq a b.
  Proof.
    intros a b H f; split; intros [g [Hin Hfg]]; exists g; split; auto; apply H; auto.
  Qed.

  Lemma FSeq_of_cfuns_perm : forall a b : list shell,
    Permutation (shells_cfuns a) (shells_cfuns b) -> FSeq a b.
  Proof.
    intros a b H; apply FSeq_of_cfuns_incl; intros g; split; apply Permutation_in; [|symmetry]; exact H.
  Qed.

  Lemma shells_cfuns_perm : forall a b : list shell, Permutation a b ->
    Permutation (shells_cfuns a) (shells_cfuns b).
  Proof.
    induction 1 as [|x l l' Hp IH|x y l|l l' l'' H1 IH1 H2 IH2]; cbn.
    - constructor.
    - apply Permutation_app_head; assumption.
    - rewrite !app_assoc. apply Permutation_app_tail. apply Permutation_app_comm.
    - eapply Permutation_trans; eauto.
  Qed.

  Lemma FSeq_perm : forall a b, Permutation a b -> FSeq a b.
  Proof. intros a b H; apply FSeq_of_cfuns_perm, shells_cfuns_perm, H. Qed.

  (* ================= 2. uncontract_general, shell level ================= *)
  Lemma unc_gen_shell_cfuns : forall s : shell, shells_cfuns (unc_gen_shell s) = shell_cfuns s.
  Proof.
    intros s; unfold unc_gen_shell.
    destruct (orb _ _) eqn:E1; [cbn; apply app_nil_r|].
    destruct (Nat.eqb (length (am s)) 1) eqn:E2.
    - apply Nat.eqb_eq in E2.
      unfold shell_cfuns. destruct (am s) as [|l [|l' r]] eqn:Ea; cbn in E2; try discriminate.
      unfold shells_cfuns. clear E1. induction (coefs s) as [|c cs IH]; cbn; [reflexivity|].
      f_equal. exact IH.
    - apply orb_false_iff in E1. destruct E1 as [_ E1].
      apply Nat.ltb_ge in E1. apply Nat.eqb_neq in E2.
      unfold shell_cfuns. destruct (am s) as [|l [|l' r]]; cbn in *; try lia. reflexivity.
  Qed.

  Lemma unc_gen_shells_cfuns : unc_gen_shells_cfuns_stmt N.
  Proof.
    intros shs; unfold unc_gen_shells. induction shs as [|s t IH]; cbn; [reflexivity|].
    unfold shells_cfuns in *. rewrite flat_map_app. f_equal; [apply unc_gen_shell_cfuns|exact IH].
  Qed.

  Lemma unc_gen_shell_wf : forall s, wf_shell s -> Forall wf_shell (unc_gen_shell s).
  Proof.
    intros s Hwf; unfold unc_gen_shell.
    destruct (orb _ _); [constructor; [assumption|constructor]|].
    destruct (Nat.eqb (length (am s)) 1) eqn:E2; [|constructor].
    apply Nat.eqb_eq in E2. destruct Hwf as [Hr [[Hne Hnz] Ha]].
    apply Forall_forall. intros x Hx. apply in_map_iff in Hx. destruct Hx as [c [<- Hc']].
    unfold FSDefs.wf_shell, rect, nz_cols, am_ok; cbn. repeat split.
    - constructor; [|constructor]. unfold rect in Hr. rewrite Forall_forall in Hr. auto.
    - discriminate.
    - constructor; [|constructor]. rewrite Forall_forall in Hnz. auto.
    - left; assumption.
  Qed.

  Lemma unc_gen_shells_wf : unc_gen_shells_wf_stmt is0.
  Proof.
    intros shs H; unfold unc_gen_shells, FSDefs.wf_shells in *.
    induction H as [|s t Hs Ht IH]; cbn; [constructor|].
    apply Forall_app; split; [apply unc_gen_shell_wf; assumption|exact IH].
  Qed.

  Lemma unc_gen_shell_shape : forall (s x : shell), In x (unc_gen_shell s) ->
    length (am x) = 1 -> length (coefs x) = 1.
  Proof.
    intros s x; unfold unc_gen_shell.
    destruct (orb _ _) eqn:E1.
    - intros [<-|[]] Hl. apply orb_true_iff in E1. destruct E1 as [E1|E1].
      + apply Nat.eqb_eq in E1; exact E1.
      + apply Nat.ltb_lt in E1; lia.
    - destruct (Nat.eqb (length (am s)) 1); [|intros []].
      intros Hx _. apply in_map_iff in Hx. destruct Hx as [c [<- _]]. reflexivity.
  Qed.

  Lemma dedupe_in : forall (shs acc : list shell) x,
    In x (dedupe_shells eqN shs acc) -> In x acc \/ In x shs.
  Proof.
    induction shs as [|s t IH]; intros acc x H; cbn in H; [left; exact H|].
    destruct (existsb _ acc).
    - destruct (IH _ _ H); [left|right;right]; assumption.
    - destruct (IH _ _ H) as [H1|H1]; [|right;right; assumption].
      apply in_app_or in H1. destruct H1 as [H1|[<-|[]]]; [left; assumption|right; left; reflexivity].
  Qed.

  Lemma wf_has_nonzero : forall s, wf_shell s -> has_nonzero is0 s.
  Proof.
    intros s [_ [[Hne Hnz] _]]. destruct (coefs s) as [|c cs] eqn:E; [congruence|].
    inversion Hnz as [|? ? [x [Hx Hx0]] _]; subst. exists c, x. rewrite E. repeat split; auto. left; reflexivity.
  Qed.

  Lemma unc_gen_shape : unc_gen_shape_stmt is0 same eqN.
  Proof.
    intros shs out Hwf Hp. unfold prune_shells in Hp.
    destruct (mapM _ _) as [e|ps] eqn:Em; cbn in Hp; [discriminate|]. inversion Hp; subst out; clear Hp.
    apply mapM_Forall2 in Em. apply Forall_forall. intros x Hx Hl.
    apply dedupe_in in Hx. destruct Hx as [[]|Hx].
    destruct (Forall2_in_r _ Em Hx) as [s [Hs Hps]].
    assert (Hwfs : wf_shell s).
    { pose proof (unc_gen_shells_wf Hwf) as H. unfold FSDefs.wf_shells in H. rewrite Forall_forall in H. auto. }
    destruct (Hprune1 (s:=s) (s':=x)) as [_ [_ [Ha [_ Hl']]]]; try apply Hwfs; auto using wf_has_nonzero.
    rewrite Hl'. unfold unc_gen_shells in Hs. apply in_flat_map in Hs. destruct Hs as [s0 [_ Hs]].
    eapply unc_gen_shell_shape; eauto. congruence.
  Qed.

  (* ================= 3. uncontract_spdf, shell level ================= *)
  Lemma shell_cfuns_zip : forall ft rg ka xs (kc : list (list N)), length ka = length kc ->
    shell_cfuns (mkShell ft rg ka xs kc) = zip_am ka kc xs.
  Proof.
    intros ft rg ka xs kc Hl; unfold shell_cfuns; cbn.
    destruct ka as [|l [|l' r]]; try reflexivity.
    destruct kc as [|c [|c' r]]; cbn in Hl; try discriminate. reflexivity.
  Qed.

  Lemma shell_cfuns_fused : forall s : shell, 1 < length (am s) ->
    shell_cfuns s = zip_am (am s) (coefs s) (exps s).
  Proof.
    intros s Hl; unfold shell_cfuns. destruct (am s) as [|l [|l' r]]; cbn in Hl; try lia; reflexivity.
  Qed.

  Definition single_of (s : shell) (cs : list (list N)) (x : shell) : Prop :=
    exists ft l c, In c cs /\ x = mkShell ft (region s) [l] (exps s) [c].

  Lemma split_fused_spec : forall m (s : shell) cs ams ka kc out, length ams = length cs ->
    exists ka' kc' out',
      split_fused m s ams cs ka kc out = inr (ka ++ ka', kc ++ kc', out ++ out') /\
      length ka' = length kc' /\
      Permutation (zip_am ka' kc' (exps s) ++ shells_cfuns out') (zip_am ams cs (exps s)) /\
      Forall (fun l => (l <= m)%Z) ka' /\
      (forall c, In c kc' -> In c cs) /\
      Forall (single_of s cs) out' /\
      ((exists l, In l ams /\ (l <= m)%Z) -> ka' <> []).
  Proof.
    intros m s; induction cs as [|c cs IH]; intros ams ka kc out Hl.
    - destruct ams; [|discriminate]. exists [], [], []. cbn. rewrite !app_nil_r.
      repeat split; auto. intros [l [[] _]].
    - destruct ams as [|l ams]; [discriminate|]. cbn in Hl. injection Hl as Hl.
      cbn [split_fused]. destruct (l >? m)%Z eqn:El.
      + set (ft := split_function_type (ftype s) [l]).
        destruct (IH ams ka kc (out ++ [mkShell ft (region s) [l] (exps s) [c]]) Hl)
          as [ka' [kc' [out' [Hs [Hlen [Hp [Hle [Hsub [Hout Hne]]]]]]]]].
        exists ka', kc', (mkShell ft (region s) [l] (exps s) [c] :: out').
        rewrite Hs, <- app_assoc. cbn. repeat split; auto.
        * apply Permutation_sym, Permutation_cons_app, Permutation_sym. exact Hp.
        * constructor.
          -- exists ft, l, c; split; [left|]; reflexivity.
          -- eapply Forall_impl; [|exact Hout]. intros x [ft0 [l0 [c0 [Hin ->]]]]. exists ft0, l0, c0; split; [right|]; auto.
        * intros [l0 [[<-|Hin] Hl0]]; [apply Z.gtb_lt in El; lia|]. apply Hne. exists l0; auto.
      + destruct (IH ams (ka ++ [l]) (kc ++ [c]) out Hl)
          as [ka' [kc' [out' [Hs [Hlen [Hp [Hle [Hsub [Hout Hne]]]]]]]]].
        exists (l :: ka'), (c :: kc'), out'.
        rewrite Hs, <- !app_assoc. cbn. repeat split; auto.
        * constructor; [|exact Hle]. rewrite Z.gtb_ltb in El. apply Z.ltb_ge in El. exact El.
        * intros c0 [<-|Hin]; [left; reflexivity|right; auto].
        * eapply Forall_impl; [|exact Hout]. intros x [ft0 [l0 [c0 [Hin ->]]]]. exists ft0, l0, c0; split; [right|]; auto.
        * discriminate.
  Qed.

  Definition spdf_shape (m : Z) (s : shell) : Prop :=
    1 < length (am s) -> Forall (fun l => (l <= m)%Z) (am s).

  Lemma single_of_wf : forall s x, wf_shell s -> single_of s (coefs s) x -> wf_shell x.
  Proof.
    intros s x [Hr [[Hne Hnz] Ha]] [ft [l [c [Hin ->]]]].
    unfold FSDefs.wf_shell, rect, nz_cols, am_ok in *; cbn. rewrite Forall_forall in Hr, Hnz. repeat split.
    - constructor; [auto|constructor].
    - discriminate.
    - constructor; [auto|constructor].
    - left; reflexivity.
  Qed.

  (* the shell holding the kept low-momentum part; nothing is emitted when that part is empty *)
  Definition kept_head (s : shell) (ka : list Z) (kc : list (list N)) : list shell :=
    match ka with
    | [] => []
    | _ => [mkShell (split_function_type (ftype s) ka) (region s) ka (exps s) kc]
    end.

  Lemma kept_head_cfuns : forall (s : shell) ka kc, length ka = length kc ->
    shells_cfuns (kept_head s ka kc) = zip_am ka kc (exps s).
  Proof.
    intros s ka kc Hl. destruct ka as [|l r] eqn:Ek; [reflexivity|].
    cbn [kept_head]. cbn [shells_cfuns flat_map]. rewrite app_nil_r.
    apply shell_cfuns_zip. exact Hl.
  Qed.

  Lemma kept_head_shape : forall m (s : shell) ka kc,
    Forall (fun l => (l <= m)%Z) ka -> Forall (spdf_shape m) (kept_head s ka kc).
  Proof.
    intros m s ka kc Hle. destruct ka as [|l r]; [constructor|].
    cbn [kept_head]. constructor; [|constructor]. intros _; exact Hle.
  Qed.

  Lemma kept_head_wf : forall (s : shell) ka kc, wf_shell s -> 1 < length (am s) ->
    length ka = length kc -> (forall c, In c kc -> In c (coefs s)) ->
    wf_shells (kept_head s ka kc).
  Proof.
    intros s ka kc Hs El Hlk Hsub. destruct ka as [|l0 r0] eqn:Ek; [constructor|].
    cbn [kept_head]. constructor; [|constructor].
    destruct Hs as [Hr [[Hcne Hnz] Ha]].
    unfold FSDefs.wf_shell, rect, nz_cols, am_ok in *; cbn.
    rewrite Forall_forall in Hr, Hnz. repeat split.
    - apply Forall_forall; auto.
    - destruct kc; [discriminate|discriminate].
    - apply Forall_forall; auto.
    - destruct r0 as [|l2 r]; [left; reflexivity|right; cbn in *; lia].
  Qed.

  Lemma unc_spdf_gen : forall m shs news, wf_shells shs ->
    exists out, unc_spdf_shells m shs news = inr out /\
      Permutation (shells_cfuns out) (shells_cfuns (news ++ shs)) /\
      (Forall (spdf_shape m) news -> Forall (spdf_shape m) out) /\
      (wf_shells news -> Forall (fused_low m) shs -> wf_shells out).
  Proof.
    intros m; induction shs as [|s t IH]; intros news Hwf.
    - exists news. cbn. rewrite app_nil_r. repeat split; auto.
    - inversion Hwf as [|? ? Hs Ht]; subst. cbn [unc_spdf_shells].
      destruct (Nat.ltb 1 (length (am s))) eqn:El.
      + apply Nat.ltb_lt in El.
        assert (Hlen : length (am s) = length (coefs s)).
        { destruct Hs as [_ [_ [Ha|[_ Ha]]]]; lia. }
        destruct (split_fused_spec m s (coefs s) (am s) [] [] [] Hlen)
          as [ka [kc [out' [Hsp [Hlk [Hp [Hle [Hsub [Hout Hne]]]]]]]]].
        rewrite Hsp. cbn [bind app]. fold (kept_head s ka kc).
        destruct (IH (kept_head s ka kc ++ (news ++ out')) Ht)
          as [out [Ho [Hperm [Hshape Hwfo]]]].
        exists out. split; [exact Ho|]. split; [|split].
        * eapply Permutation_trans; [exact Hperm|].
          rewrite !shells_cfuns_app, shells_cfuns_cons.
          rewrite kept_head_cfuns by exact Hlk. rewrite (shell_cfuns_fused s El).
          rewrite <- !app_assoc.
          eapply Permutation_trans; [apply Permutation_app_swap_app|].
          apply Permutation_app_head. rewrite !app_assoc. apply Permutation_app_tail. exact Hp.
        * intros Hn. apply Hshape. apply Forall_app; split; [apply kept_head_shape; exact Hle|].
          apply Forall_app; split; [exact Hn|].
          eapply Forall_impl; [|exact Hout]. intros x [ft [l [c [_ ->]]]] Hx. cbn in Hx. lia.
        * intros Hn Hlow. inversion Hlow as [|? ? Hls Hlt]; subst. apply Hwfo; [|exact Hlt].
          apply Forall_app; split; [|apply Forall_app; split; [exact Hn|]].
          -- apply kept_head_wf; assumption.
          -- eapply Forall_impl; [|exact Hout]. intros x Hx. eapply single_of_wf; eauto.
      + apply Nat.ltb_ge in El.
        destruct (IH (news ++ [s]) Ht) as [out [Ho [Hperm [Hshape Hwfo]]]].
        exists out. split; [exact Ho|]. rewrite <- app_assoc in Hperm. split; [exact Hperm|]. split.
        * intros Hn. apply Hshape. apply Forall_app; split; [exact Hn|]. constructor; [|constructor].
          intros Hx; lia.
        * intros Hn Hlow. inversion Hlow; subst. apply Hwfo; [|assumption].
          apply Forall_app; split; [exact Hn|]. constructor; [exact Hs|constructor].
  Qed.

  Lemma unc_spdf_total : unc_spdf_total_stmt is0.
  Proof. intros m shs Hwf. destruct (unc_spdf_gen m [] Hwf) as [out [Ho _]]. exists out; exact Ho. Qed.

  Lemma unc_spdf_shells_FS : unc_spdf_shells_FS_stmt is0 same.
  Proof.
    intros m shs out Hwf Ho. destruct (unc_spdf_gen m [] Hwf) as [out' [Ho' [Hp _]]].
    rewrite Ho in Ho'. inversion Ho'; subst out'. apply FSeq_of_cfuns_perm. exact Hp.
  Qed.

  Lemma unc_spdf_shells_wf : unc_spdf_shells_wf_stmt is0.
  Proof.
    intros m shs out Hwf Hlow Ho. destruct (unc_spdf_gen m [] Hwf) as [out' [Ho' [_ [_ Hw]]]].
    rewrite Ho in Ho'. inversion Ho'; subst out'. apply Hw; [constructor|exact Hlow].
  Qed.

  Lemma unc_spdf_shape : unc_spdf_shape_stmt is0.
  Proof.
    intros m shs out Hwf Ho. destruct (unc_spdf_gen m [] Hwf) as [out' [Ho' [_ [Hs _]]]].
    rewrite Ho in Ho'. inversion Ho'; subst out'. apply Hs. constructor.
  Qed.

  (* ================= 4. make_general, shell level ================= *)
  Lemma am_eqb_eq : forall a b, am_eqb a b = true <-> a = b.
  Proof.
    unfold am_eqb. induction a as [|x a IH]; destruct b as [|y b]; cbn; split; intros H;
      try reflexivity; try discriminate.
    - apply andb_true_iff in H. destruct H as [H1 H2]. apply Z.eqb_eq in H1. apply IH in H2. congruence.
    - inversion H; subst. apply andb_true_iff; split; [apply Z.eqb_refl|apply IH; reflexivity].
  Qed.

  Lemma am_eqb_refl : forall a, am_eqb a a = true.
  Proof. intros a; apply am_eqb_eq; reflexivity. Qed.

  Lemma existsb_am_eqb : forall a acc, existsb (am_eqb a) acc = true <-> In a acc.
  Proof.
    intros a acc; rewrite existsb_exists; split.
    - intros [x [Hin He]]. apply am_eqb_eq in He. subst; assumption.
    - intros H; exists a; split; [assumption|apply am_eqb_refl].
  Qed.

  Definition single (s : shell) : Prop := Nat.ltb 1 (length (am s)) = false.

  Lemma collect_am_in : forall (shs : list shell) acc a,
    In a (collect_am shs acc) <-> In a acc \/ exists s, In s shs /\ single s /\ am s = a.
  Proof.
    induction shs as [|s t IH]; intros acc a; cbn [collect_am].
    - split; [auto|]. intros [H|[s [[] _]]]; exact H.
    - destruct (Nat.ltb 1 (length (am s))) eqn:El.
      + rewrite IH. split; intros [H|[s' [Hin [Hs Ha]]]]; auto.
        * right; exists s'; split; [right|]; auto.
        * destruct Hin as [<-|Hin]; [unfold single in Hs; congruence|]. right; exists s'; auto.
      + destruct (existsb (am_eqb (am s)) acc) eqn:Ee.
        * apply existsb_am_eqb in Ee. rewrite IH. split; intros [H|[s' [Hin [Hs Ha]]]]; auto.
          -- right; exists s'; split; [right|]; auto.
          -- destruct Hin as [<-|Hin]; [left; congruence|]. right; exists s'; auto.
        * rewrite IH. split; intros [H|[s' [Hin [Hs Ha]]]].
          -- apply in_app_or in H. destruct H as [H|[<-|[]]]; [auto|]. right; exists s; split; [left|]; auto.
          -- right; exists s'; split; [right|]; auto.
          -- left; apply in_or_app; auto.
          -- destruct Hin as [<-|Hin]; [left; apply in_or_app; right; left; exact Ha|]. right; exists s'; auto.
  Qed.

  Lemma collect_am_nodup : forall (shs : list shell) acc, NoDup acc -> NoDup (collect_am shs acc).
  Proof.
    induction shs as [|s t IH]; intros acc Hnd; cbn [collect_am]; [exact Hnd|].
    destruct (Nat.ltb 1 (length (am s))); [auto|].
    destruct (existsb (am_eqb (am s)) acc) eqn:Ee; [auto|].
    apply IH. eapply Permutation_NoDup; [apply Permutation_cons_append|].
    constructor; [|exact Hnd]. intros Hin. apply existsb_am_eqb in Hin. congruence.
  Qed.

  Lemma insert_am_perm : forall a l, Permutation (insert_am a l) (a :: l).
  Proof.
    induction l as [|b t IH]; cbn; [apply Permutation_refl|].
    destruct (am_leb a b); [apply Permutation_refl|].
    eapply Permutation_trans; [apply perm_skip, IH|apply perm_swap].
  Qed.

  Lemma sorted_am_perm : forall shs : list shell, Permutation (sorted_am shs) (collect_am shs []).
  Proof.
    intros shs; unfold sorted_am. induction (collect_am shs []) as [|a l IH]; cbn; [constructor|].
    eapply Permutation_trans; [apply insert_am_perm|apply perm_skip, IH].
  Qed.

  Lemma sorted_am_in : forall (shs : list shell) a,
    In a (sorted_am shs) <-> exists s, In s shs /\ single s /\ am s = a.
  Proof.
    intros shs a. split.
    - intros H. apply (Permutation_in _ (sorted_am_perm shs)) in H.
      apply collect_am_in in H. destruct H as [[]|H]; exact H.
    - intros H. apply (Permutation_in _ (Permutation_sym (sorted_am_perm shs))).
      apply collect_am_in. right; exact H.
  Qed.

  Lemma sorted_am_nodup : forall shs : list shell, NoDup (sorted_am shs).
  Proof.
    intros shs. eapply Permutation_NoDup; [apply Permutation_sym, sorted_am_perm|].
    apply collect_am_nodup. constructor.
  Qed.

  (* the concatenated exponents of the shells with momentum a *)
  Definition sel (a : list Z) (shs : list shell) : list N :=
    flat_map (fun s => if am_eqb (am s) a then exps s else []) shs.

  Lemma gen_coefs_sound : forall a nprim (shs : list shell) cur ft r,
    gen_coefs zero_lit a shs nprim cur ft = inr r ->
    forall c', In c' (snd r) ->
      exists s c pre post, In s shs /\ am s = a /\ In c (coefs s) /\
        sel a shs = pre ++ exps s ++ post /\ c' = pad_coef zero_lit (cur + length pre) nprim c.
  Proof.
    intros a nprim; induction shs as [|s t IH]; intros cur ft r H c' Hin; cbn [gen_coefs] in H.
    - inversion H; subst; destruct Hin.
    - unfold sel; cbn [flat_map]. fold (sel a t).
      destruct (am_eqb (am s) a) eqn:Ea; cbn [negb] in H.
      + destruct (andb _ _); [discriminate|].
        match type of H with context [gen_coefs ?z ?a ?t ?n ?c ?f] => destruct (gen_coefs z a t n c f) as [e|r'] eqn:Er end;
          cbn in H; [discriminate|].
        inversion H; subst r; clear H. cbn [snd] in Hin. apply in_app_or in Hin. destruct Hin as [Hin|Hin].
        * apply in_map_iff in Hin. destruct Hin as [c [<- Hc']].
          exists s, c, [], (sel a t). apply am_eqb_eq in Ea. cbn. rewrite Nat.add_0_r. repeat split; auto.
        * destruct (IH _ _ _ Er _ Hin) as [s1 [c [pre [post [Hs1 [Ha [Hc1 [Hsel ->]]]]]]]].
          exists s1, c, (exps s ++ pre), post. rewrite Hsel, app_length, <- app_assoc, Nat.add_assoc.
          repeat split; auto; right; exact Hs1.
      + destruct (IH _ _ _ H _ Hin) as [s1 [c [pre [post [Hs1 [Ha [Hc1 [Hsel ->]]]]]]]].
        exists s1, c, pre, post. cbn. repeat split; auto; right; exact Hs1.
  Qed.

  Lemma gen_coefs_complete : forall a nprim (shs : list shell) cur ft r,
    gen_coefs zero_lit a shs nprim cur ft = inr r ->
    forall s c, In s shs -> am s = a -> In c (coefs s) ->
      exists pre post, sel a shs = pre ++ exps s ++ post /\
        In (pad_coef zero_lit (cur + length pre) nprim c) (snd r).
  Proof.
    intros a nprim; induction shs as [|s t IH]; intros cur ft r H s0 c Hs0 Ha Hc0; cbn [gen_coefs] in H.
    - destruct Hs0.
    - unfold sel; cbn [flat_map]. fold (sel a t).
      destruct (am_eqb (am s) a) eqn:Ea; cbn [negb] in H.
      + destruct (andb _ _); [discriminate|].
        match type of H with context [gen_coefs ?z ?a ?t ?n ?c ?f] => destruct (gen_coefs z a t n c f) as [e|r'] eqn:Er end;
          cbn in H; [discriminate|].
        inversion H; subst r; clear H. cbn [snd]. destruct Hs0 as [<-|Hs0].
        * exists [], (sel a t). cbn. rewrite Nat.add_0_r. split; [reflexivity|].
          apply in_or_app; left. apply in_map. exact Hc0.
        * destruct (IH _ _ _ Er _ _ Hs0 Ha Hc0) as [pre [post [Hsel Hin]]].
          exists (exps s ++ pre), post. rewrite Hsel, app_length, <- app_assoc, Nat.add_assoc.
          split; [reflexivity|]. apply in_or_app; right; exact Hin.
      + destruct Hs0 as [<-|Hs0]; [apply am_eqb_eq in Ha; congruence|].
        destruct (IH _ _ _ H _ _ Hs0 Ha Hc0) as [pre [post [Hsel Hin]]].
        exists pre, post. cbn. split; assumption.
  Qed.

  Lemma combine_app_eq : forall A B (a a' : list A) (b b' : list B), length a = length b ->
    combine (a ++ a') (b ++ b') = combine a b ++ combine a' b'.
  Proof.
    induction a as [|x a IH]; intros a' b b' H; destruct b as [|y b]; cbn in *; try discriminate; [reflexivity|].
    f_equal. apply IH. lia.
  Qed.

  Lemma pad_coef_eq : forall (pre xs post c : list N), length c = length xs ->
    pad_coef zero_lit (length pre) (length (pre ++ xs ++ post)) c =
    repeat zero_lit (length pre) ++ c ++ repeat zero_lit (length post).
  Proof.
    intros pre xs post c Hl. unfold pad_coef. rewrite <- app_assoc. do 2 f_equal. f_equal.
    rewrite !app_length, repeat_length. lia.
  Qed.

  Lemma combine_pad : forall (pre xs post c : list N), length c = length xs ->
    combine (pre ++ xs ++ post) (pad_coef zero_lit (length pre) (length (pre ++ xs ++ post)) c) =
    combine pre (repeat zero_lit (length pre)) ++ combine xs c ++ combine post (repeat zero_lit (length post)).
  Proof.
    intros pre xs post c Hl. rewrite pad_coef_eq by exact Hl.
    rewrite combine_app_eq by (rewrite repeat_length; reflexivity).
    rewrite combine_app_eq by (symmetry; exact Hl). reflexivity.
  Qed.

  Lemma InS_app : forall p l1 l2, InS same p (l1 ++ l2) <-> InS same p l1 \/ InS same p l2.
  Proof.
    intros p l1 l2; unfold InS; split.
    - intros [q [Hin Hq]]. apply in_app_or in Hin. destruct Hin; [left|right]; exists q; auto.
    - intros [[q [Hin Hq]]|[q [Hin Hq]]]; exists q; split; auto; apply in_or_app; auto.
  Qed.

  Lemma InS_zero : forall p (xs : list N) n, is0 (snd p) = false -> ~ InS same p (combine xs (repeat zero_lit n)).
  Proof.
    intros p xs n Hp [[qx qc] [Hin [_ Hs]]]. apply in_combine_r in Hin. apply repeat_spec in Hin.
    cbn in Hs. subst qc. apply (is0_same Hc) in Hs. rewrite (zero_is0 Hc) in Hs. congruence.
  Qed.

  Lemma feq_pad : forall l (pre xs post c : list N), length c = length xs ->
    feq (l, combine (pre ++ xs ++ post) (pad_coef zero_lit (length pre) (length (pre ++ xs ++ post)) c))
        (l, combine xs c).
  Proof.
    intros l pre xs post c Hl. split; [reflexivity|]. intros p Hp. cbn [snd].
    rewrite combine_pad by exact Hl. rewrite !InS_app.
    pose proof (InS_zero pre (length pre) Hp). pose proof (InS_zero post (length post) Hp). tauto.
  Qed.

  Lemma pad_coef_length : forall cur nprim (c : list N), cur + length c <= nprim ->
    length (pad_coef zero_lit cur nprim c) = nprim.
  Proof. intros cur nprim c H. unfold pad_coef. rewrite !app_length, !repeat_length. lia. Qed.

  Lemma pad_coef_in : forall cur nprim (c : list N) x, In x c -> In x (pad_coef zero_lit cur nprim c).
  Proof. intros cur nprim c x H. unfold pad_coef. apply in_or_app; left. apply in_or_app; right. exact H. Qed.

  Lemma cfuns_single : forall (s : shell) l h, am s = [l] ->
    (In h (shells_cfuns [s]) <-> exists c, In c (coefs s) /\ h = (l, combine (exps s) c)).
  Proof.
    intros s l h Ha. cbn. rewrite app_nil_r. unfold shell_cfuns. rewrite Ha. rewrite in_map_iff.
    split; intros [c Hc']; exists c; tauto || (destruct Hc'; split; auto).
  Qed.

  Lemma FSin_exists : forall f shs, FSin f shs <-> exists s, In s shs /\ FSin f [s].
  Proof.
    intros f shs; split.
    - intros [g [Hin Hfg]]. unfold shells_cfuns in Hin. apply in_flat_map in Hin.
      destruct Hin as [s [Hs Hg]]. exists s; split; [exact Hs|]. exists g; split; [|exact Hfg].
      cbn. rewrite app_nil_r. exact Hg.
    - intros [s [Hs [g [Hin Hfg]]]]. exists g; split; [|exact Hfg].
      cbn in Hin. rewrite app_nil_r in Hin. unfold shells_cfuns. apply in_flat_map. exists s; auto.
  Qed.

  Lemma wf_single_len : forall s, wf_shell s -> single s -> length (am s) = 1.
  Proof.
    intros s [_ [_ Ha]] Hs. unfold single in Hs. apply Nat.ltb_ge in Hs. destruct Ha as [Ha|[Ha _]]; lia.
  Qed.

  Lemma general_shell_spec : forall shs a g, wf_shells shs -> In a (sorted_am shs) ->
    general_shell zero_lit shs a = inr g ->
    wf_shell g /\ am g = a /\ length a = 1 /\
    (forall f, FSin f [g] <-> exists s, In s shs /\ am s = a /\ FSin f [s]).
  Proof.
    intros shs a g Hwf Ha Hg.
    apply sorted_am_in in Ha. destruct Ha as [s0 [Hs0 [Hsing Ha0]]].
    unfold FSDefs.wf_shells in Hwf. rewrite Forall_forall in Hwf.
    pose proof (wf_single_len (Hwf _ Hs0) Hsing) as Hlen. rewrite Ha0 in Hlen.
    destruct a as [|l [|l' ar]]; cbn in Hlen; try discriminate. clear Hlen.
    unfold general_shell in Hg. fold (sel [l] shs) in Hg.
    destruct (gen_coefs _ _ _ _ _ _) as [e|r] eqn:Er; cbn in Hg; [discriminate|].
    inversion Hg; subst g; clear Hg.
    pose proof (@gen_coefs_sound _ _ _ _ _ _ Er) as Hsound.
    pose proof (@gen_coefs_complete _ _ _ _ _ _ Er) as Hcompl.
    assert (Hrect : forall s c, In s shs -> In c (coefs s) -> length c = length (exps s)).
    { intros s c Hs Hc'. destruct (Hwf _ Hs) as [Hr _]. unfold rect in Hr. rewrite Forall_forall in Hr. auto. }
    split; [|split; [reflexivity|split; [reflexivity|]]].
    - unfold FSDefs.wf_shell, rect, nz_cols, am_ok; cbn. repeat split.
      + apply Forall_forall. intros c' Hc'.
        destruct (Hsound _ Hc') as [s [c [pre [post [Hs [Ha [Hcs [Hsel ->]]]]]]]].
        apply pad_coef_length. rewrite Hsel, (Hrect _ _ Hs Hcs), !app_length. cbn. lia.
      + destruct (Hwf _ Hs0) as [_ [[Hne _] _]]. destruct (coefs s0) as [|c0 cs0] eqn:Ec; [congruence|].
        destruct (Hcompl s0 c0 Hs0 Ha0) as [pre [post [_ Hin]]]; [rewrite Ec; left; reflexivity|].
        intros Hnil. rewrite Hnil in Hin. destruct Hin.
      + apply Forall_forall. intros c' Hc'.
        destruct (Hsound _ Hc') as [s [c [pre [post [Hs [Ha [Hcs [Hsel ->]]]]]]]].
        destruct (Hwf _ Hs) as [_ [[_ Hnz] _]]. rewrite Forall_forall in Hnz.
        destruct (Hnz _ Hcs) as [x [Hx Hx0]]. exists x; split; [apply pad_coef_in; exact Hx|exact Hx0].
      + left; reflexivity.
    - intros f; split.
      + intros [h [Hin Hfh]].
        apply (cfuns_single _ (l:=l)) in Hin; [|reflexivity]. cbn [coefs exps] in Hin.
        destruct Hin as [c' [Hc' ->]].
        destruct (Hsound _ Hc') as [s [c [pre [post [Hs [Ha [Hcs [Hsel ->]]]]]]]].
        exists s; split; [exact Hs|split; [exact Ha|]].
        exists (l, combine (exps s) c); split.
        * apply (cfuns_single _ (l:=l)); [exact Ha|]. exists c; auto.
        * eapply feq_trans; [exact Hfh|]. rewrite Hsel. cbn [Nat.add]. apply feq_pad. apply Hrect; assumption.
      + intros [s [Hs [Ha [h [Hin Hfh]]]]].
        apply (cfuns_single _ (l:=l)) in Hin; [|exact Ha]. destruct Hin as [c [Hcs ->]].
        destruct (Hcompl s c Hs Ha Hcs) as [pre [post [Hsel Hin]]].
        eexists; split.
        * apply (cfuns_single _ (l:=l)); [reflexivity|]. cbn [coefs exps]. eexists; split; [exact Hin|reflexivity].
        * eapply feq_trans; [exact Hfh|]. apply feq_sym. rewrite Hsel. cbn [Nat.add]. apply feq_pad.
          apply Hrect; assumption.
  Qed.

  Lemma make_general_shells_FS : make_general_shells_FS_stmt is0 same zero_lit.
  Proof.
    intros shs gs Hwf Hm. unfold make_general_shells in Hm.
    destruct (mapM _ _) as [e|gens] eqn:Em; cbn in Hm; [discriminate|]. inversion Hm; subst gs; clear Hm.
    apply mapM_Forall2 in Em.
    pose proof Hwf as Hwf'. unfold FSDefs.wf_shells in Hwf'. rewrite Forall_forall in Hwf'.
    split.
    - intros f. rewrite FSin_app. split.
      + intros [H|H].
        * apply FSin_exists in H. destruct H as [s [Hs Hf]]. apply filter_In in Hs.
          apply FSin_exists. exists s; split; [apply Hs|exact Hf].
        * apply FSin_exists in H. destruct H as [g [Hgin Hf]].
          destruct (Forall2_in_r _ Em Hgin) as [a [Ha Hg]].
          destruct (@general_shell_spec _ _ _ Hwf Ha Hg) as [_ [_ [_ Hiff]]].
          apply Hiff in Hf. destruct Hf as [s [Hs [_ Hf]]]. apply FSin_exists. exists s; auto.
      + intros H. apply FSin_exists in H. destruct H as [s [Hs Hf]].
        destruct (Nat.ltb 1 (length (am s))) eqn:El.
        * left. apply FSin_exists. exists s; split; [|exact Hf]. apply filter_In; auto.
        * right. assert (Ha : In (am s) (sorted_am shs)) by (apply sorted_am_in; exists s; auto).
          destruct (Forall2_in_l _ Em Ha) as [g [Hgin Hg]].
          destruct (@general_shell_spec _ _ _ Hwf Ha Hg) as [_ [_ [_ Hiff]]].
          apply FSin_exists. exists g; split; [exact Hgin|]. apply Hiff. exists s; auto.
    - apply Forall_app; split.
      + apply Forall_forall. intros s Hs. apply filter_In in Hs. apply Hwf', Hs.
      + apply Forall_forall. intros g Hgin.
        destruct (Forall2_in_r _ Em Hgin) as [a [Ha Hg]].
        apply (@general_shell_spec _ _ _ Hwf Ha Hg).
  Qed.

  (* ================= 5. make_general shape promise ================= *)
  Definition ams1 (l : list shell) : list (list Z) :=
    filter (fun a => Nat.eqb (length a) 1) (map (@am N) l).

  Lemma ams1_app : forall a b, ams1 (a ++ b) = ams1 a ++ ams1 b.
  Proof. intros; unfold ams1. rewrite map_app, filter_app. reflexivity. Qed.

  Lemma ams1_in : forall l t, In t l -> length (am t) = 1 -> In (am t) (ams1 l).
  Proof.
    intros l t Hin Hl. unfold ams1. apply filter_In. split; [apply in_map; exact Hin|].
    apply Nat.eqb_eq; exact Hl.
  Qed.

  Lemma uniq_of_nodup : forall l, NoDup (ams1 l) ->
    forall i j s t, nth_error l i = Some s -> nth_error l j = Some t ->
      length (am s) = 1 -> am s = am t -> i = j.
  Proof.
    induction l as [|x l IH]; intros Hnd i j s t Hi Hj Hl Hst; [destruct i; discriminate|].
    assert (Hnd' : NoDup (ams1 l)).
    { unfold ams1 in *. cbn in Hnd. destruct (Nat.eqb (length (am x)) 1); [inversion Hnd|]; assumption. }
    destruct i as [|i], j as [|j]; cbn in Hi, Hj.
    - reflexivity.
    - exfalso. inversion Hi; subst x. apply nth_error_In in Hj.
      unfold ams1 in Hnd. cbn in Hnd. rewrite Hl in Hnd. cbn in Hnd. inversion Hnd as [|? ? Hnin _]; subst.
      apply Hnin. rewrite Hst. apply ams1_in; [exact Hj|congruence].
    - exfalso. inversion Hj; subst x. apply nth_error_In in Hi.
      unfold ams1 in Hnd. cbn in Hnd. rewrite <- Hst, Hl in Hnd. cbn in Hnd. inversion Hnd as [|? ? Hnin _]; subst.
      apply Hnin. apply ams1_in; assumption.
    - f_equal. eapply IH; eauto.
  Qed.

  Lemma prune_shell_am : forall s s', prune_shell is0 same s = inr s' -> am s' = am s.
  Proof.
    intros s s' H. unfold prune_shell in H.
    destruct (pair_rows _ _) as [e|prs]; cbn in H; [discriminate|].
    destruct (merge_groups _ _) as [e|kept]; cbn in H; [discriminate|].
    inversion H; reflexivity.
  Qed.

  Lemma dedupe_nodup : forall (shs acc : list shell),
    NoDup (ams1 (acc ++ shs)) -> NoDup (ams1 (dedupe_shells eqN shs acc)).
  Proof.
    induction shs as [|s t IH]; intros acc H; cbn [dedupe_shells].
    - rewrite app_nil_r in H; exact H.
    - destruct (existsb _ acc).
      + apply IH. rewrite ams1_app in *. unfold ams1 at 2 in H. cbn in H.
        destruct (Nat.eqb (length (am s)) 1); [|exact H]. apply NoDup_remove_1 in H. exact H.
      + apply IH. rewrite <- app_assoc. exact H.
  Qed.

  Lemma prune_am_map : forall gs ps,
    Forall2 (fun s s' => prune_shell is0 same s = inr s') gs ps -> map (@am N) ps = map (@am N) gs.
  Proof.
    induction 1 as [|x y l l' Hxy _ IH]; cbn; [reflexivity|].
    f_equal; [apply prune_shell_am; exact Hxy|exact IH].
  Qed.

  Lemma gens_am : forall shs l gens, wf_shells shs -> (forall a, In a l -> In a (sorted_am shs)) ->
    Forall2 (fun a g => general_shell zero_lit shs a = inr g) l gens -> map (@am N) gens = l.
  Proof.
    intros shs l gens Hwf Hall Em. induction Em as [|a g l l' Hag _ IH]; [reflexivity|]. cbn. f_equal.
    - apply (@general_shell_spec _ _ _ Hwf (Hall a (or_introl eq_refl)) Hag).
    - apply IH. intros a' Ha'. apply Hall. right; exact Ha'.
  Qed.

  Lemma ams1_fused : forall shs : list shell,
    ams1 (filter (fun s => Nat.ltb 1 (length (am s))) shs) = [].
  Proof.
    induction shs as [|s t IH]; cbn [filter]; [reflexivity|].
    destruct (Nat.ltb 1 (length (am s))) eqn:El; [|exact IH].
    unfold ams1 in *. cbn [map filter]. apply Nat.ltb_lt in El.
    destruct (Nat.eqb (length (am s)) 1) eqn:E1; [apply Nat.eqb_eq in E1; lia|exact IH].
  Qed.

  Lemma make_general_shape : make_general_shape_stmt is0 same eqN zero_lit.
  Proof.
    intros shs gs out Hwf Hm Hp. apply uniq_of_nodup.
    unfold make_general_shells in Hm.
    pose proof (ams1_fused shs) as Hf.
    set (fused := filter _ shs) in Hm, Hf.
    destruct (mapM _ _) as [e|gens] eqn:Em; cbn in Hm; [discriminate|]. inversion Hm; subst gs; clear Hm.
    apply mapM_Forall2 in Em.
    unfold prune_shells in Hp.
    destruct (mapM _ _) as [e|ps] eqn:Ep; cbn in Hp; [discriminate|]. inversion Hp; subst out; clear Hp.
    apply mapM_Forall2 in Ep.
    apply dedupe_nodup. cbn [app].
    assert (Hmap := prune_am_map Ep).
    unfold ams1. rewrite Hmap. fold (ams1 (fused ++ gens)).
    rewrite ams1_app, Hf. cbn [app].
    assert (Hg : map (@am N) gens = sorted_am shs) by (eapply gens_am; eauto).
    unfold ams1. rewrite Hg. apply NoDup_filter. apply sorted_am_nodup.
  Qed.

  (* ================= 6. basis level ================= *)
  Notation basis := (basis N).
  Notation element := (element N).

  Definition eP (P : list shell -> Prop) (kv : string * element) : Prop :=
    match eshells (snd kv) with Some shs => P shs | None => True end.
  Definition bForall (P : list shell -> Prop) (b : basis) : Prop := Forall (eP P) (belems b).

  Lemma wf_basis_bForall : forall b, wf_basis b <-> bForall wf_shells b.
  Proof. intros b; reflexivity. Qed.
  Lemma fused_low_bForall : forall m b, basis_fused_low m b <-> bForall (Forall (fused_low m)) b.
  Proof. intros m b; reflexivity. Qed.

  Lemma bForall_and : forall P Q b, bForall P b -> bForall Q b -> bForall (fun shs => P shs /\ Q shs) b.
  Proof.
    intros P Q b HP HQ; unfold bForall in *. induction HP as [|kv l Hkv _ IH]; [constructor|].
    inversion HQ; subst. constructor; [|auto].
    unfold eP in *. destruct (eshells (snd kv)); auto.
  Qed.

  Section Lift.
    Variables Pre Post : list shell -> Prop.
    Variable R : list shell -> list shell -> Prop.

    Lemma lift_list_M : forall f : list shell -> res (list shell),
      (forall shs out, Pre shs -> f shs = inr out -> R out shs /\ Post out) ->
      forall l l', Forall (eP Pre) l -> mapM_elems_list (map_shellsM f) l = inr l' ->
        Forall2 (fun kv1 kv2 => fst kv1 = fst kv2 /\ elem_rel R (snd kv1) (snd kv2)) l' l /\ Forall (eP Post) l'.
    Proof.
      intros f Hf; induction l as [|[k e] t IH]; intros l' Hpre H; cbn [mapM_elems_list] in H.
      - inversion H; subst. split; constructor.
      - inversion Hpre as [|? ? He Ht]; subst.
        destruct (map_shellsM f e) as [er|e'] eqn:Ee; cbn in H; [discriminate|].
        destruct (mapM_elems_list _ t) as [er|t'] eqn:Et; cbn in H; [discriminate|].
        inversion H; subst l'; clear H. destruct (IH _ Ht eq_refl) as [IH1 IH2].
        unfold map_shellsM in Ee. unfold eP in He; cbn [snd] in He.
        destruct (eshells e) as [shs|] eqn:Es.
        + destruct (f shs) as [er|out] eqn:Ef; cbn in Ee; [discriminate|]. inversion Ee; subst e'; clear Ee.
          destruct (Hf _ _ He Ef) as [HR HP]. split; constructor; auto.
          cbn. split; [reflexivity|]. unfold elem_rel; cbn. rewrite Es. auto.
        + inversion Ee; subst e'. split; constructor; auto.
          * cbn. split; [reflexivity|]. unfold elem_rel. rewrite Es. auto.
          * unfold eP; cbn. rewrite Es. exact I.
    Qed.

    Lemma lift_M : forall f : list shell -> res (list shell),
      (forall shs out, Pre shs -> f shs = inr out -> R out shs /\ Post out) ->
      forall b b', bForall Pre b -> mapM_elems (map_shellsM f) b = inr b' ->
        basis_rel R b' b /\ bForall Post b'.
    Proof.
      intros f Hf b b' Hpre H. unfold mapM_elems in H.
      destruct (mapM_elems_list _ _) as [er|l] eqn:El; cbn in H; [discriminate|]. inversion H; subst b'; clear H.
      destruct (@lift_list_M f Hf _ _ Hpre El) as [H1 H2]. split; [split; [reflexivity|exact H1]|exact H2].
    Qed.

    Lemma lift_pure : forall g : list shell -> list shell,
      (forall shs, Pre shs -> R (g shs) shs /\ Post (g shs)) ->
      forall b, bForall Pre b ->
        basis_rel R (map_elems (map_shells g) b) b /\ bForall Post (map_elems (map_shells g) b).
    Proof.
      intros g Hg b Hpre.
      apply (@lift_M (fun shs => ok (g shs))).
      - intros shs out Hp Ho. inversion Ho; subst. auto.
      - exact Hpre.
      - unfold mapM_elems, map_elems.
        assert (Hl : forall l, mapM_elems_list (map_shellsM (fun shs => ok (g shs))) l =
                       inr (map (fun kv => (fst kv, map_shells g (snd kv))) l)).
        { induction l as [|[k e] t IH]; cbn; [reflexivity|].
          rewrite IH. unfold map_shellsM, map_shells. destruct (eshells e); reflexivity. }
        rewrite Hl. reflexivity.
    Qed.
  End Lift.

  Lemma basis_rel_trans : forall (R : list shell -> list shell -> Prop),
    (forall a b c, R a b -> R b c -> R a c) ->
    forall b1 b2 b3 : basis, basis_rel R b1 b2 -> basis_rel R b2 b3 -> basis_rel R b1 b3.
  Proof.
    intros R Ht b1 b2 b3 [H1 H2] [H3 H4]. split; [congruence|].
    revert H4. generalize (belems b3). induction H2 as [|x y l l' [Hk Hxy] _ IH]; intros l3 H4; inversion H4 as [|? z ? l3' [Hk' Hyz] H4']; subst; constructor.
    - split; [congruence|]. destruct Hxy as [Hr1 Hs1], Hyz as [Hr2 Hs2]. split; [congruence|].
      destruct (eshells (snd x)), (eshells (snd y)), (eshells (snd z)); try tauto. eapply Ht; eauto.
    - apply IH; assumption.
  Qed.

  Lemma basis_FSeq_trans : forall b1 b2 b3 : basis,
    basis_FSeq is0 same b1 b2 -> basis_FSeq is0 same b2 b3 -> basis_FSeq is0 same b1 b3.
  Proof. apply basis_rel_trans. exact FSeq_trans. Qed.

  Lemma basis_FSeq_refl : forall b : basis, basis_FSeq is0 same b b.
  Proof.
    intros b; split; [reflexivity|]. induction (belems b) as [|kv l IH]; constructor; [|exact IH].
    split; [reflexivity|]. split; [reflexivity|]. destruct (eshells (snd kv)); [apply FSeq_refl|exact I].
  Qed.

  Lemma prune_basis_FS : prune_basis_FS_stmt is0 same eqN.
  Proof.
    intros b b' Hwf H. unfold prune_basis in H.
    apply (@lift_M wf_shells wf_shells FSeq _ Hprune _ _ Hwf H).
  Qed.

  Lemma uncontract_general_FS : uncontract_general_FS_stmt is0 same eqN.
  Proof.
    intros b b' Hwf H. unfold uncontract_general in H.
    destruct (@lift_pure wf_shells wf_shells FSeq (@unc_gen_shells N)) with (b:=b) as [H1 H2].
    - intros shs Hs. split; [|apply unc_gen_shells_wf; exact Hs].
      apply FSeq_of_cfuns_incl. intros g. rewrite unc_gen_shells_cfuns. tauto.
    - exact Hwf.
    - destruct (prune_basis_FS H2 H) as [H3 H4]. split; [|exact H4].
      eapply basis_FSeq_trans; eassumption.
  Qed.

  Lemma uncontract_spdf_FS : uncontract_spdf_FS_stmt is0 same.
  Proof.
    intros m b b' Hwf H. unfold uncontract_spdf in H.
    apply (@lift_M wf_shells (fun _ => True) FSeq (fun shs => unc_spdf_shells m shs [])) with (b:=b) (b':=b'); auto.
    intros shs out Hs Ho. split; [|exact I]. eapply unc_spdf_shells_FS; eauto.
  Qed.

  Lemma make_general_FS : make_general_FS_stmt is0 same eqN zero_lit.
  Proof.
    intros skip b b' Hwf Hlow H. unfold make_general in H.
    assert (H1 : exists b1, (if skip then ok b else uncontract_spdf 0 b) = inr b1 /\
                            basis_FSeq is0 same b1 b /\ wf_basis b1).
    { destruct skip.
      - exists b. split; [reflexivity|]. split; [apply basis_FSeq_refl|exact Hwf].
      - specialize (Hlow eq_refl).
        destruct (uncontract_spdf 0 b) as [er|b1] eqn:E1; cbn in H; [discriminate|].
        exists b1. split; [reflexivity|]. unfold uncontract_spdf in E1.
        apply (@lift_M (fun shs => wf_shells shs /\ Forall (fused_low 0) shs) wf_shells FSeq
                 (fun shs => unc_spdf_shells 0 shs [])) with (b:=b); auto.
        + intros shs out [Hs Hl] Ho. split; [eapply unc_spdf_shells_FS|eapply unc_spdf_shells_wf]; eauto.
        + apply bForall_and; assumption. }
    destruct H1 as [b1 [E1 [HF1 Hwf1]]]. rewrite E1 in H. cbn in H.
    destruct (mapM_elems _ b1) as [er|b2] eqn:E2; cbn in H; [discriminate|].
    destruct (@lift_M wf_shells wf_shells FSeq (make_general_shells zero_lit)) with (b:=b1) (b':=b2)
      as [HF2 Hwf2]; auto.
    { intros shs out Hs Ho. apply make_general_shells_FS; assumption. }
    destruct (prune_basis_FS Hwf2 H) as [HF3 Hwf3]. split; [|exact Hwf3].
    eapply basis_FSeq_trans; [exact HF3|]. eapply basis_FSeq_trans; eassumption.
  Qed.

End GeneralFS.

Print Assumptions unc_gen_shells_cfuns.
Print Assumptions unc_gen_shells_wf.
Print Assumptions unc_gen_shape.
Print Assumptions unc_spdf_shells_FS.
Print Assumptions unc_spdf_shells_wf.
Print Assumptions unc_spdf_total.
Print Assumptions unc_spdf_shape.
Print Assumptions make_general_shells_FS.
Print Assumptions make_general_shape.
Print Assumptions prune_basis_FS.
Print Assumptions uncontract_general_FS.
Print Assumptions uncontract_spdf_FS.
Print Assumptions make_general_FS.
