(* Proofs of the statements of Proofs/VeloxchemDefs.v: what write_veloxchem writes is refused by the checksum test of
   read_veloxchem (the two sides hash different strings); with the checksum out of the way the data are read back exactly
   (up to the exponent marker, the region and the function type, see vlx_expected). *)
From BSE Require Import Model.Val Model.Text Model.Num Model.Basis Model.Manip Model.Matrix Gen.GenLut Model.Lut
                        Model.Elements Model.Nwchem Model.NwchemEcp Model.G94 Model.Veloxchem
                        Proofs.MatrixDefs Proofs.NwchemDefs Proofs.VeloxchemDefs Proofs.C20Finite.
From BSE Require Proofs.ElementsSpec.
From Coq Require Import NArith Nnat Znat.
From BSE Require Import Proofs.HeaderSpec Proofs.PruneFS Proofs.MatrixSpec Proofs.NwchemSpec Proofs.NwchemEcpSpec
                        Proofs.TurbomoleSpec Proofs.G94Spec Proofs.GamessUsSpec.
From BSE Require Proofs.Cp2kSpec.

(* ================================================================== *)
(* 1. finite facts about the tables of lut.py                          *)
(* ================================================================== *)
(* elements 1..120: the upper-cased symbol is non-empty, letters only, and mapped back to z; the upper-cased name has no
   byte that could begin a line boundary *)
Definition vsym (z : Z) : string := match element_sym_from_Z z true with inr s => upper s | inl _ => "" end.
Definition vname (z : Z) : string := match element_name_from_Z z false with inr s => upper s | inl _ => "" end.
Definition vel_check (z : Z) : bool :=
  match element_sym_from_Z z true, element_name_from_Z z false with
  | inr s, inr n => negb (is_empty (upper s)) && sall is_alpha (upper s) &&
                    res_eqb Z.eqb (element_Z_from_sym (upper s)) z && sall nobd (upper n)
  | _, _ => false
  end.
Lemma vel_sweep : forallb vel_check (zrange 1 120) = true.
Proof. vm_compute. reflexivity. Qed.

Lemma vel_facts : forall z, (1 <= z <= 120)%Z ->
  exists s n, element_sym_from_Z z true = inr s /\ element_name_from_Z z false = inr n /\
              upper s = vsym z /\ upper n = vname z /\
              vsym z <> "" /\ sall is_alpha (vsym z) = true /\ element_Z_from_sym (vsym z) = inr z /\
              sall nobd (vname z) = true.
Proof.
  intros z Hz. assert (Hin : In z (zrange 1 120)) by (apply zrange_In; lia).
  pose proof (proj1 (forallb_forall _ _) vel_sweep z Hin) as H. unfold vel_check in H. unfold vsym, vname.
  destruct (element_sym_from_Z z true) as [e|s]; [discriminate|].
  destruct (element_name_from_Z z false) as [e|n]; [discriminate|].
  rewrite !andb_true_iff in H. destruct H as [[[H1 H2] H3] H4].
  exists s, n. repeat split; try assumption; try reflexivity.
  - intros E. rewrite E in H1. discriminate H1.
  - now apply res_eqb_Z.
Qed.

(* for every l in 0..25: the hij letter of l, upper-cased, is ONE character of the class of shell_begin_re, and
   amchar_to_int(.., hij=True) maps it back to [l] *)
Definition vam_check (l : Z) : bool :=
  match amint_to_char [l] true false with
  | inr ch =>
    match upper ch with
    | String C EmptyString =>
      is_shell_letter C && is_alpha C &&
      match amchar_to_int (String C EmptyString) true with inr [l'] => Z.eqb l' l | _ => false end
    | _ => false
    end
  | inl _ => false
  end.
Lemma vam_sweep : forallb vam_check (zrange 0 26) = true.
Proof. vm_compute. reflexivity. Qed.

Definition vletter (l : Z) : ascii :=
  match amint_to_char [l] true false with
  | inr ch => match upper ch with String C _ => C | EmptyString => "?"%char end
  | inl _ => "?"%char
  end.

Lemma vam_facts : forall l, (0 <= l < 26)%Z ->
  exists ch, amint_to_char [l] true false = inr ch /\ upper ch = String (vletter l) "" /\
             is_shell_letter (vletter l) = true /\ is_alpha (vletter l) = true /\
             amchar_to_int (String (vletter l) "") true = inr [l].
Proof.
  intros l Hl. assert (Hin : In l (zrange 0 26)) by (apply zrange_In; lia).
  pose proof (proj1 (forallb_forall _ _) vam_sweep l Hin) as H. unfold vam_check in H. unfold vletter.
  destruct (amint_to_char [l] true false) as [e|ch]; [discriminate|]. exists ch.
  destruct (upper ch) as [|C [|D r]]; try discriminate.
  rewrite !andb_true_iff in H. destruct H as [[H1 H2] H3].
  destruct (amchar_to_int (String C "") true) as [e|[|l' [|l'' r]]]; try discriminate.
  apply Z.eqb_eq in H3. subst l'. repeat split; assumption.
Qed.

(* ================================================================== *)
(* 2. the digest of md5_hex: 32 hexadecimal digits                     *)
(* ================================================================== *)
Lemma hexdig_hex : forall n, vlx_hex_char (hexdig n) = true.
Proof.
  intros n. unfold hexdig.
  assert (H : N.to_nat (N.modulo n 16) < 16) by (pose proof (N.mod_lt n 16); lia).
  remember (N.to_nat (N.modulo n 16)) as k eqn:E. clear E.
  do 16 (destruct k as [|k]; [reflexivity|]). lia.
Qed.

Lemma word_hex_facts : forall w, sall vlx_hex_char (word_hex w) = true /\ word_hex w <> "".
Proof.
  intros w. unfold word_hex, byte_hex. cbn [le_bytes map String.concat String.append sall].
  rewrite !hexdig_hex. split; [reflexivity | discriminate].
Qed.

Lemma vlx_md5_digest : vlx_md5_digest_stmt.
Proof.
  intros x. unfold md5_hex.
  destruct (md5_blocks _ _ _) as [[[a b] c] d].
  destruct (word_hex_facts a) as [Ha Na]. destruct (word_hex_facts b) as [Hb _].
  destruct (word_hex_facts c) as [Hc _]. destruct (word_hex_facts d) as [Hd _].
  split.
  - destruct (word_hex a); [congruence | discriminate].
  - rewrite !sall_app, Ha, Hb, Hc, Hd. reflexivity.
Qed.

Lemma hex_nobd : forall c, vlx_hex_char c = true -> nobd c = true.
Proof. intros c H. all_chars c; try reflexivity; discriminate H. Qed.
Lemma hex_not_space : forall c, vlx_hex_char c = true -> is_space c = false.
Proof. intros c H. all_chars c; try reflexivity; discriminate H. Qed.

Lemma digest_facts : forall h, vlx_digest_ok h -> forall x,
  h x <> "" /\ good_line (h x) /\ strip_ws (h x) = h x.
Proof.
  intros h Hh x. destruct (Hh x) as [Hne Hx]. split; [exact Hne|]. split.
  - exact (sall_impl _ _ _ hex_nobd Hx).
  - apply strip_tok. split; [exact Hne|]. exact (sall_sany_false _ _ _ hex_not_space Hx).
Qed.

Lemma line_byte_nobd : forall s, sall vlx_line_byte s = sall nobd s.
Proof. reflexivity. Qed.

(* ================================================================== *)
(* 3. the matrix rows of a shell, for any list of point places          *)
(* ================================================================== *)
(* rows_facts of Proofs/NwchemSpec.v is stated for the point places of the NWChem writer; the proof does not look at them *)
Definition rows_p (pps : list Z) (s : sshell) : list string :=
  match mapM (fun row => write_row row pps true "") (transpose (mat_of s)) with inr r => r | inl _ => [] end.

Lemma rows_facts_p : forall pps s, nw_shell_ok s -> S (List.length (coefs s)) <= List.length pps ->
  write_matrix (mat_of s) pps false = inr (unlines (rows_p pps s)) /\
  Forall good_line (rows_p pps s) /\
  Forall2 (fun srow line => tokens_acc line "" = srow) (transpose (exps s :: coefs s)) (rows_p pps s) /\
  List.length (rows_p pps s) = List.length (exps s) /\
  parse_primitive_matrix (rows_p pps s) = inr (map (norm false) (exps s), map (map (norm false)) (coefs s)).
Proof.
  intros pps s [Hex [_ [_ [Hcne [HcF [_ [He Hc]]]]]]] Hpps. unfold floating in *.
  assert (Hcells : Forall (Forall cell_ok) (mat_of s) /\ Forall (Forall cell_ascii) (mat_of s)).
  { unfold mat_of. destruct (floats_cells (exps s) He) as [A1 A2]. split; (constructor; [assumption|]);
      rewrite Forall_forall in *; intros col Hcol; apply in_map_iff in Hcol; destruct Hcol as [c [<- Hin]];
      apply floats_cells, Hc, Hin. }
  destruct Hcells as [Hok Hasc].
  assert (Hlen : List.length (mat_of s) <= List.length pps).
  { unfold mat_of. cbn [List.length]. rewrite map_length. lia. }
  destruct (mapM_total _ _ (fun row => write_row row pps true "") (transpose (mat_of s))) as [rows Hrows].
  { pose proof (transpose_Forall _ _ (mat_of s) Hok) as H1. pose proof (transpose_rowlen _ (mat_of s)) as H2.
    rewrite Forall_forall in *. intros row Hin. apply write_row_total; [apply H1, Hin|]. rewrite (H2 _ Hin). exact Hlen. }
  assert (Er : rows_p pps s = rows) by (unfold rows_p; rewrite Hrows; reflexivity).
  rewrite Er.
  assert (Hw : write_matrix (mat_of s) pps false = inr (unlines rows)).
  { unfold write_matrix, transpose_cells. rewrite Hrows. reflexivity. }
  pose proof (mapM_Forall2 _ _ _ _ _ Hrows) as F2.
  assert (Hgood : Forall good_line rows).
  { pose proof (Forall_and _ _ _ _ (transpose_Forall _ _ (mat_of s) Hok) (transpose_Forall _ _ (mat_of s) Hasc)) as HT.
    refine (Forall2_Forall_r _ _ _ _ _ _ _ _ HT F2). intros row line [H1 H2] Hwr. cbv beta in Hwr.
    apply (write_row_chars nobd eq_refl row pps true "" line); [|reflexivity|exact Hwr].
    rewrite Forall_forall in *. intros c Hcin. apply cell_nobd; [apply H1 | apply H2]; exact Hcin. }
  assert (F2' : Forall2 (fun srow line => tokens_acc line "" = srow) (transpose (exps s :: coefs s)) rows).
  { unfold mat_of in F2. change (map CStr (exps s) :: map (map CStr) (coefs s)) with (map (map CStr) (exps s :: coefs s)) in F2.
    rewrite transpose_map in F2. apply Forall2_map_l in F2.
    assert (HTf : Forall (Forall (fun x => is_floating x = true)) (transpose (exps s :: coefs s))).
    { apply transpose_Forall. constructor; assumption. }
    refine (Forall2_impl_l _ _ _ _ _ _ _ _ HTf F2). intros srow line Hsrow Hwr. cbv beta in Hwr.
    destruct (floats_cells srow Hsrow) as [Hrow _].
    apply (write_row_tokens_gen _ pps true "" line Hrow (fun _ => eq_refl)) in Hwr.
    rewrite Hwr. cbn [tokens_acc app]. rewrite map_map. cbn [cell_str]. apply map_id. }
  assert (Hn : List.length (exps s) <> 0) by (destruct (exps s); [congruence | discriminate]).
  split; [exact Hw|]. split; [exact Hgood|]. split; [exact F2'|]. split.
  - rewrite <- (Forall2_len _ _ _ _ _ F2').
    assert (HF : Forall (fun r => List.length r = List.length (exps s)) (exps s :: coefs s)) by (constructor; [reflexivity | exact HcF]).
    destruct (transpose_spec string "" (List.length (exps s)) (exps s :: coefs s)) as [Tl _]; [discriminate | exact HF | exact Tl].
  - rewrite <- (splitlines_unlines rows Hgood).
    apply (matrix_roundtrip (exps s) (coefs s) pps false (unlines rows) (List.length (exps s)));
      try assumption; try reflexivity.
Qed.

(* ================================================================== *)
(* 4. the lines the writer prints                                      *)
(* ================================================================== *)
Lemma vshell_nw : forall s, vlx_shell_ok s -> nw_shell_ok s.
Proof.
  intros s [Hex [[l [Ea Hl]] [[c [Ec Hc]] [He Hcf]]]]. unfold nw_shell_ok. rewrite Ea, Ec.
  split; [exact Hex|]. split; [discriminate|]. split; [repeat constructor; lia|]. split; [discriminate|].
  split; [repeat constructor; exact Hc|]. split; [cbn; lia|]. split; [exact He | rewrite <- Ec; exact Hcf].
Qed.
Lemma vshells_nw : forall shs, Forall vlx_shell_ok shs -> Forall nw_shell_ok shs.
Proof. intros shs H. rewrite Forall_forall in *. intros s Hs. apply vshell_nw, H, Hs. Qed.

Definition vl (s : sshell) : Z := hd 0%Z (am s).
Lemma vshell_am : forall s, vlx_shell_ok s -> am s = [vl s] /\ (0 <= vl s < 25)%Z.
Proof. intros s [_ [[l [Ea Hl]] _]]. unfold vl. rewrite Ea. split; [reflexivity | exact Hl]. Qed.
Lemma vshell_coefs : forall s, vlx_shell_ok s -> List.length (coefs s) = 1.
Proof. intros s [_ [_ [[c [Ec _]] _]]]. now rewrite Ec. Qed.

Definition vpps (s : sshell) : list Z := vlx_point_places (S (List.length (coefs s))).
Lemma vpps_length : forall s, List.length (vpps s) = S (List.length (coefs s)).
Proof. intros s. unfold vpps, vlx_point_places. rewrite map_length. apply zrange_length. Qed.

Definition vrows (s : sshell) : list string := rows_p (vpps s) s.
Definition vhdr (s : sshell) : string :=
  String (vletter (vl s)) "" +++ "    " +++ nat_str (List.length (exps s)) +++ "    " +++ nat_str (List.length (coefs s)).
Definition vsh_lines (s : sshell) : list string := vhdr s :: vrows s.
Definition vcmt (z : Z) (shs : list sshell) : string := "! " +++ vname z +++ "       " +++ cs_of shs.
Definition vatom (z : Z) : string := "@ATOMBASIS " +++ vsym z.
Definition vel_lines (zs : Z * list sshell) : list string :=
  "" :: vcmt (fst zs) (snd zs) :: vatom (fst zs) :: flat_map vsh_lines (snd zs) ++ ["@END"].
Definition vfirst (name : string) : string := "@BASIS_SET " +++ name.
Definition vall (name : string) (els : list (Z * list sshell)) : list string := vfirst name :: flat_map vel_lines els.

Definition vel_ok (zs : Z * list sshell) : Prop := (1 <= fst zs <= 120)%Z /\ Forall vlx_shell_ok (snd zs).
Lemma vlx_ok_els : forall name els, vlx_ok name els -> Forall vel_ok els.
Proof. intros name els [_ [_ H]]. exact H. Qed.

Lemma vrows_facts : forall s, vlx_shell_ok s ->
  write_matrix (mat_of s) (vpps s) false = inr (unlines (vrows s)) /\
  Forall good_line (vrows s) /\
  Forall2 (fun srow line => tokens_acc line "" = srow) (transpose (exps s :: coefs s)) (vrows s) /\
  List.length (vrows s) = List.length (exps s) /\
  parse_primitive_matrix (vrows s) = inr (map (norm false) (exps s), map (map (norm false)) (coefs s)).
Proof. intros s Hs. apply rows_facts_p; [apply vshell_nw, Hs | rewrite vpps_length; lia]. Qed.

Lemma write_shell_vlines : forall s, vlx_shell_ok s -> vlx_write_shell s = inr (unlines (vsh_lines s)).
Proof.
  intros s Hs. destruct (vrows_facts s Hs) as [Hw _]. destruct (vshell_am s Hs) as [Ea Hl].
  destruct (vam_facts (vl s)) as [ch [E1 [E2 _]]]; [lia|].
  unfold vlx_write_shell. rewrite Ea, E1. unfold bind.
  rewrite Cp2kSpec.leftpad_ok;
    [| unfold vlx_cols; cbn [List.length]; fold (vpps s); rewrite vpps_length, map_length; lia
     | apply Cp2kSpec.kcols_ok, vshell_nw, Hs].
  change (vlx_cols s) with (mat_of s). fold (vpps s). rewrite Hw, E2.
  unfold vsh_lines, vhdr, ok. rewrite unlines_cons, !sapp_assoc. reflexivity.
Qed.

Lemma write_element_vlines : forall zs, vel_ok zs -> vlx_write_element zs = inr (unlines (vel_lines zs)).
Proof.
  intros [z shs] [Hz Hshs]. cbn [fst snd] in *.
  destruct (vel_facts z Hz) as [s [n [Es [En [Eus [Eun _]]]]]].
  destruct (cs_facts shs (vshells_nw shs Hshs)) as [Ec _].
  unfold vlx_write_element. rewrite Es, En. unfold bind. rewrite Ec.
  rewrite (mapM_map_ok _ _ vlx_write_shell (fun s => unlines (vsh_lines s))).
  - unfold vel_lines, vcmt, vatom, ok. cbn [fst snd]. rewrite Eus, Eun.
    rewrite !unlines_cons, unlines_app, unlines_flat_map, !sapp_assoc. reflexivity.
  - intros s0 Hin. apply write_shell_vlines. rewrite Forall_forall in Hshs. apply Hshs, Hin.
Qed.

Lemma write_body_vlines : forall name els, Forall vel_ok els -> vlx_write_body name els = inr (unlines (vall name els)).
Proof.
  intros name els Hel. unfold vlx_write_body.
  rewrite (mapM_map_ok _ _ vlx_write_element (fun zs => unlines (vel_lines zs))).
  - unfold bind, ok, vall, vfirst. rewrite unlines_cons, unlines_flat_map, !sapp_assoc. reflexivity.
  - intros zs Hin. apply write_element_vlines. rewrite Forall_forall in Hel. apply Hel, Hin.
Qed.

Lemma vhdr_good : forall s, vlx_shell_ok s -> good_line (vhdr s).
Proof.
  intros s Hs. destruct (vshell_am s Hs) as [_ Hl]. destruct (vam_facts (vl s)) as [ch [_ [_ [_ [Ha _]]]]]; [lia|].
  unfold vhdr, good_line. rewrite !sall_app. cbn [sall]. rewrite (alpha_nobd _ Ha).
  rewrite !(sall_impl is_digit nobd _ digit_is_nobd (nat_str_digits _)). reflexivity.
Qed.

Lemma vall_good : forall name els, vlx_ok name els -> Forall good_line (vall name els).
Proof.
  intros name els H. pose proof (vlx_ok_els name els H) as Hel. destruct H as [Hn _].
  unfold vall. constructor.
  - unfold vfirst, good_line. rewrite line_byte_nobd in Hn. rewrite sall_app, Hn. reflexivity.
  - rewrite Forall_forall in *. intros l Hin. apply in_flat_map in Hin. destruct Hin as [[z shs] [Hzs Hl]].
    destruct (Hel _ Hzs) as [Hz Hshs]. cbn [fst snd] in *. unfold vel_lines in Hl. cbn [fst snd] in Hl.
    destruct (vel_facts z Hz) as [s [n [_ [_ [_ [_ [_ [Hsa [_ Hnn]]]]]]]]].
    destruct Hl as [<-|[<-|[<-|Hl]]]; [reflexivity | | |].
    + unfold vcmt, good_line. rewrite !sall_app, Hnn, (Cp2kSpec.cs_nobd shs (vshells_nw shs Hshs)). reflexivity.
    + unfold vatom, good_line. rewrite sall_app, (sall_impl is_alpha nobd _ alpha_nobd Hsa). reflexivity.
    + apply in_app_or in Hl. destruct Hl as [Hl|[<-|[]]]; [|reflexivity].
      apply in_flat_map in Hl. destruct Hl as [s0 [Hs0 Hl]]. rewrite Forall_forall in Hshs. specialize (Hshs s0 Hs0).
      destruct Hl as [<-|Hl]; [apply vhdr_good, Hshs|].
      destruct (vrows_facts s0 Hshs) as [_ [Hg _]]. rewrite Forall_forall in Hg. apply Hg, Hl.
Qed.

(* ---------- vlx_write_total ---------- *)
Lemma write_h_text : forall h name els, vlx_ok name els ->
  vlx_write_electron_h h name els = inr (unlines (vall name els) +++ h (unlines (vall name els))).
Proof.
  intros h name els H. unfold vlx_write_electron_h. rewrite (write_body_vlines name els (vlx_ok_els name els H)).
  reflexivity.
Qed.

Lemma vlx_write_total : vlx_write_total_stmt.
Proof. intros h name els H. eexists. apply write_h_text, H. Qed.

Lemma written_lines_v : forall h, vlx_digest_ok h -> forall name els, vlx_ok name els ->
  splitlines (unlines (vall name els) +++ h (unlines (vall name els))) = vall name els ++ [h (unlines (vall name els))].
Proof.
  intros h Hh name els H. destruct (digest_facts h Hh (unlines (vall name els))) as [Hne [Hg _]].
  apply splitlines_unlines_last; [apply vall_good, H | exact Hg | exact Hne].
Qed.

(* ---------- vlx_no_number_lost ---------- *)
Lemma vlx_no_number_lost : vlx_no_number_lost_stmt.
Proof.
  intros h Hh name els t H E x [zs [s [Hzs [Hs Hx]]]].
  rewrite (write_h_text h name els H) in E. inversion E; subst t. rewrite (written_lines_v h Hh name els H).
  pose proof (vlx_ok_els name els H) as Hel. rewrite Forall_forall in Hel. destruct (Hel zs Hzs) as [_ Hshs].
  rewrite Forall_forall in Hshs. pose proof (Hshs s Hs) as Hok.
  destruct (vrows_facts s Hok) as [_ [_ [F2 _]]].
  destruct (vshell_nw s Hok) as [_ [_ [_ [_ [HcF _]]]]].
  assert (HF : Forall (fun r => List.length r = List.length (exps s)) (exps s :: coefs s)) by (constructor; [reflexivity | exact HcF]).
  assert (Hcol : exists c, In c (exps s :: coefs s) /\ In x c).
  { destruct Hx as [Hx|[c [Hc Hx]]]; [exists (exps s); split; [now left | exact Hx] | exists c; split; [now right | exact Hx]]. }
  destruct Hcol as [c [Hc Hxc]].
  destruct (transpose_has _ _ c x HF Hc Hxc) as [row [Hrow Hxr]].
  destruct (Forall2_In_l _ _ _ _ _ row F2 Hrow) as [line [Hline Htok]].
  exists line. split; [|rewrite Htok; exact Hxr].
  apply in_or_app. left. unfold vall. right. apply in_flat_map. exists zs. split; [exact Hzs|].
  unfold vel_lines. right. right. right. apply in_or_app. left. apply in_flat_map. exists s. split; [exact Hs|]. right. exact Hline.
Qed.

(* ================================================================== *)
(* 5. strip() and prune_lines(lines, '!') on the written lines          *)
(* ================================================================== *)
Definition vblk (s : sshell) : list string := vhdr s :: map strip_ws (vrows s).
Definition vbody (shs : list sshell) : list string := concat (map vblk shs).
Definition vsec (zs : Z * list sshell) : list string := vatom (fst zs) :: vbody (snd zs) ++ ["@END"].
Definition vfirst' (name : string) : string := strip_ws (vfirst name).
Definition vpruned (name : string) (els : list (Z * list sshell)) : list string := vfirst' name :: flat_map vsec els.

Lemma prune2_strip : forall L, prune2 (map strip_ws L) = prune2 L.
Proof.
  intros L. rewrite !prune2_unfold, map_map. f_equal. f_equal. apply map_ext. intros l. apply strip_idem.
Qed.

Lemma prune2_keep_strip : forall l c r, strip_ws l = String c r -> Ascii.eqb c "!" = false -> prune2 [l] = [String c r].
Proof.
  intros l c r Hs Hc. rewrite prune2_unfold. cbn [map]. rewrite Hs. cbn [filter is_empty first_in sany orb negb].
  rewrite Hc. reflexivity.
Qed.

Lemma prune2_bang : forall X, prune2 [String "!" X] = [].
Proof.
  intros X. rewrite prune2_unfold. cbn [map]. destruct (strip_ws_head "!" X eq_refl) as [Z ->]. reflexivity.
Qed.

Lemma str_prefix_app : forall p r, str_prefix p (p +++ r) = true.
Proof.
  induction p as [|c p IH]; intros r; [reflexivity|]. cbn [String.append str_prefix].
  rewrite Ascii.eqb_refl, IH. reflexivity.
Qed.

(* the first line *)
Lemma vfirst_strip : forall name, exists rest, vfirst' name = "@BASIS_SET" +++ rest.
Proof.
  intros name. unfold vfirst', vfirst.
  assert (Ht : tokens_acc ("@BASIS_SET " +++ name) "" = "@BASIS_SET" :: tokens_acc name "").
  { change ("@BASIS_SET " +++ name) with ("@BASIS_SET" +++ String " " name).
    apply Cp2kSpec.tokens_word_sp; [split; [discriminate | reflexivity] | reflexivity]. }
  exact (strip_tok_prefix _ _ _ Ht).
Qed.

Lemma vfirst_prune : forall name, prune2 [vfirst name] = [vfirst' name].
Proof.
  intros name. destruct (vfirst_strip name) as [rest E]. unfold vfirst' in *.
  rewrite (prune2_keep_strip (vfirst name) "@" ("BASIS_SET" +++ rest)); [now rewrite E | exact E | reflexivity].
Qed.

(* the `@ATOMBASIS SYM` line *)
Lemma vsym_tok : forall z, (1 <= z <= 120)%Z -> tok_ok (vsym z).
Proof.
  intros z Hz. destruct (vel_facts z Hz) as [_ [_ [_ [_ [_ [_ [Hne [Ha _]]]]]]]]. apply alpha_word_tok; assumption.
Qed.

Lemma vatom_strip : forall z, (1 <= z <= 120)%Z -> strip_ws (vatom z) = vatom z.
Proof.
  intros z Hz. unfold vatom. change ("@ATOMBASIS " +++ vsym z) with ("@ATOMBASIS" +++ " " +++ vsym z).
  apply strip_words; [split; [discriminate | reflexivity] | apply vsym_tok, Hz].
Qed.

Lemma vatom_prune : forall z, (1 <= z <= 120)%Z -> prune2 [vatom z] = [vatom z].
Proof.
  intros z Hz. apply (prune2_keep "@" ("ATOMBASIS " +++ vsym z)); [exact (vatom_strip z Hz) | reflexivity].
Qed.

Lemma vatom_tokens : forall z, (1 <= z <= 120)%Z -> tokens_acc (vatom z) "" = ["@ATOMBASIS"; vsym z].
Proof.
  intros z Hz. unfold vatom. change ("@ATOMBASIS " +++ vsym z) with ("@ATOMBASIS" +++ String " " (vsym z)).
  rewrite Cp2kSpec.tokens_word_sp; [|split; [discriminate | reflexivity] | reflexivity].
  f_equal. pose proof (tokens_sp_word 0 (vsym z) (vsym_tok z Hz)) as H. exact H.
Qed.

(* the shell line *)
Lemma vhdr_shape : forall s,
  vhdr s = String (vletter (vl s)) "" +++ ("    " +++ nat_str (List.length (exps s)) +++ "    ") +++ nat_str (List.length (coefs s)).
Proof. intros s. unfold vhdr. rewrite !sapp_assoc. reflexivity. Qed.

Lemma vletter_facts : forall s, vlx_shell_ok s ->
  is_shell_letter (vletter (vl s)) = true /\ is_alpha (vletter (vl s)) = true /\
  amchar_to_int (String (vletter (vl s)) "") true = inr (am s).
Proof.
  intros s Hs. destruct (vshell_am s Hs) as [Ea Hl]. destruct (vam_facts (vl s)) as [ch [_ [_ [H1 [H2 H3]]]]]; [lia|].
  split; [exact H1|]. split; [exact H2|]. rewrite H3, <- Ea. reflexivity.
Qed.

Lemma vhdr_strip : forall s, vlx_shell_ok s -> strip_ws (vhdr s) = vhdr s.
Proof.
  intros s Hs. destruct (vletter_facts s Hs) as [_ [Ha _]]. rewrite vhdr_shape.
  apply strip_words; [|apply nat_str_tok].
  apply alpha_word_tok; [discriminate|]. cbn [sall]. now rewrite Ha.
Qed.

Lemma vhdr_prune : forall s, vlx_shell_ok s -> prune2 [vhdr s] = [vhdr s].
Proof.
  intros s Hs. destruct (vletter_facts s Hs) as [_ [Ha _]].
  apply (prune2_keep (vletter (vl s)) _ (vhdr_strip s Hs)). apply alpha_not_bang, Ha.
Qed.

(* the number lines *)
Lemma vrows_num : forall s, vlx_shell_ok s -> Forall (fun r => numline (strip_ws r)) (vrows s).
Proof.
  intros s Hs. destruct (vrows_facts s Hs) as [_ [_ [F2 _]]].
  destruct (vshell_nw s Hs) as [Hex [_ [_ [Hcne [HcF [_ [He Hc]]]]]]]. unfold floating in *.
  assert (HT : Forall (Forall (fun x => is_floating x = true)) (transpose (exps s :: coefs s))).
  { apply transpose_Forall. constructor; assumption. }
  assert (HL : Forall (fun r => List.length r = List.length (exps s :: coefs s)) (transpose (exps s :: coefs s)))
    by apply transpose_rowlen.
  pose proof (Forall_and _ _ _ _ HT HL) as HTL.
  refine (Forall2_Forall_r _ _ _ _ _ _ _ _ HTL F2). intros srow line [Hf Hl] Ht. cbv beta in Ht.
  destruct srow as [|e cs]; [cbn in Hl; discriminate|]. inversion Hf; subst.
  apply (row_numline line e cs); assumption.
Qed.

Lemma vshell_prune : forall s, vlx_shell_ok s -> prune2 (vsh_lines s) = vblk s.
Proof.
  intros s Hs. unfold vsh_lines, vblk. rewrite prune2_cons, (prune2_data _ (vrows_num s Hs)), (vhdr_prune s Hs).
  reflexivity.
Qed.

Lemma velement_prune : forall zs, vel_ok zs -> prune2 (vel_lines zs) = vsec zs.
Proof.
  intros [z shs] [Hz Hshs]. cbn [fst snd] in *. unfold vel_lines, vsec, vcmt, vbody. cbn [fst snd].
  rewrite prune2_cons. change (prune2 [""]) with (@nil string). cbn [app].
  rewrite prune2_cons. change ("! " +++ vname z +++ "       " +++ cs_of shs) with (String "!" (" " +++ vname z +++ "       " +++ cs_of shs)).
  rewrite prune2_bang. cbn [app].
  rewrite prune2_cons, (vatom_prune z Hz), prune2_app, prune2_flat_map. change (prune2 ["@END"]) with ["@END"].
  cbn [app]. f_equal. f_equal. rewrite <- flat_map_concat_map.
  apply flat_map_ext_in. intros s Hin. apply vshell_prune. rewrite Forall_forall in Hshs. apply Hshs, Hin.
Qed.

Lemma vall_prune : forall name els, Forall vel_ok els -> prune2 (map strip_ws (vall name els)) = vpruned name els.
Proof.
  intros name els Hel. rewrite prune2_strip. unfold vall, vpruned.
  rewrite prune2_cons, (vfirst_prune name), prune2_flat_map. cbn [app]. f_equal.
  apply flat_map_ext_in. intros zs Hin. apply velement_prune. rewrite Forall_forall in Hel. apply Hel, Hin.
Qed.

(* ================================================================== *)
(* 6. the index arithmetic of read_veloxchem on a file made of sections *)
(* ================================================================== *)
Definition idx_from (k : nat) (l : list string) : list (nat * string) := combine (seq k (List.length l)) l.
Definition pf (p : string) (k : nat) (l : list string) : list (nat * string) :=
  filter (fun il : nat * string => str_prefix p (snd il)) (idx_from k l).

Lemma starts_idx_pf : forall p l, starts_idx p l = pf p 0 l.
Proof. reflexivity. Qed.

Lemma idx_from_cons : forall k x t, idx_from k (x :: t) = (k, x) :: idx_from (S k) t.
Proof. reflexivity. Qed.

Lemma idx_from_app : forall a k b, idx_from k (a ++ b) = idx_from k a ++ idx_from (k + List.length a) b.
Proof.
  induction a as [|x a IH]; intros k b.
  - cbn [app List.length]. rewrite Nat.add_0_r. reflexivity.
  - cbn [app]. rewrite !idx_from_cons, IH. cbn [app List.length]. f_equal. f_equal. f_equal. lia.
Qed.

Lemma pf_app : forall p a k b, pf p k (a ++ b) = pf p k a ++ pf p (k + List.length a) b.
Proof. intros p a k b. unfold pf. rewrite idx_from_app, filter_app. reflexivity. Qed.

Lemma pf_none : forall p a k, Forall (fun l => str_prefix p l = false) a -> pf p k a = [].
Proof.
  intros p; induction a as [|x a IH]; intros k H; [reflexivity|]. inversion H as [|? ? Hx Ha]; subst.
  unfold pf in *. rewrite idx_from_cons. cbn [filter snd]. rewrite Hx. apply IH, Ha.
Qed.

Lemma pf_one : forall p k x, pf p k [x] = if str_prefix p x then [(k, x)] else [].
Proof. intros p k x. unfold pf. cbn. destruct (str_prefix p x); reflexivity. Qed.

(* a section: `@ATOMBASIS sym`, lines that begin with neither marker, `@END` *)
Definition asec := (string * list string)%type.
Definition secl (sb : asec) : list string := ("@ATOMBASIS " +++ fst sb) :: snd sb ++ ["@END"].
Definition plain (l : string) : Prop := str_prefix "@ATOMBASIS" l = false /\ str_prefix "@END" l = false.
Definition asec_ok (sb : asec) : Prop := tok_ok (fst sb) /\ Forall plain (snd sb).
Fixpoint sec_at (k : nat) (secs : list asec) : list (nat * asec) :=
  match secs with
  | [] => []
  | sb :: t => (k, sb) :: sec_at (k + List.length (snd sb) + 2) t
  end.

Lemma sec_at_snd : forall secs k, map snd (sec_at k secs) = secs.
Proof. induction secs as [|sb t IH]; intros k; [reflexivity|]. cbn [sec_at map snd]. now rewrite IH. Qed.

Lemma secl_length : forall sb, List.length (secl sb) = List.length (snd sb) + 2.
Proof. intros sb. unfold secl. cbn [List.length]. rewrite app_length. cbn [List.length]. lia. Qed.

Lemma plain_A : forall b, Forall plain b -> Forall (fun l => str_prefix "@ATOMBASIS" l = false) b.
Proof. intros b H. rewrite Forall_forall in *. intros l Hl. apply (H l Hl). Qed.
Lemma plain_E : forall b, Forall plain b -> Forall (fun l => str_prefix "@END" l = false) b.
Proof. intros b H. rewrite Forall_forall in *. intros l Hl. apply (H l Hl). Qed.

Lemma pf_atom : forall secs k, Forall asec_ok secs ->
  pf "@ATOMBASIS" k (flat_map secl secs) = map (fun e : nat * asec => (fst e, "@ATOMBASIS " +++ fst (snd e))) (sec_at k secs).
Proof.
  induction secs as [|sb t IH]; intros k H; [reflexivity|]. inversion H as [|? ? [_ Hb] Ht]; subst.
  cbn [flat_map sec_at map fst snd]. rewrite pf_app, secl_length, Nat.add_assoc, (IH _ Ht).
  unfold secl. change (("@ATOMBASIS " +++ fst sb) :: snd sb ++ ["@END"]) with ([("@ATOMBASIS " +++ fst sb)] ++ snd sb ++ ["@END"]).
  rewrite pf_app, pf_one.
  change ("@ATOMBASIS " +++ fst sb) with ("@ATOMBASIS" +++ String " " (fst sb)) at 1. rewrite str_prefix_app.
  rewrite (pf_none "@ATOMBASIS" (snd sb ++ ["@END"])); [reflexivity|].
  apply Forall_app. split; [apply plain_A, Hb | repeat constructor].
Qed.

Lemma pf_end : forall secs k, Forall asec_ok secs ->
  map fst (pf "@END" k (flat_map secl secs)) = map (fun e : nat * asec => fst e + 1 + List.length (snd (snd e))) (sec_at k secs).
Proof.
  induction secs as [|sb t IH]; intros k H; [reflexivity|]. inversion H as [|? ? [_ Hb] Ht]; subst.
  cbn [flat_map sec_at map fst snd]. rewrite pf_app, secl_length, Nat.add_assoc, map_app, (IH _ Ht).
  unfold secl. change (("@ATOMBASIS " +++ fst sb) :: snd sb ++ ["@END"]) with ([("@ATOMBASIS " +++ fst sb)] ++ snd sb ++ ["@END"]).
  rewrite pf_app, pf_one. cbn [String.append str_prefix Ascii.eqb Bool.eqb andb app List.length].
  rewrite pf_app, (pf_none "@END" (snd sb) _ (plain_E _ Hb)), pf_one. cbn [str_prefix Ascii.eqb Bool.eqb andb app map fst].
  reflexivity.
Qed.

(* where the lines of a section are *)
Lemma sec_at_skip : forall secs pre,
  Forall (fun e : nat * asec => exists rest, skipn (S (fst e)) (pre ++ flat_map secl secs) = snd (snd e) ++ rest)
         (sec_at (List.length pre) secs).
Proof.
  induction secs as [|sb t IH]; intros pre; [constructor|]. cbn [sec_at flat_map]. constructor.
  - cbn [fst snd]. exists ("@END" :: flat_map secl t).
    rewrite skipn_app, (skipn_all2 pre) by lia. replace (S (List.length pre) - List.length pre) with 1 by lia.
    cbn [app]. unfold secl. cbn [app skipn]. rewrite <- app_assoc. reflexivity.
  - specialize (IH (pre ++ secl sb)). rewrite app_length, secl_length, Nat.add_assoc, <- app_assoc in IH. exact IH.
Qed.

Lemma assoc_set_new : forall (V : Type) k (v : V) d, ~ In k (map fst d) -> assoc_set k v d = d ++ [(k, v)].
Proof.
  intros V k v; induction d as [|[k' v'] d IH]; intros H; [reflexivity|].
  cbn [assoc_set map fst In app] in *. destruct (String.eqb_spec k k') as [->|Hne]; [exfalso; apply H; now left|].
  rewrite IH; [reflexivity|]. intros Hin. apply H. now right.
Qed.

Lemma combine_map_same : forall (A B C : Type) (f : A -> B) (g : A -> C) l,
  combine (map f l) (map g l) = map (fun x => (f x, g x)) l.
Proof. intros A B C f g; induction l as [|a l IH]; [reflexivity|]. cbn [map combine]. now rewrite IH. Qed.

Definition slice_fold (P : list string) (d : list (string * list string)) (p : nat * string * nat) : list (string * list string) :=
  let '((i, el), j) := p in assoc_set el (firstn (j - S i) (skipn (S i) P)) d.

Lemma slices_fold : forall P entries d,
  Forall (fun e : nat * asec => exists rest, skipn (S (fst e)) P = snd (snd e) ++ rest) entries ->
  NoDup (map (fun e : nat * asec => fst (snd e)) entries) ->
  (forall e, In e entries -> ~ In (fst (snd e)) (map fst d)) ->
  fold_left (slice_fold P)
            (map (fun e : nat * asec => ((fst e, fst (snd e)), fst e + 1 + List.length (snd (snd e)))) entries) d
  = d ++ map snd entries.
Proof.
  intros P; induction entries as [|[i [sym body]] t IH]; intros d HF Hnd Hdis.
  - cbn. now rewrite app_nil_r.
  - inversion HF as [|? ? [rest Hs] HFt]; subst. cbn [map fst snd] in *. inversion Hnd as [|? ? Hnotin Hnd']; subst.
    cbn [fold_left]. unfold slice_fold at 2. cbn [fst snd].
    replace (i + 1 + List.length body - S i) with (List.length body) by lia.
    rewrite Hs, Cp2kSpec.firstn_app_exact, assoc_set_new by (apply (Hdis (i, (sym, body))); now left).
    rewrite IH; [now rewrite <- app_assoc | exact HFt | exact Hnd' |].
    intros e He. rewrite map_app, in_app_iff. cbn [map fst In]. intros [Hin|[Heq|[]]].
    + apply (Hdis e); [now right | exact Hin].
    + apply Hnotin. rewrite Heq. apply (in_map (fun e0 : nat * asec => fst (snd e0))), He.
Qed.

(* read_veloxchem after prune_lines *)
Definition read_pruned (basis_lines : list string) : res (list (Z * list sshell)) :=
  do idxs_atombasis <-
     mapM (fun il : nat * string => match tokens_acc (snd il) "" with
                                    | _ :: el :: _ => ok (fst il, el)
                                    | _ => fail EIndex
                                    end) (starts_idx "@ATOMBASIS" basis_lines);
  let idxs_end := map fst (starts_idx "@END" basis_lines) in
  vlx_elements (fold_left (slice_fold basis_lines) (combine idxs_atombasis idxs_end) []) [].

Lemma read_data_pruned : forall lines, vlx_read_data lines = read_pruned (prune2 lines).
Proof. reflexivity. Qed.

Lemma atom_tokens : forall sym, tok_ok sym -> tokens_acc ("@ATOMBASIS " +++ sym) "" = ["@ATOMBASIS"; sym].
Proof.
  intros sym Hs. change ("@ATOMBASIS " +++ sym) with ("@ATOMBASIS" +++ String " " sym).
  rewrite Cp2kSpec.tokens_word_sp; [|split; [discriminate | reflexivity] | reflexivity].
  f_equal. exact (tokens_sp_word 0 sym Hs).
Qed.

Lemma read_pruned_sections : forall first secs, plain first -> Forall asec_ok secs -> NoDup (map fst secs) ->
  read_pruned (first :: flat_map secl secs) = vlx_elements secs [].
Proof.
  intros first secs [HfA HfE] Hsecs Hnd. unfold read_pruned. rewrite !starts_idx_pf.
  change (first :: flat_map secl secs) with ([first] ++ flat_map secl secs).
  rewrite !pf_app, !pf_one, HfA, HfE. cbn [app List.length Nat.add].
  rewrite (pf_atom secs 1 Hsecs), (pf_end secs 1 Hsecs).
  rewrite (mapM_map_ok2 _ _ _ _ (fun e : nat * asec => (fst e, "@ATOMBASIS " +++ fst (snd e)))
                        (fun e : nat * asec => (fst e, fst (snd e))) (sec_at 1 secs)).
  - unfold bind. rewrite combine_map_same. cbv beta.
    rewrite (slices_fold (first :: flat_map secl secs) (sec_at 1 secs) []).
    + cbn [app]. now rewrite sec_at_snd.
    + exact (sec_at_skip secs [first]).
    + assert (E : map (fun e : nat * asec => fst (snd e)) (sec_at 1 secs) = map fst (map snd (sec_at 1 secs)))
        by (rewrite map_map; reflexivity).
      rewrite E, sec_at_snd. exact Hnd.
    + intros e _ [].
  - intros e He. cbn [fst snd]. assert (Hin : In (snd e) secs) by (rewrite <- (sec_at_snd secs 1); apply in_map, He).
    rewrite Forall_forall in Hsecs. destruct (Hsecs _ Hin) as [Ht _]. rewrite (atom_tokens _ Ht). reflexivity.
Qed.

(* ================================================================== *)
(* 7. shell_begin_re, one shell block, the blocks of an element         *)
(* ================================================================== *)
Lemma span_digit_word : forall a, sall is_digit a = true -> span_digit a = (a, "").
Proof.
  induction a as [|c a IH]; intros H; [reflexivity|].
  cbn [sall] in H. apply andb_true_iff in H. destruct H as [Hc Ha].
  cbn [span_digit]. rewrite Hc, (IH Ha). reflexivity.
Qed.

Lemma digits_tok : forall a, a <> "" -> sall is_digit a = true -> tok_ok a.
Proof. intros a Hne H. split; [exact Hne|]. exact (sall_sany_false _ _ _ digit_not_space H). Qed.

Lemma lstrip_tok : forall w, tok_ok w -> lstrip_ws w = w.
Proof. intros w Hw. rewrite <- (sapp_nil_r w). apply lstrip_word, Hw. Qed.

Lemma match_shell_line : forall C N M, is_shell_letter C = true ->
  N <> "" -> sall is_digit N = true -> M <> "" -> sall is_digit M = true ->
  match_shell_begin (String C "" +++ "    " +++ N +++ "    " +++ M) = Some (C, N, M).
Proof.
  intros C N M HC HN HNd HM HMd. unfold match_shell_begin.
  change (String C "" +++ "    " +++ N +++ "    " +++ M) with (String C (String " " (sp 3 +++ N +++ String " " (sp 3 +++ M)))).
  cbv iota beta. rewrite HC. change (is_space " ") with true. cbv iota.
  change (String " " (sp 3 +++ N +++ String " " (sp 3 +++ M))) with (sp 4 +++ N +++ String " " (sp 3 +++ M)).
  rewrite lstrip_sp, (lstrip_word N _ (digits_tok N HN HNd)), (span_digit_word_sp N _ HNd).
  destruct N as [|n0 N']; [congruence|]. change (is_space " ") with true. cbv iota.
  change (String " " (sp 3 +++ M)) with (sp 4 +++ M).
  rewrite lstrip_sp, (lstrip_tok M (digits_tok M HM HMd)), (span_digit_word M HMd).
  destruct M as [|m0 M']; [congruence|]. reflexivity.
Qed.

Lemma match_vhdr : forall s, vlx_shell_ok s ->
  match_shell_begin (vhdr s) = Some (vletter (vl s), nat_str (List.length (exps s)), nat_str (List.length (coefs s))).
Proof.
  intros s Hs. destruct (vletter_facts s Hs) as [HC _]. unfold vhdr.
  apply match_shell_line; [exact HC | apply nat_str_ne | apply nat_str_digits | apply nat_str_ne | apply nat_str_digits].
Qed.

Lemma floating_first_v : forall c t, is_floating (String c t) = true ->
  is_shell_letter c = false /\ Ascii.eqb "@" c = false.
Proof. intros c t H. all_chars c; try (split; reflexivity); exfalso; cbn in H; discriminate H. Qed.

Lemma alpha_not_at : forall c, is_alpha c = true -> Ascii.eqb "@" c = false.
Proof. intros c H. all_chars c; try reflexivity; discriminate H. Qed.

Lemma numline_v : forall l, numline l -> exists c r, l = String c r /\ is_shell_letter c = false /\ Ascii.eqb "@" c = false.
Proof.
  intros l [e [rest [-> He]]]. destruct e as [|c t]; [discriminate He|].
  destruct (floating_first_v c t He) as [H1 H2]. exists c, (t +++ rest). repeat split; assumption.
Qed.

Lemma not_at_plain : forall c r, Ascii.eqb "@" c = false -> plain (String c r) /\ str_prefix "@BASIS_SET" (String c r) = false.
Proof. intros c r H. unfold plain. cbn [str_prefix]. rewrite H. repeat split. Qed.

Lemma vblk_shape : forall s, vlx_shell_ok s -> block_shape is_shell_begin (vblk s).
Proof.
  intros s Hs. exists (vhdr s), (map strip_ws (vrows s)). split; [reflexivity|]. split.
  - unfold is_shell_begin. now rewrite (match_vhdr s Hs).
  - pose proof (vrows_num s Hs) as Hn. rewrite Forall_forall in *. intros l Hin. apply in_map_iff in Hin.
    destruct Hin as [row [<- Hrow]]. destruct (numline_v _ (Hn row Hrow)) as [c [r [-> [Hc _]]]].
    unfold is_shell_begin, match_shell_begin. now rewrite Hc.
Qed.

Lemma partition_vblks : forall shs, Forall vlx_shell_ok shs ->
  partition_lines (vbody shs) is_shell_begin true 1 0 0 = inr (map vblk shs).
Proof.
  intros shs H. unfold partition_lines, vbody.
  rewrite (part_blocks is_shell_begin (map vblk shs) [] []).
  - cbn [flush app]. unfold bind. rewrite existsb_false; [reflexivity|].
    intros b Hb. apply in_map_iff in Hb. destruct Hb as [s [<- _]]. reflexivity.
  - rewrite Forall_forall in *. intros b Hb. apply in_map_iff in Hb. destruct Hb as [s [<- Hs]]. apply vblk_shape, H, Hs.
Qed.

Lemma parse_vblk : forall s, vlx_shell_ok s -> vlx_parse_shell_block (vblk s) = inr (vlx_expected_shell s).
Proof.
  intros s Hs. destruct (vrows_facts s Hs) as [_ [_ [_ [Hlen Hp]]]]. destruct (vletter_facts s Hs) as [_ [_ Ham]].
  pose proof (vshell_coefs s Hs) as Hc1. destruct (vshell_am s Hs) as [Ea _].
  unfold vlx_parse_shell_block, vblk. rewrite (match_vhdr s Hs), !nat_str_val, Hc1.
  change (negb (Z.of_nat 1 =? 1)%Z) with false. cbv iota.
  unfold parse_primitive_matrix_n. rewrite ppm_strip, Hp. unfold bind. cbn [fst snd].
  rewrite !map_length, Nat2Z.id, Nat.eqb_refl, Hc1. cbn [Nat.eqb negb].
  rewrite Ham, (ftype_ok "spherical" (am s)) by (rewrite Ea; discriminate). reflexivity.
Qed.

(* the lines of the pruned file as sections *)
Definition vsecof (zs : Z * list sshell) : asec := (vsym (fst zs), vbody (snd zs)).

Lemma vpruned_secs : forall name els, vpruned name els = vfirst' name :: flat_map secl (map vsecof els).
Proof.
  intros name els. unfold vpruned. f_equal. induction els as [|zs els IH]; [reflexivity|].
  cbn [flat_map map]. rewrite IH. reflexivity.
Qed.

Lemma vhdr_head : forall s, vlx_shell_ok s -> exists r, vhdr s = String (vletter (vl s)) r.
Proof. intros s _. unfold vhdr. eexists. reflexivity. Qed.

Lemma vblk_lines : forall s l, vlx_shell_ok s -> In l (vblk s) -> plain l /\ str_prefix "@BASIS_SET" l = false.
Proof.
  intros s l Hs [<-|Hin].
  - destruct (vletter_facts s Hs) as [_ [Ha _]]. destruct (vhdr_head s Hs) as [r ->]. apply not_at_plain, alpha_not_at, Ha.
  - apply in_map_iff in Hin. destruct Hin as [row [<- Hrow]]. pose proof (vrows_num s Hs) as Hn. rewrite Forall_forall in Hn.
    destruct (numline_v _ (Hn row Hrow)) as [c [r [-> [_ Hc]]]]. apply not_at_plain, Hc.
Qed.

Lemma vsecof_ok : forall zs, vel_ok zs -> asec_ok (vsecof zs).
Proof.
  intros [z shs] [Hz Hshs]. cbn [fst snd] in *. split; cbn [vsecof fst snd]; [apply vsym_tok, Hz|].
  unfold vbody. apply concat_Forall. rewrite Forall_forall in *. intros b Hb. apply in_map_iff in Hb.
  destruct Hb as [s [<- Hs]]. apply Forall_forall. intros l Hl. apply (vblk_lines s l (Hshs s Hs) Hl).
Qed.

Lemma vsym_inj : forall z z', (1 <= z <= 120)%Z -> (1 <= z' <= 120)%Z -> vsym z = vsym z' -> z = z'.
Proof.
  intros z z' Hz Hz' E. destruct (vel_facts z Hz) as [_ [_ [_ [_ [_ [_ [_ [_ [H1 _]]]]]]]]].
  destruct (vel_facts z' Hz') as [_ [_ [_ [_ [_ [_ [_ [_ [H2 _]]]]]]]]]. rewrite E in H1. congruence.
Qed.

Lemma NoDup_map_inj_in : forall (A B : Type) (f : A -> B) l,
  (forall x y, In x l -> In y l -> f x = f y -> x = y) -> NoDup l -> NoDup (map f l).
Proof.
  intros A B f; induction l as [|a l IH]; intros Hinj Hnd; [constructor|]. inversion Hnd as [|? ? Hnotin Hnd']; subst.
  cbn [map]. constructor.
  - intros Hin. apply in_map_iff in Hin. destruct Hin as [x [Ex Hx]]. apply Hnotin.
    rewrite <- (Hinj x a (or_intror Hx) (or_introl eq_refl) Ex). exact Hx.
  - apply IH; [|exact Hnd']. intros x y Hx Hy. apply Hinj; now right.
Qed.

Lemma vsecs_nodup : forall els, Forall vel_ok els -> NoDup (map fst els) -> NoDup (map fst (map vsecof els)).
Proof.
  intros els Hel Hnd. rewrite map_map. change (fun x : Z * list sshell => fst (vsecof x)) with (fun x : Z * list sshell => vsym (fst x)).
  rewrite <- (map_map fst vsym). apply NoDup_map_inj_in; [|exact Hnd].
  intros z z' Hz Hz' E. rewrite Forall_forall in Hel.
  apply in_map_iff in Hz. destruct Hz as [zs [<- Hzs]]. apply in_map_iff in Hz'. destruct Hz' as [zs' [<- Hzs']].
  apply vsym_inj; [apply (Hel zs Hzs) | apply (Hel zs' Hzs') | exact E].
Qed.

(* `for el, atombasis_lines in atombases_lines.items()` *)
Lemma velements : forall els d, Forall vel_ok els -> NoDup (map fst els) ->
  (forall z, In z (map fst els) -> ~ In z (map fst d)) ->
  vlx_elements (map vsecof els) d = inr (d ++ vlx_expected els).
Proof.
  induction els as [|[z shs] els IH]; intros d Hel Hnd Hdis.
  - cbn. now rewrite app_nil_r.
  - inversion Hel as [|? ? [Hz Hshs] H2]; subst. cbn [fst snd] in *. cbn [map fst] in Hnd. inversion Hnd as [|? ? Hnotin Hnd']; subst.
    destruct (vel_facts z Hz) as [_ [_ [_ [_ [_ [_ [_ [_ [Ez _]]]]]]]]].
    cbn [map vlx_elements vsecof fst snd]. rewrite Ez. unfold bind.
    rewrite existsb_Zeqb_false by (apply Hdis; now left).
    rewrite (partition_vblks shs Hshs).
    rewrite (mapM_map_ok2 _ _ _ vlx_parse_shell_block vblk vlx_expected_shell shs).
    + rewrite IH; [| exact H2 | exact Hnd' |].
      * unfold vlx_expected. cbn [map fst snd]. rewrite <- app_assoc. reflexivity.
      * intros z' Hz'. rewrite map_app, in_app_iff. cbn [map fst In]. intros [Hin|[Heq|[]]].
        -- apply (Hdis z'); [now right | exact Hin].
        -- subst z'. apply Hnotin, Hz'.
    + intros s Hin. apply parse_vblk. rewrite Forall_forall in Hshs. apply Hshs, Hin.
Qed.

Lemma vfirst_plain : forall name, plain (vfirst' name) /\ str_prefix "@BASIS_SET" (vfirst' name) = true.
Proof.
  intros name. destruct (vfirst_strip name) as [rest ->]. split; [split; reflexivity | apply str_prefix_app].
Qed.

(* read_veloxchem after the checksum test, on the writer's lines *)
Lemma read_data_vall : forall name els, vlx_ok name els ->
  vlx_read_data (map strip_ws (vall name els)) = inr (vlx_expected els).
Proof.
  intros name els H. pose proof (vlx_ok_els name els H) as Hel. destruct H as [_ [Hnd _]].
  rewrite read_data_pruned, (vall_prune name els Hel), vpruned_secs.
  rewrite read_pruned_sections.
  - rewrite (velements els [] Hel Hnd); [reflexivity|]. intros z _ [].
  - apply vfirst_plain.
  - rewrite Forall_forall in *. intros sb Hsb. apply in_map_iff in Hsb. destruct Hsb as [zs [<- Hzs]]. apply vsecof_ok, Hel, Hzs.
  - apply vsecs_nodup; assumption.
Qed.

(* ================================================================== *)
(* 8. the checksum test                                                *)
(* ================================================================== *)
(* no other line begins with `@BASIS_SET` *)
Lemma vel_lines_nobs : forall zs, vel_ok zs ->
  Forall (fun l => str_prefix "@BASIS_SET" l = false) (map strip_ws (vel_lines zs)).
Proof.
  intros [z shs] [Hz Hshs]. cbn [fst snd] in *. unfold vel_lines. cbn [fst snd map].
  constructor; [reflexivity|]. constructor.
  { unfold vcmt. change ("! " +++ vname z +++ "       " +++ cs_of shs) with (String "!" (" " +++ vname z +++ "       " +++ cs_of shs)).
    destruct (strip_ws_head "!" (" " +++ vname z +++ "       " +++ cs_of shs) eq_refl) as [Z ->]. reflexivity. }
  constructor; [rewrite (vatom_strip z Hz); reflexivity|].
  rewrite map_app. apply Forall_app. split; [|repeat constructor].
  rewrite Forall_forall in *. intros l Hl. apply in_map_iff in Hl. destruct Hl as [l0 [<- Hl0]].
  apply in_flat_map in Hl0. destruct Hl0 as [s [Hs Hl0]]. specialize (Hshs s Hs).
  destruct Hl0 as [<-|Hl0].
  - rewrite (vhdr_strip s Hshs). apply (vblk_lines s (vhdr s) Hshs). now left.
  - apply (vblk_lines s (strip_ws l0) Hshs). right. apply in_map, Hl0.
Qed.

Lemma basis_set_idx : forall name els, Forall vel_ok els ->
  map fst (starts_idx "@BASIS_SET" (map strip_ws (vall name els))) = [0].
Proof.
  intros name els Hel. rewrite starts_idx_pf. unfold vall. cbn [map]. fold (vfirst' name).
  change (vfirst' name :: map strip_ws (flat_map vel_lines els)) with ([vfirst' name] ++ map strip_ws (flat_map vel_lines els)).
  rewrite pf_app, pf_one. destruct (vfirst_plain name) as [_ ->].
  rewrite pf_none; [reflexivity|].
  rewrite Forall_forall in *. intros l Hl. apply in_map_iff in Hl. destruct Hl as [l0 [<- Hl0]].
  apply in_flat_map in Hl0. destruct Hl0 as [zs [Hzs Hl0]].
  pose proof (vel_lines_nobs zs (Hel zs Hzs)) as HF. rewrite Forall_forall in HF. apply HF, in_map, Hl0.
Qed.

(* read_veloxchem on the writer's lines followed by any one-word last line d *)
Lemma read_h_lines : forall h name els d, vlx_ok name els -> strip_ws d = d ->
  vlx_read_electron_h h (map strip_ws (vall name els) ++ [d]) =
    if String.eqb (h (String.concat "" (map strip_ws (vall name els)))) d then inr (vlx_expected els) else inl ERuntime.
Proof.
  intros h name els d H Hd. pose proof (vlx_ok_els name els H) as Hel.
  unfold vlx_read_electron_h. rewrite pop_last_snoc, (basis_set_idx name els Hel). cbn [skipn]. rewrite Hd.
  destruct (String.eqb _ d); [|reflexivity]. cbn [negb]. apply read_data_vall, H.
Qed.

Lemma body_text : forall name els s, vlx_ok name els -> vlx_write_body name els = inr s ->
  s = unlines (vall name els) /\ splitlines s = vall name els /\
  vlx_unbroken s = String.concat "" (map strip_ws (vall name els)).
Proof.
  intros name els s H E. rewrite (write_body_vlines name els (vlx_ok_els name els H)) in E. inversion E; subst s.
  assert (Hs : splitlines (unlines (vall name els)) = vall name els) by (apply splitlines_unlines, vall_good, H).
  split; [reflexivity|]. split; [exact Hs|]. unfold vlx_unbroken. now rewrite Hs.
Qed.

(* ---------- vlx_reread, vlx_read_fixed ---------- *)
Lemma vlx_reread_exact : vlx_reread_stmt.
Proof.
  intros name els H. unfold vlx_reread. rewrite (write_body_vlines name els (vlx_ok_els name els H)). unfold bind.
  rewrite (splitlines_unlines _ (vall_good name els H)). apply read_data_vall, H.
Qed.

Lemma vlx_read_fixed : vlx_read_fixed_stmt.
Proof.
  intros h Hh name els s H E. destruct (body_text name els s H E) as [_ [Hs Hu]].
  destruct (digest_facts h Hh (vlx_unbroken s)) as [_ [_ Hd]].
  rewrite Hs, (read_h_lines h name els _ H Hd), <- Hu, String.eqb_refl. reflexivity.
Qed.

(* ---------- vlx_roundtrip_partial ---------- *)
Lemma vlx_roundtrip_partial : vlx_roundtrip_partial_stmt.
Proof.
  intros h Hh name els H. exists (unlines (vall name els)).
  pose proof (write_body_vlines name els (vlx_ok_els name els H)) as Eb.
  destruct (body_text name els _ H Eb) as [_ [_ Hu]].
  split; [exact Eb|]. split; [apply write_h_text, H|].
  unfold vlx_roundtrip_h. rewrite (write_h_text h name els H). unfold bind.
  rewrite (written_lines_v h Hh name els H), map_app. cbn [map].
  destruct (digest_facts h Hh (unlines (vall name els))) as [_ [_ Hd]]. rewrite Hd.
  rewrite (read_h_lines h name els _ H Hd), Hu. reflexivity.
Qed.

(* ---------- vlx_checksum_mismatch, vlx_roundtrip_collision_free ---------- *)
Lemma sall_lstrip : forall p s, sall p s = true -> sall p (lstrip_ws s) = true.
Proof.
  intros p; induction s as [|c s IH]; intros H; [reflexivity|]. cbn [lstrip_ws]. destruct (is_space c); [|exact H].
  cbn [sall] in H. apply andb_true_iff in H. apply IH, H.
Qed.

Lemma sall_strip : forall p s, sall p s = true -> sall p (strip_ws s) = true.
Proof. intros p s H. unfold strip_ws. rewrite sall_srev. apply sall_lstrip. rewrite sall_srev. apply sall_lstrip, H. Qed.

Lemma sall_concat : forall p l, Forall (fun s => sall p s = true) l -> sall p (String.concat "" l) = true.
Proof.
  intros p; induction l as [|x l IH]; intros H; [reflexivity|]. inversion H as [|? ? Hx Hl]; subst.
  rewrite concat_cons, sall_app, Hx, (IH Hl). reflexivity.
Qed.

Lemma vlx_checksum_mismatch : vlx_checksum_mismatch_stmt.
Proof.
  intros name els s H E. destruct (body_text name els s H E) as [Es [_ Hu]].
  assert (H1 : sall nobd (vlx_unbroken s) = true).
  { rewrite Hu. apply sall_concat. pose proof (vall_good name els H) as Hg. rewrite Forall_forall in *.
    intros l Hl. apply in_map_iff in Hl. destruct Hl as [l0 [<- Hl0]]. apply sall_strip, Hg, Hl0. }
  assert (H2 : sall nobd s = false).
  { rewrite Es. unfold vall. rewrite unlines_cons, !sall_app. change (sall nobd nl1) with false.
    cbn [andb]. apply andb_false_r. }
  intros Eq. rewrite Eq in H1. congruence.
Qed.

Lemma vlx_roundtrip_collision_free : vlx_roundtrip_collision_free_stmt.
Proof.
  intros h Hh Hinj name els H. destruct (vlx_roundtrip_partial h Hh name els H) as [s [Eb [_ ->]]].
  destruct (String.eqb_spec (h (vlx_unbroken s)) (h s)) as [E|_]; [|reflexivity].
  exfalso. exact (vlx_checksum_mismatch name els s H Eb (Hinj _ _ E)).
Qed.

(* ================================================================== *)
(* 9. the concrete instance, the refutation, the conditions that cannot be dropped *)
(* ================================================================== *)
Example vlx_example : vlx_example_stmt.
Proof.
  split.
  { unfold vlx_ok, vx_els. split; [reflexivity|]. split.
    - cbn [map fst]. repeat constructor; cbn [In]; intros H; repeat (destruct H as [H|H]; [discriminate H|]); exact H.
    - repeat constructor; cbn [fst snd]; try lia; try discriminate;
        try (eexists; split; [reflexivity|]; first [lia | reflexivity]); reflexivity. }
  split; [vm_compute; reflexivity|]. split; [vm_compute; reflexivity|]. split; [vm_compute; reflexivity|].
  split; [vm_compute; reflexivity|]. split; [vm_compute; reflexivity|]. split; [vm_compute; reflexivity|].
  split; [vm_compute; reflexivity|]. vm_compute; reflexivity.
Qed.

Lemma vlx_roundtrip_refuted : vlx_roundtrip_refuted_stmt.
Proof.
  intros Hall. destruct vlx_example as [Hok [_ [_ [_ [_ [Hr _]]]]]].
  rewrite (Hall "6-31G" vx_els Hok) in Hr. discriminate Hr.
Qed.

Lemma vlx_reread_fused : vlx_reread_fused_stmt.
Proof. vm_compute. split; reflexivity. Qed.
Lemma vlx_reread_general : vlx_reread_general_stmt.
Proof. vm_compute. split; reflexivity. Qed.
Lemma vlx_reread_nocoef : vlx_reread_nocoef_stmt.
Proof. vm_compute. reflexivity. Qed.
Lemma vlx_am_bound : vlx_am_bound_stmt.
Proof. vm_compute. repeat split; reflexivity. Qed.
Lemma vlx_reread_noam : vlx_reread_noam_stmt.
Proof. vm_compute. reflexivity. Qed.
Lemma vlx_reread_noprim : vlx_reread_noprim_stmt.
Proof. vm_compute. reflexivity. Qed.
Lemma vlx_reread_ragged : vlx_reread_ragged_stmt.
Proof. vm_compute. reflexivity. Qed.
Lemma vlx_floating : vlx_floating_stmt.
Proof. vm_compute. repeat split; reflexivity. Qed.
Lemma vlx_elements_exact : vlx_elements_stmt.
Proof. vm_compute. repeat split; reflexivity. Qed.
Lemma vlx_name : vlx_name_stmt.
Proof.
  split; [vm_compute; reflexivity|]. split; [vm_compute; reflexivity|].
  repeat (apply Forall_cons; [vm_compute; reflexivity|]). apply Forall_nil.
Qed.
Lemma vlx_reread_empty : vlx_reread_empty_stmt.
Proof. vm_compute. repeat split; reflexivity. Qed.
Lemma vlx_reread_noshell : vlx_reread_noshell_stmt.
Proof. vm_compute. reflexivity. Qed.
Lemma vlx_reread_cartesian : vlx_reread_cartesian_stmt.
Proof. vm_compute. reflexivity. Qed.
Lemma vlx_read_hand : vlx_read_hand_stmt.
Proof. vm_compute. repeat split; reflexivity. Qed.

Print Assumptions vlx_md5_digest.
Print Assumptions vlx_write_total.
Print Assumptions vlx_no_number_lost.
Print Assumptions vlx_reread_exact.
Print Assumptions vlx_read_fixed.
Print Assumptions vlx_roundtrip_partial.
Print Assumptions vlx_checksum_mismatch.
Print Assumptions vlx_roundtrip_collision_free.
Print Assumptions vlx_example.
Print Assumptions vlx_roundtrip_refuted.
Print Assumptions vlx_reread_fused.
Print Assumptions vlx_reread_general.
Print Assumptions vlx_reread_nocoef.
Print Assumptions vlx_am_bound.
Print Assumptions vlx_reread_noam.
Print Assumptions vlx_reread_noprim.
Print Assumptions vlx_reread_ragged.
Print Assumptions vlx_floating.
Print Assumptions vlx_elements_exact.
Print Assumptions vlx_name.
Print Assumptions vlx_reread_empty.
Print Assumptions vlx_reread_noshell.
Print Assumptions vlx_reread_cartesian.
Print Assumptions vlx_read_hand.
