(* Statements for C08 (well-formedness of what get_basis hands out) and for the translated option pipeline (C02/C07/C08).
   Definitions only. *)
From BSE Require Import Model.Val Model.Num Model.Basis Model.Manip Model.ManipS Model.Pipeline Gen.GenApi Gen.GenConsts.
From BSE Require Import Proofs.FSDefs.
Set Implicit Arguments.

Section C08.
  Variable N : Type.
  Variable is0 : N -> bool.
  Variable same : N -> N -> bool.
  Variable eqN : N -> N -> bool.
  Notation shell := (shell N).

  (* no primitive is unused: every exponent has a non-zero coefficient in some contraction *)
  Definition rows_used (s : shell) : Prop :=
    forall i, i < List.length (exps s) -> exists c x, In c (coefs s) /\ nth_error c i = Some x /\ is0 x = false.
  (* the validator's per-shell rules that pruning establishes *)
  Definition pruned_shell (s : shell) : Prop := wf_shell is0 s /\ distinct_exps same s /\ rows_used s.
  (* no two structurally equal shells *)
  Definition no_equal_shells (shs : list shell) : Prop :=
    forall i j s t, nth_error shs i = Some s -> nth_error shs j = Some t -> shell_eqb eqN s t = true -> i = j.

  (* whatever (rectangular, not entirely zero) shells go in, prune_shells establishes the rules *)
  Definition prune_post_stmt : Prop :=
    forall shs out, Forall (fun s => rect s /\ nz_cols is0 s /\ am_ok s) shs ->
      prune_shells is0 same eqN shs = inr out ->
      Forall pruned_shell out /\ no_equal_shells out.

  Definition pruned_basis (b : basis N) : Prop :=
    Forall (fun kv => match eshells (snd kv) with
                      | Some shs => Forall pruned_shell shs /\ no_equal_shells shs
                      | None => True end) (belems b).
  Definition prune_basis_post_stmt : Prop :=
    forall b b', wf_basis is0 b -> prune_basis is0 same eqN b = inr b' -> pruned_basis b'.
End C08.

(* ---------------- the translated option pipeline of get_basis, at the decimal-string instance ---------------- *)
Definition flags3 (ug us mg : bool) : opts :=
  {| o_flags := [("uncontract_general", ug); ("uncontract_spdf", us); ("make_general", mg)]; o_counts := []; o_aux := 0 |}.

(* C02: every subset of {uncontract_general, uncontract_spdf, make_general}, run through the pipeline as it is written in
   api.py now (Gen/GenApi.v), preserves the function set and every other field, and the result obeys the pruning rules *)
Definition pipeline3_FS_stmt : Prop :=
  forall ug us mg (b b' : sbasis),
    wf_basis is0_s b -> basis_fused_low 0 b ->
    run_get_basis_options (flags3 ug us mg) b = inr b' ->
    basis_FSeq is0_s same_s b' b /\ wf_basis is0_s b' /\
    (orb ug (orb us mg) = true -> pruned_basis is0_s same_s String.eqb b').

(* the six contraction flags without optimize_general: the result is well-formed (elements may be left without functions by
   remove_free_primitives) *)
Definition flags5 (rf useg ug us mg : bool) : opts :=
  {| o_flags := [("remove_free_primitives", rf); ("uncontract_segmented", useg); ("uncontract_general", ug);
                 ("uncontract_spdf", us); ("make_general", mg)]; o_counts := []; o_aux := 0 |}.
Definition pipeline5_wf_stmt : Prop :=
  forall rf useg ug us mg (b b' : sbasis),
    wf_basis is0_s b -> basis_fused_low 0 b ->
    run_get_basis_options (flags5 rf useg ug us mg) b = inr b' ->
    wf_basis is0_s b' /\ brest b' = brest b /\ map fst (belems b') = map fst (belems b) /\
    Forall2 (fun kv1 kv2 => erest (snd kv1) = erest (snd kv2)) (belems b') (belems b) /\
    (orb rf (orb useg (orb ug (orb us mg))) = true -> pruned_basis is0_s same_s String.eqb b').

(* uncontract_segmented through the pipeline: the function set is one unit function per (momentum, primitive) *)
Definition unit_funs_of (shs : list sshell) (f : cfun string) : Prop :=
  exists s l x, In s shs /\ In l (am s) /\ In x (exps s) /\ feq is0_s same_s f (l, [(x, lit_unc_seg_one)]).
Definition pipeline_unc_seg_stmt : Prop :=
  forall (b b' : sbasis),
    wf_basis is0_s b ->
    run_get_basis_options (flags5 false true false false false) b = inr b' ->
    map fst (belems b') = map fst (belems b) /\
    Forall2 (fun kv1 kv2 => erest (snd kv1) = erest (snd kv2) /\
                            match eshells (snd kv1), eshells (snd kv2) with
                            | Some out, Some shs => forall f, FSin is0_s same_s f out <-> unit_funs_of shs f
                            | None, None => True
                            | _, _ => False
                            end) (belems b') (belems b).
