(* Proofs of the statements of Proofs/RicdwrapDefs.v.  The element block of write_ricdwrap is the one of write_molcas plus the
   nucleus line, so the lemmas of Proofs/MolcasSpec.v about the shells (shl, write_shell_lines_mc, shl_good, number_in_shl),
   the contraction string, max_am and the cartesian letters are reused. *)
From BSE Require Import Model.Val Model.Text Model.Num Model.Basis Model.Manip Model.Matrix Gen.GenLut Model.Lut
                        Model.Elements Model.Nwchem Model.NwchemEcp Model.Molcas Model.Ricdwrap
                        Proofs.MatrixDefs Proofs.NwchemDefs Proofs.MolcasDefs Proofs.RicdwrapDefs.
From Coq Require Import NArith Nnat Znat.
From BSE Require Import Proofs.HeaderSpec Proofs.PruneFS Proofs.MatrixSpec Proofs.NwchemSpec Proofs.NwchemEcpSpec
                        Proofs.TurbomoleSpec Proofs.G94Spec Proofs.GamessUsSpec Proofs.MolcasSpec.

(* ================================================================== *)
(* 1. the lines of an element                                          *)
(* ================================================================== *)
Definition nuc_line (z : Z) : string := symz z +++ " 0.0 0.0 " +++ ricdwrap_zpos z.

Definition rel (sord : list string -> list string) (zd : Z * option (list sshell)) : list string :=
  let z := fst zd in
  match snd zd with
  | None => ["Basis set"; "* " +++ gname z +++ "  "; " " +++ symz z +++ "    / inline"; nuc_line z; "End of basis set"; ""]
  | Some shs =>
    "Basis set" :: ("* " +++ gname z +++ "  " +++ cs_gen false shs) :: (" " +++ symz z +++ "    / inline") ::
    charge_line ".00   " z shs :: flat_map (shl true) shs ++ nuc_line z :: cart_line (cart_of sord shs) ++
    ["End of basis set"; ""]
  end.

Definition hdr_lines : list string := [""; "&GATEWAY"; "  ricd"; "  accd"; "  cdthreshold=1.0d-4"].
Definition rall (sord : list string -> list string) (els : list (Z * option (list sshell))) : list string :=
  hdr_lines ++ flat_map (rel sord) els.

Definition rel_wf (zd : Z * option (list sshell)) : Prop :=
  (1 <= fst zd <= 120)%Z /\ match snd zd with None => True | Some shs => shs <> [] /\ Forall mc_shell_wf shs end.

Lemma write_element_lines_r : forall sord zd, rel_wf zd -> ricdwrap_write_element sord zd = inr (unlines (rel sord zd)).
Proof.
  intros sord [z [shs|]] [Hz Hd]; cbn [fst snd] in *.
  - destruct Hd as [Hne Hshs].
    destruct (name_facts z Hz) as [En _]. destruct (sym_facts94 z Hz) as [Es _].
    destruct (cs_gen_facts false shs Hshs) as [Ec2 _].
    destruct (cartesian_ok sord shs Hshs) as [Ecart _].
    unfold ricdwrap_write_element. rewrite En. unfold bind. rewrite Es. cbn [option_map]. rewrite Ec2.
    rewrite (max_am_ok_mc shs Hne Hshs), (body_lines true shs Hshs), Ecart.
    unfold ok, rel, charge_line, gname, nuc_line. cbn [fst snd]. f_equal.
    rewrite !unlines_cons, unlines_app, unlines_cons, unlines_app, unlines_flat_map.
    destruct (cart_of sord shs) as [|c0 cs]; cbn [cart_line]; rewrite ?unlines_cons; cbn [unlines map String.concat];
      rewrite ?sapp_assoc; reflexivity.
  - destruct (name_facts z Hz) as [En _]. destruct (sym_facts94 z Hz) as [Es _].
    unfold ricdwrap_write_element. rewrite En. unfold bind. rewrite Es. cbn [option_map contraction_string].
    unfold ok, bind, rel, gname, nuc_line. cbn [fst snd]. f_equal.
    rewrite !unlines_cons. cbn [unlines map String.concat]. rewrite ?sapp_assoc. reflexivity.
Qed.

Lemma ricdwrap_ok_els : forall els, ricdwrap_ok els -> Forall rel_wf els.
Proof. intros els H. exact H. Qed.

Lemma header_lines_eq : ricdwrap_header = unlines hdr_lines.
Proof. reflexivity. Qed.

Lemma write_lines_r : forall sord els, ricdwrap_ok els -> ricdwrap_write_all sord els = inr (unlines (rall sord els)).
Proof.
  intros sord els H. unfold ricdwrap_write_all.
  rewrite (mapM_map_ok _ _ _ (fun zd => unlines (rel sord zd)) els).
  - unfold bind, ok, rall. rewrite unlines_app, unlines_flat_map, header_lines_eq. reflexivity.
  - intros zd Hin. apply write_element_lines_r. apply ricdwrap_ok_els in H. rewrite Forall_forall in H. apply H, Hin.
Qed.

(* ---------- ricdwrap_write_total ---------- *)
Lemma ricdwrap_write_total : ricdwrap_write_total_stmt.
Proof. intros sord els H. eexists. apply write_lines_r, H. Qed.

(* ================================================================== *)
(* 2. no line contains a line boundary                                 *)
(* ================================================================== *)
Lemma symz_good120 : forall z, (1 <= z <= 120)%Z -> good_line (symz z).
Proof. intros z Hz. destruct (sym_facts94 z Hz) as [_ [_ [H _]]]. now apply alpha_tok_good. Qed.
Lemma gname_good120 : forall z, (1 <= z <= 120)%Z -> good_line (gname z).
Proof. intros z Hz. destruct (name_facts z Hz) as [_ [_ [H _]]]. now apply alpha_tok_good. Qed.

Lemma nuc_line_good : forall z, (1 <= z <= 120)%Z -> good_line (nuc_line z).
Proof.
  intros z Hz. unfold nuc_line, ricdwrap_zpos. apply good_app; [apply symz_good120, Hz|].
  apply good_app; [reflexivity|]. apply good_app; [apply Z_to_string_good | reflexivity].
Qed.

Lemma rel_good : forall sord zd, sord_ok sord -> rel_wf zd -> Forall good_line (rel sord zd).
Proof.
  intros sord [z [shs|]] Hsord [Hz Hd]; cbn [fst snd] in *; unfold rel; cbn [fst snd].
  - destruct Hd as [Hne Hshs]. destruct (cs_gen_facts false shs Hshs) as [_ G2].
    constructor; [reflexivity|]. constructor; [|constructor; [|constructor]].
    + apply (good_app "* "); [reflexivity|]. apply good_app; [apply gname_good120, Hz | apply good_app; [reflexivity | exact G2]].
    + apply (good_app " "); [reflexivity|]. apply good_app; [apply symz_good120, Hz | reflexivity].
    + apply charge_line_good; reflexivity.
    + apply Forall_app. split; [apply flat_shl_good, Hshs|]. constructor; [apply nuc_line_good, Hz|].
      apply Forall_app. split; [|repeat constructor].
      pose proof (cart_good sord shs Hsord Hshs) as Gc. unfold cart_line. destruct (cart_of sord shs); [constructor|].
      repeat constructor. apply (good_app "cartesian "); [reflexivity | exact Gc].
  - constructor; [reflexivity|]. constructor; [|constructor; [|constructor; [|repeat constructor]]].
    + apply (good_app "* "); [reflexivity|]. apply good_app; [apply gname_good120, Hz | reflexivity].
    + apply (good_app " "); [reflexivity|]. apply good_app; [apply symz_good120, Hz | reflexivity].
    + apply nuc_line_good, Hz.
Qed.

Lemma rall_good : forall sord els, sord_ok sord -> ricdwrap_ok els -> Forall good_line (rall sord els).
Proof.
  intros sord els Hs H. apply ricdwrap_ok_els in H. unfold rall. apply Forall_app. split; [repeat constructor|].
  apply flat_map_Forall. intros zd Hin. rewrite Forall_forall in H. apply rel_good; [exact Hs | apply H, Hin].
Qed.

Lemma written_lines_r : forall sord els t, sord_ok sord -> ricdwrap_ok els -> ricdwrap_write_all sord els = inr t ->
  splitlines t = rall sord els.
Proof.
  intros sord els t Hs H E. rewrite (write_lines_r sord els H) in E. inversion E; subst.
  apply splitlines_unlines, rall_good; assumption.
Qed.

(* ---------- ricdwrap_no_number_lost ---------- *)
Lemma ricdwrap_no_number_lost : ricdwrap_no_number_lost_stmt.
Proof.
  intros sord els t Hsord H E x [zd [shs [s [Hzd [Hsome [Hs Hx]]]]]].
  rewrite (written_lines_r sord els t Hsord H E).
  pose proof (ricdwrap_ok_els els H) as Hel. rewrite Forall_forall in Hel. destruct (Hel zd Hzd) as [_ Hd].
  rewrite Hsome in Hd. destruct Hd as [_ Hshs]. rewrite Forall_forall in Hshs.
  destruct (number_in_shl true s x (Hshs s Hs) Hx) as [line [Hl Ht]]. exists line. split; [|exact Ht].
  unfold rall. apply in_or_app. right. apply in_flat_map. exists zd. split; [exact Hzd|]. unfold rel. rewrite Hsome. do 4 right.
  apply in_or_app. left. apply in_flat_map. exists s. split; [exact Hs | exact Hl].
Qed.

(* ================================================================== *)
(* 3. closed statements                                                *)
(* ================================================================== *)
Lemma ricdwrap_ecp_ignored : ricdwrap_ecp_ignored_stmt.
Proof.
  split.
  - eexists. split; [vm_compute; reflexivity|]. split; vm_compute; [tauto | reflexivity].
  - vm_compute. reflexivity.
Qed.

Lemma ricdwrap_empty : ricdwrap_empty_stmt.
Proof. vm_compute. reflexivity. Qed.
Lemma ricdwrap_noshell : ricdwrap_noshell_stmt.
Proof. vm_compute. reflexivity. Qed.
Lemma ricdwrap_elements : ricdwrap_elements_stmt.
Proof. split; vm_compute; reflexivity. Qed.
Lemma ricdwrap_am : ricdwrap_am_stmt.
Proof. split; vm_compute; reflexivity. Qed.
Lemma ricdwrap_floating : ricdwrap_floating_stmt.
Proof. vm_compute. reflexivity. Qed.
Lemma ricdwrap_ragged : ricdwrap_ragged_stmt.
Proof. eexists. split; vm_compute; reflexivity. Qed.

(* ---------- the store instance ---------- *)
Ltac wf_shell := unfold mc_shell_wf; cbn [am exps coefs]; repeat split; try discriminate; try lia;
                 repeat (constructor; try lia; try reflexivity).

Lemma ricdwrap_example : ricdwrap_example_stmt.
Proof.
  split.
  - unfold ricdwrap_ok, ricdwrap_ex_els. repeat (constructor; cbn [fst snd]; try lia; try discriminate); wf_shell.
  - vm_compute. reflexivity.
Qed.

Print Assumptions ricdwrap_write_total.
Print Assumptions ricdwrap_no_number_lost.
Print Assumptions ricdwrap_ecp_ignored.
Print Assumptions ricdwrap_empty.
Print Assumptions ricdwrap_noshell.
Print Assumptions ricdwrap_elements.
Print Assumptions ricdwrap_am.
Print Assumptions ricdwrap_floating.
Print Assumptions ricdwrap_ragged.
Print Assumptions ricdwrap_example.
