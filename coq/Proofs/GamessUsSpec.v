(* Proofs of the statements of Proofs/GamessUsDefs.v: the GAMESS-US electron section written by write_gamess_us is read
   back by read_gamess_us exactly for s .. i shells (gus_roundtrip_exact); for higher momenta the reader silently drops or
   relabels shells (gus_roundtrip_letters, gus_roundtrip_high), a fused sp shell makes it fail (gus_roundtrip_sp). *)
From BSE Require Import Model.Val Model.Text Model.Num Model.Basis Model.Manip Model.Matrix Gen.GenLut Model.Lut
                        Model.Elements Model.Nwchem Model.NwchemEcp Model.G94 Model.GamessUs
                        Proofs.MatrixDefs Proofs.NwchemDefs Proofs.NwchemEcpDefs Proofs.G94Defs Proofs.GamessUsDefs
                        Proofs.C20Finite.
From Coq Require Import NArith Nnat Znat.
From BSE Require Import Proofs.HeaderSpec Proofs.PruneFS Proofs.MatrixSpec Proofs.NwchemSpec Proofs.NwchemEcpSpec
                        Proofs.TurbomoleSpec Proofs.G94Spec.

(* ================================================================== *)
(* 1. finite facts about the tables of lut.py                          *)
(* ================================================================== *)
(* element names 1..120: the upper-case name is non-empty, letters only, and mapped back to z *)
Definition lname (z : Z) : string := match element_name_from_Z z false with inr n => n | inl _ => "" end.
Definition gname (z : Z) : string := upper (lname z).
Definition name_check_gus (z : Z) : bool :=
  match element_name_from_Z z false with
  | inr n => negb (is_empty (upper n)) && sall is_alpha (upper n) && res_eqb Z.eqb (element_Z_from_name (upper n)) z
  | inl _ => false
  end.
Lemma name_sweep_gus : forallb name_check_gus (zrange 1 120) = true.
Proof. vm_compute. reflexivity. Qed.

Lemma name_facts : forall z, (1 <= z <= 120)%Z ->
  element_name_from_Z z false = inr (lname z) /\ gname z <> "" /\ sall is_alpha (gname z) = true /\
  element_Z_from_name (gname z) = inr z.
Proof.
  intros z Hz. assert (Hin : In z (zrange 1 120)) by (apply zrange_In; lia).
  pose proof (proj1 (forallb_forall _ _) name_sweep_gus z Hin) as H. unfold name_check_gus in H.
  unfold gname, lname. destruct (element_name_from_Z z false) as [e|n]; [discriminate|].
  rewrite !andb_true_iff in H. destruct H as [[H1 H2] H3].
  split; [reflexivity|]. split; [intros E; rewrite E in H1; discriminate H1|]. split; [exact H2 | now apply res_eqb_Z].
Qed.

(* the letter the writer prints for l, and what the reader makes of it (gus_letter_back) *)
Definition gletter (l : Z) : ascii :=
  match amint_to_char [l] true true with inr (String c EmptyString) => upper_char c | _ => "?"%char end.
Definition letter_check (l : Z) : bool :=
  match amint_to_char [l] true true with
  | inr (String c EmptyString) =>
    let C := upper_char c in
    is_alpha C &&
    match gus_letter_back l with
    | Some a => sany (Ascii.eqb C) gus_shell_letters && res_eqb list_Z_eqb (amchar_to_int (String C "") false) [a]
    | None => negb (sany (Ascii.eqb C) gus_shell_letters)
    end
  | _ => false
  end.
Lemma letter_sweep : forallb letter_check (zrange 0 26) = true.
Proof. vm_compute. reflexivity. Qed.

Lemma letter_facts : forall l, (0 <= l <= 25)%Z ->
  amint_to_char [l] true true = inr (String (lower_char (gletter l)) "") /\ upper_char (lower_char (gletter l)) = gletter l /\
  is_alpha (gletter l) = true /\
  match gus_letter_back l with
  | Some a => sany (Ascii.eqb (gletter l)) gus_shell_letters = true /\ amchar_to_int (String (gletter l) "") false = inr [a]
  | None => sany (Ascii.eqb (gletter l)) gus_shell_letters = false
  end.
Proof.
  intros l Hl. assert (Hin : In l (zrange 0 26)) by (apply zrange_In; lia). revert Hin. clear Hl.
  cbn [zrange Z.add]. cbn [In]. intros H.
  repeat (destruct H as [H|H]; [subst l; vm_compute; repeat split; reflexivity|]). destruct H.
Qed.

Lemma letter_back_low : forall l, (0 <= l <= 6)%Z -> gus_letter_back l = Some l.
Proof.
  intros l Hl. assert (H : (l = 0 \/ l = 1 \/ l = 2 \/ l = 3 \/ l = 4 \/ l = 5 \/ l = 6)%Z) by lia.
  repeat (destruct H as [H|H]; [subst l; vm_compute; reflexivity|]). subst l. vm_compute. reflexivity.
Qed.

Lemma gus_letter_table : gus_letter_table_stmt.
Proof. vm_compute. reflexivity. Qed.

Lemma gus_letter_exact : gus_letter_exact_stmt.
Proof.
  intros l Hl. assert (Hin : In l (zrange 0 26)) by (apply zrange_In; lia). clear Hl.
  cbn [zrange Z.add] in Hin. cbn [In] in Hin.
  repeat (destruct Hin as [Hin|Hin];
          [subst l; split; [intros H; first [lia | vm_compute in H; discriminate H]
                           | intros H; first [vm_compute; reflexivity | lia]]|]).
  destruct Hin.
Qed.

(* ================================================================== *)
(* 2. the lines the writer prints                                      *)
(* ================================================================== *)
Definition shell_wf (s : sshell) : Prop := gus_shell_wf 25 s.
Definition el_wf (zs : Z * list sshell) : Prop := (1 <= fst zs <= 120)%Z /\ Forall shell_wf (snd zs).

Definition gl (s : sshell) : Z := hd 0%Z (am s).
Definition gcol (s : sshell) : list string := hd [] (coefs s).
Definition gpps : list Z := [0; 12; 35]%Z.
Definition grow (t : Z * string * string) : string :=
  match write_row (cellrow t) gpps true "" with inr l => l | inl _ => "" end.
Definition gtrip (s : sshell) : list (Z * string * string) := trip (zrange 1 (List.length (exps s))) (exps s) (gcol s).
Definition grows (s : sshell) : list string := map grow (gtrip s).
Definition ghdr (s : sshell) : string := String (gletter (gl s)) "" +++ "   " +++ nat_str (List.length (exps s)).
Definition gsh_lines (s : sshell) : list string := ghdr s :: grows s.
Definition gel_lines (zs : Z * list sshell) : list string := "" :: gname (fst zs) :: flat_map gsh_lines (snd zs).
Definition gbody (els : list (Z * list sshell)) : list string := "$DATA" :: flat_map gel_lines els ++ [""].
Definition glines (els : list (Z * list sshell)) : list string := gbody els ++ ["$END"].

Lemma shell_wf_parts : forall s, shell_wf s ->
  am s = [gl s] /\ (0 <= gl s <= 25)%Z /\ coefs s = [gcol s] /\ List.length (gcol s) = List.length (exps s) /\
  Forall floating (gcol s) /\ Forall (fun x => parse_num x <> None) (gcol s) /\ Forall floating (exps s).
Proof.
  intros s [[l [Ea Hl]] [[c [Ec [Hlen [Hf Hp]]]] He]]. unfold gl, gcol. rewrite Ea, Ec. cbn [hd].
  repeat split; try assumption; lia.
Qed.

Lemma grow_facts : forall t, trip_ok t ->
  write_row (cellrow t) gpps true "" = inr (grow t) /\ good_line (grow t) /\ tokens_acc (grow t) "" = tokrow t.
Proof.
  intros t Ht. destruct (cellrow_ok t Ht) as [Hok Hasc].
  destruct (write_row_total (cellrow t) gpps true "" Hok) as [line Hl].
  { destruct t as [[x y] z]. cbn. lia. }
  unfold grow. rewrite Hl. split; [reflexivity|]. split.
  - apply (write_row_chars nobd eq_refl (cellrow t) gpps true "" line); [|reflexivity|exact Hl].
    rewrite Forall_forall in *. intros c Hc. apply cell_nobd; [apply Hok | apply Hasc]; exact Hc.
  - rewrite (write_row_tokens_gen _ _ _ _ _ Hok (fun _ => eq_refl) Hl). destruct t as [[x y] z]. reflexivity.
Qed.

Lemma trip_all_ok : forall r g c, Forall floating g -> Forall floating c -> Forall trip_ok (trip r g c).
Proof.
  intros r g c Hg Hc. rewrite Forall_forall in *. intros [[x y] z] Hin.
  destruct (trip_in _ _ _ _ _ _ Hin) as [_ [Hy Hz]]. split; cbn [fst snd]; [apply Hg, Hy | apply Hc, Hz].
Qed.

Lemma gtrip_ok : forall s, shell_wf s -> Forall trip_ok (gtrip s).
Proof.
  intros s Hs. destruct (shell_wf_parts s Hs) as [_ [_ [_ [_ [Hf [_ He]]]]]]. apply trip_all_ok; assumption.
Qed.

Lemma gcols_eq : forall s, shell_wf s ->
  gus_cols s = [map CInt (zrange 1 (List.length (exps s))); map CStr (exps s); map CStr (gcol s)].
Proof. intros s Hs. destruct (shell_wf_parts s Hs) as [_ [_ [Ec _]]]. unfold gus_cols. rewrite Ec. reflexivity. Qed.

Lemma write_matrix_gus : forall s, shell_wf s ->
  leftpad_check (gus_cols s) gpps = inr tt /\ write_matrix (gus_cols s) gpps false = inr (unlines (grows s)).
Proof.
  intros s Hs. pose proof (gtrip_ok s Hs) as Ht. rewrite (gcols_eq s Hs).
  destruct (shell_wf_parts s Hs) as [_ [_ [_ [_ [Hf [_ He]]]]]]. unfold floating in *. split.
  - unfold gpps. cbn [leftpad_check].
    destruct (mapM_find_point (map CInt (zrange 1 (List.length (exps s))))) as [l1 ->].
    { rewrite Forall_forall. intros c Hc. apply in_map_iff in Hc. destruct Hc as [x [<- _]]. exact I. }
    destruct (mapM_find_point (map CStr (exps s))) as [l2 ->]; [apply floats_cells, He|].
    destruct (mapM_find_point (map CStr (gcol s))) as [l3 ->]; [apply floats_cells, Hf|].
    reflexivity.
  - unfold write_matrix, transpose_cells. rewrite transpose_trip. fold (gtrip s).
    rewrite (mapM_map_ok2 _ _ _ (fun row => write_row row gpps true "") cellrow grow (gtrip s)).
    + reflexivity.
    + intros t Hin. rewrite Forall_forall in Ht. apply (grow_facts t (Ht t Hin)).
Qed.

Lemma grows_good : forall s, shell_wf s -> Forall good_line (grows s).
Proof.
  intros s Hs. pose proof (gtrip_ok s Hs) as Ht. unfold grows. rewrite Forall_forall in *. intros l Hl.
  apply in_map_iff in Hl. destruct Hl as [t [<- Hin]]. apply (grow_facts t (Ht t Hin)).
Qed.

Lemma pps_gus : forall s, shell_wf s -> gus_point_places (List.length (coefs s) + 2) = gpps.
Proof. intros s Hs. destruct (shell_wf_parts s Hs) as [_ [_ [Ec _]]]. rewrite Ec. reflexivity. Qed.

Lemma write_shell_lines_gus : forall s, shell_wf s -> gus_write_shell s = inr (unlines (gsh_lines s)).
Proof.
  intros s Hs. destruct (write_matrix_gus s Hs) as [Hl Hw]. destruct (shell_wf_parts s Hs) as [Ea [Hr _]].
  destruct (letter_facts (gl s) Hr) as [E [Eu _]].
  unfold gus_write_shell. rewrite (pps_gus s Hs), Ea, E, Hl, Hw. unfold bind, ok.
  unfold gsh_lines, ghdr. rewrite unlines_cons. unfold upper. cbn [smap]. rewrite Eu, !sapp_assoc. reflexivity.
Qed.

Lemma write_element_lines_gus : forall zs, el_wf zs -> gus_write_element zs = inr (unlines (gel_lines zs)).
Proof.
  intros [z shs] [Hz Hshs]. cbn [fst snd] in *. destruct (name_facts z Hz) as [En _].
  unfold gus_write_element. rewrite En. unfold bind.
  rewrite (mapM_map_ok _ _ gus_write_shell (fun s => unlines (gsh_lines s))).
  - unfold gel_lines, ok. cbn [fst snd]. rewrite !unlines_cons, unlines_flat_map. fold (gname z). reflexivity.
  - intros s Hin. apply write_shell_lines_gus. rewrite Forall_forall in Hshs. apply Hshs, Hin.
Qed.

Lemma gus_wf_els : forall els, gus_wf els -> Forall el_wf els.
Proof. intros els [_ H]. exact H. Qed.

Definition gtext (els : list (Z * list sshell)) : string :=
  match els with [] => "" | _ => unlines (gbody els) +++ "$END" end.

Lemma write_electron_lines_gus : forall els, gus_wf els -> gus_write_electron els = inr (gtext els).
Proof.
  intros els H. pose proof (gus_wf_els els H) as Hel. destruct els as [|zs0 els0]; [reflexivity|].
  remember (zs0 :: els0) as els eqn:Eels.
  assert (E : gus_write_electron els =
              (do parts <- mapM gus_write_element els; ok ("$DATA" +++ nl1 +++ String.concat "" parts +++ nl1 +++ "$END")))
    by (rewrite Eels; reflexivity).
  rewrite E. rewrite (mapM_map_ok _ _ gus_write_element (fun zs => unlines (gel_lines zs))).
  - unfold bind, ok, gtext, gbody. rewrite Eels at 2. rewrite unlines_cons, unlines_app, unlines_flat_map.
    unfold unlines at 2. cbn [map String.concat]. rewrite !sapp_assoc. reflexivity.
  - intros zs Hin. apply write_element_lines_gus. rewrite Forall_forall in Hel. apply Hel, Hin.
Qed.

Lemma alpha_good : forall w, sall is_alpha w = true -> good_line w.
Proof. intros w H. exact (sall_impl is_alpha nobd _ alpha_nobd H). Qed.

Lemma ghdr_good : forall s, shell_wf s -> good_line (ghdr s).
Proof.
  intros s Hs. destruct (shell_wf_parts s Hs) as [_ [Hr _]]. destruct (letter_facts (gl s) Hr) as [_ [_ [Ha _]]].
  unfold ghdr, good_line. rewrite !sall_app. cbn [sall]. rewrite (alpha_nobd _ Ha).
  rewrite (sall_impl is_digit nobd _ digit_is_nobd (nat_str_digits _)). reflexivity.
Qed.

Lemma gbody_good : forall els, gus_wf els -> Forall good_line (gbody els).
Proof.
  intros els H. pose proof (gus_wf_els els H) as Hel. unfold gbody. constructor; [reflexivity|].
  apply Forall_app. split; [|repeat constructor].
  rewrite Forall_forall in *. intros l Hin. apply in_flat_map in Hin. destruct Hin as [[z shs] [Hzs Hl]].
  destruct (Hel _ Hzs) as [Hz Hshs]. cbn [fst snd] in *. unfold gel_lines in Hl. cbn [fst snd] in Hl.
  destruct Hl as [<-|[<-|Hl]]; [reflexivity | apply alpha_good, (name_facts z Hz) |].
  apply in_flat_map in Hl. destruct Hl as [s [Hs Hl]]. rewrite Forall_forall in Hshs. specialize (Hshs s Hs).
  destruct Hl as [<-|Hl]; [apply ghdr_good; assumption|].
  pose proof (grows_good s Hshs) as Hg. rewrite Forall_forall in Hg. apply Hg, Hl.
Qed.

(* splitlines of a text whose last line has no newline *)
Lemma spl_last : forall l cur b, sall nobd l = true -> (l <> "" \/ cur <> "") ->
  spl false l cur 0 b = [srev (srev l +++ cur)].
Proof.
  induction l as [|c l IH]; intros cur b H Hne.
  - cbn [spl]. destruct cur as [|a cur]; [destruct Hne; congruence|]. reflexivity.
  - cbn [sall] in H. apply andb_true_iff in H. destruct H as [Hc Hl].
    cbn [spl]. rewrite (nobd_boundary c _ Hc), (IH (String c cur) "" Hl), srev_cons, sapp_assoc; [reflexivity|].
    right. discriminate.
Qed.

Lemma splitlines_unlines_last : forall rows last, Forall good_line rows -> good_line last -> last <> "" ->
  splitlines (unlines rows +++ last) = rows ++ [last].
Proof.
  unfold splitlines, unlines. induction rows as [|r rows IH]; intros last H Hl Hne.
  - cbn [map String.concat String.append app]. rewrite (spl_last last "" "" Hl (or_introl Hne)), sapp_nil_r, srev_involutive.
    reflexivity.
  - inversion H as [|? ? Hr Hrs]; subst. cbn [map]. rewrite concat_cons. unfold nl1 at 1. rewrite !sapp_assoc.
    cbn [String.append]. rewrite (spl_line r _ "" "" Hr), sapp_nil_r, srev_involutive, (IH last Hrs Hl Hne). reflexivity.
Qed.

Lemma written_lines_gus : forall els, gus_wf els -> els <> [] -> splitlines (gtext els) = glines els.
Proof.
  intros els H Hne. destruct els as [|zs els]; [congruence|]. unfold gtext, glines.
  apply splitlines_unlines_last; [apply gbody_good, H | reflexivity | discriminate].
Qed.

(* ---------- gus_write_total, gus_ok_wf ---------- *)
Lemma gus_write_total : gus_write_total_stmt.
Proof. intros els H. eexists. apply write_electron_lines_gus, H. Qed.

Lemma shell_wf_mono : forall a b s, (a <= b)%Z -> gus_shell_wf a s -> gus_shell_wf b s.
Proof. intros a b s Hab [[l [Ea Hl]] R]. split; [exists l; split; [exact Ea | lia] | exact R]. Qed.

Lemma gus_ok_wf : gus_ok_wf_stmt.
Proof.
  intros els [Hnd H]. split; [exact Hnd|]. rewrite Forall_forall in *. intros zs Hzs. destruct (H zs Hzs) as [Hz Hs].
  split; [exact Hz|]. rewrite Forall_forall in *. intros s Hin. apply (shell_wf_mono 6 25); [lia | apply Hs, Hin].
Qed.

(* ---------- gus_no_number_lost ---------- *)
Lemma gus_no_number_lost : gus_no_number_lost_stmt.
Proof.
  intros els t H E x [zs [s [Hzs [Hs Hx]]]].
  assert (Hne : els <> []) by (intros ->; destruct Hzs).
  rewrite (write_electron_lines_gus els H) in E. inversion E; subst t. rewrite (written_lines_gus els H Hne).
  pose proof (gus_wf_els els H) as Hel. rewrite Forall_forall in Hel. destruct (Hel zs Hzs) as [_ Hshs].
  rewrite Forall_forall in Hshs. pose proof (Hshs s Hs) as Hok.
  destruct (shell_wf_parts s Hok) as [_ [_ [Ec [Hlen _]]]].
  assert (Hidx : List.length (exps s) = List.length (zrange 1 (List.length (exps s)))) by (now rewrite zrange_length).
  destruct (trip_proj (zrange 1 (List.length (exps s))) (exps s) (gcol s)) as [_ [P2 P3]]; [lia | lia |].
  assert (Ht : exists t, In t (gtrip s) /\ In x (tokrow t)).
  { destruct Hx as [Hx|[c [Hc Hx]]].
    - rewrite <- P2 in Hx. apply in_map_iff in Hx. destruct Hx as [[[a b] c] [<- Hin]]. exists (a, b, c).
      split; [exact Hin | cbn; tauto].
    - rewrite Ec in Hc. destruct Hc as [<-|[]]. rewrite <- P3 in Hx. apply in_map_iff in Hx.
      destruct Hx as [[[a b] c] [<- Hin]]. exists (a, b, c). split; [exact Hin | cbn; tauto]. }
  destruct Ht as [t [Hin Htok]]. pose proof (gtrip_ok s Hok) as Hall. rewrite Forall_forall in Hall.
  destruct (grow_facts t (Hall t Hin)) as [_ [_ Etok]].
  exists (grow t). split; [|rewrite Etok; exact Htok].
  unfold glines, gbody. apply in_or_app. left. right. apply in_or_app. left.
  apply in_flat_map. exists zs. split; [exact Hzs|]. unfold gel_lines. right. right.
  apply in_flat_map. exists s. split; [exact Hs|]. right. unfold grows. apply in_map. exact Hin.
Qed.

(* ================================================================== *)
(* 3. the three kinds of lines of the pruned file                      *)
(* ================================================================== *)
Definition sk : string := "!#$".
Definition pr (L : list string) : list string := prune_lines L sk true true.
Lemma sk_ne : is_empty sk = false.
Proof. reflexivity. Qed.

Definition name_line (l : string) : Prop := l <> "" /\ sall is_alpha l = true.
Definition hdr_line (l : string) : Prop := exists C n, l = String C "" +++ "   " +++ nat_str n /\ is_alpha C = true.
Definition numhead (l : string) : Prop := exists c r, l = String c r /\ intc c = true.
Definition el_cond (x : string) : res bool := ok (match match_element_block x with Some _ => true | None => false end).

Lemma lstrip_tok : forall w, tok_ok w -> lstrip_ws w = w.
Proof.
  intros [|c w] [Hne Hs]; [congruence|]. cbn [sany] in Hs. apply orb_false_iff in Hs. destruct Hs as [Hc _].
  now apply lstrip_head.
Qed.

Lemma strip_tok : forall w, tok_ok w -> strip_ws w = w.
Proof.
  intros w H. unfold strip_ws. rewrite (lstrip_tok w H), (lstrip_tok _ (tok_ok_srev w H)). apply srev_involutive.
Qed.

Lemma alpha_not_sk : forall c, is_alpha c = true -> sany (Ascii.eqb c) sk = false.
Proof. intros c H. all_chars c; try reflexivity; discriminate H. Qed.
Lemma intc_facts : forall c, intc c = true -> is_alpha c = false /\ is_space c = false /\ sany (Ascii.eqb c) sk = false.
Proof. intros c H. all_chars c; try (repeat split; reflexivity); discriminate H. Qed.

Lemma span_digit_all : forall a, sall is_digit a = true -> span_digit a = (a, "").
Proof.
  induction a as [|c a IH]; intros H; [reflexivity|].
  cbn [sall] in H. apply andb_true_iff in H. destruct H as [Hc Ha]. cbn [span_digit]. rewrite Hc, (IH Ha). reflexivity.
Qed.

Lemma name_line_facts : forall l, name_line l ->
  head_not_in sk l /\ strip_ws l = l /\ match_element_block l = Some l /\ match_ecp_block l = None.
Proof.
  intros l [Hne Ha]. pose proof (alpha_word_tok l Hne Ha) as Htok.
  destruct (alpha_head l Hne Ha) as [c [r [E Hc]]]. split; [|split; [|split]].
  - exists c, r. split; [exact E | apply alpha_not_sk, Hc].
  - apply strip_tok, Htok.
  - unfold match_element_block. rewrite (lstrip_tok l Htok), (span_alpha_word l Ha). rewrite E. reflexivity.
  - unfold match_ecp_block. rewrite (lstrip_tok l Htok), (span_alpha_word l Ha). rewrite E. reflexivity.
Qed.

Lemma hdr_form : forall C n, String C "" +++ "   " +++ nat_str n = String C "" +++ String " " (sp 2 +++ nat_str n).
Proof. reflexivity. Qed.

Lemma hdr_line_facts : forall l, hdr_line l ->
  head_not_in sk l /\ strip_ws l = l /\ match_element_block l = None /\ match_ecp_block l = None.
Proof.
  intros l [C [n [-> HC]]]. pose proof (alpha_not_space C HC) as Hsp.
  assert (Ha : sall is_alpha (String C "") = true) by (cbn [sall]; now rewrite HC).
  assert (Ht : tok_ok (String C "")) by (apply alpha_word_tok; [discriminate | exact Ha]).
  split; [|split; [|split]].
  - exists C, ("   " +++ nat_str n). split; [reflexivity | apply alpha_not_sk, HC].
  - apply strip_words; [exact Ht | apply nat_str_tok].
  - unfold match_element_block. rewrite hdr_form, (lstrip_word _ _ Ht), (span_alpha_word_sp _ _ Ha).
    unfold ws_only. change (String " " (sp 2 +++ nat_str n)) with (sp 3 +++ nat_str n).
    rewrite lstrip_sp, (lstrip_tok _ (nat_str_tok n)).
    destruct (nat_str n) eqn:E; [exfalso; exact (nat_str_ne _ E) | reflexivity].
  - unfold match_ecp_block. rewrite hdr_form, (lstrip_word _ _ Ht), (span_alpha_word_sp _ _ Ha). reflexivity.
Qed.

Lemma numhead_facts : forall l, numhead l ->
  head_not_in sk l /\ match_element_block l = None /\ match_ecp_block l = None.
Proof.
  intros l [c [r [-> Hc]]]. destruct (intc_facts c Hc) as [Ha [Hs Hk]]. split; [|split].
  - exists c, r. split; [reflexivity | exact Hk].
  - unfold match_element_block. rewrite (lstrip_head c r Hs). cbn [span_alpha]. rewrite Ha. reflexivity.
  - unfold match_ecp_block. rewrite (lstrip_head c r Hs). cbn [span_alpha]. rewrite Ha. reflexivity.
Qed.

Lemma shell_block_hdr : forall C n, is_alpha C = true ->
  match_shell_block (String C "" +++ "   " +++ nat_str n) =
  if sany (Ascii.eqb C) gus_shell_letters then Some (C, nat_str n) else None.
Proof.
  intros C n HC. unfold match_shell_block. cbn [String.append].
  rewrite (lstrip_head C _ (alpha_not_space C HC)).
  destruct (sany (Ascii.eqb C) gus_shell_letters); [|reflexivity].
  change (is_space " ") with true. cbv iota.
  change (String " " (String " " (String " " (nat_str n)))) with (sp 3 +++ nat_str n).
  rewrite lstrip_sp, (lstrip_tok _ (nat_str_tok n)), (span_digit_all _ (nat_str_digits n)).
  destruct (nat_str n) eqn:E; [exfalso; exact (nat_str_ne _ E) | reflexivity].
Qed.

(* ---- the written lines are of these kinds ---- *)
Lemma gname_line : forall z, (1 <= z <= 120)%Z -> name_line (gname z).
Proof. intros z Hz. destruct (name_facts z Hz) as [_ [Hne [Ha _]]]. split; assumption. Qed.

Lemma ghdr_line : forall s, shell_wf s -> hdr_line (ghdr s).
Proof.
  intros s Hs. destruct (shell_wf_parts s Hs) as [_ [Hr _]]. destruct (letter_facts (gl s) Hr) as [_ [_ [Ha _]]].
  exists (gletter (gl s)), (List.length (exps s)). split; [reflexivity | exact Ha].
Qed.

Lemma grow_numhead : forall t, trip_ok t -> numhead (strip_ws (grow t)).
Proof.
  intros t Ht. destruct (grow_facts t Ht) as [_ [_ Htok]]. destruct t as [[x y] z]. cbn [tokrow] in Htok.
  destruct (tokens_first _ _ _ Htok) as [c [t' [y' [E [El Hc]]]]].
  destruct (strip_first _ c y' El Hc) as [r Er]. destruct (int_first x) as [c0 [t0 [E0 Hc0]]].
  rewrite E0 in E. inversion E; subst c0 t0. exists c, r. split; assumption.
Qed.

(* ================================================================== *)
(* 4. prune_lines(lines, '!#$') on the written lines                    *)
(* ================================================================== *)
Definition gblk (s : sshell) : list string := ghdr s :: map strip_ws (grows s).
Definition gsec (zs : Z * list sshell) : list string := gname (fst zs) :: flat_map gblk (snd zs).

Lemma gblk_lines : forall s l, shell_wf s -> In l (gblk s) -> hdr_line l \/ numhead l.
Proof.
  intros s l Hs [<-|Hin]; [left; apply ghdr_line, Hs|]. right.
  unfold grows in Hin. rewrite map_map in Hin. apply in_map_iff in Hin. destruct Hin as [t [<- Ht]].
  pose proof (gtrip_ok s Hs) as Hall. rewrite Forall_forall in Hall. apply grow_numhead, Hall, Ht.
Qed.

Lemma gsec_tail_lines : forall shs l, Forall shell_wf shs -> In l (flat_map gblk shs) -> hdr_line l \/ numhead l.
Proof.
  intros shs l H Hin. apply in_flat_map in Hin. destruct Hin as [s [Hs Hl]]. rewrite Forall_forall in H.
  apply (gblk_lines s l (H s Hs) Hl).
Qed.

Lemma tail_line_facts : forall l, hdr_line l \/ numhead l ->
  head_not_in sk l /\ match_element_block l = None /\ match_ecp_block l = None.
Proof.
  intros l [H|H]; [destruct (hdr_line_facts l H) as [A [_ [B C]]]; repeat split; assumption | apply numhead_facts, H].
Qed.

Lemma stripped_shell : forall s, shell_wf s -> map strip_ws (gsh_lines s) = gblk s.
Proof.
  intros s Hs. unfold gsh_lines, gblk. cbn [map]. destruct (hdr_line_facts _ (ghdr_line s Hs)) as [_ [-> _]]. reflexivity.
Qed.

Lemma stripped_element : forall zs, el_wf zs -> map strip_ws (gname (fst zs) :: flat_map gsh_lines (snd zs)) = gsec zs.
Proof.
  intros [z shs] [Hz Hshs]. cbn [fst snd] in *. unfold gsec. cbn [map fst snd].
  destruct (name_line_facts _ (gname_line z Hz)) as [_ [-> _]]. f_equal.
  rewrite map_flat_map. apply flat_map_ext_in. intros s Hin. apply stripped_shell. rewrite Forall_forall in Hshs. apply Hshs, Hin.
Qed.

Lemma gsec_heads : forall zs, el_wf zs -> Forall (head_not_in sk) (gsec zs).
Proof.
  intros [z shs] [Hz Hshs]. cbn [fst snd] in *. unfold gsec. cbn [fst snd]. constructor.
  - apply (name_line_facts _ (gname_line z Hz)).
  - rewrite Forall_forall. intros l Hl. apply (tail_line_facts l (gsec_tail_lines shs l Hshs Hl)).
Qed.

Lemma pr_element : forall zs, el_wf zs -> pr (gel_lines zs) = gsec zs.
Proof.
  intros zs H. unfold pr, gel_lines.
  change ("" :: gname (fst zs) :: flat_map gsh_lines (snd zs)) with ([""] ++ (gname (fst zs) :: flat_map gsh_lines (snd zs))).
  rewrite (pr_app sk _ _ sk_ne). change (prune_lines [""] sk true true) with (@nil string). cbn [app].
  rewrite (pr_keep sk _ sk_ne); rewrite (stripped_element zs H); [reflexivity | apply gsec_heads, H].
Qed.

Lemma pr_flat_map : forall (A : Type) (f : A -> list string) l, pr (flat_map f l) = flat_map (fun x => pr (f x)) l.
Proof.
  intros A f; induction l as [|a l IH]; [reflexivity|]. cbn [flat_map]. unfold pr in *. now rewrite (pr_app sk _ _ sk_ne), IH.
Qed.

Lemma pruned_lines_gus : forall els, gus_wf els -> gus_prune (glines els) = concat (map gsec els).
Proof.
  intros els H. pose proof (gus_wf_els els H) as Hel. change (gus_prune (glines els)) with (pr (glines els)).
  unfold glines, gbody.
  change ("$DATA" :: flat_map gel_lines els ++ [""]) with (["$DATA"] ++ (flat_map gel_lines els ++ [""])).
  unfold pr. rewrite !(pr_app sk _ _ sk_ne).
  change (prune_lines ["$DATA"] sk true true) with (@nil string).
  change (prune_lines [""] sk true true) with (@nil string).
  change (prune_lines ["$END"] sk true true) with (@nil string).
  cbn [app]. rewrite !app_nil_r. fold (pr (flat_map gel_lines els)).
  rewrite pr_flat_map, <- flat_map_concat_map. apply flat_map_ext_in.
  intros zs Hin. apply pr_element. rewrite Forall_forall in Hel. apply Hel, Hin.
Qed.

(* ================================================================== *)
(* 5. the partition into element blocks                                *)
(* ================================================================== *)
Lemma gsec_shape : forall zs, el_wf zs -> block_shape el_cond (gsec zs).
Proof.
  intros [z shs] [Hz Hshs]. cbn [fst snd] in *. exists (gname z), (flat_map gblk shs). split; [reflexivity|]. split.
  - unfold el_cond. destruct (name_line_facts _ (gname_line z Hz)) as [_ [_ [-> _]]]. reflexivity.
  - rewrite Forall_forall. intros l Hl. unfold el_cond.
    destruct (tail_line_facts l (gsec_tail_lines shs l Hshs Hl)) as [_ [-> _]]. reflexivity.
Qed.

Lemma partition_sections_gus : forall els, Forall el_wf els ->
  partition_lines (concat (map gsec els)) el_cond true 1 0 0 = inr (map gsec els).
Proof.
  intros els H. unfold partition_lines. rewrite (part_blocks el_cond (map gsec els) [] []).
  - cbn [flush app]. unfold bind. rewrite existsb_false; [reflexivity|].
    intros b Hb. apply in_map_iff in Hb. destruct Hb as [zs [<- Hzs]]. apply Nat.ltb_ge. unfold gsec. cbn [List.length]. lia.
  - rewrite Forall_forall in *. intros b Hb. apply in_map_iff in Hb. destruct Hb as [zs [<- Hzs]].
    apply (gsec_shape zs (H zs Hzs)).
Qed.

(* ================================================================== *)
(* 6. the primitives, the shells, the element blocks                   *)
(* ================================================================== *)
Definition nz (ec : string * string) : bool := negb (is0_s (snd ec)).

Lemma read_prims_rows : forall n lo E C rest, List.length E = n -> List.length C = n -> (1 <= lo)%Z ->
  Forall floating E -> Forall floating C -> Forall (fun x => parse_num x <> None) C ->
  gus_read_prims n (lo - 1) (map strip_ws (map grow (trip (zrange lo n) E C)) ++ rest) =
    inr (filter nz (combine E C), rest).
Proof.
  induction n as [|n IH]; intros lo E C rest HE HC Hlo HfE HfC HpC.
  - destruct E; [|discriminate]. destruct C; [|discriminate]. reflexivity.
  - destruct E as [|e E]; [discriminate|]. destruct C as [|c C]; [discriminate|].
    inversion HfE as [|? ? He HfE']; subst. inversion HfC as [|? ? Hc HfC']; subst. inversion HpC as [|? ? Hp HpC']; subst.
    cbn [zrange trip map app gus_read_prims].
    assert (Ht : trip_ok (lo, e, c)) by (split; assumption).
    destruct (grow_facts _ Ht) as [_ [_ Htok]].
    unfold match_contraction. rewrite tokens_strip, Htok. cbn [tokrow].
    destruct (nonneg_string lo ltac:(lia)) as [Hdec Hval]. destruct (decimal_is_integer _ Hdec) as [_ [_ Hisd]].
    unfold floating in He, Hc. rewrite Hisd, He, Hc. cbn [andb]. rewrite Hval.
    replace (lo - 1 + 1)%Z with lo by lia. rewrite Z.eqb_refl. cbn [negb].
    destruct (parse_num c) as [v|] eqn:Ev; [|congruence].
    pose proof (IH (lo + 1)%Z E C rest ltac:(cbn in HE; lia) ltac:(cbn in HC; lia) ltac:(lia) HfE' HfC' HpC') as IH'.
    replace (lo + 1 - 1)%Z with lo in IH' by lia. rewrite IH'. unfold bind, ok. cbn [fst snd combine filter].
    unfold nz at 2. cbn [snd]. unfold is0_s. rewrite Ev. destruct v as [m ex]. unfold dec_nonzero. cbn [fst].
    destruct (Z.eqb m 0); reflexivity.
Qed.

Lemma ftype_ok_gus : forall a, function_type_from_am [a] "gto" "spherical" = inr (gus_ftype [a]).
Proof. intros a. reflexivity. Qed.

(* a tail behind the shells of an element block (the ECP part behind the last element, Proofs/GamessUsEcpSpec.v): the
   `while` loop of the shells ends at the first line that is not a shell header, nothing behind it is looked at *)
Definition no_shell_head (tail : list string) : Prop :=
  match tail with [] => True | l :: _ => match_shell_block l = None end.

Lemma parse_shells_blocks_tail : forall shs tail fuel, Forall shell_wf shs -> no_shell_head tail ->
  List.length (flat_map gblk shs ++ tail) <= fuel ->
  gus_parse_shells fuel (flat_map gblk shs ++ tail) = inr (gus_back_shells shs).
Proof.
  induction shs as [|s shs IH]; intros tail fuel H Ht Hf.
  - cbn [flat_map app gus_back_shells]. destruct fuel as [|f]; [reflexivity|]. destruct tail as [|l tail]; [reflexivity|].
    cbn [gus_parse_shells]. cbn [no_shell_head] in Ht. rewrite Ht. reflexivity.
  - inversion H as [|? ? Hs Hshs]; subst. cbn [flat_map] in *. rewrite <- app_assoc in *. unfold gblk at 1 in Hf. unfold gblk at 1.
    cbn [app List.length] in Hf. rewrite app_length in Hf. destruct fuel as [|f]; [lia|].
    cbn [app gus_parse_shells gus_back_shells].
    destruct (shell_wf_parts s Hs) as [Ea [Hr [Ec [Hlen [HfC [HpC HfE]]]]]].
    destruct (letter_facts (gl s) Hr) as [_ [_ [Halpha Hback]]].
    unfold ghdr. rewrite (shell_block_hdr _ _ Halpha). fold (gl s).
    destruct (gus_letter_back (gl s)) as [a|] eqn:Eb.
    + destruct Hback as [Hin Eam]. rewrite Hin, Eam. unfold bind at 1. rewrite ftype_ok_gus. unfold bind at 1.
      rewrite nat_str_val, Nat2Z.id.
      pose proof (read_prims_rows (List.length (exps s)) 1 (exps s) (gcol s) (flat_map gblk shs ++ tail) eq_refl Hlen ltac:(lia)
                                  HfE HfC HpC) as Hrd.
      change (1 - 1)%Z with 0%Z in Hrd. unfold grows, gtrip. rewrite Hrd. unfold bind at 1. cbn [fst snd].
      rewrite (IH tail f Hshs Ht ltac:(lia)). reflexivity.
    + rewrite Hback. reflexivity.
Qed.

Lemma parse_shells_blocks : forall shs fuel, Forall shell_wf shs -> List.length (flat_map gblk shs) <= fuel ->
  gus_parse_shells fuel (flat_map gblk shs) = inr (gus_back_shells shs).
Proof.
  intros shs fuel H Hf. rewrite <- (app_nil_r (flat_map gblk shs)) in *. apply parse_shells_blocks_tail; [exact H | exact I | exact Hf].
Qed.

Lemma parse_section_gus_tail : forall zs tail d, el_wf zs -> no_shell_head tail -> ~ In (fst zs) (map fst d) ->
  gus_parse_electron_lines (gsec zs ++ tail) d = inr (d ++ [(fst zs, gus_back_shells (snd zs))]).
Proof.
  intros [z shs] tail d [Hz Hshs] Ht Hd. cbn [fst snd] in *. destruct (name_facts z Hz) as [_ [_ [_ Hback]]].
  destruct (name_line_facts _ (gname_line z Hz)) as [_ [_ [Hm _]]].
  unfold gus_parse_electron_lines, gsec. cbn [fst snd app]. rewrite Hm, Hback. unfold bind at 1.
  rewrite (existsb_Zeqb_false z _ Hd), (parse_shells_blocks_tail shs tail _ Hshs Ht (le_n _)). reflexivity.
Qed.

Lemma parse_section_gus : forall zs d, el_wf zs -> ~ In (fst zs) (map fst d) ->
  gus_parse_electron_lines (gsec zs) d = inr (d ++ [(fst zs, gus_back_shells (snd zs))]).
Proof.
  intros zs d H Hd. rewrite <- (app_nil_r (gsec zs)). apply parse_section_gus_tail; [exact H | exact I | exact Hd].
Qed.

Lemma sections_parse_gus : forall els d, Forall el_wf els -> NoDup (map fst els) ->
  (forall z, In z (map fst els) -> ~ In z (map fst d)) ->
  gus_element_blocks (map gsec els) d = inr (d ++ gus_back els).
Proof.
  induction els as [|zs els IH]; intros d Hel Hnd Hdis.
  - cbn. now rewrite app_nil_r.
  - inversion Hel as [|? ? H1 H2]; subst. cbn [map] in Hnd. inversion Hnd as [|? ? Hnotin Hnd']; subst.
    cbn [map gus_element_blocks]. rewrite (parse_section_gus zs d H1); [|apply Hdis; now left]. unfold bind.
    rewrite IH; [| exact H2 | exact Hnd' |].
    + unfold gus_back. cbn [map]. rewrite <- app_assoc. reflexivity.
    + intros z Hz. rewrite map_app, in_app_iff. cbn [map In fst]. intros [Hin|[Heq|[]]].
      * apply (Hdis z); [now right | exact Hin].
      * subst z. apply Hnotin, Hz.
Qed.

(* ================================================================== *)
(* 7. the round trip                                                   *)
(* ================================================================== *)
Lemma no_ecp_lines : forall els, Forall el_wf els -> existsb is_ecp_block_line (concat (map gsec els)) = false.
Proof.
  intros els H. apply existsb_false. intros l Hl. apply in_concat in Hl. destruct Hl as [b [Hb Hl]].
  apply in_map_iff in Hb. destruct Hb as [[z shs] [<- Hzs]]. rewrite Forall_forall in H. destruct (H _ Hzs) as [Hz Hshs].
  cbn [fst snd] in *. unfold is_ecp_block_line. unfold gsec in Hl. cbn [fst snd] in Hl. destruct Hl as [E|Hl].
  - subst l. destruct (name_line_facts _ (gname_line z Hz)) as [_ [_ [_ ->]]]. reflexivity.
  - destruct (tail_line_facts l (gsec_tail_lines shs l Hshs Hl)) as [_ [_ ->]]. reflexivity.
Qed.

Lemma read_lines_gus : forall els, gus_wf els -> gus_read_electron (glines els) = inr (gus_back els).
Proof.
  intros els H. pose proof (gus_wf_els els H) as Hel. destruct H as [Hnd _].
  unfold gus_read_electron. rewrite (pruned_lines_gus els (conj Hnd Hel)). unfold gus_read_electron_blocks. fold el_cond.
  rewrite (partition_sections_gus els Hel). unfold bind. cbv beta iota.
  rewrite (sections_parse_gus els [] Hel Hnd); [|intros z _ []]. rewrite (no_ecp_lines els Hel). reflexivity.
Qed.

Lemma gus_roundtrip_letters : gus_roundtrip_letters_stmt.
Proof.
  intros els H. destruct els as [|zs els]; [reflexivity|].
  unfold gus_roundtrip. rewrite (write_electron_lines_gus _ H). unfold bind.
  rewrite (written_lines_gus _ H); [|discriminate]. apply read_lines_gus, H.
Qed.

Lemma back_shells_low : forall shs, Forall (gus_shell_wf 6) shs -> gus_back_shells shs = map gus_expected_shell shs.
Proof.
  induction shs as [|s shs IH]; intros H; [reflexivity|]. inversion H as [|? ? [[l [Ea Hl]] _] Hshs]; subst.
  cbn [gus_back_shells map]. rewrite Ea. cbn [hd]. rewrite (letter_back_low l Hl), (IH Hshs).
  unfold gus_expected_shell. rewrite Ea. reflexivity.
Qed.

Lemma gus_back_expected : gus_back_expected_stmt.
Proof.
  intros els [_ H]. unfold gus_back, gus_expected. apply map_ext_in. intros zs Hzs. rewrite Forall_forall in H.
  destruct (H zs Hzs) as [_ Hs]. now rewrite (back_shells_low _ Hs).
Qed.

Lemma gus_roundtrip_exact : gus_roundtrip_stmt.
Proof.
  intros els H. rewrite (gus_roundtrip_letters els (gus_ok_wf els H)), (gus_back_expected els H). reflexivity.
Qed.

Lemma in_combine_snd : forall (A B : Type) (a : list A) (b : list B) x, In x (combine a b) -> In (snd x) b.
Proof. intros A B a b [x y] H. apply in_combine_r in H. exact H. Qed.

Lemma gus_expected_nonzero : gus_expected_nonzero_stmt.
Proof.
  intros s c Ec Hlen Hnz. unfold gus_expected_shell, gus_back_shell, gus_kept. rewrite Ec. cbn [hd].
  rewrite filter_id.
  - rewrite map_fst_combine, map_snd_combine by (symmetry; exact Hlen). reflexivity.
  - rewrite Forall_forall in *. intros x Hx. apply in_combine_snd in Hx. rewrite (Hnz _ Hx). reflexivity.
Qed.

(* ================================================================== *)
(* 8. the hypotheses of gus_ok that cannot be dropped, and a concrete instance *)
(* ================================================================== *)
Ltac wf_shell :=
  split; [eexists; split; [reflexivity | lia]
         | split; [eexists; split; [reflexivity | split; [reflexivity | split;
                     [repeat constructor | repeat (constructor; [let H := fresh in intro H; vm_compute in H; discriminate H|]); constructor]]]
                  | repeat constructor]].

Lemma gus_roundtrip_high : gus_roundtrip_high_stmt.
Proof.
  split; [vm_compute; reflexivity|]. split; [|repeat split; vm_compute; reflexivity].
  split; [repeat constructor; cbn; tauto|]. constructor; [|constructor]. split; [cbn; lia|].
  cbn [snd]. repeat (constructor; [wf_shell|]). constructor.
Qed.
Lemma gus_roundtrip_sp : gus_roundtrip_sp_stmt.
Proof. repeat split; vm_compute; reflexivity. Qed.
Lemma gus_roundtrip_general : gus_roundtrip_general_stmt.
Proof. repeat split; vm_compute; reflexivity. Qed.
Lemma gus_roundtrip_ragged : gus_roundtrip_ragged_stmt.
Proof. repeat split; vm_compute; reflexivity. Qed.
Lemma gus_floating : gus_floating_stmt.
Proof. repeat split; vm_compute; reflexivity. Qed.
Lemma gus_float : gus_float_stmt.
Proof. repeat split; vm_compute; reflexivity. Qed.
Lemma gus_zero_coefficient : gus_zero_coefficient_stmt.
Proof.
  split; [|split; vm_compute; reflexivity].
  split; [repeat constructor; cbn; tauto|]. constructor; [|constructor]. split; [cbn; lia|].
  cbn [snd]. repeat (constructor; [wf_shell|]). constructor.
Qed.
Lemma gus_elements : gus_elements_stmt.
Proof. repeat split; vm_compute; reflexivity. Qed.
Lemma gus_roundtrip_empty : gus_roundtrip_empty_stmt.
Proof. repeat split; vm_compute; reflexivity. Qed.
Lemma gus_cartesian : gus_cartesian_stmt.
Proof. vm_compute. reflexivity. Qed.
Lemma gus_reader : gus_reader_stmt.
Proof. repeat split; vm_compute; reflexivity. Qed.

Example gus_example : gus_example_stmt.
Proof.
  split; [|repeat split; vm_compute; reflexivity].
  split; [repeat constructor; cbn; intros H; repeat (destruct H as [H|H]; [discriminate H|]); exact H|].
  constructor; [|constructor; [|constructor]]; (split; [cbn; lia|]); cbn [snd]; repeat (constructor; [wf_shell|]); constructor.
Qed.

Print Assumptions gus_letter_table.
Print Assumptions gus_letter_exact.
Print Assumptions gus_write_total.
Print Assumptions gus_ok_wf.
Print Assumptions gus_roundtrip_exact.
Print Assumptions gus_expected_nonzero.
Print Assumptions gus_roundtrip_letters.
Print Assumptions gus_back_expected.
Print Assumptions gus_no_number_lost.
Print Assumptions gus_roundtrip_high.
Print Assumptions gus_roundtrip_sp.
Print Assumptions gus_roundtrip_general.
Print Assumptions gus_roundtrip_ragged.
Print Assumptions gus_floating.
Print Assumptions gus_float.
Print Assumptions gus_zero_coefficient.
Print Assumptions gus_elements.
Print Assumptions gus_roundtrip_empty.
Print Assumptions gus_cartesian.
Print Assumptions gus_reader.
Print Assumptions gus_example.
